// c16.hpp -- C16: assembled matrices / vectors equal their integrals on every assembly route.
//
// Harness-side truth:
//  * polynomials u, v, f with small exactly representable coefficients (class Poly), handed to FEAT as
//    Analytic::Function objects (PolyFunc / PolyVecFunc) and evaluated by the oracle in long double;
//  * an OWN quadrature (Gauss-Legendre nodes computed here by Newton iteration in long double; tensor rule on the
//    multilinear hypercube cells, Duffy-collapsed tensor rule on simplices) over the MeshSpec coordinates --
//    independent of kernel/cubature and kernel/trafo.  For polynomial integrands in physical coordinates the
//    pulled-back integrand (incl. the Jacobian determinant) is a polynomial in the reference coordinates, so the rule
//    is exact when it has enough points; the number of points is chosen from the degree of the integrand.
//  * tolerance scale: |u|^T S |v| where S is assembled from the harness operator ScaleOp (absolute values of the basis
//    function values / gradient components), i.e. S_ij >= sum of the absolute values of all terms that are summed into
//    A_ij (DESIGN section 4: |computed - ref| <= K u S).
#pragma once
#include <common/vh_mesh.hpp>
#include <common/vh_lafem.hpp>
#include <kernel/analytic/function.hpp>
#include <kernel/assembly/bilinear_operator.hpp>
#include <kernel/assembly/linear_functional.hpp>
#include <kernel/assembly/bilinear_operator_assembler.hpp>
#include <kernel/assembly/linear_functional_assembler.hpp>
#include <kernel/assembly/symbolic_assembler.hpp>
#include <kernel/assembly/domain_assembler.hpp>
#include <kernel/assembly/domain_assembler_helpers.hpp>
#include <kernel/assembly/interpolator.hpp>
#include <kernel/assembly/common_operators.hpp>
#include <kernel/assembly/common_functionals.hpp>
#include <kernel/trafo/standard/mapping.hpp>
#include <kernel/space/lagrange1/element.hpp>
#include <kernel/space/lagrange2/element.hpp>
#include <kernel/space/lagrange3/element.hpp>
#include <kernel/space/cro_rav_ran_tur/element.hpp>
#include <kernel/space/discontinuous/element.hpp>
#include <kernel/lafem/sparse_matrix_csr.hpp>
#include <kernel/lafem/sparse_matrix_bcsr.hpp>
#include <kernel/lafem/dense_vector.hpp>
#include <kernel/lafem/dense_vector_blocked.hpp>
#include <functional>

namespace c16
{
  using namespace FEAT;
  typedef long double LD;
  using vh::Ctx;
  typedef LAFEM::SparseMatrixCSR<double, Index> CSRd;
  template<int bh_, int bw_> using BCSRd = LAFEM::SparseMatrixBCSR<double, Index, bh_, bw_>;

  // ------------------------------------------------------------------------------------------------ bound
  // K*u with K = 8*(len+4), len = 4096 >= (cubature points) x (cells per DOF) + local operations, times a safety
  // factor 16 for the conditioning of the Jacobian inversion.  Relative to the ABSOLUTE scale S (see ScaleOp).
  inline LD bound_factor() { return 16.0L * 8.0L * 4100.0L * (LD)std::numeric_limits<double>::epsilon(); }
  inline LD tiny() { return 1e-290L; }

  // ------------------------------------------------------------------------------------------------ polynomials
  template<int dim_>
  struct Poly
  {
    struct Term { int e[3]; double c; };
    std::vector<Term> t;
    int degree() const { int d = 0; for(auto& x : t) if(x.c != 0.0) d = std::max(d, x.e[0] + x.e[1] + x.e[2]); return d; }
    bool is_zero() const { for(auto& x : t) if(x.c != 0.0) return false; return true; }
    template<typename T_> static T_ ipow(T_ x, int e) { T_ r = T_(1); for(int i = 0; i < e; ++i) r *= x; return r; }
    template<typename T_> T_ value(const T_* x) const
    {
      T_ s = T_(0);
      for(auto& m : t) { T_ p = T_(m.c); for(int d = 0; d < dim_; ++d) p *= ipow(x[d], m.e[d]); s += p; }
      return s;
    }
    template<typename T_> void grad(const T_* x, T_* g) const
    {
      for(int k = 0; k < dim_; ++k)
      {
        g[k] = T_(0);
        for(auto& m : t)
        {
          if(m.e[k] == 0) continue;
          T_ p = T_(m.c) * T_(m.e[k]);
          for(int d = 0; d < dim_; ++d) p *= ipow(x[d], d == k ? m.e[d] - 1 : m.e[d]);
          g[k] += p;
        }
      }
    }
    template<typename T_> T_ hess(const T_* x, int a, int b) const
    {
      T_ s = T_(0);
      for(auto& m : t)
      {
        int e[3] = {m.e[0], m.e[1], m.e[2]}; T_ p = T_(m.c);
        if(e[a] == 0) continue; p *= T_(e[a]); --e[a];
        if(e[b] == 0) continue; p *= T_(e[b]); --e[b];
        for(int d = 0; d < dim_; ++d) p *= ipow(x[d], e[d]);
        s += p;
      }
      return s;
    }
    std::string str() const
    {
      std::string s;
      for(auto& m : t) { if(m.c == 0.0) continue; char b[64]; std::snprintf(b, sizeof(b), "%+gx%dy%dz%d ", m.c, m.e[0], m.e[1], m.e[2]); s += b; }
      return s.empty() ? "0" : s;
    }
    static Poly constant(double c) { Poly p; p.t.push_back({{0, 0, 0}, c}); return p; }
  };

  // random polynomial of total degree <= deg (exactly deg when deg > 0 and `exact`): coefficients are multiples of 1/4 in [-2,2]
  template<int dim_>
  Poly<dim_> random_poly(vh::Rng& r, int deg, bool exact = true)
  {
    Poly<dim_> p;
    for(int a = 0; a <= deg; ++a) for(int b = 0; a + b <= deg; ++b) for(int c2 = 0; a + b + c2 <= deg; ++c2)
    {
      if(dim_ == 2 && c2 > 0) continue;
      double co = r.coin(0.3) ? 0.0 : double(r.range(-8, 8)) / 4.0;
      p.t.push_back({{a, b, c2}, co});
    }
    if(exact && p.degree() < deg)
    {
      for(auto& m : p.t) if(m.e[0] + m.e[1] + m.e[2] == deg) { m.c = r.coin() ? 1.25 : -0.75; break; }
    }
    return p;
  }

  // FEAT side: scalar analytic function
  template<int dim_>
  class PolyFunc : public Analytic::Function
  {
  public:
    static constexpr int domain_dim = dim_;
    typedef Analytic::Image::Scalar ImageType;
    static constexpr bool can_value = true, can_grad = true, can_hess = true;
    Poly<dim_> p;
    PolyFunc() {}
    explicit PolyFunc(const Poly<dim_>& q) : p(q) {}
    template<typename Traits_>
    class Evaluator : public Analytic::Function::Evaluator<Traits_>
    {
    public:
      typedef typename Traits_::DataType DataType;
      typedef typename Traits_::PointType PointType;
      typedef typename Traits_::ValueType ValueType;
      typedef typename Traits_::GradientType GradientType;
      typedef typename Traits_::HessianType HessianType;
      const Poly<dim_>& p;
      explicit Evaluator(const PolyFunc& f) : p(f.p) {}
      ValueType value(const PointType& x) { DataType y[3] = {}; for(int d = 0; d < dim_; ++d) y[d] = x[d]; return p.value(y); }
      GradientType gradient(const PointType& x)
      { DataType y[3] = {}, g[3] = {}; for(int d = 0; d < dim_; ++d) y[d] = x[d]; p.grad(y, g); GradientType r; for(int d = 0; d < dim_; ++d) r[d] = g[d]; return r; }
      HessianType hessian(const PointType& x)
      { DataType y[3] = {}; for(int d = 0; d < dim_; ++d) y[d] = x[d]; HessianType h; for(int a = 0; a < dim_; ++a) for(int b = 0; b < dim_; ++b) h[a][b] = p.hess(y, a, b); return h; }
    };
  };

  // FEAT side: vector-valued analytic function with n_ polynomial components
  template<int dim_, int n_>
  class PolyVecFunc : public Analytic::Function
  {
  public:
    static constexpr int domain_dim = dim_;
    typedef Analytic::Image::Vector<n_> ImageType;
    static constexpr bool can_value = true, can_grad = true, can_hess = true;
    Poly<dim_> p[n_];
    template<typename Traits_>
    class Evaluator : public Analytic::Function::Evaluator<Traits_>
    {
    public:
      typedef typename Traits_::DataType DataType;
      typedef typename Traits_::PointType PointType;
      typedef typename Traits_::ValueType ValueType;
      typedef typename Traits_::GradientType GradientType;
      typedef typename Traits_::HessianType HessianType;
      const PolyVecFunc& f;
      explicit Evaluator(const PolyVecFunc& f_) : f(f_) {}
      ValueType value(const PointType& x)
      { DataType y[3] = {}; for(int d = 0; d < dim_; ++d) y[d] = x[d]; ValueType v; for(int i = 0; i < n_; ++i) v[i] = f.p[i].value(y); return v; }
      GradientType gradient(const PointType& x)
      {
        DataType y[3] = {}, g[3] = {}; for(int d = 0; d < dim_; ++d) y[d] = x[d];
        GradientType r; for(int i = 0; i < n_; ++i) { f.p[i].grad(y, g); for(int d = 0; d < dim_; ++d) r[i][d] = g[d]; } return r;
      }
      HessianType hessian(const PointType& x)
      {
        DataType y[3] = {}; for(int d = 0; d < dim_; ++d) y[d] = x[d];
        HessianType h; for(int i = 0; i < n_; ++i) for(int a = 0; a < dim_; ++a) for(int b = 0; b < dim_; ++b) h[i][a][b] = f.p[i].hess(y, a, b); return h;
      }
    };
  };

  // ------------------------------------------------------------------------------------------------ own quadrature
  // Gauss-Legendre nodes/weights on [0,1], computed here (Newton iteration on the Legendre recurrence, long double)
  struct Gauss { std::vector<LD> x, w; };
  inline const Gauss& gauss01(int n)
  {
    static std::map<int, Gauss> cache;
    auto it = cache.find(n); if(it != cache.end()) return it->second;
    Gauss g; g.x.resize(std::size_t(n)); g.w.resize(std::size_t(n));
    const LD pi = 3.14159265358979323846264338327950288L;
    for(int i = 0; i < n; ++i)
    {
      LD x = std::cos(pi * (LD(i) + 0.75L) / (LD(n) + 0.5L)), dp = 1;
      for(int itn = 0; itn < 200; ++itn)
      {
        LD p0 = 1, p1 = x;
        for(int k = 2; k <= n; ++k) { LD p2 = ((2 * k - 1) * x * p1 - (k - 1) * p0) / k; p0 = p1; p1 = p2; }
        if(n == 0) { p1 = 1; }
        dp = n * (x * p1 - p0) / (x * x - 1);
        LD dx = p1 / dp; x -= dx;
        if(std::fabs(dx) < 1e-21L) break;
      }
      { LD p0 = 1, p1 = x; for(int k = 2; k <= n; ++k) { LD p2 = ((2 * k - 1) * x * p1 - (k - 1) * p0) / k; p0 = p1; p1 = p2; } dp = n * (x * p1 - p0) / (x * x - 1); }
      g.x[std::size_t(i)] = (1 + x) / 2; g.w[std::size_t(i)] = 1 / ((1 - x * x) * dp * dp);
    }
    return cache[n] = g;
  }

  struct QP { LD x[3]; LD w; };

  template<typename Shape_> struct IsSimplex { static constexpr bool value = false; };
  template<int d_> struct IsSimplex<Shape::Simplex<d_>> { static constexpr bool value = true; };

  inline LD det3(const LD J[3][3], int dim)
  {
    if(dim == 2) return J[0][0] * J[1][1] - J[0][1] * J[1][0];
    return J[0][0] * (J[1][1] * J[2][2] - J[1][2] * J[2][1]) - J[0][1] * (J[1][0] * J[2][2] - J[1][2] * J[2][0]) + J[0][2] * (J[1][0] * J[2][1] - J[1][1] * J[2][0]);
  }

  // appends the n^dim quadrature points (physical coordinates, weights incl. |det J|) of cell c; returns the smallest det J seen
  template<typename Shape_>
  LD cell_quad(const vm::MeshSpec<Shape_>& m, Index c, int n, std::vector<QP>& out)
  {
    constexpr int dim = vm::ShapeInfo<Shape_>::dim, nv = vm::ShapeInfo<Shape_>::nv;
    const Gauss& g = gauss01(n);
    LD X[8][3]; for(int v = 0; v < nv; ++v) for(int d = 0; d < 3; ++d) X[v][d] = (LD)m.verts[m.cells[c][std::size_t(v)]][std::size_t(d)];
    LD mindet = 1e300L;
    int idx[3] = {0, 0, 0};
    const int tot = dim == 2 ? n * n : n * n * n;
    for(int q = 0; q < tot; ++q)
    {
      idx[0] = q % n; idx[1] = (q / n) % n; idx[2] = dim == 3 ? q / (n * n) : 0;
      LD t[3] = {g.x[std::size_t(idx[0])], g.x[std::size_t(idx[1])], dim == 3 ? g.x[std::size_t(idx[2])] : 0.0L};
      LD w = g.w[std::size_t(idx[0])] * g.w[std::size_t(idx[1])] * (dim == 3 ? g.w[std::size_t(idx[2])] : 1.0L);
      QP p; p.x[0] = p.x[1] = p.x[2] = 0;
      LD J[3][3] = {{0, 0, 0}, {0, 0, 0}, {0, 0, 0}};
      if(IsSimplex<Shape_>::value)
      {
        // Duffy: lambda_1 = t1, lambda_2 = t2 (1-t1), lambda_3 = t3 (1-t1)(1-t2)
        LD lam[3], dj;
        lam[0] = t[0]; lam[1] = t[1] * (1 - t[0]);
        if(dim == 3) { lam[2] = t[2] * (1 - t[0]) * (1 - t[1]); dj = (1 - t[0]) * (1 - t[0]) * (1 - t[1]); }
        else { lam[2] = 0; dj = (1 - t[0]); }
        for(int i = 0; i < dim; ++i) { p.x[i] = X[0][i]; for(int k = 0; k < dim; ++k) { J[i][k] = X[k + 1][i] - X[0][i]; p.x[i] += J[i][k] * lam[k]; } }
        LD det = det3(J, dim);
        mindet = std::min(mindet, det);
        p.w = w * dj * det;
      }
      else
      {
        for(int v = 0; v < nv; ++v)
        {
          LD N = 1; for(int k = 0; k < dim; ++k) N *= ((v >> k) & 1) ? t[k] : 1 - t[k];
          for(int i = 0; i < dim; ++i) p.x[i] += X[v][i] * N;
          for(int k = 0; k < dim; ++k)
          {
            LD dN = ((v >> k) & 1) ? 1.0L : -1.0L;
            for(int l = 0; l < dim; ++l) if(l != k) dN *= ((v >> l) & 1) ? t[l] : 1 - t[l];
            for(int i = 0; i < dim; ++i) J[i][k] += X[v][i] * dN;
          }
        }
        LD det = det3(J, dim);
        mindet = std::min(mindet, det);
        p.w = w * det;
      }
      out.push_back(p);
    }
    return mindet;
  }

  // number of Gauss points per direction so that a polynomial integrand of total degree D in physical coordinates
  // is integrated exactly: the pulled-back integrand has degree <= D + (dim-1) per reference variable
  inline int own_points(int D, int dim) { return (D + dim) / 2 + 2; }

  template<typename Shape_>
  struct MeshQuad
  {
    std::vector<QP> pts; LD mindet = 1e300L; int n = 0;
    void build(const vm::MeshSpec<Shape_>& m, int D)
    {
      const int nn = own_points(D, vm::ShapeInfo<Shape_>::dim);
      if(nn <= n) return;
      n = nn; pts.clear(); mindet = 1e300L;
      for(Index c = 0; c < m.num_cells(); ++c) mindet = std::min(mindet, cell_quad(m, c, n, pts));
    }
    template<typename F_> LD integrate(F_&& f) const { LD s = 0; for(auto& p : pts) s += p.w * f(p.x); return s; }
  };

  // all cells affine (parallelograms / parallelepipeds)? simplices: always
  template<typename Shape_>
  bool cells_affine(const vm::MeshSpec<Shape_>& m)
  {
    if(IsSimplex<Shape_>::value) return true;
    constexpr int dim = vm::ShapeInfo<Shape_>::dim, nv = vm::ShapeInfo<Shape_>::nv;
    for(auto& c : m.cells)
      for(int v = 0; v < nv; ++v)
      {
        // affine <=> X_v = X_0 + sum_k bit_k(v) (X_{2^k} - X_0)
        for(int d = 0; d < dim; ++d)
        {
          double e = m.verts[c[0]][std::size_t(d)];
          for(int k = 0; k < dim; ++k) if((v >> k) & 1) e += m.verts[c[std::size_t(1 << k)]][std::size_t(d)] - m.verts[c[0]][std::size_t(d)];
          if(std::fabs(e - m.verts[c[std::size_t(v)]][std::size_t(d)]) > 1e-12) return false;
        }
      }
    return true;
  }

  // ------------------------------------------------------------------------------------------------ scalar images of FEAT matrices
  struct Img
  {
    Index R = 0, C = 0;
    std::vector<Index> rp, ci; std::vector<LD> v;   // scalar CSR, columns sorted per row
    const LD* find(Index i, Index j) const
    {
      auto b = ci.begin() + long(rp[i]), e = ci.begin() + long(rp[i + 1]);
      auto it = std::lower_bound(b, e, j);
      if(it == e || *it != j) return nullptr;
      return &v[std::size_t(it - ci.begin())];
    }
    LD at(Index i, Index j) const { const LD* p = find(i, j); return p ? *p : 0.0L; }
    Index nnz() const { return Index(ci.size()); }
  };

  // decodes from the raw arrays; returns false + why on a structurally invalid matrix
  template<typename DT_, typename IT_>
  bool decode(const LAFEM::SparseMatrixCSR<DT_, IT_>& a, Img& o, std::string& why)
  {
    o = Img(); o.R = a.rows(); o.C = a.columns(); o.rp.assign(o.R + 1, 0);
    const Index nz = a.used_elements();
    if(nz == 0) return true;
    const IT_* rp = a.row_ptr(); const IT_* ci = a.col_ind(); const DT_* v = a.val();
    if(!rp || !ci || !v) { why = "null arrays"; return false; }
    if(Index(rp[o.R]) != nz || rp[0] != 0) { why = "row_ptr inconsistent"; return false; }
    o.ci.resize(nz); o.v.resize(nz);
    for(Index i = 0; i < o.R; ++i)
    {
      if(rp[i + 1] < rp[i]) { why = "row_ptr not monotone"; return false; }
      o.rp[i + 1] = Index(rp[i + 1]);
      std::vector<std::pair<Index, LD>> row;
      for(IT_ k = rp[i]; k < rp[i + 1]; ++k) { if(Index(ci[k]) >= o.C) { why = "column out of range"; return false; } row.push_back({Index(ci[k]), (LD)v[k]}); }
      std::sort(row.begin(), row.end());
      for(std::size_t k = 0; k < row.size(); ++k)
      {
        if(k > 0 && row[k].first == row[k - 1].first) { why = "duplicate column"; return false; }
        o.ci[std::size_t(rp[i]) + k] = row[k].first; o.v[std::size_t(rp[i]) + k] = row[k].second;
      }
    }
    return true;
  }
  template<typename DT_, typename IT_, int BH_, int BW_>
  bool decode(const LAFEM::SparseMatrixBCSR<DT_, IT_, BH_, BW_>& a, Img& o, std::string& why)
  {
    o = Img(); const Index RB = a.rows(), CB = a.columns(); o.R = RB * BH_; o.C = CB * BW_; o.rp.assign(o.R + 1, 0);
    const Index nzb = a.used_elements();
    if(nzb == 0) return true;
    const IT_* rp = a.row_ptr(); const IT_* ci = a.col_ind(); const DT_* v = reinterpret_cast<const DT_*>(a.val());
    if(!rp || !ci || !v) { why = "null arrays"; return false; }
    if(Index(rp[RB]) != nzb || rp[0] != 0) { why = "row_ptr inconsistent"; return false; }
    for(Index ib = 0; ib < RB; ++ib)
    {
      if(rp[ib + 1] < rp[ib]) { why = "row_ptr not monotone"; return false; }
      std::vector<std::pair<Index, Index>> row; // (block col, position)
      for(IT_ k = rp[ib]; k < rp[ib + 1]; ++k) { if(Index(ci[k]) >= CB) { why = "column out of range"; return false; } row.push_back({Index(ci[k]), Index(k)}); }
      std::sort(row.begin(), row.end());
      for(std::size_t k = 1; k < row.size(); ++k) if(row[k].first == row[k - 1].first) { why = "duplicate column"; return false; }
      for(int aa = 0; aa < BH_; ++aa)
      {
        for(auto& e : row) for(int bb = 0; bb < BW_; ++bb)
        { o.ci.push_back(e.first * BW_ + Index(bb)); o.v.push_back((LD)v[std::size_t(e.second) * std::size_t(BH_ * BW_) + std::size_t(aa * BW_ + bb)]); }
        o.rp[ib * BH_ + Index(aa) + 1] = Index(o.ci.size());
      }
    }
    return true;
  }

  // scale lookup: scalar scale image over the block pattern
  struct Scale
  {
    const Img* s = nullptr; int bh = 1, bw = 1; LD cmax = 1;
    LD at(Index r, Index c2) const { return cmax * s->at(r / Index(bh), c2 / Index(bw)); }
  };

  template<typename V_> std::vector<LD> read_vec(const V_& x)
  {
    typedef typename V_::DataType DT;
    const DT* e = reinterpret_cast<const DT*>(x.elements());
    const Index n = x.template size<LAFEM::Perspective::pod>();
    std::vector<LD> v(n); for(Index i = 0; i < n; ++i) v[i] = (LD)e[i];
    return v;
  }

  // ------------------------------------------------------------------------------------------------ harness scale operator / functional
  // mode bit 0: |value|, bit 1: sum_k |grad_k|
  template<int trial_mode_, int test_mode_>
  class ScaleOp : public Assembly::BilinearOperator
  {
  public:
    static constexpr TrafoTags trafo_config = TrafoTags::none;
    static constexpr SpaceTags test_config = ((test_mode_ & 1) ? SpaceTags::value : SpaceTags::none) | ((test_mode_ & 2) ? SpaceTags::grad : SpaceTags::none);
    static constexpr SpaceTags trial_config = ((trial_mode_ & 1) ? SpaceTags::value : SpaceTags::none) | ((trial_mode_ & 2) ? SpaceTags::grad : SpaceTags::none);
    template<typename AsmTraits_>
    class Evaluator : public Assembly::BilinearOperator::Evaluator<AsmTraits_>
    {
    public:
      typedef typename AsmTraits_::DataType DataType;
      typedef typename AsmTraits_::TestBasisData TestBasisData;
      typedef typename AsmTraits_::TrialBasisData TrialBasisData;
      typedef DataType ValueType;
      explicit Evaluator(const ScaleOp&) {}
      template<int mode_, typename BD_> static DataType mag(const BD_& b)
      {
        DataType s = DataType(0);
        if constexpr((mode_ & 1) != 0) s += Math::abs(b.value);
        if constexpr((mode_ & 2) != 0) for(int k = 0; k < b.grad.n; ++k) s += Math::abs(b.grad[k]);
        return s;
      }
      ValueType eval(const TrialBasisData& phi, const TestBasisData& psi) { return mag<trial_mode_>(phi) * mag<test_mode_>(psi); }
    };
  };

  // |f| * |psi| for the vector scale
  template<int dim_>
  class ScaleFunctional : public Assembly::LinearFunctional
  {
  public:
    static constexpr TrafoTags trafo_config = TrafoTags::img_point;
    static constexpr SpaceTags test_config = SpaceTags::value;
    const Poly<dim_>* comps; int nc; int lapl;
    ScaleFunctional(const Poly<dim_>* p, int n, bool laplace) : comps(p), nc(n), lapl(laplace ? 1 : 0) {}
    template<typename AsmTraits_>
    class Evaluator : public Assembly::LinearFunctional::Evaluator<AsmTraits_>
    {
    public:
      typedef typename AsmTraits_::DataType DataType;
      typedef typename AsmTraits_::TrafoData TrafoData;
      typedef typename AsmTraits_::TestBasisData TestBasisData;
      typedef DataType ValueType;
      const ScaleFunctional& f; DataType mag;
      explicit Evaluator(const ScaleFunctional& f_) : f(f_), mag(0) {}
      void set_point(const TrafoData& tau)
      {
        DataType y[3] = {}; for(int d = 0; d < dim_; ++d) y[d] = tau.img_point[d];
        mag = DataType(0);
        for(int i = 0; i < f.nc; ++i)
        {
          // sum of |monomial terms| (upper bound of what any evaluation order can accumulate)
          for(auto& m : f.comps[i].t)
          {
            if(!f.lapl) { DataType p = Math::abs(DataType(m.c)); for(int d = 0; d < dim_; ++d) p *= Poly<dim_>::ipow(Math::abs(y[d]), m.e[d]); mag += p; }
            else for(int a = 0; a < dim_; ++a)
            {
              if(m.e[a] < 2) continue;
              DataType p = Math::abs(DataType(m.c)) * DataType(m.e[a] * (m.e[a] - 1));
              for(int d = 0; d < dim_; ++d) p *= Poly<dim_>::ipow(Math::abs(y[d]), d == a ? m.e[d] - 2 : m.e[d]);
              mag += p;
            }
          }
        }
      }
      ValueType eval(const TestBasisData& psi) const { return mag * Math::abs(psi.value); }
    };
  };

  // ------------------------------------------------------------------------------------------------ mesh environment
  template<typename Shape_>
  struct Env
  {
    static constexpr int dim = vm::ShapeInfo<Shape_>::dim;
    typedef Shape_ ShapeType;
    typedef Geometry::ConformalMesh<Shape_, dim, double> MeshType;
    typedef Trafo::Standard::Mapping<MeshType> TrafoType;
    typedef Assembly::DomainAssembler<TrafoType> DomAsm;
    vm::MeshSpec<Shape_> spec;
    std::unique_ptr<MeshType> mesh;
    std::unique_ptr<TrafoType> trafo;
    std::unique_ptr<DomAsm> dom_serial, dom_thr;
    bool affine = true; LD volume = 0; std::string thr_desc;
    MeshQuad<Shape_> quad;

    void build(Ctx& c)
    {
      mesh = vm::build(spec);
      trafo.reset(new TrafoType(*mesh));
      affine = cells_affine(spec);
      volume = 0; for(Index i = 0; i < spec.num_cells(); ++i) volume += vm::cell_volume(spec, i);
      dom_serial.reset(new DomAsm(*trafo)); dom_serial->set_max_worker_threads(0); dom_serial->compile_all_elements();
      dom_thr.reset(new DomAsm(*trafo));
      static const Assembly::ThreadingStrategy ss[4] = {Assembly::ThreadingStrategy::automatic, Assembly::ThreadingStrategy::layered,
        Assembly::ThreadingStrategy::layered_sorted, Assembly::ThreadingStrategy::colored};
      static const char* sn[4] = {"automatic", "layered", "layered_sorted", "colored"};
      const std::size_t si = std::size_t(c.rng.below(4)); const std::size_t nw = std::size_t(c.rng.range(2, 4));
      dom_thr->set_threading_strategy(ss[si]); dom_thr->set_max_worker_threads(nw); dom_thr->compile_all_elements();
      thr_desc = std::string(sn[si]) + ":" + std::to_string(nw);
    }
  };

  // quick: <= 200 cells, thorough: <= 5000 cells (most cases much smaller)
  inline Index pick_cells(Ctx& c, Index hard_cap)
  {
    Index cap = c.thorough() ? 5000 : 200; if(cap > hard_cap) cap = hard_cap;
    const double u = c.rng.unit();
    Index n;
    if(u < 0.55) n = Index(c.rng.range(1, 24));
    else if(u < 0.9) n = Index(c.rng.range(16, long(std::max<Index>(cap / 4, 17))));
    else n = Index(c.rng.range(long(std::max<Index>(cap / 4, 17)), long(cap)));
    return std::min(n, cap);
  }

  template<typename Shape_> struct MeshGen;
  template<> struct MeshGen<Shape::Hypercube<2>>
  {
    static vm::MeshSpec<Shape::Hypercube<2>> make(Ctx& c, Index cap, double& h)
    {
      const Index nc = pick_cells(c, cap);
      if(c.rng.coin(0.12) && nc >= 3) { Index k = std::min<Index>(std::max<Index>(nc, 3), 12); h = 0; c.tag("mesh:star"); return vm::quad_star(k); }
      Index nx = Index(c.rng.range(1, long(std::max<Index>(1, Index(std::sqrt(double(nc)) * 1.6))))); Index ny = std::max<Index>(1, nc / nx);
      if(c.rng.coin()) std::swap(nx, ny);
      h = 1.0 / double(std::max(nx, ny)); c.tag("mesh:grid");
      return vm::quad_grid(nx, ny);
    }
  };
  template<> struct MeshGen<Shape::Simplex<2>>
  {
    static vm::MeshSpec<Shape::Simplex<2>> make(Ctx& c, Index cap, double& h)
    {
      const Index nc = std::max<Index>(2, pick_cells(c, cap)) / 2;
      Index nx = Index(c.rng.range(1, long(std::max<Index>(1, Index(std::sqrt(double(nc)) * 1.6))))); Index ny = std::max<Index>(1, nc / nx);
      if(c.rng.coin()) std::swap(nx, ny);
      h = 1.0 / double(std::max(nx, ny)); c.tag("mesh:grid");
      if(c.rng.coin()) return vm::tria_grid(nx, ny, &c.rng);
      return vm::tria_grid(nx, ny);
    }
  };
  template<> struct MeshGen<Shape::Hypercube<3>>
  {
    static vm::MeshSpec<Shape::Hypercube<3>> make(Ctx& c, Index cap, double& h)
    {
      const Index nc = pick_cells(c, cap);
      const Index m = std::max<Index>(1, Index(std::cbrt(double(nc)) * 1.5));
      Index nx = Index(c.rng.range(1, long(m))), ny = Index(c.rng.range(1, long(m))); Index nz = std::max<Index>(1, nc / (nx * ny));
      h = 1.0 / double(std::max(nx, std::max(ny, nz))); c.tag("mesh:grid");
      return vm::hexa_grid(nx, ny, nz);
    }
  };
  template<> struct MeshGen<Shape::Simplex<3>>
  {
    static vm::MeshSpec<Shape::Simplex<3>> make(Ctx& c, Index cap, double& h)
    {
      const Index nc = std::max<Index>(6, pick_cells(c, cap)) / 6;
      const Index m = std::max<Index>(1, Index(std::cbrt(double(nc)) * 1.5));
      Index nx = Index(c.rng.range(1, long(m))), ny = Index(c.rng.range(1, long(m))); Index nz = std::max<Index>(1, nc / (nx * ny));
      h = 1.0 / double(std::max(nx, std::max(ny, nz))); c.tag("mesh:grid");
      return vm::tetra_grid(nx, ny, nz);
    }
  };

  // generates the mesh of a case: structured mesh, then (optionally) interior distortion, affine image, local re-orientation
  // of every cell, renumbering of cells and vertices
  template<typename Shape_>
  void gen_env(Ctx& c, Env<Shape_>& e, Index cap, bool hostile_boundary = false)
  {
    double h = 0;
    e.spec = MeshGen<Shape_>::make(c, cap, h);
    c.tag(std::string("shape:") + vm::ShapeInfo<Shape_>::name());
    if(h > 0 && c.rng.coin(0.5)) vm::distort_interior(e.spec, c.rng, h, c.rng.coin() ? 0.15 : 0.3);
    // general (non-parallelogram) but still flat boundary facets: the facet Jacobian is no longer constant
    if(h > 0 && (c.rng.coin(0.4) || hostile_boundary)) vm::distort_boundary_tangential(e.spec, c.rng, h, c.rng.coin() ? 0.15 : 0.3);
    if(c.rng.coin(0.4)) vm::affine_map(e.spec, c.rng);
    if(c.rng.coin(0.6) || hostile_boundary) vm::reorient_cells(e.spec, c.rng);
    if(c.rng.coin(0.5)) vm::permute_cells(e.spec, c.rng);
    if(c.rng.coin(0.5)) vm::permute_vertices(e.spec, c.rng);
    for(auto& t : e.spec.tags) c.tag(t);
    e.build(c);
    c.tag(e.affine ? "cells:affine" : "cells:nonaffine");
    const Index nc = e.spec.num_cells();
    c.tag(nc <= 4 ? "n:1-4" : nc <= 32 ? "n:5-32" : nc <= 200 ? "n:33-200" : "n:200+");
  }

  // ------------------------------------------------------------------------------------------------ space descriptors
  struct SpaceInfo { const char* name; int p; bool pou; bool has_grad; bool parametric; };
  struct SL1 { static constexpr bool parametric = true; template<typename T_> using S = Space::Lagrange1::Element<T_>; static constexpr bool has_grad = true; static SpaceInfo info() { return {"L1", 1, true, true, true}; } };
  struct SL2 { static constexpr bool parametric = true; template<typename T_> using S = Space::Lagrange2::Element<T_>; static constexpr bool has_grad = true; static SpaceInfo info() { return {"L2", 2, true, true, true}; } };
  struct SL3 { static constexpr bool parametric = true; template<typename T_> using S = Space::Lagrange3::Element<T_>; static constexpr bool has_grad = true; static SpaceInfo info() { return {"L3", 3, true, true, true}; } };
  struct SCR { static constexpr bool parametric = false; template<typename T_> using S = Space::CroRavRanTur::Element<T_>; static constexpr bool has_grad = true; static SpaceInfo info() { return {"CRRT", 1, true, true, false}; } };
  struct SD0 { static constexpr bool parametric = false; template<typename T_> using S = Space::Discontinuous::Element<T_, Space::Discontinuous::Variant::StdPolyP<0>>; static constexpr bool has_grad = false; static SpaceInfo info() { return {"Disc0", 0, true, false, false}; } };
  struct SD1 { static constexpr bool parametric = false; template<typename T_> using S = Space::Discontinuous::Element<T_, Space::Discontinuous::Variant::StdPolyP<1>>; static constexpr bool has_grad = true; static SpaceInfo info() { return {"Disc1", 1, false, true, false}; } };

  // polynomial degree contained in the space on EVERY cell of this mesh
  inline int space_degree(const SpaceInfo& s, bool affine, bool simplex)
  {
    if(std::string(s.name) == "Disc1" && !simplex && !affine) return 0; // documented scope: parametric P1 on the reference cell
    return s.p;
  }

  template<typename Space_, typename Poly_>
  std::vector<LD> interpolate(const Space_& space, const Poly_& p)
  {
    constexpr int dim = Space_::shape_dim;
    PolyFunc<dim> f(p);
    LAFEM::DenseVector<double, Index> v;
    Assembly::Interpolator::project(v, f, space);
    return read_vec(v);
  }

  // ------------------------------------------------------------------------------------------------ forms (the documented integrands)
  struct FV { LD v; LD g[3]; };  // value and gradient of one component at a point

  struct Form
  {
    std::string name;
    int nt = 1, ns = 1;            // components of the trial (columns, BW) and test (rows, BH) function
    bool sym = false;              // a(u,v) = a(v,u)
    bool ker_trial = false;        // a(const, v) = 0  => A * interp(const) = 0
    bool ker_test = false;         // a(u, const) = 0  => interp(const)^T A = 0
    bool mass = false;             // a(1,1) = |Omega| (scalar) / per component
    int smode = 3;                 // ScaleOp modes for the tolerance scale: 10*trial_mode + test_mode (1 |value|, 2 sum|grad_k|, 3 both); m < 10 means (m,m)
    LD cmax = 1;                   // bound of the coefficients multiplying the products of basis data
    int du = 0, dv = 0;            // derivative orders applied to u / v (for the degree of the integrand)
    int extra_deg = 0;             // degree of polynomial coefficients (convection field ...)
    std::function<LD(const FV* U, const FV* V, const LD* x)> g;
    int degree(int pu, int pv) const { return std::max(0, pu - du) + std::max(0, pv - dv) + extra_deg; }
  };

  template<int dim_>
  inline void eval_fv(const Poly<dim_>* P, int n, const LD* x, FV* out)
  {
    for(int i = 0; i < n; ++i) { out[i].v = P[i].value(x); out[i].g[0] = out[i].g[1] = out[i].g[2] = 0; P[i].grad(x, out[i].g); }
  }

  // ------------------------------------------------------------------------------------------------ generic monitors on images
  struct Tol { LD B; };

  // |A - beta*Bm| entrywise on identical patterns
  inline bool compare_same_pattern(Ctx& c, const std::string& op, const std::string& kind, const Img& A, const Img& Bm, LD beta, const Scale& S, const std::string& what)
  {
    c.event();
    if(A.R != Bm.R || A.C != Bm.C || A.ci != Bm.ci || A.rp != Bm.rp)
    { c.viol(op, "pattern-differs", vh::J().kv("what", what).kv("nnz_a", (unsigned long)A.nnz()).kv("nnz_b", (unsigned long)Bm.nnz()).str()); return false; }
    const LD B = bound_factor();
    for(Index i = 0; i < A.R; ++i) for(Index k = A.rp[i]; k < A.rp[i + 1]; ++k)
    {
      const LD s = S.at(i, A.ci[k]) * std::max<LD>(1.0L, std::fabs(beta));
      const LD d = std::fabs(A.v[k] - beta * Bm.v[k]);
      if(!(d <= B * s + tiny()))
      {
        c.viol(op, kind, vh::J().kv("what", what).kv("row", (unsigned long)i).kv("col", (unsigned long)A.ci[k]).kv("got", A.v[k]).kv("expected", beta * Bm.v[k])
          .kv("diff", d).kv("bound", B * s).kv("scale", s).str());
        return false;
      }
    }
    return true;
  }

  // the dense-pattern result D against the sparse result A (symbolic pattern): every entry of D that is non-zero above
  // rounding must be present in A's pattern and equal; every entry of A must equal D
  inline void compare_dense(Ctx& c, const std::string& op, const Img& A, const Img& D, const Scale& SD, const std::string& what)
  {
    c.event();
    const LD B = bound_factor();
    Index missing = 0, differs = 0;
    for(Index i = 0; i < D.R; ++i) for(Index k = D.rp[i]; k < D.rp[i + 1]; ++k)
    {
      const Index j = D.ci[k]; const LD s = SD.at(i, j);
      const LD* pa = A.find(i, j);
      if(!pa)
      {
        if(std::fabs(D.v[k]) > B * s + tiny())
        {
          if(missing++ == 0)
            c.viol(op, "coupling-not-in-pattern", vh::J().kv("what", what).kv("row", (unsigned long)i).kv("col", (unsigned long)j).kv("dense_value", D.v[k]).kv("bound", B * s).str());
        }
        continue;
      }
      if(!(std::fabs(*pa - D.v[k]) <= B * s + tiny()))
      {
        if(differs++ == 0)
          c.viol(op, "sparse-differs-from-dense", vh::J().kv("what", what).kv("row", (unsigned long)i).kv("col", (unsigned long)j).kv("sparse", *pa).kv("dense", D.v[k]).kv("bound", B * s).str());
      }
    }
  }

  // v^T A u  (rows = test)
  inline void bilinear_value(const Img& A, const std::vector<LD>& vtest, const std::vector<LD>& utrial, const Scale& S, LD& val, LD& scale)
  {
    val = 0; scale = 0;
    for(Index i = 0; i < A.R; ++i)
    {
      if(vtest[i] == 0) continue;
      LD r = 0, rs = 0;
      for(Index k = A.rp[i]; k < A.rp[i + 1]; ++k) { r += A.v[k] * utrial[A.ci[k]]; rs += S.at(i, A.ci[k]) * std::fabs(utrial[A.ci[k]]); }
      val += vtest[i] * r; scale += std::fabs(vtest[i]) * rs;
    }
  }

  // expands per-component scalar coefficient vectors into the interleaved (blocked) ordering
  inline std::vector<LD> interleave(const std::vector<std::vector<LD>>& comp)
  {
    const std::size_t nb = comp.size(), n = comp.empty() ? 0 : comp[0].size();
    std::vector<LD> r(nb * n);
    for(std::size_t i = 0; i < n; ++i) for(std::size_t b = 0; b < nb; ++b) r[i * nb + b] = comp[b][i];
    return r;
  }

  inline void check_kernel(Ctx& c, const std::string& op, const Img& A, const Scale& S, const std::vector<LD>& one, int ncomp_trial, int ncomp_test, bool trial, bool test)
  {
    const LD B = bound_factor();
    // one: scalar interpolant of 1 (per DOF)
    if(trial)
    {
      c.event();
      for(int b = 0; b < ncomp_trial; ++b)
      {
        bool bad = false;
        for(Index i = 0; i < A.R && !bad; ++i)
        {
          LD r = 0, s = 0;
          for(Index k = A.rp[i]; k < A.rp[i + 1]; ++k) if(int(A.ci[k] % Index(ncomp_trial)) == b) { const LD o = one[A.ci[k] / Index(ncomp_trial)]; r += A.v[k] * o; s += S.at(i, A.ci[k]) * std::fabs(o); }
          if(!(std::fabs(r) <= B * s + tiny()))
          { c.viol(op, "constant-not-annihilated", vh::J().kv("side", "trial").kv("component", b).kv("row", (unsigned long)i).kv("residual", r).kv("bound", B * s).str()); bad = true; }
        }
      }
    }
    if(test)
    {
      c.event();
      std::vector<LD> cs(A.C, 0.0L), ss(A.C, 0.0L);
      for(int a = 0; a < ncomp_test; ++a)
      {
        std::fill(cs.begin(), cs.end(), 0.0L); std::fill(ss.begin(), ss.end(), 0.0L);
        for(Index i = 0; i < A.R; ++i) if(int(i % Index(ncomp_test)) == a)
        {
          const LD o = one[i / Index(ncomp_test)];
          for(Index k = A.rp[i]; k < A.rp[i + 1]; ++k) { cs[A.ci[k]] += o * A.v[k]; ss[A.ci[k]] += std::fabs(o) * S.at(i, A.ci[k]); }
        }
        for(Index j = 0; j < A.C; ++j) if(!(std::fabs(cs[j]) <= B * ss[j] + tiny()))
        { c.viol(op, "constant-not-annihilated", vh::J().kv("side", "test").kv("component", a).kv("col", (unsigned long)j).kv("residual", cs[j]).kv("bound", B * ss[j]).str()); break; }
      }
    }
  }

  inline void check_symmetry(Ctx& c, const std::string& op, const Img& A, const Scale& S)
  {
    c.event();
    const LD B = bound_factor(); bool bitwise = true;
    for(Index i = 0; i < A.R; ++i) for(Index k = A.rp[i]; k < A.rp[i + 1]; ++k)
    {
      const Index j = A.ci[k]; if(j <= i) continue;
      const LD* t = A.find(j, i);
      const LD tv = t ? *t : 0.0L;
      if(tv != A.v[k]) bitwise = false;
      if(!(std::fabs(tv - A.v[k]) <= B * S.at(i, j) + tiny()))
      { c.viol(op, "not-symmetric", vh::J().kv("row", (unsigned long)i).kv("col", (unsigned long)j).kv("a_ij", A.v[k]).kv("a_ji", tv).kv("transposed_entry_present", t != nullptr).kv("bound", B * S.at(i, j)).str()); return; }
    }
    c.count(bitwise ? "symmetric_bitwise" : "symmetric_within_bound");
  }

  // cubature name exact for a pulled-back integrand of degree D (per variable on hypercubes / total on simplices)
  template<typename Shape_>
  std::string cubature_for(Ctx& c, int D, std::string* tagout = nullptr)
  {
    constexpr int dim = vm::ShapeInfo<Shape_>::dim;
    int N = D + (IsSimplex<Shape_>::value ? 0 : dim - 1);
    N += int(c.rng.pick<int>({0, 0, 0, 1, 2}));
    if(N < 1) N = 1;
    // Simplex<3>: auto-degree:7 maps to shunn-ham:5 (exact to degree 6 only) and auto-degree:>=9 to shunn-ham:6 (exact to degree 8)
    if(std::is_same<Shape_, Shape::Simplex<3>>::value) { if(N == 7) N = 8; if(N > 8) N = 8; }
    std::string name = "auto-degree:" + std::to_string(N);
    if(!IsSimplex<Shape_>::value && c.rng.coin(0.25)) name = "gauss-legendre:" + std::to_string(N / 2 + 1);
    if(tagout) *tagout = name;
    return name;
  }

  // full (dense) scalar pattern
  inline vl::MatSpec full_spec(Index R, Index C)
  {
    vl::MatSpec m; m.rows = R; m.cols = C;
    m.t.reserve(std::size_t(R) * C);
    for(Index i = 0; i < R; ++i) for(Index j = 0; j < C; ++j) m.t.push_back({i, j, 1.0});
    return m;
  }
  template<typename Matrix_> struct DenseMaker;
  template<typename DT_, typename IT_> struct DenseMaker<LAFEM::SparseMatrixCSR<DT_, IT_>>
  {
    static LAFEM::SparseMatrixCSR<DT_, IT_> make(vh::Rng&, Index R, Index C) { auto m = vl::make_csr<DT_, IT_>(full_spec(R, C)); m.format(); return m; }
  };
  template<typename DT_, typename IT_, int BH_, int BW_> struct DenseMaker<LAFEM::SparseMatrixBCSR<DT_, IT_, BH_, BW_>>
  {
    static LAFEM::SparseMatrixBCSR<DT_, IT_, BH_, BW_> make(vh::Rng& r, Index R, Index C)
    { vl::MatSpec sm; vl::MatSpec bm = full_spec(R, C); bm.vstyle = 0; auto m = vl::make_bcsr<DT_, IT_, BH_, BW_>(r, bm, sm); m.format(); return m; }
  };
  template<typename Matrix_> struct BlockDims { static constexpr int bh = 1, bw = 1; };
  template<typename DT_, typename IT_, int BH_, int BW_> struct BlockDims<LAFEM::SparseMatrixBCSR<DT_, IT_, BH_, BW_>> { static constexpr int bh = BH_, bw = BW_; };

  template<typename M_> bool dec(Ctx& c, const std::string& op, const M_& m, Img& o, const char* what)
  {
    std::string why;
    if(!decode(m, o, why)) { c.viol(op, "invalid-matrix-structure", vh::J().kv("what", what).kv("why", why).str()); return false; }
    return true;
  }


  // assembles the tolerance-scale matrix (harness operator) into a scalar matrix; smode = 10 * trial_mode + test_mode
  // (1 = |value|, 2 = sum |grad_k|, 3 = both) or a single digit m meaning (m, m)
  template<typename SD_, typename ScalarMatrix_, typename Space_>
  void assemble_scale(ScalarMatrix_& m, const Space_& space, const Cubature::DynamicFactory& cub, int smode)
  {
    if(smode < 10) smode = 11 * smode;
    if constexpr(!SD_::has_grad) { (void)smode; ScaleOp<1, 1> so; Assembly::BilinearOperatorAssembler::assemble_matrix1(m, so, space, cub); }
    else
    {
      if(smode == 11) { ScaleOp<1, 1> so; Assembly::BilinearOperatorAssembler::assemble_matrix1(m, so, space, cub); }
      else if(smode == 22) { ScaleOp<2, 2> so; Assembly::BilinearOperatorAssembler::assemble_matrix1(m, so, space, cub); }
      else if(smode == 12) { ScaleOp<1, 2> so; Assembly::BilinearOperatorAssembler::assemble_matrix1(m, so, space, cub); }
      else if(smode == 21) { ScaleOp<2, 1> so; Assembly::BilinearOperatorAssembler::assemble_matrix1(m, so, space, cub); }
      else { ScaleOp<3, 3> so; Assembly::BilinearOperatorAssembler::assemble_matrix1(m, so, space, cub); }
    }
  }

  // ------------------------------------------------------------------------------------------------ the bilinear-operator monitor
  // One (mesh, space, operator) triple, identical test and trial space.  Matrix_ is the FEAT matrix type that matches
  // the operator's value type.
  template<typename Shape_, typename SD_, typename Matrix_, typename Op_, typename Space_>
  void check_bilinear1(Ctx& c, Env<Shape_>& e, const Space_& space, Op_& op, const Form& f, bool allow_apply)
  {
    const SpaceInfo si = SD_::info();
    constexpr int dim = vm::ShapeInfo<Shape_>::dim;
    constexpr int BH = BlockDims<Matrix_>::bh, BW = BlockDims<Matrix_>::bw;
    typedef LAFEM::SparseMatrixCSR<double, Index> ScalarMatrix;
    const std::string opn = "asm." + f.name;
    c.tag(std::string("space:") + si.name); c.tag("op:" + f.name); c.tag(BH * BW == 1 ? "vt:scalar" : "vt:blocked" + std::to_string(BH) + "x" + std::to_string(BW));
    const bool simplex = IsSimplex<Shape_>::value;
    const int p = space_degree(si, e.affine, simplex);
    // polynomials: trial u (BW components), test v (BH components)
    Poly<dim> U[9], V[9]; int pu = 0, pv = 0;
    for(int b = 0; b < f.nt; ++b) { U[b] = random_poly<dim>(c.rng, int(c.rng.range(0, p)), true); pu = std::max(pu, U[b].degree()); }
    for(int a = 0; a < f.ns; ++a) { V[a] = random_poly<dim>(c.rng, int(c.rng.range(0, p)), true); pv = std::max(pv, V[a].degree()); }
    // the cubature rule must be exact for the pulled-back integrand with polynomials of the full degree p as well
    // (so that every check below sees one rule); the degree is driven by p, not by the sampled polynomials
    const int D = f.degree(p, p);
    std::string cub_name = cubature_for<Shape_>(c, D);
    Cubature::DynamicFactory cub(cub_name);
    c.set_op(opn);
    {
      vh::J d; d.raw("mesh", e.spec.describe()).kv("space", si.name).kv("operator", f.name).kv("cubature", cub_name).kv("threads", e.thr_desc)
        .kv("affine_cells", e.affine).kv("dofs", (unsigned long)space.get_num_dofs());
      vh::J us('['); for(int b = 0; b < f.nt; ++b) us.add(U[b].str()); d.raw("u", us.str());
      vh::J vs('['); for(int a = 0; a < f.ns; ++a) vs.add(V[a].str()); d.raw("v", vs.str());
      c.desc = d.str();
    }

    // --- scale matrix (harness operator, classic route)
    ScalarMatrix mat_s; Assembly::SymbolicAssembler::assemble_matrix_std1(mat_s, space); mat_s.format();
    assemble_scale<SD_>(mat_s, space, cub, f.smode);
    Img IS; if(!dec(c, opn, mat_s, IS, "scale")) return;
    Scale S; S.s = &IS; S.bh = BH; S.bw = BW; S.cmax = f.cmax;

    // --- route 0: classic cell loop, alpha = 1
    Matrix_ mat0; Assembly::SymbolicAssembler::assemble_matrix_std1(mat0, space); mat0.format();
    Assembly::BilinearOperatorAssembler::assemble_matrix1(mat0, op, space, cub);
    Img A0; if(!dec(c, opn, mat0, A0, "classic1")) return;
    c.event();

    // --- identities on route 0
    std::vector<LD> one = interpolate(space, Poly<dim>::constant(1.0));
    {
      std::vector<std::vector<LD>> uc, vc;
      for(int b = 0; b < f.nt; ++b) uc.push_back(interpolate(space, U[b]));
      for(int a = 0; a < f.ns; ++a) vc.push_back(interpolate(space, V[a]));
      std::vector<LD> uu = interleave(uc), vv = interleave(vc);
      LD val, sc; bilinear_value(A0, vv, uu, S, val, sc);
      e.quad.build(e.spec, f.degree(pu, pv));
      if(!(e.quad.mindet > 0)) { c.inconclusive("generated mesh has a non-positive Jacobian"); return; }
      const int nt = f.nt, ns = f.ns;
      LD ref = e.quad.integrate([&](const LD* x) { FV fu[9], fv[9]; eval_fv<dim>(U, nt, x, fu); eval_fv<dim>(V, ns, x, fv); return f.g(fu, fv, x); });
      c.event();
      if(!(std::fabs(val - ref) <= bound_factor() * sc + tiny()))
        c.viol(opn, "bilinear-form-value", vh::J().kv("vAu", val).kv("integral", ref).kv("diff", std::fabs(val - ref)).kv("bound", bound_factor() * sc).kv("abs_scale", sc).str());
      if(c.verbose()) std::printf("form: vAu=%.17Lg integral=%.17Lg bound=%.3Lg\n", val, ref, bound_factor() * sc);
    }
    if(f.mass)
    {
      // 1_h^T M 1_h = |Omega| per component pair (a,a); harness volume = sum of vm::cell_volume
      for(int a = 0; a < f.ns; ++a) for(int b = 0; b < f.nt; ++b)
      {
        std::vector<std::vector<LD>> uc(std::size_t(f.nt), std::vector<LD>(one.size(), 0.0L)), vc(std::size_t(f.ns), std::vector<LD>(one.size(), 0.0L));
        uc[std::size_t(b)] = one; vc[std::size_t(a)] = one;
        LD val, sc; bilinear_value(A0, interleave(vc), interleave(uc), S, val, sc);
        const LD ref = (a == b) ? e.volume : 0.0L;
        c.event();
        if(!(std::fabs(val - ref) <= bound_factor() * sc + tiny()))
          c.viol(opn, "mass-volume", vh::J().kv("comp_test", a).kv("comp_trial", b).kv("sum", val).kv("volume", ref).kv("bound", bound_factor() * sc).str());
        if(si.pou)
        {
          LD s = 0; for(Index i = 0; i < A0.R; ++i) if(int(i % Index(BH)) == a) for(Index k = A0.rp[i]; k < A0.rp[i + 1]; ++k) if(int(A0.ci[k] % Index(BW)) == b) s += A0.v[k];
          c.event();
          if(!(std::fabs(s - ref) <= bound_factor() * sc + tiny()))
            c.viol(opn, "mass-entry-sum", vh::J().kv("comp_test", a).kv("comp_trial", b).kv("sum", s).kv("volume", ref).kv("bound", bound_factor() * sc).str());
        }
      }
    }
    check_kernel(c, opn, A0, S, one, BW, BH, f.ker_trial, f.ker_test);
    if(f.sym && BH == BW) check_symmetry(c, opn, A0, S);

    // --- route agreement
    static const double alphas[5] = {1.0, -1.0, 0.5, 2.75, -0.375};
    {
      const double al = alphas[c.rng.below(5)];
      Matrix_ m; Assembly::SymbolicAssembler::assemble_matrix_std2(m, space, space); m.format();
      Assembly::BilinearOperatorAssembler::assemble_matrix2(m, op, space, space, cub, al);
      Img A; if(dec(c, opn, m, A, "classic2")) compare_same_pattern(c, opn, "route-differs", A, A0, (LD)al, S, "BilinearOperatorAssembler::assemble_matrix2 vs assemble_matrix1");
    }
    {
      const double al = alphas[c.rng.below(5)];
      Matrix_ m = mat0.clone(LAFEM::CloneMode::Layout); m.format();
      Assembly::assemble_bilinear_operator_matrix_1(*e.dom_serial, m, op, space, cub_name, al);
      Img A; if(dec(c, opn, m, A, "job1")) compare_same_pattern(c, opn, "route-differs", A, A0, (LD)al, S, "DomainAssembler job1 (no threads) vs classic");
    }
    {
      const double al = alphas[c.rng.below(5)];
      Matrix_ m = mat0.clone(LAFEM::CloneMode::Layout); m.format();
      Assembly::assemble_bilinear_operator_matrix_1(*e.dom_thr, m, op, space, cub_name, al);
      Img A; if(dec(c, opn, m, A, "job1-threads")) compare_same_pattern(c, opn, "route-differs", A, A0, (LD)al, S, "DomainAssembler job1 (" + e.thr_desc + ") vs classic");
    }
    {
      const double al = alphas[c.rng.below(5)];
      Matrix_ m = mat0.clone(LAFEM::CloneMode::Layout); m.format();
      const bool thr = c.rng.coin();
      Assembly::assemble_bilinear_operator_matrix_2(thr ? *e.dom_thr : *e.dom_serial, m, op, space, space, cub_name, al);
      Img A; if(dec(c, opn, m, A, "job2")) compare_same_pattern(c, opn, "route-differs", A, A0, (LD)al, S, std::string("DomainAssembler job2 (") + (thr ? e.thr_desc : "serial") + ") vs classic");
    }
    // --- matrix-free application (classic route apply1): A x
    if constexpr(BH == BW)
    {
      if(allow_apply)
      {
        typedef typename Matrix_::VectorTypeR VecType;
        VecType x(space.get_num_dofs()), y(space.get_num_dofs());
        { double* xe = reinterpret_cast<double*>(x.elements()); const Index n = x.template size<LAFEM::Perspective::pod>(); for(Index i = 0; i < n; ++i) xe[i] = double(c.rng.range(-4, 4)) / 2.0; }
        y.format(7.0);
        const double al = alphas[c.rng.below(5)];
        Assembly::BilinearOperatorAssembler::apply1(y, x, op, space, cub, al);
        std::vector<LD> xv = read_vec(x), yv = read_vec(y);
        c.event();
        for(Index i = 0; i < A0.R; ++i)
        {
          LD r = 0, s = 0; for(Index k = A0.rp[i]; k < A0.rp[i + 1]; ++k) { r += A0.v[k] * xv[A0.ci[k]]; s += S.at(i, A0.ci[k]) * std::fabs(xv[A0.ci[k]]); }
          r *= al; s *= std::max<LD>(1, std::fabs((LD)al));
          if(!(std::fabs(yv[i] - r) <= 2 * bound_factor() * s + tiny()))
          { c.viol(opn, "route-differs", vh::J().kv("what", "BilinearOperatorAssembler::apply1 vs assembled matrix times vector").kv("row", (unsigned long)i).kv("got", yv[i]).kv("expected", r).kv("bound", 2 * bound_factor() * s).str()); break; }
        }
      }
    }
    // --- the extended symbolic patterns (supersets of the standard pattern) must hold the same matrix
    if(c.rng.coin(0.35))
    {
      Matrix_ mx; const bool facet = c.rng.coin();
      if(facet) Assembly::SymbolicAssembler::assemble_matrix_ext_facet1(mx, space); else Assembly::SymbolicAssembler::assemble_matrix_ext_node1(mx, space);
      mx.format();
      Assembly::BilinearOperatorAssembler::assemble_matrix1(mx, op, space, cub);
      Img AX;
      if(dec(c, opn, mx, AX, "ext-pattern"))
      {
        c.event();
        const char* pn = facet ? "assemble_matrix_ext_facet1" : "assemble_matrix_ext_node1";
        bool bad = false;
        for(Index i = 0; i < A0.R && !bad; ++i) for(Index k = A0.rp[i]; k < A0.rp[i + 1]; ++k)
          if(!AX.find(i, A0.ci[k])) { c.viol(opn, "coupling-not-in-pattern", vh::J().kv("what", pn).kv("row", (unsigned long)i).kv("col", (unsigned long)A0.ci[k]).kv("value", A0.v[k]).str()); bad = true; break; }
        for(Index i = 0; i < AX.R && !bad; ++i) for(Index k = AX.rp[i]; k < AX.rp[i + 1]; ++k)
        {
          const LD ref = A0.at(i, AX.ci[k]);
          if(!(std::fabs(AX.v[k] - ref) <= bound_factor() * S.at(i, AX.ci[k]) + tiny()))
          { c.viol(opn, "route-differs", vh::J().kv("what", std::string(pn) + " pattern vs assemble_matrix_std1 pattern").kv("row", (unsigned long)i).kv("col", (unsigned long)AX.ci[k]).kv("got", AX.v[k]).kv("expected", ref).str()); bad = true; break; }
        }
        c.count("extended_pattern_checks");
      }
    }
    // --- dense pattern: the symbolic pattern contains every coupling that receives a value
    const Index nd = space.get_num_dofs();
    if(nd * nd * Index(BH * BW) <= Index(c.thorough() ? 1500000 : 400000))
    {
      Matrix_ md = DenseMaker<Matrix_>::make(c.rng, nd, nd);
      ScalarMatrix sd = DenseMaker<ScalarMatrix>::make(c.rng, nd, nd);
      if(c.rng.coin()) Assembly::BilinearOperatorAssembler::assemble_matrix1(md, op, space, cub);
      else Assembly::assemble_bilinear_operator_matrix_1(c.rng.coin() ? *e.dom_thr : *e.dom_serial, md, op, space, cub_name);
      assemble_scale<SD_>(sd, space, cub, f.smode);
      Img D, ISD;
      if(dec(c, opn, md, D, "dense") && dec(c, opn, sd, ISD, "dense-scale"))
      {
        Scale SD; SD.s = &ISD; SD.bh = BH; SD.bw = BW; SD.cmax = f.cmax;
        compare_dense(c, opn, A0, D, SD, "SymbolicAssembler::assemble_matrix_std1 vs full pattern");
        c.count("dense_pattern_checks");
      }
    }
  }
} // namespace c16
