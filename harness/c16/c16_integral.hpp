// c16_integral.hpp -- function integral jobs (kernel/assembly/function_integral_jobs.hpp through the helpers
// integrate_analytic_function / integrate_discrete_function / integrate_error_function of domain_assembler_helpers.hpp)
// and the classic Scalar/VectorErrorComputer (kernel/assembly/error_computer.hpp) as the second route.
//
// Truth: polynomials f (analytic), g (contained in the space on every cell, u_h = interpolant of g => u_h == g as a
// function) and e = f - g.  Every documented integral (value, gradient, hessian integral, |.|_H0^2, |.|_H1^2, |.|_H2^2,
// per-component values, divergence / vorticity L2^2) is a polynomial integrand and is computed by the harness' own
// long-double Gauss/Duffy quadrature over the MeshSpec coordinates.
//
// The H2 semi-norm is the one documented at Tiny::Matrix::norm_hessian_sqr ("used for the computation of the H^2
// semi-norm"): sum_ij K_ij (d_i d_j u)^2 with K_ii = 1, K_ij = 1/2 (i != j).
//
// Tolerance scale (absolute, never data-fitted): s_k = int (sum of the absolute values of all terms that enter the
// k-th derivative)^2 ; for the analytic function the monomial terms (own quadrature), for the discrete function
// L^T S_k L with L_i = sum_comp |l_i| and S_k assembled from the harness operator ScaleOp (|value|, sum |grad_k|,
// sum |hess_ab| of the basis data).  Linear quantities use sqrt(|Omega| s_k) (Cauchy-Schwarz).
#pragma once
#include "c16_func.hpp"
#include <kernel/assembly/error_computer.hpp>
#include <kernel/assembly/function_integral_jobs.hpp>

namespace c16
{
  // ------------------------------------------------------------------------------------------------ polynomial algebra
  template<int dim_> Poly<dim_> poly_axpy(const Poly<dim_>& a, const Poly<dim_>& b, double sb) // a + sb * b
  {
    Poly<dim_> r = a;
    for(auto& m : b.t)
    {
      bool found = false;
      for(auto& x : r.t) if(x.e[0] == m.e[0] && x.e[1] == m.e[1] && x.e[2] == m.e[2]) { x.c += sb * m.c; found = true; break; }
      if(!found) { typename Poly<dim_>::Term t = m; t.c = sb * m.c; r.t.push_back(t); }
    }
    return r;
  }
  template<int dim_> Poly<dim_> poly_mul(const Poly<dim_>& a, const Poly<dim_>& b)
  {
    Poly<dim_> r;
    for(auto& x : a.t) for(auto& y : b.t)
    {
      if(x.c == 0.0 || y.c == 0.0) continue;
      typename Poly<dim_>::Term t; for(int d = 0; d < 3; ++d) t.e[d] = x.e[d] + y.e[d]; t.c = x.c * y.c;
      Poly<dim_> one; one.t.push_back(t);
      r = poly_axpy(r, one, 1.0);
    }
    return r;
  }
  // s * (q^2 + c0), deg q = deg/2, c0 >= 0: sign-definite polynomial of degree <= deg
  template<int dim_> Poly<dim_> sign_definite_poly(vh::Rng& r, int deg)
  {
    Poly<dim_> q = random_poly<dim_>(r, deg / 2, true);
    Poly<dim_> p = poly_axpy(poly_mul(q, q), Poly<dim_>::constant(double(r.range(0, 8)) / 4.0), 1.0);
    if(r.coin()) for(auto& m : p.t) m.c = -m.c;
    return p;
  }

  // sum of the absolute values of the monomial terms of the value / all first / all second derivatives
  template<int dim_> void abs_terms(const Poly<dim_>& p, const LD* x, LD& a0, LD& a1, LD& a2)
  {
    LD ax[3] = {std::fabs(x[0]), std::fabs(x[1]), dim_ == 3 ? std::fabs(x[2]) : 0.0L};
    for(auto& m : p.t)
    {
      if(m.c == 0.0) continue;
      const LD ac = std::fabs((LD)m.c);
      { LD t = ac; for(int d = 0; d < dim_; ++d) t *= Poly<dim_>::ipow(ax[d], m.e[d]); a0 += t; }
      for(int k = 0; k < dim_; ++k)
      {
        if(m.e[k] == 0) continue;
        LD t = ac * m.e[k]; for(int d = 0; d < dim_; ++d) t *= Poly<dim_>::ipow(ax[d], d == k ? m.e[d] - 1 : m.e[d]); a1 += t;
      }
      for(int a = 0; a < dim_; ++a) for(int b = 0; b < dim_; ++b)
      {
        int e[3] = {m.e[0], m.e[1], m.e[2]}; LD t = ac;
        if(e[a] == 0) continue; t *= e[a]; --e[a];
        if(e[b] == 0) continue; t *= e[b]; --e[b];
        for(int d = 0; d < dim_; ++d) t *= Poly<dim_>::ipow(ax[d], e[d]);
        a2 += t;
      }
    }
  }

  // ------------------------------------------------------------------------------------------------ reference integrals
  template<int dim_, int nb_>
  struct IntVals
  {
    int md = 2;
    LD value[nb_] = {}, grad[nb_][dim_] = {}, hess[nb_][dim_][dim_] = {};
    LD h0 = 0, h1 = 0, h2 = 0, l1 = 0, lmax = 0, div = 0, vort = 0;
    LD h0c[nb_] = {}, h1c[nb_] = {}, h2c[nb_] = {}, l1c[nb_] = {}, lmaxc[nb_] = {};
    bool has_int = true;    // value / grad / hess integrals and div / vort present (function integral info)
    // reference only: tolerance scales and the pointwise bound of the function
    LD s[3] = {0, 0, 0}; LD sup = 0;
  };

  template<typename Shape_, int nb_>
  IntVals<vm::ShapeInfo<Shape_>::dim, nb_> ref_integrals(const MeshQuad<Shape_>& q, const vm::MeshSpec<Shape_>& spec, const Poly<vm::ShapeInfo<Shape_>::dim>* P)
  {
    constexpr int dim = vm::ShapeInfo<Shape_>::dim;
    IntVals<dim, nb_> R;
    for(auto& pt : q.pts)
    {
      const LD w = pt.w; LD G[nb_][3]; LD A[3] = {0, 0, 0};
      for(int i = 0; i < nb_; ++i)
      {
        const LD v = P[i].value(pt.x);
        G[i][0] = G[i][1] = G[i][2] = 0; P[i].grad(pt.x, G[i]);
        R.value[i] += w * v; R.h0c[i] += w * v * v;
        LD g2 = 0; for(int d = 0; d < dim; ++d) { R.grad[i][d] += w * G[i][d]; g2 += G[i][d] * G[i][d]; }
        R.h1c[i] += w * g2;
        LD hh = 0;
        for(int a = 0; a < dim; ++a) for(int b = a; b < dim; ++b)
        {
          const LD h = P[i].hess(pt.x, a, b);
          R.hess[i][a][b] += w * h; if(b != a) R.hess[i][b][a] += w * h;
          hh += h * h;      // K_aa = 1, K_ab + K_ba = 1
        }
        R.h2c[i] += w * hh;
        abs_terms<dim>(P[i], pt.x, A[0], A[1], A[2]);
      }
      for(int k = 0; k < 3; ++k) R.s[k] += w * A[k] * A[k];
      if(nb_ == dim)
      {
        LD tr = 0; for(int i = 0; i < dim; ++i) tr += G[i][i];
        R.div += w * tr * tr;
        if(dim == 2) R.vort += w * (G[1][0] - G[0][1]) * (G[1][0] - G[0][1]);
        else R.vort += w * ((G[2][1] - G[1][2]) * (G[2][1] - G[1][2]) + (G[0][2] - G[2][0]) * (G[0][2] - G[2][0]) + (G[1][0] - G[0][1]) * (G[1][0] - G[0][1]));
      }
    }
    for(int i = 0; i < nb_; ++i) { R.h0 += R.h0c[i]; R.h1 += R.h1c[i]; R.h2 += R.h2c[i]; }
    // pointwise bound: sum |c| prod max|x_d|^e_d over the bounding box of the mesh
    LD mx[3] = {0, 0, 0};
    for(auto& v : spec.verts) for(int d = 0; d < dim; ++d) mx[d] = std::max(mx[d], std::fabs((LD)v[std::size_t(d)]));
    for(int i = 0; i < nb_; ++i) { LD a0 = 0, a1 = 0, a2 = 0; abs_terms<dim>(P[i], mx, a0, a1, a2); R.sup = std::max(R.sup, a0); R.lmaxc[i] = a0; }
    return R;
  }

  // ------------------------------------------------------------------------------------------------ decoding of the FEAT results
  template<int dim_, int nb_, typename Info_>
  IntVals<dim_, nb_> from_info(const Info_& fi)
  {
    IntVals<dim_, nb_> G; G.md = fi.max_der; G.has_int = true;
    G.h0 = (LD)fi.norm_h0_sqr; G.h1 = (LD)fi.norm_h1_sqr; G.h2 = (LD)fi.norm_h2_sqr; G.l1 = (LD)fi.norm_l1; G.lmax = (LD)fi.norm_lmax;
    G.div = (LD)fi.divergence_l2_sqr; G.vort = (LD)fi.vorticity_l2_sqr;
    if constexpr(nb_ == 1)
    {
      G.value[0] = (LD)fi.value;
      for(int a = 0; a < dim_; ++a) { G.grad[0][a] = (LD)fi.grad[a]; for(int b = 0; b < dim_; ++b) G.hess[0][a][b] = (LD)fi.hess[a][b]; }
      G.h0c[0] = G.h0; G.h1c[0] = G.h1; G.h2c[0] = G.h2; G.l1c[0] = G.l1; G.lmaxc[0] = G.lmax;
    }
    else
    {
      for(int i = 0; i < nb_; ++i)
      {
        G.value[i] = (LD)fi.value[i];
        for(int a = 0; a < dim_; ++a) { G.grad[i][a] = (LD)fi.grad[i][a]; for(int b = 0; b < dim_; ++b) G.hess[i][a][b] = (LD)fi.hess[i][a][b]; }
        G.h0c[i] = (LD)fi.norm_h0_sqr_comp[i]; G.h1c[i] = (LD)fi.norm_h1_sqr_comp[i]; G.h2c[i] = (LD)fi.norm_h2_sqr_comp[i];
        G.l1c[i] = (LD)fi.norm_l1_comp[i]; G.lmaxc[i] = (LD)fi.norm_lmax_comp[i];
      }
    }
    return G;
  }
  template<int dim_, typename DT_>
  IntVals<dim_, 1> from_errinfo(const Assembly::ScalarErrorInfo<DT_>& ei, int md)
  {
    IntVals<dim_, 1> G; G.has_int = false; G.md = (ei.have_h2 ? 2 : ei.have_h1 ? 1 : 0); (void)md;
    G.h0 = (LD)ei.norm_h0 * (LD)ei.norm_h0; G.h1 = (LD)ei.norm_h1 * (LD)ei.norm_h1; G.h2 = (LD)ei.norm_h2 * (LD)ei.norm_h2;
    G.l1 = (LD)ei.norm_l1; G.lmax = (LD)ei.norm_lmax;
    G.h0c[0] = G.h0; G.h1c[0] = G.h1; G.h2c[0] = G.h2; G.l1c[0] = G.l1; G.lmaxc[0] = G.lmax;
    return G;
  }
  template<int dim_, int nb_, typename DT_>
  IntVals<dim_, nb_> from_errinfo(const Assembly::VectorErrorInfo<DT_, nb_>& ei, int md)
  {
    IntVals<dim_, nb_> G; G.has_int = false; G.md = (ei.have_h2 ? 2 : ei.have_h1 ? 1 : 0); (void)md;
    G.h0 = (LD)ei.norm_h0 * (LD)ei.norm_h0; G.h1 = (LD)ei.norm_h1 * (LD)ei.norm_h1; G.h2 = (LD)ei.norm_h2 * (LD)ei.norm_h2;
    G.l1 = (LD)ei.norm_l1; G.lmax = (LD)ei.norm_lmax;
    for(int i = 0; i < nb_; ++i)
    {
      G.h0c[i] = (LD)ei.norm_h0_comp[i] * (LD)ei.norm_h0_comp[i]; G.h1c[i] = (LD)ei.norm_h1_comp[i] * (LD)ei.norm_h1_comp[i]; G.h2c[i] = (LD)ei.norm_h2_comp[i] * (LD)ei.norm_h2_comp[i];
      G.l1c[i] = (LD)ei.norm_l1_comp[i]; G.lmaxc[i] = (LD)ei.norm_lmax_comp[i];
    }
    return G;
  }

  // harness scale operator on the basis hessians: (sum_ab |d_a d_b phi|) (sum_ab |d_a d_b psi|)
  class ScaleOpHess : public Assembly::BilinearOperator
  {
  public:
    static constexpr TrafoTags trafo_config = TrafoTags::none;
    static constexpr SpaceTags test_config = SpaceTags::hess;
    static constexpr SpaceTags trial_config = SpaceTags::hess;
    template<typename AsmTraits_>
    class Evaluator : public Assembly::BilinearOperator::Evaluator<AsmTraits_>
    {
    public:
      typedef typename AsmTraits_::DataType DataType;
      typedef typename AsmTraits_::TestBasisData TestBasisData;
      typedef typename AsmTraits_::TrialBasisData TrialBasisData;
      typedef DataType ValueType;
      explicit Evaluator(const ScaleOpHess&) {}
      template<typename BD_> static DataType mag(const BD_& b)
      { DataType s = DataType(0); for(int i = 0; i < b.hess.m; ++i) for(int j = 0; j < b.hess.n; ++j) s += Math::abs(b.hess[i][j]); return s; }
      ValueType eval(const TrialBasisData& phi, const TestBasisData& psi) { return mag(phi) * mag(psi); }
    };
  };

  // ------------------------------------------------------------------------------------------------ the monitors
  struct IntFlags
  {
    bool l1_exact[4] = {false, false, false, false};  // per component: the function is sign-definite (by construction)
    LD vol = 0;
    LD pt_tol = 0;     // pointwise absolute scale (Lmax comparisons)
  };

  // G (FEAT) against R (own quadrature); md = highest derivative order that has been computed
  template<int dim_, int nb_>
  void check_against_ref(Ctx& c, const std::string& op, const std::string& what, const IntVals<dim_, nb_>& G, const IntVals<dim_, nb_>& R, int md, const IntFlags& F)
  {
    const LD B = bound_factor();
    auto bad = [&](const char* field, int i, int a, int b, LD got, LD ref, LD scale) {
      c.viol(op, "wrong-value", vh::J().kv("what", what).kv("field", field).kv("component", i).kv("a", a).kv("b", b).kv("got", got).kv("expected", ref)
        .kv("diff", std::fabs(got - ref)).kv("bound", B * scale).kv("abs_scale", scale).str());
    };
    auto sq = [&](const char* field, int i, LD got, LD ref, LD scale) { c.event(); if(!(std::fabs(got - ref) <= B * scale + tiny())) bad(field, i, -1, -1, got, ref, scale); };
    c.event();
    if(G.md != md) c.viol(op, "wrong-value", vh::J().kv("what", what).kv("field", "max_der").kv("got", G.md).kv("expected", md).str());
    // squared (semi-)norms
    sq("norm_h0_sqr", -1, G.h0, R.h0, R.s[0]);
    if(md >= 1) sq("norm_h1_sqr", -1, G.h1, R.h1, R.s[1]);
    if(md >= 2) sq("norm_h2_sqr", -1, G.h2, R.h2, R.s[2]);
    if(nb_ > 1) for(int i = 0; i < nb_; ++i)
    {
      sq("norm_h0_sqr_comp", i, G.h0c[i], R.h0c[i], R.s[0]);
      if(md >= 1) sq("norm_h1_sqr_comp", i, G.h1c[i], R.h1c[i], R.s[1]);
      if(md >= 2) sq("norm_h2_sqr_comp", i, G.h2c[i], R.h2c[i], R.s[2]);
    }
    if(G.has_int)
    {
      const LD l0 = std::sqrt(F.vol * R.s[0]), l1 = std::sqrt(F.vol * R.s[1]), l2 = std::sqrt(F.vol * R.s[2]);
      for(int i = 0; i < nb_; ++i)
      {
        c.event(); if(!(std::fabs(G.value[i] - R.value[i]) <= B * l0 + tiny())) bad("value", i, -1, -1, G.value[i], R.value[i], l0);
        if(md >= 1) for(int a = 0; a < dim_; ++a) { c.event(); if(!(std::fabs(G.grad[i][a] - R.grad[i][a]) <= B * l1 + tiny())) bad("grad", i, a, -1, G.grad[i][a], R.grad[i][a], l1); }
        if(md >= 2) for(int a = 0; a < dim_; ++a) for(int b = 0; b < dim_; ++b) { c.event(); if(!(std::fabs(G.hess[i][a][b] - R.hess[i][a][b]) <= B * l2 + tiny())) bad("hess", i, a, b, G.hess[i][a][b], R.hess[i][a][b], l2); }
      }
      if(nb_ == dim_ && nb_ > 1 && md >= 1) { sq("divergence_l2_sqr", -1, G.div, R.div, R.s[1]); sq("vorticity_l2_sqr", -1, G.vort, R.vort, R.s[1]); }
    }
    // L1: exact for sign-definite components, else |int u| <= L1 <= sqrt(|Omega| int u^2) (positive cubature weights)
    {
      const LD l0 = std::sqrt(F.vol * R.s[0]); bool all_exact = true; LD sum_exact = 0;
      for(int i = 0; i < nb_; ++i)
      {
        c.event();
        if(F.l1_exact[i]) { sum_exact += std::fabs(R.value[i]); if(!(std::fabs(G.l1c[i] - std::fabs(R.value[i])) <= B * l0 + tiny())) bad(nb_ > 1 ? "norm_l1_comp" : "norm_l1", i, -1, -1, G.l1c[i], std::fabs(R.value[i]), l0); }
        else
        {
          all_exact = false;
          if(!(G.l1c[i] >= std::fabs(R.value[i]) - B * l0 - tiny()) || !(G.l1c[i] * G.l1c[i] <= F.vol * R.h0c[i] + 4 * B * F.vol * R.s[0] + tiny()))
            c.viol(op, "l1-bound", vh::J().kv("what", what).kv("component", i).kv("l1", G.l1c[i]).kv("abs_integral", std::fabs(R.value[i])).kv("sqrt_vol_h0", std::sqrt(F.vol * R.h0c[i])).str());
        }
      }
      if(nb_ > 1)
      {
        c.event();
        LD s = 0; for(int i = 0; i < nb_; ++i) s += G.l1c[i];
        if(!(std::fabs(G.l1 - s) <= B * l0 * nb_ + tiny())) bad("norm_l1 (sum of the components)", -1, -1, -1, G.l1, s, l0);
        if(all_exact && !(std::fabs(G.l1 - sum_exact) <= B * l0 * nb_ + tiny())) bad("norm_l1", -1, -1, -1, G.l1, sum_exact, l0);
      }
    }
    // Lmax = max over the cubature points of |u|: sup bound from above, mean-square bound from below
    for(int i = 0; i < nb_; ++i)
    {
      c.event();
      const LD up = R.lmaxc[i] + B * F.pt_tol;
      if(!(G.lmaxc[i] <= up + tiny()) || !(G.lmaxc[i] * G.lmaxc[i] * F.vol >= R.h0c[i] - 4 * B * R.s[0] - tiny()) || !(G.lmaxc[i] >= 0))
        c.viol(op, "lmax-bound", vh::J().kv("what", what).kv("component", i).kv("lmax", G.lmaxc[i]).kv("sup_bound", R.lmaxc[i]).kv("rms", std::sqrt(R.h0c[i] / F.vol)).str());
    }
    if(nb_ > 1)
    {
      c.event();
      LD mx = 0, sm = 0; for(int i = 0; i < nb_; ++i) { mx = std::max(mx, G.lmaxc[i]); sm += G.lmaxc[i]; }
      // documented as "sum of the component-wise Lmax norms", implemented as their maximum: both are accepted
      if(!(G.lmax >= mx - B * F.pt_tol) || !(G.lmax <= sm + B * F.pt_tol))
        c.viol(op, "lmax-bound", vh::J().kv("what", what).kv("field", "norm_lmax vs components").kv("lmax", G.lmax).kv("max_comp", mx).kv("sum_comp", sm).str());
    }
  }

  // two FEAT results against each other (routes / thread counts); scale from the reference of the same quantity
  template<int dim_, int nb_>
  void check_routes(Ctx& c, const std::string& op, const std::string& kind, const std::string& what, const IntVals<dim_, nb_>& A, const IntVals<dim_, nb_>& Bv, const IntVals<dim_, nb_>& R, int md, const IntFlags& F)
  {
    const LD B = 2 * bound_factor();
    c.event();
    auto cmp = [&](const char* field, int i, LD a, LD b, LD scale) {
      if(!(std::fabs(a - b) <= B * scale + tiny()))
        c.viol(op, kind, vh::J().kv("what", what).kv("field", field).kv("component", i).kv("a", a).kv("b", b).kv("diff", std::fabs(a - b)).kv("bound", B * scale).str());
    };
    const LD l0 = std::sqrt(F.vol * R.s[0]), l1 = std::sqrt(F.vol * R.s[1]), l2 = std::sqrt(F.vol * R.s[2]);
    cmp("norm_h0_sqr", -1, A.h0, Bv.h0, R.s[0]); if(md >= 1) cmp("norm_h1_sqr", -1, A.h1, Bv.h1, R.s[1]); if(md >= 2) cmp("norm_h2_sqr", -1, A.h2, Bv.h2, R.s[2]);
    cmp("norm_l1", -1, A.l1, Bv.l1, l0 * nb_); cmp("norm_lmax", -1, A.lmax, Bv.lmax, F.pt_tol);
    for(int i = 0; i < nb_; ++i)
    {
      cmp("norm_h0_sqr_comp", i, A.h0c[i], Bv.h0c[i], R.s[0]); if(md >= 1) cmp("norm_h1_sqr_comp", i, A.h1c[i], Bv.h1c[i], R.s[1]); if(md >= 2) cmp("norm_h2_sqr_comp", i, A.h2c[i], Bv.h2c[i], R.s[2]);
      cmp("norm_l1_comp", i, A.l1c[i], Bv.l1c[i], l0); cmp("norm_lmax_comp", i, A.lmaxc[i], Bv.lmaxc[i], F.pt_tol);
    }
    if(A.has_int && Bv.has_int)
    {
      for(int i = 0; i < nb_; ++i)
      {
        cmp("value", i, A.value[i], Bv.value[i], l0);
        if(md >= 1) for(int a = 0; a < dim_; ++a) cmp("grad", i, A.grad[i][a], Bv.grad[i][a], l1);
        if(md >= 2) for(int a = 0; a < dim_; ++a) for(int b = 0; b < dim_; ++b) cmp("hess", i, A.hess[i][a][b], Bv.hess[i][a][b], l2);
      }
      if(md >= 1) { cmp("divergence_l2_sqr", -1, A.div, Bv.div, R.s[1]); cmp("vorticity_l2_sqr", -1, A.vort, Bv.vort, R.s[1]); }
    }
  }

  template<int nb_> struct ErrComp
  {
    template<int md_, typename V_, typename F_, typename S_> static auto run(const V_& v, const F_& f, const S_& s, const Cubature::DynamicFactory& cub)
    { return Assembly::VectorErrorComputer<md_>::compute(v, f, s, cub); }
    static const char* name() { return "VectorErrorComputer"; }
  };
  template<> struct ErrComp<1>
  {
    template<int md_, typename V_, typename F_, typename S_> static auto run(const V_& v, const F_& f, const S_& s, const Cubature::DynamicFactory& cub)
    { return Assembly::ScalarErrorComputer<md_>::compute(v, f, s, cub); }
    static const char* name() { return "ScalarErrorComputer"; }
  };

  template<int md_> struct SpaceDer { static constexpr int value = md_; };

  // md_: highest derivative order the space supports (0: values only, 1: gradients, 2: hessians)
  template<typename Shape_, typename SD_, int nb_, int md_>
  void check_integrals(Ctx& c, Env<Shape_>& e)
  {
    constexpr int dim = vm::ShapeInfo<Shape_>::dim;
    typedef typename SD_::template S<typename Env<Shape_>::TrafoType> SpaceType;
    typedef typename FuncTypes<dim, nb_>::Vector VectorType;
    typedef typename FuncTypes<dim, nb_>::Function FunctionType;
    SpaceType space(*e.trafo);
    const SpaceInfo si = SD_::info();
    const bool simplex = IsSimplex<Shape_>::value;
    const int p = space_degree(si, e.affine, simplex);
    const int qmax = dim == 2 ? 4 : 3;
    c.tag(std::string("space:") + si.name); c.tag(nb_ == 1 ? "vt:scalar" : "vt:vector" + std::to_string(nb_)); c.tag("der:" + std::to_string(md_));

    // --- the polynomials
    Poly<dim> Fp[nb_], Gp[nb_], Ep[nb_], Zp[nb_];
    IntFlags FF, FG, FE;
    const int fmode = int(c.rng.pick<int>({0, 0, 0, 0, 1, 2, 2, 3}));   // 0 random f, 1 f == g, 2 f = g + sign-definite, 3 f sign-definite
    c.tag(fmode == 0 ? "f:random" : fmode == 1 ? "f:equals_g" : fmode == 2 ? "f:g_plus_definite" : "f:definite");
    const bool gdef = c.rng.coin(0.3);
    if(gdef) c.tag("g:definite");
    int qf = 0, qg = 0;
    for(int i = 0; i < nb_; ++i)
    {
      Zp[i] = Poly<dim>::constant(0.0);
      if(gdef) { Gp[i] = sign_definite_poly<dim>(c.rng, p); FG.l1_exact[i] = true; }
      else { Gp[i] = random_poly<dim>(c.rng, int(c.rng.range(0, p)), true); FG.l1_exact[i] = (Gp[i].degree() == 0); }
      switch(fmode)
      {
      case 1: Fp[i] = Gp[i]; FF.l1_exact[i] = FG.l1_exact[i]; FE.l1_exact[i] = true; break;
      case 2: Fp[i] = poly_axpy(Gp[i], sign_definite_poly<dim>(c.rng, int(c.rng.range(0, qmax))), 1.0); FE.l1_exact[i] = true; break;
      case 3: Fp[i] = sign_definite_poly<dim>(c.rng, int(c.rng.range(0, qmax))); FF.l1_exact[i] = true; break;
      default: Fp[i] = random_poly<dim>(c.rng, int(c.rng.range(0, qmax)), true); FF.l1_exact[i] = (Fp[i].degree() == 0); break;
      }
      Ep[i] = poly_axpy(Fp[i], Gp[i], -1.0);
      if(Ep[i].degree() == 0) FE.l1_exact[i] = true;
      qf = std::max(qf, Fp[i].degree()); qg = std::max(qg, Gp[i].degree());
    }
    const int D = 2 * std::max(std::max(qf, p), 1);
    std::string cub_name = cubature_for<Shape_>(c, D);
    Cubature::DynamicFactory cub(cub_name);
    c.tag("qf:" + std::to_string(qf));
    c.set_op("integral.analytic");
    {
      vh::J fs('['), gs('['); for(int i = 0; i < nb_; ++i) { fs.add(Fp[i].str()); gs.add(Gp[i].str()); }
      c.desc = vh::J().raw("mesh", e.spec.describe()).kv("space", si.name).kv("components", nb_).kv("max_der", md_).kv("cubature", cub_name).kv("threads", e.thr_desc)
        .kv("affine_cells", e.affine).raw("f", fs.str()).raw("g", gs.str()).str();
    }

    // --- own quadrature
    e.quad.build(e.spec, D);
    if(!(e.quad.mindet > 0)) { c.inconclusive("generated mesh has a non-positive Jacobian"); return; }
    IntVals<dim, nb_> RF = ref_integrals<Shape_, nb_>(e.quad, e.spec, Fp), RG = ref_integrals<Shape_, nb_>(e.quad, e.spec, Gp), RE = ref_integrals<Shape_, nb_>(e.quad, e.spec, Ep);
    IntVals<dim, nb_> RZ = ref_integrals<Shape_, nb_>(e.quad, e.spec, Zp);

    // --- discrete function u_h = interpolant of g, tolerance scales from the basis data
    const Index n = space.get_num_dofs();
    VectorType vec(n), zero(n); vec.format(0.0); zero.format(0.0);
    std::vector<LD> L(n, 0.0L); LD lmaxabs = 0;
    {
      double* ve = reinterpret_cast<double*>(vec.elements());
      for(int i = 0; i < nb_; ++i)
      {
        std::vector<LD> gi = interpolate(space, Gp[i]);
        for(Index k = 0; k < n; ++k) { ve[k * Index(nb_) + Index(i)] = (double)gi[k]; L[k] += std::fabs(gi[k]); lmaxabs = std::max(lmaxabs, std::fabs(gi[k])); }
      }
    }
    LD sh[3] = {0, 0, 0};
    {
      auto quad_form = [&](const CSRd& m, LD& out) -> bool {
        Img I; if(!dec(c, "integral.discrete", m, I, "scale")) return false;
        out = 0; for(Index i = 0; i < I.R; ++i) { if(L[i] == 0) continue; LD r = 0; for(Index k = I.rp[i]; k < I.rp[i + 1]; ++k) r += I.v[k] * L[I.ci[k]]; out += L[i] * r; }
        return true;
      };
      CSRd ms; Assembly::SymbolicAssembler::assemble_matrix_std1(ms, space);
      { ms.format(); ScaleOp<1, 1> so; Assembly::BilinearOperatorAssembler::assemble_matrix1(ms, so, space, cub); if(!quad_form(ms, sh[0])) return; }
      if constexpr(md_ >= 1) { ms.format(); ScaleOp<2, 2> so; Assembly::BilinearOperatorAssembler::assemble_matrix1(ms, so, space, cub); if(!quad_form(ms, sh[1])) return; }
      if constexpr(md_ >= 2) { ms.format(); ScaleOpHess so; Assembly::BilinearOperatorAssembler::assemble_matrix1(ms, so, space, cub); if(!quad_form(ms, sh[2])) return; }
    }
    // scales: analytic: monomial terms; discrete: basis terms (plus the polynomial's own, for the reference side);
    // error: (A + B)^2 <= 2 A^2 + 2 B^2
    for(int k = 0; k < 3; ++k) { RG.s[k] = RG.s[k] + sh[k]; RE.s[k] = 2 * (RF.s[k] + sh[k]) + RE.s[k]; RZ.s[k] = 0; }
    const LD pt_basis = 256.0L * lmaxabs;   // <= 64 local basis functions with |phi_i| <= 4
    FF.vol = FG.vol = FE.vol = e.volume;
    FF.pt_tol = RF.sup; FG.pt_tol = RG.sup + pt_basis; FE.pt_tol = RF.sup + RG.sup + pt_basis;
    RE.sup = RF.sup + RG.sup; for(int i = 0; i < nb_; ++i) RE.lmaxc[i] = RF.lmaxc[i] + RG.lmaxc[i];

    FunctionType func, gfunc, zfunc; FuncTypes<dim, nb_>::set(func, Fp); FuncTypes<dim, nb_>::set(gfunc, Gp); FuncTypes<dim, nb_>::set(zfunc, Zp);

    // --- analytic function: all derivative orders are available whatever the space
    {
      const std::string op = "integral.analytic"; c.set_op(op);
      auto r0 = Assembly::integrate_analytic_function<2, double>(*e.dom_serial, func, cub_name);
      IntVals<dim, nb_> G0 = from_info<dim, nb_>(r0);
      check_against_ref(c, op, "integrate_analytic_function<2> (serial)", G0, RF, 2, FF);
      auto r1 = Assembly::integrate_analytic_function<2, double>(*e.dom_thr, func, cub_name);
      check_routes(c, op, "thread-dependent", "integrate_analytic_function<2>: serial vs " + e.thr_desc, G0, from_info<dim, nb_>(r1), RF, 2, FF);
      // lower orders: the same numbers, nothing beyond max_der
      if(c.rng.coin())
      {
        auto r2 = Assembly::integrate_analytic_function<1, double>(c.rng.coin() ? *e.dom_thr : *e.dom_serial, func, cub_name);
        IntVals<dim, nb_> G2 = from_info<dim, nb_>(r2);
        check_against_ref(c, op, "integrate_analytic_function<1>", G2, RF, 1, FF);
        c.event(); if(G2.h2 != 0) c.viol(op, "wrong-value", vh::J().kv("what", "integrate_analytic_function<1>").kv("field", "norm_h2_sqr beyond max_der").kv("got", G2.h2).str());
      }
      else
      {
        auto r2 = Assembly::integrate_analytic_function<0, double>(c.rng.coin() ? *e.dom_thr : *e.dom_serial, func, cub_name);
        IntVals<dim, nb_> G2 = from_info<dim, nb_>(r2);
        check_against_ref(c, op, "integrate_analytic_function<0>", G2, RF, 0, FF);
        c.event(); if(G2.h1 != 0 || G2.h2 != 0) c.viol(op, "wrong-value", vh::J().kv("what", "integrate_analytic_function<0>").kv("field", "norm_h1_sqr / norm_h2_sqr beyond max_der").kv("got", G2.h1).str());
      }
      // second route: the classic error computer with u_h = 0 measures f
      const std::string op2 = std::string("errcomp.") + ErrComp<nb_>::name(); c.set_op(op2);
      auto ei = ErrComp<nb_>::template run<md_>(zero, func, space, cub);
      IntVals<dim, nb_> GE = from_errinfo<dim>(ei, md_);
      check_against_ref(c, op2, std::string(ErrComp<nb_>::name()) + "(0, f)", GE, RF, md_, FF);
      check_routes(c, op2, "route-differs", std::string(ErrComp<nb_>::name()) + "(0, f) vs integrate_analytic_function", GE, G0, RF, md_, FF);
    }
    // --- discrete function
    {
      const std::string op = "integral.discrete"; c.set_op(op);
      auto r0 = Assembly::integrate_discrete_function<md_>(*e.dom_serial, vec, space, cub_name);
      IntVals<dim, nb_> G0 = from_info<dim, nb_>(r0);
      check_against_ref(c, op, "integrate_discrete_function (serial)", G0, RG, md_, FG);
      auto r1 = Assembly::integrate_discrete_function<md_>(*e.dom_thr, vec, space, cub_name);
      check_routes(c, op, "thread-dependent", "integrate_discrete_function: serial vs " + e.thr_desc, G0, from_info<dim, nb_>(r1), RG, md_, FG);
      if constexpr(md_ >= 1)
      {
        auto r2 = Assembly::integrate_discrete_function<md_ - 1>(c.rng.coin() ? *e.dom_thr : *e.dom_serial, vec, space, cub_name);
        check_against_ref(c, op, "integrate_discrete_function<max_der - 1>", from_info<dim, nb_>(r2), RG, md_ - 1, FG);
      }
      // the analytic job on g must see the same function
      auto ra = Assembly::integrate_analytic_function<md_, double>(*e.dom_serial, gfunc, cub_name);
      check_routes(c, op, "route-differs", "integrate_discrete_function(interp g) vs integrate_analytic_function(g)", G0, from_info<dim, nb_>(ra), RG, md_, FG);
      const std::string op2 = std::string("errcomp.") + ErrComp<nb_>::name(); c.set_op(op2);
      auto ei = ErrComp<nb_>::template run<md_>(vec, zfunc, space, cub);
      IntVals<dim, nb_> GE = from_errinfo<dim>(ei, md_);
      check_against_ref(c, op2, std::string(ErrComp<nb_>::name()) + "(u_h, 0)", GE, RG, md_, FG);
      check_routes(c, op2, "route-differs", std::string(ErrComp<nb_>::name()) + "(u_h, 0) vs integrate_discrete_function", GE, G0, RG, md_, FG);
    }
    // --- error function f - u_h
    {
      const std::string op = "integral.error"; c.set_op(op);
      auto r0 = Assembly::integrate_error_function<md_>(*e.dom_serial, func, vec, space, cub_name);
      IntVals<dim, nb_> G0 = from_info<dim, nb_>(r0);
      check_against_ref(c, op, "integrate_error_function (serial)", G0, RE, md_, FE);
      auto r1 = Assembly::integrate_error_function<md_>(*e.dom_thr, func, vec, space, cub_name);
      check_routes(c, op, "thread-dependent", "integrate_error_function: serial vs " + e.thr_desc, G0, from_info<dim, nb_>(r1), RE, md_, FE);
      if constexpr(md_ >= 1)
      {
        auto r2 = Assembly::integrate_error_function<md_ - 1>(c.rng.coin() ? *e.dom_thr : *e.dom_serial, func, vec, space, cub_name);
        check_against_ref(c, op, "integrate_error_function<max_der - 1>", from_info<dim, nb_>(r2), RE, md_ - 1, FE);
      }
      // error of the zero vector = the analytic function; error against the zero function = minus the discrete one
      auto rz = Assembly::integrate_error_function<md_>(c.rng.coin() ? *e.dom_thr : *e.dom_serial, func, zero, space, cub_name);
      check_against_ref(c, op, "integrate_error_function(f, 0)", from_info<dim, nb_>(rz), RF, md_, FF);
      const std::string op2 = std::string("errcomp.") + ErrComp<nb_>::name(); c.set_op(op2);
      auto ei = ErrComp<nb_>::template run<md_>(vec, func, space, cub);
      IntVals<dim, nb_> GE = from_errinfo<dim>(ei, md_);
      check_against_ref(c, op2, std::string(ErrComp<nb_>::name()) + "(u_h, f)", GE, RE, md_, FE);
      check_routes(c, op2, "route-differs", std::string(ErrComp<nb_>::name()) + "(u_h, f) vs integrate_error_function", GE, G0, RE, md_, FE);
    }
  }

  template<typename Shape_, typename SD_, int md_>
  void run_integrals(Ctx& c, Env<Shape_>& e)
  {
    constexpr int dim = vm::ShapeInfo<Shape_>::dim;
    if(c.rng.coin(0.5)) check_integrals<Shape_, SD_, 1, md_>(c, e); else check_integrals<Shape_, SD_, dim, md_>(c, e);
  }
} // namespace c16
