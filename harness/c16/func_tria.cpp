// C16 -- linear functionals on tria meshes
#include "c16_func.hpp"
using namespace c16;
VH_FAMILY(functional_tria)
{
  typedef Shape::Simplex<2> S;
  Env<S> e; gen_env(c, e, 5000);
  switch(c.rng.below(6))
  {
  case 0: run_functional<S, SL1>(c, e); break;
  case 1: run_functional<S, SL2>(c, e); break;
  case 2: run_functional<S, SL3>(c, e); break;
  case 3: run_functional<S, SCR>(c, e); break;
  case 4: run_functional<S, SD0>(c, e); break;
  default: run_functional<S, SD1>(c, e); break;
  }
}
