// C16 -- function integral jobs / error computers on hexahedral meshes
#include "c16_integral.hpp"
using namespace c16;
VH_FAMILY(integral_hexa)
{
  typedef Shape::Hypercube<3> S;
  Env<S> e; gen_env(c, e, 800);
  switch(c.rng.below(5))
  {
  case 0: run_integrals<S, SL1, 1>(c, e); break;
  case 1: run_integrals<S, SL2, 2>(c, e); break;
  case 2: run_integrals<S, SCR, 1>(c, e); break;
  case 3: run_integrals<S, SD0, 0>(c, e); break;
  default: run_integrals<S, SD1, 1>(c, e); break;
  }
}
