// C16 -- voxel assemblers on hexa meshes
#include "c16_voxel.hpp"
using namespace c16;
VH_FAMILY(voxel_hexa)
{
  typedef Shape::Hypercube<3> S;
  Env<S> e; gen_env(c, e, 500);
  run_voxel<S>(c, e);
}
