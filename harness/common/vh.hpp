// vh.hpp -- common case protocol for all /verif harness binaries (no FEAT dependency).
//
// A harness TU defines one or more *families* with VH_FAMILY(name) { ... } (body receives
// vh::Ctx& c) and optionally VH_COUNT(name) { return n; } giving the number of cases of an
// enumerated family.  One TU per binary defines VH_MAIN.  The python supervisor (vlib/sup.py)
// calls the binary with
//   --family F --seed S --tier T --from i --to j --out f.jsonl --marker m [--samples n]
//   --family F --seed S --tier T --case k --verbose        (replay of one case)
//   --family F --tier T --count                            (number of cases; 0 = not enumerated)
//   --list                                                 (family names)
// Records (one JSON object per line) written to --out:
//   {"t":"viol","k":..,"op":..,"kind":..,"tags":[..],"detail":{..}}
//   {"t":"inc","k":..,"op":..,"why":..}
//   {"t":"sample","k":..,"op":..,"tags":[..],"desc":{..}}
//   {"t":"summary","cases":..,"events":..,"trivial":..,"sigs":{sig:count},"ops":{op:count},"counters":{..}}
// The marker file always holds "k op" of the case in flight, so that the supervisor can
// attribute a crash (FEAT abort, sanitizer report, signal) to a case.
#pragma once
#include <cstdint>
#include <cstdio>
#include <cstdlib>
#include <cstring>
#include <cmath>
#include <string>
#include <vector>
#include <map>
#include <set>
#include <algorithm>
#include <functional>
#include <exception>
#include <sstream>
#include <unistd.h>
#include <fcntl.h>
#include <sys/wait.h>
#include <sys/resource.h>

namespace vh
{
  // ---------------------------------------------------------------- hashing / PRNG
  inline std::uint64_t mix64(std::uint64_t x)
  {
    x += 0x9E3779B97F4A7C15ull;
    x = (x ^ (x >> 30)) * 0xBF58476D1CE4E5B9ull;
    x = (x ^ (x >> 27)) * 0x94D049BB133111EBull;
    return x ^ (x >> 31);
  }
  inline std::uint64_t hash_str(const std::string& s)
  {
    std::uint64_t h = 1469598103934665603ull;
    for(unsigned char ch : s) { h ^= ch; h *= 1099511628211ull; }
    return h;
  }
  inline std::uint64_t hash_bytes(const void* p, std::size_t n, std::uint64_t h = 1469598103934665603ull)
  {
    const unsigned char* b = static_cast<const unsigned char*>(p);
    for(std::size_t i = 0; i < n; ++i) { h ^= b[i]; h *= 1099511628211ull; }
    return h;
  }

  struct Rng
  {
    std::uint64_t s;
    explicit Rng(std::uint64_t seed = 1) : s(seed) {}
    std::uint64_t next() { s += 0x9E3779B97F4A7C15ull; std::uint64_t z = s;
      z = (z ^ (z >> 30)) * 0xBF58476D1CE4E5B9ull; z = (z ^ (z >> 27)) * 0x94D049BB133111EBull; return z ^ (z >> 31); }
    // uniform integer in [0,n)
    std::uint64_t below(std::uint64_t n) { return n == 0 ? 0 : next() % n; }
    // uniform integer in [lo,hi]
    long range(long lo, long hi) { return lo + long(below(std::uint64_t(hi - lo + 1))); }
    bool coin(double p = 0.5) { return unit() < p; }
    // uniform real in [0,1)
    double unit() { return double(next() >> 11) * (1.0 / 9007199254740992.0); }
    double real(double lo, double hi) { return lo + (hi - lo) * unit(); }
    template<typename T> const T& pick(const std::vector<T>& v) { return v[below(v.size())]; }
    template<typename T> T pick(std::initializer_list<T> v) { return *(v.begin() + below(v.size())); }
    template<typename T> void shuffle(std::vector<T>& v)
    { for(std::size_t i = v.size(); i > 1; --i) std::swap(v[i-1], v[below(i)]); }
  };

  // ---------------------------------------------------------------- tiny JSON writer
  inline std::string jesc(const std::string& s)
  {
    std::string o; o.reserve(s.size() + 2);
    for(unsigned char ch : s)
    {
      switch(ch)
      {
      case '"': o += "\\\""; break;
      case '\\': o += "\\\\"; break;
      case '\n': o += "\\n"; break;
      case '\r': o += "\\r"; break;
      case '\t': o += "\\t"; break;
      default:
        if(ch < 0x20 || ch >= 0x7f) { char b[8]; std::snprintf(b, sizeof(b), "\\u%04x", ch); o += b; }
        else o += char(ch);
      }
    }
    return o;
  }
  inline std::string jnum(long double v)
  {
    if(!(v == v) || v > 1e4000L || v < -1e4000L || std::isinf((double)v)) {
      // JSON has no inf/nan: write as string
      if(v != v) return "\"nan\""; return v > 0 ? "\"inf\"" : "\"-inf\""; }
    char b[64]; std::snprintf(b, sizeof(b), "%.17Lg", v); return b;
  }
  struct J
  {
    std::string s; bool first = true; char close;
    explicit J(char open = '{') : close(open == '{' ? '}' : ']') { s += open; }
    J& sep() { if(!first) s += ','; first = false; return *this; }
    J& key(const std::string& k) { sep(); s += '"'; s += jesc(k); s += "\":"; return *this; }
    J& kv(const std::string& k, const std::string& v) { key(k); s += '"'; s += jesc(v); s += '"'; return *this; }
    J& kv(const std::string& k, const char* v) { return kv(k, std::string(v)); }
    J& kv(const std::string& k, double v) { key(k); s += jnum(v); return *this; }
    J& kv(const std::string& k, long double v) { key(k); s += jnum(v); return *this; }
    J& kv(const std::string& k, float v) { key(k); s += jnum(v); return *this; }
    J& kv(const std::string& k, long long v) { key(k); s += std::to_string(v); return *this; }
    J& kv(const std::string& k, unsigned long long v) { key(k); s += std::to_string(v); return *this; }
    J& kv(const std::string& k, long v) { key(k); s += std::to_string(v); return *this; }
    J& kv(const std::string& k, unsigned long v) { key(k); s += std::to_string(v); return *this; }
    J& kv(const std::string& k, int v) { key(k); s += std::to_string(v); return *this; }
    J& kv(const std::string& k, unsigned v) { key(k); s += std::to_string(v); return *this; }
    J& kv(const std::string& k, bool v) { key(k); s += v ? "true" : "false"; return *this; }
    J& raw(const std::string& k, const std::string& json) { key(k); s += json; return *this; }
    // array element adders (for J('['))
    J& add(const std::string& v) { sep(); s += '"'; s += jesc(v); s += '"'; return *this; }
    J& add(long double v) { sep(); s += jnum(v); return *this; }
    J& add(double v) { sep(); s += jnum(v); return *this; }
    J& add(long long v) { sep(); s += std::to_string(v); return *this; }
    J& add(unsigned long long v) { sep(); s += std::to_string(v); return *this; }
    J& add(long v) { sep(); s += std::to_string(v); return *this; }
    J& add(unsigned long v) { sep(); s += std::to_string(v); return *this; }
    J& add(int v) { sep(); s += std::to_string(v); return *this; }
    J& add_raw(const std::string& json) { sep(); s += json; return *this; }
    std::string str() const { return s + close; }
  };
  template<typename T> std::string jarr(const std::vector<T>& v, std::size_t maxn = 64)
  {
    J a('[');
    for(std::size_t i = 0; i < v.size() && i < maxn; ++i) a.add(v[i]);
    if(v.size() > maxn) a.add(std::string("...(") + std::to_string(v.size()) + " total)");
    return a.str();
  }
  template<typename T> std::string jarr(const T* v, std::size_t n, std::size_t maxn = 64)
  {
    J a('[');
    for(std::size_t i = 0; i < n && i < maxn; ++i) a.add((long double)v[i]);
    if(n > maxn) a.add(std::string("...(") + std::to_string(n) + " total)");
    return a.str();
  }

  // ---------------------------------------------------------------- per-process state
  struct Global
  {
    FILE* out = nullptr;
    int marker_fd = -1;
    bool verbose = false;
    std::string tier = "quick";
    std::uint64_t seed = 1;
    std::uint64_t n_samples = 2;
    std::uint64_t cases = 0, events = 0, trivial = 0, viols = 0, incs = 0;
    std::map<std::string, std::uint64_t> sigs, ops, counters;
    std::uint64_t samples_written = 0;
  };
  inline Global& G() { static Global g; return g; }
  inline bool thorough() { return G().tier == "thorough"; }

  inline void write_marker(std::uint64_t k, const std::string& op, const std::vector<std::string>* tags = nullptr)
  {
    if(G().marker_fd < 0) return;
    static char b[1024];
    std::memset(b, ' ', sizeof(b));
    std::string t;
    if(tags) for(auto& x : *tags) { if(!t.empty()) t += ','; t += x; }
    int n = std::snprintf(b, sizeof(b) - 1, "%llu\t%s\t%s", (unsigned long long)k, op.c_str(), t.c_str());
    if(n < 0) n = 0; if(n > 1022) n = 1022; b[n] = ' '; b[1023] = '\n';
    if(pwrite(G().marker_fd, b, sizeof(b), 0) < 0) {}
  }
  inline void emit(const std::string& line)
  {
    if(G().verbose) { std::fprintf(stdout, "%s\n", line.c_str()); std::fflush(stdout); }
    if(G().out) { std::fprintf(G().out, "%s\n", line.c_str()); std::fflush(G().out); }
  }

  // ---------------------------------------------------------------- case context
  struct Ctx
  {
    std::string family;
    std::uint64_t k = 0;
    Rng rng;
    std::string op;                  // current operation / call site
    std::vector<std::string> tags;   // class tags of the input (also matched by known findings)
    std::string sig;                 // class signature; default = op + sorted tags
    bool trivial = false;            // harness may flag a case as trivial (not counted as non-trivial)
    std::string desc;                // JSON description of the input (for samples / witnesses)
    int nviol = 0;

    bool verbose() const { return G().verbose; }
    bool thorough() const { return vh::thorough(); }
    void set_op(const std::string& o) { op = o; write_marker(k, o, &tags); ++G().ops[o]; }
    void tag(const std::string& t) { if(std::find(tags.begin(), tags.end(), t) == tags.end()) tags.push_back(t); }
    bool has_tag(const std::string& t) const { return std::find(tags.begin(), tags.end(), t) != tags.end(); }
    void event(std::uint64_t n = 1) { G().events += n; }
    void count(const std::string& name, std::uint64_t n = 1) { G().counters[name] += n; }
    std::string tags_json() const { J a('['); for(auto& t : tags) a.add(t); return a.str(); }

    // record a violation of the property for the current case
    void viol(const std::string& vop, const std::string& kind, const std::string& detail_json = "{}",
              const std::vector<std::string>& extra_tags = {})
    {
      ++nviol; ++G().viols;
      J a('['); for(auto& t : tags) a.add(t); for(auto& t : extra_tags) a.add(t);
      J r; r.kv("t", "viol").kv("family", family).kv("k", (unsigned long long)k).kv("op", vop).kv("kind", kind)
        .raw("tags", a.str()).raw("detail", detail_json.empty() ? "{}" : detail_json);
      if(!desc.empty()) r.raw("input", desc);
      emit(r.str());
    }
    void viol(const std::string& kind, const J& detail) { viol(op, kind, detail.str()); }
    void inconclusive(const std::string& why)
    {
      ++G().incs;
      J r; r.kv("t", "inc").kv("family", family).kv("k", (unsigned long long)k).kv("op", op).kv("why", why);
      emit(r.str());
    }
    void note(const std::string& msg) { if(G().verbose) std::fprintf(stdout, "note: %s\n", msg.c_str()); }
  };

  using CaseFn = void (*)(Ctx&);
  using CountFn = std::uint64_t (*)();
  struct Registry
  {
    std::map<std::string, CaseFn> fam;
    std::map<std::string, CountFn> cnt;
  };
  inline Registry& R() { static Registry r; return r; }
  struct RegFam { RegFam(const char* n, CaseFn f) { R().fam[n] = f; } };
  struct RegCnt { RegCnt(const char* n, CountFn f) { R().cnt[n] = f; } };

  // ---------------------------------------------------------------- forked execution (expected aborts)
  struct ForkResult
  {
    bool exited = false; int code = -1; int sig = 0; std::string err;
    bool clean() const { return exited && code == 0; }
    bool died() const { return !clean(); }
    bool err_has(const std::string& s) const { return err.find(s) != std::string::npos; }
  };
  // runs fn in a child process with stderr captured. The child _exit(0)s when fn returns,
  // _exit(3) when fn throws.
  inline ForkResult run_forked(const std::function<void()>& fn, unsigned cpu_seconds = 60)
  {
    ForkResult r;
    int p[2]; if(pipe(p) != 0) { r.err = "pipe failed"; return r; }
    std::fflush(nullptr);
    pid_t pid = fork();
    if(pid == 0)
    {
      close(p[0]); dup2(p[1], 2); close(p[1]);
      struct rlimit rl; rl.rlim_cur = cpu_seconds; rl.rlim_max = cpu_seconds + 5; setrlimit(RLIMIT_CPU, &rl);
      struct rlimit rc; rc.rlim_cur = 0; rc.rlim_max = 0; setrlimit(RLIMIT_CORE, &rc);
      G().out = nullptr; G().marker_fd = -1; G().verbose = false;
      int code = 0;
      try { fn(); } catch(std::exception& e) { std::fprintf(stderr, "VH-CHILD-EXCEPTION: %s\n", e.what()); code = 3; }
      catch(...) { std::fprintf(stderr, "VH-CHILD-EXCEPTION: unknown\n"); code = 3; }
      std::fflush(nullptr);
      _exit(code);
    }
    close(p[1]);
    char buf[4096]; ssize_t n;
    while((n = read(p[0], buf, sizeof(buf))) > 0) { if(r.err.size() < (1u << 20)) r.err.append(buf, std::size_t(n)); }
    close(p[0]);
    int st = 0; waitpid(pid, &st, 0);
    if(WIFEXITED(st)) { r.exited = true; r.code = WEXITSTATUS(st); }
    else if(WIFSIGNALED(st)) { r.sig = WTERMSIG(st); }
    return r;
  }

  // ---------------------------------------------------------------- driver
  inline void run_one(const std::string& family, CaseFn fn, std::uint64_t k)
  {
    Ctx c; c.family = family; c.k = k;
    c.rng = Rng(mix64(G().seed * 0x100000001B3ull + hash_str(family)) ^ mix64(k + 0x51ED270B0ull));
    c.op = family;
    write_marker(k, family);
    try { fn(c); }
    catch(std::exception& e) { c.viol(c.op, "exception", J().kv("what", e.what()).str()); }
    catch(...) { c.viol(c.op, "exception", J().kv("what", "unknown").str()); }
    ++G().cases;
    if(c.trivial) ++G().trivial;
    else
    {
      std::string sig = c.sig;
      if(sig.empty()) { auto t = c.tags; std::sort(t.begin(), t.end()); sig = c.op; for(auto& x : t) { sig += '|'; sig += x; } }
      if(G().sigs.size() < 200000 || G().sigs.count(sig)) ++G().sigs[sig];
    }
    if(G().samples_written < G().n_samples && !c.desc.empty())
    {
      ++G().samples_written;
      J r; r.kv("t", "sample").kv("family", family).kv("k", (unsigned long long)k).kv("op", c.op)
        .raw("tags", c.tags_json()).raw("desc", c.desc);
      emit(r.str());
    }
  }

  inline int main_impl(int argc, char** argv)
  {
    std::string family, out, marker; std::uint64_t from = 0, to = 0; long single = -1; bool count = false, list = false;
    for(int i = 1; i < argc; ++i)
    {
      std::string a = argv[i];
      auto nxt = [&]() -> std::string { if(i + 1 >= argc) { std::fprintf(stderr, "missing value for %s\n", a.c_str()); std::exit(2); } return argv[++i]; };
      if(a == "--family") family = nxt();
      else if(a == "--seed") G().seed = std::strtoull(nxt().c_str(), nullptr, 10);
      else if(a == "--tier") G().tier = nxt();
      else if(a == "--from") from = std::strtoull(nxt().c_str(), nullptr, 10);
      else if(a == "--to") to = std::strtoull(nxt().c_str(), nullptr, 10);
      else if(a == "--out") out = nxt();
      else if(a == "--marker") marker = nxt();
      else if(a == "--samples") G().n_samples = std::strtoull(nxt().c_str(), nullptr, 10);
      else if(a == "--case") single = std::strtol(nxt().c_str(), nullptr, 10);
      else if(a == "--verbose") G().verbose = true;
      else if(a == "--count") count = true;
      else if(a == "--list") list = true;
      else { std::fprintf(stderr, "unknown argument %s\n", a.c_str()); return 2; }
    }
    if(list) { for(auto& f : R().fam) std::printf("%s\n", f.first.c_str()); return 0; }
    auto it = R().fam.find(family);
    if(it == R().fam.end()) { std::fprintf(stderr, "unknown family '%s'\n", family.c_str()); return 2; }
    if(count)
    {
      auto ic = R().cnt.find(family);
      std::printf("%llu\n", (unsigned long long)(ic == R().cnt.end() ? 0 : ic->second()));
      return 0;
    }
    if(!out.empty()) { G().out = std::fopen(out.c_str(), "a"); if(!G().out) { std::perror("open out"); return 2; } }
    if(!marker.empty()) { G().marker_fd = open(marker.c_str(), O_WRONLY | O_CREAT, 0644); }
    if(single >= 0) { from = std::uint64_t(single); to = from + 1; G().n_samples = 1; }
    auto summary_json = [&](std::uint64_t upto) {
      J sg; for(auto& x : G().sigs) sg.kv(x.first, (unsigned long long)x.second);
      J op; for(auto& x : G().ops) op.kv(x.first, (unsigned long long)x.second);
      J cn; for(auto& x : G().counters) cn.kv(x.first, (unsigned long long)x.second);
      J r; r.kv("t", "summary").kv("family", family).kv("from", (unsigned long long)from).kv("to", (unsigned long long)upto)
        .kv("cases", (unsigned long long)G().cases).kv("events", (unsigned long long)G().events)
        .kv("trivial", (unsigned long long)G().trivial).kv("viols", (unsigned long long)G().viols)
        .raw("sigs", sg.str()).raw("ops", op.str()).raw("counters", cn.str());
      return r.str();
    };
    // a partial summary is flushed to <marker>.sum now and then, so that the supervisor can still count the cases of
    // an invocation that is later killed by an abort / sanitizer report
    const std::string sumfile = marker.empty() ? std::string() : marker + ".sum";
    std::uint64_t next_flush = from + 32;
    for(std::uint64_t k = from; k < to; ++k)
    {
      run_one(family, it->second, k);
      if(!sumfile.empty() && k + 1 >= next_flush && k + 1 < to)
      {
        next_flush = k + 1 + std::max<std::uint64_t>(32, (k + 1 - from) / 4);
        if(FILE* f = std::fopen((sumfile + ".tmp").c_str(), "w")) { std::fputs(summary_json(k + 1).c_str(), f); std::fclose(f); std::rename((sumfile + ".tmp").c_str(), sumfile.c_str()); }
      }
    }
    if(!sumfile.empty()) std::remove(sumfile.c_str());
    J sg; for(auto& s : G().sigs) sg.kv(s.first, (unsigned long long)s.second);
    J op; for(auto& s : G().ops) op.kv(s.first, (unsigned long long)s.second);
    J cn; for(auto& s : G().counters) cn.kv(s.first, (unsigned long long)s.second);
    J r; r.kv("t", "summary").kv("family", family).kv("from", (unsigned long long)from).kv("to", (unsigned long long)to)
      .kv("cases", (unsigned long long)G().cases).kv("events", (unsigned long long)G().events)
      .kv("trivial", (unsigned long long)G().trivial).kv("viols", (unsigned long long)G().viols)
      .raw("sigs", sg.str()).raw("ops", op.str()).raw("counters", cn.str());
    emit(r.str());
    if(G().out) std::fclose(G().out);
    write_marker(~0ull, "done");
    return (single >= 0 && G().viols > 0) ? 1 : 0;
  }
} // namespace vh

#define VH_FAMILY(name) \
  static void vh_case_##name(vh::Ctx&); \
  static vh::RegFam vh_regfam_##name(#name, vh_case_##name); \
  static void vh_case_##name(vh::Ctx& c)

#define VH_COUNT(name) \
  static std::uint64_t vh_count_##name(); \
  static vh::RegCnt vh_regcnt_##name(#name, vh_count_##name); \
  static std::uint64_t vh_count_##name()

#define VH_MAIN int main(int argc, char** argv) { return vh::main_impl(argc, argv); }
