// vh_lafem.hpp -- shared generators / reference oracles for LAFEM containers.
// The reference data (triplets, dense long double images) is owned by the *generator*; the
// containers under test are built from raw arrays, never the other way round.
#pragma once
#include <common/vh.hpp>
#include <kernel/runtime.hpp>
#include <kernel/lafem/dense_vector.hpp>
#include <kernel/lafem/dense_vector_blocked.hpp>
#include <kernel/lafem/sparse_matrix_csr.hpp>
#include <kernel/lafem/sparse_matrix_bcsr.hpp>
#include <kernel/lafem/sparse_matrix_banded.hpp>
#include <kernel/lafem/sparse_matrix_cscr.hpp>
#include <kernel/lafem/dense_matrix.hpp>
#include <kernel/util/memory_pool.hpp>
#include <limits>
#include <type_traits>

namespace vl
{
  using FEAT::Index;
  typedef long double LD;

  template<typename DT> inline LD unit_roundoff() { return (LD)std::numeric_limits<DT>::epsilon(); }
  template<typename DT> inline const char* dt_name() { return std::is_same<DT, float>::value ? "float" : "double"; }
  template<typename IT> inline const char* it_name() { return sizeof(IT) == 4 ? "u32" : "u64"; }

  // ---------------------------------------------------------------- values
  // value styles: 0 small integers (exact arithmetic in float and double), 1 uniform [-1,1], 2 wide magnitude spread,
  // 3 mixture with explicit zeros.  All values are exactly representable in float (so that float and double containers
  // hold the same mathematical data) when `float_exact` is set.
  inline double gen_value(vh::Rng& r, int style, bool float_exact = true)
  {
    double v = 0;
    switch(style)
    {
    case 0: v = double(r.range(-4, 4)); break;
    case 1: v = r.real(-1.0, 1.0); break;
    case 2: v = r.real(-1.0, 1.0) * std::pow(10.0, double(r.range(-6, 6))); break;
    default: v = r.coin(0.25) ? 0.0 : (r.coin(0.5) ? double(r.range(-9, 9)) : r.real(-2.0, 2.0)); break;
    }
    if(float_exact) v = double(float(v));
    return v;
  }
  inline double gen_nonzero(vh::Rng& r, int style, bool float_exact = true)
  {
    for(int i = 0; i < 50; ++i) { double v = gen_value(r, style, float_exact); if(v != 0.0) return v; }
    return 1.0;
  }

  // ---------------------------------------------------------------- matrix specification (generator-owned truth)
  struct Trip { Index r, c; double v; };
  struct MatSpec
  {
    Index rows = 0, cols = 0;
    std::vector<Trip> t;               // sorted by (r,c), unique positions; explicit zeros may be stored
    std::vector<std::string> tags;
    std::string pattern;               // name of the pattern class
    int vstyle = 0;

    Index nnz() const { return Index(t.size()); }
    void tag(const std::string& s) { if(std::find(tags.begin(), tags.end(), s) == tags.end()) tags.push_back(s); }
    bool has(const std::string& s) const { return std::find(tags.begin(), tags.end(), s) != tags.end(); }
    void sort_unique()
    {
      std::sort(t.begin(), t.end(), [](const Trip& a, const Trip& b) { return a.r != b.r ? a.r < b.r : a.c < b.c; });
      std::vector<Trip> u;
      for(auto& x : t) if(u.empty() || u.back().r != x.r || u.back().c != x.c) u.push_back(x);
      t.swap(u);
    }
    // dense row-major image
    std::vector<LD> dense() const
    {
      std::vector<LD> d(std::size_t(rows) * std::size_t(cols), 0.0L);
      for(auto& x : t) d[std::size_t(x.r) * cols + x.c] = (LD)x.v;
      return d;
    }
    std::vector<char> mask() const
    {
      std::vector<char> d(std::size_t(rows) * std::size_t(cols), 0);
      for(auto& x : t) d[std::size_t(x.r) * cols + x.c] = 1;
      return d;
    }
    MatSpec transposed() const
    {
      MatSpec m; m.rows = cols; m.cols = rows; m.tags = tags; m.pattern = pattern; m.vstyle = vstyle;
      for(auto& x : t) m.t.push_back({x.c, x.r, x.v});
      m.sort_unique();
      return m;
    }
    // computes the structural class tags (used for class signatures and known-finding matching)
    void classify()
    {
      if(t.empty()) tag("entry_free");
      if(rows == 0 || cols == 0) tag("dim0");
      if(rows == 1 && cols == 1) tag("1x1");
      if(rows != cols) tag(rows < cols ? "wide" : "tall"); else tag("square");
      std::vector<Index> rc(rows, 0), cc(cols, 0); bool diag_all = rows == cols && rows > 0;
      std::vector<char> hd(std::min(rows, cols), 0);
      for(auto& x : t) { ++rc[x.r]; ++cc[x.c]; if(x.r == x.c && x.r < hd.size()) hd[x.r] = 1; }
      if(!t.empty())
      {
        if(std::find(rc.begin(), rc.end(), Index(0)) != rc.end()) tag("empty_row");
        if(std::find(cc.begin(), cc.end(), Index(0)) != cc.end()) tag("empty_col");
        if(t.size() == std::size_t(rows) * std::size_t(cols)) tag("full");
      }
      for(char h : hd) if(!h) diag_all = false;
      if(diag_all) tag("full_diag"); else if(rows == cols && rows > 0) tag("missing_diag");
      bool zeros = false; for(auto& x : t) if(x.v == 0.0) zeros = true;
      if(zeros) tag("stored_zero");
    }
    std::string describe(std::size_t maxn = 40) const
    {
      vh::J a('[');
      for(std::size_t i = 0; i < t.size() && i < maxn; ++i) { vh::J e('['); e.add((unsigned long)t[i].r); e.add((unsigned long)t[i].c); e.add(t[i].v); a.add_raw(e.str()); }
      if(t.size() > maxn) a.add(std::string("...") + std::to_string(t.size()) + " entries");
      return vh::J().kv("rows", (unsigned long)rows).kv("cols", (unsigned long)cols).kv("nnz", (unsigned long)t.size())
        .kv("pattern", pattern).kv("vstyle", vstyle).raw("triplets", a.str()).str();
    }
  };

  inline Index gen_dim(vh::Rng& r, Index maxd, bool allow_zero = false)
  {
    // biased towards the small / edge sizes
    static const Index small[] = {1, 1, 2, 2, 3, 3, 4, 5, 7, 8, 9, 16, 17};
    Index d;
    if(r.coin(0.55)) d = small[r.below(sizeof(small) / sizeof(small[0]))];
    else d = Index(r.range(1, long(maxd)));
    if(d > maxd) d = maxd;
    if(allow_zero && r.coin(0.03)) d = 0;
    return d;
  }

  struct GenOpt
  {
    Index max_dim = 40;
    bool square = false;
    bool allow_entry_free = true;
    bool allow_dim0 = false;
    bool force_diag = false;      // every diagonal position stored with a non-zero value
    bool float_exact = true;
    int vstyle = -1;              // -1: random
  };

  // generates a random sparse matrix specification
  inline MatSpec gen_matrix(vh::Rng& r, const GenOpt& o = GenOpt())
  {
    MatSpec m;
    m.rows = gen_dim(r, o.max_dim, o.allow_dim0);
    m.cols = o.square ? m.rows : (r.coin(0.35) ? m.rows : gen_dim(r, o.max_dim, o.allow_dim0));
    m.vstyle = o.vstyle >= 0 ? o.vstyle : int(r.below(4));
    const Index R = m.rows, C = m.cols;
    int pat = int(r.below(10));
    if(!o.allow_entry_free && pat == 0) pat = 3;
    auto val = [&]() { return gen_value(r, m.vstyle, o.float_exact); };
    if(R > 0 && C > 0) switch(pat)
    {
    case 0: m.pattern = "entry_free"; break;
    case 1: m.pattern = "diagonal"; for(Index i = 0; i < std::min(R, C); ++i) m.t.push_back({i, i, val()}); break;
    case 2: { m.pattern = "banded"; long bw = r.range(0, 3);
        for(Index i = 0; i < R; ++i) for(long d = -bw; d <= bw; ++d) { long j = long(i) + d; if(j >= 0 && j < long(C)) m.t.push_back({i, Index(j), val()}); } break; }
    case 3: case 4: case 5: { double dens = r.pick<double>({0.05, 0.3, 0.8}); m.pattern = "uniform";
        for(Index i = 0; i < R; ++i) for(Index j = 0; j < C; ++j) if(r.coin(dens)) m.t.push_back({i, j, val()}); break; }
    case 6: m.pattern = "full"; for(Index i = 0; i < R; ++i) for(Index j = 0; j < C; ++j) m.t.push_back({i, j, val()}); break;
    case 7: { m.pattern = "empty_rows_cols"; // forced empty rows and columns
        std::vector<char> er(R, 0), ec(C, 0); for(auto& x : er) x = r.coin(0.4); for(auto& x : ec) x = r.coin(0.4);
        for(Index i = 0; i < R; ++i) for(Index j = 0; j < C; ++j) if(!er[i] && !ec[j] && r.coin(0.5)) m.t.push_back({i, j, val()}); break; }
    case 8: { m.pattern = "one_dense_row"; Index dr = Index(r.below(R));
        for(Index j = 0; j < C; ++j) m.t.push_back({dr, j, val()});
        for(Index i = 0; i < R; ++i) if(i != dr && r.coin(0.5)) m.t.push_back({i, Index(r.below(C)), val()}); break; }
    default: { m.pattern = "single_entry_rows"; for(Index i = 0; i < R; ++i) if(r.coin(0.7)) m.t.push_back({i, Index(r.below(C)), val()}); break; }
    }
    if(o.force_diag)
    {
      m.sort_unique();
      for(Index i = 0; i < std::min(R, C); ++i)
      {
        bool found = false;
        for(auto& x : m.t) if(x.r == i && x.c == i) { found = true; if(x.v == 0.0) x.v = gen_nonzero(r, m.vstyle, o.float_exact); }
        if(!found) m.t.push_back({i, i, gen_nonzero(r, m.vstyle, o.float_exact)});
      }
    }
    m.sort_unique();
    m.classify();
    return m;
  }

  // always-on edge corpus (independent of the seed); index i in [0, edge_corpus_size())
  inline std::size_t edge_corpus_size() { return 14; }
  inline MatSpec edge_matrix(std::size_t i)
  {
    MatSpec m; m.vstyle = 0; m.pattern = "edge";
    auto fill = [&](Index R, Index C, bool all) { m.rows = R; m.cols = C; if(all) for(Index a = 0; a < R; ++a) for(Index b = 0; b < C; ++b) m.t.push_back({a, b, double(int((a * 3 + b * 5) % 7) - 3 ? int((a * 3 + b * 5) % 7) - 3 : 2)}); };
    switch(i)
    {
    case 0: fill(1, 1, true); break;
    case 1: fill(1, 1, false); break;
    case 2: fill(3, 5, false); break;
    case 3: fill(5, 3, false); break;
    case 4: fill(1, 6, true); break;
    case 5: fill(6, 1, true); break;
    case 6: fill(4, 4, true); break;
    case 7: m.rows = 5; m.cols = 5; m.t.push_back({2, 3, 2.0}); break;                 // all-empty-but-one row
    case 8: m.rows = 4; m.cols = 6; m.t.push_back({0, 0, 1.0}); m.t.push_back({3, 5, -1.0}); break;
    case 9: m.rows = 6; m.cols = 4; m.t.push_back({5, 0, 3.0}); break;                 // only last row, first column
    case 10: m.rows = 3; m.cols = 3; m.t.push_back({0, 2, 1.0}); m.t.push_back({2, 0, 1.0}); break; // no diagonal at all
    case 11: m.rows = 2; m.cols = 2; m.t.push_back({0, 0, 0.0}); m.t.push_back({1, 1, 0.0}); break; // stored zeros only
    case 12: fill(17, 17, false); for(Index a = 0; a < 17; ++a) m.t.push_back({a, a, 2.0}); break;
    default: fill(9, 2, true); break;
    }
    m.sort_unique(); m.classify(); m.tag("edge_corpus");
    return m;
  }

  // ---------------------------------------------------------------- building FEAT containers from raw arrays
  template<typename DT, typename IT>
  FEAT::LAFEM::DenseVector<DT, IT> make_dv(const std::vector<double>& v)
  {
    FEAT::LAFEM::DenseVector<DT, IT> x(Index(v.size()));
    for(Index i = 0; i < Index(v.size()); ++i) x(i, DT(v[i]));
    return x;
  }
  inline std::vector<double> gen_vec(vh::Rng& r, Index n, int style, bool float_exact = true)
  {
    std::vector<double> v(n);
    for(auto& x : v) x = gen_value(r, style, float_exact);
    return v;
  }
  template<typename DT, typename IT>
  std::vector<LD> read_dv(const FEAT::LAFEM::DenseVector<DT, IT>& x)
  {
    std::vector<LD> v(x.size());
    const DT* e = x.elements();
    for(Index i = 0; i < x.size(); ++i) v[i] = (LD)e[i];
    return v;
  }

  template<typename DT, typename IT>
  FEAT::LAFEM::SparseMatrixCSR<DT, IT> make_csr(const MatSpec& m)
  {
    using namespace FEAT::LAFEM;
    if(m.t.empty()) return SparseMatrixCSR<DT, IT>(m.rows, m.cols);
    DenseVector<IT, IT> col(Index(m.t.size())), rp(m.rows + 1);
    DenseVector<DT, IT> val(Index(m.t.size()));
    std::vector<Index> cnt(m.rows + 1, 0);
    for(Index i = 0; i < Index(m.t.size()); ++i) { col(i, IT(m.t[i].c)); val(i, DT(m.t[i].v)); ++cnt[m.t[i].r + 1]; }
    for(Index i = 0; i < m.rows; ++i) cnt[i + 1] += cnt[i];
    for(Index i = 0; i <= m.rows; ++i) rp(i, IT(cnt[i]));
    return SparseMatrixCSR<DT, IT>(m.rows, m.cols, col, val, rp);
  }

  template<typename DT, typename IT>
  FEAT::LAFEM::DenseMatrix<DT, IT> make_dense(const MatSpec& m)
  {
    FEAT::LAFEM::DenseMatrix<DT, IT> a(m.rows, m.cols, DT(0));
    for(auto& x : m.t) a(x.r, x.c, DT(x.v));
    return a;
  }

  // CSCR: compressed rows = the rows holding at least one entry (requires nnz > 0)
  template<typename DT, typename IT>
  FEAT::LAFEM::SparseMatrixCSCR<DT, IT> make_cscr(const MatSpec& m)
  {
    using namespace FEAT::LAFEM;
    if(m.t.empty()) return SparseMatrixCSCR<DT, IT>(m.rows, m.cols);
    std::vector<Index> rows_used;
    for(auto& x : m.t) if(rows_used.empty() || rows_used.back() != x.r) rows_used.push_back(x.r);
    DenseVector<IT, IT> col(Index(m.t.size())), rp(Index(rows_used.size() + 1)), rn(Index(rows_used.size()));
    DenseVector<DT, IT> val(Index(m.t.size()));
    Index ur = 0; rp(0, IT(0));
    for(Index i = 0; i < Index(m.t.size()); ++i)
    {
      col(i, IT(m.t[i].c)); val(i, DT(m.t[i].v));
      if(i + 1 == Index(m.t.size()) || m.t[i + 1].r != m.t[i].r) { rn(ur, IT(m.t[i].r)); rp(ur + 1, IT(i + 1)); ++ur; }
    }
    return SparseMatrixCSCR<DT, IT>(m.rows, m.cols, col, val, rp, rn);
  }

  // Banded: the spec is *projected* onto a set of offsets; returns the matrix and rewrites the spec to hold exactly the
  // in-matrix band positions (so that the spec remains the truth).  Offset value k means column = row + k + 1 - rows.
  template<typename DT, typename IT>
  FEAT::LAFEM::SparseMatrixBanded<DT, IT> make_banded(vh::Rng& r, MatSpec& m, std::vector<Index>* offsets_out = nullptr)
  {
    using namespace FEAT::LAFEM;
    const Index R = m.rows, C = m.cols;
    // choose offsets: those touched by the spec + random extra ones; at least one
    std::set<Index> offs;
    for(auto& x : m.t) offs.insert(Index(long(x.c) - long(x.r) + long(R) - 1));
    int extra = int(r.below(3));
    for(int i = 0; i < extra || offs.empty(); ++i) offs.insert(Index(r.below(R + C - 1)));
    // keep the number of offsets moderate
    std::vector<Index> ov(offs.begin(), offs.end());
    while(ov.size() > 27) ov.erase(ov.begin() + long(r.below(ov.size())));
    const Index no = Index(ov.size());
    DenseVector<IT, IT> off(no);
    for(Index a = 0; a < no; ++a) off(a, IT(ov[a]));
    DenseVector<DT, IT> val(no * R, DT(0));
    std::map<std::pair<Index, Index>, double> want;
    for(auto& x : m.t) want[{x.r, x.c}] = x.v;
    std::vector<Trip> nt;
    for(Index a = 0; a < no; ++a)
      for(Index l = 0; l < R; ++l)
      {
        long col = long(l) + long(ov[a]) + 1 - long(R);
        if(col < 0 || col >= long(C)) { val(a * R + l, DT(0)); continue; } // padding slot
        auto it = want.find({l, Index(col)});
        double v = it != want.end() ? it->second : (r.coin(0.5) ? 0.0 : gen_value(r, m.vstyle));
        val(a * R + l, DT(v));
        nt.push_back({l, Index(col), v});
      }
    m.t = nt; m.sort_unique(); m.tags.clear(); m.classify(); m.tag("banded_layout");
    m.tag("noffsets:" + std::to_string(no));
    if(offsets_out) *offsets_out = ov;
    return SparseMatrixBanded<DT, IT>(R, C, val, off);
  }

  // BCSR: `bm` is the *block* pattern (rows/cols in blocks; values ignored); fills `sm` with the scalar truth
  template<typename DT, typename IT, int BH, int BW>
  FEAT::LAFEM::SparseMatrixBCSR<DT, IT, BH, BW> make_bcsr(vh::Rng& r, const MatSpec& bm, MatSpec& sm)
  {
    using namespace FEAT::LAFEM;
    sm = MatSpec(); sm.rows = bm.rows * BH; sm.cols = bm.cols * BW; sm.vstyle = bm.vstyle; sm.pattern = bm.pattern;
    if(bm.t.empty()) { sm.classify(); sm.tags = bm.tags; return SparseMatrixBCSR<DT, IT, BH, BW>(bm.rows, bm.cols); }
    const Index nb = Index(bm.t.size());
    DenseVector<IT, IT> col(nb), rp(bm.rows + 1);
    DenseVector<DT, IT> val(nb * Index(BH * BW));
    std::vector<Index> cnt(bm.rows + 1, 0);
    for(Index i = 0; i < nb; ++i)
    {
      col(i, IT(bm.t[i].c)); ++cnt[bm.t[i].r + 1];
      for(int a = 0; a < BH; ++a) for(int b = 0; b < BW; ++b)
      {
        double v = gen_value(r, bm.vstyle);
        val(i * Index(BH * BW) + Index(a * BW + b), DT(v));
        sm.t.push_back({bm.t[i].r * BH + Index(a), bm.t[i].c * BW + Index(b), v});
      }
    }
    for(Index i = 0; i < bm.rows; ++i) cnt[i + 1] += cnt[i];
    for(Index i = 0; i <= bm.rows; ++i) rp(i, IT(cnt[i]));
    sm.sort_unique(); sm.classify();
    for(auto& t : bm.tags) if(t == "entry_free" || t == "empty_row" || t == "empty_col" || t == "edge_corpus") sm.tag("block_" + t);
    return SparseMatrixBCSR<DT, IT, BH, BW>(bm.rows, bm.cols, col, val, rp);
  }

  // ---------------------------------------------------------------- reference products and bounds
  struct RefVec { std::vector<LD> v, s; }; // value and sum of |terms| per component

  // r = beta*y + alpha * op(A) * x  (op = transpose if tr); y may be empty (treated as 0)
  inline RefVec ref_apply(const MatSpec& m, const std::vector<LD>& x, const std::vector<LD>* y, LD alpha, bool tr)
  {
    RefVec o; const Index n = tr ? m.cols : m.rows;
    o.v.assign(n, 0.0L); o.s.assign(n, 0.0L);
    for(auto& e : m.t)
    {
      const Index i = tr ? e.c : e.r, j = tr ? e.r : e.c;
      LD t = alpha * (LD)e.v * x[j];
      o.v[i] += t; o.s[i] += std::fabs((LD)e.v * x[j]) * std::max<LD>(std::fabs(alpha), 1.0L);
    }
    if(y) for(Index i = 0; i < n; ++i) { o.v[i] += (*y)[i]; o.s[i] += std::fabs((*y)[i]); }
    return o;
  }

  // |computed - ref| <= K * u * S + tiny ; K = 8 * (len + 4)
  template<typename DT>
  inline bool close_enough(LD computed, LD ref, LD S, std::size_t len, LD* excess = nullptr)
  {
    const LD u = unit_roundoff<DT>();
    const LD bound = 8.0L * LD(len + 4) * u * S + (LD)std::numeric_limits<DT>::min() * 16.0L;
    const LD err = std::fabs(computed - ref);
    if(excess) *excess = bound > 0 ? err / bound : (err > 0 ? 1e300L : 0);
    return (computed == computed) && err <= bound;
  }
  inline std::size_t max_row_len(const MatSpec& m, bool tr)
  {
    std::vector<std::size_t> c(tr ? m.cols : m.rows, 0); std::size_t mx = 0;
    for(auto& e : m.t) mx = std::max(mx, ++c[tr ? e.c : e.r]);
    return mx;
  }

  // ---------------------------------------------------------------- bit hashes of containers (input purity monitors)
  template<typename Cont>
  std::uint64_t container_hash(const Cont& a)
  {
    typedef typename Cont::DataType DT; typedef typename Cont::IndexType IT;
    std::uint64_t h = 1469598103934665603ull;
    const auto& el = a.get_elements(); const auto& es = a.get_elements_size();
    for(std::size_t i = 0; i < el.size(); ++i) if(el[i] && es[i]) h = vh::hash_bytes(el[i], es[i] * sizeof(DT), h);
    const auto& in = a.get_indices(); const auto& is = a.get_indices_size();
    for(std::size_t i = 0; i < in.size(); ++i) if(in[i] && is[i]) h = vh::hash_bytes(in[i], is[i] * sizeof(IT), h);
    const auto& sc = a.get_scalar_index();
    for(auto v : sc) { std::uint64_t q = v; h = vh::hash_bytes(&q, sizeof(q), h); }
    return h;
  }

  // decode the dense image of FEAT containers *from their raw arrays* (harness-side decoding)
  template<typename DT, typename IT>
  bool decode_csr(const FEAT::LAFEM::SparseMatrixCSR<DT, IT>& a, std::vector<LD>& d, std::vector<char>& mask, std::string& why)
  {
    const Index R = a.rows(), C = a.columns(), nz = a.used_elements();
    d.assign(std::size_t(R) * C, 0.0L); mask.assign(std::size_t(R) * C, 0);
    if(nz == 0) return true;
    const IT* rp = a.row_ptr(); const IT* ci = a.col_ind(); const DT* v = a.val();
    if(!rp || !ci || !v) { why = "null array with used_elements>0"; return false; }
    if(rp[0] != 0) { why = "row_ptr[0]!=0"; return false; }
    if(Index(rp[R]) != nz) { why = "row_ptr[rows]!=used_elements"; return false; }
    for(Index i = 0; i < R; ++i)
    {
      if(rp[i + 1] < rp[i]) { why = "row_ptr not monotone at row " + std::to_string(i); return false; }
      for(IT k = rp[i]; k < rp[i + 1]; ++k)
      {
        if(Index(ci[k]) >= C) { why = "column index out of range in row " + std::to_string(i); return false; }
        if(k > rp[i] && ci[k] <= ci[k - 1]) { why = "column indices not strictly increasing in row " + std::to_string(i); return false; }
        d[std::size_t(i) * C + ci[k]] = (LD)v[k]; mask[std::size_t(i) * C + ci[k]] = 1;
      }
    }
    return true;
  }

  // compares a decoded dense image with the spec: values exactly (after rounding the truth to DT), pattern exactly
  template<typename DT>
  bool same_image(const MatSpec& m, const std::vector<LD>& d, const std::vector<char>* mask, std::string& why)
  {
    std::vector<LD> t = m.dense(); std::vector<char> tm = m.mask();
    if(t.size() != d.size()) { why = "dimension mismatch"; return false; }
    for(std::size_t i = 0; i < t.size(); ++i)
    {
      if((LD)DT(t[i]) != d[i]) { why = "value mismatch at (" + std::to_string(i / std::max<Index>(m.cols, 1)) + "," + std::to_string(i % std::max<Index>(m.cols, 1)) + ")"; return false; }
      if(mask && (*mask)[i] != tm[i]) { why = "pattern mismatch at (" + std::to_string(i / std::max<Index>(m.cols, 1)) + "," + std::to_string(i % std::max<Index>(m.cols, 1)) + ")"; return false; }
    }
    return true;
  }
} // namespace vl

#define VH_FEAT_MAIN \
  int main(int argc, char** argv) { FEAT::Runtime::ScopeGuard guard(argc, argv); return vh::main_impl(argc, argv); }
