// c07_common.hpp -- generators, run monitor and judge of the C07 harness (iterative solvers report their status
// truthfully and converge).  Builds on the dense long-double machinery of the C08 harness.
//
// Monitored quantity ("defect") per solver -- established by reading every class' documentation and the code that
// calls _set_initial_defect / _set_new_defect / _update_defect in /repo/kernel/solver (no solver overrides
// _calc_def_norm, which is norm2 of the vector handed in):
//
//   solver      vector handed to the defect monitor                                  recomputable as ||F(b-Ax)||_2 ?
//   ----------  -------------------------------------------------------------------  -------------------------------
//   PCG         r = b-Ax, recurrence r -= alpha*F(A p)               (pcg.hpp)          yes (unpreconditioned)
//   PCR         "real residual" r, recurrence r -= alpha*q            (pcr.hpp)          yes
//   PipePCG     r recurrence (+ replacement every 50 its), norm2_async (pipepcg.hpp)    yes
//   GroppPCG    r recurrence, norm2_async                              (gropppcg.hpp)    yes
//   RGCR        r recurrence r -= alpha*q_j (recycled directions)      (rgcr.hpp)        yes
//   PMR         r recurrence                                           (pmr.hpp)         yes
//   Chebyshev   F(b-Ax) recomputed every iteration                     (chebyshev.hpp)   yes
//   Richardson  F(b-Ax) recomputed every iteration                     (richardson.hpp)  yes
//   BiCGStab    unpreconditioned r (both variants); extra *unlogged* half-step test on ||r_{k+1/2}||   yes
//   BiCGStabL   left: F(F(Ax)-b) recomputed; right: recurrence residual of A M y = b ("the abort criterion controls
//               the real residuals b-Ax", bicgstabl.hpp)                                 yes
//   RBiCGStab   unpreconditioned r recurrence, half-step test, norm2_async (rbicgstab.hpp) yes
//   IDRS        _vec_res = unpreconditioned residual recurrence       (idrs.hpp)        yes
//   FGMRES      F(b-Ax) recomputed at every restart; inner iterations use |q_{m+1}| pseudo defects that are counted
//   GMRES       as iterations but never reported through the monitor   (fgmres.hpp/gmres.hpp)  yes (final)
//   PCGNR       r = b-Ax recurrence (not the normal-equation residual)  (pcgnr.hpp)      yes
//
// So for every solver the success criterion is checked on the harness-recomputed ||F(b-Ax)||_2 (F = defect filter).
#pragma once
#include "../c08/c08_common.hpp"
#include <kernel/solver/iterative.hpp>
#include <kernel/solver/jacobi_precond.hpp>
#include <kernel/solver/ssor_precond.hpp>
#include <kernel/solver/ilu_precond.hpp>

namespace c07
{
  using vl::LD;
  using FEAT::Index;
  using c08::Sys;
  namespace LAFEM = FEAT::LAFEM;
  namespace Solver = FEAT::Solver;
  using Solver::Status;

  typedef LAFEM::SparseMatrixCSR<double, Index> Mat;
  typedef LAFEM::DenseVector<double, Index> Vec;
  typedef LAFEM::NoneFilter<double, Index> FNone;
  typedef LAFEM::UnitFilter<double, Index> FUnit;
  typedef Solver::IterativeSolver<Vec> ISolver;
  typedef Solver::SolverBase<Vec> SBase;

  inline const char* status_name(Status s)
  {
    switch(s)
    {
    case Status::undefined: return "undefined"; case Status::progress: return "progress"; case Status::success: return "success";
    case Status::aborted: return "aborted"; case Status::diverged: return "diverged"; case Status::max_iter: return "max_iter";
    case Status::stagnated: return "stagnated"; default: return "unknown";
    }
  }

  // ------------------------------------------------------------------------------------------- per-solver table
  struct SolverInfo
  {
    const char* name;        // op prefix
    bool spd_only;           // method scope: symmetric positive definite systems and preconditioners
    bool breakdown_abort;    // the implementation has explicit breakdown exits returning Status::aborted
    bool half_step;          // may stop on an intermediate ("half-step") defect that is not reported through the monitor
    bool pseudo_iters;       // counts inner iterations whose defects are not reported through the monitor
    bool recycles;           // keeps search directions between solves by design (no bitwise repeatability)
    bool conv_required;      // convergence is guaranteed by theory on the generated in-scope systems
    bool inner_untested = false; // runs several inner steps without any convergence test (documented for BiCGStab(l))
  };

  // ------------------------------------------------------------------------------------------- systems
  struct Problem
  {
    Sys s;
    std::string kind;
    bool spd = false;        // symmetric positive definite
    bool dominant = false;   // strictly row and column diagonally dominant with positive diagonal
    bool ilu_safe = false;   // ILU(0) keeps positive pivots / symmetry (diagonally dominant or M-matrix)
    double cond_bound = 0;   // upper bound of the 2-norm condition number (by construction)
    LD anorm = 0;            // Frobenius norm
  };

  inline void finish(Problem& p)
  {
    Sys& s = p.s; s.bs = 1; s.nb = s.n;
    s.bmask.assign(std::size_t(s.n) * s.n, 0);
    LD f = 0;
    for(Index i = 0; i < s.n; ++i) for(Index j = 0; j < s.n; ++j)
    { const LD v = s.a[std::size_t(i) * s.n + j]; if(v != 0.0L || i == j) s.bmask[std::size_t(i) * s.n + j] = 1; f += v * v; }
    p.anorm = std::sqrt(f);
    s.pattern = p.kind; s.fixed.assign(s.n, 0);
  }

  inline Index gen_n(vh::Rng& r, Index maxn)
  {
    static const Index small[] = {1, 2, 3, 4, 5, 7, 8, 9, 12, 16, 17, 25};
    Index n = r.coin(0.5) ? small[r.below(sizeof(small) / sizeof(small[0]))] : Index(r.range(1, long(maxn)));
    return std::min(n, maxn);
  }

  // B^T B + delta I with delta >= ||B^T B||_inf / 1e4  (condition <= 1e4 + 1)
  inline Problem gen_btb(vh::Rng& r, Index maxn)
  {
    Problem p; p.kind = "spd_btb"; p.spd = true; Sys& s = p.s;
    const Index n = s.n = gen_n(r, std::min<Index>(maxn, 200));
    std::vector<LD> B(std::size_t(n) * n, 0.0L);
    const double dens = std::min(1.0, r.pick<double>({2.0, 4.0, 8.0}) / double(n));
    const int vs = int(r.below(2));
    for(Index i = 0; i < n; ++i) for(Index j = 0; j < n; ++j) if(i == j || r.coin(dens)) B[std::size_t(i) * n + j] = (LD)vl::gen_nonzero(r, vs, true);
    s.a.assign(std::size_t(n) * n, 0.0L);
    for(Index i = 0; i < n; ++i) for(Index j = i; j < n; ++j)
    {
      LD v = 0; for(Index k = 0; k < n; ++k) v += B[std::size_t(k) * n + i] * B[std::size_t(k) * n + j];
      const double d = double(v); s.a[std::size_t(i) * n + j] = (LD)d; s.a[std::size_t(j) * n + i] = (LD)d;
    }
    LD ninf = 0; for(Index i = 0; i < n; ++i) { LD t = 0; for(Index j = 0; j < n; ++j) t += std::fabs(s.a[std::size_t(i) * n + j]); ninf = std::max(ninf, t); }
    const double ratio = r.pick<double>({1e-1, 1e-2, 1e-3, 1e-4});
    const double delta = double(float(double(ninf) * ratio)) + 1e-3;
    for(Index i = 0; i < n; ++i) s.a[std::size_t(i) * n + i] = (LD)double(s.a[std::size_t(i) * n + i] + (LD)delta);
    p.cond_bound = (double(ninf) + delta) / delta * 1.001;
    finish(p); return p;
  }

  inline Problem gen_lap1d(vh::Rng& r, Index maxn)
  {
    Problem p; p.kind = "lap1d"; p.spd = true; p.ilu_safe = true; Sys& s = p.s;
    const Index n = s.n = gen_n(r, std::min<Index>(maxn, 150));
    const double sc = std::ldexp(1.0, int(r.range(-8, 8)));
    s.a.assign(std::size_t(n) * n, 0.0L);
    for(Index i = 0; i < n; ++i) { s.a[std::size_t(i) * n + i] = 2.0 * sc; if(i > 0) s.a[std::size_t(i) * n + i - 1] = -sc; if(i + 1 < n) s.a[std::size_t(i) * n + i + 1] = -sc; }
    const double h = 3.14159265358979323846 / double(n + 1);
    p.cond_bound = (2.0 + 2.0 * std::cos(h)) / (2.0 - 2.0 * std::cos(h)) * 1.001;
    finish(p); return p;
  }

  inline Problem gen_lap2d(vh::Rng& r, Index maxn)
  {
    Problem p; p.kind = "lap2d"; p.spd = true; p.ilu_safe = true; Sys& s = p.s;
    Index m = Index(r.range(1, 20)); while(m * m > maxn) --m;
    const Index n = s.n = m * m;
    const double sc = std::ldexp(1.0, int(r.range(-4, 4)));
    s.a.assign(std::size_t(n) * n, 0.0L);
    for(Index y = 0; y < m; ++y) for(Index x = 0; x < m; ++x)
    {
      const Index i = y * m + x; s.a[std::size_t(i) * n + i] = 4.0 * sc;
      if(x > 0) s.a[std::size_t(i) * n + i - 1] = -sc; if(x + 1 < m) s.a[std::size_t(i) * n + i + 1] = -sc;
      if(y > 0) s.a[std::size_t(i) * n + i - m] = -sc; if(y + 1 < m) s.a[std::size_t(i) * n + i + m] = -sc;
    }
    const double h = 3.14159265358979323846 / double(m + 1);
    p.cond_bound = (1.0 + std::cos(h)) / (1.0 - std::cos(h)) * 1.001;
    finish(p); return p;
  }

  // strictly row *and* column diagonally dominant with positive diagonal: A + A^T is SPD, so the field of values lies in
  // the right half plane (restarted GMRES converges for every restart length); symmetric variant: SPD
  inline Problem gen_dominant(vh::Rng& r, Index maxn, bool sym)
  {
    Problem p; p.kind = sym ? "spd_dominant" : "nonsym_dominant"; p.spd = sym; p.dominant = true; p.ilu_safe = true; Sys& s = p.s;
    const Index n = s.n = gen_n(r, maxn);
    const double dens = std::min(1.0, r.pick<double>({2.0, 4.0, 10.0}) / double(n));
    const int vs = int(r.below(2));
    s.a.assign(std::size_t(n) * n, 0.0L);
    for(Index i = 0; i < n; ++i) for(Index j = (sym ? i + 1 : 0); j < n; ++j) if(i != j && r.coin(dens))
    { const LD v = (LD)vl::gen_value(r, vs, true); s.a[std::size_t(i) * n + j] = v; if(sym) s.a[std::size_t(j) * n + i] = v; }
    const double f = r.pick<double>({1.25, 1.5, 2.0, 4.0});
    double dmin = 1e300, dmax = 0;
    for(Index i = 0; i < n; ++i)
    {
      LD rs = 0, cs = 0; for(Index j = 0; j < n; ++j) if(j != i) { rs += std::fabs(s.a[std::size_t(i) * n + j]); cs += std::fabs(s.a[std::size_t(j) * n + i]); }
      const double d = double(float(double(std::max(rs, cs)) * f * 1.0001 + r.real(0.5, 2.0)));
      s.a[std::size_t(i) * n + i] = (LD)d; dmin = std::min(dmin, d * (1.0 - 1.0 / f)); dmax = std::max(dmax, d * (1.0 + 1.0 / f));
    }
    p.cond_bound = dmax / dmin * 1.001; // sigma_min >= min_i (d_i - max(r_i,c_i)) for doubly dominant matrices; sigma_max <= sqrt(|A|_1 |A|_inf)
    finish(p); return p;
  }

  // New values on the *existing layout* (same stored positions) for the value-update histories: strictly row and column
  // diagonally dominant with positive diagonal, symmetric iff `sym`, globally scaled by a power of two; entries are drawn
  // anew, so data cached from the previous values (transpose, factorisation, inverse diagonal) cannot accidentally fit.
  inline Problem regen_on_layout(vh::Rng& r, const Problem& old, bool sym)
  {
    Problem p = old; p.kind = sym ? "updated_spd_dominant" : "updated_nonsym_dominant"; p.spd = sym; p.dominant = true; p.ilu_safe = true;
    Sys& s = p.s; const Index n = s.n; const int vs = int(r.below(2));
    const double sc = std::ldexp(1.0, int(r.pick<int>({-6, -3, 2, 5})));
    std::fill(s.a.begin(), s.a.end(), 0.0L);
    for(Index i = 0; i < n; ++i) for(Index j = (sym ? i + 1 : 0); j < n; ++j) if(i != j && s.stored(i, j) && (!sym || s.stored(j, i)))
    { const LD v = (LD)vl::gen_nonzero(r, vs, true); s.a[std::size_t(i) * n + j] = v; if(sym) s.a[std::size_t(j) * n + i] = v; }
    const double f = r.pick<double>({1.25, 2.0, 4.0});
    double dmin = 1e300, dmax = 0; LD fro = 0;
    for(Index i = 0; i < n; ++i)
    {
      LD rs = 0, cs = 0; for(Index j = 0; j < n; ++j) if(j != i) { rs += std::fabs(s.a[std::size_t(i) * n + j]); cs += std::fabs(s.a[std::size_t(j) * n + i]); }
      const double d = double(float(double(std::max(rs, cs)) * f * 1.0001 + r.real(0.5, 2.0)));
      s.a[std::size_t(i) * n + i] = (LD)d; dmin = std::min(dmin, d * (1.0 - 1.0 / f)); dmax = std::max(dmax, d * (1.0 + 1.0 / f));
    }
    for(auto& v : s.a) { v *= (LD)sc; fro += v * v; }
    p.anorm = std::sqrt(fro); p.cond_bound = dmax / dmin * 1.001; s.pattern = p.kind;
    return p;
  }

  inline Problem gen_problem(vh::Rng& r, Index maxn, bool need_spd)
  {
    const int k = int(r.below(need_spd ? 4 : 6));
    switch(k)
    {
    case 0: return gen_btb(r, maxn);
    case 1: return gen_lap1d(r, maxn);
    case 2: return gen_lap2d(r, maxn);
    case 3: return gen_dominant(r, maxn, true);
    default: return gen_dominant(r, maxn, false);
    }
  }

  // ------------------------------------------------------------------------------------------- settings
  struct Settings
  {
    double tol_rel, tol_abs, tol_abs_low, div_rel, div_abs, stag_rate;
    Index min_iter, max_iter, min_stag_iter;
    bool conv = false; // "convergence case": reachable tolerance, generous limits
    std::string json() const
    {
      return vh::J().kv("tol_rel", tol_rel).kv("tol_abs", tol_abs).kv("tol_abs_low", tol_abs_low).kv("div_rel", div_rel).kv("div_abs", div_abs)
        .kv("stag_rate", stag_rate).kv("min_iter", (unsigned long)min_iter).kv("max_iter", (unsigned long)max_iter)
        .kv("min_stag_iter", (unsigned long)min_stag_iter).kv("conv", conv).str();
    }
  };
  inline const double EPS = 2.220446049250313e-16;

  inline Settings default_settings()
  {
    Settings s; s.tol_rel = std::sqrt(EPS); s.tol_abs = 1.0 / (EPS * EPS); s.tol_abs_low = 0; s.div_rel = 1.0 / EPS; s.div_abs = 1.0 / (EPS * EPS);
    s.stag_rate = 0.95; s.min_iter = 0; s.max_iter = 100; s.min_stag_iter = 0; return s;
  }

  // bscale: a typical magnitude of the initial defect.  Documented preconditions respected by the generator (and named in
  // the rule text): min_iter <= max_iter, tol_abs_low <= tol_abs ("lower" absolute tolerance), relative tolerances >= 1e-10.
  inline Settings gen_settings(vh::Rng& r, Index n, double bscale, bool conv)
  {
    Settings s = default_settings(); s.conv = conv;
    if(conv)
    {
      s.tol_rel = r.pick<double>({1e-4, 1e-6, 1e-8}); s.max_iter = 40 * n + 400;
      if(r.coin(0.3)) s.min_iter = Index(r.range(0, 3));
      return s;
    }
    s.tol_rel = r.pick<double>({1e-2, 1e-4, 1e-6, 1e-8, 1e-10, 0.0, 1.0, 0.5});
    if(r.coin(0.4)) s.tol_abs = bscale * r.pick<double>({1e-1, 1e-3, 1e-8, 0.0, 1e3});
    if(r.coin(0.3)) s.tol_abs_low = std::min(s.tol_abs, bscale * r.pick<double>({1e-2, 1e-6, 1e-12, 10.0}));
    if(r.coin(0.3)) s.div_rel = r.pick<double>({1.0, 2.0, 10.0, 1e3});
    if(r.coin(0.2)) s.div_abs = bscale * r.pick<double>({1.0, 10.0, 1e3});
    s.max_iter = Index(r.pick<int>({0, 1, 1, 2, 3, 5, 10, 20, 50, 100, 300}));
    if(r.coin(0.4)) s.min_iter = std::min<Index>(s.max_iter, Index(r.pick<int>({1, 2, 3, 5, 10, 300})));
    if(r.coin(0.35)) { s.min_stag_iter = Index(r.pick<int>({1, 2, 3, 5})); s.stag_rate = r.pick<double>({0.95, 0.5, 0.999, 0.1, 1.0}); }
    return s;
  }

  template<typename Sol_>
  void apply_settings(Sol_& sol, const Settings& s)
  {
    sol.set_tol_rel(s.tol_rel); sol.set_tol_abs(s.tol_abs); sol.set_tol_abs_low(s.tol_abs_low);
    sol.set_div_rel(s.div_rel); sol.set_div_abs(s.div_abs); sol.set_stag_rate(s.stag_rate);
    sol.set_min_iter(s.min_iter); sol.set_max_iter(s.max_iter); sol.set_min_stag_iter(s.min_stag_iter);
  }

  // the documented stopping semantics (iterative.hpp) evaluated in the solver's own arithmetic (double)
  inline bool f_converged(const Settings& s, double def, double d0) { return (def <= s.tol_abs) && ((def <= (s.tol_rel * d0)) || (def <= s.tol_abs_low)); }
  inline bool f_diverged(const Settings& s, double def, double d0) { return (def > s.div_abs) || (def > (s.div_rel * d0)); }

  enum class Pre { none, jacobi, ssor, ilu0 };
  inline const char* pre_name(Pre p) { return p == Pre::none ? "none" : (p == Pre::jacobi ? "jacobi" : (p == Pre::ssor ? "ssor" : "ilu0")); }

  // ------------------------------------------------------------------------------------------- container type policies
  // The harness logic is written once; LocalTypes runs it on plain LAFEM containers, GlobalTypes (c07_global.cpp) wraps the
  // same local objects into single-process Global::Matrix / Vector / Filter for the solvers that need the asynchronous
  // reductions only Global::Vector offers (PipePCG, GroppPCG, RBiCGStab).
  struct LocalTypes
  {
    typedef Vec VecT; typedef ISolver SolT; typedef SBase PreT;
    struct Env { Index n = 0; };
    static VecT make_vec(Env& e) { return VecT(e.n); }
    static double* raw(VecT& v) { return v.elements(); }
    static std::uint64_t hash(const VecT& v) { return vl::container_hash(v); }
    template<typename Filter_>
    static std::shared_ptr<PreT> make_precond(Env&, Pre p, const Mat& m, const Filter_& f, double omega)
    {
      switch(p)
      {
      case Pre::jacobi: return Solver::new_jacobi_precond(m, f, omega);
      case Pre::ssor: return Solver::new_ssor_precond(FEAT::PreferredBackend::generic, m, f, omega);
      case Pre::ilu0: return Solver::new_ilu_precond(FEAT::PreferredBackend::generic, m, f, 0);
      default: return nullptr;
      }
    }
    // calls body(matrix, filter) with the system objects of this policy
    template<typename Filter_, typename Body_>
    static void with_system(Env& e, const Mat& m, const Filter_& f, Body_ body) { e.n = m.rows(); body(e, m, f); }
  };

  // ------------------------------------------------------------------------------------------- one solver run
  struct RunRec
  {
    Status st = Status::undefined; Index iters = 0; double d0 = 0, dfin = 0;
    std::vector<double> x; std::vector<double> trace; bool b_modified = false;
  };

  inline std::vector<double> read_trace(const std::string& solver_name)
  {
    std::vector<double> t;
    try
    {
      for(auto& e : FEAT::Statistics::get_solver_expressions())
        if(e->get_type() == Solver::ExpressionType::defect && e->solver_name == solver_name)
          t.push_back(std::dynamic_pointer_cast<Solver::ExpressionDefect>(e)->def);
    }
    catch(std::out_of_range&) {}
    return t;
  }

  // runs apply (x content = garbage of the given kind) or correct (x = x0)
  template<typename TP_>
  RunRec run_solver(vh::Ctx& c, typename TP_::Env& env, typename TP_::SolT& sol, bool use_correct, const std::vector<double>& x0, const std::vector<double>& b, int garbage)
  {
    RunRec rec; const Index n = Index(b.size());
    auto vb = TP_::make_vec(env); auto vx = TP_::make_vec(env);
    for(Index i = 0; i < n; ++i) TP_::raw(vb)[i] = b[i];
    if(use_correct) { for(Index i = 0; i < n; ++i) TP_::raw(vx)[i] = x0[i]; }
    else if(n > 0) c08::fill_garbage(c.rng, TP_::raw(vx), n, garbage);
    const std::uint64_t h0 = TP_::hash(vb);
    FEAT::Statistics::reset();
    rec.st = use_correct ? sol.correct(vx, vb) : sol.apply(vx, vb);
    c.event();
    rec.b_modified = TP_::hash(vb) != h0;
    rec.iters = sol.get_num_iter(); rec.d0 = sol.get_def_initial(); rec.dfin = sol.get_def_final();
    rec.x.resize(n); for(Index i = 0; i < n; ++i) rec.x[i] = TP_::raw(vx)[i];
    rec.trace = read_trace(sol.name());
    FEAT::Statistics::reset();
    return rec;
  }

  // ||F(b - A x)||_2 in long double with the sum of magnitudes entering it (for rounding slack)
  inline LD true_defect(const Sys& s, const std::vector<double>& x, const std::vector<double>& b, LD* mag = nullptr)
  {
    const Index n = s.n; LD q = 0, m = 0;
    for(Index i = 0; i < n; ++i)
    {
      if(s.fixed[i]) continue;
      LD v = (LD)b[i], sa = std::fabs((LD)b[i]); const LD* row = s.a.data() + std::size_t(i) * n;
      for(Index j = 0; j < n; ++j) if(row[j] != 0.0L) { v -= row[j] * (LD)x[j]; sa += std::fabs(row[j] * (LD)x[j]); }
      q += v * v; m += sa * sa;
    }
    if(mag) *mag = std::sqrt(m);
    return std::sqrt(q);
  }
  inline LD norm2(const std::vector<double>& v) { LD q = 0; for(double x : v) q += (LD)x * (LD)x; return std::sqrt(q); }
  // bitwise equality, except that two NaNs are equal whatever their sign / payload
  inline bool same_bits(double a, double b) { return std::memcmp(&a, &b, sizeof(double)) == 0 || (a != a && b != b); }
  inline bool bits_equal(const std::vector<double>& a, const std::vector<double>& b)
  {
    if(a.size() != b.size()) return false;
    for(std::size_t i = 0; i < a.size(); ++i) if(!same_bits(a[i], b[i])) return false;
    return true;
  }

  // dense reference of the *filtered* system: rows of filtered components are unit rows with right-hand side x0_i
  struct DenseRef { bool ok = false; std::vector<LD> x; LD inv_norm2_bound = 0; };
  inline DenseRef dense_reference(const Sys& s, const std::vector<double>& x0, const std::vector<double>& b, bool with_inverse)
  {
    DenseRef d; const Index n = s.n;
    std::vector<LD> A(s.a), rhs(n);
    for(Index i = 0; i < n; ++i)
    {
      if(s.fixed[i]) { for(Index j = 0; j < n; ++j) A[std::size_t(i) * n + j] = i == j ? 1.0L : 0.0L; rhs[i] = (LD)x0[i]; }
      else rhs[i] = (LD)b[i];
    }
    d.ok = c08::dense_solve(A, n, rhs, d.x);
    if(d.ok && with_inverse)
    {
      // ||A^-1||_2 <= sqrt(||A^-1||_1 ||A^-1||_inf) from the explicit inverse
      std::vector<LD> rows(n, 0.0L), cols(n, 0.0L);
      for(Index j = 0; j < n; ++j)
      {
        std::vector<LD> e(n, 0.0L), col; e[j] = 1.0L;
        if(!c08::dense_solve(A, n, e, col)) { d.ok = false; return d; }
        for(Index i = 0; i < n; ++i) { rows[i] += std::fabs(col[i]); cols[j] += std::fabs(col[i]); }
      }
      LD r1 = 0, c1 = 0; for(Index i = 0; i < n; ++i) { r1 = std::max(r1, rows[i]); c1 = std::max(c1, cols[i]); }
      d.inv_norm2_bound = std::sqrt(r1 * c1);
    }
    return d;
  }

  // ------------------------------------------------------------------------------------------- the judge
  struct RunCtx
  {
    const SolverInfo* info; const Problem* p; const Settings* set; bool use_correct;
    const std::vector<double>* x0; const std::vector<double>* b; std::string phase; std::string config; std::vector<std::string> rtags;
  };

  inline std::string run_detail(const RunCtx& rc, const RunRec& rec)
  {
    return vh::J().kv("phase", rc.phase).kv("call", rc.use_correct ? "correct" : "apply").kv("status", status_name(rec.st))
      .kv("num_iter", (unsigned long)rec.iters).kv("def_initial", rec.d0).kv("def_final", rec.dfin)
      .raw("settings", rc.set->json()).raw("config", rc.config.empty() ? "{}" : rc.config).str();
  }
  inline std::string with(const std::string& detail, const vh::J& more)
  { std::string m = more.str(); return detail.substr(0, detail.size() - 1) + (m.size() > 2 ? "," + m.substr(1) : "}"); }

  // returns true if the run was classified as 'forced by min_iter past exact convergence' (class D7)
  inline bool judge(vh::Ctx& c, const RunCtx& rc, const RunRec& rec)
  {
    const SolverInfo& si = *rc.info; const Sys& s = rc.p->s; const Settings& set = *rc.set; const Index n = s.n;
    const std::string op = std::string(si.name) + (rc.use_correct ? ".correct" : ".apply");
    const std::string det = run_detail(rc, rec);
    // violation-specific tags (appended to the per-run tags) pin a record to one failure class for the known-findings matcher
    auto V = [&](const std::string& kind, const std::string& d, std::initializer_list<std::string> more = {})
    { std::vector<std::string> t = rc.rtags; for(auto& x : more) if(!x.empty()) t.push_back(x); c.viol(op, kind, d, t); };
    Index effdim = 0; for(Index i = 0; i < n; ++i) if(!s.fixed[i]) ++effdim;
    const std::string st_tag = std::string("status:") + status_name(rec.st);
    bool forced = false;
    const std::vector<double> zero(n, 0.0);
    const std::vector<double>& xs = rc.use_correct ? *rc.x0 : zero; // the start vector the run must have used
    c.count(std::string("status:") + status_name(rec.st));

    // (1) right-hand side untouched
    if(rec.b_modified) V("rhs-modified", det);

    // (2) initial defect = ||F(b - A x_start)||  (apply: x_start = 0, whatever x held; correct: x_start = x0)
    LD mag0 = 0; const LD d0 = true_defect(s, xs, *rc.b, &mag0);
    {
      const LD bd = 8.0L * LD(n + 4) * (LD)EPS * mag0 + 1e-300L;
      c.event();
      if(!(std::fabs((LD)rec.d0 - d0) <= bd))
        V(rc.use_correct ? "start-vector-not-honoured" : "def-initial", with(det, vh::J().kv("recomputed_initial_defect", d0).kv("bound", bd)));
    }

    // (2b) exactly vanishing initial defect (zero right-hand side / start vector = exact solution): nothing to iterate on,
    // the documented early-out (def0 <= eps^2 => success) must return the start vector unchanged
    if(d0 == 0.0L && rec.d0 == 0.0) // (a start residual that only vanishes in exact arithmetic is judged like any other)
    {
      c.event();
      if(rec.st != Status::success || rec.iters != 0 || !bits_equal(rec.x, xs))
        V("zero-initial-defect-not-handled", det, {st_tag});
      return false;
    }

    // (3) status value is a final one
    if(rec.st == Status::undefined || rec.st == Status::progress) { V("status-not-final", det, {st_tag, rec.d0 == 0.0 ? "def0:reported_zero" : (rec.d0 <= EPS * EPS ? "def0:below_eps2" : "")}); return false; }

    const bool early0 = rec.iters == 0; // stopped by _set_initial_defect (documented early-outs: def0 < tol_abs_low, def0 <= eps^2, non-finite)
    LD magx = 0; const LD dx = true_defect(s, rec.x, *rc.b, &magx);
    bool xfinite = true; for(double v : rec.x) if(!std::isfinite(v)) xfinite = false;
    // slack for the drift between a recurrence residual and the true residual (DESIGN 6.7)
    const LD slack = 64.0L * std::sqrt(LD(n) + 1.0L) * (LD)EPS * (rc.p->anorm * (norm2(rec.x) + norm2(xs)) + norm2(*rc.b)) * LD(rec.iters + 1);

    switch(rec.st)
    {
    case Status::success:
      {
        c.event();
        // min_iter >= max_iter without stagnation check: the documented skip_defect_calc path never evaluates the defect
        // after the initial one (fixed-iteration "smoother" mode), so the reported status carries no information on it
        if(!early0 && !((set.min_iter < set.max_iter) || set.min_stag_iter > 0)) { c.count("success:defect-not-computed(min_iter>=max_iter)"); break; }
        // reported defects satisfy the documented criterion exactly (same arithmetic) ...
        if(!early0 && !f_converged(set, rec.dfin, rec.d0)) V("success-but-reported-defect-not-converged", det);
        if(early0 && !(rec.d0 < set.tol_abs_low || rec.d0 <= EPS * EPS || f_converged(set, rec.d0, rec.d0))) V("success-at-iteration-0-unjustified", det);
        // ... and the true residual of the returned vector satisfies it up to rounding
        const LD f = 1.0L + 1e-6L;
        // DESIGN 6.21 guard: the true-residual clause is only judged for thresholds >= 1e-10 relative to the initial defect
        // (tol_rel = 0 / tol_abs = 0 settings demand an exactly vanishing recurrence residual; what the true residual does
        // at that level is rounding, not status semantics)
        if(!early0 && std::min((LD)set.tol_abs, std::max((LD)set.tol_rel * d0, (LD)set.tol_abs_low)) < 1e-10L * d0)
        { c.count("success:threshold-below-1e-10-relative(true residual not judged)"); if(rec.iters < set.min_iter) V("num_iter<min_iter", det, {(si.half_step && rec.trace.size() == std::size_t(rec.iters)) ? "half-step-stop" : ""}); break; }
        const bool ok = xfinite && dx <= (LD)set.tol_abs * f + slack && (dx <= (LD)set.tol_rel * d0 * f + slack || dx <= (LD)set.tol_abs_low * f + slack
          || (early0 && d0 <= (LD)(EPS * EPS) + slack));
        {
          // calibration evidence: how much of the rounding slack do correct runs use?
          const LD thr = std::min((LD)set.tol_abs, std::max((LD)set.tol_rel * d0, (LD)set.tol_abs_low)) * f;
          const LD use = (xfinite && dx > thr && slack > 0) ? (dx - thr) / slack : 0.0L;
          c.count(use == 0.0L ? "slack-used:none" : (use <= 1e-2L ? "slack-used<=1e-2" : (use <= 1e-1L ? "slack-used<=1e-1" : (use <= 1.0L ? "slack-used<=1" : "slack-used>1"))));
        }
        // class D7: a reported defect had already dropped to rounding level (<= 1e-12 def0) at an iteration below min_iter, the
        // solver was forced on and its recurrences broke down (0/0 or overflow) -- recorded under the D7 kind
        for(std::size_t i = 0; i < rec.trace.size() && Index(i) < set.min_iter; ++i) if(rec.trace[i] <= 1e-12 * rec.d0) forced = true;
        if(!ok) V(forced ? "breakdown-after-exact-convergence" : "success-but-true-residual-too-large",
          with(det, vh::J().kv("true_residual", dx).kv("true_initial_defect", d0).kv("slack", slack)),
          {rec.iters > effdim ? "iters>dim" : "", forced ? "min_iter:forces_past_convergence" : ""});
        forced = forced && !ok;
        // "half-step-stop": the final (intermediate) defect was not published through the monitor
        if(!early0 && rec.iters < set.min_iter) V("num_iter<min_iter", det, {(si.half_step && rec.trace.size() == std::size_t(rec.iters)) ? "half-step-stop" : ""});
        break;
      }
    case Status::max_iter:
      c.event();
      if(rec.iters != set.max_iter) V("max_iter-status-but-num_iter!=max_iter", det, {rec.iters == set.max_iter + 1 ? "num_iter:max_iter+1" : ""});
      if(set.min_iter < set.max_iter || set.min_stag_iter > 0) // otherwise the defect is (documentedly) not computed
      {
        if(f_diverged(set, rec.dfin, rec.d0) || !std::isfinite(rec.dfin)) V("max_iter-status-but-diverged", det);
        else if(rec.iters >= set.min_iter && f_converged(set, rec.dfin, rec.d0)) V("max_iter-status-but-converged", det);
      }
      break;
    case Status::stagnated:
      c.event();
      if(set.min_stag_iter == 0) V("stagnated-status-but-stagnation-check-disabled", det);
      if(rec.iters < set.min_iter) V("num_iter<min_iter", det);
      if(rec.iters < set.min_stag_iter) V("stagnated-before-min_stag_iter", det);
      if(f_converged(set, rec.dfin, rec.d0)) V("stagnated-status-but-converged", det);
      if(f_diverged(set, rec.dfin, rec.d0)) V("stagnated-status-but-diverged", det);
      if(rec.iters >= set.max_iter) V("stagnated-status-but-max_iter-reached", det);
      break;
    case Status::diverged:
      c.event();
      if(!f_diverged(set, rec.dfin, rec.d0)) V("diverged-status-but-limits-not-exceeded", det);
      break;
    case Status::aborted:
      c.event();
      if(std::isfinite(rec.dfin) && std::isfinite(rec.d0))
      {
        if(!si.breakdown_abort) V("aborted-with-finite-defects", det);
        else c.count("aborted:breakdown-path");
      }
      break;
    default: break;
    }

    // (4) trace of reported defects (public solver-expression log): the solver must have stopped at the *first* defect
    // for which the documented _analyse_defect rules demand a stop, and the final status must follow from the final defect
    {
      const std::vector<double>& t = rec.trace;
      const bool complete = !si.pseudo_iters && t.size() == std::size_t(rec.iters) + 1;
      const bool prefix = !si.pseudo_iters && si.half_step && t.size() == std::size_t(rec.iters); // last (half-step) defect unlogged
      const bool computed = (set.min_iter < set.max_iter) || set.min_stag_iter > 0;
      if((complete || prefix) && computed && !t.empty())
      {
        c.event();
        if(std::memcmp(&t[0], &rec.d0, sizeof(double)) != 0 && !(t[0] != t[0] && rec.d0 != rec.d0)) V("trace-initial-defect-differs", det);
        if(complete && t.back() != rec.dfin && !(t.back() != t.back() && rec.dfin != rec.dfin)) V("trace-final-defect-differs", det);
        Index nstag = 0; const std::size_t last = complete ? t.size() - 1 : t.size();
        for(std::size_t i = 1; i < last; ++i)
        {
          // this defect was followed by another iteration, so the rules must have said "progress"
          const double d = t[i]; const char* why = nullptr;
          if(!std::isfinite(d)) why = "non-finite"; else if(f_diverged(set, d, rec.d0)) why = "diverged";
          else if(Index(i) < set.min_iter) {}
          else if(f_converged(set, d, rec.d0)) why = "converged";
          else if(Index(i) >= set.max_iter) why = "max_iter";
          else if(set.min_stag_iter > 0) { if(d >= set.stag_rate * t[i - 1]) { if(++nstag >= set.min_stag_iter) why = "stagnated"; } else nstag = 0; }
          if(why) { V("continued-after-stop-condition", with(det, vh::J().kv("iteration", (unsigned long)i).kv("defect", d).kv("condition", why))); break; }
        }
        if(rec.st == Status::stagnated && complete && t.size() >= 2)
        {
          // the last min_stag_iter iterations all stagnated
          bool ok = t.size() > set.min_stag_iter;
          for(std::size_t i = t.size() - 1; ok && i + set.min_stag_iter >= t.size() && i >= 1; --i) if(!(t[i] >= set.stag_rate * t[i - 1])) ok = false;
          if(!ok) V("stagnated-status-but-defects-did-not-stagnate", det);
        }
      }
      else c.count("trace:not-comparable");
    }
    return forced;
  }

  // ------------------------------------------------------------------------------------------- preconditioner choice
  // a preconditioner that keeps the method inside its scope for the given problem
  inline Pre gen_pre(vh::Rng& r, const Problem& p, bool spd_solver)
  {
    for(int it = 0; it < 20; ++it)
    {
      const Pre q = r.pick<Pre>({Pre::none, Pre::none, Pre::jacobi, Pre::ssor, Pre::ilu0});
      if(q == Pre::ilu0 && !p.ilu_safe) continue;
      if(q == Pre::ssor && spd_solver && !p.spd) continue;
      return q;
    }
    return Pre::none;
  }

  // ------------------------------------------------------------------------------------------- history driver
  struct CaseCfg
  {
    const SolverInfo* info;
    Index maxn_quick = 60, maxn_thorough = 400;
    std::function<bool(const Problem&, Pre)> conv_ok;   // is convergence guaranteed for this problem / preconditioner?
    std::function<bool(const Problem&)> accept;          // further scope restrictions of the solver configuration
    bool allow_precond = true;
    std::function<bool(Pre)> pre_ok;                     // preconditioner kinds inside the solver's scope
  };

  // Mk_: shared_ptr<ISolver>(const Mat&, const Filter&, shared_ptr<SBase> precond)
  template<typename TP_, typename MatX_, typename FilterX_, typename Mk_>
  void run_history(vh::Ctx& c, const CaseCfg& cfg, typename TP_::Env& env, const Problem& p0, Mat& local_matrix, const MatX_& m, const FilterX_& f, std::shared_ptr<typename TP_::PreT> precond, Mk_ mk, const std::string& config, Pre pre)
  {
    const SolverInfo& si = *cfg.info; const Index n = p0.s.n; vh::Rng& r = c.rng;
    const Problem* cur = &p0; Problem p_upd; bool updated = false;
    auto sol = mk(m, f, precond);
    typename TP_::SolT& is = *sol;
    is.set_plot_mode(Solver::PlotMode::none);
    if(r.coin(0.3)) is.init(); else { is.init_symbolic(); is.init_numeric(); }
    // value-update history (~30% of the cases): first solve -> done_numeric -> matrix values overwritten in place (same layout,
    // same scope, different system) -> init_numeric (no done_symbolic) -> apply and correct, judged against the NEW matrix
    const bool do_update = r.coin(0.3);
    const int nruns = do_update ? int(r.range(3, 4)) : int(r.range(2, 4));
    if(do_update) c.tag("history:value_update+init_numeric");
    bool resym = false;
    // RGCR only: number of search directions the object holds from earlier solves, modelled from the iteration counts
    // (each apply/correct keeps a quarter of its list, rgcr.hpp:150/169; done_numeric / done_symbolic clear it)
    Index rg_stored = 0; Index effdim0 = 0; for(char fx : p0.s.fixed) effdim0 += fx ? 0 : 1;
    // did an earlier solve on this object drive the recurrences to where recycled directions degenerate (known finding D8:
    // near convergence at rounding level, stagnation / abort, or at least as many iterations as the effective dimension)?
    bool rg_deep = false;
    auto note_deep = [&](const RunRec& rr) { if(rr.iters >= effdim0 || (rr.st != Status::success && rr.st != Status::max_iter) || !(rr.dfin > 1e-9 * rr.d0)) rg_deep = true; };
    for(int run = 0; run < nruns; ++run)
    {
      if(do_update && run == 1)
      {
        is.done_numeric(); rg_stored = 0; rg_deep = false;
        // CG-type solvers stay SPD; the others switch symmetry class where the layout allows it
        p_upd = regen_on_layout(r, p0, si.spd_only ? true : !p0.spd);
        c08::write_values(local_matrix, p_upd.s);
        is.init_numeric();
        cur = &p_upd; updated = true;
      }
      const Problem& p = *cur; const Sys& s = p.s;
      const bool use_correct = (do_update && run == 1) ? false : ((do_update && run == 2) ? true : r.coin(0.5));
      // right-hand side: random / A*x_true with small integers (exactly representable solution) / zero
      std::vector<double> b(n), xtrue;
      const int bk = int(r.below(10));
      if(bk == 0) std::fill(b.begin(), b.end(), 0.0);
      else if(bk <= 3)
      {
        xtrue.resize(n); for(auto& v : xtrue) v = double(r.range(-4, 4));
        for(Index i = 0; i < n; ++i) { LD v = 0; for(Index j = 0; j < n; ++j) v += s.a[std::size_t(i) * n + j] * (LD)xtrue[j]; b[i] = double(v); }
      }
      else { b = vl::gen_vec(r, n, int(r.below(3)), true); const double sc = std::ldexp(1.0, int(r.range(-12, 12))); for(auto& v : b) v *= sc; }
      // apply() takes a defect vector: by contract (see Solver::solve() in base.hpp) it has been passed through filter_def;
      // correct() filters the defect itself, so there the right-hand side is arbitrary
      if(!use_correct) for(Index i = 0; i < n; ++i) if(s.fixed[i]) b[i] = 0.0;
      std::vector<double> x0(n, 0.0);
      if(use_correct)
      {
        const int xk = int(r.below(6));
        if(xk == 0) {} // zero start vector
        else if(xk == 1 && !xtrue.empty()) x0 = xtrue; // exact solution: already converged start
        else x0 = vl::gen_vec(r, n, int(r.below(2)), true);
      }
      const std::vector<double> zero(n, 0.0);
      const double bscale = double(true_defect(s, use_correct ? x0 : zero, b));
      // "convergence case" only if the requested reduction stays well above the rounding level of the residual evaluation
      LD magb = 0; true_defect(s, use_correct ? x0 : zero, b, &magb);
      const bool conv = r.coin(0.35) && bscale * 1e-8 >= 1e4 * EPS * double(magb) * std::sqrt(double(n) + 1.0);
      Settings set = gen_settings(r, n, bscale > 0 ? bscale : 1.0, conv);
      apply_settings(is, set);

      RunCtx rc; rc.info = &si; rc.p = &p; rc.set = &set; rc.use_correct = use_correct; rc.x0 = &x0; rc.b = &b;
      rc.phase = "run" + std::to_string(run); rc.config = config;
      rc.rtags.push_back(use_correct ? "call:correct" : "call:apply");
      rc.rtags.push_back("max_iter:" + std::string(set.max_iter == 0 ? "0" : (set.max_iter == 1 ? "1" : ">1")));
      if(bscale == 0.0) rc.rtags.push_back("def0:zero");
      // (an exactly vanishing true defect is computed as O(eps) by FEAT: it is below tol_abs_low as well whenever that is set)
      if(bscale < set.tol_abs_low) rc.rtags.push_back("def0:below_tol_abs_low");
      // tiny systems: the Krylov space is exhausted after effdim steps -- the regime of the unguarded lucky breakdown (D7)
      if(effdim0 <= 8) rc.rtags.push_back("tiny:effdim<=8");
      if(si.recycles && run > 0) rc.rtags.push_back("recycled");
      if(si.recycles && rg_stored > 0) rc.rtags.push_back(rg_stored >= effdim0 ? "rgcr:stored_dirs>=dim" : "rgcr:stored_dirs>0");
      if(si.recycles && rg_stored > 0 && rg_deep) rc.rtags.push_back("rgcr:earlier_solve_deep");
      if(updated) rc.rtags.push_back("history:value_update+init_numeric");
      if(set.min_iter > 0) rc.rtags.push_back("min_iter>0");
      if(set.min_iter == set.max_iter) rc.rtags.push_back("min_iter==max_iter");
      if(conv) rc.rtags.push_back("conv");
      if(resym) rc.rtags.push_back("after:done_symbolic+init_symbolic");
      const std::string op = std::string(si.name) + (use_correct ? ".correct" : ".apply");
      c.set_op(op);

      RunRec r1 = run_solver<TP_>(c, env, is, use_correct, x0, b, int(r.below(4)));
      const bool forced = judge(c, rc, r1);
      const std::string det = run_detail(rc, r1);

      // repetition on the same object: apply with other garbage in x / correct with the same start vector
      RunRec r2 = run_solver<TP_>(c, env, is, use_correct, x0, b, int(r.below(4)));
      c.event();
      if(si.recycles)
      {
        rg_stored = std::max(rg_stored, r1.iters) / 4; note_deep(r1);
        RunCtx rc2 = rc; rc2.phase += "-repeat";
        if(std::find(rc2.rtags.begin(), rc2.rtags.end(), "recycled") == rc2.rtags.end()) rc2.rtags.push_back("recycled");
        if(rg_stored > 0 && std::find_if(rc2.rtags.begin(), rc2.rtags.end(), [](const std::string& t) { return t.rfind("rgcr:stored_dirs", 0) == 0; }) == rc2.rtags.end())
          rc2.rtags.push_back(rg_stored >= effdim0 ? "rgcr:stored_dirs>=dim" : "rgcr:stored_dirs>0");
        if(rg_stored > 0 && rg_deep && std::find(rc2.rtags.begin(), rc2.rtags.end(), "rgcr:earlier_solve_deep") == rc2.rtags.end()) rc2.rtags.push_back("rgcr:earlier_solve_deep");
        judge(c, rc2, r2);
        rg_stored = std::max(rg_stored, r2.iters) / 4; note_deep(r2);
      }
      else if(r1.st != r2.st || r1.iters != r2.iters || !bits_equal(r1.x, r2.x) || !same_bits(r1.dfin, r2.dfin) || !same_bits(r1.d0, r2.d0))
      {
        Index wi = 0; for(Index i = 0; i < n; ++i) if(!same_bits(r1.x[i], r2.x[i])) { wi = i; break; }
        c.viol(op, r1.st == Status::aborted ? "not-repeatable-after-aborted-run" : (use_correct ? "not-repeatable" : "x-prior-content-matters-or-not-repeatable"),
          with(det, vh::J().kv("second_status", status_name(r2.st)).kv("second_num_iter", (unsigned long)r2.iters).kv("second_def_final", r2.dfin)
            .kv("component", (unsigned long)wi).kv("x_first", n ? r1.x[wi] : 0.0).kv("x_second", n ? r2.x[wi] : 0.0)), rc.rtags);
      }

      // convergence on in-scope systems with reachable tolerance and generous limits
      const bool in_scope = si.conv_required && (!cfg.conv_ok || cfg.conv_ok(p, pre));
      if(conv && in_scope && bscale != 0.0 && r1.st != Status::undefined && r1.st != Status::progress) // those are reported by the judge already
      {
        c.event(); c.count("conv-required-runs");
        if(r1.st != Status::success)
        {
          // classification: the run ended in NaN after the (reported) residual had already dropped to rounding level or after
          // at least as many iterations as the effective dimension -- 0/0 in the Krylov recurrences after exact convergence
          // ("lucky breakdown" not guarded), typically because min_iter / an inner loop forbids stopping there
          bool exact = false; Index effdim = 0; for(Index i = 0; i < n; ++i) if(!s.fixed[i]) ++effdim;
          std::vector<std::string> vt = rc.rtags;
          for(std::size_t i = 0; i < r1.trace.size(); ++i) if(r1.trace[i] <= 1e-12 * r1.d0)
          { exact = true; if(Index(i) < set.min_iter) { vt.push_back("min_iter:forces_past_convergence"); break; } }
          if(r1.iters >= effdim || effdim <= 4 || si.inner_untested) { exact = true; vt.push_back("iters>=dim-or-dim<=4"); }
          // BiCG-type methods carry no convergence guarantee: a truthful breakdown exit (status aborted through the solver's
          // explicit breakdown path) after at least as many iterations as the effective dimension is accepted, only counted
          if(si.breakdown_abort && r1.st == Status::aborted && std::isfinite(r1.dfin) && r1.iters >= effdim) c.count("conv:breakdown-abort-after>=dim-iterations-accepted");
          else
          c.viol(op, (exact && r1.st == Status::aborted && !std::isfinite(r1.dfin)) ? "breakdown-after-exact-convergence" : "no-convergence", det, vt);
        }
      }
      // solution against the dense LU reference of the filtered system
      if(!forced && r1.st == Status::success && n <= 60 && bscale != 0.0 && std::min(set.tol_abs, std::max(set.tol_rel * bscale, set.tol_abs_low)) >= 1e-10 * bscale && (r1.iters == 0 || set.min_iter < set.max_iter || set.min_stag_iter > 0))
      {
        DenseRef dr = dense_reference(s, use_correct ? x0 : zero, b, true);
        if(dr.ok)
        {
          LD mag0 = 0; const LD d0 = true_defect(s, use_correct ? x0 : zero, b, &mag0);
          LD thr = std::min((LD)set.tol_abs, std::max((LD)set.tol_rel * d0, (LD)set.tol_abs_low));
          if(r1.iters == 0) thr = std::max(thr, std::max((LD)set.tol_abs_low, (LD)(EPS * EPS)));
          const LD slack = 64.0L * std::sqrt(LD(n) + 1.0L) * (LD)EPS * (p.anorm * (norm2(r1.x) + norm2(x0)) + norm2(b)) * LD(r1.iters + 1);
          LD e2 = 0, xr2 = 0; for(Index i = 0; i < n; ++i) { const LD e = (LD)r1.x[i] - dr.x[i]; e2 += e * e; xr2 += dr.x[i] * dr.x[i]; }
          const LD err = std::sqrt(e2), bound = dr.inv_norm2_bound * (thr * (1.0L + 1e-6L) + slack) * std::sqrt(2.0L) + 64.0L * (LD)EPS * std::sqrt(xr2);
          c.event(); c.count("dense-reference-compared");
          if(!(err <= bound)) c.viol(op, "solution-far-from-dense-reference", with(det, vh::J().kv("error_norm2", err).kv("bound", bound).kv("inv_norm_bound", dr.inv_norm2_bound)), rc.rtags);
        }
      }
      // life cycle step between runs
      if(run + 1 < nruns)
      {
        const int life = int(r.below(5));
        if(life == 1) { is.done_numeric(); is.init_numeric(); c.tag("life:renumeric"); rg_stored = 0; rg_deep = false; }
        else if(life == 2) { is.done(); is.init(); c.tag("life:reinit"); resym = true; rg_stored = 0; rg_deep = false; }
        else if(life == 3) { is.done_numeric(); is.done_symbolic(); is.init_symbolic(); is.init_numeric(); c.tag("life:resymbolic"); resym = true; rg_stored = 0; rg_deep = false; }
      }
    }
    is.done_numeric(); is.done_symbolic();
  }

  // generates the problem, filter and preconditioner choice and runs the history; Mk_ as above (generic in the filter type)
  template<typename TP_, typename Mk_>
  void run_case_t(vh::Ctx& c, const CaseCfg& cfg, Mk_ mk, const std::string& config)
  {
    const SolverInfo& si = *cfg.info;
    const std::string op0 = std::string(si.name) + ".apply";
    FEAT::Statistics::enable_solver_expressions = true;
    c08::PoolGuard pg(c, op0);
    {
      Problem p;
      for(int it = 0; it < 50; ++it) { p = gen_problem(c.rng, c.thorough() ? cfg.maxn_thorough : cfg.maxn_quick, si.spd_only); if(!cfg.accept || cfg.accept(p)) break; }
      const bool unit = c.rng.coin(0.35);
      p.s.unit_filter = unit;
      if(unit) { const int k = int(c.rng.below(8)); for(Index i = 0; i < p.s.n; ++i) p.s.fixed[i] = k == 0 ? 0 : (k == 1 ? 1 : (c.rng.coin(0.2) ? 1 : 0)); }
      Pre pre = Pre::none;
      if(cfg.allow_precond) for(int it = 0; it < 20; ++it) { pre = gen_pre(c.rng, p, si.spd_only); if(!cfg.pre_ok || cfg.pre_ok(pre)) break; pre = Pre::none; }
      const double omega = pre == Pre::ssor ? c.rng.pick<double>({1.0, 1.0, 0.5, 1.5}) : (pre == Pre::jacobi ? c.rng.pick<double>({1.0, 1.0, 0.5, 0.75}) : 1.0);
      c.tag(std::string("solver:") + si.name); c.tag(std::string("pre:") + pre_name(pre)); c.tag(unit ? "filter:unit" : "filter:none");
      c.tag("sys:" + p.kind); c.tag(p.s.n == 1 ? "n:1" : (p.s.n <= 8 ? "n:2-8" : (p.s.n <= 60 ? "n:9-60" : "n:61+")));
      c.tag(p.cond_bound <= 10 ? "cond:<=1e1" : (p.cond_bound <= 100 ? "cond:<=1e2" : (p.cond_bound <= 1000 ? "cond:<=1e3" : "cond:<=1e4")));
      c.set_op(op0);
      c.desc = vh::J().kv("solver", si.name).kv("precond", pre_name(pre)).kv("omega", omega).raw("config", config.empty() ? "{}" : config)
        .kv("cond_bound", p.cond_bound).raw("system", p.s.describe(30)).str();
      Mat m = c08::make_matrix<Mat>(p.s);
      typename TP_::Env env;
      auto go = [&](const auto& lf)
      {
        TP_::with_system(env, m, lf, [&](typename TP_::Env& e, const auto& mx, const auto& fx)
        { run_history<TP_>(c, cfg, e, p, m, mx, fx, TP_::make_precond(e, pre, mx, fx, omega), mk, config, pre); });
      };
      if(unit) { FUnit f(p.s.n); for(Index i = 0; i < p.s.n; ++i) if(p.s.fixed[i]) f.add(i, double(c.rng.range(-3, 3))); go(f); }
      else { FNone f; go(f); }
    }
    pg.check();
  }
  template<typename Mk_>
  void run_case(vh::Ctx& c, const CaseCfg& cfg, Mk_ mk, const std::string& config) { run_case_t<LocalTypes>(c, cfg, mk, config); }
} // namespace c07
