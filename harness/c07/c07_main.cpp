// C07 -- CG-type solvers: PCG, PCR, PMR, RGCR  (+ main)
#include "c07_common.hpp"
#include <kernel/solver/pcg.hpp>
#include <kernel/solver/pcr.hpp>
#include <kernel/solver/pmr.hpp>
#include <kernel/solver/rgcr.hpp>

using namespace FEAT;
using namespace c07;

namespace
{
  //                           name    spd    brkdwn half   pseudo recycl conv
  const SolverInfo I_PCG  = {"pcg",  true,  false, false, false, false, true};
  const SolverInfo I_PCR  = {"pcr",  true,  false, false, false, false, true};
  const SolverInfo I_PMR  = {"pmr",  true,  false, false, false, false, true};
  const SolverInfo I_RGCR = {"rgcr", false, false, false, false, true,  true};
}

VH_FAMILY(pcg)
{
  CaseCfg cfg; cfg.info = &I_PCG;
  run_case(c, cfg, [](const Mat& m, const auto& f, std::shared_ptr<SBase> pre) -> std::shared_ptr<ISolver> { return Solver::new_pcg(m, f, pre); }, "");
}

VH_FAMILY(pcr)
{
  CaseCfg cfg; cfg.info = &I_PCR;
  run_case(c, cfg, [](const Mat& m, const auto& f, std::shared_ptr<SBase> pre) -> std::shared_ptr<ISolver> { return Solver::new_pcr(m, f, pre); }, "");
}

VH_FAMILY(pmr)
{
  // minimal residual *iteration* (steepest-descent type): convergence rate depends on the condition number itself, so
  // convergence is only demanded on the diagonally dominant (small condition) systems
  CaseCfg cfg; cfg.info = &I_PMR;
  cfg.conv_ok = [](const Problem& p, Pre) { return p.dominant; };
  run_case(c, cfg, [](const Mat& m, const auto& f, std::shared_ptr<SBase> pre) -> std::shared_ptr<ISolver> { return Solver::new_pmr(m, f, pre); }, "");
}

VH_FAMILY(rgcr)
{
  CaseCfg cfg; cfg.info = &I_RGCR; cfg.maxn_thorough = 200;
  run_case(c, cfg, [](const Mat& m, const auto& f, std::shared_ptr<SBase> pre) -> std::shared_ptr<ISolver> { return Solver::new_rgcr(m, f, pre); }, "");
}

VH_FEAT_MAIN
