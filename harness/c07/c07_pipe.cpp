// C07 -- Richardson, Chebyshev
#include "c07_common.hpp"
#include <kernel/solver/richardson.hpp>
#include <kernel/solver/chebyshev.hpp>

using namespace FEAT;
using namespace c07;

namespace
{
  //                                name          spd    brkdwn half   pseudo recycl conv
  const SolverInfo I_RICHARDSON = {"richardson", false, false, false, false, false, true};
  const SolverInfo I_CHEBYSHEV  = {"chebyshev",  true,  false, false, false, false, false};
}

VH_FAMILY(richardson)
{
  // x += omega * M^-1 (b - A x).  Convergence is guaranteed (and demanded) for the damped Jacobi iteration on strictly
  // diagonally dominant systems only; elsewhere the run may legitimately diverge, which exercises the divergence reports.
  const double omega = c.rng.pick<double>({1.0, 1.0, 0.5, 0.25});
  CaseCfg cfg; cfg.info = &I_RICHARDSON;
  cfg.conv_ok = [](const Problem& p, Pre pre) { return p.dominant && pre == Pre::jacobi; };
  run_case(c, cfg, [omega](const Mat& m, const auto& f, std::shared_ptr<SBase> pre) -> std::shared_ptr<ISolver> { return Solver::new_richardson(m, f, omega, pre); },
    vh::J().kv("omega", omega).str());
}

VH_FAMILY(chebyshev)
{
  // eigenvalue interval = [fmin, fmax] * lambda, lambda = FEAT's own power-method estimate of the largest eigenvalue; the
  // harness supplies fractions derived from its condition bound.  Because that estimate carries no guarantee, convergence
  // is not demanded of this solver: it is judged by the status/defect consistency monitors only.
  CaseCfg cfg; cfg.info = &I_CHEBYSHEV; cfg.allow_precond = false;
  const bool defaults = c.rng.coin(0.3);
  const double fmax = 1.25, fmin_scale = c.rng.pick<double>({0.5, 1.0});
  auto cond = std::make_shared<double>(1.0);
  cfg.accept = [cond](const Problem& p) { *cond = p.cond_bound; return true; };
  run_case(c, cfg, [=](const Mat& m, const auto& f, std::shared_ptr<SBase>) -> std::shared_ptr<ISolver>
    { return defaults ? Solver::new_chebyshev(m, f) : Solver::new_chebyshev(m, f, fmin_scale / *cond, fmax); },
    vh::J().kv("default_fractions", defaults).kv("fmax", fmax).kv("fmin_scale", fmin_scale).str());
}
