// C07 -- BiCGStab, BiCGStabL
#include "c07_common.hpp"
#include <kernel/solver/bicgstab.hpp>
#include <kernel/solver/bicgstabl.hpp>

using namespace FEAT;
using namespace c07;

namespace
{
  //                               name         spd    brkdwn half   pseudo recycl conv
  const SolverInfo I_BICGSTAB  = {"bicgstab",  false, true,  true,  false, false, true};
  const SolverInfo I_BICGSTABL = {"bicgstabl", false, false, false, false, false, true, true};
}

VH_FAMILY(bicgstab)
{
  const bool left = c.rng.coin(0.5);
  CaseCfg cfg; cfg.info = &I_BICGSTAB;
  c.tag(left ? "variant:left" : "variant:right");
  run_case(c, cfg, [left](const Mat& m, const auto& f, std::shared_ptr<SBase> pre) -> std::shared_ptr<ISolver>
    { return Solver::new_bicgstab(m, f, pre, left ? Solver::BiCGStabPreconVariant::left : Solver::BiCGStabPreconVariant::right); },
    vh::J().kv("variant", left ? "left" : "right").str());
}

VH_FAMILY(bicgstabl)
{
  const bool left = c.rng.coin(0.5); const int l = c.rng.pick<int>({1, 2, 2, 4});
  CaseCfg cfg; cfg.info = &I_BICGSTABL;
  // documented (bicgstabl.hpp): with few unknowns a high polynomial degree l is unstable because convergence is not tested
  // during the l inner steps; the generator therefore keeps n >= 8*l
  cfg.accept = [l](const Problem& p) { return p.s.n >= Index(8 * l); };
  // ... and, for the same documented reason ("a good preconditioner where the first outer iteration would converge"),
  // convergence is demanded only without preconditioner and with at least 8*l unconstrained unknowns
  cfg.conv_ok = [l](const Problem& p, Pre pre) { Index eff = 0; for(char f : p.s.fixed) eff += f ? 0 : 1; return pre == Pre::none && eff >= Index(8 * l); };
  c.tag(left ? "variant:left" : "variant:right"); c.tag("l:" + std::to_string(l));
  run_case(c, cfg, [left, l](const Mat& m, const auto& f, std::shared_ptr<SBase> pre) -> std::shared_ptr<ISolver>
    { return Solver::new_bicgstabl(m, f, l, pre, left ? Solver::BiCGStabLPreconVariant::left : Solver::BiCGStabLPreconVariant::right); },
    vh::J().kv("variant", left ? "left" : "right").kv("l", l).str());
}

