// C07 -- FGMRES, GMRES, IDRS, PCGNR
#include "c07_common.hpp"
#include <kernel/solver/fgmres.hpp>
#include <kernel/solver/gmres.hpp>
#include <kernel/solver/idrs.hpp>
#include <kernel/solver/pcgnr.hpp>

using namespace FEAT;
using namespace c07;

namespace
{
  //                            name      spd    brkdwn half   pseudo recycl conv
  const SolverInfo I_FGMRES = {"fgmres", false, false, false, true,  false, true};
  const SolverInfo I_GMRES  = {"gmres",  false, false, false, true,  false, true};
  const SolverInfo I_IDRS   = {"idrs",   false, false, false, false, false, true};
  const SolverInfo I_PCGNR  = {"pcgnr",  false, false, false, false, false, true};

  // restarted GMRES: convergence for every restart length follows from a field of values in the right half plane
  // (doubly dominant systems); on the other SPD systems GMRES(k) behaves like a k-step steepest descent, so convergence
  // within the iteration budget is only demanded when the condition bound is small or the Krylov space is not restarted
  template<typename New_>
  void gmres_case(vh::Ctx& c, const SolverInfo& si, New_ mknew)
  {
    const Index k = Index(c.rng.pick<int>({1, 2, 5, 16, 1000}));
    const double irs = c.rng.pick<double>({0.0, 0.0, 0.5, 1.0});
    CaseCfg cfg; cfg.info = &si;
    auto nn = std::make_shared<Index>(0);
    cfg.accept = [nn](const Problem& p) { *nn = p.s.n; return true; };
    cfg.conv_ok = [k](const Problem& p, Pre) { return p.dominant || (p.cond_bound <= 100.0 && k >= 5) || k >= p.s.n; };
    c.tag(k >= 1000 ? "k:full" : "k:" + std::to_string(k));
    run_case(c, cfg, [=](const Mat& m, const auto& f, std::shared_ptr<SBase> pre) -> std::shared_ptr<ISolver>
      { return mknew(m, f, std::min<Index>(k, std::max<Index>(*nn, 1)), irs, pre); },
      vh::J().kv("krylov_dim", (unsigned long)k).kv("inner_res_scale", irs).str());
  }
}

VH_FAMILY(fgmres)
{
  gmres_case(c, I_FGMRES, [](const Mat& m, const auto& f, Index k, double irs, std::shared_ptr<SBase> pre) -> std::shared_ptr<ISolver> { return Solver::new_fgmres(m, f, k, irs, pre); });
}

VH_FAMILY(gmres)
{
  gmres_case(c, I_GMRES, [](const Mat& m, const auto& f, Index k, double irs, std::shared_ptr<SBase> pre) -> std::shared_ptr<ISolver> { return Solver::new_gmres(m, f, k, irs, pre); });
}

VH_FAMILY(idrs)
{
  const Index sdim = Index(c.rng.pick<int>({1, 2, 4}));
  CaseCfg cfg; cfg.info = &I_IDRS;
  cfg.accept = [sdim](const Problem& p) { return p.s.n >= sdim; }; // the shadow space needs s linearly independent vectors
  c.tag("s:" + std::to_string(sdim));
  // the default shadow space is seeded with time(nullptr); reset_shadow_space(false) selects the deterministic seed
  run_case(c, cfg, [sdim](const Mat& m, const auto& f, std::shared_ptr<SBase> pre) -> std::shared_ptr<ISolver>
    { auto s = Solver::new_idrs(m, f, sdim, pre); s->reset_shadow_space(false); return s; },
    vh::J().kv("s", (unsigned long)sdim).str());
}

VH_FAMILY(pcgnr)
{
  // CG on the normal equations; documented to need symmetric positive definite preconditioners: none / Jacobi (positive
  // diagonal).  The condition number is squared, so convergence is only demanded for condition bounds <= 100.
  const bool right_too = c.rng.coin(0.5);
  CaseCfg cfg; cfg.info = &I_PCGNR;
  cfg.pre_ok = [](Pre p) { return p == Pre::none || p == Pre::jacobi; };
  cfg.conv_ok = [](const Problem& p, Pre) { return p.cond_bound <= 100.0; };
  run_case(c, cfg, [right_too](const Mat& m, const auto& f, std::shared_ptr<SBase> pre) -> std::shared_ptr<ISolver>
    {
      std::shared_ptr<SBase> pr = nullptr;
      if(pre && right_too) pr = Solver::new_jacobi_precond(m, f, 1.0);
      return Solver::new_pcgnr(m, f, pre, pr);
    }, vh::J().kv("right_precond_too", right_too).str());
}
