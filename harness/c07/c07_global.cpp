// C07 -- PipePCG, GroppPCG, RBiCGStab.  These solvers use norm2_async / dot_async, which only Global::Vector provides, so
// the same systems are wrapped into single-process Global::Matrix / Vector / Filter objects (gate without neighbours).
// Preconditioners: none, Jacobi (global), SSOR / ILU(0) through the additive Schwarz wrapper (= the local solver on one
// process).
#include "c07_common.hpp"
#include <kernel/global/gate.hpp>
#include <kernel/global/matrix.hpp>
#include <kernel/global/vector.hpp>
#include <kernel/global/filter.hpp>
#include <kernel/lafem/vector_mirror.hpp>
#include <kernel/solver/schwarz_precond.hpp>
#include <kernel/solver/pipepcg.hpp>
#include <kernel/solver/gropppcg.hpp>
#include <kernel/solver/rbicgstab.hpp>

using namespace FEAT;
using namespace c07;

namespace
{
  typedef LAFEM::VectorMirror<double, Index> Mirror;
  typedef Global::Gate<Vec, Mirror> GateT;
  typedef Global::Matrix<Mat, Mirror, Mirror> GMat;
  typedef Global::Vector<Vec, Mirror> GVec;

  struct GlobalTypes
  {
    typedef GVec VecT; typedef Solver::IterativeSolver<GVec> SolT; typedef Solver::SolverBase<GVec> PreT;
    struct Env { Index n = 0; Dist::Comm comm; GateT gate; Env() : comm(Dist::Comm::world()), gate(comm) {} };
    static VecT make_vec(Env& e) { return VecT(&e.gate, e.n); }
    static double* raw(VecT& v) { return v.local().elements(); }
    static std::uint64_t hash(const VecT& v) { return vl::container_hash(v.local()); }
    template<typename LF_>
    static std::shared_ptr<PreT> make_precond(Env&, Pre p, const GMat& m, const Global::Filter<LF_, Mirror>& f, double omega)
    {
      switch(p)
      {
      case Pre::jacobi: return Solver::new_jacobi_precond(m, f, omega);
      case Pre::ssor: return Solver::new_schwarz_precond(std::shared_ptr<SBase>(Solver::new_ssor_precond(PreferredBackend::generic, m.local(), f.local(), omega)), f);
      case Pre::ilu0: return Solver::new_schwarz_precond(std::shared_ptr<SBase>(Solver::new_ilu_precond(PreferredBackend::generic, m.local(), f.local(), 0)), f);
      default: return nullptr;
      }
    }
    template<typename LF_, typename Body_>
    static void with_system(Env& e, const Mat& m, const LF_& f, Body_ body)
    {
      e.n = m.rows();
      e.gate.compile(Vec(e.n, 1.0));
      GMat gm(&e.gate, &e.gate, m.clone(LAFEM::CloneMode::Shallow));
      Global::Filter<LF_, Mirror> gf(f.clone());
      body(e, gm, gf);
    }
  };

  //                              name         spd    brkdwn half   pseudo recycl conv
  const SolverInfo I_PIPEPCG   = {"pipepcg",   true,  false, false, false, false, true};
  const SolverInfo I_GROPPPCG  = {"gropppcg",  true,  false, false, false, false, true};
  const SolverInfo I_RBICGSTAB = {"rbicgstab", false, true,  true,  false, false, true};
  typedef std::shared_ptr<GlobalTypes::PreT> GPre; typedef std::shared_ptr<GlobalTypes::SolT> GSol;
}

VH_FAMILY(pipepcg)
{
  CaseCfg cfg; cfg.info = &I_PIPEPCG;
  run_case_t<GlobalTypes>(c, cfg, [](const GMat& m, const auto& f, GPre pre) -> GSol { return Solver::new_pipepcg(m, f, pre); }, "");
}

VH_FAMILY(gropppcg)
{
  CaseCfg cfg; cfg.info = &I_GROPPPCG;
  run_case_t<GlobalTypes>(c, cfg, [](const GMat& m, const auto& f, GPre pre) -> GSol { return Solver::new_gropppcg(m, f, pre); }, "");
}

VH_FAMILY(rbicgstab)
{
  CaseCfg cfg; cfg.info = &I_RBICGSTAB;
  run_case_t<GlobalTypes>(c, cfg, [](const GMat& m, const auto& f, GPre pre) -> GSol { return Solver::new_rbicgstab(m, f, pre); }, "");
}
