// explicit instantiation of the composed-filter dispatcher for <float, std::uint32_t>
#include "composed.hpp"
namespace c06 { template void composed_dispatch<float, std::uint32_t>(vh::Ctx&, long, int); }
