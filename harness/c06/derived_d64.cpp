// explicit instantiation of the derived-filter dispatcher for <double, std::uint64_t>
#include "derived.hpp"
namespace c06 { namespace drv { template void derived_dispatch<double, std::uint64_t>(vh::Ctx&, long, int); } }
