// explicit instantiation of the derived-filter dispatcher for <float, std::uint64_t>
#include "derived.hpp"
namespace c06 { namespace drv { template void derived_dispatch<float, std::uint64_t>(vh::Ctx&, long, int); } }
