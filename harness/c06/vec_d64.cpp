// explicit instantiation of the vector-monitor dispatcher for <double, std::uint64_t>
#include "vec.hpp"
namespace c06 { template void vec_dispatch<double, std::uint64_t>(vh::Ctx&, long, int); }
