// explicit instantiation of the vector-monitor dispatcher for <double, std::uint32_t>
#include "vec.hpp"
namespace c06 { template void vec_dispatch<double, std::uint32_t>(vh::Ctx&, long, int); }
