// c06.hpp -- shared models / monitors of the C06 harness (filters impose their constraints exactly and idempotently)
#pragma once
#include <common/vh_lafem.hpp>
#include <kernel/lafem/sparse_vector.hpp>
#include <kernel/lafem/sparse_vector_blocked.hpp>
#include <kernel/lafem/unit_filter.hpp>
#include <kernel/lafem/unit_filter_blocked.hpp>
#include <kernel/lafem/slip_filter.hpp>
#include <kernel/lafem/mean_filter.hpp>
#include <kernel/lafem/mean_filter_blocked.hpp>
#include <kernel/lafem/none_filter.hpp>
#include <kernel/lafem/filter_chain.hpp>
#include <kernel/lafem/filter_sequence.hpp>
#if defined(__SANITIZE_ADDRESS__)
#include <sanitizer/common_interface_defs.h>
#endif
#include <execinfo.h>
#include <dlfcn.h>

namespace c06
{
  using namespace FEAT;
  using namespace FEAT::LAFEM;
  using vl::LD; using vl::MatSpec; using vl::Trip;

  // ------------------------------------------------------------------ forked probes (see harness/c03/c03.hpp for the rationale)
  inline std::string crash_kind(const vh::ForkResult& r)
  {
    const std::string& t = r.err;
    auto p = t.find("ERROR: AddressSanitizer");
    if(p != std::string::npos)
    {
      std::size_t q = p + std::strlen("ERROR: AddressSanitizer");
      while(q < t.size() && (t[q] == ':' || t[q] == ' ')) ++q;
      std::string w; while(q < t.size() && (std::isalnum((unsigned char)t[q]) || t[q] == '_' || t[q] == '-')) w += t[q++];
      return "asan:" + (w.empty() ? std::string("report") : w);
    }
    if(t.find("runtime error:") != std::string::npos) return "ubsan";
    if(t.find("FATAL ERROR") != std::string::npos || (t.find("Assertion") != std::string::npos && t.find("failed") != std::string::npos)
      || t.find("ABORT") != std::string::npos) return "abort";
    if(t.find("terminate called") != std::string::npos) return "uncaught";
    if(t.find("VH-CHILD-EXCEPTION") != std::string::npos) return "exception";
    if(!r.exited) return "signal:" + std::to_string(r.sig);
    return "exit:" + std::to_string(r.code);
  }
  inline void warm_symbolizer()
  {
#if defined(__SANITIZE_ADDRESS__)
    static bool done = false;
    if(done) return;
    done = true;
    std::fflush(stderr);
    int save = dup(2), nul = open("/dev/null", O_WRONLY);
    if(save >= 0 && nul >= 0)
    {
      dup2(nul, 2);
      __sanitizer_print_stack_trace();
      if(void* h = dlopen("libubsan.so.1", RTLD_LAZY | RTLD_NOLOAD))
      {
        typedef void (*fn_t)(void*, const char*, char*, std::size_t);
        char buf[256];
        if(fn_t f = (fn_t)dlsym(h, "__sanitizer_symbolize_pc")) f((void*)&vh::main_impl, "%f", buf, sizeof(buf));
      }
      try { throw 1; } catch(int) {}
      void* bt[8]; int nb = backtrace(bt, 8); char** sy = backtrace_symbols(bt, nb); if(sy) std::free(sy);
      dup2(save, 2);
    }
    if(save >= 0) close(save);
    if(nul >= 0) close(nul);
#endif
  }
  inline bool probe(vh::Ctx& c, const std::string& op, const std::function<void()>& fn)
  {
    warm_symbolizer();
    vh::ForkResult r = vh::run_forked(fn);
    c.count("probes");
    if(r.clean()) return true;
    c.count("probe_crashes");
    c.viol(op, crash_kind(r), vh::J().kv("probe", true).kv("stderr", r.err.substr(0, 1500)).str());
    return false;
  }

  // ------------------------------------------------------------------ sizes and index sets
  inline Index pick_size(vh::Rng& r, bool allow_zero)
  {
    static const Index sz[] = {1, 2, 3, 4, 5, 7, 8, 9, 15, 16, 17, 31, 33, 100};
    if(allow_zero && r.coin(0.04)) return 0;
    return sz[r.below(sizeof(sz) / sizeof(sz[0]))];
  }
  // sorted, duplicate-free subset of [0,n); `kind` receives the class name
  inline std::vector<Index> pick_indices(vh::Rng& r, Index n, std::string& kind)
  {
    std::vector<Index> s;
    if(n == 0) { kind = "set:empty"; return s; }
    switch(int(r.below(8)))
    {
    case 0: kind = "set:empty"; break;
    case 1: kind = "set:all"; for(Index i = 0; i < n; ++i) s.push_back(i); break;
    case 2: kind = "set:first"; s.push_back(0); break;
    case 3: kind = "set:last"; s.push_back(n - 1); break;
    case 4: kind = "set:first+last"; s.push_back(0); if(n > 1) s.push_back(n - 1); break;
    case 5: { kind = "set:range"; Index a = Index(r.below(n)), b = a + Index(r.below(n - a)) + 1; for(Index i = a; i < b; ++i) s.push_back(i); break; }
    default: { kind = "set:random"; double p = r.pick<double>({0.1, 0.3, 0.6, 0.9}); for(Index i = 0; i < n; ++i) if(r.coin(p)) s.push_back(i);
        if(s.empty()) kind = "set:empty"; else if(s.size() == n) kind = "set:all"; break; }
    }
    return s;
  }

  enum Call { RHS = 0, SOL = 1, DEF = 2, COR = 3 };
  inline const char* call_name(int k) { static const char* n[] = {"filter_rhs", "filter_sol", "filter_def", "filter_cor"}; return n[k]; }
  template<typename F, typename V> void apply(const F& f, V& v, int call)
  {
    switch(call) { case RHS: f.filter_rhs(v); break; case SOL: f.filter_sol(v); break; case DEF: f.filter_def(v); break; default: f.filter_cor(v); break; }
  }

  template<typename DT> inline bool same_bits(DT a, DT b) { return std::memcmp(&a, &b, sizeof(DT)) == 0; }
  template<typename V> auto* pod(V& v) { return v.template elements<Perspective::pod>(); }
  template<typename V> std::vector<typename V::DataType> snapshot(V& v)
  {
    typedef typename V::DataType DT;
    const Index n = v.template size<Perspective::pod>();
    const DT* e = pod(v);
    return std::vector<DT>(e, e + n);
  }
  template<typename V> void fill(V& v, const std::vector<double>& d)
  {
    typedef typename V::DataType DT; DT* e = pod(v);
    for(std::size_t i = 0; i < d.size(); ++i) e[i] = DT(d[i]);
  }

  // ------------------------------------------------------------------ models (generator-owned truth)
  // unit filter: block index -> bs values; a NaN value marks a component that is NOT constrained (ignore_nans mode)
  struct UnitModel
  {
    Index n = 0; int bs = 1;
    std::vector<Index> idx; std::vector<double> val;   // val.size() == idx.size()*bs
    std::string describe() const
    {
      vh::J a('['); for(std::size_t i = 0; i < idx.size() && i < 40; ++i) a.add((unsigned long)idx[i]);
      return vh::J().kv("size", (unsigned long)n).kv("bs", bs).kv("count", (unsigned long)idx.size()).raw("indices", a.str()).raw("values", vh::jarr(val, 40)).str();
    }
  };
  inline UnitModel gen_unit(vh::Rng& r, Index n, int bs, int vstyle, std::string& kind, bool with_nans = false)
  {
    UnitModel m; m.n = n; m.bs = bs; m.idx = pick_indices(r, n, kind);
    m.val.resize(m.idx.size() * std::size_t(bs));
    for(auto& v : m.val) v = (with_nans && r.coin(0.3)) ? std::nan("") : vl::gen_value(r, vstyle);
    return m;
  }
  // later models override earlier ones (FilterChain / FilterSequence of unit filters)
  inline UnitModel merge(const std::vector<UnitModel>& ms)
  {
    UnitModel o; if(ms.empty()) return o;
    o.n = ms[0].n; o.bs = ms[0].bs;
    std::map<Index, std::vector<double>> mp;
    for(auto& m : ms) for(std::size_t i = 0; i < m.idx.size(); ++i)
    {
      auto& dst = mp[m.idx[i]]; if(dst.empty()) dst.assign(std::size_t(o.bs), std::nan(""));
      for(int k = 0; k < o.bs; ++k) { double v = m.val[i * std::size_t(o.bs) + std::size_t(k)]; if(v == v) dst[std::size_t(k)] = v; }
    }
    for(auto& e : mp) { o.idx.push_back(e.first); for(double v : e.second) o.val.push_back(v); }
    return o;
  }

  // monitor of one unit-type filter call: constrained entries exact, complement bit-unchanged
  template<typename DT>
  void check_unit(vh::Ctx& c, const std::string& op, int call, const std::vector<DT>& before, const std::vector<DT>& after, const UnitModel& m, int& budget,
                  const std::vector<char>* skip = nullptr)
  {
    c.event();
    if(before.size() != after.size() || before.size() != std::size_t(m.n) * std::size_t(m.bs))
    { c.viol(op, "dims", vh::J().kv("before", (unsigned long)before.size()).kv("after", (unsigned long)after.size()).str()); return; }
    std::vector<char> con(before.size(), 0);
    for(std::size_t i = 0; i < m.idx.size(); ++i) for(int k = 0; k < m.bs; ++k)
    {
      const double pv = m.val[i * std::size_t(m.bs) + std::size_t(k)];
      if(pv != pv) continue; // ignored component
      const std::size_t p = std::size_t(m.idx[i]) * std::size_t(m.bs) + std::size_t(k);
      con[p] = 1; c.event();
      const bool ok = (call == RHS || call == SOL) ? same_bits<DT>(after[p], DT(pv)) : (after[p] == DT(0));
      if(!ok && budget-- > 0)
        c.viol(op, "constraint-violated", vh::J().kv("entry", (unsigned long)p).kv("got", (LD)after[p]).kv("expected", (call == RHS || call == SOL) ? (LD)DT(pv) : 0.0L).str());
    }
    for(std::size_t p = 0; p < before.size(); ++p) if(!con[p] && !(skip && (*skip)[p]))
    {
      c.event();
      if(!same_bits<DT>(before[p], after[p]) && budget-- > 0)
        c.viol(op, "complement-modified", vh::J().kv("entry", (unsigned long)p).kv("before", (LD)before[p]).kv("after", (LD)after[p]).str());
    }
  }
  template<typename DT>
  void check_same_bits(vh::Ctx& c, const std::string& op, const char* kind, const std::vector<DT>& a, const std::vector<DT>& b, int& budget)
  {
    c.event();
    if(a.size() != b.size()) { c.viol(op, "dims", "{}"); return; }
    for(std::size_t p = 0; p < a.size(); ++p)
      if(!same_bits<DT>(a[p], b[p]) && budget-- > 0)
        c.viol(op, kind, vh::J().kv("entry", (unsigned long)p).kv("first", (LD)a[p]).kv("second", (LD)b[p]).str());
  }

  // slip filter model: block index -> normal (bs values, not all zero)
  struct SlipModel
  {
    Index n = 0; int bs = 2; std::vector<Index> idx; std::vector<double> nu;
    std::string describe() const
    {
      vh::J a('['); for(std::size_t i = 0; i < idx.size() && i < 40; ++i) a.add((unsigned long)idx[i]);
      return vh::J().kv("size", (unsigned long)n).kv("bs", bs).kv("count", (unsigned long)idx.size()).raw("indices", a.str()).raw("normals", vh::jarr(nu, 40)).str();
    }
  };
  inline SlipModel gen_slip(vh::Rng& r, Index n, int bs, int vstyle, std::string& kind)
  {
    SlipModel m; m.n = n; m.bs = bs; m.idx = pick_indices(r, n, kind);
    m.nu.resize(m.idx.size() * std::size_t(bs));
    for(std::size_t i = 0; i < m.idx.size(); ++i)
    {
      int mode = int(r.below(4));
      bool nz = false;
      for(int k = 0; k < bs; ++k)
      {
        double v = mode == 0 ? (k == int(i % std::size_t(bs)) ? 1.0 : 0.0) : vl::gen_value(r, vstyle);   // axis-aligned normals, too
        m.nu[i * std::size_t(bs) + std::size_t(k)] = v; if(v != 0.0) nz = true;
      }
      if(!nz) m.nu[i * std::size_t(bs)] = 1.0;
      if(mode == 1)
      {
        // (nearly) unit normal
        LD s = 0; for(int k = 0; k < bs; ++k) s += (LD)m.nu[i * std::size_t(bs) + std::size_t(k)] * (LD)m.nu[i * std::size_t(bs) + std::size_t(k)];
        for(int k = 0; k < bs; ++k) m.nu[i * std::size_t(bs) + std::size_t(k)] = double(float((LD)m.nu[i * std::size_t(bs) + std::size_t(k)] / std::sqrt(s)));
      }
    }
    return m;
  }
  // `orig` is the vector before the FIRST application (bounds are formed with it); `before`/`after` bracket the monitored call
  template<typename DT>
  void check_slip(vh::Ctx& c, const std::string& op, const std::vector<DT>& orig, const std::vector<DT>& before, const std::vector<DT>& after,
                  const SlipModel& m, bool second, int& budget, const std::vector<char>* skip = nullptr)
  {
    c.event();
    if(before.size() != after.size() || before.size() != std::size_t(m.n) * std::size_t(m.bs)) { c.viol(op, "dims", "{}"); return; }
    std::vector<char> con(before.size(), 0);
    const std::size_t bs = std::size_t(m.bs);
    for(std::size_t i = 0; i < m.idx.size(); ++i)
    {
      const std::size_t b0 = std::size_t(m.idx[i]) * bs;
      LD vn = 0, avn = 0, nn = 0, wn = 0, awn = 0;
      for(std::size_t k = 0; k < bs; ++k)
      {
        con[b0 + k] = 1;
        const LD nu = (LD)DT(m.nu[i * bs + k]);
        vn += (LD)orig[b0 + k] * nu; avn += std::fabs((LD)orig[b0 + k] * nu); nn += nu * nu;
        wn += (LD)after[b0 + k] * nu; awn += std::fabs((LD)after[b0 + k] * nu);
      }
      // normal component of the result
      c.event(); LD ex = 0;
      if(!vl::close_enough<DT>(wn, 0.0L, 3.0L * avn + awn, bs + 2, &ex) && budget-- > 0)
        c.viol(op, second ? "not-idempotent" : "constraint-violated", vh::J().kv("block", (unsigned long)m.idx[i]).kv("normal_component", wn).kv("S", 3.0L * avn + awn).kv("err_over_bound", ex).str());
      // each component equals v - (v.nu / nu.nu) nu  (tangential part untouched up to rounding)
      for(std::size_t k = 0; k < bs; ++k)
      {
        const LD nu = (LD)DT(m.nu[i * bs + k]);
        const LD ref = (LD)orig[b0 + k] - vn / nn * nu;
        const LD S = std::fabs((LD)orig[b0 + k]) + 2.0L * std::fabs(nu) * avn / nn;
        c.event();
        if(!vl::close_enough<DT>((LD)after[b0 + k], ref, S, bs + 4, &ex) && budget-- > 0)
          c.viol(op, second ? "not-idempotent" : "wrong-value", vh::J().kv("entry", (unsigned long)(b0 + k)).kv("got", (LD)after[b0 + k]).kv("expected", ref).kv("S", S).kv("err_over_bound", ex).str());
      }
    }
    for(std::size_t p = 0; p < before.size(); ++p) if(!con[p] && !(skip && (*skip)[p]))
    {
      c.event();
      if(!same_bits<DT>(before[p], after[p]) && budget-- > 0)
        c.viol(op, "complement-modified", vh::J().kv("entry", (unsigned long)p).kv("before", (LD)before[p]).kv("after", (LD)after[p]).str());
    }
  }

  // mean filter model (per component for the blocked variant): primal v, dual w, volume = v.w per component, sol_mean
  struct MeanModel
  {
    Index n = 0; int bs = 1; std::vector<double> prim, dual; std::vector<double> sol_mean;
    std::string describe() const
    { return vh::J().kv("size", (unsigned long)n).kv("bs", bs).raw("prim", vh::jarr(prim, 40)).raw("dual", vh::jarr(dual, 40)).raw("sol_mean", vh::jarr(sol_mean, 4)).str(); }
  };
  inline MeanModel gen_mean(vh::Rng& r, Index n, int bs, std::string& kind)
  {
    MeanModel m; m.n = n; m.bs = bs; const std::size_t N = std::size_t(n) * std::size_t(bs);
    m.prim.resize(N); m.dual.resize(N); m.sol_mean.resize(std::size_t(bs));
    const int mode = int(r.below(4));
    static const char* nm[] = {"mean:ones_x_mass", "mean:positive", "mean:mixed_sign", "mean:spread"};
    kind = nm[mode];
    for(int k = 0; k < bs; ++k)
      for(int attempt = 0; attempt < 50; ++attempt)
      {
        LD vol = 0, avol = 0;
        for(Index i = 0; i < n; ++i)
        {
          double p, d;
          switch(mode)
          {
          case 0: p = 1.0; d = double(float(r.real(0.05, 2.0))); break;
          case 1: p = double(float(r.real(0.1, 3.0))); d = double(float(r.real(0.1, 3.0))); break;
          case 2: p = double(float(r.real(-2.0, 2.0))); d = double(float(r.real(-2.0, 2.0))); break;
          default: p = double(float(r.real(0.1, 1.0) * std::pow(10.0, double(r.range(-3, 3))))); d = double(float(r.real(0.1, 1.0) * std::pow(10.0, double(r.range(-3, 3))))); break;
          }
          m.prim[std::size_t(i) * std::size_t(bs) + std::size_t(k)] = p; m.dual[std::size_t(i) * std::size_t(bs) + std::size_t(k)] = d;
          vol += (LD)p * (LD)d; avol += std::fabs((LD)p * (LD)d);
        }
        // the filter requires a positive volume well above eps; keep the cancellation in v.w moderate
        if(n == 0 || (vol > 1e-2L && vol >= 0.2L * avol)) break;
        if(attempt == 49) for(Index i = 0; i < n; ++i) { m.prim[std::size_t(i) * std::size_t(bs) + std::size_t(k)] = 1.0; m.dual[std::size_t(i) * std::size_t(bs) + std::size_t(k)] = 1.0; }
      }
    for(auto& s : m.sol_mean) s = r.coin(0.4) ? 0.0 : vl::gen_value(r, 1);
    return m;
  }
  // call semantics: RHS/DEF: x' = x - (x.v/vol) w  => x'.v = 0 ; COR: x' = x - (x.w/vol) v => x'.w = 0 ;
  //                 SOL: x' = x + (m - x.w/vol) v => x'.w = m*vol
  template<typename DT>
  void check_mean(vh::Ctx& c, const std::string& op, int call, const std::vector<DT>& orig, const std::vector<DT>& after, const MeanModel& m, bool second, int& budget)
  {
    c.event();
    const std::size_t bs = std::size_t(m.bs), N = std::size_t(m.n) * bs;
    if(orig.size() != after.size() || orig.size() != N) { c.viol(op, "dims", "{}"); return; }
    for(std::size_t k = 0; k < bs; ++k)
    {
      // a = weight in the constraint, d = direction that is added
      const std::vector<double>& A = (call == RHS || call == DEF) ? m.prim : m.dual;
      const std::vector<double>& D = (call == RHS || call == DEF) ? m.dual : m.prim;
      LD vol = 0, avol = 0, xa = 0, axa = 0, ya = 0, aya = 0, ad = 0, aad = 0;
      for(Index i = 0; i < m.n; ++i)
      {
        const std::size_t p = std::size_t(i) * bs + k;
        const LD pa = (LD)DT(A[p]), pd = (LD)DT(D[p]);
        vol += (LD)DT(m.prim[p]) * (LD)DT(m.dual[p]); avol += std::fabs((LD)DT(m.prim[p]) * (LD)DT(m.dual[p]));
        xa += (LD)orig[p] * pa; axa += std::fabs((LD)orig[p] * pa);
        ya += (LD)after[p] * pa; aya += std::fabs((LD)after[p] * pa);
        ad += pa * pd; aad += std::fabs(pa * pd);
      }
      const LD kvol = avol / vol;                        // cancellation in the volume
      const LD target = call == SOL ? (LD)DT(m.sol_mean[k]) * vol : 0.0L;
      const LD shift = call == SOL ? ((LD)DT(m.sol_mean[k]) - xa / vol) : (-xa / vol);
      // weighted mean of the result
      const LD S = (axa + std::fabs(shift) * aad + aya + std::fabs(target)) * (1.0L + kvol);
      c.event(); LD ex = 0;
      if(!vl::close_enough<DT>(ya, target, S, std::size_t(m.n) + 4, &ex) && budget-- > 0)
        c.viol(op, second ? "not-idempotent" : "constraint-violated", vh::J().kv("component", (unsigned long)k).kv("weighted_mean", ya).kv("target", target).kv("S", S).kv("err_over_bound", ex).str());
      // every entry equals x + shift * d
      for(Index i = 0; i < m.n; ++i)
      {
        const std::size_t p = std::size_t(i) * bs + k;
        const LD pd = (LD)DT(D[p]);
        const LD ref = (LD)orig[p] + shift * pd;
        const LD Se = std::fabs((LD)orig[p]) + std::fabs(pd) * (axa / std::fabs(vol) + (call == SOL ? std::fabs((LD)DT(m.sol_mean[k])) : 0.0L)) * (1.0L + kvol) * 2.0L;
        c.event();
        if(!vl::close_enough<DT>((LD)after[p], ref, Se, std::size_t(m.n) + 4, &ex) && budget-- > 0)
          c.viol(op, second ? "not-idempotent" : "wrong-value", vh::J().kv("entry", (unsigned long)p).kv("got", (LD)after[p]).kv("expected", ref).kv("S", Se).kv("err_over_bound", ex).str());
      }
    }
  }

  // ------------------------------------------------------------------ FEAT filter construction from models
  // how: 0 = array constructor (needs a non-empty set), 1 = size constructor + add() in random order, 2 = deep clone of (1)
  template<typename DT, typename IT>
  UnitFilter<DT, IT> make_unit(vh::Rng& r, const UnitModel& m, int how, std::string* tag = nullptr)
  {
    if(m.idx.empty() || m.n == 0) how = 1;
    if(how == 0)
    {
      if(tag) *tag = "ctor:arrays";
      DenseVector<DT, IT> v(Index(m.idx.size())); DenseVector<IT, IT> ix(Index(m.idx.size()));
      for(Index i = 0; i < Index(m.idx.size()); ++i) { v(i, DT(m.val[i])); ix(i, IT(m.idx[i])); }
      return UnitFilter<DT, IT>(m.n, v, ix);
    }
    UnitFilter<DT, IT> f(m.n);
    std::vector<std::size_t> ord(m.idx.size()); for(std::size_t i = 0; i < ord.size(); ++i) ord[i] = i;
    r.shuffle(ord);
    for(std::size_t i : ord) f.add(IT(m.idx[i]), DT(m.val[i]));
    if(how == 2) { if(tag) *tag = "ctor:clone"; return f.clone(CloneMode::Deep); }
    if(tag) *tag = "ctor:add";
    return f;
  }
  template<typename DT, typename IT, int BS>
  UnitFilterBlocked<DT, IT, BS> make_unit_blocked(vh::Rng& r, const UnitModel& m, int how, bool ignore_nans, std::string* tag = nullptr)
  {
    typedef Tiny::Vector<DT, BS> VT;
    if(m.idx.empty() || m.n == 0) how = 1;
    if(how == 0)
    {
      if(tag) *tag = "ctor:arrays";
      DenseVectorBlocked<DT, IT, BS> v(Index(m.idx.size())); DenseVector<IT, IT> ix(Index(m.idx.size()));
      DT* e = pod(v);
      for(std::size_t q = 0; q < m.val.size(); ++q) e[q] = DT(m.val[q]);
      for(Index i = 0; i < Index(m.idx.size()); ++i) ix(i, IT(m.idx[i]));
      UnitFilterBlocked<DT, IT, BS> f(m.n, v, ix);
      f.set_ignore_nans(ignore_nans);     // the array constructor leaves the flag unset
      return f;
    }
    UnitFilterBlocked<DT, IT, BS> f(m.n, ignore_nans);
    std::vector<std::size_t> ord(m.idx.size()); for(std::size_t i = 0; i < ord.size(); ++i) ord[i] = i;
    r.shuffle(ord);
    for(std::size_t i : ord) { VT t; for(int k = 0; k < BS; ++k) t[k] = DT(m.val[i * std::size_t(BS) + std::size_t(k)]); f.add(IT(m.idx[i]), t); }
    if(how == 2) { if(tag) *tag = "ctor:clone"; return f.clone(CloneMode::Deep); }
    if(tag) *tag = "ctor:add";
    return f;
  }
  template<typename DT, typename IT, int BS>
  SlipFilter<DT, IT, BS> make_slip(vh::Rng& r, const SlipModel& m, bool clone)
  {
    typedef Tiny::Vector<DT, BS> VT;
    SlipFilter<DT, IT, BS> f(m.n, m.n);
    std::vector<std::size_t> ord(m.idx.size()); for(std::size_t i = 0; i < ord.size(); ++i) ord[i] = i;
    r.shuffle(ord);
    for(std::size_t i : ord) { VT t; for(int k = 0; k < BS; ++k) t[k] = DT(m.nu[i * std::size_t(BS) + std::size_t(k)]); f.add(IT(m.idx[i]), t); }
    if(clone) return f.clone(CloneMode::Deep);
    return f;
  }
  // the filter's own data must still describe the model after all calls ("filter not modified by filtering")
  template<typename F>
  void check_filter_intact(vh::Ctx& c, const std::string& op, const F& f, const std::vector<Index>& idx, const std::vector<double>& val, int bs)
  {
    typedef typename F::DataType DT;
    c.event();
    if(f.used_elements() != Index(idx.size())) { c.viol(op, "filter-modified", vh::J().kv("used_elements", (unsigned long)f.used_elements()).kv("expected", (unsigned long)idx.size()).str()); return; }
    if(idx.empty()) return;
    const auto* ix = f.get_indices(); const DT* v = reinterpret_cast<const DT*>(f.get_values());
    for(std::size_t i = 0; i < idx.size(); ++i)
    {
      bool ok = Index(ix[i]) == idx[i];
      for(int k = 0; ok && k < bs; ++k)
      {
        const double pv = val[i * std::size_t(bs) + std::size_t(k)];
        ok = (pv != pv) ? (v[i * std::size_t(bs) + std::size_t(k)] != v[i * std::size_t(bs) + std::size_t(k)]) : same_bits<DT>(v[i * std::size_t(bs) + std::size_t(k)], DT(pv));
      }
      if(!ok) { c.viol(op, "filter-modified", vh::J().kv("position", (unsigned long)i).str()); return; }
    }
  }
} // namespace c06
