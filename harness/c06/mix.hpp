// mix.hpp -- C06 composition oracle: the result of filter_X on a composed filter (FilterChain, FilterSequence, TupleFilter,
// PowerFilter, nested) equals applying filter_X of its members one after another in order (chain/sequence) resp. component-wise
// (tuple/power), for X in {rhs, sol, def, cor}, with arbitrary member mixes including mean filters with independent primal and
// dual weights in first / middle / last position.  For such mixes only the LAST applied constraint is guaranteed, so they are
// judged by the sequential-application oracle plus "the last member's constraint holds".  Included by composed.hpp.
#pragma once
#include "mat.hpp"
#include <kernel/lafem/power_vector.hpp>
#include <kernel/lafem/tuple_vector.hpp>
#include <kernel/lafem/power_filter.hpp>
#include <kernel/lafem/tuple_filter.hpp>

namespace c06
{
  // ------------------------------------------------------------------ sequential reference application (member by member)
  template<typename DT> struct Steps { std::vector<std::vector<DT>> after; };   // snapshot after every leaf member

  template<typename F> struct Seq   // leaf member
  {
    template<typename V, typename DT> static void run(const F& f, V& v, int call, Steps<DT>& st) { apply(f, v, call); st.after.push_back(snapshot(v)); }
  };
  template<typename F, typename V, typename DT> void seq_apply(const F& f, V& v, int call, Steps<DT>& st) { Seq<F>::run(f, v, call, st); }
  template<typename In> struct Seq<FilterSequence<In>>
  {
    template<typename V, typename DT> static void run(const FilterSequence<In>& f, V& v, int call, Steps<DT>& st)
    { for(auto it = f.begin(); it != f.end(); ++it) seq_apply(it->second, v, call, st); }
  };
  template<typename First, typename... Rest> struct Seq<FilterChain<First, Rest...>>
  {
    template<typename V, typename DT> static void run(const FilterChain<First, Rest...>& f, V& v, int call, Steps<DT>& st)
    {
      seq_apply(f.first(), v, call, st);
      if constexpr(sizeof...(Rest) > 0) seq_apply(f.rest(), v, call, st);
    }
  };

  // component-wise reference application for tuple / power filters (leaves may be chains / sequences)
  template<typename F> struct Comp
  {
    template<typename V, typename DT> static void run(const F& f, V& v, int call, Steps<DT>& st) { seq_apply(f, v, call, st); }
  };
  template<typename F, typename V, typename DT> void comp_apply(const F& f, V& v, int call, Steps<DT>& st) { Comp<F>::run(f, v, call, st); }
  template<typename First, typename... Rest> struct Comp<TupleFilter<First, Rest...>>
  {
    template<typename V, typename DT> static void run(const TupleFilter<First, Rest...>& f, V& v, int call, Steps<DT>& st)
    {
      comp_apply(f.first(), v.first(), call, st);
      if constexpr(sizeof...(Rest) > 0) comp_apply(f.rest(), v.rest(), call, st);
    }
  };
  template<typename Sub, int n> struct Comp<PowerFilter<Sub, n>>
  {
    template<typename V, typename DT> static void run(const PowerFilter<Sub, n>& f, V& v, int call, Steps<DT>& st)
    {
      comp_apply(f.first(), v.first(), call, st);
      if constexpr(n > 1) comp_apply(f.rest(), v.rest(), call, st);
    }
  };
  // flat snapshot of (meta) vectors
  template<typename V> struct Snap
  {
    template<typename DT> static void run(V& v, std::vector<DT>& out) { auto s = snapshot(v); out.insert(out.end(), s.begin(), s.end()); }
  };
  template<typename V, typename DT> void snap_into(V& v, std::vector<DT>& out) { Snap<V>::run(v, out); }
  template<typename First, typename... Rest> struct Snap<TupleVector<First, Rest...>>
  {
    template<typename DT> static void run(TupleVector<First, Rest...>& v, std::vector<DT>& out)
    { snap_into(v.first(), out); if constexpr(sizeof...(Rest) > 0) snap_into(v.rest(), out); }
  };
  template<typename Sub, int n> struct Snap<PowerVector<Sub, n>>
  {
    template<typename DT> static void run(PowerVector<Sub, n>& v, std::vector<DT>& out)
    { snap_into(v.first(), out); if constexpr(n > 1) snap_into(v.rest(), out); }
  };

  // composed result vs. sequential reference: bit-identical is expected; a deviation inside the normwise rounding bound is only
  // counted (a member is slip/mean), anything larger is a violation
  template<typename DT>
  void check_composition(vh::Ctx& c, const std::string& op, const std::vector<DT>& got, const std::vector<DT>& ref, LD scale, std::size_t n, bool exact_members, int& budget)
  {
    c.event();
    if(got.size() != ref.size()) { c.viol(op, "dims", "{}"); return; }
    const LD tol = 8.0L * LD(n + 8) * vl::unit_roundoff<DT>() * scale;
    bool bitwise = true;
    for(std::size_t p = 0; p < got.size(); ++p)
    {
      if(same_bits<DT>(got[p], ref[p])) continue;
      bitwise = false;
      const LD err = std::fabs((LD)got[p] - (LD)ref[p]);
      if((exact_members || !(err <= tol)) && budget-- > 0)
        c.viol(op, "composition-differs", vh::J().kv("entry", (unsigned long)p).kv("composed", (LD)got[p]).kv("members_in_order", (LD)ref[p]).kv("tolerance", exact_members ? 0.0L : tol).str());
    }
    if(!bitwise) c.count("composition_not_bitwise");
  }
  template<typename DT> LD max_abs(const std::vector<DT>& v) { LD m = 0; for(DT x : v) m = std::max(m, std::fabs((LD)x)); return m; }
  template<typename DT> LD steps_scale(const std::vector<DT>& orig, const Steps<DT>& st) { LD m = std::max<LD>(1.0L, max_abs(orig)); for(auto& s : st.after) m = std::max(m, max_abs(s)); return m; }
  inline LD mean_kappa(const MeanModel& m)
  {
    LD worst = 1.0L;
    for(int k = 0; k < m.bs; ++k)
    {
      LD vol = 0, avol = 0, mp = 0, md = 0;
      for(Index i = 0; i < m.n; ++i) { const std::size_t p = std::size_t(i) * std::size_t(m.bs) + std::size_t(k); vol += (LD)m.prim[p] * (LD)m.dual[p]; avol += std::fabs((LD)m.prim[p] * (LD)m.dual[p]); mp = std::max(mp, std::fabs((LD)m.prim[p])); md = std::max(md, std::fabs((LD)m.dual[p])); }
      // amplification of a perturbation by the mean projection: ||v|| ||w|| n / |v.w|
      worst = std::max(worst, (avol / vol) + LD(m.n) * mp * md / vol);
    }
    return worst;
  }

  // constrained entries of a unit model only (no complement claim): used for "the last member's constraint holds"
  template<typename DT>
  void check_unit_entries(vh::Ctx& c, const std::string& op, int call, const std::vector<DT>& after, const UnitModel& m, int& budget)
  {
    for(std::size_t i = 0; i < m.idx.size(); ++i) for(int k = 0; k < m.bs; ++k)
    {
      const double pv = m.val[i * std::size_t(m.bs) + std::size_t(k)];
      if(pv != pv) continue;
      const std::size_t p = std::size_t(m.idx[i]) * std::size_t(m.bs) + std::size_t(k);
      c.event();
      const bool ok = (call == RHS || call == SOL) ? same_bits<DT>(after[p], DT(pv)) : (after[p] == DT(0));
      if(!ok && budget-- > 0)
        c.viol(op, "constraint-violated", vh::J().kv("member", "last").kv("entry", (unsigned long)p).kv("got", (LD)after[p]).str());
    }
  }

  template<typename DT, typename IT> MeanFilter<DT, IT> make_mean(const MeanModel& m)
  { return MeanFilter<DT, IT>(vl::make_dv<DT, IT>(m.prim), vl::make_dv<DT, IT>(m.dual), DT(m.sol_mean[0])); }
  template<typename DT, typename IT, int BS> MeanFilterBlocked<DT, IT, BS> make_mean_blocked(const MeanModel& m)
  {
    typedef DenseVectorBlocked<DT, IT, BS> Vec; Tiny::Vector<DT, BS> sm;
    for(int k = 0; k < BS; ++k) sm[k] = DT(m.sol_mean[std::size_t(k)]);
    Vec p(m.n), d(m.n); fill(p, m.prim); fill(d, m.dual);
    return MeanFilterBlocked<DT, IT, BS>(std::move(p), std::move(d), sm);
  }

  // runs the four calls on a chain-like filter acting on ONE vector; `last` judges the last member's constraint
  template<typename DT, typename Filter, typename MakeVec, typename Last>
  void run_mix(vh::Ctx& c, const std::string& opbase, const Filter& f, std::size_t npod, std::size_t n, int vstyle, bool exact_members, LD kappa, MakeVec make_vec, Last last)
  {
    int budget = 6;
    for(int call = 0; call < 4; ++call)
    {
      const std::string op = opbase + "." + call_name(call);
      std::vector<double> vals = vl::gen_vec(c.rng, Index(npod), vstyle);
      auto v = make_vec(vals); auto r = make_vec(vals);
      std::vector<DT> orig = snapshot(v);
      Steps<DT> st;
      seq_apply(f, r, call, st);                       // members one after another (reference)
      c.set_op(op); apply(f, v, call); c.event();      // the composition under test
      std::vector<DT> got = snapshot(v), ref = snapshot(r);
      check_composition<DT>(c, op, got, ref, steps_scale(orig, st) * kappa, n, exact_members, budget);
      const std::vector<DT>& before_last = st.after.size() >= 2 ? st.after[st.after.size() - 2] : orig;
      if(!st.after.empty()) last(op, call, before_last, got, budget);
    }
  }

  // which: 0 chain<U,M> 1 chain<M,U> 2 chain<U,M,U> 3 chain<seq<U>,M> 4 chain<M,M> 5 seq<M> (2..3) 6 chain<U,M,M>
  template<typename DT, typename IT>
  void mix_scalar_case(vh::Ctx& c, int which)
  {
    typedef UnitFilter<DT, IT> UF; typedef MeanFilter<DT, IT> MF; typedef DenseVector<DT, IT> Vec;
    vh::Rng& rng = c.rng;
    const Index n = pick_size(rng, false); const int vstyle = int(rng.pick<int>({0, 1, 3}));
    std::string k0, k1, km0, km1, km2;
    UnitModel u0 = gen_unit_n(rng, n, 1, vstyle, k0), u1 = gen_unit_n(rng, n, 1, vstyle, k1);
    MeanModel m0 = gen_mean(rng, n, 1, km0), m1 = gen_mean(rng, n, 1, km1), m2 = gen_mean(rng, n, 1, km2);
    static const char* nm[] = {"mix:chain(unit,mean)", "mix:chain(mean,unit)", "mix:chain(unit,mean,unit)", "mix:chain(seq(unit),mean)", "mix:chain(mean,mean)", "mix:seq(mean..)", "mix:chain(unit,mean,mean)"};
    common_tags(c, n, vl::dt_name<DT>(), vl::it_name<IT>()); c.tag(nm[which]); c.tag(km0); c.tag("set:" + k0.substr(4));
    c.desc = vh::J().kv("mix", nm[which]).raw("u0", u0.describe()).raw("u1", u1.describe()).raw("m0", m0.describe()).raw("m1", m1.describe()).str();
    const LD kappa = std::max(std::max(mean_kappa(m0), mean_kappa(m1)), mean_kappa(m2));
    auto mkv = [&](const std::vector<double>& v) { return vl::make_dv<DT, IT>(v); };
    auto last_unit = [&](const UnitModel& u) { return [&c, &u](const std::string& op, int call, const std::vector<DT>&, const std::vector<DT>& got, int& budget) { check_unit_entries<DT>(c, op, call, got, u, budget); }; };
    auto last_mean = [&](const MeanModel& m) { return [&c, &m](const std::string& op, int call, const std::vector<DT>& before, const std::vector<DT>& got, int& budget) { check_mean<DT>(c, op, call, before, got, m, false, budget); }; };
    const std::string base = which == 5 ? "filtersequence_mix" : "filterchain_mix";
    c.set_op(base + ".construct");
    switch(which)
    {
    case 0: { FilterChain<UF, MF> f(make_unit<DT, IT>(rng, u0, int(rng.below(3))), make_mean<DT, IT>(m0)); run_mix<DT>(c, base, f, n, n, vstyle, false, kappa, mkv, last_mean(m0)); break; }
    case 1: { FilterChain<MF, UF> f(make_mean<DT, IT>(m0), make_unit<DT, IT>(rng, u0, int(rng.below(3)))); run_mix<DT>(c, base, f, n, n, vstyle, false, kappa, mkv, last_unit(u0)); break; }
    case 2: { FilterChain<UF, MF, UF> f; f.template at<0>() = make_unit<DT, IT>(rng, u0, int(rng.below(3))); f.template at<1>() = make_mean<DT, IT>(m0); f.template at<2>() = make_unit<DT, IT>(rng, u1, int(rng.below(3)));
        run_mix<DT>(c, base, f, n, n, vstyle, false, kappa, mkv, last_unit(u1)); break; }
    case 3: { FilterSequence<UF> s; s.find_or_add("a") = make_unit<DT, IT>(rng, u0, int(rng.below(3))); if(rng.coin(0.6)) s.find_or_add("b") = make_unit<DT, IT>(rng, u1, int(rng.below(3)));
        FilterChain<FilterSequence<UF>, MF> f(std::move(s), make_mean<DT, IT>(m0)); run_mix<DT>(c, base, f, n, n, vstyle, false, kappa, mkv, last_mean(m0)); break; }
    case 4: { FilterChain<MF, MF> f(make_mean<DT, IT>(m0), make_mean<DT, IT>(m1)); run_mix<DT>(c, base, f, n, n, vstyle, false, kappa, mkv, last_mean(m1)); break; }
    case 5: { FilterSequence<MF> f; f.find_or_add("m0") = make_mean<DT, IT>(m0); f.find_or_add("m1") = make_mean<DT, IT>(m1); const bool three = rng.coin(0.5); if(three) f.find_or_add("m2") = make_mean<DT, IT>(m2);
        if(three) run_mix<DT>(c, base, f, n, n, vstyle, false, kappa, mkv, last_mean(m2)); else run_mix<DT>(c, base, f, n, n, vstyle, false, kappa, mkv, last_mean(m1)); break; }
    default: { FilterChain<UF, MF, MF> f; f.template at<0>() = make_unit<DT, IT>(rng, u0, int(rng.below(3))); f.template at<1>() = make_mean<DT, IT>(m0); f.template at<2>() = make_mean<DT, IT>(m1);
        run_mix<DT>(c, base, f, n, n, vstyle, false, kappa, mkv, last_mean(m1)); break; }
    }
  }

  // blocked mixes: 0 chain<slip,unitblocked,meanblocked> 1 chain<meanblocked,unitblocked> 2 chain<meanblocked,slip> 3 chain<unitblocked,meanblocked,slip>
  template<typename DT, typename IT, int BS>
  void mix_blocked_case(vh::Ctx& c, int which)
  {
    typedef UnitFilterBlocked<DT, IT, BS> UB; typedef MeanFilterBlocked<DT, IT, BS> MB; typedef SlipFilter<DT, IT, BS> SF; typedef DenseVectorBlocked<DT, IT, BS> Vec;
    vh::Rng& rng = c.rng;
    const Index n = pick_size(rng, false); const int vstyle = int(rng.pick<int>({0, 1}));
    std::string k0, ks, km;
    UnitModel u0 = gen_unit_n(rng, n, BS, vstyle, k0); SlipModel s0 = gen_slip(rng, n, BS, vstyle, ks); MeanModel m0 = gen_mean(rng, n, BS, km);
    static const char* nm[] = {"mix:chain(slip,unitblocked,meanblocked)", "mix:chain(meanblocked,unitblocked)", "mix:chain(meanblocked,slip)", "mix:chain(unitblocked,meanblocked,slip)"};
    common_tags(c, n, vl::dt_name<DT>(), vl::it_name<IT>()); c.tag(nm[which]); c.tag("bs:" + std::to_string(BS)); c.tag(km);
    c.desc = vh::J().kv("mix", nm[which]).raw("unit", u0.describe()).raw("slip", s0.describe()).raw("mean", m0.describe()).str();
    const LD kappa = mean_kappa(m0) * 4.0L;
    auto mkv = [&](const std::vector<double>& v) { Vec x(n); fill(x, v); return x; };
    auto last_unit = [&](const std::string& op, int call, const std::vector<DT>&, const std::vector<DT>& got, int& budget) { check_unit_entries<DT>(c, op, call, got, u0, budget); };
    auto last_mean = [&](const std::string& op, int call, const std::vector<DT>& before, const std::vector<DT>& got, int& budget) { check_mean<DT>(c, op, call, before, got, m0, false, budget); };
    std::vector<char> all(std::size_t(n) * BS, 1);
    auto last_slip = [&](const std::string& op, int, const std::vector<DT>& before, const std::vector<DT>& got, int& budget) { check_slip<DT>(c, op, before, before, got, s0, false, budget, &all); };
    c.set_op("filterchain_mix.construct");
    switch(which)
    {
    case 0: { FilterChain<SF, UB, MB> f; f.template at<0>() = make_slip<DT, IT, BS>(rng, s0, false); f.template at<1>() = make_unit_blocked<DT, IT, BS>(rng, u0, int(rng.below(3)), false); f.template at<2>() = make_mean_blocked<DT, IT, BS>(m0);
        run_mix<DT>(c, "filterchain_mix", f, std::size_t(n) * BS, n, vstyle, false, kappa, mkv, last_mean); break; }
    case 1: { FilterChain<MB, UB> f(make_mean_blocked<DT, IT, BS>(m0), make_unit_blocked<DT, IT, BS>(rng, u0, int(rng.below(3)), false));
        run_mix<DT>(c, "filterchain_mix", f, std::size_t(n) * BS, n, vstyle, false, kappa, mkv, last_unit); break; }
    case 2: { FilterChain<MB, SF> f(make_mean_blocked<DT, IT, BS>(m0), make_slip<DT, IT, BS>(rng, s0, false));
        run_mix<DT>(c, "filterchain_mix", f, std::size_t(n) * BS, n, vstyle, false, kappa, mkv, last_slip); break; }
    default: { FilterChain<UB, MB, SF> f; f.template at<0>() = make_unit_blocked<DT, IT, BS>(rng, u0, int(rng.below(3)), false); f.template at<1>() = make_mean_blocked<DT, IT, BS>(m0); f.template at<2>() = make_slip<DT, IT, BS>(rng, s0, false);
        run_mix<DT>(c, "filterchain_mix", f, std::size_t(n) * BS, n, vstyle, false, kappa, mkv, last_slip); break; }
    }
  }

  // tuple / power filters with chains and mean filters as components, judged component-wise
  //   0 TupleFilter<MF,UF,MF>  1 PowerFilter<MF,2>  2 PowerFilter<FilterChain<UF,MF>,2>  3 TupleFilter<FilterChain<UF,MF>,FilterChain<MF,UF>>
  template<typename DT, typename IT>
  void mix_meta_case(vh::Ctx& c, int which)
  {
    typedef UnitFilter<DT, IT> UF; typedef MeanFilter<DT, IT> MF; typedef DenseVector<DT, IT> SV;
    vh::Rng& rng = c.rng;
    const Index n = pick_size(rng, false); const int vstyle = int(rng.pick<int>({0, 1, 3}));
    std::string k0, k1, km0, km1;
    UnitModel u0 = gen_unit_n(rng, n, 1, vstyle, k0), u1 = gen_unit_n(rng, n, 1, vstyle, k1);
    MeanModel m0 = gen_mean(rng, n, 1, km0), m1 = gen_mean(rng, n, 1, km1);
    static const char* nm[] = {"mix:tuple(mean,unit,mean)", "mix:power(mean)^2", "mix:power(chain(unit,mean))^2", "mix:tuple(chain(unit,mean),chain(mean,unit))"};
    common_tags(c, n, vl::dt_name<DT>(), vl::it_name<IT>()); c.tag(nm[which]); c.tag(km0);
    c.desc = vh::J().kv("mix", nm[which]).raw("u0", u0.describe()).raw("u1", u1.describe()).raw("m0", m0.describe()).raw("m1", m1.describe()).str();
    const LD kappa = std::max(mean_kappa(m0), mean_kappa(m1));
    int budget = 6;
    auto body = [&](const std::string& base, auto& f, auto make_vec)
    {
      for(int call = 0; call < 4; ++call)
      {
        const std::string op = base + "." + call_name(call);
        std::vector<std::vector<double>> vals; for(int q = 0; q < 3; ++q) vals.push_back(vl::gen_vec(rng, n, vstyle));
        auto v = make_vec(vals); auto r = make_vec(vals);
        std::vector<DT> orig; snap_into(v, orig);
        Steps<DT> st; comp_apply(f, r, call, st);
        c.set_op(op); apply(f, v, call); c.event();
        std::vector<DT> got, ref; snap_into(v, got); snap_into(r, ref);
        check_composition<DT>(c, op, got, ref, steps_scale(orig, st) * kappa, n, false, budget);
      }
    };
    c.set_op("metafilter_mix.construct");
    if(which == 0)
    {
      typedef TupleFilter<MF, UF, MF> TF; typedef TupleVector<SV, SV, SV> TV;
      TF f; f.template at<0>() = make_mean<DT, IT>(m0); f.template at<1>() = make_unit<DT, IT>(rng, u0, int(rng.below(3))); f.template at<2>() = make_mean<DT, IT>(m1);
      body("tuplefilter_mix", f, [&](const std::vector<std::vector<double>>& d) { TV t; t.template at<0>() = vl::make_dv<DT, IT>(d[0]); t.template at<1>() = vl::make_dv<DT, IT>(d[1]); t.template at<2>() = vl::make_dv<DT, IT>(d[2]); return t; });
    }
    else if(which == 1)
    {
      typedef PowerFilter<MF, 2> PF; typedef PowerVector<SV, 2> PV;
      PF f; f.template at<0>() = make_mean<DT, IT>(m0); f.template at<1>() = make_mean<DT, IT>(m1);
      body("powerfilter_mix", f, [&](const std::vector<std::vector<double>>& d) { PV t; t.template at<0>() = vl::make_dv<DT, IT>(d[0]); t.template at<1>() = vl::make_dv<DT, IT>(d[1]); return t; });
    }
    else if(which == 2)
    {
      typedef FilterChain<UF, MF> CF; typedef PowerFilter<CF, 2> PF; typedef PowerVector<SV, 2> PV;
      PF f; f.template at<0>() = CF(make_unit<DT, IT>(rng, u0, int(rng.below(3))), make_mean<DT, IT>(m0)); f.template at<1>() = CF(make_unit<DT, IT>(rng, u1, int(rng.below(3))), make_mean<DT, IT>(m1));
      body("powerfilter_mix", f, [&](const std::vector<std::vector<double>>& d) { PV t; t.template at<0>() = vl::make_dv<DT, IT>(d[0]); t.template at<1>() = vl::make_dv<DT, IT>(d[1]); return t; });
    }
    else
    {
      typedef FilterChain<UF, MF> C0; typedef FilterChain<MF, UF> C1; typedef TupleFilter<C0, C1> TF; typedef TupleVector<SV, SV> TV;
      TF f; f.template at<0>() = C0(make_unit<DT, IT>(rng, u0, int(rng.below(3))), make_mean<DT, IT>(m0)); f.template at<1>() = C1(make_mean<DT, IT>(m1), make_unit<DT, IT>(rng, u1, int(rng.below(3))));
      body("tuplefilter_mix", f, [&](const std::vector<std::vector<double>>& d) { TV t; t.template at<0>() = vl::make_dv<DT, IT>(d[0]); t.template at<1>() = vl::make_dv<DT, IT>(d[1]); return t; });
    }
  }
} // namespace c06
