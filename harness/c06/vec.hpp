// vec.hpp -- C06 vector monitors of the elementary filters (UnitFilter, UnitFilterBlocked, SlipFilter, MeanFilter,
// MeanFilterBlocked).  Included by the instantiating TUs only.
#pragma once
#include "c06.hpp"

namespace c06
{
  // deterministic edge corpus: all sizes of the list x {empty, all, first, last}
  inline std::size_t vec_edge_size() { return 15 * 4; }
  inline void edge_or_random(vh::Ctx& c, long edge, bool zero_ok, Index& n, int& forced_set)
  {
    static const Index sz[] = {0, 1, 2, 3, 4, 5, 7, 8, 9, 15, 16, 17, 31, 33, 100};
    forced_set = -1;
    if(edge >= 0) { n = sz[edge % 15]; forced_set = int((edge / 15) % 4); if(n == 0 && !zero_ok) n = 1; c.tag("edge_corpus"); }
    else n = pick_size(c.rng, zero_ok);
  }
  inline std::vector<Index> indices_for(vh::Rng& r, Index n, int forced_set, std::string& kind)
  {
    if(forced_set < 0 || n == 0) return pick_indices(r, n, kind);
    std::vector<Index> s;
    switch(forced_set)
    {
    case 0: kind = "set:empty"; break;
    case 1: kind = "set:all"; for(Index i = 0; i < n; ++i) s.push_back(i); break;
    case 2: kind = "set:first"; s.push_back(0); break;
    default: kind = "set:last"; s.push_back(n - 1); break;
    }
    return s;
  }
  inline std::string size_tag(Index n) { return n == 0 ? "size0" : (n == 1 ? "n==1" : (n <= 9 ? "n<=9" : (n <= 33 ? "n<=33" : "n==100"))); }

  // applies the four filter calls (twice each) to fresh vectors and hands the snapshots to `check`
  template<typename DT, typename Filter, typename MakeVec, typename Check>
  void run_calls(vh::Ctx& c, const std::string& opbase, const Filter& f, std::size_t npod, int vstyle, MakeVec make_vec, Check check)
  {
    for(int call = 0; call < 4; ++call)
    {
      const std::string op = opbase + "." + call_name(call);
      std::vector<double> vals = vl::gen_vec(c.rng, Index(npod), vstyle);
      auto v = make_vec(vals);
      std::vector<DT> orig = snapshot(v);
      c.set_op(op);
      apply(f, v, call); c.event();
      std::vector<DT> a1 = snapshot(v);
      check(op, call, orig, orig, a1, false);
      apply(f, v, call); c.event();
      std::vector<DT> a2 = snapshot(v);
      check(op, call, orig, a1, a2, true);
    }
  }

  // ------------------------------------------------------------------ UnitFilter
  template<typename DT, typename IT>
  void unit_vec_case(vh::Ctx& c, long edge)
  {
    typedef DenseVector<DT, IT> Vec;
    vh::Rng& rng = c.rng;
    Index n; int fs; edge_or_random(c, edge, true, n, fs);
    const int vstyle = int(rng.below(4));
    std::string kind, ctor;
    UnitModel m; m.n = n; m.bs = 1; m.idx = indices_for(rng, n, fs, kind);
    m.val.resize(m.idx.size()); for(auto& v : m.val) v = vl::gen_value(rng, vstyle);
    c.tag(kind); c.tag(size_tag(n)); c.tag(std::string("dt:") + vl::dt_name<DT>()); c.tag(std::string("it:") + vl::it_name<IT>());
    c.desc = m.describe();
    c.set_op("unitfilter.construct");
    const bool use_default = m.idx.empty() && rng.coin(0.2);
    UnitFilter<DT, IT> f0;
    UnitFilter<DT, IT> f1 = make_unit<DT, IT>(rng, m, int(rng.below(3)), &ctor);
    if(use_default) ctor = "ctor:default";
    const UnitFilter<DT, IT>& f = use_default ? f0 : f1;
    c.tag(ctor);
    int budget = 6;
    run_calls<DT>(c, "unitfilter", f, std::size_t(n), vstyle,
      [&](const std::vector<double>& v) { return vl::make_dv<DT, IT>(v); },
      [&](const std::string& op, int call, const std::vector<DT>&, const std::vector<DT>& before, const std::vector<DT>& after, bool second)
      {
        check_unit<DT>(c, op, call, before, after, m, budget);
        if(second) check_same_bits<DT>(c, op, "not-idempotent", before, after, budget);
      });
    if(!use_default) check_filter_intact(c, "unitfilter.filter", f1, m.idx, m.val, 1);
  }

  // ------------------------------------------------------------------ UnitFilterBlocked
  template<typename DT, typename IT, int BS>
  void ublk_vec_case(vh::Ctx& c, long edge)
  {
    typedef DenseVectorBlocked<DT, IT, BS> Vec;
    vh::Rng& rng = c.rng;
    Index n; int fs; edge_or_random(c, edge, true, n, fs);
    const int vstyle = int(rng.below(4));
    const bool ign = rng.coin(0.3);
    std::string kind, ctor;
    UnitModel m; m.n = n; m.bs = BS; m.idx = indices_for(rng, n, fs, kind);
    m.val.resize(m.idx.size() * std::size_t(BS));
    for(auto& v : m.val) v = (ign && rng.coin(0.3)) ? std::nan("") : vl::gen_value(rng, vstyle);
    c.tag(kind); c.tag(size_tag(n)); c.tag("bs:" + std::to_string(BS)); c.tag(ign ? "ignore_nans:1" : "ignore_nans:0");
    c.tag(std::string("dt:") + vl::dt_name<DT>()); c.tag(std::string("it:") + vl::it_name<IT>());
    c.desc = m.describe();
    // The (size, values, indices) constructor has to initialise every member.  The filter is built in storage pre-filled
    // with 0xAA and used once, in a child process: a member that the constructor leaves unset is then read as garbage
    // (UBSan: invalid bool) deterministically instead of depending on what the stack happened to hold.
    const bool poisoned = !m.idx.empty() && !ign && rng.coin(0.15);
    if(poisoned) c.tag("ctor:arrays_in_poisoned_storage");
    if(poisoned)
    {
      typedef UnitFilterBlocked<DT, IT, BS> F;
      c.set_op("unitfilterblocked.ctor_arrays");
      probe(c, "unitfilterblocked.ctor_arrays", [&]
      {
        alignas(F) static unsigned char buf[sizeof(F)];
        std::memset(buf, 0xAA, sizeof(buf));
        DenseVectorBlocked<DT, IT, BS> v(Index(m.idx.size())); DenseVector<IT, IT> ix(Index(m.idx.size()));
        DT* e = pod(v);
        for(std::size_t q = 0; q < m.val.size(); ++q) e[q] = DT(m.val[q]);
        for(Index i = 0; i < Index(m.idx.size()); ++i) ix(i, IT(m.idx[i]));
        F* pf = new(buf) F(m.n, v, ix);
        Vec x(n, DT(1));
        pf->filter_rhs(x); pf->filter_def(x);
        pf->~F();
      });
      c.event();
    }
    c.set_op("unitfilterblocked.construct");
    const bool use_default = m.idx.empty() && rng.coin(0.2);
    UnitFilterBlocked<DT, IT, BS> f0;
    UnitFilterBlocked<DT, IT, BS> f1 = make_unit_blocked<DT, IT, BS>(rng, m, int(rng.below(3)), ign, &ctor);
    if(use_default) ctor = "ctor:default";
    const UnitFilterBlocked<DT, IT, BS>& f = use_default ? f0 : f1;
    c.tag(ctor);
    int budget = 6;
    run_calls<DT>(c, "unitfilterblocked", f, std::size_t(n) * BS, vstyle,
      [&](const std::vector<double>& v) { Vec x(n); fill(x, v); return x; },
      [&](const std::string& op, int call, const std::vector<DT>&, const std::vector<DT>& before, const std::vector<DT>& after, bool second)
      {
        check_unit<DT>(c, op, call, before, after, m, budget);
        if(second) check_same_bits<DT>(c, op, "not-idempotent", before, after, budget);
      });
    if(!use_default) check_filter_intact(c, "unitfilterblocked.filter", f1, m.idx, m.val, BS);
  }

  // ------------------------------------------------------------------ SlipFilter
  template<typename DT, typename IT, int BS>
  void slip_vec_case(vh::Ctx& c, long edge)
  {
    typedef DenseVectorBlocked<DT, IT, BS> Vec;
    vh::Rng& rng = c.rng;
    Index n; int fs; edge_or_random(c, edge, true, n, fs);
    const int vstyle = int(rng.below(4));
    std::string kind;
    SlipModel m = gen_slip(rng, n, BS, vstyle == 3 ? 1 : vstyle, kind);
    if(fs >= 0) { std::string k2; std::vector<Index> want = indices_for(rng, n, fs, k2); SlipModel m2 = m; m2.idx = want; m2.nu.clear();
      for(std::size_t i = 0; i < want.size(); ++i) for(int k = 0; k < BS; ++k) m2.nu.push_back(k == int(i % BS) ? 1.0 : (i % 2 ? 0.5 : 0.0)); m = m2; kind = k2; }
    c.tag(kind); c.tag(size_tag(n)); c.tag("bs:" + std::to_string(BS));
    c.tag(std::string("dt:") + vl::dt_name<DT>()); c.tag(std::string("it:") + vl::it_name<IT>());
    c.desc = m.describe();
    c.set_op("slipfilter.construct");
    const bool use_default = m.idx.empty() && rng.coin(0.2);
    const bool cl = rng.coin(0.3);
    SlipFilter<DT, IT, BS> f0;
    SlipFilter<DT, IT, BS> f1 = make_slip<DT, IT, BS>(rng, m, cl);
    const SlipFilter<DT, IT, BS>& f = use_default ? f0 : f1;
    c.tag(use_default ? "ctor:default" : (cl ? "ctor:clone" : "ctor:add"));
    int budget = 6;
    run_calls<DT>(c, "slipfilter", f, std::size_t(n) * BS, vstyle,
      [&](const std::vector<double>& v) { Vec x(n); fill(x, v); return x; },
      [&](const std::string& op, int, const std::vector<DT>& orig, const std::vector<DT>& before, const std::vector<DT>& after, bool second)
      { check_slip<DT>(c, op, orig, before, after, m, second, budget); });
    if(!use_default) check_filter_intact(c, "slipfilter.filter", f1, m.idx, m.nu, BS);
  }

  // ------------------------------------------------------------------ MeanFilter / MeanFilterBlocked
  template<typename DT, typename IT>
  void mean_vec_case(vh::Ctx& c, long edge)
  {
    typedef DenseVector<DT, IT> Vec;
    vh::Rng& rng = c.rng;
    Index n; int fs; edge_or_random(c, edge, false, n, fs);
    const int vstyle = int(rng.below(4)) == 2 ? 1 : int(rng.below(4));
    std::string kind;
    MeanModel m = gen_mean(rng, n, 1, kind);
    const bool use_default = rng.coin(0.08);
    const int how = int(rng.below(3));   // 0: volume computed by the filter, 1: volume handed in, 2: clone
    c.tag(kind); c.tag(size_tag(n)); c.tag(std::string("dt:") + vl::dt_name<DT>()); c.tag(std::string("it:") + vl::it_name<IT>());
    c.tag(use_default ? "ctor:default" : (how == 0 ? "ctor:dot" : (how == 1 ? "ctor:volume" : "ctor:clone")));
    if(m.sol_mean[0] != 0.0) c.tag("sol_mean!=0");
    c.desc = m.describe();
    LD vol = 0; for(Index i = 0; i < n; ++i) vol += (LD)DT(m.prim[i]) * (LD)DT(m.dual[i]);
    c.set_op("meanfilter.construct");
    MeanFilter<DT, IT> f0;
    MeanFilter<DT, IT> fa = how == 1 ? MeanFilter<DT, IT>(vl::make_dv<DT, IT>(m.prim), vl::make_dv<DT, IT>(m.dual), DT(m.sol_mean[0]), DT(vol))
                                    : MeanFilter<DT, IT>(vl::make_dv<DT, IT>(m.prim), vl::make_dv<DT, IT>(m.dual), DT(m.sol_mean[0]));
    MeanFilter<DT, IT> fb = how == 2 ? fa.clone(CloneMode::Deep) : MeanFilter<DT, IT>();
    const MeanFilter<DT, IT>& f = use_default ? f0 : (how == 2 ? fb : fa);
    const std::uint64_t hp = vl::container_hash(fa.get_vec_prim()), hd = vl::container_hash(fa.get_vec_dual());
    int budget = 6;
    run_calls<DT>(c, "meanfilter", f, std::size_t(n), vstyle,
      [&](const std::vector<double>& v) { return vl::make_dv<DT, IT>(v); },
      [&](const std::string& op, int call, const std::vector<DT>& orig, const std::vector<DT>& before, const std::vector<DT>& after, bool second)
      {
        if(use_default) check_same_bits<DT>(c, op, "complement-modified", before, after, budget);   // empty filter: nothing is constrained
        else check_mean<DT>(c, op, call, orig, after, m, second, budget);
      });
    c.event();
    if(vl::container_hash(fa.get_vec_prim()) != hp || vl::container_hash(fa.get_vec_dual()) != hd) c.viol("meanfilter.filter", "filter-modified", "{}");
  }

  template<typename DT, typename IT, int BS>
  void meanblk_vec_case(vh::Ctx& c, long edge)
  {
    typedef DenseVectorBlocked<DT, IT, BS> Vec;
    typedef Tiny::Vector<DT, BS> VT;
    vh::Rng& rng = c.rng;
    Index n; int fs; edge_or_random(c, edge, false, n, fs);
    const int vstyle = int(rng.below(4)) == 2 ? 1 : int(rng.below(4));
    std::string kind;
    MeanModel m = gen_mean(rng, n, BS, kind);
    const bool use_default = rng.coin(0.08);
    const int how = int(rng.below(3));
    c.tag(kind); c.tag(size_tag(n)); c.tag("bs:" + std::to_string(BS)); c.tag(std::string("dt:") + vl::dt_name<DT>()); c.tag(std::string("it:") + vl::it_name<IT>());
    c.tag(use_default ? "ctor:default" : (how == 0 ? "ctor:dot" : (how == 1 ? "ctor:volume" : "ctor:clone")));
    c.desc = m.describe();
    VT sm, vol;
    for(int k = 0; k < BS; ++k)
    {
      sm[k] = DT(m.sol_mean[std::size_t(k)]);
      LD v = 0; for(Index i = 0; i < n; ++i) v += (LD)DT(m.prim[std::size_t(i) * BS + std::size_t(k)]) * (LD)DT(m.dual[std::size_t(i) * BS + std::size_t(k)]);
      vol[k] = DT(v);
    }
    auto mk = [&](const std::vector<double>& v) { Vec x(n); fill(x, v); return x; };
    c.set_op("meanfilterblocked.construct");
    MeanFilterBlocked<DT, IT, BS> f0;
    MeanFilterBlocked<DT, IT, BS> fa = how == 1 ? MeanFilterBlocked<DT, IT, BS>(mk(m.prim), mk(m.dual), sm, vol) : MeanFilterBlocked<DT, IT, BS>(mk(m.prim), mk(m.dual), sm);
    MeanFilterBlocked<DT, IT, BS> fb = how == 2 ? fa.clone(CloneMode::Deep) : MeanFilterBlocked<DT, IT, BS>();
    const MeanFilterBlocked<DT, IT, BS>& f = use_default ? f0 : (how == 2 ? fb : fa);
    const std::uint64_t hp = vl::container_hash(fa.get_vec_prim()), hd = vl::container_hash(fa.get_vec_dual());
    int budget = 6;
    run_calls<DT>(c, "meanfilterblocked", f, std::size_t(n) * BS, vstyle, mk,
      [&](const std::string& op, int call, const std::vector<DT>& orig, const std::vector<DT>& before, const std::vector<DT>& after, bool second)
      {
        if(use_default) check_same_bits<DT>(c, op, "complement-modified", before, after, budget);
        else check_mean<DT>(c, op, call, orig, after, m, second, budget);
      });
    c.event();
    if(vl::container_hash(fa.get_vec_prim()) != hp || vl::container_hash(fa.get_vec_dual()) != hd) c.viol("meanfilterblocked.filter", "filter-modified", "{}");
  }

  // one entry point per (DT, IT): sel picks the filter kind / block size
  //   0 UnitFilter, 1-3 UnitFilterBlocked<2,3,4>, 4-5 SlipFilter<2,3>, 6 MeanFilter, 7-8 MeanFilterBlocked<2,3>
  template<typename DT, typename IT>
  void vec_dispatch(vh::Ctx& c, long edge, int sel)
  {
    switch(sel)
    {
    case 0: unit_vec_case<DT, IT>(c, edge); break;
    case 1: ublk_vec_case<DT, IT, 2>(c, edge); break;
    case 2: ublk_vec_case<DT, IT, 3>(c, edge); break;
    case 3: ublk_vec_case<DT, IT, 4>(c, edge); break;
    case 4: slip_vec_case<DT, IT, 2>(c, edge); break;
    case 5: slip_vec_case<DT, IT, 3>(c, edge); break;
    case 6: mean_vec_case<DT, IT>(c, edge); break;
    case 7: meanblk_vec_case<DT, IT, 2>(c, edge); break;
    default: meanblk_vec_case<DT, IT, 3>(c, edge); break;
    }
  }
} // namespace c06
