// explicit instantiation of the derived-filter dispatcher for <double, std::uint32_t>
#include "derived.hpp"
namespace c06 { namespace drv { template void derived_dispatch<double, std::uint32_t>(vh::Ctx&, long, int); } }
