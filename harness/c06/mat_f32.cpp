// explicit instantiation of the matrix-monitor dispatcher for <float, std::uint32_t>
#include "mat.hpp"
namespace c06 { template void mat_dispatch<float, std::uint32_t>(vh::Ctx&, long, int); }
