// mat.hpp -- C06 matrix monitors: UnitFilter on SparseMatrixCSR (+ filter_offdiag_row_mat on BCSR<1,w>/<h,1>),
// UnitFilterBlocked on SparseMatrixBCSR; identity rows / untouched rows / idempotence / dense solve of the filtered system.
#pragma once
#include "vec.hpp"

namespace c06
{
  // ------------------------------------------------------------------ pattern generator with prescribed dimensions
  inline MatSpec gen_pattern(vh::Rng& r, Index rows, Index cols, int vstyle, bool allow_entry_free, bool force_diag)
  {
    MatSpec m; m.rows = rows; m.cols = cols; m.vstyle = vstyle;
    int pat = int(r.below(10));
    if(pat == 0 && (!allow_entry_free || force_diag || r.coin(0.5))) pat = 3;   // entry-free in ~5% of the matrices
    auto val = [&]() { return vl::gen_value(r, vstyle); };
    switch(pat)
    {
    case 0: m.pattern = "entry_free"; break;
    case 1: m.pattern = "diagonal"; for(Index i = 0; i < std::min(rows, cols); ++i) m.t.push_back({i, i, val()}); break;
    case 2: { m.pattern = "banded"; long bw = r.range(0, 3);
        for(Index i = 0; i < rows; ++i) for(long d = -bw; d <= bw; ++d) { long j = long(i) + d; if(j >= 0 && j < long(cols)) m.t.push_back({i, Index(j), val()}); } break; }
    case 3: case 4: case 5: { double dens = r.pick<double>({0.1, 0.3, 0.8}); m.pattern = "uniform";
        for(Index i = 0; i < rows; ++i) for(Index j = 0; j < cols; ++j) if(r.coin(dens)) m.t.push_back({i, j, val()}); break; }
    case 6: m.pattern = "full"; for(Index i = 0; i < rows; ++i) for(Index j = 0; j < cols; ++j) m.t.push_back({i, j, val()}); break;
    case 7: { m.pattern = "empty_rows"; for(Index i = 0; i < rows; ++i) if(r.coin(0.6)) for(Index j = 0; j < cols; ++j) if(r.coin(0.5)) m.t.push_back({i, j, val()}); break; }
    case 8: { m.pattern = "offdiag_only"; for(Index i = 0; i < rows; ++i) for(Index j = 0; j < cols; ++j) if(i != j && r.coin(0.4)) m.t.push_back({i, j, val()}); break; }
    default: { m.pattern = "single_entry_rows"; for(Index i = 0; i < rows; ++i) if(r.coin(0.7)) m.t.push_back({i, Index(r.below(cols)), val()}); break; }
    }
    m.sort_unique();
    if(force_diag)
    {
      for(Index i = 0; i < std::min(rows, cols); ++i)
      {
        bool found = false; for(auto& e : m.t) if(e.r == i && e.c == i) found = true;
        if(!found) m.t.push_back({i, i, 1.0});
      }
      m.sort_unique();
    }
    m.classify();
    return m;
  }
  // makes a square spec strictly diagonally dominant by rows (all diagonal entries must be stored)
  inline void make_dominant(vh::Rng& r, MatSpec& m)
  {
    std::vector<LD> off(m.rows, 0.0L);
    for(auto& e : m.t) if(e.r != e.c) off[e.r] += std::fabs((LD)e.v);
    for(auto& e : m.t) if(e.r == e.c) e.v = double(float((r.coin(0.5) ? 1.0 : -1.0) * (double(off[e.r]) * r.real(1.5, 3.0) + r.real(0.5, 2.0))));
  }
  // dense Gaussian elimination with partial pivoting in long double; returns false if singular
  inline bool dense_solve(std::vector<LD> a, std::vector<LD> b, Index n, std::vector<LD>& x)
  {
    for(Index k = 0; k < n; ++k)
    {
      Index p = k; for(Index i = k + 1; i < n; ++i) if(std::fabs(a[std::size_t(i) * n + k]) > std::fabs(a[std::size_t(p) * n + k])) p = i;
      if(a[std::size_t(p) * n + k] == 0.0L) return false;
      if(p != k) { for(Index j = 0; j < n; ++j) std::swap(a[std::size_t(p) * n + j], a[std::size_t(k) * n + j]); std::swap(b[p], b[k]); }
      for(Index i = k + 1; i < n; ++i)
      {
        const LD f = a[std::size_t(i) * n + k] / a[std::size_t(k) * n + k];
        if(f == 0.0L) continue;
        for(Index j = k; j < n; ++j) a[std::size_t(i) * n + j] -= f * a[std::size_t(k) * n + j];
        b[i] -= f * b[k];
      }
    }
    x.assign(n, 0.0L);
    for(Index ii = n; ii > 0; --ii)
    {
      const Index i = ii - 1; LD s = b[i];
      for(Index j = i + 1; j < n; ++j) s -= a[std::size_t(i) * n + j] * x[j];
      x[i] = s / a[std::size_t(i) * n + i];
    }
    return true;
  }
  template<typename Cont> std::uint64_t index_hash(const Cont& a)
  {
    typedef typename Cont::IndexType IT;
    std::uint64_t h = 1469598103934665603ull;
    const auto& in = a.get_indices(); const auto& is = a.get_indices_size();
    for(std::size_t i = 0; i < in.size(); ++i) if(in[i] && is[i]) h = vh::hash_bytes(in[i], is[i] * sizeof(IT), h);
    const auto& sc = a.get_scalar_index();
    for(auto v : sc) { std::uint64_t q = v; h = vh::hash_bytes(&q, sizeof(q), h); }
    return h;
  }

  // ------------------------------------------------------------------ generic row monitors on a scalar image
  // `pos[p]` = (scalar row, scalar col) of stored value p ; con_row[i] != 0 : scalar row i is constrained
  // mode 0: identity rows (rows listed in ident_ok only; the others are not judged), 1: zero rows, 2: scaled donor rows
  struct RowJudge
  {
    std::vector<std::pair<Index, Index>> pos;
    std::vector<char> con_row, ident_ok;
    std::vector<double> row_val;      // prescribed value of a constrained scalar row (weak rows)
  };
  template<typename DT>
  void judge_rows(vh::Ctx& c, const std::string& op, int mode, const RowJudge& J, const std::vector<DT>& before, const std::vector<DT>& after,
                  const std::vector<double>* donor, int& budget)
  {
    c.event();
    if(before.size() != after.size() || before.size() != J.pos.size()) { c.viol(op, "dims", "{}"); return; }
    for(std::size_t p = 0; p < before.size(); ++p)
    {
      const Index i = J.pos[p].first, j = J.pos[p].second;
      c.event();
      if(!J.con_row[i])
      {
        if(!same_bits<DT>(before[p], after[p]) && budget-- > 0)
          c.viol(op, "other-row-modified", vh::J().kv("row", (unsigned long)i).kv("col", (unsigned long)j).kv("before", (LD)before[p]).kv("after", (LD)after[p]).str());
        continue;
      }
      if(mode == 0)
      {
        if(!J.ident_ok[i]) continue;   // no stored diagonal: not judged
        const DT want = i == j ? DT(1) : DT(0);
        if(!(after[p] == want) && budget-- > 0)
          c.viol(op, "not-identity-row", vh::J().kv("row", (unsigned long)i).kv("col", (unsigned long)j).kv("got", (LD)after[p]).kv("expected", (LD)want).str());
      }
      else if(mode == 1)
      {
        if(!(after[p] == DT(0)) && budget-- > 0)
          c.viol(op, "row-not-zero", vh::J().kv("row", (unsigned long)i).kv("col", (unsigned long)j).kv("got", (LD)after[p]).str());
      }
      else
      {
        const LD ref = (LD)DT(J.row_val[i]) * (LD)DT((*donor)[p]);
        if(!vl::close_enough<DT>((LD)after[p], ref, std::fabs(ref), 1) && budget-- > 0)
          c.viol(op, "wrong-value", vh::J().kv("row", (unsigned long)i).kv("col", (unsigned long)j).kv("got", (LD)after[p]).kv("expected", ref).str());
      }
    }
  }

  // ------------------------------------------------------------------ UnitFilter on CSR
  template<typename DT, typename IT>
  void unit_mat_csr_case(vh::Ctx& c, long edge)
  {
    typedef SparseMatrixCSR<DT, IT> Mat;
    vh::Rng& rng = c.rng;
    Index n; int fs; edge_or_random(c, edge, false, n, fs);
    const bool solve = edge < 0 ? rng.coin(0.35) : (edge % 2 == 0);
    const bool squarem = solve || rng.coin(0.6);
    const Index cols = squarem ? n : pick_size(rng, false);
    const int vstyle = solve ? int(rng.pick<int>({0, 1, 3})) : int(rng.below(4));
    std::string kind, ctor;
    UnitModel um; um.n = n; um.bs = 1; um.idx = indices_for(rng, n, fs, kind);
    um.val.resize(um.idx.size()); for(auto& v : um.val) v = vl::gen_value(rng, vstyle);
    MatSpec m = gen_pattern(rng, n, cols, vstyle, true, solve);
    if(solve) make_dominant(rng, m);
    for(auto& t : m.tags) c.tag(t);
    c.tag(kind); c.tag(size_tag(n)); if(solve) c.tag("solve");
    c.tag(std::string("dt:") + vl::dt_name<DT>()); c.tag(std::string("it:") + vl::it_name<IT>());
    c.desc = vh::J().raw("filter", um.describe()).raw("matrix", m.describe(40)).str();
    const bool risky = m.t.empty() && !um.idx.empty();
    UnitFilter<DT, IT> f = make_unit<DT, IT>(rng, um, int(rng.below(3)), &ctor);
    c.tag(ctor);
    RowJudge J; J.con_row.assign(n, 0); J.ident_ok.assign(n, 0); J.row_val.assign(n, 0.0);
    for(std::size_t q = 0; q < um.idx.size(); ++q) { J.con_row[um.idx[q]] = 1; J.row_val[um.idx[q]] = um.val[q]; }
    bool constrained_without_diag = false;
    for(auto& e : m.t) { J.pos.push_back({e.r, e.c}); if(e.r == e.c) J.ident_ok[e.r] = 1; }
    for(Index i : um.idx) if(!J.ident_ok[i]) constrained_without_diag = true;
    if(constrained_without_diag) c.tag("constrained_row_without_diag");
    int budget = 6;
    auto vals = [&](const Mat& a) { const DT* p = a.val(); return std::vector<DT>(p, p + (m.t.empty() ? 0 : m.t.size())); };
    auto run = [&](const std::string& op, const std::function<void()>& fn) -> bool
    { c.set_op(op); if(risky && !probe(c, op, fn)) return false; fn(); c.event(); return true; };

    // filter_mat
    {
      Mat a = vl::make_csr<DT, IT>(m);
      const std::uint64_t ih = index_hash(a);
      std::vector<DT> b0 = vals(a);
      if(run("unitfilter.filter_mat", [&] { f.filter_mat(a); }))
      {
        std::vector<DT> a1 = vals(a);
        judge_rows<DT>(c, "unitfilter.filter_mat", 0, J, b0, a1, nullptr, budget);
        f.filter_mat(a); c.event();
        check_same_bits<DT>(c, "unitfilter.filter_mat", "not-idempotent", a1, vals(a), budget);
        c.event(); if(index_hash(a) != ih) c.viol("unitfilter.filter_mat", "pattern-changed", "{}");
        if(solve && !constrained_without_diag)
        {
          // A_f x = b_f must reproduce the prescribed values
          std::vector<double> bv = vl::gen_vec(rng, n, vstyle);
          DenseVector<DT, IT> b = vl::make_dv<DT, IT>(bv);
          c.set_op("unitfilter.filter_rhs"); f.filter_rhs(b); c.event();
          std::vector<LD> ad(std::size_t(n) * n, 0.0L), rhs(n), x;
          for(std::size_t p = 0; p < a1.size(); ++p) ad[std::size_t(J.pos[p].first) * n + J.pos[p].second] = (LD)a1[p];
          LD scale = 1.0L; for(Index i = 0; i < n; ++i) { rhs[i] = (LD)b.elements()[i]; scale = std::max(scale, std::fabs(rhs[i])); }
          c.event();
          if(!dense_solve(ad, rhs, n, x)) c.viol("unitfilter.filter_mat", "filtered-system-singular", "{}");
          else for(std::size_t q = 0; q < um.idx.size(); ++q)
          {
            c.event(); c.count("boundary_values_checked");
            const LD want = (LD)DT(um.val[q]);
            if(!(std::fabs(x[um.idx[q]] - want) <= 1e-12L * LD(n + 4) * scale) && budget-- > 0)
              c.viol("unitfilter.filter_mat", "solution-misses-boundary-value", vh::J().kv("index", (unsigned long)um.idx[q]).kv("got", x[um.idx[q]]).kv("expected", want).str());
          }
        }
      }
    }
    // filter_offdiag_row_mat
    {
      Mat a = vl::make_csr<DT, IT>(m);
      std::vector<DT> b0 = vals(a);
      if(run("unitfilter.filter_offdiag_row_mat", [&] { f.filter_offdiag_row_mat(a); }))
      {
        std::vector<DT> a1 = vals(a);
        judge_rows<DT>(c, "unitfilter.filter_offdiag_row_mat", 1, J, b0, a1, nullptr, budget);
        f.filter_offdiag_row_mat(a); c.event();
        check_same_bits<DT>(c, "unitfilter.filter_offdiag_row_mat", "not-idempotent", a1, vals(a), budget);
      }
    }
    // filter_weak_matrix_rows: A and M must share the layout arrays
    if(!m.t.empty())
    {
      Mat a = vl::make_csr<DT, IT>(m);
      Mat mm = a.clone(CloneMode::Layout);
      std::vector<double> donor(m.t.size()); for(auto& v : donor) v = vl::gen_value(rng, vstyle);
      for(std::size_t p = 0; p < donor.size(); ++p) mm.val()[p] = DT(donor[p]);
      const std::uint64_t hm = vl::container_hash(mm);
      std::vector<DT> b0 = vals(a);
      c.set_op("unitfilter.filter_weak_matrix_rows"); f.filter_weak_matrix_rows(a, mm); c.event();
      judge_rows<DT>(c, "unitfilter.filter_weak_matrix_rows", 2, J, b0, vals(a), &donor, budget);
      c.event(); if(vl::container_hash(mm) != hm) c.viol("unitfilter.filter_weak_matrix_rows", "input-modified", vh::J().kv("operand", "matrix_m").str());
    }
    check_filter_intact(c, "unitfilter.filter_mat", f, um.idx, um.val, 1);
  }

  // ------------------------------------------------------------------ BCSR helpers
  struct BSpec
  {
    MatSpec bm; int bh = 1, bw = 1; std::vector<double> pod;
    void pos(std::size_t p, Index& r, Index& cidx) const
    {
      std::size_t blk = p / std::size_t(bh * bw), q = p % std::size_t(bh * bw);
      r = bm.t[blk].r * Index(bh) + Index(q / std::size_t(bw)); cidx = bm.t[blk].c * Index(bw) + Index(q % std::size_t(bw));
    }
  };
  template<typename DT, typename IT, int BH, int BW>
  SparseMatrixBCSR<DT, IT, BH, BW> make_bcsr(const BSpec& b)
  {
    const MatSpec& bm = b.bm;
    if(bm.t.empty()) return SparseMatrixBCSR<DT, IT, BH, BW>(bm.rows, bm.cols);
    const Index nb = Index(bm.t.size());
    DenseVector<IT, IT> col(nb), rp(bm.rows + 1);
    DenseVector<DT, IT> val(nb * Index(BH * BW));
    std::vector<Index> cnt(bm.rows + 1, 0);
    for(Index i = 0; i < nb; ++i) { col(i, IT(bm.t[i].c)); ++cnt[bm.t[i].r + 1]; }
    for(std::size_t p = 0; p < b.pod.size(); ++p) val(Index(p), DT(b.pod[p]));
    for(Index i = 0; i < bm.rows; ++i) cnt[i + 1] += cnt[i];
    for(Index i = 0; i <= bm.rows; ++i) rp(i, IT(cnt[i]));
    return SparseMatrixBCSR<DT, IT, BH, BW>(bm.rows, bm.cols, col, val, rp);
  }

  // ------------------------------------------------------------------ UnitFilterBlocked<BH> on BCSR<BH,BW>
  template<typename DT, typename IT, int BH, int BW>
  void ublk_mat_bcsr_case(vh::Ctx& c, long edge)
  {
    typedef SparseMatrixBCSR<DT, IT, BH, BW> Mat;
    vh::Rng& rng = c.rng;
    Index n; int fs; edge_or_random(c, edge, false, n, fs);
    if(n > 33) n = 33;
    const bool sqblk = BH == BW;
    const bool solve = sqblk && (edge < 0 ? rng.coin(0.35) : (edge % 2 == 0));
    const bool squarem = solve || rng.coin(0.6);
    Index cols = squarem ? n : pick_size(rng, false); if(cols > 33) cols = 33;
    const int vstyle = solve ? int(rng.pick<int>({0, 1, 3})) : int(rng.below(4));
    const bool ign = rng.coin(0.25);
    std::string kind, ctor;
    UnitModel um; um.n = n; um.bs = BH; um.idx = indices_for(rng, n, fs, kind);
    um.val.resize(um.idx.size() * std::size_t(BH));
    for(auto& v : um.val) v = (ign && rng.coin(0.3)) ? std::nan("") : vl::gen_value(rng, vstyle);
    BSpec bs; bs.bh = BH; bs.bw = BW; bs.bm = gen_pattern(rng, n, cols, vstyle, true, solve);
    bs.pod.resize(bs.bm.t.size() * std::size_t(BH * BW)); for(auto& v : bs.pod) v = vl::gen_value(rng, vstyle);
    const std::size_t NP = bs.pod.size();
    const Index SR = n * Index(BH), SCc = cols * Index(BW);
    RowJudge J; J.con_row.assign(SR, 0); J.ident_ok.assign(SR, 0); J.row_val.assign(SR, 0.0);
    J.pos.resize(NP);
    for(std::size_t p = 0; p < NP; ++p) { Index i, j; bs.pos(p, i, j); J.pos[p] = {i, j}; }
    if(solve)
    {
      // strictly diagonally dominant scalar image (diagonal blocks are stored because of force_diag)
      std::vector<LD> off(SR, 0.0L);
      for(std::size_t p = 0; p < NP; ++p) if(J.pos[p].first != J.pos[p].second) off[J.pos[p].first] += std::fabs((LD)bs.pod[p]);
      for(std::size_t p = 0; p < NP; ++p) if(J.pos[p].first == J.pos[p].second)
        bs.pod[p] = double(float((rng.coin(0.5) ? 1.0 : -1.0) * (double(off[J.pos[p].first]) * rng.real(1.5, 3.0) + rng.real(0.5, 2.0))));
    }
    std::vector<char> diag_blk(n, 0);
    for(auto& e : bs.bm.t) if(e.r == e.c) diag_blk[e.r] = 1;
    bool constrained_without_diag = false;
    for(std::size_t q = 0; q < um.idx.size(); ++q) for(int k = 0; k < BH; ++k)
    {
      const double pv = um.val[q * std::size_t(BH) + std::size_t(k)];
      if(pv != pv) continue;
      const Index sr = um.idx[q] * Index(BH) + Index(k);
      J.con_row[sr] = 1; J.row_val[sr] = pv;
      if(sqblk && squarem && diag_blk[um.idx[q]]) J.ident_ok[sr] = 1; else constrained_without_diag = true;
    }
    for(auto& t : bs.bm.tags) if(t != "stored_zero") c.tag(t);
    c.tag(kind); c.tag(size_tag(n)); c.tag("bs:" + std::to_string(BH) + "x" + std::to_string(BW)); c.tag(ign ? "ignore_nans:1" : "ignore_nans:0");
    if(solve) c.tag("solve"); if(constrained_without_diag) c.tag("constrained_row_without_diag");
    c.tag(std::string("dt:") + vl::dt_name<DT>()); c.tag(std::string("it:") + vl::it_name<IT>());
    c.desc = vh::J().raw("filter", um.describe()).raw("block_pattern", bs.bm.describe(30)).raw("pod", vh::jarr(bs.pod, 40)).str();
    const bool risky = bs.bm.t.empty() && !um.idx.empty();
    UnitFilterBlocked<DT, IT, BH> f = make_unit_blocked<DT, IT, BH>(rng, um, int(rng.below(3)), ign, &ctor);
    c.tag(ctor);
    int budget = 6;
    auto vals = [&](const Mat& a) { if(NP == 0) return std::vector<DT>(); const DT* p = a.template val<Perspective::pod>(); return std::vector<DT>(p, p + NP); };
    auto run = [&](const std::string& op, const std::function<void()>& fn) -> bool
    { c.set_op(op); if(risky && !probe(c, op, fn)) return false; fn(); c.event(); return true; };
    std::vector<DT> b0; for(double v : bs.pod) b0.push_back(DT(v));

    {
      Mat a = make_bcsr<DT, IT, BH, BW>(bs);
      const std::uint64_t ih = index_hash(a);
      if(run("unitfilterblocked.filter_mat", [&] { f.filter_mat(a); }))
      {
        std::vector<DT> a1 = vals(a);
        judge_rows<DT>(c, "unitfilterblocked.filter_mat", 0, J, b0, a1, nullptr, budget);
        f.filter_mat(a); c.event();
        check_same_bits<DT>(c, "unitfilterblocked.filter_mat", "not-idempotent", a1, vals(a), budget);
        c.event(); if(index_hash(a) != ih) c.viol("unitfilterblocked.filter_mat", "pattern-changed", "{}");
        if(solve && !constrained_without_diag)
        {
          std::vector<double> bv = vl::gen_vec(rng, SR, vstyle);
          DenseVectorBlocked<DT, IT, BH> b(n); fill(b, bv);
          c.set_op("unitfilterblocked.filter_rhs"); f.filter_rhs(b); c.event();
          std::vector<LD> ad(std::size_t(SR) * SR, 0.0L), rhs(SR), x;
          for(std::size_t p = 0; p < NP; ++p) ad[std::size_t(J.pos[p].first) * SR + J.pos[p].second] = (LD)a1[p];
          LD scale = 1.0L; const DT* be = pod(b);
          for(Index i = 0; i < SR; ++i) { rhs[i] = (LD)be[i]; scale = std::max(scale, std::fabs(rhs[i])); }
          c.event();
          if(!dense_solve(ad, rhs, SR, x)) c.viol("unitfilterblocked.filter_mat", "filtered-system-singular", "{}");
          else for(Index sr = 0; sr < SR; ++sr) if(J.con_row[sr])
          {
            c.event(); c.count("boundary_values_checked");
            const LD want = (LD)DT(J.row_val[sr]);
            if(!(std::fabs(x[sr] - want) <= 1e-12L * LD(SR + 4) * scale) && budget-- > 0)
              c.viol("unitfilterblocked.filter_mat", "solution-misses-boundary-value", vh::J().kv("index", (unsigned long)sr).kv("got", x[sr]).kv("expected", want).str());
          }
        }
      }
    }
    {
      Mat a = make_bcsr<DT, IT, BH, BW>(bs);
      if(run("unitfilterblocked.filter_offdiag_row_mat", [&] { f.filter_offdiag_row_mat(a); }))
      {
        std::vector<DT> a1 = vals(a);
        judge_rows<DT>(c, "unitfilterblocked.filter_offdiag_row_mat", 1, J, b0, a1, nullptr, budget);
        f.filter_offdiag_row_mat(a); c.event();
        check_same_bits<DT>(c, "unitfilterblocked.filter_offdiag_row_mat", "not-idempotent", a1, vals(a), budget);
      }
    }
    if(NP > 0 && !ign)
    {
      Mat a = make_bcsr<DT, IT, BH, BW>(bs);
      Mat mm = a.clone(CloneMode::Layout);
      std::vector<double> donor(NP); for(auto& v : donor) v = vl::gen_value(rng, vstyle);
      DT* mv = mm.template val<Perspective::pod>();
      for(std::size_t p = 0; p < NP; ++p) mv[p] = DT(donor[p]);
      const std::uint64_t hm = vl::container_hash(mm);
      c.set_op("unitfilterblocked.filter_weak_matrix_rows"); f.filter_weak_matrix_rows(a, mm); c.event();
      judge_rows<DT>(c, "unitfilterblocked.filter_weak_matrix_rows", 2, J, b0, vals(a), &donor, budget);
      c.event(); if(vl::container_hash(mm) != hm) c.viol("unitfilterblocked.filter_weak_matrix_rows", "input-modified", vh::J().kv("operand", "matrix_m").str());
    }
    check_filter_intact(c, "unitfilterblocked.filter_mat", f, um.idx, um.val, BH);
    (void)SCc;
  }

  // ------------------------------------------------------------------ UnitFilter::filter_offdiag_row_mat on BCSR<1,w> (zero rows) and BCSR<h,1> (no-op)
  template<typename DT, typename IT, int BH, int BW>
  void unit_offdiag_bcsr_case(vh::Ctx& c, long edge)
  {
    static_assert(BH == 1 || BW == 1, "only 1xw and hx1");
    typedef SparseMatrixBCSR<DT, IT, BH, BW> Mat;
    vh::Rng& rng = c.rng;
    Index n; int fs; edge_or_random(c, edge, false, n, fs);
    if(n > 33) n = 33;
    Index cols = rng.coin(0.5) ? n : pick_size(rng, false); if(cols > 33) cols = 33;
    const int vstyle = int(rng.below(4));
    std::string kind, ctor;
    UnitModel um; um.n = n; um.bs = 1; um.idx = indices_for(rng, n, fs, kind);
    um.val.resize(um.idx.size()); for(auto& v : um.val) v = vl::gen_value(rng, vstyle);
    BSpec bs; bs.bh = BH; bs.bw = BW; bs.bm = gen_pattern(rng, n, cols, vstyle, true, false);
    bs.pod.resize(bs.bm.t.size() * std::size_t(BH * BW)); for(auto& v : bs.pod) v = vl::gen_value(rng, vstyle);
    const std::size_t NP = bs.pod.size();
    const Index SR = n * Index(BH);
    RowJudge J; J.con_row.assign(SR, 0); J.ident_ok.assign(SR, 0); J.row_val.assign(SR, 0.0); J.pos.resize(NP);
    for(std::size_t p = 0; p < NP; ++p) { Index i, j; bs.pos(p, i, j); J.pos[p] = {i, j}; }
    // 1 x w : the filter's rows are the block rows and are zeroed; h x 1 : documented as "nothing to do"
    if(BH == 1) for(Index i : um.idx) J.con_row[i] = 1;
    for(auto& t : bs.bm.tags) if(t != "stored_zero") c.tag(t);
    c.tag(kind); c.tag(size_tag(n)); c.tag("bs:" + std::to_string(BH) + "x" + std::to_string(BW));
    c.tag(std::string("dt:") + vl::dt_name<DT>()); c.tag(std::string("it:") + vl::it_name<IT>());
    c.desc = vh::J().raw("filter", um.describe()).raw("block_pattern", bs.bm.describe(30)).raw("pod", vh::jarr(bs.pod, 40)).str();
    const bool risky = bs.bm.t.empty() && !um.idx.empty();
    UnitFilter<DT, IT> f = make_unit<DT, IT>(rng, um, int(rng.below(3)), &ctor);
    c.tag(ctor);
    int budget = 6;
    std::vector<DT> b0; for(double v : bs.pod) b0.push_back(DT(v));
    Mat a = make_bcsr<DT, IT, BH, BW>(bs);
    const std::string op = "unitfilter.filter_offdiag_row_mat_bcsr";
    c.set_op(op);
    auto call = [&] { f.filter_offdiag_row_mat(a); };
    if(risky && !probe(c, op, call)) return;
    call(); c.event();
    std::vector<DT> a1; if(NP) { const DT* p = a.template val<Perspective::pod>(); a1.assign(p, p + NP); }
    judge_rows<DT>(c, op, 1, J, b0, a1, nullptr, budget);
  }

  // sel: 0 UnitFilter/CSR ; 1..6 UnitFilterBlocked on BCSR (2,2),(3,3),(2,3),(3,2),(2,1),(3,1) ; 7..10 UnitFilter offdiag on BCSR (1,2),(1,3),(2,1),(3,1)
  template<typename DT, typename IT>
  void mat_dispatch(vh::Ctx& c, long edge, int sel)
  {
    switch(sel)
    {
    case 0: unit_mat_csr_case<DT, IT>(c, edge); break;
    case 1: ublk_mat_bcsr_case<DT, IT, 2, 2>(c, edge); break;
    case 2: ublk_mat_bcsr_case<DT, IT, 3, 3>(c, edge); break;
    case 3: ublk_mat_bcsr_case<DT, IT, 2, 3>(c, edge); break;
    case 4: ublk_mat_bcsr_case<DT, IT, 3, 2>(c, edge); break;
    case 5: ublk_mat_bcsr_case<DT, IT, 2, 1>(c, edge); break;
    case 6: ublk_mat_bcsr_case<DT, IT, 3, 1>(c, edge); break;
    case 7: unit_offdiag_bcsr_case<DT, IT, 1, 2>(c, edge); break;
    case 8: unit_offdiag_bcsr_case<DT, IT, 1, 3>(c, edge); break;
    case 9: unit_offdiag_bcsr_case<DT, IT, 2, 1>(c, edge); break;
    default: unit_offdiag_bcsr_case<DT, IT, 3, 1>(c, edge); break;
    }
  }
} // namespace c06
