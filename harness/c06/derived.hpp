// derived.hpp -- C06 family `derived`: filter objects DERIVED from a directly built one (convert() to the same and to another
// data/index type, convert() back, clone() in every CloneMode, clone-into, move construction, move assignment onto an empty and
// onto a non-empty filter) must impose exactly the constraints of the generator-owned model the original was built from, must
// give bit-identical results to the original where the data type is the same, must not share memory with the original where the
// clone mode says so, and must leave the original untouched.  Every filter class of the harness is wrapped in a "bundle"
// (filter type, vector type, model, builder, monitor); composites are built from the leaf bundles.
// Included by the instantiating TUs only.
#pragma once
#include "composed.hpp"
#include <type_traits>

namespace c06 { namespace drv
{
  typedef std::vector<const void*> Ptrs;
  inline void addp(Ptrs& p, const void* q) { if(q) p.push_back(q); }
  typedef std::vector<std::string> Tags;
  inline void addt(Tags* t, const std::string& s) { if(t) t->push_back(s); }

  template<typename DT> std::vector<DT> slice(const std::vector<DT>& v, std::size_t off, std::size_t len)
  { return std::vector<DT>(v.begin() + std::ptrdiff_t(off), v.begin() + std::ptrdiff_t(off + len)); }

  // the stored data of a sparse filter vector (indices sorted) must be exactly the model's
  template<typename DT, typename IX>
  void sv_check(vh::Ctx& c, const std::string& op, const char* what, Index size, Index used, const IX* ix, const DT* v,
                Index msize, const std::vector<Index>& idx, const std::vector<double>& val, int bs)
  {
    c.event();
    if(size != msize || used != Index(idx.size()))
    { c.viol(op, "wrong-filter-data", vh::J().kv("what", what).kv("size", (unsigned long)size).kv("expected_size", (unsigned long)msize)
        .kv("used_elements", (unsigned long)used).kv("expected_used", (unsigned long)idx.size()).str()); return; }
    for(std::size_t i = 0; i < idx.size(); ++i)
    {
      bool ok = Index(ix[i]) == idx[i];
      for(int k = 0; ok && k < bs; ++k)
      {
        const double pv = val[i * std::size_t(bs) + std::size_t(k)]; const DT g = v[i * std::size_t(bs) + std::size_t(k)];
        ok = (pv != pv) ? (g != g) : same_bits<DT>(g, DT(pv));
      }
      if(!ok) { c.viol(op, "wrong-filter-data", vh::J().kv("what", what).kv("position", (unsigned long)i).str()); return; }
    }
  }

  // ================================================================== leaf bundles
  template<typename DT_, typename IT_> struct UnitB
  {
    typedef DT_ DT; typedef IT_ IT; typedef UnitFilter<DT, IT> Filter; typedef DenseVector<DT, IT> Vec; typedef UnitModel Model;
    template<typename D2, typename I2> using Re = UnitB<D2, I2>;
    static constexpr bool clone_into = true;
    static std::string name() { return "unitfilter"; }
    static Model gen(vh::Rng& r, Index n, int vstyle, Tags* t) { std::string k; Model m = gen_unit_n(r, n, 1, vstyle, k); addt(t, k); return m; }
    static std::string describe(const Model& m) { return m.describe(); }
    static Filter build(vh::Rng& r, const Model& m) { return make_unit<DT, IT>(r, m, int(r.below(2))); }
    static std::size_t npod(const Model& m) { return std::size_t(m.n); }
    static Vec make_vec(const Model& m, const std::vector<double>& v, std::size_t off)
    { Vec x(m.n); DT* e = x.elements(); for(Index i = 0; i < m.n; ++i) e[i] = DT(v[off + i]); return x; }
    static void snap(Vec& v, std::vector<DT>& out) { snap_into(v, out); }
    template<typename P> static void check(vh::Ctx& c, const std::string& op, int call, const std::vector<DT>&, const std::vector<DT>& before, const std::vector<DT>& after, bool second, const Model& m, int& budget)
    { check_unit<DT>(c, op, call, before, after, m, budget); if(second) check_same_bits<DT>(c, op, "not-idempotent", before, after, budget); }
    static void ptrs(const Filter& f, Ptrs& vals, Ptrs& idx) { if(f.used_elements() > 0) { addp(vals, f.get_values()); addp(idx, f.get_indices()); } }
    static void data(vh::Ctx& c, const std::string& op, const Filter& f, const Model& m)
    { const bool e = f.used_elements() == 0; sv_check<DT>(c, op, "sv", f.size(), f.used_elements(), e ? nullptr : f.get_indices(), e ? nullptr : f.get_values(), m.n, m.idx, m.val, 1); }
    static void shape(vh::Ctx& c, const std::string& op, const Filter& f, const Model& m)
    { c.event(); if(f.size() != m.n || f.used_elements() != Index(m.idx.size())) c.viol(op, "dims", vh::J().kv("size", (unsigned long)f.size()).kv("used", (unsigned long)f.used_elements()).str()); }
  };

  struct UBlkModel { UnitModel u; bool ign = false; };
  template<typename DT_, typename IT_, int BS> struct UBlkB
  {
    typedef DT_ DT; typedef IT_ IT; typedef UnitFilterBlocked<DT, IT, BS> Filter; typedef DenseVectorBlocked<DT, IT, BS> Vec; typedef UBlkModel Model;
    template<typename D2, typename I2> using Re = UBlkB<D2, I2, BS>;
    static constexpr bool clone_into = true;
    static std::string name() { return "unitfilterblocked"; }
    static Model gen(vh::Rng& r, Index n, int vstyle, Tags* t)
    { Model m; m.ign = r.coin(0.4); std::string k; m.u = gen_unit(r, n, BS, vstyle, k, m.ign); addt(t, k); addt(t, "bs:" + std::to_string(BS)); addt(t, m.ign ? "ignore_nans:1" : "ignore_nans:0"); return m; }
    static std::string describe(const Model& m) { return m.u.describe(); }
    static Filter build(vh::Rng& r, const Model& m) { return make_unit_blocked<DT, IT, BS>(r, m.u, int(r.below(2)), m.ign); }
    static std::size_t npod(const Model& m) { return std::size_t(m.u.n) * BS; }
    static Vec make_vec(const Model& m, const std::vector<double>& v, std::size_t off)
    { Vec x(m.u.n); DT* e = pod(x); for(std::size_t i = 0; i < npod(m); ++i) e[i] = DT(v[off + i]); return x; }
    static void snap(Vec& v, std::vector<DT>& out) { snap_into(v, out); }
    template<typename P> static void check(vh::Ctx& c, const std::string& op, int call, const std::vector<DT>&, const std::vector<DT>& before, const std::vector<DT>& after, bool second, const Model& m, int& budget)
    { check_unit<DT>(c, op, call, before, after, m.u, budget); if(second) check_same_bits<DT>(c, op, "not-idempotent", before, after, budget); }
    static void ptrs(const Filter& f, Ptrs& vals, Ptrs& idx) { if(f.used_elements() > 0) { addp(vals, f.get_values()); addp(idx, f.get_indices()); } }
    static void data(vh::Ctx& c, const std::string& op, const Filter& f, const Model& m)
    {
      const bool e = f.used_elements() == 0;
      sv_check<DT>(c, op, "sv", f.size(), f.used_elements(), e ? nullptr : f.get_indices(), e ? nullptr : reinterpret_cast<const DT*>(f.get_values()), m.u.n, m.u.idx, m.u.val, BS);
    }
    static void shape(vh::Ctx& c, const std::string& op, const Filter& f, const Model& m)
    { c.event(); if(f.size() != m.u.n || f.used_elements() != Index(m.u.idx.size())) c.viol(op, "dims", vh::J().kv("size", (unsigned long)f.size()).kv("used", (unsigned long)f.used_elements()).str()); }
  };

  // slip filter: filter vector (num_dofs entries) + vertex-normal field (num_vertices entries): numode 0 = empty (filter filled via
  // add() only), 1 = equal to the filter vector (Lagrange-1-like), 2 = other size, other entries, other values (Lagrange-2-like)
  struct SlipDModel { SlipModel s; int numode = 0; Index nv = 0; std::vector<Index> nidx; std::vector<double> nval; };
  template<typename DT_, typename IT_, int BS> struct SlipB
  {
    typedef DT_ DT; typedef IT_ IT; typedef SlipFilter<DT, IT, BS> Filter; typedef DenseVectorBlocked<DT, IT, BS> Vec; typedef SlipDModel Model;
    template<typename D2, typename I2> using Re = SlipB<D2, I2, BS>;
    static constexpr bool clone_into = true;
    static std::string name() { return "slipfilter"; }
    static Model gen(vh::Rng& r, Index n, int vstyle, Tags* t)
    {
      Model m; std::string k; m.s = gen_slip(r, n, BS, vstyle, k); addt(t, k); addt(t, "bs:" + std::to_string(BS));
      m.numode = int(r.below(3));
      if(m.numode == 0) { m.nv = n; addt(t, "nu:empty"); }
      else if(m.numode == 1) { m.nv = n; m.nidx = m.s.idx; m.nval = m.s.nu; addt(t, "nu:equal"); }
      else
      {
        m.nv = r.coin(0.3) ? n : pick_size(r, false); std::string k2; SlipModel s2 = gen_slip(r, m.nv, BS, vstyle, k2);
        m.nidx = s2.idx; m.nval = s2.nu; addt(t, "nu:differs"); if(m.nv != n) addt(t, "nu_size!=size");
      }
      return m;
    }
    static std::string describe(const Model& m) { return vh::J().raw("sv", m.s.describe()).kv("nu_mode", m.numode).kv("nu_size", (unsigned long)m.nv).kv("nu_count", (unsigned long)m.nidx.size()).str(); }
    static Filter build(vh::Rng& r, const Model& m)
    {
      typedef Tiny::Vector<DT, BS> VT;
      Filter f(m.nv, m.s.n);
      std::vector<std::size_t> ord(m.s.idx.size()); for(std::size_t i = 0; i < ord.size(); ++i) ord[i] = i;
      r.shuffle(ord);
      for(std::size_t i : ord) { VT t; for(int k = 0; k < BS; ++k) t[k] = DT(m.s.nu[i * std::size_t(BS) + std::size_t(k)]); f.add(IT(m.s.idx[i]), t); }
      std::vector<std::size_t> o2(m.nidx.size()); for(std::size_t i = 0; i < o2.size(); ++i) o2[i] = i;
      r.shuffle(o2);
      for(std::size_t i : o2) { VT t; for(int k = 0; k < BS; ++k) t[k] = DT(m.nval[i * std::size_t(BS) + std::size_t(k)]); f.get_nu()(m.nidx[i], t); }
      return f;
    }
    static std::size_t npod(const Model& m) { return std::size_t(m.s.n) * BS; }
    static Vec make_vec(const Model& m, const std::vector<double>& v, std::size_t off)
    { Vec x(m.s.n); DT* e = pod(x); for(std::size_t i = 0; i < npod(m); ++i) e[i] = DT(v[off + i]); return x; }
    static void snap(Vec& v, std::vector<DT>& out) { snap_into(v, out); }
    template<typename P> static void check(vh::Ctx& c, const std::string& op, int, const std::vector<DT>& orig, const std::vector<DT>& before, const std::vector<DT>& after, bool second, const Model& m, int& budget)
    { check_slip<DT>(c, op, orig, before, after, m.s, second, budget); }
    static void ptrs(const Filter& f, Ptrs& vals, Ptrs& idx)
    {
      if(f.used_elements() > 0) { addp(vals, f.get_values()); addp(idx, f.get_indices()); }
      if(f.get_nu().used_elements() > 0) { addp(vals, f.get_nu().elements()); addp(idx, f.get_nu().indices()); }
    }
    static void data(vh::Ctx& c, const std::string& op, const Filter& f, const Model& m)
    {
      const bool e1 = f.used_elements() == 0;   // the accessors of an entry-free sparse vector are not touched
      sv_check<DT>(c, op, "sv", f.size(), f.used_elements(), e1 ? nullptr : f.get_indices(), e1 ? nullptr : reinterpret_cast<const DT*>(f.get_values()), m.s.n, m.s.idx, m.s.nu, BS);
      const auto& nu = f.get_nu(); const bool e2 = nu.used_elements() == 0;
      sv_check<DT>(c, op, "nu", nu.size(), nu.used_elements(), e2 ? nullptr : nu.indices(), e2 ? nullptr : reinterpret_cast<const DT*>(nu.elements()), m.nv, m.nidx, m.nval, BS);
    }
    static void shape(vh::Ctx& c, const std::string& op, const Filter& f, const Model& m)
    { c.event(); if(f.size() != m.s.n || f.used_elements() != Index(m.s.idx.size()) || f.get_nu().size() != m.nv || f.get_nu().used_elements() != Index(m.nidx.size()))
        c.viol(op, "dims", vh::J().kv("size", (unsigned long)f.size()).kv("used", (unsigned long)f.used_elements()).kv("nu_size", (unsigned long)f.get_nu().size()).str()); }
  };

  template<typename DT> void dense_check(vh::Ctx& c, const std::string& op, const char* what, Index size, const DT* e, const std::vector<double>& val)
  {
    c.event();
    if(std::size_t(size) != val.size()) { c.viol(op, "wrong-filter-data", vh::J().kv("what", what).kv("size", (unsigned long)size).kv("expected_size", (unsigned long)val.size()).str()); return; }
    for(std::size_t i = 0; i < val.size(); ++i) if(!same_bits<DT>(e[i], DT(val[i]))) { c.viol(op, "wrong-filter-data", vh::J().kv("what", what).kv("position", (unsigned long)i).str()); return; }
  }
  template<typename DT_, typename IT_> struct MeanB
  {
    typedef DT_ DT; typedef IT_ IT; typedef MeanFilter<DT, IT> Filter; typedef DenseVector<DT, IT> Vec; typedef MeanModel Model;
    template<typename D2, typename I2> using Re = MeanB<D2, I2>;
    static constexpr bool clone_into = true;
    static std::string name() { return "meanfilter"; }
    static Model gen(vh::Rng& r, Index n, int, Tags* t) { std::string k; Model m = gen_mean(r, n, 1, k); addt(t, k); if(m.sol_mean[0] != 0.0) addt(t, "sol_mean!=0"); return m; }
    static std::string describe(const Model& m) { return m.describe(); }
    static Filter build(vh::Rng&, const Model& m) { return make_mean<DT, IT>(m); }
    static std::size_t npod(const Model& m) { return std::size_t(m.n); }
    static Vec make_vec(const Model& m, const std::vector<double>& v, std::size_t off)
    { Vec x(m.n); DT* e = x.elements(); for(Index i = 0; i < m.n; ++i) e[i] = DT(v[off + i]); return x; }
    static void snap(Vec& v, std::vector<DT>& out) { snap_into(v, out); }
    template<typename P> static void check(vh::Ctx& c, const std::string& op, int call, const std::vector<DT>& orig, const std::vector<DT>&, const std::vector<DT>& after, bool second, const Model& m, int& budget)
    {
      // P = precision the stored volume of the filter was computed in (a widened filter keeps the narrow volume)
      if constexpr(std::is_same<P, DT>::value) check_mean<DT>(c, op, call, orig, after, m, second, budget);
      else { std::vector<P> o(orig.begin(), orig.end()), a(after.begin(), after.end()); check_mean<P>(c, op, call, o, a, m, second, budget); }
    }
    static void ptrs(const Filter& f, Ptrs& vals, Ptrs&) { addp(vals, f.get_vec_prim().elements()); addp(vals, f.get_vec_dual().elements()); }
    static void data(vh::Ctx& c, const std::string& op, const Filter& f, const Model& m)
    {
      dense_check<DT>(c, op, "prim", f.get_vec_prim().size(), f.get_vec_prim().elements(), m.prim);
      dense_check<DT>(c, op, "dual", f.get_vec_dual().size(), f.get_vec_dual().elements(), m.dual);
      c.event(); if(!same_bits<DT>(f.get_sol_mean(), DT(m.sol_mean[0]))) c.viol(op, "wrong-filter-data", vh::J().kv("what", "sol_mean").str());
    }
    static void shape(vh::Ctx& c, const std::string& op, const Filter& f, const Model& m)
    { c.event(); if(f.get_vec_prim().size() != m.n || f.get_vec_dual().size() != m.n) c.viol(op, "dims", "{}"); }
  };
  template<typename DT_, typename IT_, int BS> struct MeanBlkB
  {
    typedef DT_ DT; typedef IT_ IT; typedef MeanFilterBlocked<DT, IT, BS> Filter; typedef DenseVectorBlocked<DT, IT, BS> Vec; typedef MeanModel Model;
    template<typename D2, typename I2> using Re = MeanBlkB<D2, I2, BS>;
    static constexpr bool clone_into = true;
    static std::string name() { return "meanfilterblocked"; }
    static Model gen(vh::Rng& r, Index n, int, Tags* t) { std::string k; Model m = gen_mean(r, n, BS, k); addt(t, k); addt(t, "bs:" + std::to_string(BS)); return m; }
    static std::string describe(const Model& m) { return m.describe(); }
    static Filter build(vh::Rng&, const Model& m) { return make_mean_blocked<DT, IT, BS>(m); }
    static std::size_t npod(const Model& m) { return std::size_t(m.n) * BS; }
    static Vec make_vec(const Model& m, const std::vector<double>& v, std::size_t off)
    { Vec x(m.n); DT* e = pod(x); for(std::size_t i = 0; i < npod(m); ++i) e[i] = DT(v[off + i]); return x; }
    static void snap(Vec& v, std::vector<DT>& out) { snap_into(v, out); }
    template<typename P> static void check(vh::Ctx& c, const std::string& op, int call, const std::vector<DT>& orig, const std::vector<DT>&, const std::vector<DT>& after, bool second, const Model& m, int& budget)
    {
      // P = precision the stored volume of the filter was computed in (a widened filter keeps the narrow volume)
      if constexpr(std::is_same<P, DT>::value) check_mean<DT>(c, op, call, orig, after, m, second, budget);
      else { std::vector<P> o(orig.begin(), orig.end()), a(after.begin(), after.end()); check_mean<P>(c, op, call, o, a, m, second, budget); }
    }
    static void ptrs(const Filter& f, Ptrs& vals, Ptrs&) { addp(vals, f.get_vec_prim().elements()); addp(vals, f.get_vec_dual().elements()); }
    static void data(vh::Ctx& c, const std::string& op, const Filter& f, const Model& m)
    {
      dense_check<DT>(c, op, "prim", f.get_vec_prim().template size<Perspective::pod>(), f.get_vec_prim().template elements<Perspective::pod>(), m.prim);
      dense_check<DT>(c, op, "dual", f.get_vec_dual().template size<Perspective::pod>(), f.get_vec_dual().template elements<Perspective::pod>(), m.dual);
    }
    static void shape(vh::Ctx& c, const std::string& op, const Filter& f, const Model& m)
    { c.event(); if(f.get_vec_prim().size() != m.n || f.get_vec_dual().size() != m.n) c.viol(op, "dims", "{}"); }
  };

  struct NoneModel { Index n = 0; };
  template<typename DT_, typename IT_> struct NoneB
  {
    typedef DT_ DT; typedef IT_ IT; typedef NoneFilter<DT, IT> Filter; typedef DenseVector<DT, IT> Vec; typedef NoneModel Model;
    template<typename D2, typename I2> using Re = NoneB<D2, I2>;
    static constexpr bool clone_into = true;
    static std::string name() { return "nonefilter"; }
    static Model gen(vh::Rng&, Index n, int, Tags* t) { Model m; m.n = n; addt(t, "set:empty"); return m; }
    static std::string describe(const Model& m) { return vh::J().kv("size", (unsigned long)m.n).str(); }
    static Filter build(vh::Rng&, const Model&) { return Filter(); }
    static std::size_t npod(const Model& m) { return std::size_t(m.n); }
    static Vec make_vec(const Model& m, const std::vector<double>& v, std::size_t off)
    { Vec x(m.n); DT* e = x.elements(); for(Index i = 0; i < m.n; ++i) e[i] = DT(v[off + i]); return x; }
    static void snap(Vec& v, std::vector<DT>& out) { snap_into(v, out); }
    template<typename P> static void check(vh::Ctx& c, const std::string& op, int, const std::vector<DT>&, const std::vector<DT>& before, const std::vector<DT>& after, bool, const Model&, int& budget)
    { check_same_bits<DT>(c, op, "complement-modified", before, after, budget); }
    static void ptrs(const Filter&, Ptrs&, Ptrs&) {}
    static void data(vh::Ctx&, const std::string&, const Filter&, const Model&) {}
    static void shape(vh::Ctx&, const std::string&, const Filter&, const Model&) {}
  };
  template<typename DT_, typename IT_, int BS> struct NoneBlkB
  {
    typedef DT_ DT; typedef IT_ IT; typedef NoneFilterBlocked<DT, IT, BS> Filter; typedef DenseVectorBlocked<DT, IT, BS> Vec; typedef NoneModel Model;
    template<typename D2, typename I2> using Re = NoneBlkB<D2, I2, BS>;
    static constexpr bool clone_into = true;
    static std::string name() { return "nonefilterblocked"; }
    static Model gen(vh::Rng&, Index n, int, Tags* t) { Model m; m.n = n; addt(t, "set:empty"); addt(t, "bs:" + std::to_string(BS)); return m; }
    static std::string describe(const Model& m) { return vh::J().kv("size", (unsigned long)m.n).str(); }
    static Filter build(vh::Rng&, const Model&) { return Filter(); }
    static std::size_t npod(const Model& m) { return std::size_t(m.n) * BS; }
    static Vec make_vec(const Model& m, const std::vector<double>& v, std::size_t off)
    { Vec x(m.n); DT* e = pod(x); for(std::size_t i = 0; i < npod(m); ++i) e[i] = DT(v[off + i]); return x; }
    static void snap(Vec& v, std::vector<DT>& out) { snap_into(v, out); }
    template<typename P> static void check(vh::Ctx& c, const std::string& op, int, const std::vector<DT>&, const std::vector<DT>& before, const std::vector<DT>& after, bool, const Model&, int& budget)
    { check_same_bits<DT>(c, op, "complement-modified", before, after, budget); }
    static void ptrs(const Filter&, Ptrs&, Ptrs&) {}
    static void data(vh::Ctx&, const std::string&, const Filter&, const Model&) {}
    static void shape(vh::Ctx&, const std::string&, const Filter&, const Model&) {}
  };

  // ================================================================== composites
  // FilterChain<SlipFilter<BS>, UnitFilterBlocked<BS>> on disjoint index sets (clone-into does not compile for FilterChain: see rule)
  template<typename DT_, typename IT_, int BS> struct ChainB
  {
    typedef DT_ DT; typedef IT_ IT; typedef SlipB<DT, IT, BS> BA; typedef UBlkB<DT, IT, BS> BB;
    typedef FilterChain<typename BA::Filter, typename BB::Filter> Filter; typedef DenseVectorBlocked<DT, IT, BS> Vec;
    typedef std::pair<SlipDModel, UBlkModel> Model;
    template<typename D2, typename I2> using Re = ChainB<D2, I2, BS>;
    static constexpr bool clone_into = true;
    static std::string name() { return "filterchain_slip_unit"; }
    static Model gen(vh::Rng& r, Index n, int vstyle, Tags* t)
    {
      Model m; m.first = BA::gen(r, n, vstyle, t);
      std::string k; UnitModel um = gen_unit_n(r, n, BS, vstyle, k);
      std::set<Index> sl(m.first.s.idx.begin(), m.first.s.idx.end());
      UnitModel u2 = um; u2.idx.clear(); u2.val.clear();
      for(std::size_t i = 0; i < um.idx.size(); ++i) if(!sl.count(um.idx[i])) { u2.idx.push_back(um.idx[i]); for(int q = 0; q < BS; ++q) u2.val.push_back(um.val[i * BS + std::size_t(q)]); }
      m.second.u = u2; m.second.ign = false; addt(t, u2.idx.empty() ? "unit_set:empty" : "unit_set:nonempty");
      return m;
    }
    static std::string describe(const Model& m) { return vh::J().raw("slip", BA::describe(m.first)).raw("unit", m.second.u.describe()).str(); }
    static Filter build(vh::Rng& r, const Model& m) { Filter f; f.template at<0>() = BA::build(r, m.first); f.template at<1>() = BB::build(r, m.second); return f; }
    static std::size_t npod(const Model& m) { return BA::npod(m.first); }
    static Vec make_vec(const Model& m, const std::vector<double>& v, std::size_t off) { return BA::make_vec(m.first, v, off); }
    static void snap(Vec& v, std::vector<DT>& out) { snap_into(v, out); }
    template<typename P> static void check(vh::Ctx& c, const std::string& op, int call, const std::vector<DT>& orig, const std::vector<DT>& before, const std::vector<DT>& after, bool second, const Model& m, int& budget)
    {
      std::vector<char> slip_mask(before.size(), 0), unit_mask(before.size(), 0);
      for(Index i : m.first.s.idx) for(int k = 0; k < BS; ++k) slip_mask[std::size_t(i) * BS + std::size_t(k)] = 1;
      for(Index i : m.second.u.idx) for(int k = 0; k < BS; ++k) unit_mask[std::size_t(i) * BS + std::size_t(k)] = 1;
      check_slip<DT>(c, op, orig, before, after, m.first.s, second, budget, &unit_mask);
      check_unit<DT>(c, op, call, before, after, m.second.u, budget, &slip_mask);
    }
    static void ptrs(const Filter& f, Ptrs& vals, Ptrs& idx) { BA::ptrs(f.template at<0>(), vals, idx); BB::ptrs(f.template at<1>(), vals, idx); }
    static void data(vh::Ctx& c, const std::string& op, const Filter& f, const Model& m) { BA::data(c, op, f.template at<0>(), m.first); BB::data(c, op, f.template at<1>(), m.second); }
    static void shape(vh::Ctx& c, const std::string& op, const Filter& f, const Model& m) { BA::shape(c, op, f.template at<0>(), m.first); BB::shape(c, op, f.template at<1>(), m.second); }
  };

  // FilterSequence<Leaf> of 1..3 leaf filters on pairwise disjoint index sets (leaf = slip or unit bundle: both carry an index list)
  template<typename BL> struct SeqIdx;
  template<typename D, typename I, int BS> struct SeqIdx<SlipB<D, I, BS>> { static std::vector<Index>& idx(SlipDModel& m) { return m.s.idx; } static std::vector<double>& val(SlipDModel& m) { return m.s.nu; } static constexpr int bs = BS; };
  template<typename D, typename I> struct SeqIdx<UnitB<D, I>> { static std::vector<Index>& idx(UnitModel& m) { return m.idx; } static std::vector<double>& val(UnitModel& m) { return m.val; } static constexpr int bs = 1; };
  template<typename BL> struct SeqB
  {
    typedef typename BL::DT DT; typedef typename BL::IT IT; typedef FilterSequence<typename BL::Filter> Filter; typedef typename BL::Vec Vec;
    typedef std::vector<typename BL::Model> Model;
    template<typename D2, typename I2> using Re = SeqB<typename BL::template Re<D2, I2>>;
    static constexpr bool clone_into = true;
    static std::string name() { return "filtersequence_" + BL::name(); }
    static Model gen(vh::Rng& r, Index n, int vstyle, Tags* t)
    {
      const int nf = 1 + int(r.below(3)); Model m; std::set<Index> used; addt(t, "seq:" + std::to_string(nf));
      for(int q = 0; q < nf; ++q)
      {
        typename BL::Model l = BL::gen(r, n, vstyle, q == 0 ? t : nullptr);
        std::vector<Index> ni; std::vector<double> nv; auto& li = SeqIdx<BL>::idx(l); auto& lv = SeqIdx<BL>::val(l); const int bs = SeqIdx<BL>::bs;
        for(std::size_t i = 0; i < li.size(); ++i) if(!used.count(li[i])) { used.insert(li[i]); ni.push_back(li[i]); for(int k = 0; k < bs; ++k) nv.push_back(lv[i * std::size_t(bs) + std::size_t(k)]); }
        li = ni; lv = nv; m.push_back(l);
      }
      return m;
    }
    static std::string describe(const Model& m) { vh::J a('['); for(auto& l : m) a.add_raw(BL::describe(l)); return vh::J().raw("filters", a.str()).str(); }
    static Filter build(vh::Rng& r, const Model& m) { Filter f; for(std::size_t q = 0; q < m.size(); ++q) f.find_or_add("s" + stringify(q)) = BL::build(r, m[q]); return f; }
    static std::size_t npod(const Model& m) { return BL::npod(m[0]); }
    static Vec make_vec(const Model& m, const std::vector<double>& v, std::size_t off) { return BL::make_vec(m[0], v, off); }
    static void snap(Vec& v, std::vector<DT>& out) { snap_into(v, out); }
    template<typename P> static void check(vh::Ctx& c, const std::string& op, int call, const std::vector<DT>& orig, const std::vector<DT>& before, const std::vector<DT>& after, bool second, const Model& m, int& budget)
    {
      // union model: the members act on disjoint entries, so the sequence is judged like ONE leaf filter carrying all entries
      typename BL::Model u = m[0];
      for(std::size_t q = 1; q < m.size(); ++q)
      {
        typename BL::Model l = m[q]; auto& li = SeqIdx<BL>::idx(l); auto& lv = SeqIdx<BL>::val(l);
        SeqIdx<BL>::idx(u).insert(SeqIdx<BL>::idx(u).end(), li.begin(), li.end()); SeqIdx<BL>::val(u).insert(SeqIdx<BL>::val(u).end(), lv.begin(), lv.end());
      }
      BL::template check<P>(c, op, call, orig, before, after, second, u, budget);
    }
    static void ptrs(const Filter& f, Ptrs& vals, Ptrs& idx) { for(std::size_t q = 0; q < f.size(); ++q) BL::ptrs(f.at(q).second, vals, idx); }
    static void data(vh::Ctx& c, const std::string& op, const Filter& f, const Model& m)
    {
      c.event(); if(f.size() != m.size()) { c.viol(op, "wrong-filter-data", vh::J().kv("what", "sequence_length").kv("got", (unsigned long)f.size()).str()); return; }
      for(std::size_t q = 0; q < m.size(); ++q)
      {
        c.event(); if(f.at(q).first != "s" + stringify(q)) c.viol(op, "wrong-filter-data", vh::J().kv("what", "name").kv("position", (unsigned long)q).str());
        BL::data(c, op, f.at(q).second, m[q]);
      }
    }
    static void shape(vh::Ctx& c, const std::string& op, const Filter& f, const Model& m)
    { c.event(); if(f.size() != m.size()) { c.viol(op, "dims", "{}"); return; } for(std::size_t q = 0; q < m.size(); ++q) BL::shape(c, op, f.at(q).second, m[q]); }
  };

  // TupleFilter<A, B> on TupleVector<VA, VB>: each component judged by its own bundle
  template<typename BA, typename BB> struct TupleB
  {
    typedef typename BA::DT DT; typedef typename BA::IT IT; typedef TupleFilter<typename BA::Filter, typename BB::Filter> Filter;
    typedef TupleVector<typename BA::Vec, typename BB::Vec> Vec; typedef std::pair<typename BA::Model, typename BB::Model> Model;
    template<typename D2, typename I2> using Re = TupleB<typename BA::template Re<D2, I2>, typename BB::template Re<D2, I2>>;
    static constexpr bool clone_into = BA::clone_into && BB::clone_into;
    static std::string name() { return "tuplefilter_" + BA::name() + "_" + BB::name(); }
    static Model gen(vh::Rng& r, Index n, int vstyle, Tags* t) { Model m; m.first = BA::gen(r, n, vstyle, t); m.second = BB::gen(r, pick_size(r, false), vstyle, nullptr); return m; }
    static std::string describe(const Model& m) { return vh::J().raw("first", BA::describe(m.first)).raw("second", BB::describe(m.second)).str(); }
    static Filter build(vh::Rng& r, const Model& m) { Filter f; f.template at<0>() = BA::build(r, m.first); f.template at<1>() = BB::build(r, m.second); return f; }
    static std::size_t npod(const Model& m) { return BA::npod(m.first) + BB::npod(m.second); }
    static Vec make_vec(const Model& m, const std::vector<double>& v, std::size_t off)
    { Vec x; x.template at<0>() = BA::make_vec(m.first, v, off); x.template at<1>() = BB::make_vec(m.second, v, off + BA::npod(m.first)); return x; }
    static void snap(Vec& v, std::vector<DT>& out) { BA::snap(v.template at<0>(), out); BB::snap(v.template at<1>(), out); }
    template<typename P> static void check(vh::Ctx& c, const std::string& op, int call, const std::vector<DT>& orig, const std::vector<DT>& before, const std::vector<DT>& after, bool second, const Model& m, int& budget)
    {
      const std::size_t na = BA::npod(m.first), nb = BB::npod(m.second);
      if(orig.size() != na + nb || before.size() != na + nb || after.size() != na + nb) { c.viol(op, "dims", "{}"); return; }
      BA::template check<P>(c, op, call, slice(orig, 0, na), slice(before, 0, na), slice(after, 0, na), second, m.first, budget);
      BB::template check<P>(c, op, call, slice(orig, na, nb), slice(before, na, nb), slice(after, na, nb), second, m.second, budget);
    }
    static void ptrs(const Filter& f, Ptrs& vals, Ptrs& idx) { BA::ptrs(f.template at<0>(), vals, idx); BB::ptrs(f.template at<1>(), vals, idx); }
    static void data(vh::Ctx& c, const std::string& op, const Filter& f, const Model& m) { BA::data(c, op, f.template at<0>(), m.first); BB::data(c, op, f.template at<1>(), m.second); }
    static void shape(vh::Ctx& c, const std::string& op, const Filter& f, const Model& m) { BA::shape(c, op, f.template at<0>(), m.first); BB::shape(c, op, f.template at<1>(), m.second); }
  };
  // PowerFilter<A, 2> on PowerVector<VA, 2> (clone-into does not compile for PowerFilter: see rule)
  template<typename BA> struct PowerB
  {
    typedef typename BA::DT DT; typedef typename BA::IT IT; typedef PowerFilter<typename BA::Filter, 2> Filter;
    typedef PowerVector<typename BA::Vec, 2> Vec; typedef std::pair<typename BA::Model, typename BA::Model> Model;
    template<typename D2, typename I2> using Re = PowerB<typename BA::template Re<D2, I2>>;
    static constexpr bool clone_into = true;
    static std::string name() { return "powerfilter_" + BA::name(); }
    static Model gen(vh::Rng& r, Index n, int vstyle, Tags* t) { Model m; m.first = BA::gen(r, n, vstyle, t); m.second = BA::gen(r, n, vstyle, nullptr); return m; }
    static std::string describe(const Model& m) { return vh::J().raw("first", BA::describe(m.first)).raw("second", BA::describe(m.second)).str(); }
    static Filter build(vh::Rng& r, const Model& m) { Filter f; f.template at<0>() = BA::build(r, m.first); f.template at<1>() = BA::build(r, m.second); return f; }
    static std::size_t npod(const Model& m) { return BA::npod(m.first) + BA::npod(m.second); }
    static Vec make_vec(const Model& m, const std::vector<double>& v, std::size_t off)
    { Vec x; x.template at<0>() = BA::make_vec(m.first, v, off); x.template at<1>() = BA::make_vec(m.second, v, off + BA::npod(m.first)); return x; }
    static void snap(Vec& v, std::vector<DT>& out) { BA::snap(v.template at<0>(), out); BA::snap(v.template at<1>(), out); }
    template<typename P> static void check(vh::Ctx& c, const std::string& op, int call, const std::vector<DT>& orig, const std::vector<DT>& before, const std::vector<DT>& after, bool second, const Model& m, int& budget)
    {
      const std::size_t na = BA::npod(m.first), nb = BA::npod(m.second);
      if(orig.size() != na + nb || before.size() != na + nb || after.size() != na + nb) { c.viol(op, "dims", "{}"); return; }
      BA::template check<P>(c, op, call, slice(orig, 0, na), slice(before, 0, na), slice(after, 0, na), second, m.first, budget);
      BA::template check<P>(c, op, call, slice(orig, na, nb), slice(before, na, nb), slice(after, na, nb), second, m.second, budget);
    }
    static void ptrs(const Filter& f, Ptrs& vals, Ptrs& idx) { BA::ptrs(f.template at<0>(), vals, idx); BA::ptrs(f.template at<1>(), vals, idx); }
    static void data(vh::Ctx& c, const std::string& op, const Filter& f, const Model& m) { BA::data(c, op, f.template at<0>(), m.first); BA::data(c, op, f.template at<1>(), m.second); }
    static void shape(vh::Ctx& c, const std::string& op, const Filter& f, const Model& m) { BA::shape(c, op, f.template at<0>(), m.first); BA::shape(c, op, f.template at<1>(), m.second); }
  };
  // Global::Filter<A> on Global::Vector<VA> with an empty single-rank gate
  template<typename BA> struct GlobalB
  {
    typedef typename BA::DT DT; typedef typename BA::IT IT; typedef VectorMirror<DT, IT> Mir; typedef Global::Gate<typename BA::Vec, Mir> GateT;
    typedef Global::Filter<typename BA::Filter, Mir> Filter; typedef Global::Vector<typename BA::Vec, Mir> Vec; typedef typename BA::Model Model;
    template<typename D2, typename I2> using Re = GlobalB<typename BA::template Re<D2, I2>>;
    static constexpr bool clone_into = BA::clone_into;
    static std::string name() { return "globalfilter_" + BA::name(); }
    static Model gen(vh::Rng& r, Index n, int vstyle, Tags* t) { return BA::gen(r, n, vstyle, t); }
    static std::string describe(const Model& m) { return BA::describe(m); }
    static Filter build(vh::Rng& r, const Model& m) { Filter f; f.local() = BA::build(r, m); return f; }
    static std::size_t npod(const Model& m) { return BA::npod(m); }
    static Vec make_vec(const Model& m, const std::vector<double>& v, std::size_t off) { static GateT gate; return Vec(&gate, BA::make_vec(m, v, off)); }
    static void snap(Vec& v, std::vector<DT>& out) { BA::snap(v.local(), out); }
    template<typename P> static void check(vh::Ctx& c, const std::string& op, int call, const std::vector<DT>& orig, const std::vector<DT>& before, const std::vector<DT>& after, bool second, const Model& m, int& budget)
    { BA::template check<P>(c, op, call, orig, before, after, second, m, budget); }
    static void ptrs(const Filter& f, Ptrs& vals, Ptrs& idx) { BA::ptrs(f.local(), vals, idx); }
    static void data(vh::Ctx& c, const std::string& op, const Filter& f, const Model& m) { BA::data(c, op, f.local(), m); }
    static void shape(vh::Ctx& c, const std::string& op, const Filter& f, const Model& m) { BA::shape(c, op, f.local(), m); }
  };

  // MeanFilterBlocked::convert() does not compile on the pinned tree (`_volume = DataType(other.get_volume())` with a Tiny::Vector
  // volume): the class does not "offer the member", its convert derivations are left out
  template<typename B> struct HasConvert : std::true_type {};
  

  // UnitFilterBlocked::convert() from ANOTHER data/index type does not compile on the pinned tree either (`other._ignore_nans` is a
  // private member of a different class template instance and there is no getter): only the same-type convert exists for every
  // filter that contains a UnitFilterBlocked
  template<typename B> struct HasConvertOther : std::true_type {};
  
  
  template<typename BA, typename BB> struct HasConvertOther<TupleB<BA, BB>> : std::integral_constant<bool, HasConvertOther<BA>::value && HasConvertOther<BB>::value> {};
  template<typename BA> struct HasConvertOther<PowerB<BA>> : HasConvertOther<BA> {};
  template<typename BA> struct HasConvertOther<SeqB<BA>> : HasConvertOther<BA> {};
  template<typename BA> struct HasConvertOther<GlobalB<BA>> : HasConvertOther<BA> {};

  // ================================================================== the generic driver
  template<typename DT> struct Res { std::vector<DT> a1[4], a2[4]; };

  // applies the four calls (twice each) of `g` to the inputs, judges every result by the model and (ref != null) demands bit-identity
  // with the results of the original
  template<typename Bx, typename P = typename Bx::DT>
  Res<typename Bx::DT> judge(vh::Ctx& c, const std::string& op, const typename Bx::Filter& g, const typename Bx::Model& m,
                             const std::vector<std::vector<double>>& in, const Res<typename Bx::DT>* ref, int& budget)
  {
    typedef typename Bx::DT DT;
    Res<DT> out;
    c.set_op(op);
    Bx::data(c, op, g, m);
    for(int call = 0; call < 4; ++call)
    {
      auto v = Bx::make_vec(m, in[std::size_t(call)], 0);
      std::vector<DT> orig; Bx::snap(v, orig);
      apply(g, v, call); c.event();
      Bx::snap(v, out.a1[call]);
      Bx::template check<P>(c, op, call, orig, orig, out.a1[call], false, m, budget);
      apply(g, v, call); c.event();
      Bx::snap(v, out.a2[call]);
      Bx::template check<P>(c, op, call, orig, out.a1[call], out.a2[call], true, m, budget);
      if(ref)
      {
        check_same_bits<DT>(c, op, "differs-from-original", out.a1[call], ref->a1[call], budget);
        check_same_bits<DT>(c, op, "differs-from-original", out.a2[call], ref->a2[call], budget);
      }
    }
    return out;
  }
  // sharing: `deep` => no array of g may be an array of f; `weak` => no value array of g may be a value array of f
  template<typename B>
  void alias_check(vh::Ctx& c, const std::string& op, const typename B::Filter& f, const typename B::Filter& g, bool deep)
  {
    Ptrs fv, fi, gv, gi; B::ptrs(f, fv, fi); B::ptrs(g, gv, gi);
    c.event();
    for(const void* p : gv) if(std::find(fv.begin(), fv.end(), p) != fv.end()) { c.viol(op, "aliases-original", vh::J().kv("array", "values").str()); return; }
    if(deep) for(const void* p : gi) if(std::find(fi.begin(), fi.end(), p) != fi.end()) { c.viol(op, "aliases-original", vh::J().kv("array", "indices").str()); return; }
  }

  template<typename B>
  void derived_case(vh::Ctx& c)
  {
    typedef typename B::DT DT; typedef typename B::IT IT;
    typedef typename std::conditional<std::is_same<DT, double>::value, float, double>::type DT2;
    typedef typename std::conditional<std::is_same<IT, std::uint64_t>::value, std::uint32_t, std::uint64_t>::type IT2;
    typedef typename B::template Re<DT2, IT2> B2;
    typedef typename B::Filter F; typedef typename B2::Filter F2; typedef typename B::Model M;
    vh::Rng& rng = c.rng;
    const Index n = pick_size(rng, false); const int vstyle = int(rng.below(3));
    Tags tags;
    const M m = B::gen(rng, n, vstyle, &tags);
    const M mo = B::gen(rng, pick_size(rng, false), vstyle, nullptr);      // contents of the "non-empty target" filters
    const std::string base = B::name();
    c.tag("filter:" + base); for(auto& t : tags) c.tag(t);
    common_tags(c, n, vl::dt_name<DT>(), vl::it_name<IT>());
    c.desc = B::describe(m);
    int budget = 8;
    c.set_op(base + ".construct");
    F f = B::build(rng, m);
    std::vector<std::vector<double>> in(4);
    for(auto& v : in) v = vl::gen_vec(rng, Index(B::npod(m)), vstyle);
    const Res<DT> ref = judge<B>(c, base + ".original", f, m, in, nullptr, budget);

    // ---- convert to the same type (onto an empty and onto a non-empty filter)
    if constexpr(HasConvert<B>::value)
    {
    { c.set_op(base + ".convert_same"); F g; g.convert(f); c.event(); judge<B>(c, base + ".convert_same", g, m, in, &ref, budget); }
    { c.set_op(base + ".convert_same"); F g = B::build(rng, mo); g.convert(f); c.event(); judge<B>(c, base + ".convert_same", g, m, in, &ref, budget); }
    // ---- convert to the other data/index type and back (all model values are float numbers: both directions are exact)
    if constexpr(HasConvertOther<B>::value)
    {
      c.set_op(base + ".convert_other"); F2 g2; g2.convert(f); c.event();
      judge<B2, float>(c, base + ".convert_other", g2, m, in, nullptr, budget);   // mean filters: judged in the narrower precision
      // back: only for the widening direction (float -> double -> float is exact also for the volume of mean filters)
      if constexpr(sizeof(DT2) > sizeof(DT))
      {
        c.set_op(base + ".convert_back"); F g; if(rng.coin(0.5)) g = B::build(rng, mo); g.convert(g2); c.event();
        judge<B>(c, base + ".convert_back", g, m, in, &ref, budget);
      }
    }
    }
    // ---- clone(mode)
    {
      static const CloneMode modes[] = {CloneMode::Shallow, CloneMode::Weak, CloneMode::Deep};
      static const char* mn[] = {"clone_shallow", "clone_weak", "clone_deep"};
      for(int q = 0; q < 3; ++q)
      {
        const std::string op = base + "." + mn[q];
        c.set_op(op); F g = f.clone(modes[q]); c.event();
        if(q > 0) alias_check<B>(c, op, f, g, q == 2);
        judge<B>(c, op, g, m, in, &ref, budget);
      }
      // layout / allocate: only the shape is defined (values uninitialised)
      { const std::string op = base + ".clone_layout"; c.set_op(op); F g = f.clone(CloneMode::Layout); c.event(); B::shape(c, op, g, m); alias_check<B>(c, op, f, g, false); }
      { const std::string op = base + ".clone_allocate"; c.set_op(op); F g = f.clone(CloneMode::Allocate); c.event(); B::shape(c, op, g, m); alias_check<B>(c, op, f, g, true); }
    }
    // ---- g.clone(f, mode) onto an empty / a non-empty filter
    if constexpr(B::clone_into)
    {
      static const CloneMode modes[] = {CloneMode::Shallow, CloneMode::Weak, CloneMode::Deep};
      const int q = int(rng.below(3));
      const std::string op = base + ".clone_into";
      c.set_op(op); F g; if(rng.coin(0.6)) g = B::build(rng, mo); g.clone(f, modes[q]); c.event();
      if(q > 0) alias_check<B>(c, op, f, g, q == 2);
      judge<B>(c, op, g, m, in, &ref, budget);
    }
    // ---- move construction / move assignment from a second directly built filter of the same model
    { const std::string op = base + ".move_ctor"; c.set_op(op); F t = B::build(rng, m); F g(std::move(t)); c.event(); judge<B>(c, op, g, m, in, &ref, budget); }
    { const std::string op = base + ".move_assign"; c.set_op(op); F t = B::build(rng, m); F g; g = std::move(t); c.event(); judge<B>(c, op, g, m, in, &ref, budget); }
    { const std::string op = base + ".move_assign"; c.set_op(op); F t = B::build(rng, m); F g = B::build(rng, mo); g = std::move(t); c.event(); judge<B>(c, op, g, m, in, &ref, budget); }
    // ---- the original: data and behaviour unchanged by everything above
    {
      const std::string op = base + ".original_after";
      const Res<DT> again = judge<B>(c, op, f, m, in, &ref, budget);
      (void)again;
    }
  }

  // sel: 0 unit, 1/2 unitblocked<2/3>, 3/4 slip<2/3>, 5 mean, 6 meanblocked<2>, 7 none, 8 noneblocked<2>, 9/10 chain(slip,unitblocked)<2/3>,
  //      11 sequence(slip<2>), 12 sequence(unit), 13 tuple(slip<2>,mean), 14 tuple(unitblocked<2>,unit), 15 power(unit), 16 global(slip<2>), 17 global(unit)
  static const int derived_nsel = 18;
  template<typename DT, typename IT>
  void derived_dispatch(vh::Ctx& c, long, int sel)
  {
    switch(sel)
    {
    case 0: derived_case<UnitB<DT, IT>>(c); break;
    case 1: derived_case<UBlkB<DT, IT, 2>>(c); break;
    case 2: derived_case<UBlkB<DT, IT, 3>>(c); break;
    case 3: derived_case<SlipB<DT, IT, 2>>(c); break;
    case 4: derived_case<SlipB<DT, IT, 3>>(c); break;
    case 5: derived_case<MeanB<DT, IT>>(c); break;
    case 6: derived_case<MeanBlkB<DT, IT, 2>>(c); break;
    case 7: derived_case<NoneB<DT, IT>>(c); break;
    case 8: derived_case<NoneBlkB<DT, IT, 2>>(c); break;
    case 9: derived_case<ChainB<DT, IT, 2>>(c); break;
    case 10: derived_case<ChainB<DT, IT, 3>>(c); break;
    case 11: derived_case<SeqB<SlipB<DT, IT, 2>>>(c); break;
    case 12: derived_case<SeqB<UnitB<DT, IT>>>(c); break;
    case 13: derived_case<TupleB<SlipB<DT, IT, 2>, MeanB<DT, IT>>>(c); break;
    case 14: derived_case<TupleB<UBlkB<DT, IT, 2>, UnitB<DT, IT>>>(c); break;
    case 15: derived_case<PowerB<UnitB<DT, IT>>>(c); break;
    case 16: derived_case<GlobalB<SlipB<DT, IT, 2>>>(c); break;
    default: derived_case<GlobalB<UnitB<DT, IT>>>(c); break;
    }
  }
}} // namespace c06::drv
