// composed.hpp -- C06 monitors of the composed filters: NoneFilter(/Blocked), FilterChain, FilterSequence, PowerFilter,
// TupleFilter, Global::Filter (single rank).  Only compositions whose constraints can hold simultaneously are generated:
// unit filters on one vector (later filter wins on shared indices), slip + blocked unit filter on disjoint index sets,
// independent filters on the components of Power/Tuple vectors.  Included by the instantiating TUs only.
#pragma once
#include "mat.hpp"
#include <kernel/lafem/power_vector.hpp>
#include <kernel/lafem/tuple_vector.hpp>
#include <kernel/lafem/power_filter.hpp>
#include <kernel/lafem/tuple_filter.hpp>
#include <kernel/lafem/vector_mirror.hpp>
#include <kernel/global/gate.hpp>
#include <kernel/global/vector.hpp>
#include <kernel/global/filter.hpp>

namespace c06
{
  inline UnitModel gen_unit_n(vh::Rng& r, Index n, int bs, int vstyle, std::string& kind)
  {
    UnitModel m; m.n = n; m.bs = bs; m.idx = pick_indices(r, n, kind);
    m.val.resize(m.idx.size() * std::size_t(bs)); for(auto& v : m.val) v = vl::gen_value(r, vstyle);
    return m;
  }
  inline void common_tags(vh::Ctx& c, Index n, const char* dt, const char* it)
  { c.tag(size_tag(n)); c.tag(std::string("dt:") + dt); c.tag(std::string("it:") + it); }
} // namespace c06
#include "mix.hpp"
namespace c06
{

  // ------------------------------------------------------------------ NoneFilter / NoneFilterBlocked: nothing may change
  template<typename DT, typename IT>
  void none_case(vh::Ctx& c)
  {
    vh::Rng& rng = c.rng;
    const Index n = pick_size(rng, true); const int vstyle = int(rng.below(4));
    common_tags(c, n, vl::dt_name<DT>(), vl::it_name<IT>()); c.tag("set:empty");
    c.desc = vh::J().kv("size", (unsigned long)n).str();
    int budget = 6;
    NoneFilter<DT, IT> f;
    run_calls<DT>(c, "nonefilter", f, std::size_t(n), vstyle,
      [&](const std::vector<double>& v) { return vl::make_dv<DT, IT>(v); },
      [&](const std::string& op, int, const std::vector<DT>&, const std::vector<DT>& before, const std::vector<DT>& after, bool)
      { check_same_bits<DT>(c, op, "complement-modified", before, after, budget); });
    NoneFilterBlocked<DT, IT, 2> fb;
    run_calls<DT>(c, "nonefilterblocked", fb, std::size_t(n) * 2, vstyle,
      [&](const std::vector<double>& v) { DenseVectorBlocked<DT, IT, 2> x(n); fill(x, v); return x; },
      [&](const std::string& op, int, const std::vector<DT>&, const std::vector<DT>& before, const std::vector<DT>& after, bool)
      { check_same_bits<DT>(c, op, "complement-modified", before, after, budget); });
    if(n > 0)
    {
      MatSpec m = gen_pattern(rng, n, n, vstyle, false, false);
      auto a = vl::make_csr<DT, IT>(m);
      const std::uint64_t h = vl::container_hash(a);
      c.set_op("nonefilter.filter_mat"); f.filter_mat(a); c.event();
      if(vl::container_hash(a) != h) c.viol("nonefilter.filter_mat", "other-row-modified", "{}");
    }
  }

  // ------------------------------------------------------------------ FilterChain<UnitFilter,UnitFilter> / FilterSequence<UnitFilter>
  template<typename DT, typename IT>
  void unit_chain_case(vh::Ctx& c, bool sequence)
  {
    typedef UnitFilter<DT, IT> UF;
    vh::Rng& rng = c.rng;
    const Index n = pick_size(rng, false); const int vstyle = int(rng.below(4));
    const int nf = sequence ? int(rng.below(4)) : 2;
    std::vector<UnitModel> ms; std::string kinds;
    for(int q = 0; q < nf; ++q) { std::string k; ms.push_back(gen_unit_n(rng, n, 1, vstyle, k)); kinds += (q ? "+" : "") + k.substr(4); }
    UnitModel mm = merge(ms); mm.n = n; mm.bs = 1;
    bool overlap = false; { std::size_t tot = 0; for(auto& m : ms) tot += m.idx.size(); overlap = tot != mm.idx.size(); }
    common_tags(c, n, vl::dt_name<DT>(), vl::it_name<IT>());
    c.tag(sequence ? "seq:" + std::to_string(nf) : std::string("chain:unit+unit")); c.tag("sets:" + kinds); if(overlap) c.tag("overlap");
    { vh::J a('['); for(auto& m : ms) a.add_raw(m.describe()); c.desc = vh::J().raw("filters", a.str()).str(); }
    int budget = 6;
    const std::string base = sequence ? "filtersequence" : "filterchain";
    auto checker = [&](const std::string& op, int call, const std::vector<DT>&, const std::vector<DT>& before, const std::vector<DT>& after, bool second)
    {
      check_unit<DT>(c, op, call, before, after, mm, budget);
      if(second) check_same_bits<DT>(c, op, "not-idempotent", before, after, budget);
    };
    auto mkv = [&](const std::vector<double>& v) { return vl::make_dv<DT, IT>(v); };
    // matrix: rows of the union become identity rows (where the diagonal is stored)
    MatSpec m = gen_pattern(rng, n, n, vstyle, false, rng.coin(0.5));
    for(auto& t : m.tags) if(t == "entry_free" || t == "empty_row" || t == "missing_diag" || t == "full_diag") c.tag(t);   // before any set_op
    const bool risky = m.t.empty() && !mm.idx.empty();
    RowJudge J; J.con_row.assign(n, 0); J.ident_ok.assign(n, 0); J.row_val.assign(n, 0.0);
    for(Index i : mm.idx) J.con_row[i] = 1;
    for(auto& e : m.t) { J.pos.push_back({e.r, e.c}); if(e.r == e.c) J.ident_ok[e.r] = 1; }
    auto a = vl::make_csr<DT, IT>(m);
    std::vector<DT> b0; if(!m.t.empty()) b0.assign(a.val(), a.val() + m.t.size());
    c.set_op(base + ".construct");
    if(sequence)
    {
      FilterSequence<UF> f;
      if(rng.coin(0.5)) { std::deque<String> ids; for(int q = 0; q < nf; ++q) ids.push_back("f" + stringify(q)); f = FilterSequence<UF>(ids);
        for(int q = 0; q < nf; ++q) f.find_or_add("f" + stringify(q)) = make_unit<DT, IT>(rng, ms[std::size_t(q)], int(rng.below(3))); }
      else for(int q = 0; q < nf; ++q) f.find_or_add("g" + stringify(q)) = make_unit<DT, IT>(rng, ms[std::size_t(q)], int(rng.below(3)));
      c.event(); if(f.size() != std::size_t(nf)) c.viol(base + ".construct", "dims", vh::J().kv("size", (unsigned long)f.size()).str());
      run_calls<DT>(c, base, f, std::size_t(n), vstyle, mkv, checker);
      c.set_op(base + ".filter_mat");
      if(risky && !probe(c, base + ".filter_mat", [&] { f.filter_mat(a); })) return;
      f.filter_mat(a); c.event();
    }
    else
    {
      FilterChain<UF, UF> f(make_unit<DT, IT>(rng, ms[0], int(rng.below(3))), make_unit<DT, IT>(rng, ms[1], int(rng.below(3))));
      run_calls<DT>(c, base, f, std::size_t(n), vstyle, mkv, checker);
      c.set_op(base + ".filter_mat");
      if(risky && !probe(c, base + ".filter_mat", [&] { f.filter_mat(a); })) return;
      f.filter_mat(a); c.event();
    }
    std::vector<DT> a1; if(!m.t.empty()) a1.assign(a.val(), a.val() + m.t.size());
    judge_rows<DT>(c, base + ".filter_mat", 0, J, b0, a1, nullptr, budget);
  }

  // ------------------------------------------------------------------ FilterChain<SlipFilter<BS>, UnitFilterBlocked<BS>> on disjoint index sets
  template<typename DT, typename IT, int BS>
  void slip_unit_chain_case(vh::Ctx& c)
  {
    typedef DenseVectorBlocked<DT, IT, BS> Vec;
    vh::Rng& rng = c.rng;
    const Index n = pick_size(rng, false); const int vstyle = int(rng.below(3));
    std::string k1, k2;
    SlipModel sm = gen_slip(rng, n, BS, vstyle, k1);
    UnitModel um = gen_unit_n(rng, n, BS, vstyle, k2);
    // make the sets disjoint: the unit filter keeps only blocks the slip filter does not touch
    {
      std::set<Index> sl(sm.idx.begin(), sm.idx.end());
      UnitModel u2 = um; u2.idx.clear(); u2.val.clear();
      for(std::size_t i = 0; i < um.idx.size(); ++i) if(!sl.count(um.idx[i])) { u2.idx.push_back(um.idx[i]); for(int k = 0; k < BS; ++k) u2.val.push_back(um.val[i * BS + std::size_t(k)]); }
      um = u2;
    }
    common_tags(c, n, vl::dt_name<DT>(), vl::it_name<IT>());
    c.tag("chain:slip+unitblocked"); c.tag("bs:" + std::to_string(BS)); c.tag("slip_" + k1); c.tag(um.idx.empty() ? "unit_set:empty" : "unit_set:nonempty");
    c.desc = vh::J().raw("slip", sm.describe()).raw("unit", um.describe()).str();
    std::vector<char> slip_mask(std::size_t(n) * BS, 0), unit_mask(std::size_t(n) * BS, 0);
    for(Index i : sm.idx) for(int k = 0; k < BS; ++k) slip_mask[std::size_t(i) * BS + std::size_t(k)] = 1;
    for(Index i : um.idx) for(int k = 0; k < BS; ++k) unit_mask[std::size_t(i) * BS + std::size_t(k)] = 1;
    int budget = 6;
    c.set_op("filterchain.construct");
    FilterChain<SlipFilter<DT, IT, BS>, UnitFilterBlocked<DT, IT, BS>> f(make_slip<DT, IT, BS>(rng, sm, false), make_unit_blocked<DT, IT, BS>(rng, um, int(rng.below(3)), false));
    run_calls<DT>(c, "filterchain_slip_unit", f, std::size_t(n) * BS, vstyle,
      [&](const std::vector<double>& v) { Vec x(n); fill(x, v); return x; },
      [&](const std::string& op, int call, const std::vector<DT>& orig, const std::vector<DT>& before, const std::vector<DT>& after, bool second)
      {
        check_slip<DT>(c, op, orig, before, after, sm, second, budget, &unit_mask);
        check_unit<DT>(c, op, call, before, after, um, budget, &slip_mask);
      });
  }

  // ------------------------------------------------------------------ PowerFilter / TupleFilter
  template<typename DT, typename IT>
  void power_tuple_case(vh::Ctx& c, int which)
  {
    typedef DenseVector<DT, IT> SV;
    typedef UnitFilter<DT, IT> UF;
    vh::Rng& rng = c.rng;
    const Index n = pick_size(rng, false), n2 = rng.coin(0.5) ? n : pick_size(rng, false);
    const int vstyle = int(rng.pick<int>({0, 1, 3}));
    std::string k0, k1, k2, km;
    UnitModel u0 = gen_unit_n(rng, n, 1, vstyle, k0), u1 = gen_unit_n(rng, n, 1, vstyle, k1);
    common_tags(c, n, vl::dt_name<DT>(), vl::it_name<IT>());
    int budget = 6;
    auto unit_chk = [&](const std::string& op, int call, const UnitModel& m, const std::vector<DT>& b, const std::vector<DT>& a, const std::vector<DT>* a_prev)
    { check_unit<DT>(c, op, call, b, a, m, budget); if(a_prev) check_same_bits<DT>(c, op, "not-idempotent", *a_prev, a, budget); };
    if(which == 0)
    {
      // PowerFilter<UnitFilter,2> on PowerVector<DenseVector,2>
      typedef PowerVector<SV, 2> PV; typedef PowerFilter<UF, 2> PF;
      c.tag("power:unit^2"); c.tag("sets:" + k0.substr(4) + "+" + k1.substr(4));
      c.desc = vh::J().raw("f0", u0.describe()).raw("f1", u1.describe()).str();
      c.set_op("powerfilter.construct");
      PF f; f.template at<0>() = make_unit<DT, IT>(rng, u0, int(rng.below(3))); f.template at<1>() = make_unit<DT, IT>(rng, u1, int(rng.below(3)));
      for(int call = 0; call < 4; ++call)
      {
        const std::string op = std::string("powerfilter.") + call_name(call);
        PV v; v.template at<0>() = vl::make_dv<DT, IT>(vl::gen_vec(rng, n, vstyle)); v.template at<1>() = vl::make_dv<DT, IT>(vl::gen_vec(rng, n, vstyle));
        auto b0 = snapshot(v.template at<0>()), b1 = snapshot(v.template at<1>());
        c.set_op(op); apply(f, v, call); c.event();
        auto a0 = snapshot(v.template at<0>()), a1 = snapshot(v.template at<1>());
        unit_chk(op, call, u0, b0, a0, nullptr); unit_chk(op, call, u1, b1, a1, nullptr);
        apply(f, v, call); c.event();
        unit_chk(op, call, u0, a0, snapshot(v.template at<0>()), &a0); unit_chk(op, call, u1, a1, snapshot(v.template at<1>()), &a1);
      }
    }
    else if(which == 1)
    {
      // TupleFilter<PowerFilter<UnitFilter,2>, MeanFilter> on TupleVector<PowerVector<DV,2>, DV>
      typedef PowerVector<SV, 2> PV; typedef PowerFilter<UF, 2> PF; typedef MeanFilter<DT, IT> MF;
      typedef TupleVector<PV, SV> TV; typedef TupleFilter<PF, MF> TF;
      MeanModel mm = gen_mean(rng, n2, 1, km);
      c.tag("tuple:(unit^2,mean)"); c.tag("sets:" + k0.substr(4) + "+" + k1.substr(4)); c.tag(km);
      c.desc = vh::J().raw("f0", u0.describe()).raw("f1", u1.describe()).raw("mean", mm.describe()).str();
      c.set_op("tuplefilter.construct");
      PF pf; pf.template at<0>() = make_unit<DT, IT>(rng, u0, int(rng.below(3))); pf.template at<1>() = make_unit<DT, IT>(rng, u1, int(rng.below(3)));
      TF f(std::move(pf), MF(vl::make_dv<DT, IT>(mm.prim), vl::make_dv<DT, IT>(mm.dual), DT(mm.sol_mean[0])));
      for(int call = 0; call < 4; ++call)
      {
        const std::string op = std::string("tuplefilter.") + call_name(call);
        PV pv; pv.template at<0>() = vl::make_dv<DT, IT>(vl::gen_vec(rng, n, vstyle)); pv.template at<1>() = vl::make_dv<DT, IT>(vl::gen_vec(rng, n, vstyle));
        TV v(std::move(pv), vl::make_dv<DT, IT>(vl::gen_vec(rng, n2, vstyle)));
        auto& p = v.template at<0>(); auto& s = v.template at<1>();
        auto b0 = snapshot(p.template at<0>()), b1 = snapshot(p.template at<1>()), b2 = snapshot(s);
        c.set_op(op); apply(f, v, call); c.event();
        auto a0 = snapshot(p.template at<0>()), a1 = snapshot(p.template at<1>()), a2 = snapshot(s);
        unit_chk(op, call, u0, b0, a0, nullptr); unit_chk(op, call, u1, b1, a1, nullptr);
        check_mean<DT>(c, op, call, b2, a2, mm, false, budget);
        apply(f, v, call); c.event();
        unit_chk(op, call, u0, a0, snapshot(p.template at<0>()), &a0); unit_chk(op, call, u1, a1, snapshot(p.template at<1>()), &a1);
        check_mean<DT>(c, op, call, b2, snapshot(s), mm, true, budget);
      }
    }
    else
    {
      // TupleFilter<UnitFilterBlocked<2>, UnitFilter> on TupleVector<DenseVectorBlocked<2>, DenseVector> (velocity/pressure like)
      typedef DenseVectorBlocked<DT, IT, 2> BV; typedef UnitFilterBlocked<DT, IT, 2> BF;
      typedef TupleVector<BV, SV> TV; typedef TupleFilter<BF, UF> TF;
      UnitModel ub = gen_unit_n(rng, n, 2, vstyle, k2); UnitModel us = gen_unit_n(rng, n2, 1, vstyle, k1);
      c.tag("tuple:(unitblocked2,unit)"); c.tag("sets:" + k2.substr(4) + "+" + k1.substr(4));
      c.desc = vh::J().raw("f0", ub.describe()).raw("f1", us.describe()).str();
      c.set_op("tuplefilter.construct");
      TF f(make_unit_blocked<DT, IT, 2>(rng, ub, int(rng.below(3)), false), make_unit<DT, IT>(rng, us, int(rng.below(3))));
      for(int call = 0; call < 4; ++call)
      {
        const std::string op = std::string("tuplefilter.") + call_name(call);
        BV bv(n); fill(bv, vl::gen_vec(rng, n * 2, vstyle));
        TV v(std::move(bv), vl::make_dv<DT, IT>(vl::gen_vec(rng, n2, vstyle)));
        auto& p = v.template at<0>(); auto& s = v.template at<1>();
        auto b0 = snapshot(p), b1 = snapshot(s);
        c.set_op(op); apply(f, v, call); c.event();
        auto a0 = snapshot(p), a1 = snapshot(s);
        unit_chk(op, call, ub, b0, a0, nullptr); unit_chk(op, call, us, b1, a1, nullptr);
        apply(f, v, call); c.event();
        unit_chk(op, call, ub, a0, snapshot(p), &a0); unit_chk(op, call, us, a1, snapshot(s), &a1);
      }
    }
  }

  // ------------------------------------------------------------------ Global::Filter<UnitFilter> on a single rank
  template<typename DT, typename IT>
  void global_case(vh::Ctx& c)
  {
    typedef DenseVector<DT, IT> SV; typedef VectorMirror<DT, IT> Mir;
    typedef Global::Gate<SV, Mir> GateT; typedef Global::Vector<SV, Mir> GV; typedef Global::Filter<UnitFilter<DT, IT>, Mir> GF;
    vh::Rng& rng = c.rng;
    const Index n = pick_size(rng, false); const int vstyle = int(rng.below(4));
    std::string kind;
    UnitModel m = gen_unit_n(rng, n, 1, vstyle, kind);
    common_tags(c, n, vl::dt_name<DT>(), vl::it_name<IT>()); c.tag("global:unit"); c.tag(kind);
    c.desc = m.describe();
    int budget = 6;
    c.set_op("globalfilter.construct");
    GateT gate;
    GF f; f.local() = make_unit<DT, IT>(rng, m, int(rng.below(3)));
    GF f2 = rng.coin(0.5) ? f.clone(CloneMode::Deep) : GF();
    const GF& ff = f2.local().size() == n && f2.local().used_elements() == m.idx.size() && rng.coin(0.5) ? f2 : f;
    for(int call = 0; call < 4; ++call)
    {
      const std::string op = std::string("globalfilter.") + call_name(call);
      GV v(&gate, vl::make_dv<DT, IT>(vl::gen_vec(rng, n, vstyle)));
      auto b = snapshot(v.local());
      c.set_op(op); apply(ff, v, call); c.event();
      auto a = snapshot(v.local());
      check_unit<DT>(c, op, call, b, a, m, budget);
      apply(ff, v, call); c.event();
      auto a2 = snapshot(v.local());
      check_unit<DT>(c, op, call, a, a2, m, budget);
      check_same_bits<DT>(c, op, "not-idempotent", a, a2, budget);
    }
  }

  // sel: 0 none, 1 chain unit+unit, 2 sequence, 3/4 chain slip+unit <2>/<3>, 5 power, 6 tuple(power,mean), 7 tuple(blocked,unit), 8 global,
  //      9..15 scalar mixes with mean filters, 16..19 blocked<2> mixes, 20..21 blocked<3> mixes, 22..25 tuple/power mixes
  template<typename DT, typename IT>
  void composed_dispatch(vh::Ctx& c, long, int sel)
  {
    switch(sel)
    {
    case 0: none_case<DT, IT>(c); break;
    case 1: unit_chain_case<DT, IT>(c, false); break;
    case 2: unit_chain_case<DT, IT>(c, true); break;
    case 3: slip_unit_chain_case<DT, IT, 2>(c); break;
    case 4: slip_unit_chain_case<DT, IT, 3>(c); break;
    case 5: power_tuple_case<DT, IT>(c, 0); break;
    case 6: power_tuple_case<DT, IT>(c, 1); break;
    case 7: power_tuple_case<DT, IT>(c, 2); break;
    case 8: global_case<DT, IT>(c); break;
    case 9: case 10: case 11: case 12: case 13: case 14: case 15: mix_scalar_case<DT, IT>(c, sel - 9); break;
    case 16: case 17: case 18: case 19: mix_blocked_case<DT, IT, 2>(c, sel - 16); break;
    case 20: mix_blocked_case<DT, IT, 3>(c, 0); break;
    case 21: mix_blocked_case<DT, IT, 3>(c, 3); break;
    default: mix_meta_case<DT, IT>(c, (sel - 22) & 3); break;
    }
  }
} // namespace c06
