// C06 -- filters impose their constraints exactly and idempotently: family registry + main
#include <common/vh_lafem.hpp>
#define C06_DECL3(fn) \
  namespace c06 { template<typename DT, typename IT> void fn(vh::Ctx&, long edge, int sel); \
  extern template void fn<double, std::uint64_t>(vh::Ctx&, long, int); extern template void fn<double, std::uint32_t>(vh::Ctx&, long, int); \
  extern template void fn<float, std::uint64_t>(vh::Ctx&, long, int); extern template void fn<float, std::uint32_t>(vh::Ctx&, long, int); }
C06_DECL3(vec_dispatch)
C06_DECL3(mat_dispatch)
C06_DECL3(composed_dispatch)
#define C06_DISPATCH(fn, combo, c, edge, sel) \
  switch(combo) { \
  case 0: c06::fn<double, std::uint64_t>(c, edge, sel); break; \
  case 1: c06::fn<double, std::uint32_t>(c, edge, sel); break; \
  case 2: c06::fn<float, std::uint64_t>(c, edge, sel); break; \
  default: c06::fn<float, std::uint32_t>(c, edge, sel); break; }

// vector monitors: sel 0 UnitFilter, 1-3 UnitFilterBlocked<2,3,4>, 4-5 SlipFilter<2,3>, 6 MeanFilter, 7-8 MeanFilterBlocked<2,3>
// edge corpus: 60 (size x set) combinations for each of the 9 filter kinds, alternating <double,u64> / <float,u32>
VH_FAMILY(vec)
{
  int combo, sel; long edge;
  if(c.k < 9 * 60) { sel = int(c.k / 60); edge = long(c.k % 60); combo = (c.k % 2) ? 3 : 0; }
  else { edge = -1; combo = int(c.rng.below(4)); static const int w[] = {0, 0, 0, 1, 2, 3, 4, 4, 5, 6, 6, 7, 8}; sel = w[c.rng.below(sizeof(w) / sizeof(w[0]))]; }
  C06_DISPATCH(vec_dispatch, combo, c, edge, sel)
}
// matrix monitors: sel 0 UnitFilter/CSR, 1-6 UnitFilterBlocked/BCSR, 7-10 UnitFilter::filter_offdiag_row_mat on BCSR<1,w>/<h,1>
VH_FAMILY(mat)
{
  int combo, sel; long edge;
  if(c.k < 11 * 60) { sel = int(c.k / 60); edge = long(c.k % 60); combo = (c.k % 2) ? 3 : 0; }
  else { edge = -1; combo = int(c.rng.below(4)); static const int w[] = {0, 0, 0, 0, 0, 1, 1, 2, 3, 4, 5, 6, 7, 8, 9, 10}; sel = w[c.rng.below(sizeof(w) / sizeof(w[0]))]; }
  C06_DISPATCH(mat_dispatch, combo, c, edge, sel)
}
// composed filters: sel 0 none, 1 chain(unit,unit), 2 sequence, 3/4 chain(slip,unitblocked)<2/3>, 5 power, 6/7 tuple, 8 global, 9..25 mixes
VH_FAMILY(composed)
{
  // sel 0..8 as before; 9..25: composition oracle for mixes with mean filters (chains of length 2 and 3, sequences, tuple/power)
  const int nsel = 26;
  const int combo = c.k < std::uint64_t(4 * nsel) ? int(c.k % 4) : int(c.rng.below(4));
  int sel;
  if(c.k < std::uint64_t(4 * nsel)) sel = int(c.k / 4);
  else sel = c.rng.coin(0.5) ? int(c.rng.below(9)) : 9 + int(c.rng.below(17));
  C06_DISPATCH(composed_dispatch, combo, c, -1L, sel)
}
VH_FEAT_MAIN
