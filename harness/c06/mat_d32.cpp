// explicit instantiation of the matrix-monitor dispatcher for <double, std::uint32_t>
#include "mat.hpp"
namespace c06 { template void mat_dispatch<double, std::uint32_t>(vh::Ctx&, long, int); }
