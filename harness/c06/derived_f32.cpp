// explicit instantiation of the derived-filter dispatcher for <float, std::uint32_t>
#include "derived.hpp"
namespace c06 { namespace drv { template void derived_dispatch<float, std::uint32_t>(vh::Ctx&, long, int); } }
