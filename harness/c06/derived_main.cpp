// C06 family `derived`: registry (the dispatchers are instantiated in derived_{d64,d32,f64,f32}.cpp)
#include <common/vh_lafem.hpp>
namespace c06 { namespace drv {
  template<typename DT, typename IT> void derived_dispatch(vh::Ctx&, long edge, int sel);
  extern template void derived_dispatch<double, std::uint64_t>(vh::Ctx&, long, int); extern template void derived_dispatch<double, std::uint32_t>(vh::Ctx&, long, int);
  extern template void derived_dispatch<float, std::uint64_t>(vh::Ctx&, long, int); extern template void derived_dispatch<float, std::uint32_t>(vh::Ctx&, long, int);
}}
// derived filter objects (convert / clone / move) of every filter class: sel 0..17 (see derived.hpp); the first 4*18 cases run every
// (class, type) pair once, then random
VH_FAMILY(derived)
{
  const int nsel = 18;
  int combo, sel;
  if(c.k < std::uint64_t(4 * nsel)) { sel = int(c.k / 4); combo = int(c.k % 4); }
  else { combo = int(c.rng.below(4)); sel = int(c.rng.below(nsel)); }
  switch(combo)
  {
  case 0: c06::drv::derived_dispatch<double, std::uint64_t>(c, -1L, sel); break;
  case 1: c06::drv::derived_dispatch<double, std::uint32_t>(c, -1L, sel); break;
  case 2: c06::drv::derived_dispatch<float, std::uint64_t>(c, -1L, sel); break;
  default: c06::drv::derived_dispatch<float, std::uint32_t>(c, -1L, sel); break;
  }
}
