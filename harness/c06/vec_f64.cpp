// explicit instantiation of the vector-monitor dispatcher for <float, std::uint64_t>
#include "vec.hpp"
namespace c06 { template void vec_dispatch<float, std::uint64_t>(vh::Ctx&, long, int); }
