// explicit instantiation of the vector-monitor dispatcher for <float, std::uint32_t>
#include "vec.hpp"
namespace c06 { template void vec_dispatch<float, std::uint32_t>(vh::Ctx&, long, int); }
