// explicit instantiation of the composed-filter dispatcher for <double, std::uint32_t>
#include "composed.hpp"
namespace c06 { template void composed_dispatch<double, std::uint32_t>(vh::Ctx&, long, int); }
