// C19 -- shared helpers: harness-side adjactor, generators, set/multiset graph oracle, guarded (forked) execution
#pragma once
#include <common/vh.hpp>
#include <c19/vguard.hpp>
#include <kernel/adjacency/graph.hpp>
#include <kernel/adjacency/dynamic_graph.hpp>
#include <kernel/adjacency/permutation.hpp>
#include <kernel/adjacency/coloring.hpp>
#include <kernel/adjacency/cuthill_mckee.hpp>
#include <kernel/adjacency/adjactor.hpp>
#include <numeric>
#include <csignal>

namespace c19
{
  using FEAT::Index;
  using namespace FEAT::Adjacency;
  typedef std::vector<std::vector<Index>> Rows;

  // ------------------------------------------------------------------ harness-side adjactor over vector<vector<Index>>
  struct VAdj
  {
    Index nd = 0, ni = 0;
    Rows a;
    typedef std::vector<Index>::const_iterator ImageIterator;
    Index get_num_nodes_domain() const { return nd; }
    Index get_num_nodes_image() const { return ni; }
    ImageIterator image_begin(Index i) const { return a[i].begin(); }
    ImageIterator image_end(Index i) const { return a[i].end(); }
    Index total() const { Index t = 0; for(auto& r : a) t += Index(r.size()); return t; }
    bool has_dups() const { for(auto r : a) { std::sort(r.begin(), r.end()); if(std::adjacent_find(r.begin(), r.end()) != r.end()) return true; } return false; }
    bool has_empty_list() const { for(auto& r : a) if(r.empty()) return true; return false; }
    std::string describe(std::size_t maxrows = 24) const
    {
      vh::J rows('[');
      for(std::size_t i = 0; i < a.size() && i < maxrows; ++i) rows.add_raw(vh::jarr(a[i], 24));
      if(a.size() > maxrows) rows.add(std::string("...") + std::to_string(a.size()) + " rows");
      return vh::J().kv("domain", (unsigned long)nd).kv("image", (unsigned long)ni).kv("indices", (unsigned long)total()).raw("lists", rows.str()).str();
    }
  };

  inline Index pick_size(vh::Rng& r, bool allow_zero = true)
  {
    const Index mx = vh::thorough() ? 5000 : 200;
    static const Index small[] = {1, 1, 2, 2, 3, 3, 4, 5, 6, 7, 8, 9, 12, 16, 17};
    double u = r.unit();
    Index n;
    if(u < 0.70) n = small[r.below(sizeof(small) / sizeof(small[0]))];
    else if(u < 0.96) n = Index(r.range(1, 40));
    else if(u < 0.992) n = Index(r.range(41, 200));
    else n = Index(r.range(1, long(mx)));
    if(allow_zero && r.coin(0.04)) n = 0;
    return n;
  }
  inline const char* size_bucket(Index n) { return n == 0 ? "n:0" : n == 1 ? "n:1" : n <= 8 ? "n:2-8" : n <= 40 ? "n:9-40" : n <= 200 ? "n:41-200" : "n:>200"; }

  // random relation nd x ni
  inline VAdj gen_adj(vh::Rng& r, Index nd, Index ni)
  {
    VAdj A; A.nd = nd; A.ni = ni; A.a.resize(nd);
    if(ni == 0) return A;
    const int style = int(r.below(6)); // 0 no edges, 1 sparse, 2 sparse with duplicates, 3 dense-ish, 4 many empty lists, 5 heavy duplicates
    const bool sorted = r.coin(0.3);
    for(Index i = 0; i < nd; ++i)
    {
      Index len = 0;
      switch(style)
      {
      case 0: len = 0; break;
      case 1: case 2: len = Index(r.range(0, 4)); break;
      case 3: len = Index(r.range(0, long(std::min<Index>(ni, 12)))); break;
      case 4: len = r.coin(0.7) ? 0 : Index(r.range(1, 3)); break;
      default: len = Index(r.range(0, 6)); break;
      }
      auto& row = A.a[i];
      if(style == 1 || style == 3 || style == 4)
      { // distinct targets
        std::set<Index> s; len = std::min(len, ni);
        while(s.size() < len) s.insert(Index(r.below(ni)));
        row.assign(s.begin(), s.end()); r.shuffle(row);
      }
      else if(style == 5)
      { // few distinct targets, repeated
        Index base = Index(r.below(ni));
        for(Index k = 0; k < len; ++k) row.push_back(r.coin(0.6) ? base : Index(r.below(ni)));
      }
      else for(Index k = 0; k < len; ++k) row.push_back(Index(r.below(ni)));
      if(sorted) std::sort(row.begin(), row.end());
    }
    return A;
  }

  // symmetric square graph with several components, isolated nodes, optional self loops / duplicates
  struct SymOpt { bool self_loops = false, dups = false, shuffle = true; };
  inline VAdj gen_sym(vh::Rng& r, Index n, SymOpt& o, Index* ncomp_out = nullptr)
  {
    VAdj A; A.nd = A.ni = n; A.a.resize(n);
    if(n == 0) return A;
    o.self_loops = r.coin(0.3); o.dups = r.coin(0.2); o.shuffle = r.coin(0.6);
    const Index ncomp = Index(r.range(1, long(std::min<Index>(n, 4))));
    std::vector<Index> comp(n); for(auto& x : comp) x = Index(r.below(ncomp));
    const int style = int(r.below(5)); // 0 edge-free, 1 path-like, 2 sparse random, 3 dense random, 4 star
    std::vector<std::vector<Index>> members(ncomp);
    for(Index i = 0; i < n; ++i) members[comp[i]].push_back(i);
    auto add = [&](Index i, Index j) { A.a[i].push_back(j); if(i != j) A.a[j].push_back(i); };
    for(auto& m : members)
    {
      if(m.size() < 2 || style == 0) continue;
      if(style == 1) { for(std::size_t k = 0; k + 1 < m.size(); ++k) if(r.coin(0.9)) add(m[k], m[k + 1]); }
      else if(style == 4) { for(std::size_t k = 1; k < m.size(); ++k) add(m[0], m[k]); }
      else
      {
        const double p = style == 2 ? std::min(1.0, 3.0 / double(m.size())) : 0.5;
        if(m.size() <= 60) { for(std::size_t a = 0; a < m.size(); ++a) for(std::size_t b = a + 1; b < m.size(); ++b) if(r.coin(p)) add(m[a], m[b]); }
        else { std::size_t ne = std::size_t(double(m.size()) * (style == 2 ? 1.5 : 4.0));
          std::set<std::pair<Index, Index>> seen;
          for(std::size_t e = 0; e < ne; ++e) { Index a = r.pick(m), b = r.pick(m); if(a == b) continue; if(a > b) std::swap(a, b); if(seen.insert({a, b}).second) add(a, b); } }
      }
    }
    if(o.self_loops) for(Index i = 0; i < n; ++i) if(r.coin(0.5)) A.a[i].push_back(i);
    if(o.dups) for(Index i = 0; i < n; ++i) for(Index k = 0, m = Index(A.a[i].size()); k < m; ++k) if(r.coin(0.3)) { Index j = A.a[i][k]; A.a[i].push_back(j); if(j != i) A.a[j].push_back(i); }
    for(auto& row : A.a) { if(o.shuffle) r.shuffle(row); else std::sort(row.begin(), row.end()); }
    if(ncomp_out) *ncomp_out = ncomp;
    return A;
  }
  inline bool has_isolated(const VAdj& A) { for(Index i = 0; i < A.nd; ++i) { bool nb = false; for(Index j : A.a[i]) if(j != i) nb = true; if(!nb) return true; } return false; }
  inline bool has_degree0(const VAdj& A) { for(auto& r : A.a) if(r.empty()) return true; return false; }
  // number of connected components (treating edges as undirected)
  inline Index n_components(const VAdj& A)
  {
    std::vector<Index> par(A.nd); std::iota(par.begin(), par.end(), Index(0));
    std::function<Index(Index)> f = [&](Index x) { while(par[x] != x) { par[x] = par[par[x]]; x = par[x]; } return x; };
    for(Index i = 0; i < A.nd; ++i) for(Index j : A.a[i]) par[f(i)] = f(j);
    Index c = 0; for(Index i = 0; i < A.nd; ++i) if(f(i) == i) ++c; return c;
  }

  // FEAT graph holding exactly the lists of A, built through the copy-vector constructor (not through a render call)
  inline Graph make_graph(const VAdj& A)
  {
    std::vector<Index> dp(A.nd + 1, 0), ix;
    for(Index i = 0; i < A.nd; ++i) { for(Index j : A.a[i]) ix.push_back(j); dp[i + 1] = Index(ix.size()); }
    return Graph(A.ni, dp, ix);
  }

  // references
  inline Rows transpose_rows(const VAdj& A) { Rows t(A.ni); for(Index i = 0; i < A.nd; ++i) for(Index c : A.a[i]) t[c].push_back(i); return t; }
  inline VAdj compose(const VAdj& A, const VAdj& B)
  { VAdj C; C.nd = A.nd; C.ni = B.ni; C.a.resize(A.nd); for(Index i = 0; i < A.nd; ++i) for(Index m : A.a[i]) for(Index c : B.a[m]) C.a[i].push_back(c); return C; }

  // random bijection of {0..n-1}
  inline std::vector<Index> gen_perm(vh::Rng& r, Index n)
  {
    std::vector<Index> p(n); std::iota(p.begin(), p.end(), Index(0));
    switch(r.below(5))
    {
    case 0: break;                                    // identity
    case 1: std::reverse(p.begin(), p.end()); break;  // reversal
    case 2: if(n > 1) std::rotate(p.begin(), p.begin() + long(r.below(n)), p.end()); break; // cyclic shift
    default: r.shuffle(p); break;
    }
    return p;
  }
  inline bool is_bijection(const Index* p, Index n)
  { std::vector<char> seen(n, 0); for(Index i = 0; i < n; ++i) { if(p[i] >= n || seen[p[i]]) return false; seen[p[i]] = 1; } return true; }

  // ------------------------------------------------------------------ guarded execution (see vguard.hpp)
  using vg::Rep;
  inline std::string default_key(const std::vector<std::string>& tags)
  {
    auto t = tags; std::sort(t.begin(), t.end()); std::string key;
    for(auto& x : t) if(x.compare(0, 2, "n:") != 0 && x.compare(0, 2, "A:") != 0 && x.compare(0, 2, "B:") != 0 && x != "edge_corpus") key += "|" + x;
    return key;
  }
  // single monitored call + oracle, using the tags currently set on the case
  template<typename F>
  void guarded(vh::Ctx& c, const std::string& op, bool forked, F&& fn, const std::string& cap_key = std::string(), unsigned cpu_seconds = 20)
  {
    const std::vector<std::string> tags = c.tags;
    vg::one(c, op, forked, tags, cap_key.empty() ? default_key(tags) : cap_key, fn, cpu_seconds);
  }

  // ------------------------------------------------------------------ graph oracle
  enum Cmp { SEQ, MULTISET, SET };
  inline const char* rt_name(RenderType rt)
  {
    switch(rt) { case RenderType::as_is: return "as_is"; case RenderType::as_is_sorted: return "as_is_sorted"; case RenderType::injectify: return "injectify";
      case RenderType::injectify_sorted: return "injectify_sorted"; case RenderType::transpose: return "transpose"; case RenderType::transpose_sorted: return "transpose_sorted";
      case RenderType::injectify_transpose: return "injectify_transpose"; default: return "injectify_transpose_sorted"; }
  }
  // structural validity + row-wise comparison against the reference rows; returns true if everything is fine
  template<typename G>
  bool raw_rows(Rep& rep, const std::string& op, const G& g, Index nd, Index ni, Rows& out)
  {
    if(g.get_num_nodes_domain() != nd || g.get_num_nodes_image() != ni)
    { rep.viol(op, "dims", vh::J().kv("domain", (unsigned long)g.get_num_nodes_domain()).kv("image", (unsigned long)g.get_num_nodes_image()).kv("expected_domain", (unsigned long)nd).kv("expected_image", (unsigned long)ni).str()); return false; }
    out.assign(nd, {});
    for(Index i = 0; i < nd; ++i) for(auto it = g.image_begin(i); it != g.image_end(i); ++it) out[i].push_back(*it);
    return true;
  }
  inline bool raw_rows(Rep& rep, const std::string& op, const Graph& g, Index nd, Index ni, Rows& out)
  {
    if(g.get_num_nodes_domain() != nd || g.get_num_nodes_image() != ni)
    { rep.viol(op, "dims", vh::J().kv("domain", (unsigned long)g.get_num_nodes_domain()).kv("image", (unsigned long)g.get_num_nodes_image()).kv("expected_domain", (unsigned long)nd).kv("expected_image", (unsigned long)ni).str()); return false; }
    const Index* dp = g.get_domain_ptr(); const Index* ix = g.get_image_idx(); const Index nidx = g.get_num_indices();
    if(dp == nullptr) { rep.viol(op, "structure", vh::J().kv("why", "domain pointer array missing").str()); return false; }
    if(dp[0] != 0 || dp[nd] != nidx) { rep.viol(op, "structure", vh::J().kv("why", "domain_ptr[0]!=0 or domain_ptr[n]!=num_indices").kv("first", (unsigned long)dp[0]).kv("last", (unsigned long)dp[nd]).kv("num_indices", (unsigned long)nidx).str()); return false; }
    for(Index i = 0; i < nd; ++i) if(dp[i + 1] < dp[i]) { rep.viol(op, "structure", vh::J().kv("why", "domain_ptr not monotone").kv("row", (unsigned long)i).str()); return false; }
    out.assign(nd, {});
    for(Index i = 0; i < nd; ++i) for(Index k = dp[i]; k < dp[i + 1]; ++k)
    {
      if(ix[k] >= ni) { rep.viol(op, "index-range", vh::J().kv("row", (unsigned long)i).kv("index", (unsigned long)ix[k]).kv("image", (unsigned long)ni).str()); return false; }
      out[i].push_back(ix[k]);
    }
    // the adjactor interface must show the same lists
    for(Index i = 0; i < nd; ++i)
    {
      std::vector<Index> v; for(auto it = g.image_begin(i); it != g.image_end(i); ++it) v.push_back(*it);
      if(v != out[i]) { rep.viol(op, "iterator-mismatch", vh::J().kv("row", (unsigned long)i).str()); return false; }
      if(g.degree(i) != Index(v.size())) { rep.viol(op, "degree", vh::J().kv("row", (unsigned long)i).str()); return false; }
    }
    return true;
  }
  inline bool compare_rows(Rep& rep, const std::string& op, const Rows& got, const Rows& want, Cmp cmp, bool must_sorted)
  {
    for(std::size_t i = 0; i < want.size(); ++i)
    {
      std::vector<Index> g = got[i], w = want[i];
      if(must_sorted && !std::is_sorted(g.begin(), g.end()))
      { rep.viol(op, "not-sorted", vh::J().kv("row", (unsigned long)i).raw("got", vh::jarr(g, 32)).str()); return false; }
      if(cmp == SEQ) { if(g == w) continue;
        std::vector<Index> gs = g, ws = w; std::sort(gs.begin(), gs.end()); std::sort(ws.begin(), ws.end());
        rep.viol(op, gs == ws ? "order-changed" : "row-mismatch", vh::J().kv("row", (unsigned long)i).raw("got", vh::jarr(g, 32)).raw("expected", vh::jarr(w, 32)).str()); return false; }
      std::sort(g.begin(), g.end()); std::sort(w.begin(), w.end());
      if(cmp == SET)
      {
        if(std::adjacent_find(g.begin(), g.end()) != g.end()) { rep.viol(op, "duplicates", vh::J().kv("row", (unsigned long)i).raw("got", vh::jarr(g, 32)).str()); return false; }
        w.erase(std::unique(w.begin(), w.end()), w.end());
      }
      if(g != w) { rep.viol(op, "row-mismatch", vh::J().kv("row", (unsigned long)i).raw("got_sorted", vh::jarr(g, 32)).raw("expected_sorted", vh::jarr(w, 32)).str()); return false; }
    }
    return true;
  }
  // expected rows / comparison mode of a render type applied to the relation R (already composed, if composite)
  inline void expect_of(RenderType rt, const VAdj& R, Index& nd, Index& ni, Rows& rows, Cmp& cmp, bool& sorted)
  {
    const bool tr = rt == RenderType::transpose || rt == RenderType::transpose_sorted || rt == RenderType::injectify_transpose || rt == RenderType::injectify_transpose_sorted;
    const bool inj = rt == RenderType::injectify || rt == RenderType::injectify_sorted || rt == RenderType::injectify_transpose || rt == RenderType::injectify_transpose_sorted;
    sorted = rt == RenderType::as_is_sorted || rt == RenderType::injectify_sorted || rt == RenderType::transpose_sorted || rt == RenderType::injectify_transpose_sorted;
    nd = tr ? R.ni : R.nd; ni = tr ? R.nd : R.ni;
    rows = tr ? transpose_rows(R) : R.a;
    cmp = inj ? SET : (rt == RenderType::as_is ? SEQ : MULTISET);
  }
  static const RenderType all_rt[8] = {RenderType::as_is, RenderType::as_is_sorted, RenderType::injectify, RenderType::injectify_sorted,
    RenderType::transpose, RenderType::transpose_sorted, RenderType::injectify_transpose, RenderType::injectify_transpose_sorted};

  // resets the per-call tags of a case: base (input class) tags + extra
  inline void set_tags(vh::Ctx& c, const std::vector<std::string>& base, std::initializer_list<std::string> extra = {})
  { c.tags = base; for(auto& e : extra) c.tag(e); }
} // namespace c19
