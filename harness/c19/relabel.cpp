// C19 -- permuting a Graph / DenseVector / SparseMatrixCSR by the same permutations relabels consistently:
//   new(i,j) = old(p(i), q(j))   (dense image; Appendix A), vectors new[i] = old[p(i)].
// Graph's permutation constructor maps the image indices *through* the array it is given (unit test + all callers
// hand it the inverse permutation), so it is called with q.inverse() here.
#include <common/vh_lafem.hpp>
#include <c19/c19.hpp>
using namespace c19;
using namespace FEAT::LAFEM;

namespace
{
  template<typename DT, typename IT>
  void relabel_case(vh::Ctx& c, const std::vector<std::string>& base, const VAdj& A, const std::vector<Index>& p, const std::vector<Index>& q)
  {
    const Index n = A.nd, m = A.ni;
    // pattern -> matrix spec with small integer values (products exact in float and double)
    vl::MatSpec ms; ms.rows = n; ms.cols = m;
    for(Index i = 0; i < n; ++i) for(Index j : A.a[i]) ms.t.push_back({i, j, double(long((i * 5 + j * 3) % 7) - 3)});
    ms.sort_unique();
    std::vector<double> xv(m), yv(n, 0.0), vv(n);
    for(Index j = 0; j < m; ++j) xv[j] = double(long((j * 11) % 5) - 2);
    for(auto& t : ms.t) yv[t.r] += t.v * xv[t.c];
    for(Index i = 0; i < n; ++i) vv[i] = double(i) + 0.5;

    set_tags(c, base, {std::string("dt:") + vl::dt_name<DT>(), std::string("it:") + vl::it_name<IT>()});
    guarded(c, "dense_vector.permute", false, [&](Rep& rep) {
      Permutation P(n, Permutation::ConstrType::perm, p.data());
      auto v = vl::make_dv<DT, IT>(vv);
      v.permute(P);
      if(v.size() != n) { rep.viol("dense_vector.permute", "dims", "{}"); return; }
      for(Index i = 0; i < n; ++i) if(v.elements()[i] != DT(vv[p[i]]))
      { rep.viol("dense_vector.permute", "wrong-value", vh::J().kv("i", (unsigned long)i).kv("got", (double)v.elements()[i]).kv("expected", vv[p[i]]).str()); return; }
      if(!std::equal(p.begin(), p.end(), P.get_perm_pos())) rep.viol("dense_vector.permute", "permutation-modified", "{}");
    });

    // expected relabelled dense image / pattern
    std::vector<vl::LD> old_d = ms.dense(); std::vector<char> old_m = ms.mask();
    guarded(c, "csr.permute", false, [&](Rep& rep) {
      Permutation P(n, Permutation::ConstrType::perm, p.data()), Q(m, Permutation::ConstrType::perm, q.data());
      auto a = vl::make_csr<DT, IT>(ms);
      a.permute(P, Q);
      std::vector<vl::LD> d; std::vector<char> mask; std::string why;
      if(a.rows() != n || a.columns() != m || a.used_elements() != ms.nnz()) { rep.viol("csr.permute", "dims", "{}"); return; }
      if(!vl::decode_csr(a, d, mask, why)) { rep.viol("csr.permute", "structure", vh::J().kv("why", why).str()); return; }
      for(Index i = 0; i < n; ++i) for(Index j = 0; j < m; ++j)
      {
        const std::size_t nw = std::size_t(i) * m + j, od = std::size_t(p[i]) * m + q[j];
        if(mask[nw] != old_m[od] || d[nw] != old_d[od])
        { rep.viol("csr.permute", "relabel-mismatch", vh::J().kv("i", (unsigned long)i).kv("j", (unsigned long)j).kv("got", d[nw]).kv("expected", old_d[od]).kv("got_stored", int(mask[nw])).kv("expected_stored", int(old_m[od])).str()); return; }
      }
      if(!std::equal(p.begin(), p.end(), P.get_perm_pos()) || !std::equal(q.begin(), q.end(), Q.get_perm_pos())) rep.viol("csr.permute", "permutation-modified", "{}");
      // the permuted system is the same system: A' x' = y'  (exact small-integer arithmetic)
      auto x = vl::make_dv<DT, IT>(xv); x.permute(Q);
      DenseVector<DT, IT> r(n, DT(777));
      a.apply(r, x);
      for(Index i = 0; i < n; ++i) if(r.elements()[i] != DT(yv[p[i]]))
      { rep.viol("csr.permute", "product-inconsistent", vh::J().kv("i", (unsigned long)i).kv("got", (double)r.elements()[i]).kv("expected", yv[p[i]]).str()); return; }
    });
  }
}

VH_FAMILY(relabel)
{
  Index n = c.k == 0 ? 1 : pick_size(c.rng, false), m = c.k == 0 ? 1 : (c.rng.coin(0.4) ? n : pick_size(c.rng, false));
  if(n * m > 250000) m = std::max<Index>(1, 250000 / n);    // dense image oracle
  VAdj A = gen_adj(c.rng, n, m);
  if(A.total() == 0) A.a[Index(c.rng.below(n))].push_back(Index(c.rng.below(m)));  // CSR / Graph members need >= 1 entry (entry-free matrices: C02)
  // injective pattern for the matrix part (a CSR holds each position once); the graph part keeps the duplicates
  std::vector<Index> p = gen_perm(c.rng, n), q = gen_perm(c.rng, m);
  std::vector<std::string> base = {size_bucket(std::max(n, m)), n == m ? "square" : "rectangular"};
  if(A.has_dups()) base.push_back("dups");
  if(A.has_empty_list()) base.push_back("empty_list");
  c.desc = vh::J().raw("graph", A.describe(12)).raw("p", vh::jarr(p, 32)).raw("q", vh::jarr(q, 32)).str();

  set_tags(c, base);
  guarded(c, "graph.permute", false, [&](Rep& rep) {
    Permutation P(n, Permutation::ConstrType::perm, p.data()), Q(m, Permutation::ConstrType::perm, q.data());
    Permutation Qi = Q.inverse();
    Graph g = make_graph(A);
    Graph h(g, P, Qi);
    // expected: new row i = old row p(i) with every index c replaced by q^-1(c)   <=>  new(i,j) = old(p(i), q(j))
    std::vector<Index> qi(m); for(Index j = 0; j < m; ++j) qi[q[j]] = j;
    Rows want(n), got;
    for(Index i = 0; i < n; ++i) for(Index cidx : A.a[p[i]]) want[i].push_back(qi[cidx]);
    if(!raw_rows(rep, "graph.permute", h, n, m, got)) return;
    compare_rows(rep, "graph.permute", got, want, MULTISET, false);
    // source graph unchanged
    Rows src; if(raw_rows(rep, "graph.permute", g, n, m, src) && src != A.a) rep.viol("graph.permute", "input-modified", "{}");
    // dense-image form of the same statement
    if(std::size_t(n) * m <= 40000)
    {
      std::vector<unsigned> od(std::size_t(n) * m, 0), nw(std::size_t(n) * m, 0);
      for(Index i = 0; i < n; ++i) { for(Index j : A.a[i]) ++od[std::size_t(i) * m + j]; for(Index j : got[i]) ++nw[std::size_t(i) * m + j]; }
      for(Index i = 0; i < n; ++i) for(Index j = 0; j < m; ++j) if(nw[std::size_t(i) * m + j] != od[std::size_t(p[i]) * m + q[j]])
      { rep.viol("graph.permute", "relabel-mismatch", vh::J().kv("i", (unsigned long)i).kv("j", (unsigned long)j).str()); return; }
    }
  });
  if(c.rng.coin()) relabel_case<double, Index>(c, base, A, p, q); else relabel_case<float, unsigned int>(c, base, A, p, q);
  c.tags = base; c.sig = "relabel"; for(auto& t : base) c.sig += "|" + t;
}

VH_FEAT_MAIN
