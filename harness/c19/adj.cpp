// C19 -- Graph rendering (single / composite, all render types), sort_indices, DynamicGraph, CompositeAdjactor,
// Coloring, CuthillMcKee.  References are set / multiset images computed from the harness-owned vector<vector<Index>>.
#include <c19/c19.hpp>
using namespace c19;

namespace
{
  std::vector<std::string> adj_tags(const VAdj& A, const char* pre = "")
  {
    std::vector<std::string> t; std::string p(pre);
    if(A.nd == 0) t.push_back(p + "domain0");
    if(A.ni == 0) t.push_back(p + "image0");
    if(A.total() == 0) t.push_back(p + "no_edges");
    else { if(A.has_empty_list()) t.push_back(p + "empty_list"); if(A.has_dups()) t.push_back(p + "dups"); }
    t.push_back(p + size_bucket(std::max(A.nd, A.ni)));
    return t;
  }
  VAdj edge_adj(std::uint64_t k)
  {
    VAdj A;
    auto mk = [&](Index nd, Index ni, Rows rows) { A.nd = nd; A.ni = ni; A.a = rows; A.a.resize(nd); };
    switch(k)
    {
    case 0: mk(0, 0, {}); break;
    case 1: mk(0, 5, {}); break;
    case 2: mk(5, 0, {}); break;
    case 3: mk(1, 1, {{}}); break;
    case 4: mk(1, 1, {{0}}); break;
    case 5: mk(1, 1, {{0, 0, 0}}); break;
    case 6: mk(3, 3, {}); break;                                  // all lists empty
    case 7: mk(3, 4, {{}, {3, 3, 1, 3}, {}}); break;              // one list, duplicates, unsorted
    case 8: mk(4, 2, {{1, 0}, {0, 1}, {1, 1}, {0}}); break;
    case 9: mk(2, 6, {{5, 4, 3, 2, 1, 0}, {}}); break;            // descending full row, empty last row
    case 10: mk(5, 5, {{}, {}, {}, {}, {4, 0}}); break;           // only the last row
    default: mk(6, 3, {{2}, {}, {2}, {}, {2, 2}, {}}); break;     // empty image columns 0,1
    }
    return A;
  }
  const std::uint64_t n_edge_adj = 12;
}

// ---------------------------------------------------------------------------------------------------------------------
// Graph(RenderType, A) for all 8 render types + DynamicGraph(RenderType, A)
VH_FAMILY(render)
{
  VAdj A = c.k < n_edge_adj ? edge_adj(c.k) : gen_adj(c.rng, pick_size(c.rng), pick_size(c.rng));
  std::vector<std::string> base = adj_tags(A);
  if(c.k < n_edge_adj) base.push_back("edge_corpus");
  c.desc = A.describe();
  const bool edge = A.total() == 0 || A.nd == 0 || A.ni == 0;
  vg::group(c, "graph.render", edge, 8,
    [&](int i) { return vg::with(base, {std::string("rt:") + rt_name(all_rt[i])}); },
    [&](int i) { return default_key(vg::with(base, {std::string("rt:") + rt_name(all_rt[i])})); },
    [&](Rep& rep, int i) {
      const RenderType rt = all_rt[i];
      Graph g(rt, A);
      Index nd, ni; Rows want, got; Cmp cmp; bool sorted;
      expect_of(rt, A, nd, ni, want, cmp, sorted);
      if(raw_rows(rep, "graph.render", g, nd, ni, got)) compare_rows(rep, "graph.render", got, want, cmp, sorted);
    });
  // the rendered graph is itself an adjactor: render it again (as_is must reproduce it)
  set_tags(c, base, {"rt:as_is", "src:graph"});
  guarded(c, "graph.render", edge, [&](Rep& rep) {
    Graph g0(RenderType::as_is, A); Graph g(RenderType::transpose, g0);
    Rows got; if(raw_rows(rep, "graph.render", g, A.ni, A.nd, got)) compare_rows(rep, "graph.render", got, transpose_rows(A), MULTISET, false);
  });
  // DynamicGraph: always the duplicate-free relation resp. its transpose
  for(RenderType rt : {all_rt[c.rng.below(4)], all_rt[4 + c.rng.below(4)]})
  {
    set_tags(c, base, {std::string("rt:") + rt_name(rt)});
    guarded(c, "dynamic_graph.render", edge, [&](Rep& rep) {
      DynamicGraph g(rt, A);
      Index nd, ni; Rows want, got; Cmp cmp; bool sorted; expect_of(rt, A, nd, ni, want, cmp, sorted);
      if(raw_rows(rep, "dynamic_graph.render", g, nd, ni, got)) compare_rows(rep, "dynamic_graph.render", got, want, SET, true);
      // exists / degree
      Index nidx = 0; for(Index i = 0; i < nd; ++i) { std::set<Index> s(want[i].begin(), want[i].end()); nidx += Index(s.size());
        if(g.degree(i) != Index(s.size())) { rep.viol("dynamic_graph.render", "degree", vh::J().kv("row", (unsigned long)i).str()); break; }
        if(ni > 0) { Index j = Index((i * 7 + 3) % ni); if(g.exists(i, j) != (s.count(j) > 0)) { rep.viol("dynamic_graph.render", "exists", vh::J().kv("row", (unsigned long)i).kv("col", (unsigned long)j).str()); break; } } }
      if(g.get_num_indices() != nidx) rep.viol("dynamic_graph.render", "num_indices", vh::J().kv("got", (unsigned long)g.get_num_indices()).kv("expected", (unsigned long)nidx).str());
    });
  }
  c.tags = base; c.sig = "render"; for(auto& t : base) c.sig += "|" + t;
}

// ---------------------------------------------------------------------------------------------------------------------
// Graph(RenderType, A, B) for all 8 render types, CompositeAdjactor, DynamicGraph composite / compose
VH_FAMILY(composite)
{
  VAdj A, B;
  if(c.k < 6)
  {
    switch(c.k)
    {
    case 0: A = edge_adj(0); B = edge_adj(0); break;                      // 0x0 . 0x0
    case 1: A = edge_adj(2); B = edge_adj(1); break;                      // 5x0 . 0x5
    case 2: A = edge_adj(7); B = edge_adj(8); break;                      // 3x4 . 4x2 with duplicates
    case 3: A = edge_adj(8); B.nd = 2; B.ni = 3; B.a = {{}, {2, 2}}; break; // first inner list empty
    case 4: A = edge_adj(8); B.nd = 2; B.ni = 3; B.a = {{}, {}}; break;   // all inner lists empty
    default: A = edge_adj(4); B = edge_adj(5); break;                     // 1x1 . 1x1
    }
  }
  else
  {
    const Index nd = pick_size(c.rng), nm = pick_size(c.rng), ni = pick_size(c.rng);
    A = gen_adj(c.rng, nd, nm); B = gen_adj(c.rng, nm, ni);
  }
  const VAdj C = compose(A, B);
  std::vector<std::string> base = adj_tags(C);
  for(auto& t : adj_tags(A, "A:")) if(t.find("n:") == std::string::npos) base.push_back(t);
  for(auto& t : adj_tags(B, "B:")) if(t.find("n:") == std::string::npos) base.push_back(t);
  // hazard class of CompositeAdjactor::image_begin: the first entry of some A-list points to an empty B-list
  bool first_inner_empty = false;
  for(auto& row : A.a) if(!row.empty() && B.a[row[0]].empty()) first_inner_empty = true;
  if(first_inner_empty) base.push_back("first_inner_list_empty");
  if(c.k < 6) base.push_back("edge_corpus");
  c.desc = vh::J().raw("A", A.describe(12)).raw("B", B.describe(12)).str();
  const bool edge = C.total() == 0 || C.nd == 0 || C.ni == 0 || A.ni == 0;
  vg::group(c, "graph.render_composite", edge, 8,
    [&](int i) { return vg::with(base, {std::string("rt:") + rt_name(all_rt[i])}); },
    [&](int i) { return default_key(vg::with(base, {std::string("rt:") + rt_name(all_rt[i])})); },
    [&](Rep& rep, int i) {
      const RenderType rt = all_rt[i];
      Graph g(rt, A, B);
      Index nd, ni; Rows want, got; Cmp cmp; bool sorted;
      expect_of(rt, C, nd, ni, want, cmp, sorted);
      if(raw_rows(rep, "graph.render_composite", g, nd, ni, got)) compare_rows(rep, "graph.render_composite", got, want, cmp, sorted);
    });
  // CompositeAdjactor (requires A.image <= B.domain; here equal) rendered through the single-adjactor constructor
  {
    RenderType rt = all_rt[c.rng.below(8)];
    set_tags(c, base, {std::string("rt:") + rt_name(rt)});
    guarded(c, "composite_adjactor.render", edge || first_inner_empty, [&](Rep& rep) {
      CompositeAdjactor<VAdj, VAdj> ca(A, B);
      Graph g(rt, ca);
      Index nd, ni; Rows want, got; Cmp cmp; bool sorted;
      expect_of(rt, C, nd, ni, want, cmp, sorted);
      if(raw_rows(rep, "composite_adjactor.render", g, nd, ni, got)) compare_rows(rep, "composite_adjactor.render", got, want, cmp, sorted);
    }, std::string(first_inner_empty ? "first_inner_list_empty" : "-") + (C.total() == 0 ? "|no_edges" : ""), 2);
  }
  // CompositeAdjactor over the library's own Graph adjactors, walked directly and rendered (seed C19f: the iterators of an
  // empty Graph row point into the shared index array, whereas an empty std::vector list of VAdj has null iterators that
  // compare equal to a default-constructed one, which hides a begin iterator left behind the last empty inner list)
  {
    bool all_inner_empty = false;
    for(auto& row : A.a) { if(row.empty()) continue; bool all = true; for(Index j : row) if(!B.a[j].empty()) all = false; if(all) all_inner_empty = true; }
    RenderType rt = all_rt[c.rng.below(8)];
    set_tags(c, base, {std::string("rt:") + rt_name(rt), std::string(all_inner_empty ? "all_inner_lists_empty" : "some_inner_list_nonempty")});
    guarded(c, "composite_adjactor.graphs", edge || first_inner_empty || all_inner_empty || A.total() == 0 || B.total() == 0, [&](Rep& rep) {
      Graph gA(RenderType::as_is, A), gB(RenderType::as_is, B);
      CompositeAdjactor<Graph, Graph> ca(gA, gB);
      Rows walked(C.nd); bool overrun = false; Index bad_row = 0;
      for(Index i = 0; i < C.nd && !overrun; ++i)
      {
        const std::size_t cap = C.a[i].size() + 4;
        auto it = ca.image_begin(i); const auto jt = ca.image_end(i);
        for(; it != jt; ++it) { if(walked[i].size() >= cap) { overrun = true; bad_row = i; break; } walked[i].push_back(*it); }
      }
      if(overrun) { rep.viol("composite_adjactor.graphs", "walk-overrun", vh::J().kv("row", (unsigned long)bad_row).raw("got", vh::jarr(walked[bad_row], 32)).raw("expected", vh::jarr(C.a[bad_row], 32)).str()); return; }
      if(ca.get_num_nodes_domain() != C.nd || ca.get_num_nodes_image() != C.ni)
      { rep.viol("composite_adjactor.graphs", "dims", vh::J().kv("domain", (unsigned long)ca.get_num_nodes_domain()).kv("image", (unsigned long)ca.get_num_nodes_image()).str()); return; }
      if(!compare_rows(rep, "composite_adjactor.graphs", walked, C.a, SEQ, false)) return;
      // mixed pair (harness relation first, Graph second) through the renderer
      CompositeAdjactor<VAdj, Graph> cm(A, gB);
      Graph g(rt, cm);
      Index nd, ni; Rows want, got; Cmp cmp; bool sorted;
      expect_of(rt, C, nd, ni, want, cmp, sorted);
      if(raw_rows(rep, "composite_adjactor.graphs", g, nd, ni, got)) compare_rows(rep, "composite_adjactor.graphs", got, want, cmp, sorted);
    }, std::string(first_inner_empty ? "first_inner_list_empty" : "-") + (all_inner_empty ? "|all_inner_lists_empty" : "") + (C.total() == 0 ? "|no_edges" : ""), 2);
  }
  // DynamicGraph composite render and compose()
  {
    RenderType rt = all_rt[c.rng.below(8)];
    set_tags(c, base, {std::string("rt:") + rt_name(rt)});
    guarded(c, "dynamic_graph.render_composite", edge, [&](Rep& rep) {
      DynamicGraph g(rt, A, B);
      Index nd, ni; Rows want, got; Cmp cmp; bool sorted; expect_of(rt, C, nd, ni, want, cmp, sorted);
      if(raw_rows(rep, "dynamic_graph.render_composite", g, nd, ni, got)) compare_rows(rep, "dynamic_graph.render_composite", got, want, SET, true);
    });
    set_tags(c, base);
    guarded(c, "dynamic_graph.compose", edge, [&](Rep& rep) {
      DynamicGraph g(RenderType::as_is, A);
      g.compose(B);
      Rows got; if(raw_rows(rep, "dynamic_graph.compose", g, C.nd, C.ni, got)) compare_rows(rep, "dynamic_graph.compose", got, C.a, SET, true);
    });
  }
  c.tags = base; c.sig = "composite"; for(auto& t : base) c.sig += "|" + t;
}

// ---------------------------------------------------------------------------------------------------------------------
// sort_indices keeps each adjacency multiset (graphs built from arrays; >= 1 index as sort_indices documents by XASSERT),
// clone / move keep the graph, serialize -> Graph(buffer) round trip
VH_FAMILY(sort)
{
  VAdj A;
  for(int tries = 0; tries < 50 && A.total() == 0; ++tries) A = gen_adj(c.rng, pick_size(c.rng, false), pick_size(c.rng, false));
  if(A.total() == 0) { A.nd = 2; A.ni = 3; A.a = {{2, 0, 2}, {}}; }
  std::vector<std::string> base = adj_tags(A);
  c.desc = A.describe();
  std::vector<Index> dp(A.nd + 1, 0), ix;
  for(Index i = 0; i < A.nd; ++i) { for(Index j : A.a[i]) ix.push_back(j); dp[i + 1] = Index(ix.size()); }
  const int ctor = int(c.rng.below(3));
  set_tags(c, base, {ctor == 0 ? "ctor:arrays" : ctor == 1 ? "ctor:vectors" : "ctor:alloc"});
  guarded(c, "graph.sort_indices", false, [&](Rep& rep) {
    Graph g = ctor == 0 ? Graph(A.nd, A.ni, Index(ix.size()), dp.data(), ix.data()) : ctor == 1 ? Graph(A.ni, dp, ix) : Graph(A.nd, A.ni, Index(ix.size()));
    if(ctor == 2) { std::copy(dp.begin(), dp.end(), g.get_domain_ptr()); std::copy(ix.begin(), ix.end(), g.get_image_idx()); }
    Rows got;
    if(!raw_rows(rep, "graph.construct", g, A.nd, A.ni, got) || !compare_rows(rep, "graph.construct", got, A.a, SEQ, false)) return;
    Index mx = 0; for(auto& r : A.a) mx = std::max(mx, Index(r.size()));
    if(g.degree() != mx) rep.viol("graph.degree", "wrong-value", vh::J().kv("got", (unsigned long)g.degree()).kv("expected", (unsigned long)mx).str());
    g.sort_indices();
    if(raw_rows(rep, "graph.sort_indices", g, A.nd, A.ni, got)) compare_rows(rep, "graph.sort_indices", got, A.a, MULTISET, true);
    for(Index i = 0; i <= A.nd; ++i) if(g.get_domain_ptr()[i] != dp[i]) { rep.viol("graph.sort_indices", "domain_ptr-changed", vh::J().kv("row", (unsigned long)i).str()); break; }
    // idempotent
    Rows again; g.sort_indices();
    if(raw_rows(rep, "graph.sort_indices", g, A.nd, A.ni, again) && again != got) rep.viol("graph.sort_indices", "not-idempotent", "{}");
  });
  set_tags(c, base);
  guarded(c, "graph.clone_move", false, [&](Rep& rep) {
    Graph g = make_graph(A);
    Graph h = g.clone();
    Rows got;
    if(raw_rows(rep, "graph.clone", h, A.nd, A.ni, got)) compare_rows(rep, "graph.clone", got, A.a, SEQ, false);
    if(h.get_image_idx() == g.get_image_idx()) rep.viol("graph.clone", "shares-memory", "{}");
    Graph m(std::move(g));
    if(raw_rows(rep, "graph.move", m, A.nd, A.ni, got)) compare_rows(rep, "graph.move", got, A.a, SEQ, false);
    Graph m2; m2 = std::move(m);
    if(raw_rows(rep, "graph.move", m2, A.nd, A.ni, got)) compare_rows(rep, "graph.move", got, A.a, SEQ, false);
  });
  guarded(c, "graph.serialize", false, [&](Rep& rep) {
    RenderType rt = all_rt[c.rng.below(8)];
    Graph g(rt, A);
    std::vector<char> buf = g.serialize();
    Graph h(buf);
    Rows r0, r1;
    if(!raw_rows(rep, "graph.render", g, g.get_num_nodes_domain(), g.get_num_nodes_image(), r0)) return;
    if(raw_rows(rep, "graph.serialize", h, g.get_num_nodes_domain(), g.get_num_nodes_image(), r1)) compare_rows(rep, "graph.serialize", r1, r0, SEQ, false);
  });
  c.tags = base; c.sig = "sort"; for(auto& t : base) c.sig += "|" + t;
}

// ---------------------------------------------------------------------------------------------------------------------
// Coloring: proper on every edge of symmetric graphs (self loops do not count as edges), partition graph lists each node
// exactly once under its colour
namespace
{
  void check_partition(Rep& rep, const std::string& op, const Coloring& col, const std::vector<Index>& colours, Index ncol)
  {
    Graph pg = col.create_partition_graph();
    const Index n = Index(colours.size());
    Rows want(ncol), got;
    for(Index i = 0; i < n; ++i) if(colours[i] < ncol) want[colours[i]].push_back(i);
    if(!raw_rows(rep, op, pg, ncol, n, got)) return;
    if(!compare_rows(rep, op, got, want, SET, false)) return;
    std::vector<Index> cnt(n, 0); for(auto& r : got) for(Index j : r) ++cnt[j];
    for(Index i = 0; i < n; ++i) if(cnt[i] != 1) { rep.viol(op, "node-not-listed-once", vh::J().kv("node", (unsigned long)i).kv("times", (unsigned long)cnt[i]).str()); return; }
  }
}
VH_FAMILY(coloring)
{
  SymOpt so; Index n = c.k == 0 ? 0 : c.k == 1 ? 1 : pick_size(c.rng);
  VAdj A = gen_sym(c.rng, n, so);
  if(c.k == 2) { n = 1; A.nd = A.ni = 1; A.a = {{0}}; }
  std::vector<std::string> base = adj_tags(A);
  if(so.self_loops) base.push_back("self_loops");
  if(n > 0 && has_isolated(A)) base.push_back("isolated_node");
  if(n > 1 && n_components(A) > 1) base.push_back("disconnected");
  c.desc = A.describe();
  const bool edge = n == 0 || A.total() == 0;
  std::vector<Index> order = gen_perm(c.rng, n);
  for(int variant = 0; variant < 2; ++variant)
  {
    set_tags(c, base, {variant ? "ctor:graph+order" : "ctor:graph"});
    const std::string op = "coloring.create";
    guarded(c, op, edge, [&](Rep& rep) {
      Graph g = make_graph(A);
      Index dummy = 0;
      Coloring col = variant ? Coloring(g, n > 0 ? order.data() : &dummy) : Coloring(g);
      if(col.get_num_nodes() != n) { rep.viol(op, "dims", vh::J().kv("nodes", (unsigned long)col.get_num_nodes()).kv("expected", (unsigned long)n).str()); return; }
      const Index nc = col.get_num_colors();
      std::vector<Index> cv(n); for(Index i = 0; i < n; ++i) cv[i] = col.get_coloring()[i];
      for(Index i = 0; i < n; ++i) if(cv[i] >= nc) { rep.viol(op, "colour-out-of-range", vh::J().kv("node", (unsigned long)i).kv("colour", (unsigned long)cv[i]).kv("num_colors", (unsigned long)nc).str()); return; }
      for(Index i = 0; i < n; ++i) for(Index j : A.a[i]) if(j != i && cv[i] == cv[j])
      { rep.viol(op, "adjacent-same-colour", vh::J().kv("node", (unsigned long)i).kv("neighbour", (unsigned long)j).kv("colour", (unsigned long)cv[i]).str()); return; }
      if(n == 0 && !col.empty()) rep.viol(op, "dims", vh::J().kv("why", "colouring of the empty graph is not empty").str());
      check_partition(rep, "coloring.partition_graph", col, cv, nc);
      // clone keeps everything
      Coloring c2 = col.clone();
      if(c2.get_num_nodes() != n || c2.get_num_colors() != nc || !std::equal(cv.begin(), cv.end(), c2.get_coloring())) rep.viol("coloring.clone", "differs", "{}");
    });
  }
  // user-supplied colourings (all colours 0..k-1 used for the array constructor, which counts distinct colours)
  if(n > 0)
  {
    const Index k = Index(c.rng.range(1, long(std::min<Index>(n, 6))));
    std::vector<Index> cv(n); for(Index i = 0; i < n; ++i) cv[i] = i < k ? i : Index(c.rng.below(k));
    c.rng.shuffle(cv);
    const bool vec = c.rng.coin();
    const Index extra = vec ? Index(c.rng.below(3)) : 0; // the vector constructor takes the colour count: unused colours allowed
    set_tags(c, base, {vec ? "ctor:vector" : "ctor:array"});
    guarded(c, "coloring.partition_graph", false, [&](Rep& rep) {
      std::vector<Index> tmp = cv;
      Coloring col = vec ? Coloring(k + extra, cv) : Coloring(n, tmp.data());
      if(col.get_num_colors() != k + extra) { rep.viol("coloring.construct", "num_colors", vh::J().kv("got", (unsigned long)col.get_num_colors()).kv("expected", (unsigned long)(k + extra)).str()); return; }
      check_partition(rep, "coloring.partition_graph", col, cv, k + extra);
    });
  }
  c.tags = base; c.sig = "coloring"; for(auto& t : base) c.sig += "|" + t;
}

// ---------------------------------------------------------------------------------------------------------------------
// CuthillMcKee::compute returns a bijection for every root / sort / reverse option (graphs with >= 1 node)
VH_FAMILY(cmk)
{
  SymOpt so; Index n = c.k == 0 ? 1 : c.k == 1 ? 2 : pick_size(c.rng, false);
  VAdj A = gen_sym(c.rng, n, so);
  if(c.k == 1) { A.a = {{}, {}}; so = SymOpt(); }
  bool nonsym = false;
  if(c.k > 8 && c.rng.coin(0.15))
  { // structurally non-symmetric square pattern: drop some directed entries
    for(auto& row : A.a) { std::vector<Index> keep; for(Index j : row) if(c.rng.coin(0.7)) keep.push_back(j); if(keep.size() != row.size()) nonsym = true; row = keep; }
  }
  std::vector<std::string> base = adj_tags(A);
  if(so.self_loops) base.push_back("self_loops");
  if(has_isolated(A)) base.push_back("isolated_node");
  if(has_degree0(A)) base.push_back("degree0_node");
  if(n > 1 && n_components(A) > 1) base.push_back("disconnected");
  if(nonsym) base.push_back("nonsymmetric");
  // directed graph that is not strongly connected: a breadth-first search does not reach every node from every root
  bool unreachable = false;
  if(nonsym)
  {
    auto covers = [&](const Rows& rows) { std::vector<char> seen(n, 0); std::vector<Index> st = {0}; seen[0] = 1; Index cnt = 1;
      while(!st.empty()) { Index v = st.back(); st.pop_back(); for(Index w : rows[v]) if(!seen[w]) { seen[w] = 1; ++cnt; st.push_back(w); } } return cnt == n; };
    unreachable = !covers(A.a) || !covers(transpose_rows(A));
    if(unreachable) base.push_back("not_strongly_connected");
  }
  c.desc = A.describe();
  const bool edge = n <= 1 || has_degree0(A) || A.has_dups() || n_components(A) > 1 || unreachable;
  static const char* rn[3] = {"root:standard", "root:min_degree", "root:max_degree"};
  static const char* sn[3] = {"sort:standard", "sort:asc", "sort:desc"};
  std::vector<int> combos;
  for(int i = 0; i < 18; ++i) if(!(n > 400 && c.rng.coin(0.75))) combos.push_back(i);
  auto cm_tags = [&](int q) { const int i = combos[std::size_t(q)]; return vg::with(base, {rn[i / 6], sn[(i / 2) % 3], (i % 2) ? "reverse" : "forward"}); };
  const std::string cm_class = std::string(has_degree0(A) ? "|degree0_node" : "") + (n > 1 && n_components(A) > 1 ? "|disconnected" : "") + (A.has_dups() ? "|dups" : "") + (unreachable ? "|not_strongly_connected" : "");
  auto cm_key = [&](int q) { const int i = combos[std::size_t(q)]; return std::string(rn[i / 6]) + "|" + sn[(i / 2) % 3] + ((i % 2) ? "|reverse" : "|forward") + cm_class; };
  vg::group(c, "cuthill_mckee.compute", edge, int(combos.size()), cm_tags, cm_key,
    [&](Rep& rep, int q) {
      const int i = combos[std::size_t(q)], rt = i / 6, st = (i / 2) % 3, rev = i % 2;
      Graph g = make_graph(A);
      const bool with_layers = (rt + st + rev) % 2 == 0;
      std::vector<Index> layers;
      Permutation p = with_layers ? CuthillMcKee::compute(layers, g, rev != 0, CuthillMcKee::RootType(rt), CuthillMcKee::SortType(st))
                                  : CuthillMcKee::compute(g, rev != 0, CuthillMcKee::RootType(rt), CuthillMcKee::SortType(st));
      if(p.size() != n) { rep.viol("cuthill_mckee.compute", "dims", vh::J().kv("size", (unsigned long)p.size()).kv("expected", (unsigned long)n).str()); return; }
      if(!is_bijection(p.get_perm_pos(), n))
      { rep.viol("cuthill_mckee.compute", "not-a-bijection", vh::J().raw("perm_pos", vh::jarr(p.get_perm_pos(), n, 48)).str()); return; }
      // the swap array must describe the same permutation
      std::vector<Index> id(n); std::iota(id.begin(), id.end(), Index(0));
      p.apply(id.data());
      if(!std::equal(id.begin(), id.end(), p.get_perm_pos())) rep.viol("cuthill_mckee.compute", "swap-array-inconsistent", "{}");
    });
  c.tags = base; c.sig = "cmk"; for(auto& t : base) c.sig += "|" + t;
}
