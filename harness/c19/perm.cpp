// C19 -- Permutation: every construction route applies as the bijection it was built from, inverse() undoes it,
// concat() composes, perm_pos and swap_pos stay consistent with each other.
#include <c19/c19.hpp>
#include <kernel/util/random.hpp>
using namespace c19;

namespace
{
  typedef Permutation::ConstrType CT;
  // swap array -> bijection p with (apply(x))[i] = x[p[i]]
  std::vector<Index> perm_of_swaps(const std::vector<Index>& s)
  {
    const Index n = Index(s.size());
    std::vector<Index> p(n); std::iota(p.begin(), p.end(), Index(0));
    for(Index i = 0; i + 1 < n; ++i) std::swap(p[i], p[s[i]]);
    return p;
  }
  std::vector<Index> inverse_of(const std::vector<Index>& p) { std::vector<Index> q(p.size()); for(Index i = 0; i < Index(p.size()); ++i) q[p[i]] = i; return q; }
  std::vector<Index> gen_swaps(vh::Rng& r, Index n)
  { std::vector<Index> s(n); for(Index i = 0; i < n; ++i) s[i] = i + Index(r.below(n - i)); if(n > 0) s[n - 1] = n - 1; return s; }

  // the complete oracle for a permutation object that is expected to be the bijection p
  void check_perm(Rep& rep, const std::string& op, const Permutation& P, const std::vector<Index>& p, vh::Rng rng)
  {
    const Index n = Index(p.size());
    if(P.size() != n) { rep.viol(op, "dims", vh::J().kv("size", (unsigned long)P.size()).kv("expected", (unsigned long)n).str()); return; }
    if(P.empty() != (n == 0)) rep.viol(op, "empty-flag", "{}");
    if(n == 0) return;
    const Index* pp = P.get_perm_pos(); const Index* sp = P.get_swap_pos();
    for(Index i = 0; i < n; ++i) if(pp[i] != p[i])
    { rep.viol(op, "perm_pos-wrong", vh::J().kv("i", (unsigned long)i).raw("got", vh::jarr(pp, n, 32)).raw("expected", vh::jarr(p, 32)).str()); return; }
    for(Index i = 0; i < n; ++i) if(sp[i] < i || sp[i] >= n)
    { rep.viol(op, "swap_pos-out-of-range", vh::J().kv("i", (unsigned long)i).kv("value", (unsigned long)sp[i]).str()); return; }
    { // both internal arrays describe the same permutation
      std::vector<Index> s(sp, sp + n);
      if(perm_of_swaps(s) != p) { rep.viol(op, "arrays-inconsistent", vh::J().raw("swap_pos", vh::jarr(s, 32)).raw("perm_pos", vh::jarr(p, 32)).str()); return; }
    }
    for(Index i = 0; i < n; ++i) if(P.map(i) != p[i]) { rep.viol(op, "map-wrong", vh::J().kv("i", (unsigned long)i).str()); return; }
    // apply on arrays: distinct data of two types
    std::vector<double> x(n), y(n, -1.0), z; std::vector<std::uint32_t> xi(n), yi(n, 0u);
    for(Index i = 0; i < n; ++i) { x[i] = double(i) * 1.5 + rng.unit(); xi[i] = std::uint32_t(i * 3u + 7u); }
    P.apply(y.data(), x.data());
    for(Index i = 0; i < n; ++i) if(y[i] != x[p[i]]) { rep.viol(op + ".apply", "wrong-value", vh::J().kv("variant", "copy,forward").kv("i", (unsigned long)i).str()); return; }
    P.apply(yi.data(), xi.data());
    for(Index i = 0; i < n; ++i) if(yi[i] != xi[p[i]]) { rep.viol(op + ".apply", "wrong-value", vh::J().kv("variant", "copy,forward,u32").kv("i", (unsigned long)i).str()); return; }
    z = x; P.apply(z.data());
    for(Index i = 0; i < n; ++i) if(z[i] != x[p[i]]) { rep.viol(op + ".apply", "wrong-value", vh::J().kv("variant", "in-situ,forward").kv("i", (unsigned long)i).str()); return; }
    // the inverse application undoes it
    P.apply(z.data(), true);
    if(z != x) { rep.viol(op + ".apply", "inverse-does-not-undo", vh::J().kv("variant", "in-situ").str()); return; }
    std::fill(y.begin(), y.end(), -1.0); P.apply(y.data(), x.data(), true);
    for(Index i = 0; i < n; ++i) if(y[p[i]] != x[i]) { rep.viol(op + ".apply", "wrong-value", vh::J().kv("variant", "copy,inverse").kv("i", (unsigned long)i).str()); return; }
    z = x; P.apply(z.data(), true);
    if(z != y) { rep.viol(op + ".apply", "wrong-value", vh::J().kv("variant", "in-situ,inverse").str()); return; }
    // mixed element type (Ty_ != Tx_)
    std::vector<float> yf(n); P.apply(yf.data(), xi.data());
    for(Index i = 0; i < n; ++i) if(yf[i] != float(xi[p[i]])) { rep.viol(op + ".apply", "wrong-value", vh::J().kv("variant", "copy,forward,u32->float").str()); return; }
  }
}

VH_FAMILY(perm)
{
  Index n = c.k == 0 ? 0 : c.k <= 3 ? 1 : c.k <= 5 ? 2 : pick_size(c.rng, false);
  std::vector<std::string> base = {size_bucket(n)};
  if(n == 0)
  {
    // the only constructible permutation of length 0 is the default-constructed one
    base.push_back("size0");
    c.desc = vh::J().kv("n", 0).str();
    set_tags(c, base, {"ctor:default"});
    guarded(c, "permutation.construct", true, [&](Rep& rep) {
      Permutation P; check_perm(rep, "permutation.construct", P, {}, c.rng);
      Permutation Q = P.inverse(); check_perm(rep, "permutation.inverse", Q, {}, c.rng);
      Permutation R = P.clone(); check_perm(rep, "permutation.clone", R, {}, c.rng);
    });
    double buf[2] = {1.0, 2.0}, out[2] = {7.0, 8.0};
    guarded(c, "permutation.apply", true, [&](Rep& rep) { Permutation P; P.apply(buf); P.apply(out, buf);
      if(buf[0] != 1.0 || out[0] != 7.0) rep.viol("permutation.apply", "wrong-value", vh::J().kv("variant", "forward,size0").str()); });
    set_tags(c, base, {"ctor:default", "invert"});
    guarded(c, "permutation.apply", true, [&](Rep& rep) { Permutation P; P.apply(out, buf, true); P.apply(buf, true);
      if(buf[0] != 1.0 || out[0] != 7.0) rep.viol("permutation.apply", "wrong-value", vh::J().kv("variant", "inverse,size0").str()); });
    set_tags(c, base, {"ctor:default"});
    guarded(c, "permutation.concat", true, [&](Rep& rep) { Permutation P, Q; P.concat(Q); check_perm(rep, "permutation.concat", P, {}, c.rng); });
    c.tags = base; c.sig = "perm|size0";
    return;
  }
  std::vector<Index> p = gen_perm(c.rng, n);
  const int route = c.k < 12 ? int(c.k % 6) : int(c.rng.below(8));
  static const char* route_name[8] = {"ctor:perm", "ctor:inv_perm", "ctor:swap", "ctor:inv_swap", "ctor:identity", "ctor:random", "ctor:none+calc_swap", "ctor:none+calc_perm"};
  base.push_back(route_name[route]);
  std::vector<Index> input, expect;
  std::uint64_t fseed = c.rng.next() | 1u;
  switch(route)
  {
  case 0: input = p; expect = p; break;
  case 1: input = p; expect = inverse_of(p); break;
  case 2: input = gen_swaps(c.rng, n); expect = perm_of_swaps(input); break;
  case 3: input = gen_swaps(c.rng, n); expect = inverse_of(perm_of_swaps(input)); break;
  case 4: expect.resize(n); std::iota(expect.begin(), expect.end(), Index(0)); break;
  case 6: input = p; expect = p; break;
  case 7: input = gen_swaps(c.rng, n); expect = perm_of_swaps(input); break;
  default: break;
  }
  c.desc = vh::J().kv("n", (unsigned long)n).kv("route", route_name[route]).raw("input", vh::jarr(input, 48)).str();
  set_tags(c, base);
  auto build = [&]() -> Permutation {
    switch(route)
    {
    case 0: return Permutation(n, CT::perm, input.data());
    case 1: return Permutation(n, CT::inv_perm, input.data());
    case 2: return Permutation(n, CT::swap, input.data());
    case 3: return Permutation(n, CT::inv_swap, input.data());
    case 4: return Permutation(n, CT::identity);
    case 5: { FEAT::Random frng(fseed); return Permutation(n, frng); }
    case 6: { Permutation P(n, CT::none); std::copy(input.begin(), input.end(), P.get_perm_pos()); P.calc_swap_from_perm(); return P; }
    default: { Permutation P(n); std::copy(input.begin(), input.end(), P.get_swap_pos()); P.calc_perm_from_swap(); return P; }
    }
  };
  bool ok = true;
  guarded(c, "permutation.construct", false, [&](Rep& rep) {
    std::vector<Index> in0 = input;
    Permutation P = build();
    if(route == 5)
    { // random: the bijection is whatever was drawn -- it must be one, everything else is checked against it
      if(P.size() != n || !is_bijection(P.get_perm_pos(), n)) { rep.viol("permutation.construct", "not-a-bijection", vh::J().raw("perm_pos", vh::jarr(P.get_perm_pos(), P.size(), 32)).str()); ok = false; return; }
      expect.assign(P.get_perm_pos(), P.get_perm_pos() + n);
    }
    if(input != in0) rep.viol("permutation.construct", "input-modified", "{}");
    check_perm(rep, "permutation.construct", P, expect, c.rng);
  });
  if(!ok || c.nviol) { c.tags = base; return; }
  guarded(c, "permutation.inverse", false, [&](Rep& rep) {
    Permutation P = build();
    Permutation Q = P.inverse();
    check_perm(rep, "permutation.inverse", Q, inverse_of(expect), c.rng);
    check_perm(rep, "permutation.inverse", P, expect, c.rng); // source unchanged
    // forward then inverse-object restores the data
    std::vector<double> x(n), y(n), z(n); for(Index i = 0; i < n; ++i) x[i] = double(i) + 0.25;
    P.apply(y.data(), x.data()); Q.apply(z.data(), y.data());
    if(z != x) rep.viol("permutation.inverse", "does-not-undo", "{}");
    Permutation QQ = Q.inverse();
    check_perm(rep, "permutation.inverse", QQ, expect, c.rng);
  });
  guarded(c, "permutation.clone_move", false, [&](Rep& rep) {
    Permutation P = build();
    Permutation R = P.clone();
    check_perm(rep, "permutation.clone", R, expect, c.rng);
    if(R.get_perm_pos() == P.get_perm_pos()) rep.viol("permutation.clone", "shares-memory", "{}");
    Permutation M(std::move(P));
    check_perm(rep, "permutation.move", M, expect, c.rng);
    Permutation M2; M2 = std::move(M);
    check_perm(rep, "permutation.move", M2, expect, c.rng);
  });
  guarded(c, "permutation.concat", false, [&](Rep& rep) {
    // documented: P1.concat(P2) makes P1 the permutation with P1'(x) = P1(P2(x)) for arrays x, i.e. perm_pos'[i] = p2[p1[i]]
    std::vector<Index> p2 = gen_perm(c.rng, n);
    Permutation P1 = build();
    Permutation P2(n, CT::perm, p2.data());
    std::vector<double> x(n), t(n), want(n); for(Index i = 0; i < n; ++i) x[i] = double(i) * 0.5 - 3.0;
    for(Index i = 0; i < n; ++i) t[i] = x[p2[i]];           // P2(x)
    for(Index i = 0; i < n; ++i) want[i] = t[expect[i]];    // P1(P2(x))
    P1.concat(P2);
    std::vector<Index> comp(n); for(Index i = 0; i < n; ++i) comp[i] = p2[expect[i]];
    check_perm(rep, "permutation.concat", P1, comp, c.rng);
    std::vector<double> got(n); P1.apply(got.data(), x.data());
    if(got != want) rep.viol("permutation.concat", "does-not-compose", "{}");
    check_perm(rep, "permutation.concat", P2, p2, c.rng);  // argument unchanged
    // P . P^-1 = identity
    Permutation A = build(); Permutation Ai = A.inverse(); A.concat(Ai);
    std::vector<Index> id(n); std::iota(id.begin(), id.end(), Index(0));
    check_perm(rep, "permutation.concat", A, id, c.rng);
  });
  c.tags = base; c.sig = std::string("perm|") + route_name[route] + "|" + size_bucket(n);
}
