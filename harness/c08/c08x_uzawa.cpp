// C08 / unit c08x -- UzawaPrecond on CSR blocks (scalar velocity), double/u64 and float/u32
#include "c08x_uzawa.hpp"
namespace c08x
{
  void uzawa_csr(vh::Ctx& c, int which, long edge, int utype)
  {
    if(which == 0) uzawa_case<FxCsr<double, FEAT::Index>>(c, edge, utype);
    else uzawa_case<FxCsr<float, unsigned int>>(c, edge, utype);
  }
}
