// C08 / unit c08x -- AmaVanka on SaddlePointMatrix<BCSR 2x2, 2x1, 1x2> (deduced and pushed macros) and on scalar CSR (pushed macros)
#include "c08x_amavanka.hpp"
namespace c08x
{
  void amavanka_a(vh::Ctx& c, int which, long edge, int mkind)
  {
    if(which == 0)
    {
      // the macro deduction is documented for discontinuous pressure spaces only
      if(mkind == 0 && (edge == 5 || edge == 6 || edge == 7 || edge == 8)) mkind = 1;
      amavanka_sp_case<FxBcsr<double, FEAT::Index, 2>>(c, edge, mkind);
    }
    else if(which == 1) amavanka_csr_case<double, FEAT::Index>(c, edge, mkind);
    else amavanka_csr_case<float, unsigned int>(c, edge, mkind);
  }
}
