// C08 -- Jacobi and polynomial (Neumann) preconditioners against the dense textbook operators
//   Jacobi    :  omega D^-1                                   (D = main diagonal)
//   Polynomial:  sum_{k=0}^{m} (I - Mt^-1 A)^k Mt^-1,  Mt^-1 = omega D^-1   (formula documented in polynomial_precond.hpp)
// each followed by the correction filter.
#include "c08_dispatch.hpp"
#include <kernel/solver/jacobi_precond.hpp>
#include <kernel/solver/polynomial_precond.hpp>

using namespace FEAT;
using namespace c08;

namespace
{
  template<typename MT_>
  void jacobi_case(vh::Ctx& c, long edge)
  {
    with_system<MT_>(c, max_n(c), edge, "jacobi.apply", 0.4, [&](Sys& s, MT_& m, const auto& f)
    {
      const double omega = gen_omega(c.rng, s);
      omega_tag(c, omega);
      // (seed C08f) half of the objects are constructed with another damping parameter and get theirs through set_omega()
      const bool via_set = c.rng.coin(0.5);
      const double omega0 = omega == 1.0 ? 0.5 : 1.0;
      if(via_set) c.tag("omega:via_set_omega");
      c.set_op("jacobi.apply");
      c.desc = vh::J().kv("precond", "jacobi").kv("omega", omega).raw("system", s.describe()).str();
      typedef typename MT_::DataType DT;
      history(c, s, m, f, "jacobi.apply", vh::J().kv("omega", omega).str(),
        [&](const MT_& mm, const auto& ff) { auto pp = Solver::new_jacobi_precond(mm, ff, DT(via_set ? omega0 : omega)); if(via_set) pp->set_omega(DT(omega)); return pp; },
        [omega](const Sys& t)
        {
          const Index n = t.n; std::vector<LD> d(n); for(Index i = 0; i < n; ++i) d[i] = t.a[std::size_t(i) * n + i];
          return [d, n, omega](const std::vector<LD>& b)
          { RefVec x; x.v.resize(n); x.s.resize(n); for(Index i = 0; i < n; ++i) { x.v[i] = (LD)omega * b[i] / d[i]; x.s[i] = 2.0L * std::fabs(x.v[i]); } return x; };
        }, [] {}, 1);
    });
  }

  // Neumann sum of the filtered operator: N = I - Mt^-1 F A with F the defect filter (F = I for the none filter).
  // FEAT applies filter_def to A*x inside the recursion, which is not mentioned in the class documentation; for a unit
  // filter the sum therefore is the Neumann sum *of the filtered system*, for a mean filter F is the DEFECT projection
  // P_def = I - dual prim^T / vol (not the correction projection applied to the final result).  `inner` selects whether
  // F is applied.
  struct PolyRef
  {
    std::shared_ptr<std::vector<LD>> A; std::vector<LD> minv; FilterModel fm; Index n; unsigned m; bool inner; std::size_t len; LD range = 0; // range: largest finite value of the working precision
    RefVec operator()(const std::vector<LD>& b) const
    {
      RefVec t; t.v.resize(n); t.s.resize(n);
      for(Index i = 0; i < n; ++i) { t.v[i] = minv[i] * b[i]; t.s[i] = 2.0L * std::fabs(t.v[i]); }
      // term_k = N term_{k-1}; x = sum of terms.  Error majorant mirrors a Horner-type evaluation x <- x + t - Mt^-1 F A x:
      //   E_k = E_{k-1} + |Mt^-1| Fmaj( |A| (|x_{k-1}| + E_{k-1}) ) + |x_{k-1}| + |t| + S_t
      // Fmaj = identity (none), restriction to the free components (unit), mean_majorant (mean: input error through
      // |I| + |dual||prim|^T/|vol| plus the rounding of the filter's own dot product / axpy)
      // Range guard: the oblique defect projection couples rows of very different scale (1e-6..1e6), so the exact
      // Neumann terms can leave the range of the working precision (float: 1e53 seen); `peak` majorises every exact
      // intermediate FEAT has to hold (x, A x and its partial sums, the filter's dot product, Mt^-1 F A x).  If it comes
      // within 1e-6 of the range nothing is asserted about this apply (majorant = infinity, counted by compare_vec).
      const bool mean = inner && fm.fkind == 2;
      LD peak = 0;
      RefVec x = t; std::vector<LD> term = t.v;
      for(unsigned k = 1; k <= m; ++k)
      {
        RefVec at = dense_mv(*A, n, term);
        if(mean) { at.s.assign(n, 0.0L); mean_project(fm, at, false, len); } // values only (at.s is not used)
        std::vector<LD> absx(n); for(Index i = 0; i < n; ++i) absx[i] = std::fabs(x.v[i]);
        RefVec ax = dense_mv(*A, n, absx, &x.s); // ax.s = |A| (|x| + E)
        if(mean) ax.s = mean_majorant(fm, ax.s, false, len);
        if(range > 0)
        {
          std::vector<LD> mag = dense_mv(*A, n, absx).s; // |A||x|
          LD msum = 0; for(Index i = 0; i < n; ++i) { peak = std::max(peak, std::max(absx[i], mag[i])); msum += mag[i]; }
          if(mean)
          {
            peak = std::max(peak, 4.0L * msum); // dot product with weights <= 3 (partial sums included)
            std::vector<LD> fmag = mean_majorant(fm, mag, false, len);
            for(Index i = 0; i < n; ++i) peak = std::max(peak, std::max(fmag[i], std::fabs(minv[i]) * fmag[i]));
          }
          else for(Index i = 0; i < n; ++i) peak = std::max(peak, std::fabs(minv[i]) * mag[i]);
        }
        for(Index i = 0; i < n; ++i)
        {
          const bool fz = inner && fm.fkind != 2 && fm.fixed[i];
          term[i] = term[i] - (fz ? 0.0L : minv[i] * at.v[i]);
          const LD g = fz ? 0.0L : std::fabs(minv[i]) * ax.s[i];
          x.s[i] = x.s[i] + g + std::fabs(x.v[i]) + std::fabs(t.v[i]) + t.s[i];
        }
        for(Index i = 0; i < n; ++i) x.v[i] += term[i];
      }
      if(range > 0)
      {
        for(Index i = 0; i < n; ++i) peak = std::max(peak, std::fabs(x.v[i]));
        if(!(peak < 1e-6L * range)) x.s.assign(n, std::numeric_limits<LD>::infinity());
      }
      return x;
    }
  };

  template<typename MT_>
  void poly_case(vh::Ctx& c, long edge)
  {
    with_system<MT_>(c, max_n(c, 40, 200), edge, "poly.apply", 0.4, [&](Sys& s, MT_& m, const auto& f)
    {
      const double omega = gen_omega(c.rng, s);
      const unsigned mm_ = unsigned(c.rng.pick<int>({0, 1, 1, 2, 3, 3, 4, 6}));
      omega_tag(c, omega);
      c.tag("m:" + std::to_string(mm_));
      c.set_op("poly.apply");
      c.desc = vh::J().kv("precond", "polynomial").kv("omega", omega).kv("m", mm_).raw("system", s.describe()).str();
      typedef typename MT_::DataType DT;
      history(c, s, m, f, "poly.apply", vh::J().kv("omega", omega).kv("m", mm_).str(),
        [&](const MT_& mm, const auto& ff) { return Solver::new_polynomial_precond(mm, ff, Index(mm_), DT(omega)); },
        [omega, mm_, &c](const Sys& t)
        {
          PolyRef r; r.A = std::make_shared<std::vector<LD>>(t.a); r.n = t.n; r.m = mm_; r.fm = static_cast<const FilterModel&>(t); r.inner = true; r.len = t.n; r.range = t.fkind == 2 ? (LD)std::numeric_limits<DT>::max() : 0.0L; // none/unit: unchanged (no guard)
          r.minv.resize(t.n); for(Index i = 0; i < t.n; ++i) r.minv[i] = (LD)omega / t.a[std::size_t(i) * t.n + i];
          // bookkeeping only: does the undocumented inner defect filter change the filtered result for this system?
          if(t.unit_filter && mm_ > 0)
          {
            PolyRef lit = r; lit.inner = false; std::vector<LD> ones(t.n, 1.0L);
            RefVec a = r(ones), b = lit(ones); bool differs = false;
            for(Index i = 0; i < t.n; ++i) if(!t.fixed[i] && std::fabs(a.v[i] - b.v[i]) > 1e-9L * (std::fabs(a.v[i]) + std::fabs(b.v[i]))) differs = true;
            c.count(differs ? "poly:inner-filter-changes-result" : "poly:inner-filter-irrelevant");
          }
          else if(t.fkind == 2 && mm_ > 0)
          {
            PolyRef lit = r; lit.inner = false; std::vector<LD> ones(t.n, 1.0L);
            RefVec a = r(ones), b = lit(ones); bool differs = false;
            filter_ref(t, a, t.n); filter_ref(t, b, t.n);
            for(Index i = 0; i < t.n; ++i) if(std::fabs(a.v[i] - b.v[i]) > 1e-9L * (std::fabs(a.v[i]) + std::fabs(b.v[i]))) differs = true;
            c.count(differs ? "poly:inner-mean-defect-filter-changes-result" : "poly:inner-mean-defect-filter-irrelevant");
          }
          return r;
        }, [] {}, s.n);
    });
  }
}

VH_FAMILY(jacobi)
{
  for_type(c, 4, [&](int which, long edge)
  {
    switch(which)
    {
    case 0: jacobi_case<CsrD>(c, edge); break;
    case 1: jacobi_case<CsrF>(c, edge); break;
    case 2: jacobi_case<Bcsr2>(c, edge); break;
    default: jacobi_case<Bcsr3>(c, edge); break;
    }
  });
}

VH_FAMILY(poly)
{
  for_type(c, 4, [&](int which, long edge)
  {
    switch(which)
    {
    case 0: poly_case<CsrD>(c, edge); break;
    case 1: poly_case<CsrF>(c, edge); break;
    case 2: poly_case<Bcsr2>(c, edge); break;
    default: poly_case<Bcsr3>(c, edge); break;
    }
  });
}
