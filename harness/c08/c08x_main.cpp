// C08 / unit c08x -- saddle-point preconditioners: family dispatch + main
//   vanka    : Solver::Vanka, 8 variants, 6 matrix type families           (c08x_vanka*.cpp)
//   uzawa    : Solver::UzawaPrecond, 4 types, closed-form inner solvers     (c08x_uzawa.cpp)
//   amavanka : Solver::AmaVanka, deduced and pushed macros                  (c08x_amavanka.cpp)
#include "c08x_common.hpp"

namespace c08x
{
  void vanka_csr(vh::Ctx& c, int which, long edge, int variant);
  void vanka_bcsr(vh::Ctx& c, int which, long edge, int variant);
  void vanka_power(vh::Ctx& c, int which, long edge, int variant);
  void uzawa_csr(vh::Ctx& c, int which, long edge, int utype);
  void uzawa_bcsr(vh::Ctx& c, long edge, int utype);
  void amavanka_a(vh::Ctx& c, int which, long edge, int mkind);
  void amavanka_b(vh::Ctx& c, long edge, int mkind);
  void amavanka_tm(vh::Ctx& c, long edge, int mkind);
}

VH_FAMILY(vanka)
{
  int type, variant; long edge;
  c08x::pick_case(c, 6, 8, type, edge, variant);
  switch(type)
  {
  case 0: c08x::vanka_csr(c, 0, edge, variant); break;
  case 1: c08x::vanka_csr(c, 1, edge, variant); break;
  case 2: c08x::vanka_bcsr(c, 0, edge, variant); break;
  case 3: c08x::vanka_bcsr(c, 1, edge, variant); break;
  case 4: c08x::vanka_power(c, 0, edge, variant); break;
  default: c08x::vanka_power(c, 1, edge, variant); break;
  }
}

VH_FAMILY(uzawa)
{
  int type, utype; long edge;
  c08x::pick_case(c, 3, 4, type, edge, utype);
  if(type == 2) c08x::uzawa_bcsr(c, edge, utype);
  else c08x::uzawa_csr(c, type, edge, utype);
}

VH_FAMILY(amavanka)
{
  int type, mkind; long edge;
  c08x::pick_case(c, 5, 3, type, edge, mkind);
  if(type == 1) c08x::amavanka_b(c, edge, mkind);
  else if(type == 4) c08x::amavanka_tm(c, edge, mkind);
  else c08x::amavanka_a(c, type == 0 ? 0 : type - 1, edge, mkind);
}

VH_FEAT_MAIN
