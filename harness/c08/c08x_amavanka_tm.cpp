// C08 / unit c08x -- AmaVanka on TupleMatrix<Row<CSR,CSR>,Row<CSR,CSR>> ([A B; D C] with stored C), pushed macros
#include "c08x_amavanka.hpp"
namespace c08x
{
  void amavanka_tm(vh::Ctx& c, long edge, int mkind)
  {
    amavanka_tm_case<double, FEAT::Index>(c, edge, mkind);
  }
}
