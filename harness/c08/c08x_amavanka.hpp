// c08x_amavanka.hpp -- dense long double reference of Solver::AmaVanka (additive macro-wise matrix-based Vanka).
//
// Documented operator (class documentation of kernel/solver/amavanka.hpp + the documentation of AmaVankaCore::gather /
// scatter_add / scale_rows): init_numeric assembles the explicit sparse matrix
//     X = omega * diag(1/m_i) * sum_macros P_m^T (P_m M P_m^T)^-1 P_m,      m_i = number of macros DOF i belongs to,
// (local matrices inverted by Math::invert_matrix), apply() computes x = F_cor X b and, for num_steps > 1, continues with
// the Richardson iteration  x += F_cor X F_def (b - M x).  For a SaddlePointMatrix the macros are deduced from the patterns
// of B and D (same rule as the "block" pressure blocks of Solver::Vanka: the smoother is documented to be equivalent to
// Vanka block_full_add) unless they are supplied through push_macro_dofs() (one dofs-at-macro graph per block row).
#pragma once
#include "c08x_common.hpp"
#include <kernel/lafem/tuple_matrix.hpp>
#include <kernel/solver/amavanka.hpp>
#include <set>

namespace c08x
{
  struct AmaRef
  {
    Index N = 0; std::vector<LD> M, XG, EXG; std::vector<char> fixed; unsigned nsteps = 1; bool ok = true;
    std::vector<int> mult;

    // macros: lists of canonical DOF indices
    void build(Index n_, const std::vector<LD>& M_, const std::vector<std::vector<Index>>& macros, const std::vector<char>& fx, double omega, unsigned ns)
    {
      N = n_; M = M_; fixed = fx; nsteps = ns; ok = true;
      XG.assign(std::size_t(N) * N, 0.0L); EXG.assign(std::size_t(N) * N, 0.0L); mult.assign(N, 0);
      std::vector<LD> SA(std::size_t(N) * N, 0.0L); std::vector<int> cnt(std::size_t(N) * N, 0);
      std::vector<LD> X, EX;
      for(const auto& L : macros)
      {
        const Index n = Index(L.size());
        for(Index q : L) ++mult[q];
        if(n == 0) continue;
        X.assign(std::size_t(n) * n, 0.0L); EX.assign(std::size_t(n) * n, 0.0L);
        for(Index i = 0; i < n; ++i) for(Index j = 0; j < n; ++j) X[i * n + j] = M[std::size_t(L[i]) * N + L[j]];
        if(!gj_inverse(n, X, EX)) { ok = false; return; }
        for(Index i = 0; i < n; ++i) for(Index j = 0; j < n; ++j)
        {
          const std::size_t g = std::size_t(L[i]) * N + L[j];
          XG[g] += X[i * n + j]; EXG[g] += EX[i * n + j]; SA[g] += std::fabs(X[i * n + j]); ++cnt[g];
        }
      }
      for(Index i = 0; i < N; ++i)
      {
        if(mult[i] == 0) { ok = false; return; }   // precondition of AmaVanka (XASSERT in scale_rows); never generated
        const LD sc = (LD)omega / LD(mult[i]), esc = std::fabs(sc);
        for(Index j = 0; j < N; ++j)
        {
          const std::size_t g = std::size_t(i) * N + j; if(cnt[g] == 0) continue;
          const LD old = XG[g], eold = EXG[g] + LD(cnt[g] + 1) * SA[g];
          XG[g] = old * sc; EXG[g] = eold * (std::fabs(sc) + 32.0L * work_u() * esc) + std::fabs(old) * esc + std::fabs(XG[g]);
        }
      }
    }

    void mv(const std::vector<LD>& b, const std::vector<LD>& eb, std::vector<LD>& y, std::vector<LD>& ey) const
    {
      y.assign(N, 0.0L); ey.assign(N, 0.0L);
      const LD uK = 32.0L * work_u();
      for(Index i = 0; i < N; ++i)
      {
        LD v = 0, sa = 0, t = 0; Index cnt = 0; const LD* row = &XG[std::size_t(i) * N]; const LD* erow = &EXG[std::size_t(i) * N];
        for(Index j = 0; j < N; ++j) { if(row[j] == 0.0L && erow[j] == 0.0L) continue; ++cnt; v += row[j] * b[j]; sa += std::fabs(row[j] * b[j]); t += std::fabs(row[j]) * eb[j] + erow[j] * (std::fabs(b[j]) + uK * eb[j]); }
        y[i] = v; ey[i] = LD(cnt + 1) * sa + t;
        if(fixed[i]) { y[i] = 0.0L; ey[i] = 0.0L; }
      }
    }

    RefVec operator()(const std::vector<LD>& b) const
    {
      RefVec o; std::vector<LD> z(N, 0.0L);
      mv(b, z, o.v, o.s);
      std::vector<LD> d(N), ed(N), cc, ec;
      for(unsigned st = 1; st < nsteps; ++st)
      {
        for(Index i = 0; i < N; ++i)
        {
          resid_row(&M[std::size_t(i) * N], N, b[i], 0.0L, o.v, o.s, d[i], ed[i]);
          if(fixed[i]) { d[i] = 0.0L; ed[i] = 0.0L; }
        }
        mv(d, ed, cc, ec);
        for(Index i = 0; i < N; ++i) { o.v[i] += cc[i]; o.s[i] += ec[i] + std::fabs(o.v[i]); }
      }
      return o;
    }
  };

  struct Macro { std::vector<Index> vn, pd; };

  // macros of a saddle-point system.  kind 0: the deduction rule (to be found by AmaVanka itself); 1: the same macros in a
  // shuffled order with extra velocity nodes; 2: one macro per pressure DOF (nodal); every DOF is member of a macro.
  inline std::vector<Macro> gen_macros(vh::Rng& r, const SP& s, int kind)
  {
    std::vector<std::vector<Index>> pb; pressure_blocks(s, kind != 2, pb);
    std::vector<Macro> ms;
    for(auto& blk : pb) { Macro m; m.pd = blk; m.vn = velocity_nodes(s, blk); ms.push_back(m); }
    if(kind == 0) return ms;
    if(kind == 1)
    {
      for(auto& m : ms) if(r.coin(0.4))
      {
        const Index k = Index(r.below(s.nv));
        if(std::find(m.vn.begin(), m.vn.end(), k) == m.vn.end()) { m.vn.push_back(k); std::sort(m.vn.begin(), m.vn.end()); }
      }
      r.shuffle(ms);
    }
    std::vector<char> cov(s.nv, 0); for(auto& m : ms) for(Index k : m.vn) cov[k] = 1;
    for(Index k = 0; k < s.nv; ++k) if(!cov[k]) { Macro& m = ms[r.below(ms.size())]; m.vn.push_back(k); std::sort(m.vn.begin(), m.vn.end()); }
    return ms;
  }

  inline std::vector<std::vector<Index>> macro_dofs(const SP& s, const std::vector<Macro>& ms)
  {
    std::vector<std::vector<Index>> o;
    for(auto& m : ms)
    {
      std::vector<Index> L;
      for(Index k : m.vn) for(int cc = 0; cc < s.dim; ++cc) L.push_back(k * Index(s.dim) + Index(cc));
      for(Index j : m.pd) L.push_back(s.NV + j);
      o.push_back(L);
    }
    return o;
  }

  inline FEAT::Adjacency::Graph make_graph(Index nimg, const std::vector<std::vector<Index>>& rows)
  {
    std::vector<Index> ptr(1, 0), idx;
    for(auto& rw : rows) { for(Index q : rw) idx.push_back(q); ptr.push_back(Index(idx.size())); }
    if(idx.empty()) idx.push_back(0);
    return FEAT::Adjacency::Graph(Index(rows.size()), nimg, ptr.back(), ptr.data(), idx.data());
  }

  // ----- AmaVanka on SaddlePointMatrix<BCSR<d,d>, BCSR<d,1>, BCSR<1,d>>
  template<typename Fx_, typename FV_>
  void amavanka_sp_body(vh::Ctx& c, SP& s, int mkind, bool moderate)
  {
    typedef typename Fx_::MA MA; typedef typename Fx_::MB MB; typedef typename Fx_::MD MD;
    typedef typename MA::DataType DT; typedef typename MA::IndexType IT;
    typedef LAFEM::SaddlePointMatrix<MA, MB, MD> Mat;
    typedef LAFEM::TupleFilter<FV_, LAFEM::NoneFilter<DT, IT>> Filter;
    typedef typename Mat::VectorTypeL Vec;
    const double omega = gen_omega(c.rng);
    const unsigned nsteps = unsigned(c.rng.pick<int>({1, 1, 1, 2, 3}));
    omega_tag(c, omega);
    c.tag(nsteps == 1 ? "steps:1" : "steps:>1");
    c.tag(mkind == 0 ? "macros:deduced" : (mkind == 1 ? "macros:pushed-extended" : "macros:pushed-nodal"));
    c.set_op("amavanka.apply");
    const std::vector<Macro> ms = gen_macros(c.rng, s, mkind);
    const std::vector<std::vector<Index>> mdofs = macro_dofs(s, ms);
    vh::J mj('['); for(std::size_t i = 0; i < ms.size() && i < 24; ++i) { vh::J e; e.raw("v", vh::jarr(std::vector<double>(ms[i].vn.begin(), ms[i].vn.end()))).raw("p", vh::jarr(std::vector<double>(ms[i].pd.begin(), ms[i].pd.end()))); mj.add_raw(e.str()); }
    const std::string params = vh::J().kv("omega", omega).kv("num_steps", nsteps).kv("macros", mkind == 0 ? "deduced" : "pushed").str();
    c.desc = vh::J().kv("precond", "amavanka").raw("params", params).kv("matrix", Fx_::name()).raw("macro_nodes", mj.str()).raw("system", s.describe()).str();

    MA a; MB b; MD d;
    build_a(a, s, true); build_b(b, s, true); build_d(d, s, true);
    Mat matrix(std::move(a), std::move(b), std::move(d));
    FV_ fv; build_fv(fv, s, c.rng);
    Filter filter(std::move(fv), LAFEM::NoneFilter<DT, IT>());
    VecIO<Vec> io = tuple_io<Vec>(s, [&matrix]() { return matrix.create_vector_l(); });
    auto ama = FEAT::Solver::new_amavanka(matrix, filter, DT(omega), Index(nsteps));
    if(mkind != 0)
    {
      std::vector<std::vector<Index>> gv, gp; for(auto& m : ms) { gv.push_back(m.vn); gp.push_back(m.pd); }
      ama->push_macro_dofs(make_graph(s.nv, gv));
      ama->push_macro_dofs(make_graph(s.np, gp));
    }
    std::shared_ptr<FEAT::Solver::SolverBase<Vec>> sol = ama;
    history<NoFactorError>(c, io, sol, s.fixed, "amavanka.apply", params,
      [&]()
      {
        auto ref = std::make_shared<AmaRef>();
        ref->build(s.N, s.M, mdofs, s.fixed, omega, nsteps);
        Phase ph; ph.ok = ref->ok; ph.ref = [ref](const std::vector<LD>& dd) { return (*ref)(dd); };
        int mm = 0; for(int q : ref->mult) mm = std::max(mm, q);
        c.count(mm > 1 ? "amavanka:dofs-shared-between-macros" : "amavanka:disjoint-macros");
        return ph;
      },
      [&]()
      {
        gen_values(c.rng, s, moderate);
        build_a(matrix.block_a(), s, false); build_b(matrix.block_b(), s, false); build_d(matrix.block_d(), s, false);
      });
  }

  template<typename Fx_>
  void amavanka_sp_case(vh::Ctx& c, long edge, int mkind)
  {
    typedef typename Fx_::MA::DataType DT;
    work_u() = vl::unit_roundoff<DT>();
    c08::PoolGuard pg(c, "amavanka.apply");
    {
      SP s;
      if(edge == 10) edge = 3;
      if(edge >= 0) { edge_pattern(s, edge, Fx_::dim); if(edge == 6) s.bm[std::size_t(4) * s.np + 2] = 1; }
      else
      {
        const Index maxv = c.thorough() ? 150 : 40, maxp = c.thorough() ? 50 : 15;
        const Index nv = std::max<Index>(1, Index(c.rng.range(1, long(maxv))) / Index(Fx_::dim));
        const Index np = Index(c.rng.range(1, long(std::min<Index>(maxp, std::max<Index>(1, nv * Index(Fx_::dim))))));
        s.alloc(nv, np, Fx_::dim);
        // the macro deduction is documented for discontinuous pressure spaces only: element-like patterns for deduced macros
        gen_b_pattern(c.rng, s, mkind == 0 ? 1 : int(c.rng.below(3)), true);
      }
      gen_a_pattern(c.rng, s, edge);
      gen_values(c.rng, s, false);
      const bool unit = c.rng.coin(0.4);
      gen_filter(c.rng, s, unit, true, false);
      c.tag(std::string("mat:sp-") + Fx_::name());
      c.tag(std::string("dt:") + vl::dt_name<DT>());
      c.tag(unit ? "filter:unit" : "filter:none");
      c.tag("pat:" + (edge >= 0 ? s.pattern : s.pattern.substr(0, s.pattern.find("A:"))));
      size_tags(c, s);
      if(edge >= 0) c.tag("edge_corpus");
      if(unit) amavanka_sp_body<Fx_, typename Fx_::UFV>(c, s, mkind, false);
      else amavanka_sp_body<Fx_, typename Fx_::NFV>(c, s, mkind, false);
    }
    pg.check();
  }

  // ----- AmaVanka on TupleMatrix<Row<CSR,CSR>,Row<CSR,CSR>> = [A B; D C] with a stored (2,2) block, pushed macros only
  template<typename DT_, typename IT_, typename FV_>
  void amavanka_tm_body(vh::Ctx& c, SP& s, const std::vector<char>& cm, std::function<void()> gen_c, int mkind)
  {
    typedef LAFEM::SparseMatrixCSR<DT_, IT_> Csr;
    typedef LAFEM::TupleMatrix<LAFEM::TupleMatrixRow<Csr, Csr>, LAFEM::TupleMatrixRow<Csr, Csr>> Mat;
    typedef LAFEM::TupleFilter<FV_, LAFEM::NoneFilter<DT_, IT_>> Filter;
    typedef typename Mat::VectorTypeL Vec;
    const double omega = gen_omega(c.rng);
    const unsigned nsteps = unsigned(c.rng.pick<int>({1, 1, 1, 2, 3}));
    omega_tag(c, omega);
    c.tag(nsteps == 1 ? "steps:1" : "steps:>1");
    c.tag(mkind == 1 ? "macros:pushed-extended" : "macros:pushed-nodal");
    c.set_op("amavanka.apply");
    const std::vector<Macro> ms = gen_macros(c.rng, s, mkind);
    const std::vector<std::vector<Index>> mdofs = macro_dofs(s, ms);
    vh::J mj('['); for(std::size_t i = 0; i < ms.size() && i < 24; ++i) { vh::J e; e.raw("v", vh::jarr(std::vector<double>(ms[i].vn.begin(), ms[i].vn.end()))).raw("p", vh::jarr(std::vector<double>(ms[i].pd.begin(), ms[i].pd.end()))); mj.add_raw(e.str()); }
    const std::string params = vh::J().kv("omega", omega).kv("num_steps", nsteps).kv("macros", "pushed").str();
    c.desc = vh::J().kv("precond", "amavanka").raw("params", params).kv("matrix", "tuple2x2-csr").raw("macro_nodes", mj.str()).raw("system", s.describe()).str();
    auto cst = [&](Index i, Index j) { return cm[std::size_t(i) * s.np + j] != 0; };
    auto cvl = [&](Index i, Index j) { return s.at(s.NV + i, s.NV + j); };
    Mat matrix;
    build_a(matrix.template at<0, 0>(), s, true); build_b(matrix.template at<0, 1>(), s, true); build_d(matrix.template at<1, 0>(), s, true);
    matrix.template at<1, 1>() = make_csr<DT_, IT_>(s.np, s.np, cst, cvl);
    FV_ fv; build_fv(fv, s, c.rng);
    Filter filter(std::move(fv), LAFEM::NoneFilter<DT_, IT_>());
    VecIO<Vec> io = tuple_io<Vec>(s, [&matrix]() { return matrix.create_vector_l(); });
    auto ama = FEAT::Solver::new_amavanka(matrix, filter, DT_(omega), Index(nsteps));
    {
      std::vector<std::vector<Index>> gv, gp; for(auto& m : ms) { gv.push_back(m.vn); gp.push_back(m.pd); }
      ama->push_macro_dofs(make_graph(s.nv, gv));
      ama->push_macro_dofs(make_graph(s.np, gp));
    }
    std::shared_ptr<FEAT::Solver::SolverBase<Vec>> sol = ama;
    history<NoFactorError>(c, io, sol, s.fixed, "amavanka.apply", params,
      [&]()
      {
        auto ref = std::make_shared<AmaRef>();
        ref->build(s.N, s.M, mdofs, s.fixed, omega, nsteps);
        Phase ph; ph.ok = ref->ok; ph.ref = [ref](const std::vector<LD>& dd) { return (*ref)(dd); };
        int mm = 0; for(int q : ref->mult) mm = std::max(mm, q);
        c.count(mm > 1 ? "amavanka:dofs-shared-between-macros" : "amavanka:disjoint-macros");
        return ph;
      },
      [&]()
      {
        gen_values(c.rng, s, false); gen_c();
        build_a(matrix.template at<0, 0>(), s, false); build_b(matrix.template at<0, 1>(), s, false); build_d(matrix.template at<1, 0>(), s, false);
        write_csr(matrix.template at<1, 1>(), cst, cvl);
      });
  }

  template<typename DT_, typename IT_>
  void amavanka_tm_case(vh::Ctx& c, long edge, int mkind)
  {
    typedef FxCsr<DT_, IT_> Fx;
    work_u() = vl::unit_roundoff<DT_>();
    if(mkind == 0) mkind = 1; // no macro deduction for TupleMatrix (documented: XABORT)
    c08::PoolGuard pg(c, "amavanka.apply");
    {
      SP s;
      if(edge == 10) edge = 3;
      if(edge >= 0) { edge_pattern(s, edge, 1); if(edge == 6) s.bm[std::size_t(4) * s.np + 2] = 1; }
      else
      {
        const Index maxv = c.thorough() ? 150 : 40, maxp = c.thorough() ? 50 : 15;
        const Index nv = Index(c.rng.range(1, long(maxv)));
        const Index np = Index(c.rng.range(1, long(std::min<Index>(maxp, nv))));
        s.alloc(nv, np, 1);
        gen_b_pattern(c.rng, s, int(c.rng.below(3)), true);
      }
      gen_a_pattern(c.rng, s, edge);
      gen_values(c.rng, s, false);
      // the (2,2) block: diagonal + some couplings, row-dominant (a stabilisation-like block)
      std::vector<char> cm(std::size_t(s.np) * s.np, 0);
      for(Index i = 0; i < s.np; ++i) for(Index j = 0; j < s.np; ++j) cm[std::size_t(i) * s.np + j] = (i == j || c.rng.coin(0.2)) ? 1 : 0;
      auto gen_c = [&]()
      {
        for(Index i = 0; i < s.np; ++i)
        {
          LD sum = 0;
          for(Index j = 0; j < s.np; ++j) if(i != j && cm[std::size_t(i) * s.np + j]) { const LD v = (LD)vl::gen_value(c.rng, 1, true); s.at(s.NV + i, s.NV + j) = v; sum += std::fabs(v); }
          const float dg = float(double(sum) * 1.5 + std::fabs(vl::gen_nonzero(c.rng, 1, true)));
          s.at(s.NV + i, s.NV + i) = -(LD)dg;
        }
      };
      gen_c();
      const bool unit = c.rng.coin(0.4);
      gen_filter(c.rng, s, unit, true, false);
      c.tag("mat:tuple2x2-csr");
      c.tag(std::string("dt:") + vl::dt_name<DT_>());
      c.tag(unit ? "filter:unit" : "filter:none");
      c.tag("pat:" + (edge >= 0 ? s.pattern : s.pattern.substr(0, s.pattern.find("A:"))));
      size_tags(c, s);
      if(edge >= 0) c.tag("edge_corpus");
      if(unit) amavanka_tm_body<DT_, IT_, typename Fx::UFV>(c, s, cm, gen_c, mkind);
      else amavanka_tm_body<DT_, IT_, typename Fx::NFV>(c, s, cm, gen_c, mkind);
    }
    pg.check();
  }

  // ----- AmaVanka on a scalar SparseMatrixCSR with pushed macros (arbitrary index subsets covering all DOFs)
  template<typename MT_, typename Filter_>
  void amavanka_csr_body(vh::Ctx& c, c08::Sys& s, MT_& matrix, const Filter_& filter, const std::vector<std::vector<Index>>& macros)
  {
    typedef typename MT_::DataType DT; typedef typename MT_::IndexType IT;
    typedef LAFEM::DenseVector<DT, IT> Vec;
    const double omega = gen_omega(c.rng);
    const unsigned nsteps = unsigned(c.rng.pick<int>({1, 1, 1, 2, 3}));
    omega_tag(c, omega);
    c.tag(nsteps == 1 ? "steps:1" : "steps:>1");
    c.set_op("amavanka.apply");
    vh::J mj('['); for(std::size_t i = 0; i < macros.size() && i < 24; ++i) mj.add_raw(vh::jarr(std::vector<double>(macros[i].begin(), macros[i].end())));
    const std::string params = vh::J().kv("omega", omega).kv("num_steps", nsteps).kv("macros", "pushed").str();
    c.desc = vh::J().kv("precond", "amavanka").raw("params", params).kv("matrix", "csr").raw("macro_dofs", mj.str()).raw("system", s.describe()).str();
    const Index n = s.n;
    VecIO<Vec> io; io.N = n; io.create = [n]() { return Vec(n); };
    io.put = [n](Vec& x, const DT* src) { DT* e = x.elements(); for(Index i = 0; i < n; ++i) e[i] = src[i]; };
    io.get = [n](const Vec& x, DT* dst) { const DT* e = x.elements(); for(Index i = 0; i < n; ++i) dst[i] = e[i]; };
    auto ama = FEAT::Solver::new_amavanka(matrix, filter, DT(omega), Index(nsteps));
    ama->push_macro_dofs(make_graph(n, macros));
    std::shared_ptr<FEAT::Solver::SolverBase<Vec>> sol = ama;
    history<NoFactorError>(c, io, sol, s.fixed, "amavanka.apply", params,
      [&]()
      {
        auto ref = std::make_shared<AmaRef>();
        ref->build(s.n, s.a, macros, s.fixed, omega, nsteps);
        Phase ph; ph.ok = ref->ok; ph.ref = [ref](const std::vector<LD>& dd) { return (*ref)(dd); };
        int mm = 0; for(int q : ref->mult) mm = std::max(mm, q);
        c.count(mm > 1 ? "amavanka:dofs-shared-between-macros" : "amavanka:disjoint-macros");
        return ph;
      },
      [&]() { c08::gen_values(c.rng, s); c08::write_values(matrix, s); });
  }

  template<typename DT_, typename IT_>
  void amavanka_csr_case(vh::Ctx& c, long edge, int mkind)
  {
    typedef LAFEM::SparseMatrixCSR<DT_, IT_> MT; typedef c08::MTraits<MT> T;
    work_u() = vl::unit_roundoff<DT_>();
    c08::PoolGuard pg(c, "amavanka.apply");
    {
      c08::Sys s;
      c08::gen_pattern(c.rng, s, c.thorough() ? 200 : 40, 1, edge >= 0 ? edge % 10 : -1);
      c08::gen_values(c.rng, s);
      const bool unit = c.rng.coin(0.4);
      c08::gen_filter(c.rng, s, unit);
      // macros.  kind 0: random subsets; 1: one macro holding all DOFs (X = omega A^-1); 2: one macro per DOF (Jacobi)
      std::vector<std::vector<Index>> macros;
      if(mkind == 1) { macros.emplace_back(); for(Index i = 0; i < s.n; ++i) macros.back().push_back(i); }
      else if(mkind == 2) { for(Index i = 0; i < s.n; ++i) macros.push_back({i}); c.rng.shuffle(macros); }
      else
      {
        const Index nm = Index(c.rng.range(1, long(s.n)));
        for(Index m = 0; m < nm; ++m)
        {
          std::set<Index> st; const Index k = Index(c.rng.range(1, long(std::min<Index>(s.n, 6))));
          const Index base = Index(c.rng.below(s.n));
          for(Index q = 0; q < k; ++q) st.insert(c.rng.coin(0.7) ? (base + q) % s.n : Index(c.rng.below(s.n)));
          macros.emplace_back(st.begin(), st.end());
        }
        std::vector<char> cov(s.n, 0); for(auto& m : macros) for(Index q : m) cov[q] = 1;
        for(Index i = 0; i < s.n; ++i) if(!cov[i]) { auto& m = macros[c.rng.below(macros.size())]; m.push_back(i); std::sort(m.begin(), m.end()); }
      }
      c.tag(std::string("mat:") + (std::is_same<DT_, float>::value ? "csr-f32" : "csr"));
      c.tag(std::string("dt:") + vl::dt_name<DT_>());
      c.tag(unit ? "filter:unit" : "filter:none");
      c.tag(mkind == 0 ? "macros:pushed-random" : (mkind == 1 ? "macros:pushed-one-for-all" : "macros:pushed-singletons"));
      c08::size_tags(c, s);
      if(edge >= 0) c.tag("edge_corpus");
      MT m = c08::make_matrix<MT>(s);
      if(unit) { auto f = T::make_unit(s, c.rng); amavanka_csr_body(c, s, m, f, macros); }
      else { auto f = T::make_none(s); amavanka_csr_body(c, s, m, f, macros); }
    }
    pg.check();
  }
} // namespace c08x
