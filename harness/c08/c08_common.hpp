// c08_common.hpp -- shared generator / dense long-double oracle / history driver of the C08 harness
// (preconditioners apply exactly their defining linear operator).
//
// Truth = `Sys`: a dense long double image of a square block matrix (block size bs; bs == 1 for CSR) together
// with its block pattern and the set of components the correction filter zeroes.  FEAT containers are built
// from it, never the other way round.  All reference operators are the *textbook* operators of the property
// statement, evaluated by dense (block) forward/backward substitution in long double; every reference value
// carries a componentwise error majorant S such that a backward-stable floating point evaluation in precision
// u is within K*u*S of it (K = 8*(n+4)).  S is propagated through triangular solves with the comparison
// matrix recursion  S_x = M(T)^-1 (S_b + |b| + |T||x|)  (Higham, ASNA, Thm 8.5 ff.), so the bound is scaled
// by the conditioning of the triangular factors as DESIGN 6.8 demands; a wrong formula gives O(1)*|x|.
#pragma once
#include <common/vh_lafem.hpp>
#include <kernel/lafem/none_filter.hpp>
#include <kernel/lafem/unit_filter.hpp>
#include <kernel/lafem/unit_filter_blocked.hpp>
#include <kernel/lafem/mean_filter.hpp>
#include <kernel/lafem/mean_filter_blocked.hpp>
#include <kernel/util/statistics.hpp>
#include <kernel/solver/base.hpp>
#include <memory>
#include <functional>

namespace c08
{
  using vl::LD;
  using vl::RefVec;
  using FEAT::Index;
  namespace LAFEM = FEAT::LAFEM;

  // ------------------------------------------------------------------------------------------- truth
  // The filter of a system as the oracle sees it.  fkind 0: none; 1: unit filter (filter_cor == filter_def: the components
  // in `fixed` are zeroed); 2: mean filter with the primal/dual weighting vectors prim/dual (scalar numbering i*bs+p) and
  // the per-component volumes vol[p] exactly as handed to FEAT:
  //   filter_cor = P_cor = I - prim dual^T / vol,   filter_def = P_def = I - dual prim^T / vol
  // (blocked: independently for every component p over the indices i*bs+p).  For dual not parallel to prim these are two
  // DIFFERENT oblique projections, so a preconditioner applying the wrong one of the two is visible.
  struct FilterModel
  {
    Index nb = 0;             // number of block rows
    int bs = 1;               // block size
    Index n = 0;              // scalar dimension nb*bs
    std::vector<char> fixed;  // n, 1 = component zeroed by filter_cor (unit filter)
    int fkind = 0;            // 0 none, 1 unit, 2 mean
    std::vector<LD> prim, dual; // n each (mean filter), values exactly representable in the working precision
    std::vector<LD> vol;      // bs (mean filter), the volume held by the FEAT filter
    int mstyle = 0;           // 0: prim == 1, dual few-bit; 1: both few-bit; 2: both arbitrary (float-exact)
    bool mean_ctor3 = false;  // FEAT filter built by the 3-argument constructor (volume = prim.dual computed by FEAT; exact for few-bit styles)
    double sol_mean = 0.0;    // irrelevant for filter_cor / filter_def (must not leak into apply)
  };

  struct Sys : FilterModel
  {
    std::vector<char> bmask;  // nb*nb, 1 = block stored
    std::vector<LD> a;        // n*n dense values (exactly the values held by the FEAT matrix)
    std::string pattern;
    int vstyle = 0;
    double domf = 2.0;        // row dominance factor |a_ii| >= domf * sum_{j!=i}|a_ij|
    bool unit_filter = false;

    bool stored(Index I, Index J) const { return bmask[std::size_t(I) * nb + J] != 0; }
    Index nnzb() const { Index k = 0; for(char ch : bmask) k += ch ? 1 : 0; return k; }
    std::size_t max_row_len() const
    {
      std::size_t mx = 0;
      for(Index I = 0; I < nb; ++I) { std::size_t k = 0; for(Index J = 0; J < nb; ++J) k += stored(I, J) ? 1 : 0; mx = std::max(mx, k); }
      return mx * std::size_t(bs);
    }
    std::string describe(std::size_t maxn = 60) const
    {
      vh::J tr('[');
      std::size_t cnt = 0;
      for(Index I = 0; I < nb && cnt < maxn; ++I) for(Index J = 0; J < nb && cnt < maxn; ++J) if(stored(I, J))
        for(int p = 0; p < bs; ++p) for(int q = 0; q < bs; ++q)
        { vh::J e('['); e.add((unsigned long)(I * bs + p)); e.add((unsigned long)(J * bs + q)); e.add(a[std::size_t(I * bs + p) * n + (J * bs + q)]); tr.add_raw(e.str()); ++cnt; }
      vh::J fx('['); for(Index i = 0; i < n && i < 64; ++i) if(fixed[i]) fx.add((unsigned long)i);
      vh::J d; d.kv("n", (unsigned long)n).kv("bs", bs).kv("nnz_blocks", (unsigned long)nnzb()).kv("pattern", pattern)
        .kv("vstyle", vstyle).kv("domf", domf).raw("filtered", fx.str());
      if(fkind == 2)
      {
        vh::J pj('['), dj('['), vj('[');
        for(Index i = 0; i < n && i < 48; ++i) { pj.add(prim[i]); dj.add(dual[i]); }
        for(int p = 0; p < bs; ++p) vj.add(vol[std::size_t(p)]);
        d.raw("mean_filter", vh::J().kv("style", mstyle).kv("ctor_args", mean_ctor3 ? 3 : 4).kv("sol_mean", sol_mean)
          .raw("prim", pj.str()).raw("dual", dj.str()).raw("volume", vj.str()).str());
      }
      return d.raw("triplets", tr.str()).str();
    }
  };

  inline std::size_t n_edge() { return 10; }

  // block pattern: the first n_edge() indices of a family are deterministic edge patterns
  inline void gen_pattern(vh::Rng& r, Sys& s, Index max_n, int bs, long edge = -1)
  {
    s.bs = bs;
    auto alloc = [&](Index nb) { s.nb = nb; s.n = nb * Index(bs); s.bmask.assign(std::size_t(nb) * nb, 0); for(Index i = 0; i < nb; ++i) s.bmask[std::size_t(i) * nb + i] = 1; };
    auto set = [&](Index i, Index j) { s.bmask[std::size_t(i) * s.nb + j] = 1; };
    if(edge >= 0)
    {
      s.pattern = "edge" + std::to_string(edge);
      switch(edge)
      {
      case 0: alloc(1); break;
      case 1: alloc(2); set(0, 1); set(1, 0); break;
      case 2: alloc(5); break;                                                              // diagonal only
      case 3: alloc(6); for(Index i = 0; i < 6; ++i) for(Index j = 0; j < i; ++j) set(i, j); break; // lower triangular
      case 4: alloc(6); for(Index i = 0; i < 6; ++i) for(Index j = i + 1; j < 6; ++j) set(i, j); break; // upper triangular
      case 5: alloc(9); for(Index i = 0; i + 1 < 9; ++i) { set(i, i + 1); set(i + 1, i); } break; // tridiagonal
      case 6: alloc(7); for(Index i = 0; i < 7; ++i) for(Index j = 0; j < 7; ++j) set(i, j); break; // full
      case 7: alloc(8); for(Index i = 1; i < 8; ++i) { set(0, i); set(i, 0); } break;       // arrow pointing up-left: complete fill at level 1
      case 8: alloc(8); for(Index i = 0; i < 7; ++i) { set(7, i); set(i, 7); } break;       // arrow pointing down-right: no fill
      default: alloc(12); for(Index i = 0; i < 12; ++i) { if(i >= 3) { set(i, i - 3); set(i - 3, i); } if(i % 3) { set(i, i - 1); set(i - 1, i); } } break; // 5-point star 3x4
      }
      return;
    }
    vl::GenOpt o; o.max_dim = std::max<Index>(1, max_n / Index(bs)); o.square = true; o.allow_entry_free = false; o.force_diag = true;
    vl::MatSpec m = vl::gen_matrix(r, o);
    alloc(m.rows);
    for(auto& t : m.t) set(t.r, t.c);
    s.pattern = m.pattern;
    // symmetric pattern in half of the cases (the usual FE situation)
    if(r.coin(0.5)) { for(Index i = 0; i < s.nb; ++i) for(Index j = 0; j < s.nb; ++j) if(s.stored(i, j)) set(j, i); s.pattern += "+sym"; }
  }

  // values on the current pattern: off-diagonal entries random (float-exact), diagonal entries chosen such that every
  // scalar row is strictly diagonally dominant with factor domf
  inline void gen_values(vh::Rng& r, Sys& s)
  {
    s.vstyle = int(r.below(4));
    s.domf = r.pick<double>({1.25, 1.5, 2.0, 2.0, 4.0});
    const Index n = s.n; const int bs = s.bs;
    s.a.assign(std::size_t(n) * n, 0.0L);
    for(Index I = 0; I < s.nb; ++I) for(Index J = 0; J < s.nb; ++J) if(s.stored(I, J))
      for(int p = 0; p < bs; ++p) for(int q = 0; q < bs; ++q)
      {
        if(I == J && p == q) continue;
        s.a[std::size_t(I * bs + p) * n + (J * bs + q)] = (LD)vl::gen_value(r, s.vstyle, true);
      }
    for(Index i = 0; i < n; ++i)
    {
      LD sum = 0; for(Index j = 0; j < n; ++j) if(j != i) sum += std::fabs(s.a[std::size_t(i) * n + j]);
      double d = double(sum) * s.domf * 1.0001 + std::fabs(vl::gen_nonzero(r, s.vstyle == 3 ? 0 : s.vstyle, true));
      float f = float(d); if(!(double(f) >= d)) f = std::nextafter(f, std::numeric_limits<float>::infinity());
      if(f == 0.0f) f = 1.0f;
      s.a[std::size_t(i) * n + i] = (LD)(r.coin(0.3) ? -f : f);
    }
  }

  inline void gen_filter(vh::Rng& r, Sys& s, bool unit)
  {
    s.unit_filter = unit;
    s.fkind = unit ? 1 : 0;
    s.fixed.assign(s.n, 0);
    if(!unit) return;
    int kind = int(r.below(6)); // 0: empty, 1: all, else some
    for(Index I = 0; I < s.nb; ++I)
    {
      bool fx = kind == 0 ? false : (kind == 1 ? true : r.coin(0.25));
      for(int p = 0; p < s.bs; ++p) s.fixed[I * s.bs + p] = fx ? 1 : 0;
    }
  }

  // Mean filter: prim with all entries in [0.5,2] (or constant 1), dual positive in [0.25,3] and NOT proportional to prim
  // (within every component the ratios dual_i/prim_i spread by a factor >= 1.25 whenever there are two block rows), so
  // that the volume prim.dual is well away from 0 and P_cor != P_def.  Values are float-exact; the few-bit styles (k/8)
  // make prim.dual exact in float and double whatever the summation order (<= 300*384/64), so that the volume FEAT's
  // 3-argument constructor computes is the exact one.
  inline void gen_mean_filter(vh::Rng& r, Sys& s, bool single_precision)
  {
    s.unit_filter = false; s.fkind = 2;
    s.fixed.assign(s.n, 0);
    s.mstyle = int(r.below(3));
    s.mean_ctor3 = s.mstyle != 2 && r.coin(0.5);
    s.sol_mean = vl::gen_value(r, 0);
    s.prim.assign(s.n, 1.0L); s.dual.assign(s.n, 1.0L); s.vol.assign(std::size_t(s.bs), 0.0L);
    const Index bs = Index(s.bs);
    for(int attempt = 0; ; ++attempt)
    {
      for(Index i = 0; i < s.n; ++i)
      {
        s.prim[i] = s.mstyle == 0 ? 1.0L : (s.mstyle == 1 ? LD(r.range(4, 16)) / 8.0L : LD(float(r.real(0.5, 2.0))));
        s.dual[i] = s.mstyle == 2 ? LD(float(r.real(0.25, 3.0))) : LD(r.range(2, 24)) / 8.0L;
      }
      if(s.nb < 2) break;
      if(attempt >= 20)
      { for(Index p = 0; p < bs; ++p) { s.dual[p] = 0.25L; s.dual[bs + p] = 3.0L; } break; } // ratios <= 0.5 and >= 1.5
      bool ok = true;
      for(Index p = 0; p < bs; ++p)
      {
        LD lo = 1e300L, hi = 0;
        for(Index i = p; i < s.n; i += bs) { const LD q = s.dual[i] / s.prim[i]; lo = std::min(lo, q); hi = std::max(hi, q); }
        if(!(hi >= 1.25L * lo)) ok = false;
      }
      if(ok) break;
    }
    for(Index i = 0; i < s.n; ++i) s.vol[i % bs] += s.prim[i] * s.dual[i];
    // the volume handed to FEAT is the rounded one (exact for the few-bit styles); the oracle projects with that value
    for(auto& v : s.vol) v = single_precision ? LD(float(v)) : LD(double(v));
  }

  // a float-exact relaxation parameter for which D/omega + L and D + omega*L stay row diagonally dominant
  inline double gen_omega(vh::Rng& r, const Sys& s)
  {
    double w = r.pick<double>({1.0, 1.0, 0.5, 0.75, 1.25, 1.5, 1.875, -1.0});
    if(w < 0) w = r.real(0.05, 1.95);
    w = std::min(w, 0.95 * s.domf);
    return double(float(w));
  }

  // ------------------------------------------------------------------------------------------- FEAT containers
  template<typename MT_> struct MTraits;

  template<typename DT_, typename IT_>
  struct MTraits<LAFEM::SparseMatrixCSR<DT_, IT_>>
  {
    typedef DT_ DT; typedef IT_ IT;
    static constexpr int bs = 1;
    typedef LAFEM::SparseMatrixCSR<DT_, IT_> MT;
    typedef LAFEM::DenseVector<DT_, IT_> Vec;
    typedef LAFEM::NoneFilter<DT_, IT_> NoneF;
    typedef LAFEM::UnitFilter<DT_, IT_> UnitF;
    typedef LAFEM::MeanFilter<DT_, IT_> MeanF;
    static const char* name() { return "csr"; }
    static DT* mvals(MT& m) { return m.val(); }
    static DT* raw(Vec& v) { return v.elements(); }
    static const DT* raw(const Vec& v) { return v.elements(); }
    static Vec make_vec(Index nb) { return Vec(nb); }
    static NoneF make_none(const Sys&) { return NoneF(); }
    static UnitF make_unit(const Sys& s, vh::Rng& r)
    {
      UnitF f(s.nb);
      for(Index i = 0; i < s.nb; ++i) if(s.fixed[i]) f.add(IT(i), DT(vl::gen_value(r, 0)));
      return f;
    }
    static MeanF make_mean(const Sys& s)
    {
      Vec vp(s.nb), vd(s.nb);
      for(Index i = 0; i < s.n; ++i) { vp.elements()[i] = DT(s.prim[i]); vd.elements()[i] = DT(s.dual[i]); }
      if(s.mean_ctor3) return MeanF(std::move(vp), std::move(vd), DT(s.sol_mean));
      return MeanF(std::move(vp), std::move(vd), DT(s.sol_mean), DT(s.vol[0]));
    }
  };

  template<typename DT_, typename IT_, int BS_>
  struct MTraits<LAFEM::SparseMatrixBCSR<DT_, IT_, BS_, BS_>>
  {
    typedef DT_ DT; typedef IT_ IT;
    static constexpr int bs = BS_;
    typedef LAFEM::SparseMatrixBCSR<DT_, IT_, BS_, BS_> MT;
    typedef LAFEM::DenseVectorBlocked<DT_, IT_, BS_> Vec;
    typedef LAFEM::NoneFilterBlocked<DT_, IT_, BS_> NoneF;
    typedef LAFEM::UnitFilterBlocked<DT_, IT_, BS_> UnitF;
    typedef LAFEM::MeanFilterBlocked<DT_, IT_, BS_> MeanF;
    static const char* name() { return BS_ == 2 ? "bcsr2" : (BS_ == 3 ? "bcsr3" : "bcsrN"); }
    static DT* mvals(MT& m) { return m.template val<LAFEM::Perspective::pod>(); }
    static DT* raw(Vec& v) { return v.template elements<LAFEM::Perspective::pod>(); }
    static const DT* raw(const Vec& v) { return v.template elements<LAFEM::Perspective::pod>(); }
    static Vec make_vec(Index nb) { return Vec(nb); }
    static NoneF make_none(const Sys&) { return NoneF(); }
    static UnitF make_unit(const Sys& s, vh::Rng& r)
    {
      UnitF f(s.nb);
      for(Index i = 0; i < s.nb; ++i) if(s.fixed[i * BS_])
      {
        FEAT::Tiny::Vector<DT, BS_> v; for(int p = 0; p < BS_; ++p) v[p] = DT(vl::gen_value(r, 0));
        f.add(IT(i), v);
      }
      return f;
    }
    static MeanF make_mean(const Sys& s)
    {
      Vec vp(s.nb), vd(s.nb);
      DT* ep = raw(vp); DT* ed = raw(vd);
      for(Index i = 0; i < s.n; ++i) { ep[i] = DT(s.prim[i]); ed[i] = DT(s.dual[i]); }
      FEAT::Tiny::Vector<DT, BS_> sm, vol;
      for(int p = 0; p < BS_; ++p) { sm[p] = DT(s.sol_mean) + DT(p); vol[p] = DT(s.vol[std::size_t(p)]); }
      if(s.mean_ctor3) return MeanF(std::move(vp), std::move(vd), sm);
      return MeanF(std::move(vp), std::move(vd), sm, vol);
    }
  };

  // writes the values of the truth into the value array of an existing matrix with the same pattern (in place)
  template<typename MT_>
  void write_values(MT_& m, const Sys& s)
  {
    typedef MTraits<MT_> T; typedef typename T::DT DT;
    DT* v = T::mvals(m);
    std::size_t k = 0; const int bs = s.bs;
    for(Index I = 0; I < s.nb; ++I) for(Index J = 0; J < s.nb; ++J) if(s.stored(I, J))
      for(int p = 0; p < bs; ++p) for(int q = 0; q < bs; ++q)
        v[k++] = DT(s.a[std::size_t(I * bs + p) * s.n + (J * bs + q)]);
  }

  template<typename MT_>
  MT_ make_matrix(const Sys& s)
  {
    typedef MTraits<MT_> T; typedef typename T::DT DT; typedef typename T::IT IT;
    const Index nzb = s.nnzb();
    LAFEM::DenseVector<IT, IT> col(nzb), rp(s.nb + 1);
    LAFEM::DenseVector<DT, IT> val(nzb * Index(s.bs * s.bs), DT(0));
    Index k = 0; rp(0, IT(0));
    for(Index I = 0; I < s.nb; ++I) { for(Index J = 0; J < s.nb; ++J) if(s.stored(I, J)) col(k++, IT(J)); rp(I + 1, IT(k)); }
    MT_ m(s.nb, s.nb, col, val, rp);
    write_values(m, s);
    return m;
  }

  template<typename Vec_>
  Vec_ make_vec(const std::vector<double>& v, Index nb)
  {
    typedef typename Vec_::DataType DT;
    Vec_ x(nb);
    DT* e = x.template elements<LAFEM::Perspective::pod>();
    for(std::size_t i = 0; i < v.size(); ++i) e[i] = DT(v[i]);
    return x;
  }

  // ------------------------------------------------------------------------------------------- dense oracle kernels
  // Inverse of a small dense matrix (m <= 3) by the adjugate formula in long double, which is componentwise accurate
  // (Gauss-Jordan is not: tiny or exactly vanishing entries of the inverse drown in the elimination), together with the
  // majorant E of the error operator of an explicitly inverted block evaluated by the adjugate formula in precision u:
  //   |fl(inv) - inv| <= c u (1 + perm(|A|)/|det A|) adj(|A|)/|det A|   (entrywise, all products taken with absolute values)
  // so that |fl(fl(inv) r) - inv r| <= c u E |r|.  Returns false if singular.
  inline bool small_inverse(const LD* A, int m, LD* inv, LD* E = nullptr)
  {
    LD det = 0, pdet = 0, adj[9], padj[9];
    if(m == 1) { det = A[0]; pdet = std::fabs(A[0]); adj[0] = 1.0L; padj[0] = 1.0L; }
    else if(m == 2)
    {
      det = A[0] * A[3] - A[1] * A[2]; pdet = std::fabs(A[0] * A[3]) + std::fabs(A[1] * A[2]);
      adj[0] = A[3]; adj[1] = -A[1]; adj[2] = -A[2]; adj[3] = A[0];
      for(int i = 0; i < 4; ++i) padj[i] = std::fabs(adj[i]);
    }
    else if(m == 3)
    {
      // signed cofactor C_ij = a_{i+1,j+1} a_{i+2,j+2} - a_{i+1,j+2} a_{i+2,j+1} (indices mod 3); adj = C^T
      for(int i = 0; i < 3; ++i) for(int j = 0; j < 3; ++j)
      {
        const LD p = A[((i + 1) % 3) * 3 + (j + 1) % 3] * A[((i + 2) % 3) * 3 + (j + 2) % 3];
        const LD q = A[((i + 1) % 3) * 3 + (j + 2) % 3] * A[((i + 2) % 3) * 3 + (j + 1) % 3];
        adj[j * 3 + i] = p - q; padj[j * 3 + i] = std::fabs(p) + std::fabs(q);
      }
      for(int j = 0; j < 3; ++j) { det += A[j] * adj[j * 3 + 0]; pdet += std::fabs(A[j]) * padj[j * 3 + 0]; }
    }
    else return false;
    if(det == 0.0L) return false;
    const LD g = 1.0L + pdet / std::fabs(det);
    for(int i = 0; i < m * m; ++i) { inv[i] = adj[i] / det; if(E) E[i] = g * padj[i] / std::fabs(det); }
    return true;
  }

  // y = M x, S_i = sum_j |m_ij| (|x_j| + sx_j)
  inline RefVec dense_mv(const std::vector<LD>& M, Index n, const std::vector<LD>& x, const std::vector<LD>* sx = nullptr)
  {
    RefVec o; o.v.assign(n, 0.0L); o.s.assign(n, 0.0L);
    const LD* m = M.data();
    for(Index i = 0; i < n; ++i)
    {
      LD v = 0, s = 0; const LD* row = m + std::size_t(i) * n;
      for(Index j = 0; j < n; ++j) { const LD t = row[j]; if(t != 0.0L) { v += t * x[j]; s += std::fabs(t) * (std::fabs(x[j]) + (sx ? (*sx)[j] : 0.0L)); } }
      o.v[i] = v; o.s[i] = s;
    }
    return o;
  }

  // Solves T x = b for the block lower (lower == true) or block upper triangular part *including the diagonal
  // blocks* of the dense matrix T (entries outside that block triangle are ignored).  unit_diag: the diagonal blocks
  // are taken as identity.  The majorant follows the comparison-matrix recursion
  //   S_r = S_b + |b| + sum |T_IJ| (|x_J| + S_x_J),   S_x = E_I S_r,
  // E_I = 1/|d| for scalars and the adjugate-formula majorant of small_inverse() for explicitly inverted diagonal blocks.
  inline RefVec blk_tri_solve(const std::vector<LD>& Tm, Index nb, int bs, bool lower, bool unit_diag,
                              const std::vector<LD>& b, const std::vector<LD>* sb, bool* ok = nullptr)
  {
    const Index n = nb * Index(bs);
    RefVec o; o.v.assign(n, 0.0L); o.s.assign(n, 0.0L);
    const LD* T = Tm.data(); LD* x = o.v.data(); LD* sx = o.s.data();
    LD r[8], sr[8], D[64], Di[64], E[64];
    if(ok) *ok = true;
    for(Index cnt = 0; cnt < nb; ++cnt)
    {
      const Index I = lower ? cnt : nb - 1 - cnt;
      const Index j0 = lower ? 0 : (I + 1) * bs, j1 = lower ? I * bs : n;
      for(int p = 0; p < bs; ++p)
      {
        const Index i = I * bs + p; const LD* row = T + std::size_t(i) * n;
        LD rv = b[i], sv = (sb ? (*sb)[i] : 0.0L) + std::fabs(b[i]);
        for(Index j = j0; j < j1; ++j) { const LD t = row[j]; if(t != 0.0L) { rv -= t * x[j]; sv += std::fabs(t) * (std::fabs(x[j]) + sx[j]); } }
        r[p] = rv; sr[p] = sv;
      }
      if(unit_diag) { for(int p = 0; p < bs; ++p) { x[I * bs + p] = r[p]; sx[I * bs + p] = sr[p]; } continue; }
      if(bs == 1)
      {
        const LD d = T[std::size_t(I) * n + I];
        if(d == 0.0L) { if(ok) *ok = false; x[I] = 0; sx[I] = 0; continue; }
        x[I] = r[0] / d; sx[I] = sr[0] / std::fabs(d);
        continue;
      }
      for(int p = 0; p < bs; ++p) for(int q = 0; q < bs; ++q) D[p * bs + q] = T[std::size_t(I * bs + p) * n + (I * bs + q)];
      if(!small_inverse(D, bs, Di, E)) { if(ok) *ok = false; continue; }
      for(int p = 0; p < bs; ++p)
      {
        LD v = 0, sv = 0;
        for(int q = 0; q < bs; ++q) { v += Di[p * bs + q] * r[q]; sv += E[p * bs + q] * sr[q]; }
        x[I * bs + p] = v; sx[I * bs + p] = sv;
      }
    }
    return o;
  }

  // dense Gaussian elimination with partial pivoting: solves A x = b (A is copied); returns false if singular
  inline bool dense_solve(std::vector<LD> A, Index n, std::vector<LD> b, std::vector<LD>& x)
  {
    LD* a = A.data();
    for(Index k = 0; k < n; ++k)
    {
      Index p = k; for(Index i = k + 1; i < n; ++i) if(std::fabs(a[std::size_t(i) * n + k]) > std::fabs(a[std::size_t(p) * n + k])) p = i;
      if(a[std::size_t(p) * n + k] == 0.0L) return false;
      if(p != k) { for(Index j = 0; j < n; ++j) std::swap(a[std::size_t(p) * n + j], a[std::size_t(k) * n + j]); std::swap(b[p], b[k]); }
      const LD piv = a[std::size_t(k) * n + k];
      for(Index i = k + 1; i < n; ++i)
      {
        LD f = a[std::size_t(i) * n + k]; if(f == 0.0L) continue; f /= piv;
        LD* ri = a + std::size_t(i) * n; const LD* rk = a + std::size_t(k) * n;
        for(Index j = k + 1; j < n; ++j) ri[j] -= f * rk[j];
        b[i] -= f * b[k];
      }
    }
    x.assign(n, 0.0L);
    for(Index i = n; i-- > 0;)
    {
      LD v = b[i]; const LD* ri = a + std::size_t(i) * n;
      for(Index j = i + 1; j < n; ++j) v -= ri[j] * x[j];
      x[i] = v / ri[i];
    }
    return true;
  }

  // the parts of A used by the textbook formulas, at block level: D = block diagonal, L / U = strict block triangles
  inline std::vector<LD> part(const Sys& s, int which /*0 D, 1 L, 2 U*/, LD scale = 1.0L)
  {
    std::vector<LD> o(s.a.size(), 0.0L); const Index n = s.n; const int bs = s.bs;
    for(Index i = 0; i < n; ++i) for(Index j = 0; j < n; ++j)
    {
      const Index I = i / bs, J = j / bs;
      const int w = I == J ? 0 : (J < I ? 1 : 2);
      if(w == which) o[std::size_t(i) * n + j] = scale * s.a[std::size_t(i) * n + j];
    }
    return o;
  }
  inline void add_to(std::vector<LD>& a, const std::vector<LD>& b) { for(std::size_t i = 0; i < a.size(); ++i) a[i] += b[i]; }

  // ------------------------------------------------------------------------------------------- comparison
  template<typename DT_> inline LD bound_of(LD S, std::size_t len)
  { return 8.0L * LD(len + 4) * vl::unit_roundoff<DT_>() * S + (LD)std::numeric_limits<DT_>::min() * 16.0L; }

  inline void bucket(vh::Ctx& c, LD exc)
  {
    if(exc <= 1e-3L) c.count("excess<=1e-3"); else if(exc <= 1e-2L) c.count("excess<=1e-2");
    else if(exc <= 1e-1L) c.count("excess<=1e-1"); else if(exc <= 1.0L) c.count("excess<=1"); else c.count("excess>1");
  }

  // ------------------------------------------------------------------------------------------- filter model
  // Mean filter, exact oblique projection in long double  y = x - a (b.x)/vol  per component group (cor: a = prim,
  // b = dual; def: a = dual, b = prim) with the error majorant of FEAT's evaluation  alpha = -fl(fl(b.x^)/vol),
  // y^ = fl(x^ + alpha a)  in precision u on an input x^ with |x^ - x| <= K u s,  K = 8(len+4) >= 40, m = entries per group:
  //   |y^_i - y_i| <= K u s_i                                   (input error)
  //                 + |a_i|/|vol| K u sum_j |b_j| s_j             (input error through the dot product)
  //                 + |a_i|/|vol| (m+1) u sum_j |b_j||x_j|        (dot product in any summation order, division)
  //                 + u (|alpha a_i| + |y_i|)                     (axpy)            + second order terms
  // =>  S_i = s_i + 2 c_i(s) + (2(m+1)/K + 1/4) c_i(|x|) + |y_i|/4,  c_i(w) = |a_i| sum_j |b_j| w_j / |vol|
  // (every new term doubled: sound and generous by a constant, nothing fitted to data).
  inline void mean_project(const FilterModel& f, RefVec& r, bool cor, std::size_t len)
  {
    const std::vector<LD>& a = cor ? f.prim : f.dual;
    const std::vector<LD>& b = cor ? f.dual : f.prim;
    const Index bs = Index(f.bs);
    const LD cm = 2.0L * LD(f.nb + 1) / (8.0L * LD(len + 4)) + 0.25L;
    for(Index p = 0; p < bs; ++p)
    {
      LD dot = 0, adot = 0, edot = 0; const LD vol = f.vol[p];
      for(Index j = p; j < f.n; j += bs) { dot += b[j] * r.v[j]; adot += std::fabs(b[j] * r.v[j]); edot += std::fabs(b[j]) * r.s[j]; }
      const LD alpha = dot / vol;
      for(Index i = p; i < f.n; i += bs)
      {
        const LD y = r.v[i] - a[i] * alpha; const LD ai = std::fabs(a[i] / vol);
        r.s[i] = r.s[i] + 2.0L * ai * edot + cm * ai * adot + 0.25L * std::fabs(y);
        r.v[i] = y;
      }
    }
  }

  // the same majorant for a vector known only through w_j >= |x_j| + s_j (w bounds the magnitude of the input as well as
  // its error in units of K u): returns W with |y^_i - y_i| <= K u W_i  (|y_i| <= w_i + c_i(w))
  inline std::vector<LD> mean_majorant(const FilterModel& f, const std::vector<LD>& w, bool cor, std::size_t len)
  {
    const std::vector<LD>& a = cor ? f.prim : f.dual;
    const std::vector<LD>& b = cor ? f.dual : f.prim;
    const Index bs = Index(f.bs);
    const LD cm = 2.0L * LD(f.nb + 1) / (8.0L * LD(len + 4)) + 0.25L;
    std::vector<LD> W(w.size());
    for(Index p = 0; p < bs; ++p)
    {
      LD wdot = 0; const LD vol = f.vol[p];
      for(Index j = p; j < f.n; j += bs) wdot += std::fabs(b[j]) * w[j];
      for(Index i = p; i < f.n; i += bs)
      {
        const LD ci = std::fabs(a[i] / vol) * wdot;
        W[i] = w[i] + 2.0L * ci + cm * ci + 0.25L * (w[i] + ci);
      }
    }
    return W;
  }

  // applies the correction (cor) or defect (!cor) filter of the model to a reference vector and its majorant
  inline void apply_filter_ref(const FilterModel& f, RefVec& r, bool cor, std::size_t len)
  {
    if(f.fkind == 2) { mean_project(f, r, cor, len); return; }
    for(Index i = 0; i < f.n; ++i) if(f.fixed[i]) { r.v[i] = 0.0L; r.s[i] = 0.0L; }
  }

  // A reference operator whose exact intermediate or final values leave the range of the working precision marks its
  // majorant as infinite: nothing can be asserted about such a component (see PolyRef) and the comparisons skip it.
  inline bool unassertable(LD S) { return S == std::numeric_limits<LD>::infinity(); }

  // applies the correction filter to the reference
  inline void filter_ref(const Sys& s, RefVec& r, std::size_t len) { apply_filter_ref(s, r, true, len); }

  // worst excess err/bound over all components (no record written)
  template<typename DT_>
  LD worst_excess(const DT_* got, const RefVec& ref, std::size_t len, bool skip_inf = false)
  {
    LD worst = 0;
    for(std::size_t i = 0; i < ref.v.size(); ++i)
    {
      const LD g = (LD)got[i]; const LD bd = bound_of<DT_>(ref.s[i], len); const LD err = std::fabs(g - ref.v[i]);
      if(skip_inf && unassertable(ref.s[i])) continue;
      worst = std::max(worst, (g == g) ? (bd > 0 ? err / bd : (err > 0 ? 1e300L : 0.0L)) : 1e300L);
    }
    return worst;
  }

  template<typename DT_>
  bool compare_vec(vh::Ctx& c, const std::string& op, const char* kind, const char* phase, const DT_* got, const RefVec& ref,
                   std::size_t len, const std::string& extra = "", bool skip_inf = false)
  {
    LD worst = 0; Index wi = 0; bool bad = false, skipped = false; const Index n = Index(ref.v.size());
    for(Index i = 0; i < n; ++i)
    {
      const LD g = (LD)got[i]; const LD bd = bound_of<DT_>(ref.s[i], len); const LD err = std::fabs(g - ref.v[i]);
      if(skip_inf && unassertable(ref.s[i])) { skipped = true; continue; }
      LD exc = (g == g) ? (bd > 0 ? err / bd : (err > 0 ? 1e300L : 0.0L)) : 1e300L;
      if(exc > worst || i == 0) { worst = exc; wi = i; }
      if(exc > 1.0L) bad = true;
    }
    if(skipped) c.count("unasserted:reference-exceeds-range-of-working-precision");
    bucket(c, worst);
    if(bad)
    {
      vh::J d; d.kv("phase", phase).kv("component", (unsigned long)wi).kv("got", (LD)got[wi]).kv("expected", ref.v[wi])
        .kv("bound", bound_of<DT_>(ref.s[wi], len)).kv("excess", worst);
      if(!extra.empty()) d.raw("params", extra);
      c.viol(op, kind, d.str());
    }
    return !bad;
  }

  // garbage content for the output vector ("its numerical contents may be undefined")
  template<typename DT_>
  void fill_garbage(vh::Rng& r, DT_* e, std::size_t n, int kind)
  {
    for(std::size_t i = 0; i < n; ++i)
      e[i] = kind == 0 ? DT_(777) : (kind == 1 ? DT_(-1e30) : (kind == 2 ? std::numeric_limits<DT_>::quiet_NaN() : DT_(r.real(-1e3, 1e3))));
  }

  inline std::vector<LD> to_ld(const std::vector<double>& v) { return std::vector<LD>(v.begin(), v.end()); }

  // values with few mantissa bits (k/8, |k| <= 64) so that small linear combinations are exact in float
  inline std::vector<double> gen_fewbit(vh::Rng& r, Index n) { std::vector<double> v(n); for(auto& x : v) x = double(r.range(-64, 64)) / 8.0; return v; }

  // ------------------------------------------------------------------------------------------- per-apply monitor
  // RefFn: RefVec(const std::vector<LD>& def) -- the textbook operator *before* the correction filter
  typedef std::function<RefVec(const std::vector<LD>&)> RefFunc;
  // Alternative operator used only to *classify* a mismatch: if FEAT's result disagrees with the textbook operator but
  // agrees with `make(sys)`, the violation is recorded with kind `kind` instead of "wrong-value" (so that a confirmed
  // defect can be matched narrowly by a known-findings entry without masking other failures of the same call site).
  struct Alt { std::function<RefFunc(const Sys&)> make; std::string kind; };

  template<typename Vec_, typename RefFn_>
  struct ApplyMon
  {
    typedef typename Vec_::DataType DT;
    vh::Ctx& c; const Sys& s; FEAT::Solver::SolverBase<Vec_>& sol; RefFn_& ref; std::string op; std::string params; std::size_t len;
    RefFunc alt; std::string alt_kind;

    // one monitored apply; returns FEAT's result and the reference (for the linearity monitor)
    bool run(const std::vector<double>& defv, const char* phase, std::vector<LD>* out = nullptr, RefVec* oref = nullptr)
    {
      Vec_ def = make_vec<Vec_>(defv, s.nb);
      Vec_ cor(s.nb);
      const int gk = int(c.rng.below(4));
      fill_garbage(c.rng, cor.template elements<LAFEM::Perspective::pod>(), s.n, gk);
      const std::uint64_t h0 = vl::container_hash(def);
      FEAT::Solver::Status st = sol.apply(cor, def);
      c.event();
      bool good = true;
      if(st != FEAT::Solver::Status::success)
      { c.viol(op, "status", vh::J().kv("phase", phase).kv("status", int(st)).str()); good = false; }
      if(vl::container_hash(def) != h0) { c.viol(op, "input-modified", vh::J().kv("phase", phase).str()); good = false; }
      RefVec r = ref(to_ld(defv));
      filter_ref(s, r, len);
      const DT* g = cor.template elements<LAFEM::Perspective::pod>();
      // classification of a mismatch by the alternative operator (see Alt); the linearity monitor then uses its majorant
      const char* kind = "wrong-value"; RefVec ra; bool use_alt = false;
      if(alt && worst_excess<DT>(g, r, len, true) > 1.0L)
      {
        ra = alt(to_ld(defv)); filter_ref(s, ra, len);
        if(worst_excess<DT>(g, ra, len, true) <= 1.0L) { kind = alt_kind.c_str(); use_alt = true; }
      }
      if(!compare_vec<DT>(c, op, kind, phase, g, r, len, params, true)) good = false;
      if(c.verbose() && s.n <= 12)
      {
        std::printf("apply[%s] phase=%s\n", op.c_str(), phase);
        for(Index i = 0; i < s.n; ++i) std::printf("  i=%lu def=%.17g got=%.17g ref=%.21Lg S=%.6Lg\n", (unsigned long)i, defv[i], double(g[i]), r.v[i], r.s[i]);
      }
      if(out) { out->resize(s.n); for(Index i = 0; i < s.n; ++i) (*out)[i] = (LD)g[i]; }
      if(oref) *oref = use_alt ? ra : r;
      return good;
    }

    void random_apply(const char* phase)
    {
      run(vl::gen_vec(c.rng, s.n, int(c.rng.below(4)), true), phase);
    }

    // apply(a*u + b*v) == a*apply(u) + b*apply(v) within the propagated bound
    void linearity(const char* phase)
    {
      std::vector<double> u = gen_fewbit(c.rng, s.n), v = gen_fewbit(c.rng, s.n), w(s.n);
      const double a = c.rng.pick<double>({2.0, -1.0, 0.5, 3.0, -0.25, 1.0, 0.0}), b = c.rng.pick<double>({1.0, -2.0, 0.5, -3.0, 0.25});
      for(Index i = 0; i < s.n; ++i) w[i] = a * u[i] + b * v[i]; // exact (<= 13 significant bits)
      std::vector<LD> xu, xv, xw; RefVec ru, rv, rw;
      run(u, phase, &xu, &ru); run(v, phase, &xv, &rv); run(w, phase, &xw, &rw);
      RefVec comb; comb.v.resize(s.n); comb.s.resize(s.n);
      for(Index i = 0; i < s.n; ++i)
      {
        comb.v[i] = (LD)a * xu[i] + (LD)b * xv[i];
        comb.s[i] = std::fabs((LD)a) * ru.s[i] + std::fabs((LD)b) * rv.s[i] + rw.s[i];
        if(unassertable(ru.s[i]) || unassertable(rv.s[i]) || unassertable(rw.s[i])) comb.s[i] = std::numeric_limits<LD>::infinity(); // (0 * inf)
      }
      std::vector<DT> z(s.n); for(Index i = 0; i < s.n; ++i) z[i] = DT(xw[i]);
      c.event();
      compare_vec<DT>(c, op, "not-linear", phase, z.data(), comb, len, vh::J().kv("a", a).kv("b", b).str(), true);
    }
  };

  // ------------------------------------------------------------------------------------------- history driver
  // Mk: shared_ptr<SolverBase<Vec>>(const MT&, const Filter&); MkRef: RefFn(const Sys&) builds the reference operator for
  // the *current* values of the truth.  The history is
  //   init_symbolic -> init_numeric -> apply* [-> done_numeric/init_numeric | done/init] -> (new values, in place)
  //   -> init_numeric -> apply* -> done_numeric -> done_symbolic [-> init -> apply -> done]
  // upd() is called after every in-place value change (for preconditioners holding further value-dependent inputs).
  template<typename MT_, typename Filter_, typename Mk_, typename MkRef_, typename Upd_>
  void history(vh::Ctx& c, Sys& s, MT_& matrix, const Filter_& filter, const std::string& op, const std::string& params,
               Mk_ mk, MkRef_ mkref, Upd_ upd, std::size_t len, const Alt& alt = Alt())
  {
    typedef typename MTraits<MT_>::Vec Vec;
    auto sol = mk(matrix, filter);
    auto run_phase = [&](const char* phase, int napply, bool lin)
    {
      auto ref = mkref(s);
      ApplyMon<Vec, decltype(ref)> mon{c, s, *sol, ref, op, params, len, alt.make ? alt.make(s) : RefFunc(), alt.kind};
      for(int i = 0; i < napply; ++i) mon.random_apply(phase);
      if(lin) mon.linearity(phase);
    };
    vh::Rng& r = c.rng;
    if(r.coin(0.3)) sol->init(); else { sol->init_symbolic(); sol->init_numeric(); }
    run_phase("initial", int(r.range(1, 2)), true);
    const int life = int(r.below(4));
    if(life == 1) { sol->done_numeric(); sol->init_numeric(); run_phase("after-done_numeric-init_numeric", 1, false); c.tag("life:renumeric"); }
    else if(life == 2) { sol->done(); sol->init(); run_phase("after-done-init", 1, false); c.tag("life:reinit"); }
    // change the matrix values in place on the same pattern
    gen_values(r, s);
    const bool dn = r.coin(0.3);
    if(dn) sol->done_numeric();
    write_values(matrix, s); upd();
    if(!dn && r.coin(0.3))
    {
      // stale-or-live is unspecified between the value change and init_numeric: the call is made, nothing is asserted
      Vec def = make_vec<Vec>(vl::gen_vec(r, s.n, 1, true), s.nb); Vec cor(s.nb, typename Vec::DataType(0));
      sol->apply(cor, def);
      c.tag("apply-before-refresh");
    }
    sol->init_numeric();
    run_phase("after-value-update", int(r.range(1, 2)), r.coin(0.5));
    sol->done_numeric();
    sol->done_symbolic();
    if(r.coin(0.3))
    {
      if(r.coin(0.5)) { gen_values(r, s); write_values(matrix, s); upd(); }
      sol->init();
      run_phase("after-full-reinit", 1, false);
      sol->done();
      c.tag("life:full-reinit");
    }
  }

  // leak monitor: bytes held by FEAT's MemoryPool before / after a case
  struct PoolGuard
  {
    vh::Ctx& c; std::string op; Index before;
    PoolGuard(vh::Ctx& cc, const std::string& o) : c(cc), op(o), before(FEAT::MemoryPool::allocated_memory()) {}
    void check()
    {
      FEAT::Statistics::reset();
      const Index after = FEAT::MemoryPool::allocated_memory();
      c.event();
      if(after != before) c.viol(op, "leak", vh::J().kv("pool_bytes_before", (unsigned long)before).kv("pool_bytes_after", (unsigned long)after).str());
    }
  };

  inline void size_tags(vh::Ctx& c, const Sys& s)
  {
    c.tag(s.n == 1 ? "n:1" : (s.n <= 8 ? "n:2-8" : (s.n <= 40 ? "n:9-40" : "n:41+")));
    c.tag("pat:" + s.pattern);
  }
  inline void omega_tag(vh::Ctx& c, double w) { c.tag(w == 1.0 ? "omega:1" : (w < 1.0 ? "omega:<1" : "omega:>1")); }
} // namespace c08
