// C08 -- scale / diagonal / matrix preconditioners ("the stated product" followed by the correction filter) + main
//   Scale(omega):   cor = omega * def
//   Diagonal(d):    cor = d .* def
//   Matrix(M):      cor = M * def
#include "c08_dispatch.hpp"
#include <kernel/solver/scale_precond.hpp>
#include <kernel/solver/diagonal_precond.hpp>
#include <kernel/solver/matrix_precond.hpp>

using namespace FEAT;
using namespace c08;

namespace
{
  template<typename MT_>
  void simple_case(vh::Ctx& c, long edge)
  {
    typedef MTraits<MT_> T; typedef typename T::Vec Vec; typedef typename T::DT DT;
    const int kind = int(c.rng.below(3));
    const char* opn = kind == 0 ? "scale.apply" : (kind == 1 ? "diagonal.apply" : "matrix.apply");
    with_system<MT_>(c, max_n(c), edge, opn, 0.4, [&](Sys& s, MT_& m, const auto& f)
    {
      c.set_op(opn);
      if(kind == 0)
      {
        const double omega = double(float(c.rng.coin(0.3) ? c.rng.real(-3.0, 3.0) : c.rng.pick<double>({1.0, 0.5, 2.0, -1.0, 0.0, 1e-6, 1e6})));
        c.desc = vh::J().kv("precond", "scale").kv("omega", omega).raw("system", s.describe(8)).str();
        history(c, s, m, f, opn, vh::J().kv("omega", omega).str(),
          [&](const MT_&, const auto& ff) { return Solver::new_scale_precond(ff, DT(omega)); },
          [omega](const Sys& t)
          {
            const Index n = t.n;
            return [omega, n](const std::vector<LD>& b)
            { RefVec x; x.v.resize(n); x.s.resize(n); for(Index i = 0; i < n; ++i) { x.v[i] = (LD)omega * b[i]; x.s[i] = std::fabs(x.v[i]); } return x; };
          }, [] {}, 1);
      }
      else if(kind == 1)
      {
        // the diagonal vector holds the (float-exact) main diagonal of the system, and in some cases arbitrary values incl. zeros
        const bool arbitrary = c.rng.coin(0.5);
        auto dvals = std::make_shared<std::vector<double>>(s.n);
        Vec diag(s.nb);
        auto upd = [&]()
        {
          for(Index i = 0; i < s.n; ++i) (*dvals)[i] = arbitrary ? vl::gen_value(c.rng, 3, true) : double(s.a[std::size_t(i) * s.n + i]);
          DT* e = T::raw(diag); for(Index i = 0; i < s.n; ++i) e[i] = DT((*dvals)[i]);
        };
        upd();
        c.tag(arbitrary ? "diag:arbitrary" : "diag:matrix-diagonal");
        c.desc = vh::J().kv("precond", "diagonal").raw("diag", vh::jarr(*dvals)).raw("system", s.describe(8)).str();
        history(c, s, m, f, opn, "{}",
          [&](const MT_&, const auto& ff) { return Solver::new_diagonal_precond(diag, ff); },
          [dvals](const Sys& t)
          {
            const Index n = t.n; std::vector<double> d = *dvals;
            return [d, n](const std::vector<LD>& b)
            { RefVec x; x.v.resize(n); x.s.resize(n); for(Index i = 0; i < n; ++i) { x.v[i] = (LD)d[i] * b[i]; x.s[i] = std::fabs(x.v[i]); } return x; };
          }, upd, 1);
      }
      else
      {
        c.desc = vh::J().kv("precond", "matrix").raw("system", s.describe()).str();
        history(c, s, m, f, opn, "{}",
          [&](const MT_& mm, const auto& ff) { return Solver::new_matrix_precond(mm, ff); },
          [](const Sys& t)
          {
            auto A = std::make_shared<std::vector<LD>>(t.a); const Index n = t.n;
            return [A, n](const std::vector<LD>& b) { return dense_mv(*A, n, b); };
          }, [] {}, s.max_row_len());
      }
    });
  }
}

VH_FAMILY(simple)
{
  for_type(c, 4, [&](int which, long edge)
  {
    switch(which)
    {
    case 0: simple_case<CsrD>(c, edge); break;
    case 1: simple_case<CsrF>(c, edge); break;
    case 2: simple_case<Bcsr2>(c, edge); break;
    default: simple_case<Bcsr3>(c, edge); break;
    }
  });
}

VH_FEAT_MAIN
