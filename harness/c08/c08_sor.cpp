// C08 -- SOR and SSOR preconditioners against the dense textbook operators
//   SOR :  (D/omega + L)^-1
//   SSOR:  omega (2 - omega) (D + omega U)^-1 D (D + omega L)^-1
// (D block diagonal, L/U strict block triangles for BCSR), each followed by the correction filter.
#include "c08_dispatch.hpp"
#include <kernel/solver/sor_precond.hpp>
#include <kernel/solver/ssor_precond.hpp>

using namespace FEAT;
using namespace c08;

namespace
{
  template<typename MT_>
  void sor_case(vh::Ctx& c, long edge)
  {
    with_system<MT_>(c, max_n(c), edge, "sor.apply", 0.4, [&](Sys& s, MT_& m, const auto& f)
    {
      const double omega = gen_omega(c.rng, s);
      omega_tag(c, omega);
      // (seed C08f) half of the objects are constructed with another relaxation parameter and get theirs through set_omega()
      const bool via_set = c.rng.coin(0.5);
      const double omega0 = omega == 1.0 ? 0.5 : 1.0;
      if(via_set) c.tag("omega:via_set_omega");
      c.set_op("sor.apply");
      c.desc = vh::J().kv("precond", "sor").kv("omega", omega).raw("system", s.describe()).str();
      typedef typename MT_::DataType DT;
      history(c, s, m, f, "sor.apply", vh::J().kv("omega", omega).str(),
        [&](const MT_& mm, const auto& ff) { auto pp = Solver::new_sor_precond(PreferredBackend::generic, mm, ff, DT(via_set ? omega0 : omega)); if(via_set) pp->set_omega(DT(omega)); return pp; },
        [omega](const Sys& t)
        {
          auto T = std::make_shared<std::vector<LD>>(part(t, 0, 1.0L / (LD)omega));
          add_to(*T, part(t, 1));
          const Index nb = t.nb; const int bs = t.bs;
          return [T, nb, bs](const std::vector<LD>& b) { return blk_tri_solve(*T, nb, bs, true, false, b, nullptr); };
        }, [] {}, s.n);
    });
  }

  template<typename MT_>
  void ssor_case(vh::Ctx& c, long edge)
  {
    with_system<MT_>(c, max_n(c), edge, "ssor.apply", 0.4, [&](Sys& s, MT_& m, const auto& f)
    {
      const double omega = gen_omega(c.rng, s);
      omega_tag(c, omega);
      // (seed C08f) half of the objects are constructed with another relaxation parameter and get theirs through set_omega()
      const bool via_set = c.rng.coin(0.5);
      const double omega0 = omega == 1.0 ? 0.5 : 1.0;
      if(via_set) c.tag("omega:via_set_omega");
      c.set_op("ssor.apply");
      c.desc = vh::J().kv("precond", "ssor").kv("omega", omega).raw("system", s.describe()).str();
      typedef typename MT_::DataType DT;
      // classification only: the same operator without the factor omega(2-omega) (blocked matrices, omega != 1)
      Alt alt;
      if(s.bs > 1 && omega != 1.0)
      {
        alt.kind = "missing-omega-scaling";
        alt.make = [omega](const Sys& t) -> RefFunc
        {
          auto D = std::make_shared<std::vector<LD>>(part(t, 0));
          auto T1 = std::make_shared<std::vector<LD>>(*D); add_to(*T1, part(t, 1, (LD)omega));
          auto T2 = std::make_shared<std::vector<LD>>(*D); add_to(*T2, part(t, 2, (LD)omega));
          const Index nb = t.nb, n = t.n; const int bs = t.bs;
          return [D, T1, T2, nb, n, bs](const std::vector<LD>& b)
          {
            RefVec y = blk_tri_solve(*T1, nb, bs, true, false, b, nullptr);
            RefVec z = dense_mv(*D, n, y.v, &y.s);
            return blk_tri_solve(*T2, nb, bs, false, false, z.v, &z.s);
          };
        };
      }
      history(c, s, m, f, "ssor.apply", vh::J().kv("omega", omega).str(),
        [&](const MT_& mm, const auto& ff) { auto pp = Solver::new_ssor_precond(PreferredBackend::generic, mm, ff, DT(via_set ? omega0 : omega)); if(via_set) pp->set_omega(DT(omega)); return pp; },
        [omega](const Sys& t)
        {
          auto D = std::make_shared<std::vector<LD>>(part(t, 0));
          auto T1 = std::make_shared<std::vector<LD>>(*D); add_to(*T1, part(t, 1, (LD)omega));
          auto T2 = std::make_shared<std::vector<LD>>(*D); add_to(*T2, part(t, 2, (LD)omega));
          const Index nb = t.nb, n = t.n; const int bs = t.bs; const LD sc = (LD)omega * (2.0L - (LD)omega);
          return [D, T1, T2, nb, n, bs, sc](const std::vector<LD>& b)
          {
            RefVec y = blk_tri_solve(*T1, nb, bs, true, false, b, nullptr);
            RefVec z = dense_mv(*D, n, y.v, &y.s);
            RefVec x = blk_tri_solve(*T2, nb, bs, false, false, z.v, &z.s);
            for(Index i = 0; i < n; ++i) { x.s[i] *= std::fabs(sc); x.v[i] *= sc; x.s[i] += std::fabs(x.v[i]); }
            return x;
          };
        }, [] {}, s.n, alt);
    });
  }
}

VH_FAMILY(sor)
{
  for_type(c, 4, [&](int which, long edge)
  {
    switch(which)
    {
    case 0: sor_case<CsrD>(c, edge); break;
    case 1: sor_case<CsrF>(c, edge); break;
    case 2: sor_case<Bcsr2>(c, edge); break;
    default: sor_case<Bcsr3>(c, edge); break;
    }
  });
}

VH_FAMILY(ssor)
{
  for_type(c, 4, [&](int which, long edge)
  {
    switch(which)
    {
    case 0: ssor_case<CsrD>(c, edge); break;
    case 1: ssor_case<CsrF>(c, edge); break;
    case 2: ssor_case<Bcsr2>(c, edge); break;
    default: ssor_case<Bcsr3>(c, edge); break;
    }
  });
}
