// c08_dispatch.hpp -- matrix-type / filter-type dispatch shared by the C08 family TUs
#pragma once
#include "c08_common.hpp"

namespace c08
{
  typedef LAFEM::SparseMatrixCSR<double, FEAT::Index> CsrD;
  typedef LAFEM::SparseMatrixCSR<float, unsigned int> CsrF;
  typedef LAFEM::SparseMatrixBCSR<double, FEAT::Index, 2, 2> Bcsr2;
  typedef LAFEM::SparseMatrixBCSR<double, FEAT::Index, 3, 3> Bcsr3;

  template<typename T_> struct Tag { typedef T_ type; };

  inline Index max_n(const vh::Ctx& c, Index quick = 40, Index thorough = 300) { return c.thorough() ? thorough : quick; }

  // Generates the truth (pattern, dominant values, filter), builds the FEAT matrix and filter of type MT_ and calls
  // body(sys, matrix, filter).  Everything FEAT-side lives inside the pool guard's scope.
  template<typename MT_, typename Body_>
  void with_system(vh::Ctx& c, Index maxn, long edge, const char* opname, double p_unit, Body_ body)
  {
    typedef MTraits<MT_> T;
    PoolGuard pg(c, opname);
    {
      Sys s;
      gen_pattern(c.rng, s, maxn, T::bs, edge);
      gen_values(c.rng, s);
      // filter kind: mean filter (filter_cor != filter_def) in 25% of the cases, otherwise unit with probability p_unit
      const bool mean = c.rng.coin(0.25);
      const bool unit = !mean && c.rng.coin(p_unit);
      if(mean) gen_mean_filter(c.rng, s, std::is_same<typename T::DT, float>::value); else gen_filter(c.rng, s, unit);
      c.tag(std::string("mat:") + T::name());
      c.tag(T::bs > 1 ? "blocked" : "scalar");
      c.tag(std::string("dt:") + vl::dt_name<typename T::DT>());
      c.tag(mean ? "filter:mean" : (unit ? "filter:unit" : "filter:none"));
      if(mean) c.tag(s.mstyle == 0 ? "meanv:prim-one" : (s.mstyle == 1 ? "meanv:fewbit" : "meanv:arbitrary"));
      size_tags(c, s);
      if(edge >= 0) c.tag("edge_corpus");
      MT_ m = make_matrix<MT_>(s);
      if(mean) { auto f = T::make_mean(s); body(s, m, f); }
      else if(unit) { auto f = T::make_unit(s, c.rng); body(s, m, f); }
      else { auto f = T::make_none(s); body(s, m, f); }
    }
    pg.check();
  }

  // case index -> (matrix type, edge index): the first n_edge()*ntypes cases are the edge corpus for every type
  template<typename Fn_>
  void for_type(vh::Ctx& c, int ntypes, Fn_ fn)
  {
    int which; long edge = -1;
    if(c.k < n_edge() * std::size_t(ntypes)) { which = int(c.k % std::size_t(ntypes)); edge = long(c.k / std::size_t(ntypes)); }
    else which = int(c.rng.below(std::uint64_t(ntypes)));
    fn(which, edge);
  }
} // namespace c08
