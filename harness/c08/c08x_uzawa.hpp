// c08x_uzawa.hpp -- dense long double reference of Solver::UzawaPrecond (diagonal / lower / upper / full) with inner
// solvers whose operator is known in closed form.
//
// Documented operator (class documentation in kernel/solver/uzawa_precond.hpp), PA ~ A^-1 and PS ~ S^-1 the two sub-solvers:
//   diagonal:  [A 0; 0 S] x = f          ->  v = PA f_v;                q = PS f_p
//   lower:     [A 0; D S] x = f          ->  v = PA f_v;                q = PS (f_p - D v)
//   upper:     [A B; 0 S] x = f          ->  q = PS f_p;                v = PA (f_v - B q)
//   full:      [I 0; D A^-1 I][A B; 0 S] ->  v' = PA f_v;  q = PS (f_p - D v');  v = PA (f_v - B q)
// (the header prints the first factor of `full` as [I 0; -D A^-1 I]; with S ~ -D A^-1 B the product that reproduces the
// saddle-point matrix, and what the code solves, has +D A^-1: the sign in the formula is taken to be a typo, see assumptions).
// The intermediate defects f_p - D v and f_v - B q pass the pressure / velocity *defect* filter before the sub-solver is
// called (code; the class documentation does not mention filters at all); the sub-solvers apply their own correction filter.
// Inner solvers:  A: Jacobi(A, omega_a) = omega_a diag(A)^-1  |  MatrixPrecond(Za)  (harness-owned matrix on A's pattern)
//                 S: Scale(omega_s) | Diagonal(d) | MatrixPrecond(Zs) | Jacobi(Zs, omega_s)   (Zs harness-owned CSR np x np)
#pragma once
#include "c08x_common.hpp"
#include <kernel/solver/uzawa_precond.hpp>
#include <kernel/solver/jacobi_precond.hpp>
#include <kernel/solver/matrix_precond.hpp>
#include <kernel/solver/diagonal_precond.hpp>
#include <kernel/solver/scale_precond.hpp>

namespace c08x
{
  struct UzawaRef
  {
    Index N = 0, NV = 0, np = 0; std::vector<LD> M; std::vector<char> fixed;
    int type = 0, ka = 0, ks = 0; LD oa = 1, os = 1;
    std::vector<LD> ZA;    // NV*NV (ka == 1)
    std::vector<LD> ZS;    // np*np (ks == 2, 3)
    std::vector<LD> dS;    // np    (ks == 1)

    typedef std::vector<LD> V;
    void PA(const V& f, const V& ef, V& x, V& ex) const
    {
      x.assign(NV, 0.0L); ex.assign(NV, 0.0L);
      for(Index i = 0; i < NV; ++i)
      {
        if(ka == 0) { const LD w = oa / M[std::size_t(i) * N + i]; x[i] = w * f[i]; ex[i] = 3.0L * std::fabs(x[i]) + 1.01L * std::fabs(w) * ef[i]; }
        else
        {
          LD v = 0, sa = 0, t = 0; Index cnt = 0;
          for(Index j = 0; j < NV; ++j) { const LD z = ZA[std::size_t(i) * NV + j]; if(z == 0.0L) continue; ++cnt; v += z * f[j]; sa += std::fabs(z * f[j]); t += std::fabs(z) * ef[j]; }
          x[i] = v; ex[i] = LD(cnt + 1) * sa + t;
        }
        if(fixed[i]) { x[i] = 0.0L; ex[i] = 0.0L; }
      }
    }
    void PS(const V& g, const V& eg, V& x, V& ex) const
    {
      x.assign(np, 0.0L); ex.assign(np, 0.0L);
      for(Index i = 0; i < np; ++i)
      {
        if(ks == 0) { x[i] = os * g[i]; ex[i] = std::fabs(x[i]) + std::fabs(os) * eg[i]; }
        else if(ks == 1) { x[i] = dS[i] * g[i]; ex[i] = std::fabs(x[i]) + std::fabs(dS[i]) * eg[i]; }
        else if(ks == 3) { const LD w = os / ZS[std::size_t(i) * np + i]; x[i] = w * g[i]; ex[i] = 3.0L * std::fabs(x[i]) + 1.01L * std::fabs(w) * eg[i]; }
        else
        {
          LD v = 0, sa = 0, t = 0; Index cnt = 0;
          for(Index j = 0; j < np; ++j) { const LD z = ZS[std::size_t(i) * np + j]; if(z == 0.0L) continue; ++cnt; v += z * g[j]; sa += std::fabs(z * g[j]); t += std::fabs(z) * eg[j]; }
          x[i] = v; ex[i] = LD(cnt + 1) * sa + t;
        }
        if(fixed[NV + i]) { x[i] = 0.0L; ex[i] = 0.0L; }
      }
    }
    // t = f_p - D v (filtered), rows NV..N-1, columns 0..NV-1
    void defect_p(const V& g, const V& v, const V& ev, V& t, V& et) const
    {
      t.assign(np, 0.0L); et.assign(np, 0.0L);
      for(Index i = 0; i < np; ++i)
      {
        LD r = g[i], sa = std::fabs(g[i]), q = 0; Index cnt = 0; const LD* row = &M[std::size_t(NV + i) * N];
        for(Index j = 0; j < NV; ++j) { if(row[j] == 0.0L) continue; ++cnt; r -= row[j] * v[j]; sa += std::fabs(row[j] * v[j]); q += std::fabs(row[j]) * ev[j]; }
        t[i] = r; et[i] = LD(cnt + 2) * sa + q;
        if(fixed[NV + i]) { t[i] = 0.0L; et[i] = 0.0L; }
      }
    }
    // t = f_v - B q (filtered)
    void defect_v(const V& f, const V& q, const V& eq, V& t, V& et) const
    {
      t.assign(NV, 0.0L); et.assign(NV, 0.0L);
      for(Index i = 0; i < NV; ++i)
      {
        LD r = f[i], sa = std::fabs(f[i]), w = 0; Index cnt = 0; const LD* row = &M[std::size_t(i) * N + NV];
        for(Index j = 0; j < np; ++j) { if(row[j] == 0.0L) continue; ++cnt; r -= row[j] * q[j]; sa += std::fabs(row[j] * q[j]); w += std::fabs(row[j]) * eq[j]; }
        t[i] = r; et[i] = LD(cnt + 2) * sa + w;
        if(fixed[i]) { t[i] = 0.0L; et[i] = 0.0L; }
      }
    }
    RefVec operator()(const std::vector<LD>& def) const
    {
      V f(def.begin(), def.begin() + long(NV)), g(def.begin() + long(NV), def.end()), z_v(NV, 0.0L), z_p(np, 0.0L);
      V v, ev, q, eq, t, et;
      switch(type)
      {
      case 0: PA(f, z_v, v, ev); PS(g, z_p, q, eq); break;
      case 1: PA(f, z_v, v, ev); defect_p(g, v, ev, t, et); PS(t, et, q, eq); break;
      case 2: PS(g, z_p, q, eq); defect_v(f, q, eq, t, et); PA(t, et, v, ev); break;
      default:
        { V v0, ev0; PA(f, z_v, v0, ev0); defect_p(g, v0, ev0, t, et); PS(t, et, q, eq); V t2, et2; defect_v(f, q, eq, t2, et2); PA(t2, et2, v, ev); }
        break;
      }
      RefVec o; o.v = v; o.v.insert(o.v.end(), q.begin(), q.end()); o.s = ev; o.s.insert(o.s.end(), eq.begin(), eq.end());
      return o;
    }
  };

  // forwards the life cycle to the Uzawa object and, if the Uzawa object was told not to manage it, to the S-solver
  template<typename Vec_, typename VecP_>
  struct UzawaHandle : public FEAT::Solver::SolverBase<Vec_>
  {
    std::shared_ptr<FEAT::Solver::SolverBase<Vec_>> uz; std::shared_ptr<FEAT::Solver::SolverBase<VecP_>> ss; bool manual;
    UzawaHandle(std::shared_ptr<FEAT::Solver::SolverBase<Vec_>> u, std::shared_ptr<FEAT::Solver::SolverBase<VecP_>> s_, bool m) : uz(u), ss(s_), manual(m) {}
    virtual FEAT::String name() const override { return "UzawaHandle"; }
    virtual void init_symbolic() override { if(manual) ss->init_symbolic(); uz->init_symbolic(); }
    virtual void init_numeric() override { if(manual) ss->init_numeric(); uz->init_numeric(); }
    virtual void done_numeric() override { uz->done_numeric(); if(manual) ss->done_numeric(); }
    virtual void done_symbolic() override { uz->done_symbolic(); if(manual) ss->done_symbolic(); }
    virtual FEAT::Solver::Status apply(Vec_& cor, const Vec_& def) override { return uz->apply(cor, def); }
  };

  inline const char* uzawa_name(int t) { static const char* nm[4] = {"diagonal", "lower", "upper", "full"}; return nm[t & 3]; }

  template<typename Fx_, typename FV_, typename FP_>
  void uzawa_body(vh::Ctx& c, SP& s, int utype, bool moderate)
  {
    typedef typename Fx_::MA MA; typedef typename Fx_::MB MB; typedef typename Fx_::MD MD;
    typedef typename MA::DataType DT; typedef typename MA::IndexType IT;
    typedef typename MB::VectorTypeL VecV; typedef typename MD::VectorTypeL VecP;
    typedef LAFEM::TupleVector<VecV, VecP> Vec;
    typedef LAFEM::SparseMatrixCSR<DT, IT> CsrS;
    using namespace FEAT::Solver;
    vh::Rng& r = c.rng;
    const int ka = int(r.below(2)), ks = int(r.below(4));
    const bool auto_s = r.coin(0.6);
    const double oa = gen_omega(r), os = double(float(r.coin(0.5) ? -gen_omega(r) : gen_omega(r)));
    static const UzawaType ut[4] = {UzawaType::diagonal, UzawaType::lower, UzawaType::upper, UzawaType::full};
    c.tag(std::string("uzawa:") + uzawa_name(utype));
    c.tag(ka == 0 ? "sa:jacobi" : "sa:matrix");
    c.tag(ks == 0 ? "ss:scale" : (ks == 1 ? "ss:diagonal" : (ks == 2 ? "ss:matrix" : "ss:jacobi")));
    c.tag(auto_s ? "auto_init_s" : "manual_init_s");
    c.set_op("uzawa.apply");
    const std::string params = vh::J().kv("type", uzawa_name(utype)).kv("solver_a", ka == 0 ? "jacobi" : "matrix").kv("omega_a", oa)
      .kv("solver_s", ks == 0 ? "scale" : (ks == 1 ? "diagonal" : (ks == 2 ? "matrix" : "jacobi"))).kv("omega_s", os).kv("auto_init_s", auto_s).str();

    // harness-owned inner data: z = copy of the truth whose A part holds Za; ZS / dS dense
    SP z = s; std::vector<LD> ZS(std::size_t(s.np) * s.np, 0.0L), dS(s.np, 0.0L); std::vector<char> zm(std::size_t(s.np) * s.np, 0);
    for(Index i = 0; i < s.np; ++i) for(Index j = 0; j < s.np; ++j) zm[std::size_t(i) * s.np + j] = (i == j || r.coin(0.3)) ? 1 : 0;
    const int istyle = moderate ? 1 : int(r.pick<int>({0, 1, 1, 3}));
    auto gen_inner = [&]()
    {
      z = s; // patterns
      for(Index i = 0; i < s.NV; ++i) for(Index j = 0; j < s.NV; ++j) if(s.a_st(i / Index(s.dim), j / Index(s.dim)) && !(s.adiag && (i % Index(s.dim)) != (j % Index(s.dim))))
        z.at(i, j) = (LD)vl::gen_value(r, istyle, true);
      for(Index i = 0; i < s.np; ++i)
      {
        LD sum = 0;
        for(Index j = 0; j < s.np; ++j) { LD v = (zm[std::size_t(i) * s.np + j] && i != j) ? (LD)vl::gen_value(r, istyle, true) : 0.0L; ZS[std::size_t(i) * s.np + j] = v; sum += std::fabs(v); }
        float dg = float(double(sum) * 1.5 + std::fabs(vl::gen_nonzero(r, 1, true))); ZS[std::size_t(i) * s.np + i] = (LD)(r.coin(0.5) ? -dg : dg);
        dS[i] = (LD)vl::gen_value(r, istyle, true);
      }
    };
    gen_inner();
    c.desc = vh::J().kv("precond", "uzawa").raw("params", params).kv("matrix", Fx_::name()).raw("system", s.describe()).str();

    MA a; MB b; MD d; MA za;
    build_a(a, s, true); build_b(b, s, true); build_d(d, s, true); build_a(za, z, true);
    auto zst = [&](Index i, Index j) { return zm[std::size_t(i) * s.np + j] != 0; };
    auto zvl = [&](Index i, Index j) { return ZS[std::size_t(i) * s.np + j]; };
    CsrS zs = make_csr<DT, IT>(s.np, s.np, zst, zvl);
    VecP dvec(s.np); { std::vector<double> t(s.np); for(Index i = 0; i < s.np; ++i) t[i] = double(dS[i]); vput(dvec, t.data(), s.np); }
    FV_ fv; build_fv(fv, s, r); FP_ fp; build_fp(fp, s, r);

    std::shared_ptr<SolverBase<VecV>> sa;
    if(ka == 0) sa = new_jacobi_precond(a, fv, DT(oa)); else sa = new_matrix_precond(za, fv);
    std::shared_ptr<SolverBase<VecP>> ss;
    if(ks == 0) ss = new_scale_precond(fp, DT(os)); else if(ks == 1) ss = new_diagonal_precond(dvec, fp);
    else if(ks == 2) ss = new_matrix_precond(zs, fp); else ss = new_jacobi_precond(zs, fp, DT(os));
    std::shared_ptr<SolverBase<Vec>> uz = new_uzawa_precond(a, b, d, fv, fp, sa, ss, ut[utype & 3], auto_s);
    std::shared_ptr<SolverBase<Vec>> sol = std::make_shared<UzawaHandle<Vec, VecP>>(uz, ss, !auto_s);

    VecIO<Vec> io = tuple_io<Vec>(s, [&a, &d]() { return Vec(a.create_vector_l(), d.create_vector_l()); });
    history<NoFactorError>(c, io, sol, s.fixed, "uzawa.apply", params,
      [&]()
      {
        auto ref = std::make_shared<UzawaRef>();
        ref->N = s.N; ref->NV = s.NV; ref->np = s.np; ref->M = s.M; ref->fixed = s.fixed; ref->type = utype & 3; ref->ka = ka; ref->ks = ks;
        ref->oa = (LD)oa; ref->os = (LD)os; ref->ZS = ZS; ref->dS = dS;
        ref->ZA.assign(std::size_t(s.NV) * s.NV, 0.0L);
        for(Index i = 0; i < s.NV; ++i) for(Index j = 0; j < s.NV; ++j) ref->ZA[std::size_t(i) * s.NV + j] = z.at(i, j);
        Phase ph; ph.ok = true; ph.ref = [ref](const std::vector<LD>& dd) { return (*ref)(dd); };
        return ph;
      },
      [&]()
      {
        gen_values(r, s, moderate); gen_inner();
        build_a(a, s, false); build_b(b, s, false); build_d(d, s, false); build_a(za, z, false);
        write_csr(zs, zst, zvl);
        std::vector<double> t(s.np); for(Index i = 0; i < s.np; ++i) t[i] = double(dS[i]); vput(dvec, t.data(), s.np);
      });
  }

  template<typename Fx_>
  void uzawa_case(vh::Ctx& c, long edge, int utype)
  {
    typedef typename Fx_::MA::DataType DT; typedef typename Fx_::MA::IndexType IT;
    work_u() = vl::unit_roundoff<DT>();
    const bool moderate = std::is_same<DT, float>::value;
    c08::PoolGuard pg(c, "uzawa.apply");
    {
      SP s; s.adiag = Fx_::adiag;
      if(edge >= 0) edge_pattern(s, edge, Fx_::dim);
      else
      {
        const Index maxv = c.thorough() ? 150 : 40, maxp = c.thorough() ? 50 : 15;
        const Index nv = std::max<Index>(1, Index(c.rng.range(1, long(maxv))) / Index(Fx_::dim));
        const Index np = Index(c.rng.range(1, long(maxp)));
        s.alloc(nv, np, Fx_::dim);
        gen_b_pattern(c.rng, s, int(c.rng.below(3)), c.rng.coin(0.5));
      }
      s.adiag = Fx_::adiag;
      gen_a_pattern(c.rng, s, edge);
      gen_values(c.rng, s, moderate);
      const int fcomb = int(c.rng.below(3));
      gen_filter(c.rng, s, fcomb >= 1, Fx_::node_filter, fcomb == 2);
      c.tag(std::string("mat:") + Fx_::name());
      c.tag(std::string("dt:") + vl::dt_name<DT>());
      c.tag(fcomb == 0 ? "filter:none" : (fcomb == 1 ? "filter:unit-v" : "filter:unit-v+unit-p"));
      c.tag("pat:" + (edge >= 0 ? s.pattern : s.pattern.substr(0, s.pattern.find("A:"))));
      size_tags(c, s);
      if(edge >= 0) c.tag("edge_corpus");
      typedef LAFEM::NoneFilter<DT, IT> NP; typedef LAFEM::UnitFilter<DT, IT> UP;
      if(fcomb == 0) uzawa_body<Fx_, typename Fx_::NFV, NP>(c, s, utype, moderate);
      else if(fcomb == 1) uzawa_body<Fx_, typename Fx_::UFV, NP>(c, s, utype, moderate);
      else uzawa_body<Fx_, typename Fx_::UFV, UP>(c, s, utype, moderate);
    }
    pg.check();
  }
} // namespace c08x
