// C08 -- ILU(p): apply = (LU)^-1 with L unit lower, U upper (block) triangular on the level-p fill pattern and
// (LU)_ij = A_ij on that pattern; for a fill level that makes the factorisation complete, apply = A^-1.
// The reference is a textbook level-of-fill symbolic phase + IKJ (block) factorisation in long double on a dense
// image; the complete case is judged against dense Gaussian elimination with partial pivoting instead.
#include "c08_dispatch.hpp"
#include <kernel/solver/ilu_precond.hpp>

using namespace FEAT;
using namespace c08;

namespace
{
  const int LINF = 1 << 28;

  // textbook level-of-fill: lev_ij = 0 on the pattern of A, lev_ij = min_k (lev_ik + lev_kj + 1) over eliminations
  // k < min(i,j) with lev_ik <= p; entries with lev > p are dropped
  std::vector<int> ilu_levels(const Sys& s, int p)
  {
    const Index nb = s.nb; std::vector<int> lev(std::size_t(nb) * nb, LINF);
    for(Index i = 0; i < nb; ++i) for(Index j = 0; j < nb; ++j) if(s.stored(i, j)) lev[std::size_t(i) * nb + j] = 0;
    for(Index i = 1; i < nb; ++i)
    {
      int* li = lev.data() + std::size_t(i) * nb;
      for(Index k = 0; k < i; ++k)
      {
        if(li[k] > p) continue;
        const int* lk = lev.data() + std::size_t(k) * nb;
        for(Index j = k + 1; j < nb; ++j)
        {
          if(lk[j] > p) continue;
          const int l = li[k] + lk[j] + 1;
          if(l < li[j]) li[j] = l;
        }
      }
      for(Index j = 0; j < nb; ++j) if(li[j] > p) li[j] = LINF;
    }
    return lev;
  }

  // IKJ block factorisation restricted to the pattern lev < LINF.  LU holds L (strict lower blocks, unit diagonal
  // implied) and D+U (diagonal and upper blocks).
  bool ilu_numeric(const Sys& s, const std::vector<int>& lev, std::vector<LD>& LU, bool left_mult = false)
  {
    const Index nb = s.nb, n = s.n; const int bs = s.bs;
    LU = s.a;
    LD D[9], Di[9], Lb[9];
    for(Index I = 0; I < nb; ++I)
    {
      for(Index K = 0; K < I; ++K)
      {
        if(lev[std::size_t(I) * nb + K] >= LINF) continue;
        for(int p = 0; p < bs; ++p) for(int q = 0; q < bs; ++q) D[p * bs + q] = LU[std::size_t(K * bs + p) * n + (K * bs + q)];
        if(!small_inverse(D, bs, Di)) return false;
        // L_IK = W_IK * U_KK^-1
        for(int p = 0; p < bs; ++p) for(int q = 0; q < bs; ++q)
        {
          LD v = 0;
          if(!left_mult) for(int l = 0; l < bs; ++l) v += LU[std::size_t(I * bs + p) * n + (K * bs + l)] * Di[l * bs + q];
          else for(int l = 0; l < bs; ++l) v += Di[p * bs + l] * LU[std::size_t(I * bs + l) * n + (K * bs + q)]; // classification only: U_KK^-1 * W_IK
          Lb[p * bs + q] = v;
        }
        for(int p = 0; p < bs; ++p) for(int q = 0; q < bs; ++q) LU[std::size_t(I * bs + p) * n + (K * bs + q)] = Lb[p * bs + q];
        for(Index J = K + 1; J < nb; ++J)
        {
          if(lev[std::size_t(K) * nb + J] >= LINF || lev[std::size_t(I) * nb + J] >= LINF) continue;
          for(int p = 0; p < bs; ++p) for(int q = 0; q < bs; ++q)
          { LD v = 0; for(int l = 0; l < bs; ++l) v += Lb[p * bs + l] * LU[std::size_t(K * bs + l) * n + (J * bs + q)]; LU[std::size_t(I * bs + p) * n + (J * bs + q)] -= v; }
        }
      }
    }
    return true;
  }

  struct IluRef
  {
    std::shared_ptr<std::vector<LD>> LU, A, absLU; Index nb, n; int bs; bool complete; bool dense_ok; vh::Ctx* ctx = nullptr;
    RefVec operator()(const std::vector<LD>& b) const
    {
      RefVec y = blk_tri_solve(*LU, nb, bs, true, true, b, nullptr);
      RefVec x = blk_tri_solve(*LU, nb, bs, false, false, y.v, nullptr);
      // majorant: (L+dL)(U+dU) x^ = b with |dL| <= c u |L|, |dU| <= c u |U| and  L^U^ = LU + E, |E| <= c u |L||U|
      //  =>  |x^ - x| <= c u M(U)^-1 M(L)^-1 ( |b| + 3 |I+L| |D+U| |x| )    (comparison-matrix recursion inside blk_tri_solve)
      std::vector<LD> w(n, 0.0L), v(n, 0.0L);
      const LD* lu = LU->data();
      for(Index i = 0; i < n; ++i) { LD t = 0; const Index I = i / bs; for(Index j = I * bs; j < n; ++j) t += std::fabs(lu[std::size_t(i) * n + j]) * std::fabs(x.v[j]); w[i] = t; }
      for(Index i = 0; i < n; ++i) { LD t = w[i]; const Index I = i / bs; for(Index j = 0; j < I * bs; ++j) t += std::fabs(lu[std::size_t(i) * n + j]) * w[j]; v[i] = 3.0L * t; }
      std::vector<LD> zero(n, 0.0L);
      // S_y = M(L)^-1 (v + |b| ...): solve with rhs 0 and input majorant v  -> returns only the propagated majorant
      RefVec sy = blk_tri_solve(*absLU, nb, bs, true, true, zero, &v);
      RefVec sx = blk_tri_solve(*absLU, nb, bs, false, false, zero, &sy.s);
      for(Index i = 0; i < n; ++i) x.s[i] = sx.s[i] + x.s[i];
      if(complete && dense_ok)
      {
        // complete factorisation: (LU)^-1 b must be A^-1 b.  The factor-based reference (componentwise accurate, also for
        // exactly vanishing components) is cross-checked against dense Gaussian elimination with partial pivoting.
        std::vector<LD> xd; LD smax = 0; for(Index i = 0; i < n; ++i) smax = std::max(smax, x.s[i]);
        // rows are equilibrated first (the systems are row diagonally dominant, so D^-1 A is well conditioned in the max norm)
        std::vector<LD> As(*A), bs_(b);
        for(Index i = 0; i < n; ++i) { const LD d = As[std::size_t(i) * n + i]; for(Index j = 0; j < n; ++j) As[std::size_t(i) * n + j] /= d; bs_[i] /= d; }
        bool same = dense_solve(As, n, bs_, xd);
        for(Index i = 0; same && i < n; ++i) if(!(std::fabs(xd[i] - x.v[i]) <= 0x1p-52L * LD(n) * (x.s[i] + 0.125L * smax))) same = false;
        if(ctx) { if(same) ctx->count("ilu:complete-agrees-with-dense-solve"); else ctx->inconclusive("oracle: complete ILU reference disagrees with dense solve"); }
      }
      return x;
    }
  };


  // dense product (I+L)(D+U) of the reference factors
  std::vector<LD> lu_product(const IluRef& ref)
  {
    const Index n = ref.n; const int bs = ref.bs; std::vector<LD> M(std::size_t(n) * n, 0.0L); const LD* lu = ref.LU->data();
    for(Index i = 0; i < n; ++i) for(Index j = 0; j < n; ++j)
    {
      const Index I = i / bs; LD v = 0;
      for(Index k = 0; k < I * bs; ++k) if(k / bs <= j / bs) v += lu[std::size_t(i) * n + k] * lu[std::size_t(k) * n + j];
      if(I <= j / bs) v += lu[std::size_t(i) * n + j];
      M[std::size_t(i) * n + j] = v;
    }
    return M;
  }

  // Black-box monitor of the clause "LU matches A on the level-p pattern": the columns of (LU)^-1 are obtained from
  // FEAT by applying the preconditioner to the unit vectors (no filter), the dense inverse of that matrix is FEAT's
  // L*U, which must agree with A on the level-p pattern.  |dM| <= |M| |d(M^-1)| |M| with d(M^-1) <= K u S (columnwise).
  template<typename MT_, typename Filter_>
  void lu_probe(vh::Ctx& c, const Sys& s, const MT_& m, const Filter_& f, int p, const std::vector<int>& lev, const IluRef& ref, const IluRef* altref)
  {
    typedef typename MTraits<MT_>::Vec Vec; typedef typename MT_::DataType DT;
    const Index n = s.n, nb = s.nb; const int bs = s.bs;
    auto sol = Solver::new_ilu_precond(PreferredBackend::generic, m, f, p);
    sol->init();
    std::vector<LD> Minv(std::size_t(n) * n), Smat(std::size_t(n) * n); bool cols_match_alt = true;
    for(Index j = 0; j < n; ++j)
    {
      std::vector<double> e(n, 0.0); e[j] = 1.0;
      Vec def = make_vec<Vec>(e, nb); Vec cor(nb, DT(0));
      sol->apply(cor, def);
      const DT* g = cor.template elements<LAFEM::Perspective::pod>();
      RefVec r = ref(to_ld(e));
      if(altref) { RefVec ra = (*altref)(to_ld(e)); if(worst_excess<DT>(g, ra, n) > 1.0L) cols_match_alt = false; }
      for(Index i = 0; i < n; ++i) { Minv[std::size_t(i) * n + j] = (LD)g[i]; Smat[std::size_t(i) * n + j] = r.s[i]; }
    }
    sol->done();
    // M = Minv^-1, column by column
    std::vector<LD> M(std::size_t(n) * n, 0.0L);
    for(Index j = 0; j < n; ++j)
    {
      std::vector<LD> e(n, 0.0L), col; e[j] = 1.0L;
      if(!dense_solve(Minv, n, e, col)) { c.viol("ilu.lu_on_pattern", "singular", vh::J().kv("p", p).str()); return; }
      for(Index i = 0; i < n; ++i) M[std::size_t(i) * n + j] = col[i];
    }
    // bound matrix B = |Mref| S |Mref| with Mref = (I+L)(D+U) of the given reference factors and S its majorant columns
    auto bound_matrix = [&](const IluRef& rf, const std::vector<LD>* smat)
    {
      std::vector<LD> Sm(std::size_t(n) * n);
      if(smat) Sm = *smat;
      else for(Index j = 0; j < n; ++j) { std::vector<LD> e(n, 0.0L); e[j] = 1.0L; RefVec r = rf(e); for(Index i = 0; i < n; ++i) Sm[std::size_t(i) * n + j] = r.s[i]; }
      std::vector<LD> aM = lu_product(rf); for(auto& v : aM) v = std::fabs(v);
      std::vector<LD> T1(std::size_t(n) * n, 0.0L), Bm(std::size_t(n) * n, 0.0L);
      for(Index i = 0; i < n; ++i) for(Index k = 0; k < n; ++k) { const LD a = aM[std::size_t(i) * n + k]; if(a != 0.0L) for(Index j = 0; j < n; ++j) T1[std::size_t(i) * n + j] += a * Sm[std::size_t(k) * n + j]; }
      for(Index i = 0; i < n; ++i) for(Index k = 0; k < n; ++k) { const LD a = T1[std::size_t(i) * n + k]; if(a != 0.0L) for(Index j = 0; j < n; ++j) Bm[std::size_t(i) * n + j] += a * aM[std::size_t(k) * n + j]; }
      return Bm;
    };
    std::vector<LD> B = bound_matrix(ref, &Smat);
    // The harness-side inversion M = Minv^-1 (long double, partial pivoting) has a normwise backward error of its own:
    // |dM_ij| <= c n u_ld max|Minv| (sum_k |M_ik|) (sum_l |M_lj|).  It is the only error left where B_ij vanishes exactly
    // (stored zeros of A make entries of (LU)^-1 and of its majorant exactly zero while M_ij comes out as 1e-24 noise).
    std::vector<LD> rsum(n, 0.0L), csum(n, 0.0L); LD mxinv = 0;
    for(Index i = 0; i < n; ++i) for(Index j = 0; j < n; ++j)
    { const LD a = std::fabs(M[std::size_t(i) * n + j]); rsum[i] += a; csum[j] += a; mxinv = std::max(mxinv, std::fabs(Minv[std::size_t(i) * n + j])); }
    const LD uld = 8.0L * LD(n) * (LD)std::numeric_limits<LD>::epsilon() * mxinv;
    c.event();
    LD worst = 0; Index wi = 0, wj = 0;
    for(Index i = 0; i < n; ++i) for(Index j = 0; j < n; ++j)
    {
      if(lev[std::size_t(i / bs) * nb + j / bs] >= LINF) continue;
      const LD bd = 2.0L * bound_of<DT>(B[std::size_t(i) * n + j], n) + uld * rsum[i] * csum[j];
      const LD err = std::fabs(M[std::size_t(i) * n + j] - s.a[std::size_t(i) * n + j]);
      const LD exc = bd > 0 ? err / bd : (err > 0 ? 1e300L : 0.0L);
      if(exc > worst) { worst = exc; wi = i; wj = j; }
    }
    bucket(c, worst);
    if(worst > 1.0L)
    {
      // classification only (see Alt in c08_common.hpp): does FEAT's L*U equal the product of the alternative factors?
      const char* kind = "wrong-value";
      // FEAT's columns of (LU)^-1 all agree with the alternative factorisation
      if(altref && cols_match_alt) kind = "left-multiplied-L";
      c.viol("ilu.lu_on_pattern", kind, vh::J().kv("p", p).kv("row", (unsigned long)wi).kv("col", (unsigned long)wj)
        .kv("LU_ij", M[std::size_t(wi) * n + wj]).kv("A_ij", s.a[std::size_t(wi) * n + wj]).kv("excess", worst).str());
    }
  }

  template<typename MT_>
  void ilu_case(vh::Ctx& c, long edge)
  {
    with_system<MT_>(c, max_n(c, 40, 160), edge, "ilu.apply", 0.4, [&](Sys& s, MT_& m, const auto& f)
    {
      int p = c.rng.pick<int>({0, 0, 0, 1, 1, 2, 3, 4, -1});
      if(p < 0) p = int(s.nb); // certainly complete
      // completeness of the level-p pattern: identical to the pattern of the level-infinity (= exact LU) symbolic phase
      std::vector<int> lev = ilu_levels(s, p);
      bool complete = p >= int(s.nb);
      if(!complete) { std::vector<int> li = ilu_levels(s, LINF - 1); complete = true; for(std::size_t i = 0; i < lev.size(); ++i) if((lev[i] < LINF) != (li[i] < LINF)) { complete = false; break; } }
      c.tag("p:" + std::to_string(std::min(p, 5)) + (p > 4 ? "+" : ""));
      c.tag(complete ? "ilu:complete" : "ilu:incomplete");
      { bool fill = false; for(Index i = 0; i < s.nb; ++i) for(Index j = 0; j < s.nb; ++j) if(lev[std::size_t(i) * s.nb + j] < LINF && !s.stored(i, j)) fill = true; c.tag(fill ? "fill:yes" : "fill:none"); }
      c.set_op("ilu.apply");
      c.desc = vh::J().kv("precond", "ilu").kv("p", p).kv("complete", complete).raw("system", s.describe()).str();
      auto levp = std::make_shared<std::vector<int>>(lev);
      auto mkref_v = [levp, complete, &c](const Sys& t, bool left)
        {
          IluRef r; r.nb = t.nb; r.n = t.n; r.bs = t.bs; r.complete = complete; r.dense_ok = t.n <= 200; r.ctx = &c;
          r.LU = std::make_shared<std::vector<LD>>(); r.A = std::make_shared<std::vector<LD>>(t.a);
          if(!ilu_numeric(t, *levp, *r.LU, left)) c.inconclusive("reference factorisation broke down");
          // oracle self-check (statement clause 'LU matches A on the level-p pattern'): (I+L)(D+U) == A on the pattern
          if(!left)
          {
            const Index n = t.n, nb = t.nb; const int bs = t.bs; const LD* lu = r.LU->data(); LD worst = 0;
            for(Index i = 0; i < n; ++i) for(Index j = 0; j < n; ++j)
            {
              const Index I = i / bs, J = j / bs;
              if((*levp)[std::size_t(I) * nb + J] >= LINF) continue;
              LD v = 0, sa = 0; const Index kend = std::min(I, J) * bs; // strict lower blocks of L times U
              for(Index k = 0; k < kend; ++k) { const LD q = lu[std::size_t(i) * n + k] * lu[std::size_t(k) * n + j]; v += q; sa += std::fabs(q); }
              if(I <= J) { v += lu[std::size_t(i) * n + j]; sa += std::fabs(lu[std::size_t(i) * n + j]); }
              else for(Index k = J * bs; k < (J + 1) * bs; ++k) { const LD q = lu[std::size_t(i) * n + k] * lu[std::size_t(k) * n + j]; v += q; sa += std::fabs(q); }
              const LD e = std::fabs(v - t.a[std::size_t(i) * n + j]) / (sa + std::fabs(t.a[std::size_t(i) * n + j]) + 1e-4000L);
              worst = std::max(worst, e);
            }
            if(worst > 1e-15L) c.inconclusive("reference LU does not reproduce A on the pattern");
          }
          r.absLU = std::make_shared<std::vector<LD>>(*r.LU);
          // comparison matrix for the majorant recursion: only magnitudes matter, blk_tri_solve takes |.| itself for
          // off-diagonal blocks but needs the true diagonal blocks for E; keep the matrix as is.
          return r;
        };
      auto mkref = [mkref_v](const Sys& t) { return mkref_v(t, false); };
      // classification only: block factorisation with L_ik = U_kk^-1 * W_ik instead of W_ik * U_kk^-1
      Alt alt;
      if(s.bs > 1) { alt.kind = "left-multiplied-L"; alt.make = [mkref_v](const Sys& t) -> RefFunc { IluRef r = mkref_v(t, true); r.complete = false; return r; }; }
      if(s.n <= 16 && s.fkind == 0 && c.rng.coin(0.6))
      {
        IluRef r0 = mkref(s); r0.complete = false;
        IluRef ra; if(s.bs > 1) { ra = mkref_v(s, true); ra.complete = false; }
        lu_probe(c, s, m, f, p, lev, r0, s.bs > 1 ? &ra : nullptr); c.tag("lu-probe");
      }
      history(c, s, m, f, "ilu.apply", vh::J().kv("p", p).kv("complete", complete).str(),
        [&](const MT_& mm, const auto& ff) { return Solver::new_ilu_precond(PreferredBackend::generic, mm, ff, p); },
        mkref, [] {}, s.n, alt);
    });
  }
}

VH_FAMILY(ilu)
{
  for_type(c, 4, [&](int which, long edge)
  {
    switch(which)
    {
    case 0: ilu_case<CsrD>(c, edge); break;
    case 1: ilu_case<CsrF>(c, edge); break;
    case 2: ilu_case<Bcsr2>(c, edge); break;
    default: ilu_case<Bcsr3>(c, edge); break;
    }
  });
}
