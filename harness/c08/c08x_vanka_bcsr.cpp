// C08 / unit c08x -- Vanka on SaddlePointMatrix<BCSR<d,d>, BCSR<d,1>, BCSR<1,d>>, d = 2, 3
#include "c08x_vanka.hpp"
namespace c08x
{
  void vanka_bcsr(vh::Ctx& c, int which, long edge, int variant)
  {
    if(which == 0) vanka_case<FxBcsr<double, FEAT::Index, 2>>(c, edge, variant);
    else vanka_case<FxBcsr<double, FEAT::Index, 3>>(c, edge, variant);
  }
}
