// C08 / unit c08x -- AmaVanka on SaddlePointMatrix<BCSR 3x3, 3x1, 1x3>
#include "c08x_amavanka.hpp"
namespace c08x
{
  void amavanka_b(vh::Ctx& c, long edge, int mkind)
  {
    if(mkind == 0 && (edge == 5 || edge == 6 || edge == 7 || edge == 8)) mkind = 1;
    amavanka_sp_case<FxBcsr<double, FEAT::Index, 3>>(c, edge, mkind);
  }
}
