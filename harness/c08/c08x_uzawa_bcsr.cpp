// C08 / unit c08x -- UzawaPrecond on BCSR<2,2> / BCSR<2,1> / BCSR<1,2> blocks
#include "c08x_uzawa.hpp"
namespace c08x
{
  void uzawa_bcsr(vh::Ctx& c, long edge, int utype)
  {
    uzawa_case<FxBcsr<double, FEAT::Index, 2>>(c, edge, utype);
  }
}
