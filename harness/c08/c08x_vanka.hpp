// c08x_vanka.hpp -- dense long double reference of Solver::Vanka (all 8 variants) + the generic case body.
//
// Documented operator (class documentation of Vanka<SaddlePointMatrix<A,B,D>,Filter> in kernel/solver/vanka.hpp):
//   * pressure blocks: nodal = one pressure DOF per block; block = pressure DOFs adjacent through the graph of D*B "with
//     the same degree" (c08x::pressure_blocks spells out the counting rule of the implementation);
//   * velocity DOFs of a block = all components of the velocity nodes adjacent to the block's pressure rows of D;
//   * local system  [A_loc B_loc; D_loc 0];  full: dense Gaussian elimination;  diag: Schur complement approach with
//     A_loc replaced by its main diagonal:  S = -D diag(A)^-1 B,  p = S^-1 (g - D diag(A)^-1 f),  u = diag(A)^-1 (f - B p);
//   * multiplicative: blocks are processed successively (ascending first pressure DOF), each with the current defect
//     def - M x of its rows, x_loc += omega * M_loc^-1 * defect_loc   (block SOR);
//   * additive: all blocks use the defect of the iteration's start, the omega-damped local corrections are summed and
//     every component is divided by the number of blocks it belongs to (damped block Jacobi);
//   * num_iter iterations, the correction filter after every iteration.
#pragma once
#include "c08x_common.hpp"
#include <kernel/solver/vanka.hpp>

namespace c08x
{
  struct VankaBlock
  {
    std::vector<Index> dofs;          // canonical indices: velocity components first, then pressure
    Index dnv = 0, np = 0;
    // full variants
    std::vector<LD> X, EX;
    // diagonal variants
    std::vector<LD> ainv, eainv, bl, dp, edp, Si, ESi;
  };

  struct VankaRef
  {
    Index N = 0; std::vector<LD> M; std::vector<VankaBlock> blocks; std::vector<int> mult; std::vector<char> fixed;
    bool full = true, multi = true, ok = true; LD omega = 1; unsigned niter = 1;

    void build(const SP& s, bool block, bool full_, bool multi_, double om, unsigned ni)
    {
      N = s.N; M = s.M; full = full_; multi = multi_; omega = (LD)om; niter = ni; fixed = s.fixed; ok = true;
      mult.assign(N, 0);
      std::vector<std::vector<Index>> pb; pressure_blocks(s, block, pb);
      for(auto& pblk : pb)
      {
        VankaBlock b;
        const std::vector<Index> vnodes = velocity_nodes(s, pblk);
        // local ordering as documented for the Intern::VankaMatrix gather functions (it decides between equal pivots only)
        if(s.comp_major) { for(int cc = 0; cc < s.dim; ++cc) for(Index k : vnodes) b.dofs.push_back(k * Index(s.dim) + Index(cc)); }
        else { for(Index k : vnodes) for(int cc = 0; cc < s.dim; ++cc) b.dofs.push_back(k * Index(s.dim) + Index(cc)); }
        b.dnv = Index(b.dofs.size()); b.np = Index(pblk.size());
        for(Index j : pblk) b.dofs.push_back(s.NV + j);
        for(Index q : b.dofs) ++mult[q];
        const Index n = b.dnv + b.np;
        if(n == 0) { blocks.push_back(b); if(!full) ok = false; continue; } // empty block: invert_matrix(0) reports det 0
        if(full)
        {
          b.X.assign(std::size_t(n) * n, 0.0L); b.EX.assign(std::size_t(n) * n, 0.0L);
          for(Index i = 0; i < n; ++i) for(Index j = 0; j < n; ++j) b.X[i * n + j] = s.at(b.dofs[i], b.dofs[j]);
          if(!gj_inverse(n, b.X, b.EX)) ok = false;
        }
        else
        {
          const Index dnv = b.dnv, np = b.np;
          b.ainv.resize(dnv); b.eainv.resize(dnv); b.bl.assign(std::size_t(dnv) * np, 0.0L); b.dp.assign(std::size_t(np) * dnv, 0.0L); b.edp.assign(std::size_t(np) * dnv, 0.0L);
          for(Index i = 0; i < dnv; ++i)
          {
            const LD a = s.at(b.dofs[i], b.dofs[i]); if(a == 0.0L) { ok = false; b.ainv[i] = 0; b.eainv[i] = 0; continue; }
            b.ainv[i] = 1.0L / a; b.eainv[i] = std::fabs(b.ainv[i]);
            for(Index j = 0; j < np; ++j)
            {
              b.bl[i * np + j] = s.at(b.dofs[i], b.dofs[dnv + j]);
              const LD d = s.at(b.dofs[dnv + j], b.dofs[i]);
              b.dp[j * dnv + i] = d * b.ainv[i]; b.edp[j * dnv + i] = std::fabs(d) * b.eainv[i] + std::fabs(b.dp[j * dnv + i]);
            }
          }
          b.Si.assign(std::size_t(np) * np, 0.0L); b.ESi.assign(std::size_t(np) * np, 0.0L);
          for(Index i = 0; i < np; ++i) for(Index j = 0; j < np; ++j)
          {
            LD v = 0, sa = 0, t = 0;
            for(Index k = 0; k < dnv; ++k) { const LD x = b.dp[i * dnv + k] * b.bl[k * np + j]; v += x; sa += std::fabs(x); t += b.edp[i * dnv + k] * std::fabs(b.bl[k * np + j]); }
            b.Si[i * np + j] = -v; b.ESi[i * np + j] = LD(dnv + 1) * sa + t;
          }
          if(np == 0 || !gj_inverse(np, b.Si, b.ESi)) ok = false;
        }
        blocks.push_back(std::move(b));
      }
    }

    // local solve c = M_loc^-1 l (with majorants)
    void solve(const VankaBlock& b, const std::vector<LD>& l, const std::vector<LD>& el, std::vector<LD>& cc, std::vector<LD>& ec) const
    {
      const Index n = b.dnv + b.np;
      if(full) { inv_apply(n, b.X, b.EX, l, el, cc, ec); return; }
      const Index dnv = b.dnv, np = b.np;
      cc.assign(n, 0.0L); ec.assign(n, 0.0L);
      const LD uK = 32.0L * work_u();
      std::vector<LD> rr(np), er(np);
      for(Index i = 0; i < np; ++i)
      {
        LD v = l[dnv + i], sa = std::fabs(v), t = 0;
        for(Index j = 0; j < dnv; ++j) { const LD x = b.dp[i * dnv + j] * l[j]; v -= x; sa += std::fabs(x); t += std::fabs(b.dp[i * dnv + j]) * el[j] + b.edp[i * dnv + j] * (std::fabs(l[j]) + uK * el[j]); }
        rr[i] = v; er[i] = el[dnv + i] + LD(dnv + 2) * sa + t;
      }
      std::vector<LD> cp, ecp; inv_apply(np, b.Si, b.ESi, rr, er, cp, ecp);
      for(Index i = 0; i < np; ++i) { cc[dnv + i] = cp[i]; ec[dnv + i] = ecp[i]; }
      for(Index i = 0; i < dnv; ++i)
      {
        LD v = l[i], sa = std::fabs(v), t = 0;
        for(Index j = 0; j < np; ++j) { const LD x = b.bl[i * np + j] * cp[j]; v -= x; sa += std::fabs(x); t += std::fabs(b.bl[i * np + j]) * ecp[j]; }
        const LD et = el[i] + LD(np + 2) * sa + t;
        cc[i] = b.ainv[i] * v; ec[i] = std::fabs(b.ainv[i]) * et + b.eainv[i] * (std::fabs(v) + uK * et) + std::fabs(cc[i]);
      }
    }

    RefVec operator()(const std::vector<LD>& def) const
    {
      RefVec o; o.v.assign(N, 0.0L); o.s.assign(N, 0.0L);
      std::vector<LD>& x = o.v; std::vector<LD>& ex = o.s;
      std::vector<LD> l, el, cc, ec, t1(N), et1(N), t2(N), et2(N);
      for(unsigned it = 0; it < niter; ++it)
      {
        if(!multi)
        {
          for(Index i = 0; i < N; ++i)
          {
            if(it == 0) { t1[i] = def[i]; et1[i] = 0.0L; }
            else resid_row(&M[std::size_t(i) * N], N, def[i], 0.0L, x, ex, t1[i], et1[i]);
          }
          std::fill(t2.begin(), t2.end(), 0.0L); std::fill(et2.begin(), et2.end(), 0.0L);
        }
        for(const VankaBlock& b : blocks)
        {
          const Index n = b.dnv + b.np; if(n == 0) continue;
          l.resize(n); el.resize(n);
          for(Index q = 0; q < n; ++q)
          {
            const Index g = b.dofs[q];
            if(multi) resid_row(&M[std::size_t(g) * N], N, def[g], 0.0L, x, ex, l[q], el[q]);
            else { l[q] = t1[g]; el[q] = et1[g]; }
          }
          solve(b, l, el, cc, ec);
          for(Index q = 0; q < n; ++q)
          {
            const Index g = b.dofs[q]; const LD inc = omega * cc[q];
            if(multi) { x[g] += inc; ex[g] += std::fabs(omega) * ec[q] + 2.0L * std::fabs(inc) + std::fabs(x[g]); }
            else { t2[g] += inc; et2[g] += std::fabs(omega) * ec[q] + 2.0L * std::fabs(inc) + std::fabs(t2[g]); }
          }
        }
        if(!multi)
          for(Index i = 0; i < N; ++i)
          {
            if(mult[i] == 0) continue; // no block covers this component: the documented sum is empty
            const LD sc = 1.0L / LD(mult[i]);
            t2[i] *= sc; et2[i] = 1.01L * et2[i] * sc + 2.0L * std::fabs(t2[i]);
            x[i] += t2[i]; ex[i] += et2[i] + std::fabs(x[i]);
          }
        for(Index i = 0; i < N; ++i) if(fixed[i]) { x[i] = 0.0L; ex[i] = 0.0L; }
      }
      return o;
    }
  };

  inline const char* vanka_name(int v)
  {
    static const char* nm[8] = {"nodal_diag_mult", "nodal_full_mult", "block_diag_mult", "block_full_mult", "nodal_diag_add", "nodal_full_add", "block_diag_add", "block_full_add"};
    return nm[v & 7];
  }
  inline FEAT::Solver::VankaType vanka_type(int v)
  {
    using FEAT::Solver::VankaType;
    static const VankaType t[8] = {VankaType::nodal_diag_mult, VankaType::nodal_full_mult, VankaType::block_diag_mult, VankaType::block_full_mult,
      VankaType::nodal_diag_add, VankaType::nodal_full_add, VankaType::block_diag_add, VankaType::block_full_add};
    return t[v & 7];
  }

  // Fx_: fixture naming the FEAT types of one matrix family:
  //   MA, MB, MD, VV (velocity vector), UFV / NFV (unit / none velocity filter), dim, adiag, node_filter, name()
  template<typename Fx_, typename FV_>
  void vanka_body(vh::Ctx& c, SP& s, int variant, bool moderate)
  {
    typedef typename Fx_::MA MA; typedef typename Fx_::MB MB; typedef typename Fx_::MD MD;
    typedef typename MA::DataType DT; typedef typename MA::IndexType IT;
    typedef LAFEM::SaddlePointMatrix<MA, MB, MD> Mat;
    typedef LAFEM::TupleFilter<FV_, LAFEM::NoneFilter<DT, IT>> Filter;
    typedef typename Mat::VectorTypeL Vec;
    const bool block = (variant & 2) != 0, full = (variant & 1) != 0, multi = (variant & 4) == 0;
    const double omega = gen_omega(c.rng);
    // components that belong to no block under an additive variant (NaN on the pinned tree, repaired by a fix: commit)
    const bool add_unc = !multi && s.uncovered() > 0;
    const unsigned niter = unsigned(c.rng.pick<int>({1, 1, 1, 2, 3}));
    omega_tag(c, omega);
    c.tag(std::string("vanka:") + vanka_name(variant));
    c.tag(niter == 1 ? "iter:1" : "iter:>1");
    if(add_unc) c.tag("additive_uncovered_v");
    c.set_op("vanka.apply");
    const std::string params = vh::J().kv("type", vanka_name(variant)).kv("omega", omega).kv("num_iter", niter).str();
    c.desc = vh::J().kv("precond", "vanka").raw("params", params).kv("matrix", Fx_::name()).raw("system", s.describe()).str();

    MA a; MB b; MD d;
    build_a(a, s, true); build_b(b, s, true); build_d(d, s, true);
    Mat matrix(std::move(a), std::move(b), std::move(d));
    FV_ fv; build_fv(fv, s, c.rng);
    Filter filter(std::move(fv), LAFEM::NoneFilter<DT, IT>());
    VecIO<Vec> io = tuple_io<Vec>(s, [&matrix]() { return matrix.create_vector_l(); });
    std::shared_ptr<FEAT::Solver::SolverBase<Vec>> sol = FEAT::Solver::new_vanka(matrix, filter, vanka_type(variant), DT(omega), Index(niter));
    history<FEAT::Solver::VankaFactorError>(c, io, sol, s.fixed, "vanka.apply", params,
      [&]()
      {
        auto ref = std::make_shared<VankaRef>();
        ref->build(s, block, full, multi, omega, niter);
        Phase ph; ph.ok = ref->ok; ph.ref = [ref](const std::vector<LD>& dd) { return (*ref)(dd); };
        if(add_unc) { ph.nan_ok.assign(s.N, 0); for(Index i = 0; i < s.N; ++i) if(ref->mult[i] == 0 && !s.fixed[i]) ph.nan_ok[i] = 1; }
        std::size_t mxb = 0; for(auto& bl : ref->blocks) mxb = std::max<std::size_t>(mxb, bl.np);
        c.count(mxb > 1 ? "vanka:block-with->1-pressure-dof" : "vanka:single-pressure-blocks");
        return ph;
      },
      [&]()
      {
        gen_values(c.rng, s, moderate);
        build_a(matrix.block_a(), s, false); build_b(matrix.block_b(), s, false); build_d(matrix.block_d(), s, false);
      });
  }

  // generates the truth for one case and dispatches on the filter type
  template<typename Fx_>
  void vanka_case(vh::Ctx& c, long edge, int variant)
  {
    typedef typename Fx_::MA::DataType DT;
    work_u() = vl::unit_roundoff<DT>();
    const bool moderate = std::is_same<DT, float>::value;
    c08::PoolGuard pg(c, "vanka.apply");
    {
      SP s; s.adiag = Fx_::adiag;
      const bool multi = (variant & 4) == 0;
      if(edge >= 0) edge_pattern(s, edge, Fx_::dim);
      else
      {
        const Index maxv = c.thorough() ? 150 : 40, maxp = c.thorough() ? 50 : 15;
        const Index nv = std::max<Index>(1, Index(c.rng.range(1, long(maxv))) / Index(Fx_::dim));
        const Index np = Index(c.rng.range(1, long(std::min<Index>(maxp, std::max<Index>(1, nv * Index(Fx_::dim))))));
        s.alloc(nv, np, Fx_::dim);
        const int mode = int(c.rng.below(3));
        // additive variants: every velocity node is covered, except in a small share of the cases (pending finding)
        const bool cover = multi ? c.rng.coin(0.7) : !c.rng.coin(0.04);
        gen_b_pattern(c.rng, s, mode, cover);
      }
      s.adiag = Fx_::adiag; s.comp_major = Fx_::comp_major;
      gen_a_pattern(c.rng, s, edge);
      gen_values(c.rng, s, moderate);
      const bool unit = c.rng.coin(0.4);
      gen_filter(c.rng, s, unit, Fx_::node_filter, false);
      c.tag(std::string("mat:") + Fx_::name());
      c.tag(std::string("dt:") + vl::dt_name<DT>());
      c.tag(unit ? "filter:unit" : "filter:none");
      c.tag("pat:" + (edge >= 0 ? s.pattern : s.pattern.substr(0, s.pattern.find("A:"))));
      size_tags(c, s);
      if(edge >= 0) c.tag("edge_corpus");
      if(unit) vanka_body<Fx_, typename Fx_::UFV>(c, s, variant, moderate);
      else vanka_body<Fx_, typename Fx_::NFV>(c, s, variant, moderate);
    }
    pg.check();
  }
} // namespace c08x
