// C08 / unit c08x -- Vanka on SaddlePointMatrix<CSR, CSR, CSR> (scalar velocity), double/u64 and float/u32
#include "c08x_vanka.hpp"
namespace c08x
{
  void vanka_csr(vh::Ctx& c, int which, long edge, int variant)
  {
    if(which == 0) vanka_case<FxCsr<double, FEAT::Index>>(c, edge, variant);
    else vanka_case<FxCsr<float, unsigned int>>(c, edge, variant);
  }
}
