// C08 / unit c08x -- Solver::SchwarzPrecond in a single process: Global::Vector / Global::Filter over a gate without
// neighbours.  Documented operator (kernel/solver/schwarz_precond.hpp): apply the local solver to the local vectors,
// synchronise the correction (type-0 -> type-1: the identity without neighbours), apply the (global) correction filter.
// Local solvers with a closed-form operator:  Jacobi omega*diag^-1 | SOR (D/omega+L)^-1 | MatrixPrecond A | Scale omega,
// each built with the local filter; reference = dense long double operator of the first unit (c08_common.hpp) followed by
// the correction filter; history / monitors as everywhere in C08.
#include "c08x_common.hpp"
#include "c08_dispatch.hpp"
#include <kernel/global/gate.hpp>
#include <kernel/global/vector.hpp>
#include <kernel/global/filter.hpp>
#include <kernel/lafem/vector_mirror.hpp>
#include <kernel/solver/schwarz_precond.hpp>
#include <kernel/solver/jacobi_precond.hpp>
#include <kernel/solver/sor_precond.hpp>
#include <kernel/solver/matrix_precond.hpp>
#include <kernel/solver/scale_precond.hpp>

using namespace FEAT;

namespace c08x
{
  // majorant of the first unit (error <= 8(len+4) u S) expressed in the convention of this unit (error <= 32 u e)
  inline RefVec conv(RefVec r, std::size_t len) { for(auto& x : r.s) x *= LD(len + 4) / 4.0L; return r; }

  // lf: the filter of the Schwarz preconditioner; sf: the filter handed to the local solver (the same filter, or none at
  // all so that the correction filter of the Schwarz preconditioner itself is what zeroes the constrained components)
  template<typename MT_, typename LF_, typename SF_>
  void schwarz_body(vh::Ctx& c, c08::Sys& s, MT_& matrix, const LF_& lf, const SF_& sf)
  {
    typedef c08::MTraits<MT_> T; typedef typename T::DT DT; typedef typename T::IT IT; typedef typename T::Vec Vec;
    typedef LAFEM::VectorMirror<DT, IT> Mirror;
    typedef Global::Gate<Vec, Mirror> GateT; typedef Global::Vector<Vec, Mirror> GVec; typedef Global::Filter<LF_, Mirror> GFilter;
    const int kind = int(c.rng.below(4));
    const double omega = kind == 3 ? double(float(c.rng.real(-2.0, 2.0))) : c08::gen_omega(c.rng, s);
    static const char* kn[4] = {"jacobi", "sor", "matrix", "scale"};
    c.tag(std::string("local:") + kn[kind]);
    c.set_op("schwarz.apply");
    const std::string params = vh::J().kv("local_solver", kn[kind]).kv("omega", omega).str();
    c.desc = vh::J().kv("precond", "schwarz").raw("params", params).raw("system", s.describe()).str();
    Dist::Comm comm = Dist::Comm::world();
    GateT gate(comm);
    { Vec fr = T::make_vec(s.nb); fr.format(DT(1)); gate.compile(std::move(fr)); }
    GFilter gf(lf.clone());
    std::shared_ptr<Solver::SolverBase<Vec>> loc;
    if(kind == 0) loc = Solver::new_jacobi_precond(matrix, sf, DT(omega));
    else if(kind == 1) loc = Solver::new_sor_precond(PreferredBackend::generic, matrix, sf, DT(omega));
    else if(kind == 2) loc = Solver::new_matrix_precond(matrix, sf);
    else loc = Solver::new_scale_precond(sf, DT(omega));
    std::shared_ptr<Solver::SolverBase<GVec>> sol = Solver::new_schwarz_precond(loc, gf);
    const Index n = s.n, nb = s.nb;
    VecIO<GVec> io; io.N = n;
    io.create = [&gate, nb]() { return GVec(&gate, nb); };
    io.put = [n](GVec& x, const DT* src) { DT* e = T::raw(x.local()); for(Index i = 0; i < n; ++i) e[i] = src[i]; };
    io.get = [n](const GVec& x, DT* dst) { const DT* e = T::raw(x.local()); for(Index i = 0; i < n; ++i) dst[i] = e[i]; };
    history<NoFactorError>(c, io, sol, s.fixed, "schwarz.apply", params,
      [&]()
      {
        Phase ph; ph.ok = true;
        const c08::Sys& t = s;
        if(kind == 0)
        {
          std::vector<LD> d(n); for(Index i = 0; i < n; ++i) d[i] = t.a[std::size_t(i) * n + i];
          ph.ref = [d, n, omega](const std::vector<LD>& b) { RefVec x; x.v.resize(n); x.s.resize(n); for(Index i = 0; i < n; ++i) { x.v[i] = (LD)omega * b[i] / d[i]; x.s[i] = 3.0L * std::fabs(x.v[i]); } return x; };
        }
        else if(kind == 1)
        {
          auto Tm = std::make_shared<std::vector<LD>>(c08::part(t, 0, 1.0L / (LD)omega)); c08::add_to(*Tm, c08::part(t, 1));
          const int bs = t.bs; const Index nbl = t.nb; const std::size_t len = t.n;
          ph.ref = [Tm, nbl, bs, len](const std::vector<LD>& b) { return conv(c08::blk_tri_solve(*Tm, nbl, bs, true, false, b, nullptr), len); };
        }
        else if(kind == 2)
        {
          auto A = std::make_shared<std::vector<LD>>(t.a); const std::size_t len = t.max_row_len();
          ph.ref = [A, n, len](const std::vector<LD>& b) { return conv(c08::dense_mv(*A, n, b), len); };
        }
        else ph.ref = [n, omega](const std::vector<LD>& b) { RefVec x; x.v.resize(n); x.s.resize(n); for(Index i = 0; i < n; ++i) { x.v[i] = (LD)omega * b[i]; x.s[i] = std::fabs(x.v[i]); } return x; };
        return ph;
      },
      [&]() { c08::gen_values(c.rng, s); c08::write_values(matrix, s); });
  }

  template<typename MT_>
  void schwarz_case(vh::Ctx& c, long edge)
  {
    typedef c08::MTraits<MT_> T;
    work_u() = vl::unit_roundoff<typename T::DT>();
    c08::PoolGuard pg(c, "schwarz.apply");
    {
      c08::Sys s;
      c08::gen_pattern(c.rng, s, c08::max_n(c), T::bs, edge);
      c08::gen_values(c.rng, s);
      const bool unit = c.rng.coin(0.5);
      c08::gen_filter(c.rng, s, unit);
      c.tag(std::string("mat:") + T::name());
      c.tag(std::string("dt:") + vl::dt_name<typename T::DT>());
      c.tag(unit ? "filter:unit" : "filter:none");
      c08::size_tags(c, s);
      if(edge >= 0) c.tag("edge_corpus");
      MT_ m = c08::make_matrix<MT_>(s);
      auto nf = T::make_none(s);
      if(unit)
      {
        auto f = T::make_unit(s, c.rng);
        if(c.rng.coin(0.5)) { c.tag("local-filter:same"); auto f2 = f.clone(); schwarz_body(c, s, m, f, f2); }
        else { c.tag("local-filter:none"); schwarz_body(c, s, m, f, nf); }
      }
      else schwarz_body(c, s, m, nf, nf);
    }
    pg.check();
  }
}

VH_FAMILY(schwarz)
{
  c08::for_type(c, 3, [&](int which, long edge)
  {
    switch(which)
    {
    case 0: c08x::schwarz_case<c08::CsrD>(c, edge); break;
    case 1: c08x::schwarz_case<c08::CsrF>(c, edge); break;
    default: c08x::schwarz_case<c08::Bcsr2>(c, edge); break;
    }
  });
}
