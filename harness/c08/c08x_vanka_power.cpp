// C08 / unit c08x -- Vanka on SaddlePointMatrix<PowerDiag|PowerFull<CSR,2>, PowerCol<CSR,2>, PowerRow<CSR,2>>
#include "c08x_vanka.hpp"
namespace c08x
{
  void vanka_power(vh::Ctx& c, int which, long edge, int variant)
  {
    if(which == 0) vanka_case<FxPDiag<double, FEAT::Index, 2>>(c, edge, variant);
    else vanka_case<FxPFull<double, FEAT::Index, 2>>(c, edge, variant);
  }
}
