// c08x_common.hpp -- shared truth / oracle kernels / history driver of the second C08 unit (c08x):
// saddle-point preconditioners Vanka (8 variants), UzawaPrecond (4 types) and AmaVanka.
//
// Truth = `SP`: a dense long double image M of the saddle-point system [A B; D 0] in a *canonical* scalar numbering
// (velocity DOF of node i, component c -> i*dim+c; pressure DOF j -> NV+j) together with the node-level patterns of
// A, B and D.  All FEAT containers (CSR, BCSR, Power*, SaddlePointMatrix, Tuple/Power vectors and filters) are built
// from it, never the other way round; results are read back through the raw element arrays and mapped to the canonical
// numbering by harness-side code.
//
// Error majorants: every reference value carries a *running first-order error majorant* e with the meaning "a floating
// point evaluation of the documented formula in precision u is within c*u*e of the reference", obtained by propagating
// |error| through every operation of the documented operator (sums: classical (L+1)*sum|terms|; explicit local inverses:
// running analysis of the documented Gauss-Jordan elimination with diagonal pivoting, i.e. the bound is scaled by the
// actual conditioning/growth of every local solve).  The comparison uses c08::bound_of<DT>(e, 0) = 32*u*e, i.e. a
// constant slack of 32 on top of the majorant; nothing is fitted to observed data.  Products of two inexact quantities carry
// the second-order term 32u*e_a*e_b as well (it is the only term left when both first-order terms vanish, e.g. an entry of
// a local inverse that is zero in exact arithmetic times a defect that is zero in exact arithmetic), so that the induction
// "|computed - reference| <= 32*u*e" holds without a smallness assumption on the relative errors.
#pragma once
#include "c08_common.hpp"
#include <kernel/lafem/tuple_vector.hpp>
#include <kernel/lafem/tuple_filter.hpp>
#include <kernel/lafem/power_vector.hpp>
#include <kernel/lafem/power_filter.hpp>
#include <kernel/lafem/power_diag_matrix.hpp>
#include <kernel/lafem/power_full_matrix.hpp>
#include <kernel/lafem/power_col_matrix.hpp>
#include <kernel/lafem/power_row_matrix.hpp>
#include <kernel/lafem/saddle_point_matrix.hpp>
#include <cstring>
#include <numeric>

namespace c08x
{
  using c08::LD;
  using c08::RefVec;
  using FEAT::Index;
  namespace LAFEM = FEAT::LAFEM;
  typedef std::function<RefVec(const std::vector<LD>&)> RefFunc;

  // ------------------------------------------------------------------------------------------- truth
  struct SP
  {
    int dim = 1;               // velocity components per node
    Index nv = 0, np = 0;      // velocity nodes, pressure DOFs
    Index NV = 0, N = 0;       // nv*dim, NV+np
    bool adiag = false;        // A couples equal components only (PowerDiagMatrix)
    bool comp_major = false;   // FEAT orders the local velocity DOFs of a Vanka block component by component (Power* containers)
    std::vector<char> am;      // nv*nv node pattern of A (diagonal always stored)
    std::vector<char> bm;      // nv*np node pattern of B; the pattern of D is its transpose
    std::vector<LD> M;         // N*N dense values
    std::vector<char> fixed;   // N, 1 = component zeroed by the correction (and defect) filter
    std::string pattern;
    int vstyle = 1;
    double domf = 2.0;
    bool dsym = true;          // D == B^T (values)
    bool posdiag = true;       // diagonal of A positive
    bool unit_v = false, unit_p = false;

    bool a_st(Index i, Index j) const { return am[std::size_t(i) * nv + j] != 0; }
    bool b_st(Index i, Index j) const { return bm[std::size_t(i) * np + j] != 0; }   // velocity node i, pressure j
    bool d_st(Index j, Index i) const { return b_st(i, j); }
    LD& at(Index r, Index c) { return M[std::size_t(r) * N + c]; }
    LD at(Index r, Index c) const { return M[std::size_t(r) * N + c]; }
    LD A(Index i, int c, Index j, int c2) const { return at(i * dim + c, j * dim + c2); }
    LD B(Index i, int c, Index j) const { return at(i * dim + c, NV + j); }
    LD D(Index j, Index i, int c) const { return at(NV + j, i * dim + c); }

    void alloc(Index nv_, Index np_, int dim_)
    {
      nv = nv_; np = np_; dim = dim_; NV = nv * Index(dim); N = NV + np;
      am.assign(std::size_t(nv) * nv, 0); bm.assign(std::size_t(nv) * np, 0);
      for(Index i = 0; i < nv; ++i) am[std::size_t(i) * nv + i] = 1;
      M.assign(std::size_t(N) * N, 0.0L); fixed.assign(N, 0);
    }
    // number of velocity nodes that no pressure DOF is coupled with (+ pressure DOFs without velocity nodes)
    Index uncovered() const
    {
      Index k = 0;
      for(Index i = 0; i < nv; ++i) { bool cv = false; for(Index j = 0; j < np; ++j) cv = cv || b_st(i, j); k += cv ? 0 : 1; }
      for(Index j = 0; j < np; ++j) { bool cv = false; for(Index i = 0; i < nv; ++i) cv = cv || b_st(i, j); k += cv ? 0 : 1; }
      return k;
    }
    std::size_t max_row() const
    {
      std::size_t mx = 0;
      for(Index r = 0; r < N; ++r) { std::size_t k = 0; for(Index q = 0; q < N; ++q) k += at(r, q) != 0.0L ? 1 : 0; mx = std::max(mx, k); }
      return mx;
    }
    std::string describe(std::size_t maxn = 80) const
    {
      vh::J tr('['); std::size_t cnt = 0;
      for(Index r = 0; r < N && cnt < maxn; ++r) for(Index q = 0; q < N && cnt < maxn; ++q) if(at(r, q) != 0.0L)
      { vh::J e('['); e.add((unsigned long)r); e.add((unsigned long)q); e.add(at(r, q)); tr.add_raw(e.str()); ++cnt; }
      vh::J fx('['); for(Index i = 0; i < N && i < 64; ++i) if(fixed[i]) fx.add((unsigned long)i);
      vh::J bp('[');
      for(Index j = 0; j < np && j < 24; ++j) { vh::J row('['); for(Index i = 0; i < nv; ++i) if(b_st(i, j)) row.add((unsigned long)i); bp.add_raw(row.str()); }
      return vh::J().kv("nv_nodes", (unsigned long)nv).kv("dim", dim).kv("np", (unsigned long)np).kv("pattern", pattern).kv("vstyle", vstyle)
        .kv("domf", domf).kv("D_is_Bt", dsym).raw("velocity_nodes_of_pressure", bp.str()).raw("filtered", fx.str())
        .raw("canonical_triplets", tr.str()).str();
    }
  };

  inline std::size_t n_edge() { return 11; }

  // pattern of A (node level) from the shared generator of the first unit
  inline void gen_a_pattern(vh::Rng& r, SP& s, long edge)
  {
    if(edge == 7) { for(auto& ch : s.am) ch = 1; return; }        // full
    if(edge == 8 || edge == 0) return;                            // diagonal only
    if(edge >= 0)
    {
      // chain coupling
      for(Index i = 0; i + 1 < s.nv; ++i) { s.am[std::size_t(i) * s.nv + i + 1] = 1; s.am[std::size_t(i + 1) * s.nv + i] = 1; }
      return;
    }
    if(s.nv == 1) return;
    c08::Sys t; c08::gen_pattern(r, t, s.nv, 1, -1);
    // the shared generator chooses its own dimension <= nv: embed/tile its pattern
    for(Index i = 0; i < s.nv; ++i) for(Index j = 0; j < s.nv; ++j)
      if(t.stored(i % t.nb, j % t.nb) && ((i / t.nb) == (j / t.nb))) s.am[std::size_t(i) * s.nv + j] = 1;
    // connect the tiles
    for(Index i = t.nb; i < s.nv; i += t.nb) { s.am[std::size_t(i) * s.nv + i - 1] = 1; s.am[std::size_t(i - 1) * s.nv + i] = 1; }
    s.pattern += "A:" + t.pattern;
  }

  // B pattern.  mode 0: random sets; 1: element-like groups of pressure DOFs with identical velocity sets (discontinuous
  // pressure); 2: overlapping windows (continuous pressure).  cover: every velocity node is coupled with some pressure DOF.
  inline void gen_b_pattern(vh::Rng& r, SP& s, int mode, bool cover)
  {
    auto set = [&](Index i, Index j) { s.bm[std::size_t(i) * s.np + j] = 1; };
    const Index nv = s.nv, np = s.np;
    if(mode == 1)
    {
      // elements: consecutive windows of nodes overlapping in a few nodes; np pressure DOFs distributed over the elements
      Index j = 0, start = 0;
      while(j < np)
      {
        const Index w = std::min<Index>(nv, Index(r.range(2, 5)));
        Index g = Index(r.range(1, 3)); g = std::min<Index>(g, std::min<Index>(np - j, w * Index(s.dim)));
        if(start + w > nv) start = nv - w;
        for(Index q = 0; q < g; ++q) for(Index i = start; i < start + w; ++i) set(i, j + q);
        j += g;
        start += std::max<Index>(1, w - Index(r.range(0, 2)));
        if(start >= nv) start = Index(r.below(nv));
      }
      s.pattern += "B:elements";
    }
    else if(mode == 2)
    {
      for(Index j = 0; j < np; ++j)
      {
        const Index c0 = np > 1 ? (j * (nv - 1)) / (np - 1) : 0;
        const Index w = Index(r.range(1, 3));
        for(Index i = (c0 >= w ? c0 - w : 0); i <= std::min<Index>(nv - 1, c0 + w); ++i) set(i, j);
      }
      s.pattern += "B:windows";
    }
    else
    {
      const Index kmax = std::min<Index>(nv, Index(r.pick<int>({1, 2, 3, 4, 6, 8})));
      for(Index j = 0; j < np; ++j)
      {
        const Index k = Index(r.range(1, long(kmax)));
        for(Index q = 0; q < k; ++q) set(Index(r.below(nv)), j);
      }
      s.pattern += "B:random";
    }
    if(cover)
      for(Index i = 0; i < nv; ++i)
      {
        bool cv = false; for(Index j = 0; j < np; ++j) cv = cv || s.b_st(i, j);
        if(cv) continue;
        // couple the node with a random pressure DOF and with all pressure DOFs that have the same velocity set (keeps groups intact)
        const Index j0 = Index(r.below(np)); std::vector<Index> same;
        for(Index j = 0; j < np; ++j) { bool eq = true; for(Index k = 0; k < nv && eq; ++k) eq = s.b_st(k, j) == s.b_st(k, j0); if(eq) same.push_back(j); }
        for(Index j : same) set(i, j);
      }
  }

  // deterministic edge systems (patterns only); returns false if the index is not an edge
  inline void edge_pattern(SP& s, long edge, int dim)
  {
    auto set = [&](Index i, Index j) { s.bm[std::size_t(i) * s.np + j] = 1; };
    s.pattern = "edge" + std::to_string(edge);
    switch(edge)
    {
    case 0: s.alloc(1, 1, dim); set(0, 0); break;                                            // 1 velocity node, 1 pressure DOF
    case 1: s.alloc(4, 1, dim); for(Index i = 0; i < 4; ++i) set(i, 0); break;                // 1 pressure DOF coupled with everything
    case 2: s.alloc(6, 3, dim); for(Index j = 0; j < 3; ++j) { set(2 * j, j); set(2 * j + 1, j); } break; // disjoint velocity sets
    case 3: s.alloc(4, 3, dim); for(Index j = 0; j < 3; ++j) for(Index i = 0; i < 4; ++i) set(i, j); break; // all share all
    case 4: s.alloc(8, 6, dim); for(Index e = 0; e < 3; ++e) for(Index q = 0; q < 2; ++q) for(Index i = 2 * e; i < 2 * e + 4; ++i) set(i, 2 * e + q); break; // 3 elements x 2 discontinuous pressure DOFs
    case 5: s.alloc(6, 5, dim); for(Index j = 0; j < 5; ++j) { set(j, j); set(j + 1, j); } break; // chain (continuous pressure)
    case 6: s.alloc(5, 3, dim); set(0, 0); set(1, 0); set(2, 0); set(0, 1); set(1, 1); set(1, 2); set(2, 2); set(3, 2); break; // nested sets, node 4 uncovered
    case 7: s.alloc(5, 4, dim); for(Index j = 0; j < 4; ++j) { set(j, j); set((j + 2) % 5, j); set(4, j); } break; // full A
    case 8: s.alloc(3, 2, dim); set(0, 0); set(1, 0); set(1, 1); set(2, 1); break;            // diagonal A, one shared node
    case 9: s.alloc(4, 4, dim); for(Index j = 0; j < 4; ++j) set(j, j); break;               // one node per pressure DOF
    default: s.alloc(4, 3, dim); set(0, 0); set(1, 0); set(2, 2); set(3, 2); break;          // pressure DOF 1 has an empty row of D
    }
  }

  // values on the current patterns
  inline void gen_values(vh::Rng& r, SP& s, bool moderate)
  {
    s.vstyle = moderate ? int(r.below(2)) : int(r.pick<int>({0, 1, 1, 1, 2, 3}));
    s.domf = r.pick<double>({1.25, 1.5, 2.0, 2.0, 4.0});
    s.dsym = r.coin(0.6);
    s.posdiag = r.coin(0.8);
    const int dim = s.dim; const Index nv = s.nv, np = s.np, N = s.N, NV = s.NV;
    std::fill(s.M.begin(), s.M.end(), 0.0L);
    const int bstyle = s.vstyle == 3 ? 1 : s.vstyle;
    for(Index i = 0; i < nv; ++i) for(Index j = 0; j < nv; ++j) if(s.a_st(i, j))
      for(int c = 0; c < dim; ++c) for(int c2 = 0; c2 < dim; ++c2)
      {
        if(s.adiag && c != c2) continue;
        if(i == j && c == c2) continue;
        s.at(i * dim + c, j * dim + c2) = (LD)vl::gen_value(r, s.vstyle, true);
      }
    for(Index i = 0; i < nv; ++i) for(Index j = 0; j < np; ++j) if(s.b_st(i, j))
      for(int c = 0; c < dim; ++c)
      {
        const LD b = (LD)vl::gen_nonzero(r, bstyle, true);
        s.at(i * dim + c, NV + j) = b;
        s.at(NV + j, i * dim + c) = s.dsym ? b : (LD)vl::gen_nonzero(r, bstyle, true);
      }
    for(Index q = 0; q < NV; ++q)
    {
      LD sum = 0; for(Index p = 0; p < NV; ++p) if(p != q) sum += std::fabs(s.at(q, p));
      double d = double(sum) * s.domf * 1.0001 + std::fabs(vl::gen_nonzero(r, bstyle, true));
      float f = float(d); if(!(double(f) >= d)) f = std::nextafter(f, std::numeric_limits<float>::infinity());
      if(f == 0.0f) f = 1.0f;
      s.at(q, q) = (LD)((!s.posdiag && r.coin(0.4)) ? -f : f);
    }
    (void)N;
  }

  // correction filter: velocity components (node-wise for blocked filters) and optionally pressure components
  inline void gen_filter(vh::Rng& r, SP& s, bool unit_v, bool node_level, bool unit_p)
  {
    s.unit_v = unit_v; s.unit_p = unit_p;
    std::fill(s.fixed.begin(), s.fixed.end(), 0);
    if(unit_v)
    {
      const int kind = int(r.below(6)); // 0 empty, 1 all, else some
      for(Index i = 0; i < s.nv; ++i)
      {
        bool fx = kind == 0 ? false : (kind == 1 ? true : r.coin(0.25));
        for(int c = 0; c < s.dim; ++c) { if(!node_level && kind > 1) fx = r.coin(0.25); s.fixed[i * s.dim + c] = fx ? 1 : 0; }
      }
    }
    if(unit_p)
    {
      const int kind = int(r.below(5));
      for(Index j = 0; j < s.np; ++j) s.fixed[s.NV + j] = (kind == 0 ? false : (kind == 1 ? true : r.coin(0.25))) ? 1 : 0;
    }
  }

  inline double gen_omega(vh::Rng& r)
  {
    double w = r.pick<double>({1.0, 1.0, 0.8, 0.5, 0.75, 1.25, -1.0});
    if(w < 0) w = r.real(0.1, 1.5);
    return double(float(w));
  }

  // ------------------------------------------------------------------------------------------- FEAT containers
  template<typename DT_, typename IT_, typename St_, typename Val_>
  LAFEM::SparseMatrixCSR<DT_, IT_> make_csr(Index rows, Index cols, St_ stored, Val_ val)
  {
    Index nz = 0; for(Index i = 0; i < rows; ++i) for(Index j = 0; j < cols; ++j) nz += stored(i, j) ? 1 : 0;
    LAFEM::DenseVector<IT_, IT_> col(std::max<Index>(nz, 1)), rp(rows + 1);
    LAFEM::DenseVector<DT_, IT_> v(std::max<Index>(nz, 1), DT_(0));
    Index k = 0; rp(0, IT_(0));
    for(Index i = 0; i < rows; ++i) { for(Index j = 0; j < cols; ++j) if(stored(i, j)) { col(k, IT_(j)); v(k, DT_(val(i, j))); ++k; } rp(i + 1, IT_(k)); }
    if(nz == 0) return LAFEM::SparseMatrixCSR<DT_, IT_>(rows, cols);
    return LAFEM::SparseMatrixCSR<DT_, IT_>(rows, cols, col, v, rp);
  }
  template<typename DT_, typename IT_, typename St_, typename Val_>
  void write_csr(LAFEM::SparseMatrixCSR<DT_, IT_>& m, St_ stored, Val_ val)
  {
    DT_* v = m.val(); std::size_t k = 0;
    for(Index i = 0; i < m.rows(); ++i) for(Index j = 0; j < m.columns(); ++j) if(stored(i, j)) v[k++] = DT_(val(i, j));
  }
  template<typename DT_, typename IT_, int BH_, int BW_, typename St_, typename Val_>
  LAFEM::SparseMatrixBCSR<DT_, IT_, BH_, BW_> make_bcsr(Index rows, Index cols, St_ stored, Val_ val)
  {
    Index nz = 0; for(Index i = 0; i < rows; ++i) for(Index j = 0; j < cols; ++j) nz += stored(i, j) ? 1 : 0;
    LAFEM::DenseVector<IT_, IT_> col(std::max<Index>(nz, 1)), rp(rows + 1);
    LAFEM::DenseVector<DT_, IT_> v(std::max<Index>(nz, 1) * Index(BH_ * BW_), DT_(0));
    Index k = 0; rp(0, IT_(0));
    for(Index i = 0; i < rows; ++i)
    {
      for(Index j = 0; j < cols; ++j) if(stored(i, j))
      {
        col(k, IT_(j));
        for(int p = 0; p < BH_; ++p) for(int q = 0; q < BW_; ++q) v(k * Index(BH_ * BW_) + Index(p * BW_ + q), DT_(val(i, j, p, q)));
        ++k;
      }
      rp(i + 1, IT_(k));
    }
    return LAFEM::SparseMatrixBCSR<DT_, IT_, BH_, BW_>(rows, cols, col, v, rp);
  }
  template<typename DT_, typename IT_, int BH_, int BW_, typename St_, typename Val_>
  void write_bcsr(LAFEM::SparseMatrixBCSR<DT_, IT_, BH_, BW_>& m, St_ stored, Val_ val)
  {
    DT_* v = m.template val<LAFEM::Perspective::pod>(); std::size_t k = 0;
    for(Index i = 0; i < m.rows(); ++i) for(Index j = 0; j < m.columns(); ++j) if(stored(i, j))
      for(int p = 0; p < BH_; ++p) for(int q = 0; q < BW_; ++q) v[k++] = DT_(val(i, j, p, q));
  }

  // --- A
  template<typename DT_, typename IT_>
  void build_a(LAFEM::SparseMatrixCSR<DT_, IT_>& a, const SP& s, bool create)
  {
    auto st = [&](Index i, Index j) { return s.a_st(i, j); }; auto vl_ = [&](Index i, Index j) { return s.A(i, 0, j, 0); };
    if(create) a = make_csr<DT_, IT_>(s.nv, s.nv, st, vl_); else write_csr(a, st, vl_);
  }
  template<typename DT_, typename IT_, int d_>
  void build_a(LAFEM::SparseMatrixBCSR<DT_, IT_, d_, d_>& a, const SP& s, bool create)
  {
    auto st = [&](Index i, Index j) { return s.a_st(i, j); }; auto vl_ = [&](Index i, Index j, int p, int q) { return s.A(i, p, j, q); };
    if(create) a = make_bcsr<DT_, IT_, d_, d_>(s.nv, s.nv, st, vl_); else write_bcsr(a, st, vl_);
  }
  template<typename DT_, typename IT_, int d_>
  void build_a(LAFEM::PowerDiagMatrix<LAFEM::SparseMatrixCSR<DT_, IT_>, d_>& a, const SP& s, bool create)
  {
    auto st = [&](Index i, Index j) { return s.a_st(i, j); };
    for(int c = 0; c < d_; ++c)
    {
      auto vl_ = [&](Index i, Index j) { return s.A(i, c, j, c); };
      if(create) a.get(c, c) = make_csr<DT_, IT_>(s.nv, s.nv, st, vl_); else write_csr(a.get(c, c), st, vl_);
    }
  }
  template<typename DT_, typename IT_, int d_>
  void build_a(LAFEM::PowerFullMatrix<LAFEM::SparseMatrixCSR<DT_, IT_>, d_, d_>& a, const SP& s, bool create)
  {
    auto st = [&](Index i, Index j) { return s.a_st(i, j); };
    for(int c = 0; c < d_; ++c) for(int c2 = 0; c2 < d_; ++c2)
    {
      auto vl_ = [&](Index i, Index j) { return s.A(i, c, j, c2); };
      if(create) a.get(c, c2) = make_csr<DT_, IT_>(s.nv, s.nv, st, vl_); else write_csr(a.get(c, c2), st, vl_);
    }
  }
  // --- B
  template<typename DT_, typename IT_>
  void build_b(LAFEM::SparseMatrixCSR<DT_, IT_>& b, const SP& s, bool create)
  {
    auto st = [&](Index i, Index j) { return s.b_st(i, j); }; auto vl_ = [&](Index i, Index j) { return s.B(i, 0, j); };
    if(create) b = make_csr<DT_, IT_>(s.nv, s.np, st, vl_); else write_csr(b, st, vl_);
  }
  template<typename DT_, typename IT_, int d_>
  void build_b(LAFEM::SparseMatrixBCSR<DT_, IT_, d_, 1>& b, const SP& s, bool create)
  {
    auto st = [&](Index i, Index j) { return s.b_st(i, j); }; auto vl_ = [&](Index i, Index j, int p, int) { return s.B(i, p, j); };
    if(create) b = make_bcsr<DT_, IT_, d_, 1>(s.nv, s.np, st, vl_); else write_bcsr(b, st, vl_);
  }
  template<typename DT_, typename IT_, int d_>
  void build_b(LAFEM::PowerColMatrix<LAFEM::SparseMatrixCSR<DT_, IT_>, d_>& b, const SP& s, bool create)
  {
    auto st = [&](Index i, Index j) { return s.b_st(i, j); };
    for(int c = 0; c < d_; ++c)
    {
      auto vl_ = [&](Index i, Index j) { return s.B(i, c, j); };
      if(create) b.get(c, 0) = make_csr<DT_, IT_>(s.nv, s.np, st, vl_); else write_csr(b.get(c, 0), st, vl_);
    }
  }
  // --- D
  template<typename DT_, typename IT_>
  void build_d(LAFEM::SparseMatrixCSR<DT_, IT_>& d, const SP& s, bool create)
  {
    auto st = [&](Index j, Index i) { return s.d_st(j, i); }; auto vl_ = [&](Index j, Index i) { return s.D(j, i, 0); };
    if(create) d = make_csr<DT_, IT_>(s.np, s.nv, st, vl_); else write_csr(d, st, vl_);
  }
  template<typename DT_, typename IT_, int d_>
  void build_d(LAFEM::SparseMatrixBCSR<DT_, IT_, 1, d_>& d, const SP& s, bool create)
  {
    auto st = [&](Index j, Index i) { return s.d_st(j, i); }; auto vl_ = [&](Index j, Index i, int, int q) { return s.D(j, i, q); };
    if(create) d = make_bcsr<DT_, IT_, 1, d_>(s.np, s.nv, st, vl_); else write_bcsr(d, st, vl_);
  }
  template<typename DT_, typename IT_, int d_>
  void build_d(LAFEM::PowerRowMatrix<LAFEM::SparseMatrixCSR<DT_, IT_>, d_>& d, const SP& s, bool create)
  {
    auto st = [&](Index j, Index i) { return s.d_st(j, i); };
    for(int c = 0; c < d_; ++c)
    {
      auto vl_ = [&](Index j, Index i) { return s.D(j, i, c); };
      if(create) d.get(0, c) = make_csr<DT_, IT_>(s.np, s.nv, st, vl_); else write_csr(d.get(0, c), st, vl_);
    }
  }

  // --- vectors: canonical (node-major) <-> FEAT
  template<typename Src_, typename DT_, typename IT_>
  void vput(LAFEM::DenseVector<DT_, IT_>& v, const Src_* src, Index nn) { DT_* e = v.elements(); for(Index i = 0; i < nn; ++i) e[i] = DT_(src[i]); }
  template<typename Src_, typename DT_, typename IT_, int d_>
  void vput(LAFEM::DenseVectorBlocked<DT_, IT_, d_>& v, const Src_* src, Index nn)
  { DT_* e = v.template elements<LAFEM::Perspective::pod>(); for(Index i = 0; i < nn * Index(d_); ++i) e[i] = DT_(src[i]); }
  template<typename Src_, typename DT_, typename IT_, int d_>
  void vput(LAFEM::PowerVector<LAFEM::DenseVector<DT_, IT_>, d_>& v, const Src_* src, Index nn)
  { for(int c = 0; c < d_; ++c) { DT_* e = v.get(c).elements(); for(Index i = 0; i < nn; ++i) e[i] = DT_(src[i * Index(d_) + Index(c)]); } }
  template<typename DT_, typename IT_>
  void vget(const LAFEM::DenseVector<DT_, IT_>& v, DT_* dst, Index nn) { const DT_* e = v.elements(); for(Index i = 0; i < nn; ++i) dst[i] = e[i]; }
  template<typename DT_, typename IT_, int d_>
  void vget(const LAFEM::DenseVectorBlocked<DT_, IT_, d_>& v, DT_* dst, Index nn)
  { const DT_* e = v.template elements<LAFEM::Perspective::pod>(); for(Index i = 0; i < nn * Index(d_); ++i) dst[i] = e[i]; }
  template<typename DT_, typename IT_, int d_>
  void vget(const LAFEM::PowerVector<LAFEM::DenseVector<DT_, IT_>, d_>& v, DT_* dst, Index nn)
  { for(int c = 0; c < d_; ++c) { const DT_* e = v.get(c).elements(); for(Index i = 0; i < nn; ++i) dst[i * Index(d_) + Index(c)] = e[i]; } }

  // --- velocity filters
  template<typename DT_, typename IT_> void build_fv(LAFEM::NoneFilter<DT_, IT_>&, const SP&, vh::Rng&) {}
  template<typename DT_, typename IT_, int d_> void build_fv(LAFEM::NoneFilterBlocked<DT_, IT_, d_>&, const SP&, vh::Rng&) {}
  template<typename DT_, typename IT_, int d_> void build_fv(LAFEM::PowerFilter<LAFEM::NoneFilter<DT_, IT_>, d_>&, const SP&, vh::Rng&) {}
  template<typename DT_, typename IT_>
  void build_fv(LAFEM::UnitFilter<DT_, IT_>& f, const SP& s, vh::Rng& r)
  { f = LAFEM::UnitFilter<DT_, IT_>(s.nv); for(Index i = 0; i < s.nv; ++i) if(s.fixed[i]) f.add(IT_(i), DT_(vl::gen_value(r, 0))); }
  template<typename DT_, typename IT_, int d_>
  void build_fv(LAFEM::UnitFilterBlocked<DT_, IT_, d_>& f, const SP& s, vh::Rng& r)
  {
    f = LAFEM::UnitFilterBlocked<DT_, IT_, d_>(s.nv);
    for(Index i = 0; i < s.nv; ++i) if(s.fixed[i * Index(d_)])
    { FEAT::Tiny::Vector<DT_, d_> v; for(int p = 0; p < d_; ++p) v[p] = DT_(vl::gen_value(r, 0)); f.add(IT_(i), v); }
  }
  template<typename DT_, typename IT_, int d_>
  void build_fv(LAFEM::PowerFilter<LAFEM::UnitFilter<DT_, IT_>, d_>& f, const SP& s, vh::Rng& r)
  {
    for(int c = 0; c < d_; ++c)
    {
      f.get(c) = LAFEM::UnitFilter<DT_, IT_>(s.nv);
      for(Index i = 0; i < s.nv; ++i) if(s.fixed[i * Index(d_) + Index(c)]) f.get(c).add(IT_(i), DT_(vl::gen_value(r, 0)));
    }
  }
  // --- pressure filters
  template<typename DT_, typename IT_> void build_fp(LAFEM::NoneFilter<DT_, IT_>&, const SP&, vh::Rng&) {}
  template<typename DT_, typename IT_>
  void build_fp(LAFEM::UnitFilter<DT_, IT_>& f, const SP& s, vh::Rng& r)
  { f = LAFEM::UnitFilter<DT_, IT_>(s.np); for(Index j = 0; j < s.np; ++j) if(s.fixed[s.NV + j]) f.add(IT_(j), DT_(vl::gen_value(r, 0))); }

  // ------------------------------------------------------------------------------------------- oracle kernels
  // threshold unit for "this pivot is not distinguishable from zero in the working precision"
  inline unsigned long& gj_ambiguous() { static thread_local unsigned long n = 0; return n; }
  inline LD& work_u() { static thread_local LD u = (LD)std::numeric_limits<double>::epsilon(); return u; }

  // Inversion of the dense n x n matrix a (row major) by the Gauss-Jordan elimination documented for Math::invert_matrix
  // (in every step the largest remaining *diagonal* entry is the pivot, the first one among equals; whole columns are
  // eliminated), evaluated in long double.  e: on entry the majorant of the input entries, on exit the running majorant of
  // the computed inverse.  The pivot sequence of an evaluation in the working precision may differ from the one taken in
  // long double wherever two candidates are closer than their own majorants allow to tell apart: every such alternative
  // sequence is followed as well (at most 8 in total) and the majorant is the maximum over all of them.  Returns false if
  // on any of these paths a pivot vanishes or is not significant relative to its own majorant (the local system is singular
  // to working precision: the documented result is then "garbage"/VankaFactorError), or if there are too many alternatives.
  inline bool gj_elim(Index n, std::vector<LD>& a, std::vector<LD>& e, Index pk)
  {
    const LD uK = 32.0L * work_u();
    const LD piv = a[pk * n + pk], epiv = e[pk * n + pk];
    if(!(std::fabs(piv) > 0.0L) || !(uK * epiv < 0.25L * std::fabs(piv))) return false;
    const LD inv = 1.0L / piv, einv = 1.34L * epiv / (piv * piv) + std::fabs(inv); // |delta p| < |p|/4, see the test above
    a[pk * n + pk] = 1.0L; e[pk * n + pk] = 0.0L;
    for(Index j = 0; j < n; ++j)
    {
      const LD old = a[pk * n + j]; if(old == 0.0L && e[pk * n + j] == 0.0L) continue;
      a[pk * n + j] = old * inv; e[pk * n + j] = e[pk * n + j] * (std::fabs(inv) + uK * einv) + std::fabs(old) * einv + std::fabs(a[pk * n + j]);
    }
    for(Index i = 0; i < n; ++i)
    {
      if(i == pk) continue;
      const LD f = a[i * n + pk], ef = e[i * n + pk];
      a[i * n + pk] = 0.0L; e[i * n + pk] = 0.0L;
      if(f == 0.0L && ef == 0.0L) continue;
      for(Index j = 0; j < n; ++j)
      {
        const LD r = a[pk * n + j], er = e[pk * n + j]; if(r == 0.0L && er == 0.0L) continue;
        const LD t = r * f; a[i * n + j] -= t;
        e[i * n + j] += std::fabs(r) * ef + std::fabs(f) * er + uK * er * ef + std::fabs(t) + std::fabs(a[i * n + j]);
      }
    }
    return true;
  }
  inline bool gj_paths(Index n, std::vector<LD>& a, std::vector<LD>& e, std::vector<Index>& p, Index k0, int& leaves,
                       std::vector<LD>& X, std::vector<LD>& EX, bool& have)
  {
    const LD uK = 32.0L * work_u();
    for(Index k = k0; k < n; ++k)
    {
      LD best = std::fabs(a[p[k] * n + p[k]]); Index bi = k;
      for(Index j = k + 1; j < n; ++j) { const LD v = std::fabs(a[p[j] * n + p[j]]); if(v > best) { best = v; bi = j; } }
      const LD ebest = e[p[bi] * n + p[bi]];
      for(Index j = k; j < n; ++j)
      {
        if(j == bi) continue;
        const LD v = std::fabs(a[p[j] * n + p[j]]), ev = e[p[j] * n + p[j]];
        if(!(ebest + ev > 0.0L) || best - v > uK * (ebest + ev)) continue;
        // candidate j cannot be told apart from the best one in the working precision: follow that sequence, too
        if(++leaves > 8) return false;
        std::vector<LD> a2 = a, e2 = e; std::vector<Index> p2 = p; std::swap(p2[k], p2[j]);
        if(!gj_elim(n, a2, e2, p2[k])) return false;
        if(!gj_paths(n, a2, e2, p2, k + 1, leaves, X, EX, have)) return false;
      }
      std::swap(p[k], p[bi]);
      if(!gj_elim(n, a, e, p[k])) return false;
    }
    for(std::size_t q = 0; q < a.size(); ++q) if(!std::isfinite(a[q]) || !std::isfinite(e[q])) return false;
    if(!have) { X = a; EX = e; have = true; }
    else for(std::size_t q = 0; q < a.size(); ++q) EX[q] = std::max(EX[q], e[q] + std::fabs(a[q] - X[q]) / work_u());
    return true;
  }
  inline bool gj_inverse(Index n, std::vector<LD>& a, std::vector<LD>& e)
  {
    if(n == 0) return true;
    std::vector<Index> p(n); std::iota(p.begin(), p.end(), Index(0));
    std::vector<LD> X, EX; bool have = false; int leaves = 1;
    // the primary (long double) sequence is the one that reaches the end of the outermost call *last*; its values are kept
    std::vector<LD> a0 = a, e0 = e;
    if(!gj_paths(n, a0, e0, p, 0, leaves, X, EX, have)) return false;
    // values of the primary sequence, majorant = maximum over all sequences
    for(std::size_t q = 0; q < a.size(); ++q) { const LD dv = std::fabs(a0[q] - X[q]) / work_u(); EX[q] = std::max(EX[q], e0[q] + dv) + dv; }
    a = a0; e = EX;
    if(leaves > 1) ++gj_ambiguous();
    return true;
  }

  // y = X l for an explicitly stored (inverse) matrix X with majorant EX:  e_y = (n+1) sum |X||l| + sum (|X| e_l + EX |l|)
  inline void inv_apply(Index n, const std::vector<LD>& X, const std::vector<LD>& EX, const std::vector<LD>& l, const std::vector<LD>& el,
                        std::vector<LD>& y, std::vector<LD>& ey)
  {
    y.assign(n, 0.0L); ey.assign(n, 0.0L);
    const LD uK = 32.0L * work_u();
    for(Index i = 0; i < n; ++i)
    {
      LD v = 0, s = 0, t = 0;
      for(Index j = 0; j < n; ++j) { const LD x = X[i * n + j]; v += x * l[j]; s += std::fabs(x * l[j]); t += std::fabs(x) * el[j] + EX[i * n + j] * (std::fabs(l[j]) + uK * el[j]); }
      y[i] = v; ey[i] = LD(n + 1) * s + t;
    }
  }

  // residual row: l = b_i - sum_j M_ij x_j over a dense row; e_l = e_b + (cnt+2)(|b_i| + sum|M x|) + sum |M| e_x
  inline void resid_row(const LD* row, Index N, LD b, LD eb, const std::vector<LD>& x, const std::vector<LD>& ex, LD& l, LD& el)
  {
    LD v = b, s = std::fabs(b), t = 0; Index cnt = 0;
    for(Index j = 0; j < N; ++j) { const LD m = row[j]; if(m == 0.0L) continue; ++cnt; v -= m * x[j]; s += std::fabs(m * x[j]); t += std::fabs(m) * ex[j]; }
    l = v; el = eb + LD(cnt + 2) * s + t;
  }

  // pressure blocks of the "block" variants as documented (and, for the details the documentation leaves open, as coded):
  // for the first pressure DOF i not yet member of a block, count for every pressure DOF j the velocity nodes k with
  // D(i,k) and B(k,j) stored; the block consists of all j with the maximal count (ascending).  Nodal: one DOF per block.
  inline void pressure_blocks(const SP& s, bool block, std::vector<std::vector<Index>>& pb)
  {
    pb.clear();
    if(!block) { for(Index j = 0; j < s.np; ++j) pb.push_back({j}); return; }
    std::vector<char> mask(s.np, 0);
    for(Index i = 0; i < s.np; ++i)
    {
      if(mask[i]) continue;
      std::vector<int> cnt(s.np, 0); int deg = 0;
      for(Index k = 0; k < s.nv; ++k) if(s.d_st(i, k)) for(Index j = 0; j < s.np; ++j) if(s.b_st(k, j)) deg = std::max(deg, ++cnt[j]);
      std::vector<Index> blk;
      for(Index j = 0; j < s.np; ++j) if(cnt[j] > 0 && cnt[j] == deg) { blk.push_back(j); mask[j] = 1; }
      pb.push_back(blk);
    }
  }
  // velocity nodes of a block = columns of D adjacent to the block's pressure rows (ascending)
  inline std::vector<Index> velocity_nodes(const SP& s, const std::vector<Index>& pblk)
  {
    std::vector<Index> vn;
    for(Index k = 0; k < s.nv; ++k) { bool in = false; for(Index j : pblk) in = in || s.d_st(j, k); if(in) vn.push_back(k); }
    return vn;
  }

  // ------------------------------------------------------------------------------------------- vector IO + per-apply monitor
  template<typename Vec_>
  struct VecIO
  {
    typedef typename Vec_::DataType DT;
    Index N = 0;
    std::function<Vec_()> create;
    std::function<void(Vec_&, const DT*)> put;        // canonical -> FEAT
    std::function<void(const Vec_&, DT*)> get;        // FEAT -> canonical
  };

  // IO of the system vector TupleVector<V, P> of a saddle-point system
  template<typename Vec_>
  VecIO<Vec_> tuple_io(const SP& s, std::function<Vec_()> create)
  {
    typedef typename Vec_::DataType DT;
    VecIO<Vec_> io; io.N = s.N; io.create = create;
    const Index nv = s.nv, NV = s.NV, np = s.np;
    io.put = [nv, NV, np](Vec_& x, const DT* src) { vput(x.template at<0>(), src, nv); vput(x.template at<1>(), src + NV, np); };
    io.get = [nv, NV, np](const Vec_& x, DT* dst) { vget(x.template at<0>(), dst, nv); vget(x.template at<1>(), dst + NV, np); };
    return io;
  }

  inline void filter_ref(const std::vector<char>& fixed, RefVec& r) { for(std::size_t i = 0; i < fixed.size(); ++i) if(fixed[i]) { r.v[i] = 0.0L; r.s[i] = 0.0L; } }

  struct Phase { RefFunc ref; bool ok = true; std::vector<char> nan_ok; };

  template<typename Vec_>
  struct Mon
  {
    typedef typename Vec_::DataType DT;
    vh::Ctx& c; const VecIO<Vec_>& io; FEAT::Solver::SolverBase<Vec_>& sol; const Phase& ph; const std::vector<char>& fixed;
    std::string op, params, loose_key;

    bool run(const std::vector<double>& defv, const char* phase, std::vector<LD>* out = nullptr, RefVec* oref = nullptr)
    {
      const Index N = io.N;
      std::vector<DT> dd(N), gg(N), back(N);
      for(Index i = 0; i < N; ++i) dd[i] = DT(defv[i]);
      Vec_ def = io.create(); io.put(def, dd.data());
      Vec_ cor = io.create();
      c08::fill_garbage(c.rng, gg.data(), N, int(c.rng.below(4))); io.put(cor, gg.data());
      FEAT::Solver::Status st = sol.apply(cor, def);
      c.event();
      bool good = true;
      if(st != FEAT::Solver::Status::success) { c.viol(op, "status", vh::J().kv("phase", phase).kv("status", int(st)).str()); good = false; }
      io.get(def, back.data());
      if(std::memcmp(back.data(), dd.data(), sizeof(DT) * N) != 0) { c.viol(op, "input-modified", vh::J().kv("phase", phase).str()); good = false; }
      RefVec r = ph.ref(c08::to_ld(defv));
      filter_ref(fixed, r);
      io.get(cor, gg.data());
      const std::vector<DT> graw = gg; // as returned by FEAT (the verbose replay prints these)
      // components no block covers must come out as 0 under additive Vanka (they were NaN on the pinned tree: 0 * 1/0;
      // repaired by a fix: commit, asserted like every other component since)
      if(!ph.nan_ok.empty())
        for(Index i = 0; i < N; ++i) if(ph.nan_ok[i]) c.count("additive-vanka-uncovered-dof-checked");
      if(!c08::compare_vec<DT>(c, op, "wrong-value", phase, gg.data(), r, 0, params)) good = false;
      if(c.verbose() && N <= 24)
      {
        std::printf("apply[%s] phase=%s\n", op.c_str(), phase);
        for(Index i = 0; i < N; ++i) std::printf("  i=%lu def=%.17g got=%.17g ref=%.21Lg e=%.6Lg\n", (unsigned long)i, defv[i], double(graw[i]), r.v[i], r.s[i]);
      }
      // sensitivity bookkeeping: how tight is the bound relative to the size of the result?
      {
        LD mx = 0, mb = 0; for(Index i = 0; i < N; ++i) { mx = std::max(mx, std::fabs(r.v[i])); mb = std::max(mb, c08::bound_of<DT>(r.s[i], 0)); }
        c.count(mx == 0.0L ? "tight:zero-result" : (mb <= 1e-6L * mx ? "tight:<=1e-6" : (mb <= 1e-2L * mx ? "tight:<=1e-2" : "tight:loose")));
        if(mx > 0.0L && mb > 1e-2L * mx && !loose_key.empty()) c.count("loose|" + loose_key);
      }
      if(out) { out->resize(N); for(Index i = 0; i < N; ++i) (*out)[i] = (LD)gg[i]; }
      if(oref) *oref = r;
      return good;
    }

    void random_apply(const char* phase) { run(vl::gen_vec(c.rng, io.N, int(c.rng.below(4)), true), phase); }

    void linearity(const char* phase)
    {
      const Index N = io.N;
      std::vector<double> u = c08::gen_fewbit(c.rng, N), v = c08::gen_fewbit(c.rng, N), w(N);
      const double a = c.rng.pick<double>({2.0, -1.0, 0.5, 3.0, -0.25, 1.0, 0.0}), b = c.rng.pick<double>({1.0, -2.0, 0.5, -3.0, 0.25});
      for(Index i = 0; i < N; ++i) w[i] = a * u[i] + b * v[i];
      std::vector<LD> xu, xv, xw; RefVec ru, rv, rw;
      run(u, phase, &xu, &ru); run(v, phase, &xv, &rv); run(w, phase, &xw, &rw);
      RefVec comb; comb.v.resize(N); comb.s.resize(N);
      for(Index i = 0; i < N; ++i)
      {
        comb.v[i] = (LD)a * xu[i] + (LD)b * xv[i];
        comb.s[i] = std::fabs((LD)a) * ru.s[i] + std::fabs((LD)b) * rv.s[i] + rw.s[i];
      }
      std::vector<DT> z(N); for(Index i = 0; i < N; ++i) z[i] = DT(xw[i]);
      c.event();
      c08::compare_vec<DT>(c, op, "not-linear", phase, z.data(), comb, 0, vh::J().kv("a", a).kv("b", b).str());
    }
  };

  // ------------------------------------------------------------------------------------------- history driver
  // Same script as c08::history:
  //   init_symbolic -> init_numeric (or init) -> apply* [-> done_numeric/init_numeric | done/init] -> (values rewritten in
  //   place, optionally preceded by done_numeric, optionally one unasserted apply) -> init_numeric -> apply* -> done_numeric
  //   -> done_symbolic [-> (new values) -> init -> apply -> done]
  // mkphase(): reference operator for the *current* truth (ok == false: a local system is singular to working precision;
  // then a documented factorisation error is accepted and no value is asserted in that phase);  regen(): new values of the
  // truth written in place into the FEAT containers;  FactorError_: the documented exception of the numeric factorisation.
  template<typename FactorError_, typename Vec_, typename MkPhase_, typename Regen_>
  void history(vh::Ctx& c, const VecIO<Vec_>& io, std::shared_ptr<FEAT::Solver::SolverBase<Vec_>> sol, const std::vector<char>& fixed,
               const std::string& op, const std::string& params, MkPhase_ mkphase, Regen_ regen)
  {
    typedef typename Vec_::DataType DT;
    vh::Rng& r = c.rng;
    bool any_phase = false;
    // returns true if the factorisation went through
    auto guarded = [&](const char* what, std::function<void()> fn) -> bool
    {
      try { fn(); return true; }
      catch(const FactorError_&) { c.count(std::string("factor-error:") + what); return false; }
    };
    auto run_phase = [&](const char* phase, bool inited, int napply, bool lin)
    {
      Phase ph = mkphase();
      if(gj_ambiguous()) { c.count("gj:local-inversions-with-alternative-pivot-sequences", gj_ambiguous()); gj_ambiguous() = 0; }
      if(!inited)
      {
        c.event();
        if(ph.ok) c.viol(op, "unexpected-factor-error", vh::J().kv("phase", phase).str());
        else c.count("phase-skipped:factor-error-on-singular-local-system");
        return;
      }
      if(!ph.ok) { c.count("phase-skipped:singular-local-system"); return; }
      any_phase = true;
      std::string lk;
      for(auto& t : c.tags) if(t.compare(0, 6, "vanka:") == 0 || t.compare(0, 3, "dt:") == 0) lk += t + ",";
      Mon<Vec_> mon{c, io, *sol, ph, fixed, op, params, lk};
      for(int i = 0; i < napply; ++i) mon.random_apply(phase);
      if(lin) mon.linearity(phase);
    };
    bool ok;
    if(r.coin(0.3)) ok = guarded("init", [&] { sol->init(); });
    else { sol->init_symbolic(); ok = guarded("init_numeric", [&] { sol->init_numeric(); }); }
    run_phase("initial", ok, int(r.range(1, 2)), true);
    const int life = int(r.below(4));
    if(life == 1) { sol->done_numeric(); ok = guarded("init_numeric", [&] { sol->init_numeric(); }); run_phase("after-done_numeric-init_numeric", ok, 1, false); c.tag("life:renumeric"); }
    else if(life == 2)
    {
      sol->done();
      ok = guarded("init", [&] { sol->init(); });
      run_phase("after-done-init", ok, 1, false); c.tag("life:reinit");
    }
    // change the matrix values in place on the same pattern
    const bool dn = r.coin(0.3);
    if(dn) sol->done_numeric();
    regen();
    if(!dn && ok && r.coin(0.3))
    {
      // stale-or-live is unspecified between the value change and init_numeric: the call is made, nothing is asserted
      std::vector<double> dv = vl::gen_vec(r, io.N, 1, true); std::vector<DT> dd(io.N); for(Index i = 0; i < io.N; ++i) dd[i] = DT(dv[i]);
      Vec_ def = io.create(); io.put(def, dd.data()); Vec_ cor = io.create(); std::vector<DT> z(io.N, DT(0)); io.put(cor, z.data());
      sol->apply(cor, def);
      c.tag("apply-before-refresh");
    }
    ok = guarded("init_numeric", [&] { sol->init_numeric(); });
    run_phase("after-value-update", ok, int(r.range(1, 2)), r.coin(0.5));
    sol->done_numeric();
    sol->done_symbolic();
    if(r.coin(0.3))
    {
      if(r.coin(0.5)) regen();
      ok = guarded("init", [&] { sol->init(); });
      run_phase("after-full-reinit", ok, 1, false);
      sol->done();
      c.tag("life:full-reinit");
    }
    if(!any_phase) c.trivial = true;
  }

  // no documented factorisation exception (Uzawa with closed-form inner solvers, AmaVanka)
  struct NoFactorError {};

  inline void size_tags(vh::Ctx& c, const SP& s)
  {
    c.tag(s.N <= 2 ? "n:<=2" : (s.N <= 12 ? "n:3-12" : (s.N <= 60 ? "n:13-60" : "n:61+")));
    c.tag(s.np == 1 ? "np:1" : (s.np <= 4 ? "np:2-4" : "np:5+"));
    c.tag(s.dsym ? "D=Bt" : "D:independent");
    if(s.uncovered() > 0) c.tag("uncovered_v");
  }
  inline void omega_tag(vh::Ctx& c, double w) { c.tag(w == 1.0 ? "omega:1" : (w < 1.0 ? "omega:<1" : "omega:>1")); }

  // ------------------------------------------------------------------------------------------- fixtures (FEAT type families)
  template<typename DT_, typename IT_>
  struct FxCsr
  {
    typedef LAFEM::SparseMatrixCSR<DT_, IT_> MA; typedef MA MB; typedef MA MD;
    typedef LAFEM::DenseVector<DT_, IT_> VV;
    typedef LAFEM::UnitFilter<DT_, IT_> UFV; typedef LAFEM::NoneFilter<DT_, IT_> NFV;
    static constexpr int dim = 1; static constexpr bool adiag = false; static constexpr bool node_filter = true; static constexpr bool comp_major = false;
    static const char* name() { return std::is_same<DT_, float>::value ? "csr-f32" : "csr"; }
  };
  template<typename DT_, typename IT_, int d_>
  struct FxBcsr
  {
    typedef LAFEM::SparseMatrixBCSR<DT_, IT_, d_, d_> MA; typedef LAFEM::SparseMatrixBCSR<DT_, IT_, d_, 1> MB; typedef LAFEM::SparseMatrixBCSR<DT_, IT_, 1, d_> MD;
    typedef LAFEM::DenseVectorBlocked<DT_, IT_, d_> VV;
    typedef LAFEM::UnitFilterBlocked<DT_, IT_, d_> UFV; typedef LAFEM::NoneFilterBlocked<DT_, IT_, d_> NFV;
    static constexpr int dim = d_; static constexpr bool adiag = false; static constexpr bool node_filter = true; static constexpr bool comp_major = false;
    static const char* name() { return d_ == 2 ? "bcsr2" : "bcsr3"; }
  };
  template<typename DT_, typename IT_, int d_>
  struct FxPDiag
  {
    typedef LAFEM::SparseMatrixCSR<DT_, IT_> Sc;
    typedef LAFEM::PowerDiagMatrix<Sc, d_> MA; typedef LAFEM::PowerColMatrix<Sc, d_> MB; typedef LAFEM::PowerRowMatrix<Sc, d_> MD;
    typedef LAFEM::PowerVector<LAFEM::DenseVector<DT_, IT_>, d_> VV;
    typedef LAFEM::PowerFilter<LAFEM::UnitFilter<DT_, IT_>, d_> UFV; typedef LAFEM::PowerFilter<LAFEM::NoneFilter<DT_, IT_>, d_> NFV;
    static constexpr int dim = d_; static constexpr bool adiag = true; static constexpr bool node_filter = false; static constexpr bool comp_major = true;
    static const char* name() { return "powerdiag2"; }
  };
  template<typename DT_, typename IT_, int d_>
  struct FxPFull
  {
    typedef LAFEM::SparseMatrixCSR<DT_, IT_> Sc;
    typedef LAFEM::PowerFullMatrix<Sc, d_, d_> MA; typedef LAFEM::PowerColMatrix<Sc, d_> MB; typedef LAFEM::PowerRowMatrix<Sc, d_> MD;
    typedef LAFEM::PowerVector<LAFEM::DenseVector<DT_, IT_>, d_> VV;
    typedef LAFEM::PowerFilter<LAFEM::UnitFilter<DT_, IT_>, d_> UFV; typedef LAFEM::PowerFilter<LAFEM::NoneFilter<DT_, IT_>, d_> NFV;
    static constexpr int dim = d_; static constexpr bool adiag = false; static constexpr bool node_filter = false; static constexpr bool comp_major = true;
    static const char* name() { return "powerfull2"; }
  };

  // case index -> (type, edge, variant): the first n_edge()*4 indices are the deterministic edge corpus
  inline void pick_case(vh::Ctx& c, int ntypes, int nvariants, int& type, long& edge, int& variant)
  {
    const std::size_t ne = n_edge();
    if(c.k < 4 * ne) { edge = long(c.k % ne); variant = int((c.k + c.k / ne) % std::size_t(nvariants)); type = int(c.k % std::size_t(ntypes)); return; }
    type = int(c.rng.below(std::uint64_t(ntypes))); variant = int(c.rng.below(std::uint64_t(nvariants)));
    edge = c.rng.coin(0.08) ? long(c.rng.below(ne)) : -1;
  }
} // namespace c08x
