// C10 utility families, shape TU: tetra
#include <c10/c10x_feat.hpp>
void c10x_meshops_tetra(vh::Ctx& c) { c10::run_meshops<FEAT::Shape::Simplex<3>>(c); }
void c10x_partops_tetra(vh::Ctx& c) { c10::run_partops<FEAT::Shape::Simplex<3>>(c); }
