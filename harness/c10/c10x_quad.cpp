// C10 utility families, shape TU: quad
#include <c10/c10x_feat.hpp>
void c10x_meshops_quad(vh::Ctx& c) { c10::run_meshops<FEAT::Shape::Hypercube<2>>(c); }
void c10x_partops_quad(vh::Ctx& c) { c10::run_partops<FEAT::Shape::Hypercube<2>>(c); }
