// c10_core.hpp -- FEAT-independent snapshots and oracles for C10 (refinement conformity, mesh parts follow parents).
// Also used by C12 (mesh snapshots, entity keys).
//
// Everything here works on plain arrays copied out of the FEAT objects at the API boundary.  The only
// knowledge about FEAT is the DOCUMENTED convention set:
//   * local face tables of doxy_in/mesh_format.dox, "Topology Ordering" (transcribed in ShapeTab::face)
//   * per-shape child counts (refinement count formulas, ShapeTab::cc)
//   * fine vertex numbering [coarse vertices | edges | (quad) faces | (hexa/tetra) cells]
// No table of standard_index_refiner / standard_target_refiner is used.
#pragma once
#include <common/vh.hpp>
#include <array>
#include <unordered_map>
#include <cstdint>

namespace c10
{
  typedef std::uint64_t Idx;
  typedef long double LD;
  static constexpr Idx NONE = ~Idx(0);

  // ------------------------------------------------------------------------------------------ shape tables
  struct ShapeTab
  {
    bool simplex; int dim;
    const char* name() const { return simplex ? (dim == 2 ? "tria" : "tetra") : (dim == 2 ? "quad" : "hexa"); }
    // number of vertices of a d-dimensional entity
    int nv(int d) const { return simplex ? d + 1 : (1 << d); }
    // number of e-dimensional faces of a d-dimensional entity
    int nf(int d, int e) const
    {
      if(e == 0) return nv(d);
      if(simplex) { if(d == 2 && e == 1) return 3; if(d == 3 && e == 1) return 6; if(d == 3 && e == 2) return 4; }
      else { if(d == 2 && e == 1) return 4; if(d == 3 && e == 1) return 12; if(d == 3 && e == 2) return 6; }
      return 0;
    }
    // local vertex numbers of local e-face j of a d-dimensional entity (mesh_format.dox "Topology Ordering")
    const int* face(int d, int e, int j) const
    {
      static const int vt[8][1] = {{0}, {1}, {2}, {3}, {4}, {5}, {6}, {7}};
      // quadrilateral: edges parallel to X sorted by Y, then edges parallel to Y sorted by X; vertex v = x + 2y
      static const int quad_e[4][2] = {{0, 1}, {2, 3}, {0, 2}, {1, 3}};
      // hexahedron: vertex v = x + 2y + 4z; edges parallel to X (sorted by YZ), to Y (by XZ), to Z (by XY)
      static const int hexa_e[12][2] = {{0, 1}, {2, 3}, {4, 5}, {6, 7}, {0, 2}, {1, 3}, {4, 6}, {5, 7}, {0, 4}, {1, 5}, {2, 6}, {3, 7}};
      // faces parallel to XY (sorted by Z), to XZ (by Y), to YZ (by X)
      static const int hexa_f[6][4] = {{0, 1, 2, 3}, {4, 5, 6, 7}, {0, 1, 4, 5}, {2, 3, 6, 7}, {0, 2, 4, 6}, {1, 3, 5, 7}};
      // triangle: edge j is opposite vertex j, counter-clockwise
      static const int tria_e[3][2] = {{1, 2}, {2, 0}, {0, 1}};
      // tetrahedron: as listed in the documentation
      static const int tetra_e[6][2] = {{0, 1}, {0, 2}, {0, 3}, {1, 2}, {1, 3}, {2, 3}};
      static const int tetra_f[4][3] = {{1, 2, 3}, {0, 2, 3}, {0, 1, 3}, {0, 1, 2}};
      if(e == 0) return vt[j];
      if(simplex) { if(d == 2) return tria_e[j]; if(e == 1) return tetra_e[j]; return tetra_f[j]; }
      if(d == 2) return quad_e[j]; if(e == 1) return hexa_e[j]; return hexa_f[j];
    }
    // number of d-dimensional children created in the interior of one s-dimensional entity (d <= s)
    int cc(int s, int d) const
    {
      static const int hy[4][4] = {{1, 0, 0, 0}, {1, 2, 0, 0}, {1, 4, 4, 0}, {1, 6, 12, 8}};
      static const int si[4][4] = {{1, 0, 0, 0}, {1, 2, 0, 0}, {0, 3, 4, 0}, {1, 6, 16, 12}};
      return simplex ? si[s][d] : hy[s][d];
    }
  };
  inline ShapeTab tab_quad() { return ShapeTab{false, 2}; }
  inline ShapeTab tab_tria() { return ShapeTab{true, 2}; }
  inline ShapeTab tab_hexa() { return ShapeTab{false, 3}; }
  inline ShapeTab tab_tetra() { return ShapeTab{true, 3}; }

  // ------------------------------------------------------------------------------------------ snapshots
  struct PartSnap
  {
    std::string name;
    int kind = 0;                 // 0 mesh part, 1 halo, 2 patch
    bool present = true;          // false: the node holds a nullptr part
    bool topo = false;            // has its own topology
    bool charted = false;         // linked to a chart
    Idx n[4] = {0, 0, 0, 0};
    std::vector<Idx> trg[4];
    std::vector<Idx> idx[4][4];   // own topology idx[d][e], e < d, row length nf(d,e)
    std::string key() const { return std::to_string(kind) + ":" + name; }
  };
  struct MeshSnap
  {
    Idx n[4] = {0, 0, 0, 0};
    std::vector<double> vtx;      // n[0] * dim
    std::vector<Idx> idx[4][4];   // idx[d][e], e < d
    Idx bound[4][4] = {{0}};      // index bounds as reported by the index sets
    std::vector<PartSnap> parts;
    bool have_bnd = false; PartSnap bnd;     // BoundaryFactory output for this mesh
    LD vol = 0, volabs = 0; bool have_vol = false;
    const Idx* ent(const ShapeTab& t, int d, Idx i, Idx* tmp) const
    { if(d == 0) { tmp[0] = i; return tmp; } return &idx[d][0][i * Idx(t.nv(d))]; }
  };

  // ------------------------------------------------------------------------------------------ keys (sorted vertex tuples)
  struct Key
  {
    std::array<Idx, 8> v;
    bool operator==(const Key& o) const { return v == o.v; }
  };
  struct KeyHash { std::size_t operator()(const Key& k) const { std::uint64_t h = 0x9E3779B97F4A7C15ull; for(Idx x : k.v) h = vh::mix64(h ^ x); return std::size_t(h); } };
  inline Key make_key(const Idx* v, int n)
  {
    Key k; for(int i = 0; i < 8; ++i) k.v[std::size_t(i)] = i < n ? v[i] : NONE;
    std::sort(k.v.begin(), k.v.begin() + n);
    return k;
  }
  // key of the *set* (duplicates removed); returns number of distinct vertices
  inline int make_set_key(Key& k, Idx* v, int n)
  {
    std::sort(v, v + n); n = int(std::unique(v, v + n) - v);
    for(int i = 0; i < 8; ++i) k.v[std::size_t(i)] = i < n ? v[i] : NONE;
    return n;
  }
  inline std::string key_str(const Key& k) { std::string s = "["; for(Idx x : k.v) if(x != NONE) { if(s.size() > 1) s += ","; s += std::to_string(x); } return s + "]"; }
  template<typename V> using KeyMap = std::unordered_map<Key, V, KeyHash>;

  // ------------------------------------------------------------------------------------------ harness-side topology
  // Builds ALL index sets of a conforming mesh from the vertices-at-cell lists and the documented local-face tables.
  // With rng != nullptr the numbering of the edges / faces is a random permutation and every edge / face gets a random
  // one of its valid local vertex orders (2 for an edge, 6 for a triangle, 8 for a quadrilateral) -- mesh files may
  // legally contain any of these.
  // full symmetry groups of the sub-entity shapes as valid local vertex orders (new local i = old local sym[i]):
  // quadrilateral in tensor numbering: 4 rotations + 4 mirrored; triangle: all 6 permutations
  static const int quad_sym[8][4] = {{0, 1, 2, 3}, {1, 3, 0, 2}, {3, 2, 1, 0}, {2, 0, 3, 1}, {1, 0, 3, 2}, {3, 1, 2, 0}, {2, 3, 0, 1}, {0, 2, 1, 3}};
  static const int tria_sym[6][3] = {{0, 1, 2}, {1, 2, 0}, {2, 0, 1}, {0, 2, 1}, {2, 1, 0}, {1, 0, 2}};
  struct Topo { Idx n[4] = {0, 0, 0, 0}; std::vector<Idx> idx[4][4]; };
  inline void build_topology(const ShapeTab& t, Idx nverts, const std::vector<Idx>& cells, vh::Rng* rng, Topo& out)
  {
    const int dim = t.dim, nvc = t.nv(dim);
    out.n[0] = nverts; out.n[dim] = Idx(cells.size() / std::size_t(nvc));
    out.idx[dim][0] = cells;
    KeyMap<Idx> maps[3];
    for(int e = dim - 1; e >= 1; --e)
    {
      const int nve = t.nv(e), nfc = t.nf(dim, e);
      KeyMap<Idx>& mp = maps[e]; std::vector<Idx> tuples;
      for(Idx i = 0; i < out.n[dim]; ++i) for(int j = 0; j < nfc; ++j)
      {
        Idx w[8]; const int* lf = t.face(dim, e, j);
        for(int k = 0; k < nve; ++k) w[k] = cells[i * Idx(nvc) + Idx(lf[k])];
        if(mp.emplace(make_key(w, nve), Idx(mp.size())).second) for(int k = 0; k < nve; ++k) tuples.push_back(w[k]);
      }
      const Idx ne = Idx(mp.size()); out.n[e] = ne;
      std::vector<Idx> perm(ne); for(Idx i = 0; i < ne; ++i) perm[i] = i;
      if(rng) rng->shuffle(perm);                       // first-occurrence id i becomes entity perm[i]
      for(auto& kv : mp) kv.second = perm[kv.second];
      out.idx[e][0].assign(std::size_t(ne) * std::size_t(nve), 0);
      for(Idx i = 0; i < ne; ++i)
      {
        const int* sym = nullptr;
        if(rng) { if(e == 1) sym = rng->coin() ? quad_sym[0] : quad_sym[4]; else if(t.simplex) sym = tria_sym[rng->below(6)]; else sym = quad_sym[rng->below(8)]; }
        for(int k = 0; k < nve; ++k) out.idx[e][0][perm[i] * Idx(nve) + Idx(k)] = tuples[i * Idx(nve) + Idx(sym ? sym[k] : k)];
      }
      out.idx[dim][e].assign(std::size_t(out.n[dim]) * std::size_t(nfc), 0);
      for(Idx i = 0; i < out.n[dim]; ++i) for(int j = 0; j < nfc; ++j)
      {
        Idx w[8]; const int* lf = t.face(dim, e, j);
        for(int k = 0; k < nve; ++k) w[k] = cells[i * Idx(nvc) + Idx(lf[k])];
        out.idx[dim][e][i * Idx(nfc) + Idx(j)] = mp[make_key(w, nve)];
      }
    }
    if(dim == 3)
    {
      const int nfc = t.nf(2, 1), nvf = t.nv(2);
      out.idx[2][1].assign(std::size_t(out.n[2]) * std::size_t(nfc), 0);
      for(Idx f = 0; f < out.n[2]; ++f) for(int j = 0; j < nfc; ++j)
      {
        Idx w[2]; const int* lf = t.face(2, 1, j);
        for(int k = 0; k < 2; ++k) w[k] = out.idx[2][0][f * Idx(nvf) + Idx(lf[k])];
        out.idx[2][1][f * Idx(nfc) + Idx(j)] = maps[1][make_key(w, 2)];
      }
    }
  }

  // ------------------------------------------------------------------------------------------ reporter
  // Reports at most one violation per (op, kind) and level; in "input" mode problems are only collected.
  struct Rep
  {
    vh::Ctx& c; std::string where; bool input_mode = false;
    std::set<std::string> seen; std::vector<std::string> problems;
    Rep(vh::Ctx& ctx, const std::string& w, bool inp = false) : c(ctx), where(w), input_mode(inp) {}
    void bad(const std::string& op, const std::string& kind, vh::J d)
    {
      if(input_mode) { if(problems.size() < 8) problems.push_back(kind + " " + d.str()); return; }
      if(!seen.insert(op + "|" + kind).second) return;
      c.viol(op, kind, d.kv("where", where).str());
    }
    bool ok() const { return problems.empty(); }
  };

  // ------------------------------------------------------------------------------------------ single-mesh validity
  struct MeshInfo
  {
    std::vector<std::uint8_t> facet_cells;   // number of adjacent cells per facet entity
    bool unique_ok = true;
  };

  // checks: index ranges and bounds, no repeated vertex in an entity, every listed sub-entity is the local face of the
  // documented table (as vertex set), entities unique as vertex sets, every facet has 1 or 2 adjacent cells (recount
  // via sorted vertex tuples of the cells' local facets), no orphan entities (each sub-entity belongs to some cell)
  inline void check_mesh(Rep& r, const ShapeTab& t, const MeshSnap& m, const std::string& op, MeshInfo& info)
  {
    const int dim = t.dim;
    // sizes / ranges
    for(int d = 1; d <= dim; ++d) for(int e = 0; e < d; ++e)
    {
      const std::vector<Idx>& a = m.idx[d][e];
      if(a.size() != std::size_t(m.n[d]) * std::size_t(t.nf(d, e)))
      { r.bad(op, "index-set-size", vh::J().kv("d", d).kv("e", e).kv("size", (unsigned long)a.size()).kv("entities", (unsigned long)m.n[d])); return; }
      if(m.bound[d][e] != m.n[e])
        r.bad(op, "index-bound", vh::J().kv("d", d).kv("e", e).kv("bound", (unsigned long)m.bound[d][e]).kv("entities", (unsigned long)m.n[e]));
      for(std::size_t k = 0; k < a.size(); ++k) if(a[k] >= m.n[e])
      { r.bad(op, "index-out-of-range", vh::J().kv("d", d).kv("e", e).kv("entity", (unsigned long)(k / std::size_t(t.nf(d, e)))).kv("value", (unsigned long)a[k]).kv("bound", (unsigned long)m.n[e])); return; }
    }
    if(m.vtx.size() != std::size_t(m.n[0]) * std::size_t(dim)) { r.bad(op, "vertex-set-size", vh::J().kv("size", (unsigned long)m.vtx.size())); return; }
    // repeated vertices inside an entity
    for(int d = 1; d <= dim; ++d)
    {
      const int nv = t.nv(d);
      for(Idx i = 0; i < m.n[d]; ++i)
      {
        const Idx* v = &m.idx[d][0][i * Idx(nv)];
        for(int a = 0; a < nv; ++a) for(int b = a + 1; b < nv; ++b) if(v[a] == v[b])
        { r.bad(op, "degenerate-entity", vh::J().kv("d", d).kv("entity", (unsigned long)i).kv("vertex", (unsigned long)v[a])); a = nv; break; }
      }
    }
    // listed sub-entity == local face (vertex sets)
    for(int d = 2; d <= dim; ++d) for(int e = 1; e < d; ++e)
    {
      const int nfc = t.nf(d, e), nve = t.nv(e), nvd = t.nv(d);
      bool reported = false;
      for(Idx i = 0; i < m.n[d] && !reported; ++i)
      {
        const Idx* cv = &m.idx[d][0][i * Idx(nvd)];
        for(int j = 0; j < nfc; ++j)
        {
          const Idx sub = m.idx[d][e][i * Idx(nfc) + Idx(j)];
          Idx want[8], got[8];
          const int* lf = t.face(d, e, j);
          for(int k = 0; k < nve; ++k) { want[k] = cv[lf[k]]; got[k] = m.idx[e][0][sub * Idx(nve) + Idx(k)]; }
          if(!(make_key(want, nve) == make_key(got, nve)))
          {
            r.bad(op, "subentity-not-local-face", vh::J().kv("d", d).kv("e", e).kv("entity", (unsigned long)i).kv("local", j)
              .kv("listed", (unsigned long)sub).kv("listed_vertices", key_str(make_key(got, nve))).kv("local_face_vertices", key_str(make_key(want, nve))));
            reported = true; break;
          }
        }
      }
    }
    // uniqueness of entities as vertex sets; usage of sub-entities
    info.unique_ok = true;
    for(int d = 1; d <= dim; ++d)
    {
      KeyMap<Idx> seen; seen.reserve(std::size_t(m.n[d]) * 2);
      for(Idx i = 0; i < m.n[d]; ++i)
      {
        auto ins = seen.emplace(make_key(&m.idx[d][0][i * Idx(t.nv(d))], t.nv(d)), i);
        if(!ins.second)
        { info.unique_ok = false; r.bad(op, "duplicate-entity", vh::J().kv("d", d).kv("entity", (unsigned long)i).kv("same_as", (unsigned long)ins.first->second).kv("vertices", key_str(ins.first->first))); break; }
      }
    }
    for(int e = 0; e < dim; ++e)
    {
      std::vector<char> used(m.n[e], 0);
      for(Idx x : m.idx[dim][e]) used[x] = 1;
      for(Idx i = 0; i < m.n[e]; ++i) if(!used[i]) { r.bad(op, "orphan-entity", vh::J().kv("d", e).kv("entity", (unsigned long)i)); break; }
    }
    // facet adjacency recount
    {
      const int fd = dim - 1, nfc = t.nf(dim, fd), nvf = t.nv(fd), nvc = t.nv(dim);
      KeyMap<std::uint32_t> cnt; cnt.reserve(std::size_t(m.n[fd]) * 2);
      for(Idx i = 0; i < m.n[dim]; ++i)
      {
        const Idx* cv = &m.idx[dim][0][i * Idx(nvc)];
        for(int j = 0; j < nfc; ++j)
        {
          Idx w[8]; const int* lf = t.face(dim, fd, j);
          for(int k = 0; k < nvf; ++k) w[k] = cv[lf[k]];
          ++cnt[make_key(w, nvf)];
        }
      }
      info.facet_cells.assign(m.n[fd], 0);
      for(Idx f = 0; f < m.n[fd]; ++f)
      {
        auto it = cnt.find(make_key(&m.idx[fd][0][f * Idx(nvf)], nvf));
        const std::uint32_t k = it == cnt.end() ? 0u : it->second;
        info.facet_cells[f] = std::uint8_t(std::min<std::uint32_t>(k, 255u));
        if(k < 1 || k > 2)
          r.bad(op, "facet-adjacency", vh::J().kv("facet", (unsigned long)f).kv("adjacent_cells", (unsigned long)k).kv("vertices", key_str(make_key(&m.idx[fd][0][f * Idx(nvf)], nvf))));
      }
      if(cnt.size() != std::size_t(m.n[fd]) && info.unique_ok)
        r.bad(op, "facet-count-mismatch", vh::J().kv("facets_of_cells", (unsigned long)cnt.size()).kv("facet_entities", (unsigned long)m.n[fd]));
    }
  }

  // targets of a part in range (input validity of a part / sanity of a refined part)
  inline bool part_ranges_ok(const ShapeTab& t, const MeshSnap& m, const PartSnap& p, std::string& why)
  {
    for(int d = 0; d <= t.dim; ++d)
    {
      if(p.trg[d].size() != std::size_t(p.n[d])) { why = "target set size != num_entities, dim " + std::to_string(d); return false; }
      for(Idx x : p.trg[d]) if(x >= m.n[d]) { why = "target " + std::to_string(x) + " out of range in dim " + std::to_string(d); return false; }
    }
    if(p.topo) for(int d = 1; d <= t.dim; ++d) for(int e = 0; e < d; ++e)
    {
      if(p.idx[d][e].size() != std::size_t(p.n[d]) * std::size_t(t.nf(d, e))) { why = "part index set size"; return false; }
      for(Idx x : p.idx[d][e]) if(x >= p.n[e]) { why = "part index out of range"; return false; }
    }
    return true;
  }
  // topology of the part is consistent with its target mapping: the targets of the part-vertices of part entity (d,i)
  // are the vertices of the parent entity trg[d][i]
  inline bool part_topo_consistent(const ShapeTab& t, const MeshSnap& m, const PartSnap& p, std::string& why)
  {
    if(!p.topo) return true;
    for(int d = 1; d <= t.dim; ++d)
    {
      const int nv = t.nv(d);
      for(Idx i = 0; i < p.n[d]; ++i)
      {
        Idx a[8];
        for(int k = 0; k < nv; ++k) a[k] = p.trg[0][p.idx[d][0][i * Idx(nv) + Idx(k)]];
        if(!(make_key(a, nv) == make_key(&m.idx[d][0][p.trg[d][i] * Idx(nv)], nv)))
        { why = "dim " + std::to_string(d) + " part entity " + std::to_string(i) + " -> parent " + std::to_string(p.trg[d][i]) + ": mapped vertices " + key_str(make_key(a, nv)); return false; }
      }
    }
    return true;
  }

  // BoundaryFactory output == facets with exactly one adjacent cell + their closure, each once
  inline void check_boundary(Rep& r, const ShapeTab& t, const MeshSnap& m, const MeshInfo& info, const std::string& op)
  {
    if(!m.have_bnd) return;
    const int dim = t.dim, fd = dim - 1;
    std::vector<std::vector<char>> want(std::size_t(dim) + 1);
    for(int d = 0; d <= dim; ++d) want[std::size_t(d)].assign(m.n[d], 0);
    for(Idx f = 0; f < m.n[fd]; ++f) if(info.facet_cells[f] == 1)
    {
      want[std::size_t(fd)][f] = 1;
      for(int k = 0; k < t.nv(fd); ++k) want[0][m.idx[fd][0][f * Idx(t.nv(fd)) + Idx(k)]] = 1;
      if(fd == 2) for(int k = 0; k < t.nf(2, 1); ++k) want[1][m.idx[2][1][f * Idx(t.nf(2, 1)) + Idx(k)]] = 1;
    }
    for(int d = 0; d <= dim; ++d)
    {
      std::vector<char> got(m.n[d], 0);
      if(m.bnd.trg[d].size() != std::size_t(m.bnd.n[d])) { r.bad(op, "boundary-size", vh::J().kv("d", d)); continue; }
      bool stop = false;
      for(Idx x : m.bnd.trg[d])
      {
        if(x >= m.n[d]) { r.bad(op, "boundary-target-range", vh::J().kv("d", d).kv("target", (unsigned long)x)); stop = true; break; }
        if(got[x]) { r.bad(op, "boundary-duplicate", vh::J().kv("d", d).kv("target", (unsigned long)x)); stop = true; break; }
        got[x] = 1;
      }
      if(stop) continue;
      for(Idx i = 0; i < m.n[d]; ++i) if(got[i] != want[std::size_t(d)][i])
      {
        r.bad(op, got[i] ? "boundary-extra-entity" : "boundary-missing-entity", vh::J().kv("d", d).kv("entity", (unsigned long)i)
          .kv("adjacent_cells", d == fd ? int(info.facet_cells[i]) : -1));
        break;
      }
    }
  }

  // ------------------------------------------------------------------------------------------ geometry helpers
  // Jacobian determinant of the (multi)linear reference map of a cell at reference point xi in [-1,1]^dim
  // (hypercube) resp. the constant determinant (simplex)
  inline LD jac_det(const ShapeTab& t, const MeshSnap& m, Idx cell, const LD* xi)
  {
    const int dim = t.dim, nv = t.nv(dim);
    const Idx* cv = &m.idx[dim][0][cell * Idx(nv)];
    LD J[3][3] = {{0, 0, 0}, {0, 0, 0}, {0, 0, 0}};
    if(t.simplex)
    {
      for(int a = 0; a < dim; ++a) for(int k = 0; k < dim; ++k)
        J[k][a] = (LD)m.vtx[cv[a + 1] * Idx(dim) + Idx(k)] - (LD)m.vtx[cv[0] * Idx(dim) + Idx(k)];
    }
    else
    {
      for(int v = 0; v < nv; ++v)
      {
        LD s[3] = {(v & 1) ? 1.0L : -1.0L, ((v >> 1) & 1) ? 1.0L : -1.0L, ((v >> 2) & 1) ? 1.0L : -1.0L};
        for(int a = 0; a < dim; ++a)
        {
          LD dphi = s[a] / LD(nv);
          for(int b = 0; b < dim; ++b) if(b != a) dphi *= (1 + s[b] * xi[b]);
          for(int k = 0; k < dim; ++k) J[k][a] += (LD)m.vtx[cv[v] * Idx(dim) + Idx(k)] * dphi;
        }
      }
    }
    if(dim == 2) return J[0][0] * J[1][1] - J[0][1] * J[1][0];
    return J[0][0] * (J[1][1] * J[2][2] - J[1][2] * J[2][1]) - J[0][1] * (J[1][0] * J[2][2] - J[1][2] * J[2][0]) + J[0][2] * (J[1][0] * J[2][1] - J[1][1] * J[2][0]);
  }
  inline LD cell_diam(const ShapeTab& t, const MeshSnap& m, Idx cell)
  {
    const int dim = t.dim, nv = t.nv(dim); const Idx* cv = &m.idx[dim][0][cell * Idx(nv)];
    LD h = 0;
    for(int a = 1; a < nv; ++a) { LD s = 0; for(int k = 0; k < dim; ++k) { LD d = (LD)m.vtx[cv[a] * Idx(dim) + Idx(k)] - (LD)m.vtx[cv[0] * Idx(dim) + Idx(k)]; s += d * d; } h = std::max(h, std::sqrt(s)); }
    return h;
  }

  // ------------------------------------------------------------------------------------------ refinement relation
  struct Carrier { std::uint8_t s; Idx p; };   // coarse entity (dimension s, index p) carrying a fine entity

  struct RefineOpts
  {
    bool coords = true;        // AdaptMode::none: all new vertices are midpoints / centres
    double coord_ulps = 16;    // tolerance of the centre oracle in units of eps * max|coordinate| (dual adaption re-averages: 64)
    bool geometry = true;      // volume + orientation oracles
    std::vector<char> moved;   // chart mode: fine vertices that a chart may have moved (excluded from the coordinate oracle)
    std::set<std::string> skip_parts;     // part keys whose coarse version was not a valid input
    std::set<std::string> topo_skip;      // part keys whose coarse topology was not consistent with the targets
  };

  // origin of fine vertex v in the coarse mesh according to the documented block numbering
  inline Carrier vertex_origin(const ShapeTab& t, const MeshSnap& c, Idx v)
  {
    Idx off = 0;
    for(int s = 0; s <= t.dim; ++s)
    {
      if(t.cc(s, 0) == 0) continue;
      if(v < off + c.n[s]) return Carrier{std::uint8_t(s), v - off};
      off += c.n[s];
    }
    return Carrier{255, NONE};
  }

  inline void check_refine(Rep& r, const ShapeTab& t, const MeshSnap& c, const MeshSnap& f, const RefineOpts& o, const std::string& op)
  {
    const int dim = t.dim;
    // (a) entity counts
    bool counts_ok = true;
    for(int d = 0; d <= dim; ++d)
    {
      Idx want = 0; for(int s = d; s <= dim; ++s) want += Idx(t.cc(s, d)) * c.n[s];
      if(f.n[d] != want) { counts_ok = false; r.bad(op, "entity-count", vh::J().kv("d", d).kv("got", (unsigned long)f.n[d]).kv("expected", (unsigned long)want)); }
    }
    // (c) Euler characteristic
    {
      long long ec = 0, ef = 0;
      for(int d = 0; d <= dim; ++d) { ec += (d % 2 ? -1 : 1) * (long long)c.n[d]; ef += (d % 2 ? -1 : 1) * (long long)f.n[d]; }
      if(ec != ef) r.bad(op, "euler-characteristic", vh::J().kv("coarse", ec).kv("fine", ef));
    }
    if(!counts_ok) return;
    // (b) vertex numbering and coordinates
    if(o.coords)
    {
      bool rep_copy = false, rep_mid = false;
      for(Idx v = 0; v < f.n[0]; ++v)
      {
        if(!o.moved.empty() && o.moved[v]) continue;
        Carrier g = vertex_origin(t, c, v);
        Idx tmp[1]; const Idx* cv = c.ent(t, g.s, g.p, tmp); const int nv = t.nv(g.s);
        for(int k = 0; k < dim; ++k)
        {
          const double got = f.vtx[v * Idx(dim) + Idx(k)];
          if(g.s == 0)
          {
            if(!(got == c.vtx[g.p * Idx(dim) + Idx(k)]) && !rep_copy)
            { rep_copy = true; r.bad(op, "coarse-vertex-changed", vh::J().kv("vertex", (unsigned long)v).kv("coord", k).kv("got", got).kv("expected", c.vtx[g.p * Idx(dim) + Idx(k)])); }
            continue;
          }
          LD sum = 0, mx = 0; for(int a = 0; a < nv; ++a) { LD x = (LD)c.vtx[cv[a] * Idx(dim) + Idx(k)]; sum += x; mx = std::max(mx, std::fabs(x)); }
          const LD ref = sum / LD(nv), tol = LD(o.coord_ulps) * 2.3e-16L * mx + 1e-300L;
          if(!(std::fabs((LD)got - ref) <= tol) && !rep_mid)
          { rep_mid = true; r.bad(op, "new-vertex-not-centre", vh::J().kv("vertex", (unsigned long)v).kv("parent_dim", int(g.s)).kv("parent", (unsigned long)g.p).kv("coord", k).kv("got", got).kv("expected", ref).kv("tol", tol)); }
        }
      }
    }
    // (h) carriers: every fine entity lies in exactly one coarse entity; every coarse entity has the documented number of children
    KeyMap<Carrier> cmap; { std::size_t tot = 0; for(int d = 0; d <= dim; ++d) tot += std::size_t(c.n[d]); cmap.reserve(tot * 2); }
    for(int d = 0; d <= dim; ++d) for(Idx i = 0; i < c.n[d]; ++i) { Idx tmp[1]; cmap.emplace(make_key(c.ent(t, d, i, tmp), t.nv(d)), Carrier{std::uint8_t(d), i}); }
    std::vector<Carrier> car[4];
    bool carriers_ok = true;
    for(int d = 0; d <= dim; ++d)
    {
      car[d].resize(f.n[d]);
      std::vector<std::uint8_t> cnt[4]; for(int s = d; s <= dim; ++s) cnt[s].assign(c.n[s], 0);
      bool reported = false;
      for(Idx i = 0; i < f.n[d]; ++i)
      {
        Idx tmp[1]; const Idx* fv = f.ent(t, d, i, tmp); const int nv = t.nv(d);
        Idx u[64]; int nu = 0; bool bad = false;
        for(int a = 0; a < nv; ++a)
        {
          if(fv[a] >= f.n[0]) { bad = true; break; }
          Carrier g = vertex_origin(t, c, fv[a]);
          Idx t2[1]; const Idx* cv = c.ent(t, g.s, g.p, t2);
          for(int b = 0; b < t.nv(g.s); ++b) u[nu++] = cv[b];
        }
        Key k; int n = bad ? 99 : make_set_key(k, u, nu);
        auto it = n <= 8 ? cmap.find(k) : cmap.end();
        if(it == cmap.end() || int(it->second.s) < d)
        {
          carriers_ok = false; car[d][i] = Carrier{255, NONE};
          if(!reported) { reported = true; r.bad(op, "fine-entity-without-parent", vh::J().kv("d", d).kv("entity", (unsigned long)i).kv("coarse_vertex_hull", n <= 8 ? key_str(k) : std::string("(more than 8 vertices)"))); }
          continue;
        }
        car[d][i] = it->second;
        if(cnt[it->second.s][it->second.p] < 255) ++cnt[it->second.s][it->second.p];
      }
      for(int s = d; s <= dim && !reported; ++s) for(Idx p = 0; p < c.n[s]; ++p) if(int(cnt[s][p]) != t.cc(s, d))
      {
        carriers_ok = false; reported = true;
        r.bad(op, "child-count", vh::J().kv("parent_dim", s).kv("parent", (unsigned long)p).kv("child_dim", d).kv("got", int(cnt[s][p])).kv("expected", t.cc(s, d)));
        break;
      }
    }
    // (d) total volume, (e) orientation
    if(o.geometry)
    {
      if(c.have_vol && f.have_vol)
      {
        const LD tol = 1e-11L * std::max(c.volabs, f.volabs) + 1e-300L;
        if(!(std::fabs(c.vol - f.vol) <= tol)) r.bad(op, "total-volume", vh::J().kv("coarse", c.vol).kv("fine", f.vol).kv("tol", tol));
      }
      if(carriers_ok)
      {
        // a coarse cell is "safely positive" if its Jacobian determinant is positive at the centre and at the centres of
        // its 2^dim reference sub-cubes (these are the centres of the children); then every child must be positive at its centre
        std::vector<signed char> pos(c.n[dim], 0);
        for(Idx i = 0; i < c.n[dim]; ++i)
        {
          const LD h = cell_diam(t, c, i); LD sc = 1; for(int k = 0; k < dim; ++k) sc *= h;
          LD mn = 1e300L;
          LD x0[3] = {0, 0, 0}; mn = std::min(mn, jac_det(t, c, i, x0));
          if(!t.simplex) for(int q = 0; q < (1 << dim); ++q) { LD x[3] = {(q & 1) ? 0.5L : -0.5L, (q & 2) ? 0.5L : -0.5L, (q & 4) ? 0.5L : -0.5L}; mn = std::min(mn, jac_det(t, c, i, x)); }
          pos[i] = (mn > 1e-9L * sc) ? 1 : 0;
        }
        for(Idx i = 0; i < f.n[dim]; ++i)
        {
          const Carrier g = car[dim][i];
          if(int(g.s) != dim || !pos[g.p]) continue;
          LD x0[3] = {0, 0, 0}; const LD det = jac_det(t, f, i, x0);
          if(!(det > 0)) { r.bad(op, "orientation-not-preserved", vh::J().kv("fine_cell", (unsigned long)i).kv("coarse_cell", (unsigned long)g.p).kv("fine_jacobian_det", det)); break; }
        }
      }
    }
    // (i) mesh parts follow their parents
    if(!carriers_ok) return;
    for(const PartSnap& fp : f.parts)
    {
      const std::string pk = fp.key();
      if(o.skip_parts.count(pk)) continue;
      const PartSnap* cp = nullptr; for(const PartSnap& x : c.parts) if(x.key() == pk) cp = &x;
      const std::string pop = op + (fp.kind == 0 ? ".meshpart" : fp.kind == 1 ? ".halo" : ".patch");
      if(cp == nullptr) { r.bad(pop, "part-appeared", vh::J().kv("part", pk)); continue; }
      if(cp->present != fp.present) { r.bad(pop, "part-presence-changed", vh::J().kv("part", pk)); continue; }
      if(!fp.present) continue;
      if(cp->topo != fp.topo) r.bad(pop, "part-topology-lost", vh::J().kv("part", pk).kv("coarse_has_topology", cp->topo).kv("fine_has_topology", fp.topo));
      std::string why;
      if(!part_ranges_ok(t, f, fp, why)) { r.bad(pop, "part-target-range", vh::J().kv("part", pk).kv("why", why)); continue; }
      bool pc_ok = true;
      for(int d = 0; d <= dim; ++d)
      {
        Idx want = 0; for(int s = d; s <= dim; ++s) want += Idx(t.cc(s, d)) * cp->n[s];
        if(fp.n[d] != want) { pc_ok = false; r.bad(pop, "part-entity-count", vh::J().kv("part", pk).kv("d", d).kv("got", (unsigned long)fp.n[d]).kv("expected", (unsigned long)want)); }
      }
      // weak form: the carrier of every refined target is a target of the coarse part (same dimension as the carrier)
      std::vector<std::vector<char>> in_part(std::size_t(dim) + 1);
      for(int s = 0; s <= dim; ++s) { in_part[std::size_t(s)].assign(c.n[s], 0); for(Idx x : cp->trg[s]) in_part[std::size_t(s)][x] = 1; }
      for(int d = 0; d <= dim; ++d)
      {
        bool rep_w = false, rep_s = false, rep_d = false;
        // block structure of the refined part numbering: [children of part d-entities | of (d+1)-entities | ...]
        Idx off[5]; { Idx a = 0; for(int s = d; s <= dim; ++s) { off[s] = a; a += Idx(t.cc(s, d)) * cp->n[s]; } off[dim + 1] = a; }
        for(Idx i = 0; i < fp.n[d]; ++i)
        {
          const Carrier g = car[d][fp.trg[d][i]];
          if(!in_part[g.s][g.p])
          {
            if(!rep_w) { rep_w = true; r.bad(pop, "part-entity-not-child-of-part", vh::J().kv("part", pk).kv("d", d).kv("part_entity", (unsigned long)i).kv("target", (unsigned long)fp.trg[d][i])
              .kv("carrier_dim", int(g.s)).kv("carrier", (unsigned long)g.p)); }
            continue;
          }
          if(!pc_ok) continue;
          // strict form: the parent slot this refined entity belongs to
          int s = d; while(s < dim && i >= off[s + 1]) ++s;
          const Idx q = (i - off[s]) / Idx(t.cc(s, d));
          if(!(int(g.s) == s && g.p == cp->trg[s][q]) && !rep_s)
          {
            rep_s = true; r.bad(pop, "part-child-of-wrong-parent", vh::J().kv("part", pk).kv("d", d).kv("part_entity", (unsigned long)i).kv("target", (unsigned long)fp.trg[d][i])
              .kv("carrier_dim", int(g.s)).kv("carrier", (unsigned long)g.p).kv("parent_dim", s).kv("parent_part_entity", (unsigned long)q).kv("parent_target", (unsigned long)cp->trg[s][q]));
          }
          // the children of one parent slot are pairwise distinct
          const Idx first = off[s] + q * Idx(t.cc(s, d));
          for(Idx j = first; j < i && !rep_d; ++j) if(fp.trg[d][j] == fp.trg[d][i])
          { rep_d = true; r.bad(pop, "part-child-listed-twice", vh::J().kv("part", pk).kv("d", d).kv("part_entity", (unsigned long)i).kv("same_as", (unsigned long)j).kv("target", (unsigned long)fp.trg[d][i])); }
        }
      }
      if(fp.topo && cp->topo && !o.topo_skip.count(pk))
      {
        if(!part_topo_consistent(t, f, fp, why)) r.bad(pop, "part-topology-inconsistent-with-targets", vh::J().kv("part", pk).kv("why", why));
      }
    }
    for(const PartSnap& cp : c.parts)
    {
      bool found = false; for(const PartSnap& x : f.parts) if(x.key() == cp.key()) found = true;
      if(!found) r.bad(op + ".meshpart", "part-lost", vh::J().kv("part", cp.key()));
    }
  }
} // namespace c10
