// C10 utility families, shape TU: tria
#include <c10/c10x_feat.hpp>
void c10x_meshops_tria(vh::Ctx& c) { c10::run_meshops<FEAT::Shape::Simplex<2>>(c); }
void c10x_partops_tria(vh::Ctx& c) { c10::run_partops<FEAT::Shape::Simplex<2>>(c); }
