// c10x_feat.hpp -- FEAT side of the C10 utility families (unit c10x): drives the public entry points of the anchored
// files that the refinement families do not reach (facet neighbours, clone, transform, reorient_boundary_facets,
// mesh permutations with colouring / layering, IndexCalculator, deduct_target_sets, MaskedBoundaryFactory, attributes,
// node clone / remove / rename).  Oracles: c10x_core.hpp / c10_core.hpp on snapshots.
#pragma once
#include <c10/c10_feat.hpp>
#include <c10/c10x_core.hpp>
#include <kernel/geometry/index_calculator.hpp>
#include <kernel/geometry/attribute_set.hpp>
#include <kernel/geometry/atlas/circle.hpp>
#include <kernel/geometry/atlas/sphere.hpp>

namespace c10
{
  // ------------------------------------------------------------------------------------------ generated mesh (as run_gen)
  template<typename Shape_>
  std::unique_ptr<typename Ty<Shape_>::Mesh> gen_mesh(vh::Ctx& c, vm::MeshSpec<Shape_>& ms, int& route, const char* family)
  {
    vh::Rng& r = c.rng; double h = 1;
    c.tag(std::string("shape:") + ShapeSel<Shape_>::tab().name());
    ms = gen_base<Shape_>(c, h);
    const bool corpus = (c.k / 4) < 3;
    if(corpus) c.tag("mesh:edge_corpus");
    if(!corpus || c.k % 8 >= 4)
    {
      if(r.coin(0.5)) vm::distort_interior(ms, r, h, r.pick<double>({0.05, 0.15, 0.25}));
      if(r.coin(0.6)) vm::reorient_cells(ms, r);
      if(r.coin(0.6)) vm::permute_vertices(ms, r);
      if(r.coin(0.6)) vm::permute_cells(ms, r);
      if(r.coin(0.4)) vm::affine_map(ms, r);
      if(r.coin(0.12)) flip_cells(ms, r, r.coin() ? 1.0 : 0.3);
    }
    for(auto& tg : ms.tags) c.tag(tg);
    route = int(r.below(3));
    c.tag(route == 0 ? "topology:deducted" : route == 1 ? "topology:explicit" : "topology:explicit_random");
    c.desc = vh::J().kv("family", family).raw("mesh", ms.describe()).raw("variant", vh::jarr(ms.tags))
      .kv("topology", route == 0 ? "deduct_topology_from_top" : route == 1 ? "explicit" : "explicit, random edge/face numbering and orientation").str();
    if(route == 0) return vm::build<Shape_>(ms);
    FullFactory<Shape_> ff(ms, route == 2 ? &r : nullptr);
    return ff.make_unique();
  }
  // snapshot + input validation; false: not judged
  template<typename Shape_>
  bool snap_valid(vh::Ctx& c, const typename Ty<Shape_>::Mesh& mesh, MeshSnap& s, MeshInfo& mi)
  {
    snap_mesh<Shape_>(mesh, s, false); snap_volume<Shape_>(s);
    Rep in(c, "input", true); check_mesh(in, ShapeSel<Shape_>::tab(), s, "input", mi);
    if(in.ok()) return true;
    c.count("input_not_valid_conforming_mesh"); c.tag("input_invalid"); c.trivial = true;
    c.set_op("input"); c.inconclusive("input mesh is not a valid conforming mesh (judged by family gen): " + in.problems.front());
    return false;
  }

  // ------------------------------------------------------------------------------------------ snapshots
  template<typename Shape_>
  void snap_neighbors(const typename Ty<Shape_>::Mesh& m, std::vector<Idx>& out)
  {
    const auto& nb = m.get_neighbors();
    const int ni = nb.get_num_indices(); const Index ne = nb.get_num_entities();
    out.resize(std::size_t(ne) * std::size_t(ni));
    for(Index i = 0; i < ne; ++i) for(int j = 0; j < ni; ++j) out[std::size_t(i) * std::size_t(ni) + std::size_t(j)] = (nb(i, j) == ~Index(0)) ? NONE : Idx(nb(i, j));
  }
  template<typename Shape_>
  void snap_perm(const typename Ty<Shape_>::Mesh& m, PermSnap& ps)
  {
    constexpr int dim = Shape_::dimension;
    const auto& mp = m.get_mesh_permutation();
    for(int d = 0; d <= dim; ++d)
    {
      const Adjacency::Permutation& p = mp.get_perm(d); const Adjacency::Permutation& q = mp.get_inv_perm(d);
      ps.p[d].clear(); ps.q[d].clear();
      if(!p.empty()) { const Index* a = p.get_perm_pos(); for(Index k = 0; k < p.size(); ++k) ps.p[d].push_back(Idx(a[k])); }
      if(!q.empty()) { const Index* a = q.get_perm_pos(); for(Index k = 0; k < q.size(); ++k) ps.q[d].push_back(Idx(a[k])); }
    }
    ps.coloring.clear(); for(Index x : mp.get_element_coloring()) ps.coloring.push_back(Idx(x));
    ps.layering.clear(); for(Index x : mp.get_element_layering()) ps.layering.push_back(Idx(x));
    Index ne[4] = {0, 0, 0, 0}; for(int d = 0; d <= dim; ++d) ne[d] = m.get_num_entities(d);
    ps.validate_sizes = mp.validate_sizes(ne);
    ps.is_permuted = m.is_permuted();
    ps.val_col = m.validate_element_coloring() ? 1 : 0;
    ps.val_lay = m.validate_element_layering() ? 1 : 0;
  }
  inline bool same_topology(const ShapeTab& t, const MeshSnap& a, const MeshSnap& b, std::string& why)
  {
    for(int d = 0; d <= t.dim; ++d) if(a.n[d] != b.n[d]) { why = "entity count, dim " + std::to_string(d); return false; }
    for(int d = 1; d <= t.dim; ++d) for(int e = 0; e < d; ++e)
    {
      if(a.idx[d][e] != b.idx[d][e]) { why = "index set <" + std::to_string(d) + "," + std::to_string(e) + ">"; return false; }
      if(a.bound[d][e] != b.bound[d][e]) { why = "index bound <" + std::to_string(d) + "," + std::to_string(e) + ">"; return false; }
    }
    return true;
  }
  inline bool same_vertices(const MeshSnap& a, const MeshSnap& b)
  {
    if(a.vtx.size() != b.vtx.size()) return false;
    for(std::size_t i = 0; i < a.vtx.size(); ++i) if(!(a.vtx[i] == b.vtx[i])) return false;
    return true;
  }
  inline bool same_part(const ShapeTab& t, const PartSnap& a, const PartSnap& b, std::string& why)
  {
    if(a.present != b.present) { why = "presence"; return false; }
    if(!a.present) return true;
    if(a.topo != b.topo) { why = "has_topology"; return false; }
    for(int d = 0; d <= t.dim; ++d)
    {
      if(a.n[d] != b.n[d]) { why = "num_entities, dim " + std::to_string(d); return false; }
      if(a.trg[d] != b.trg[d]) { why = "target set, dim " + std::to_string(d); return false; }
    }
    if(a.topo) for(int d = 1; d <= t.dim; ++d) for(int e = 0; e < d; ++e) if(a.idx[d][e] != b.idx[d][e]) { why = "part index set <" + std::to_string(d) + "," + std::to_string(e) + ">"; return false; }
    return true;
  }
  template<typename Part_>
  void snap_attr(const Part_* p, const std::string& name, AttrSnap& a)
  {
    a = AttrSnap();
    const auto* at = p ? p->find_attribute(name) : nullptr;
    if(!at) return;
    a.present = true; a.dim = at->get_dimension(); a.nvals = Idx(at->get_num_values());
    a.v.resize(std::size_t(a.nvals) * std::size_t(a.dim));
    for(Index i = 0; i < at->get_num_values(); ++i) for(int j = 0; j < a.dim; ++j) a.v[std::size_t(i) * std::size_t(a.dim) + std::size_t(j)] = (*at)(i, j);
  }

  // ------------------------------------------------------------------------------------------ monitors on FEAT calls
  template<typename Shape_>
  void mon_neighbors(vh::Ctx& c, const typename Ty<Shape_>::Mesh& mesh, const MeshSnap& s, const std::string& where, const std::string& op)
  {
    std::vector<Idx> nb; snap_neighbors<Shape_>(mesh, nb);
    Rep r(c, where); check_neighbors(r, ShapeSel<Shape_>::tab(), s, nb, op); c.event();
  }

  // rigid transformation: topology untouched, the vertex at the origin lands on the offset, all edge lengths and the
  // distances of random vertex pairs unchanged, signed total volume unchanged
  template<typename Shape_>
  void mon_transform(vh::Ctx& c, typename Ty<Shape_>::Mesh& mesh, const MeshSnap& before)
  {
    constexpr int dim = Shape_::dimension; const ShapeTab t = ShapeSel<Shape_>::tab(); vh::Rng& r = c.rng;
    const std::string op = "mesh.transform"; c.set_op(op);
    typename Ty<Shape_>::Mesh::VertexType org, ang, off;
    const Idx v0 = Idx(r.below(before.n[0]));
    LD scale = 1;
    for(int k = 0; k < dim; ++k) { org[k] = before.vtx[v0 * Idx(dim) + Idx(k)]; ang[k] = r.real(-3.2, 3.2); off[k] = r.coin(0.2) ? 0.0 : r.real(-3.0, 3.0); scale = std::max<LD>(scale, std::fabs((LD)off[k])); }
    if(r.coin(0.15)) for(int k = 0; k < dim; ++k) ang[k] = 0.0;
    for(double x : before.vtx) scale = std::max<LD>(scale, std::fabs((LD)x));
    mesh.transform(org, ang, off); c.event();
    MeshSnap a; snap_mesh<Shape_>(mesh, a, false); snap_volume<Shape_>(a);
    Rep rr(c, "after transform"); std::string why;
    if(!same_topology(t, before, a, why)) { rr.bad(op, "topology-changed", vh::J().kv("what", why)); return; }
    const LD tol = 1e-12L * 4 * scale;
    auto dist = [&](const MeshSnap& m, Idx x, Idx y) { LD s2 = 0; for(int k = 0; k < dim; ++k) { LD d = (LD)m.vtx[x * Idx(dim) + Idx(k)] - (LD)m.vtx[y * Idx(dim) + Idx(k)]; s2 += d * d; } return std::sqrt(s2); };
    for(int k = 0; k < dim; ++k) if(!(std::fabs((LD)a.vtx[v0 * Idx(dim) + Idx(k)] - (LD)off[k]) <= tol))
    { rr.bad(op, "origin-not-mapped-to-offset", vh::J().kv("vertex", (unsigned long)v0).kv("coord", k).kv("got", a.vtx[v0 * Idx(dim) + Idx(k)]).kv("expected", double(off[k]))); break; }
    for(Idx e = 0; e < before.n[1]; ++e)
    {
      const Idx x = before.idx[1][0][2 * e], y = before.idx[1][0][2 * e + 1];
      if(!(std::fabs(dist(before, x, y) - dist(a, x, y)) <= tol)) { rr.bad(op, "edge-length-changed", vh::J().kv("edge", (unsigned long)e).kv("before", dist(before, x, y)).kv("after", dist(a, x, y)).kv("tol", tol)); break; }
    }
    for(int q = 0; q < 64 && before.n[0] > 1; ++q)
    {
      const Idx x = Idx(r.below(before.n[0])), y = Idx(r.below(before.n[0]));
      if(!(std::fabs(dist(before, x, y) - dist(a, x, y)) <= tol)) { rr.bad(op, "vertex-distance-changed", vh::J().kv("a", (unsigned long)x).kv("b", (unsigned long)y).kv("before", dist(before, x, y)).kv("after", dist(a, x, y)).kv("tol", tol)); break; }
    }
    const LD vtol = 1e-9L * std::max(before.volabs, a.volabs) * scale;
    if(!(std::fabs(before.vol - a.vol) <= vtol + 1e-300L)) rr.bad(op, "volume-changed", vh::J().kv("before", before.vol).kv("after", a.vol).kv("tol", vtol));
    c.event();
  }

  // reorient_boundary_facets: only the index sets of BOUNDARY facets may change (vertex sets stay), the mesh stays a
  // consistent conforming mesh, a second call changes nothing, and the boundary facets are consistently oriented: the
  // sign of (facet normal by vertex order) . (direction to the other vertices of the adjacent cell), multiplied by
  // the sign of the cell's Jacobian determinant, is the same for every boundary facet
  template<typename Shape_>
  void mon_reorient(vh::Ctx& c, typename Ty<Shape_>::Mesh& mesh, const MeshSnap& before, const MeshInfo& bi)
  {
    constexpr int dim = Shape_::dimension; const ShapeTab t = ShapeSel<Shape_>::tab(); const int fd = dim - 1;
    const std::string op = "reorient_boundary_facets"; c.set_op(op);
    mesh.reorient_boundary_facets(); c.event();
    MeshSnap a; snap_mesh<Shape_>(mesh, a, false);
    Rep r(c, "after reorient_boundary_facets"); MeshInfo ai;
    check_mesh(r, t, a, op, ai); c.event();
    if(!r.seen.empty()) return;
    for(int d = 0; d <= dim; ++d) if(a.n[d] != before.n[d]) { r.bad(op, "entity-count-changed", vh::J().kv("dim", d)); return; }
    if(!same_vertices(before, a)) r.bad(op, "vertices-changed", vh::J());
    for(int d = 1; d <= dim; ++d) for(int e = 0; e < d; ++e)
    {
      if(d == fd) continue;
      if(a.idx[d][e] != before.idx[d][e]) r.bad(op, "non-facet-index-set-changed", vh::J().kv("d", d).kv("e", e));
    }
    bool changed = false;
    for(int e = 0; e < fd; ++e)
    {
      const int nf = t.nf(fd, e);
      for(Idx f = 0; f < a.n[fd]; ++f)
      {
        const Idx* x = &before.idx[fd][e][f * Idx(nf)]; const Idx* y = &a.idx[fd][e][f * Idx(nf)];
        if(std::equal(x, x + nf, y)) continue;
        changed = true;
        if(bi.facet_cells[f] != 1) { r.bad(op, "interior-facet-changed", vh::J().kv("facet", (unsigned long)f).kv("e", e)); break; }
        if(!(make_key(x, nf) == make_key(y, nf))) { r.bad(op, "boundary-facet-sub-entities-changed", vh::J().kv("facet", (unsigned long)f).kv("e", e).kv("before", key_str(make_key(x, nf))).kv("after", key_str(make_key(y, nf)))); break; }
      }
    }
    if(changed) c.count("reorient_flipped_some_facet");
    // consistent orientation
    {
      const int nfc = t.nf(dim, fd), nvf = t.nv(fd), nvc = t.nv(dim);
      KeyMap<Idx> fkey; fkey.reserve(std::size_t(a.n[fd]) * 2);
      for(Idx f = 0; f < a.n[fd]; ++f) fkey.emplace(make_key(&a.idx[fd][0][f * Idx(nvf)], nvf), f);
      int ref = 0; Idx ref_f = NONE; std::uint64_t judged = 0;
      for(Idx i = 0; i < a.n[dim] && r.seen.empty(); ++i) for(int j = 0; j < nfc; ++j)
      {
        Idx w[8]; const int* lf = t.face(dim, fd, j);
        for(int k = 0; k < nvf; ++k) w[k] = a.idx[dim][0][i * Idx(nvc) + Idx(lf[k])];
        auto it = fkey.find(make_key(w, nvf)); if(it == fkey.end()) continue;
        const Idx f = it->second; if(ai.facet_cells[f] != 1) continue;
        const Idx* fv = &a.idx[fd][0][f * Idx(nvf)];
        auto X = [&](Idx v, int k) { return (LD)a.vtx[v * Idx(dim) + Idx(k)]; };
        LD nrm[3] = {0, 0, 0}, len = 0;
        if(dim == 2) { nrm[0] = X(fv[1], 1) - X(fv[0], 1); nrm[1] = -(X(fv[1], 0) - X(fv[0], 0)); }
        else
        {
          LD u[3], v[3]; for(int k = 0; k < 3; ++k) { u[k] = X(fv[1], k) - X(fv[0], k); v[k] = X(fv[2], k) - X(fv[0], k); }
          nrm[0] = u[1] * v[2] - u[2] * v[1]; nrm[1] = u[2] * v[0] - u[0] * v[2]; nrm[2] = u[0] * v[1] - u[1] * v[0];
        }
        for(int k = 0; k < dim; ++k) len += nrm[k] * nrm[k]; len = std::sqrt(len);
        const LD h = cell_diam(t, a, i);
        int side = 0; bool clear = len > 1e-9L * (dim == 2 ? h : h * h);
        for(int v = 0; v < nvc && clear; ++v)
        {
          const Idx cv = a.idx[dim][0][i * Idx(nvc) + Idx(v)];
          bool on = false; for(int k = 0; k < nvf; ++k) if(fv[k] == cv) on = true;
          if(on) continue;
          LD dot = 0; for(int k = 0; k < dim; ++k) dot += nrm[k] * (X(cv, k) - X(fv[0], k));
          if(std::fabs(dot) <= 1e-6L * len * h) { clear = false; break; }
          const int sg = dot > 0 ? 1 : -1;
          if(side == 0) side = sg; else if(side != sg) clear = false;
        }
        LD x0[3] = {0, 0, 0}; const LD det = jac_det(t, a, i, x0); LD sc = 1; for(int k = 0; k < dim; ++k) sc *= h;
        if(!clear || side == 0 || !(std::fabs(det) > 1e-6L * sc)) continue;
        const int s = side * (det > 0 ? 1 : -1);
        ++judged;
        if(ref == 0) { ref = s; ref_f = f; }
        else if(s != ref)
        {
          r.bad(op, "boundary-facets-not-consistently-oriented", vh::J().kv("facet", (unsigned long)f).kv("cell", (unsigned long)i).kv("local_facet", j).kv("sign", s)
            .kv("reference_facet", (unsigned long)ref_f).kv("reference_sign", ref).kv("facet_vertices_in_order", (unsigned long)fv[0] * 1000000ul + (unsigned long)fv[1]));
          break;
        }
      }
      c.count("reorient_facets_judged", judged); c.event();
    }
    // idempotent
    mesh.reorient_boundary_facets(); c.event();
    MeshSnap a2; snap_mesh<Shape_>(mesh, a2, false); std::string why;
    if(!same_topology(t, a, a2, why)) r.bad(op, "not-idempotent", vh::J().kv("what", why));
  }

  // IndexCalculator::compute / compute_vertex_subshape driven directly
  template<typename Shape_, typename Cell_, int cd_, int fd_>
  void mon_index_calc(vh::Ctx& c, const typename Ty<Shape_>::Mesh& mesh, const MeshSnap& s)
  {
    const ShapeTab t = ShapeSel<Shape_>::tab();
    typedef typename Shape::FaceTraits<Cell_, fd_>::ShapeType FaceType;
    const std::string op = "index_calculator.compute<" + std::to_string(cd_) + "," + std::to_string(fd_) + ">"; c.set_op(op);
    Geometry::IndexTree<FaceType> tree(mesh.get_num_entities(0));
    tree.parse(mesh.template get_index_set<fd_, 0>());
    typename Ty<Shape_>::Mesh::template IndexSet<cd_, fd_>::Type out(mesh.get_num_entities(cd_), mesh.get_num_entities(fd_));
    const bool ok = Geometry::IndexCalculator<Cell_, fd_>::compute(tree, mesh.template get_index_set<cd_, 0>(), out);
    c.event();
    Rep r(c, "direct IndexCalculator call");
    if(!ok) { r.bad(op, "sub-entity-not-found", vh::J().kv("cells", (unsigned long)s.n[cd_])); return; }
    const int nf = t.nf(cd_, fd_);
    // the mesh is validated: entities are unique as vertex sets and s.idx[cd_][fd_] lists exactly the local faces
    for(Idx i = 0; i < s.n[cd_]; ++i) for(int j = 0; j < nf; ++j) if(Idx(out(Index(i), j)) != s.idx[cd_][fd_][i * Idx(nf) + Idx(j)])
    { r.bad(op, "wrong-sub-entity", vh::J().kv("entity", (unsigned long)i).kv("local", j).kv("got", (unsigned long)out(Index(i), j)).kv("expected", (unsigned long)s.idx[cd_][fd_][i * Idx(nf) + Idx(j)])); return; }
    // compute_vertex_subshape: numbers the sub-entities itself; every local face exactly once
    const std::string op2 = "index_calculator.compute_vertex_subshape<" + std::to_string(cd_) + "," + std::to_string(fd_) + ">"; c.set_op(op2);
    typename Ty<Shape_>::Mesh::template IndexSet<fd_, 0>::Type vs;
    Geometry::IndexCalculator<Cell_, fd_>::compute_vertex_subshape(mesh.template get_index_set<cd_, 0>(), vs);
    c.event();
    const int nvf = t.nv(fd_);
    KeyMap<Idx> want; for(Idx f = 0; f < s.n[fd_]; ++f) want.emplace(make_key(&s.idx[fd_][0][f * Idx(nvf)], nvf), f);
    // (all fd_-entities of a valid mesh are faces of some cd_-entity only if cd_ is the cell dimension or every face is
    // used; orphan-free meshes: every edge belongs to a face in 3D because it belongs to a cell)
    if(Idx(vs.get_num_entities()) != s.n[fd_]) { r.bad(op2, "sub-entity-count", vh::J().kv("got", (unsigned long)vs.get_num_entities()).kv("expected", (unsigned long)s.n[fd_])); return; }
    KeyMap<Idx> seen;
    for(Index f = 0; f < vs.get_num_entities(); ++f)
    {
      Idx w[8]; for(int k = 0; k < nvf; ++k) w[k] = Idx(vs(f, k));
      const Key key = make_key(w, nvf);
      if(!want.count(key)) { r.bad(op2, "sub-entity-is-no-local-face", vh::J().kv("entity", (unsigned long)f).kv("vertices", key_str(key))); return; }
      if(!seen.emplace(key, Idx(f)).second) { r.bad(op2, "sub-entity-listed-twice", vh::J().kv("entity", (unsigned long)f).kv("vertices", key_str(key))); return; }
    }
  }

  static const Geometry::PermutationStrategy x_strategies[] = {Geometry::PermutationStrategy::random, Geometry::PermutationStrategy::lexicographic,
    Geometry::PermutationStrategy::colored, Geometry::PermutationStrategy::cuthill_mckee, Geometry::PermutationStrategy::cuthill_mckee_reversed,
    Geometry::PermutationStrategy::geometric_cuthill_mckee, Geometry::PermutationStrategy::geometric_cuthill_mckee_reversed, Geometry::PermutationStrategy::other};
  static const char* x_strategy_names[] = {"random", "lexicographic", "colored", "cuthill_mckee", "cuthill_mckee_reversed", "geometric_cuthill_mckee", "geometric_cuthill_mckee_reversed", "custom"};

  // create_permutation(strategy) / set_permutation(custom) on a clone of the mesh
  template<typename Shape_>
  void mon_permutation(vh::Ctx& c, const typename Ty<Shape_>::Mesh& orig, const MeshSnap& before, int si)
  {
    constexpr int dim = Shape_::dimension; const ShapeTab t = ShapeSel<Shape_>::tab(); vh::Rng& r = c.rng;
    const std::string sname = x_strategy_names[si];
    const std::string op = si < 7 ? "create_permutation." + sname : std::string("set_permutation");
    c.tag("perm:" + sname); c.set_op(op);
    typename Ty<Shape_>::Mesh mesh = orig.clone();
    if(si < 7) mesh.create_permutation(x_strategies[si]);
    else
    {
      typename Ty<Shape_>::Mesh::MeshPermutationType mp;
      auto& perms = mp.create_other();
      const bool all = r.coin(0.6); bool any = false;
      for(int d = 0; d <= dim; ++d)
      {
        if(!all && !r.coin(0.5) && !(d == dim && !any)) continue;
        any = true;
        std::vector<Index> p(before.n[d]); for(Idx k = 0; k < before.n[d]; ++k) p[k] = Index(k);
        r.shuffle(p);
        perms.at(std::size_t(d)) = Adjacency::Permutation(Index(before.n[d]), Adjacency::Permutation::ConstrType::perm, p.data());
      }
      mp.create_inverse_permutations();
      mesh.set_permutation(std::move(mp));
    }
    c.event();
    MeshSnap a; snap_mesh<Shape_>(mesh, a, false); snap_volume<Shape_>(a);
    PermSnap ps; snap_perm<Shape_>(mesh, ps);
    Rep rr(c, "after " + op);
    if(!ps.is_permuted) rr.bad(op, "is_permuted-false", vh::J());
    if(mesh.get_mesh_permutation().get_strategy() != x_strategies[si]) rr.bad(op, "strategy-not-recorded", vh::J().kv("expected", sname));
    if(ps.validate_sizes != 0) rr.bad(op, "validate_sizes-nonzero", vh::J().kv("result", ps.validate_sizes));
    const bool arrays_ok = check_perm_arrays(rr, t, before.n, ps, op); c.event();
    if(arrays_ok) { check_permuted_mesh(rr, t, before, a, ps, op); c.event(); }
    MeshInfo ai; check_mesh(rr, t, a, op, ai); c.event();
    if(before.have_vol && a.have_vol && !(std::fabs(before.vol - a.vol) <= 1e-9L * before.volabs + 1e-300L)) rr.bad(op, "volume-changed", vh::J().kv("before", before.vol).kv("after", a.vol));
    if(rr.seen.empty()) { std::vector<Idx> nb; snap_neighbors<Shape_>(mesh, nb); check_neighbors(rr, t, a, nb, op + ".fill_neighbors"); c.event(); }
    // colouring
    const bool want_col = (si == 2), want_lay = (si >= 3 && si <= 6);
    if(want_col || !ps.coloring.empty())
    {
      std::vector<Idx> col = ps.coloring;
      // documented: NC+1 entries, the last one = number of elements.  A vector that merely lacks this terminator is
      // reported ONCE under its own kind + case tag 'coloring:terminator_missing' and then judged with the terminator
      // appended, so that the properness of the colouring is still decided.
      if(!col.empty() && col.front() == 0 && col.back() < a.n[dim] && std::is_sorted(col.begin(), col.end()))
      {
        c.tag("coloring:terminator_missing");
        rr.bad(op + ".element_coloring", "coloring-last-offset-not-num-elements", vh::J().kv("entries", (unsigned long)col.size()).kv("last", (unsigned long)col.back()).kv("cells", (unsigned long)a.n[dim]));
        col.push_back(a.n[dim]);
      }
      const std::size_t nb0 = rr.seen.size();
      const bool hv = check_coloring(rr, t, a, col, op + ".element_coloring"); c.event();
      if(hv && ps.val_col != 1) rr.bad("validate_element_coloring", "rejects-proper-coloring", vh::J().kv("colors", (unsigned long)(col.size() - 1)));
      if(!hv && rr.seen.size() > nb0 && ps.val_col == 1) c.count("validate_element_coloring_accepted_what_the_harness_rejects");
      if(hv) c.count("colorings_checked");
    }
    else if(ps.val_col != 1) rr.bad("validate_element_coloring", "false-for-empty-coloring", vh::J());
    if(want_lay || !ps.layering.empty())
    {
      const std::size_t nb0 = rr.seen.size();
      const bool hv = check_layering(rr, t, a, ps.layering, op + ".element_layering"); c.event();
      if(hv && ps.val_lay != 1) rr.bad("validate_element_layering", "rejects-valid-layering", vh::J().kv("layers", (unsigned long)(ps.layering.size() - 1)));
      if(!hv && rr.seen.size() > nb0 && ps.val_lay == 1) c.count("validate_element_layering_accepted_what_the_harness_rejects");
      if(hv) c.count("layerings_checked");
    }
    else if(ps.val_lay != 1) rr.bad("validate_element_layering", "false-for-empty-layering", vh::J());
    // the clone of a permuted mesh carries the same permutation
    {
      typename Ty<Shape_>::Mesh cl = mesh.clone();
      PermSnap pc; snap_perm<Shape_>(cl, pc); c.event();
      bool same = pc.is_permuted == ps.is_permuted && pc.coloring == ps.coloring && pc.layering == ps.layering && cl.get_mesh_permutation().get_strategy() == mesh.get_mesh_permutation().get_strategy();
      for(int d = 0; d <= dim; ++d) if(pc.p[d] != ps.p[d] || pc.q[d] != ps.q[d]) same = false;
      if(!same) rr.bad("mesh.clone", "permutation-not-cloned", vh::J().kv("strategy", sname));
    }
  }

  // ------------------------------------------------------------------------------------------ family meshops
  template<typename Shape_>
  void run_meshops(vh::Ctx& c)
  {
    constexpr int dim = Shape_::dimension; const ShapeTab t = ShapeSel<Shape_>::tab(); vh::Rng& r = c.rng;
    vm::MeshSpec<Shape_> ms; int route = 0;
    std::unique_ptr<typename Ty<Shape_>::Mesh> mesh = gen_mesh<Shape_>(c, ms, route, "meshops");
    MeshSnap s0; MeshInfo mi;
    if(!snap_valid<Shape_>(c, *mesh, s0, mi)) return;
    c.tag(cells_bucket(s0.n[dim]));
    // (1) neighbours of the constructed mesh; recomputed after the stored set was overwritten
    c.set_op("fill_neighbors");
    mon_neighbors<Shape_>(c, *mesh, s0, "constructed mesh", "fill_neighbors");
    {
      auto& nb = mesh->get_neighbors();
      for(Index i = 0; i < nb.get_num_entities(); ++i) for(int j = 0; j < nb.get_num_indices(); ++j) nb(i, j) = Index(i + 17u);
      mesh->fill_neighbors();
      mon_neighbors<Shape_>(c, *mesh, s0, "after explicit fill_neighbors", "fill_neighbors");
    }
    // (2) clone: identical copy, independent of the original
    c.set_op("mesh.clone");
    typename Ty<Shape_>::Mesh cl = mesh->clone(); c.event();
    {
      MeshSnap sc; snap_mesh<Shape_>(cl, sc, false); Rep rr(c, "clone"); std::string why;
      if(!same_topology(t, s0, sc, why)) rr.bad("mesh.clone", "clone-differs", vh::J().kv("what", why));
      if(!same_vertices(s0, sc)) rr.bad("mesh.clone", "clone-differs", vh::J().kv("what", "vertex set"));
      if(cl.is_permuted()) rr.bad("mesh.clone", "clone-of-unpermuted-mesh-is-permuted", vh::J());
      mon_neighbors<Shape_>(c, cl, s0, "clone", "mesh.clone.neighbors");
    }
    // (3) rigid transformation of the clone, (4) boundary facet re-orientation of the clone
    mon_transform<Shape_>(c, cl, s0);
    {
      MeshSnap sb; snap_mesh<Shape_>(cl, sb, false);
      mon_reorient<Shape_>(c, cl, sb, mi);
    }
    {
      // the original must not have noticed any of this
      MeshSnap s1; snap_mesh<Shape_>(*mesh, s1, false); Rep rr(c, "original after the clone was modified"); std::string why;
      if(!same_topology(t, s0, s1, why) || !same_vertices(s0, s1)) rr.bad("mesh.clone", "clone-not-independent", vh::J().kv("what", why.empty() ? std::string("vertex set") : why));
      c.event();
    }
    // (5) IndexCalculator on the index sets of this mesh
    mon_index_calc<Shape_, Shape_, dim, dim - 1>(c, *mesh, s0);
    if constexpr(dim == 3)
    {
      mon_index_calc<Shape_, Shape_, 3, 1>(c, *mesh, s0);
      mon_index_calc<Shape_, typename Shape::FaceTraits<Shape_, 2>::ShapeType, 2, 1>(c, *mesh, s0);
    }
    // (6) one permutation strategy per case (cycled), then (7) neighbours of the refined mesh
    mon_permutation<Shape_>(c, *mesh, s0, int((c.k / 4) % 8));
    if(c.nviol == 0 && r.coin(0.3)) mon_permutation<Shape_>(c, *mesh, s0, int(r.below(8)));
    if(s0.n[dim] * Idx(t.cc(dim, dim)) <= (c.thorough() ? 6000u : 2500u))
    {
      c.set_op("standard_refinery.fill_neighbors");
      Geometry::StandardRefinery<typename Ty<Shape_>::Mesh> refinery(*mesh);
      std::unique_ptr<typename Ty<Shape_>::Mesh> fine = refinery.make_unique(); c.event();
      MeshSnap fs; MeshInfo fi; snap_mesh<Shape_>(*fine, fs, false);
      Rep rr(c, "refined mesh"); check_mesh(rr, t, fs, "standard_refinery", fi);
      if(rr.seen.empty()) mon_neighbors<Shape_>(c, *fine, fs, "refined mesh", "standard_refinery.fill_neighbors");
      c.tag("refined");
    }
  }

  // ------------------------------------------------------------------------------------------ family partops
  template<typename Shape_, int top_>
  void call_from_top(typename Ty<Shape_>::Part& p, const typename Ty<Shape_>::Mesh& m) { p.template deduct_target_sets_from_top<top_>(m.get_index_set_holder()); }
  template<typename Shape_, int bot_>
  void call_from_bottom(typename Ty<Shape_>::Part& p, const typename Ty<Shape_>::Mesh& m) { p.template deduct_target_sets_from_bottom<bot_>(m.get_index_set_holder()); }

  template<typename Shape_>
  void mon_deduct(vh::Ctx& c, const typename Ty<Shape_>::Mesh& mesh, const MeshSnap& s)
  {
    constexpr int dim = Shape_::dimension; const ShapeTab t = ShapeSel<Shape_>::tab(); vh::Rng& r = c.rng;
    for(int trial = 0; trial < 4; ++trial)
    {
      const bool top_down = (trial % 2 == 0);
      std::vector<Idx> trg[4]; bool ded[4];
      int anchor;
      if(top_down)
      {
        anchor = int(r.range(1, dim));
        std::vector<Idx> tmp[4]; random_targets(r, t, s, anchor, r.pick<double>({0.05, 0.3, 0.7, 1.0}), false, r.coin(0.5), tmp);
        trg[anchor] = tmp[anchor];
        // sometimes an intermediate / lower set is GIVEN (non-empty): it is kept and the sets below follow it
        for(int d = 0; d < anchor; ++d) if(r.coin(0.2)) { random_targets(r, t, s, d, r.pick<double>({0.1, 0.5}), false, r.coin(0.5), tmp); trg[d] = tmp[d]; }
      }
      else
      {
        anchor = int(r.range(0, dim - 1));
        std::vector<Idx> tmp[4]; random_targets(r, t, s, anchor, r.pick<double>({0.3, 0.6, 0.9, 1.0}), false, r.coin(0.5), tmp);
        trg[anchor] = tmp[anchor];
        for(int d = anchor + 1; d <= dim; ++d) if(r.coin(0.15)) { random_targets(r, t, s, d, r.pick<double>({0.1, 0.5}), false, r.coin(0.5), tmp); trg[d] = tmp[d]; }
        for(int d = 0; d < anchor; ++d) if(r.coin(0.3)) { random_targets(r, t, s, d, 0.3, false, false, tmp); trg[d] = tmp[d]; }
      }
      std::unique_ptr<typename Ty<Shape_>::Part> part = make_part<Shape_>(mesh, trg, false);
      const std::string op = std::string(top_down ? "deduct_target_sets_from_top<" : "deduct_target_sets_from_bottom<") + std::to_string(anchor) + ">";
      c.set_op(op);
      if(top_down)
      {
        if(anchor == 1) call_from_top<Shape_, 1>(*part, mesh); else if(anchor == 2) call_from_top<Shape_, 2>(*part, mesh);
        else if constexpr(dim == 3) call_from_top<Shape_, 3>(*part, mesh);
        oracle_from_top(t, s, anchor, trg, ded);
      }
      else
      {
        if(anchor == 0) call_from_bottom<Shape_, 0>(*part, mesh); else if(anchor == 1) call_from_bottom<Shape_, 1>(*part, mesh);
        else if constexpr(dim == 3) call_from_bottom<Shape_, 2>(*part, mesh);
        oracle_from_bottom(t, s, anchor, trg, ded);
      }
      c.event();
      PartSnap ps; ps.name = op; snap_part<Shape_>(part.get(), ps);
      Rep rr(c, op + " trial " + std::to_string(trial)); check_deducted(rr, t, s, ps, trg, ded, op); c.event();
      bool nontriv = false; for(int d = 0; d <= dim; ++d) if(ded[d] && !trg[d].empty() && trg[d].size() < std::size_t(s.n[d])) nontriv = true;
      if(nontriv) c.count(top_down ? "from_top_proper_subset_deducted" : "from_bottom_proper_subset_deducted");
    }
  }

  template<typename Shape_>
  void mon_masked_boundary(vh::Ctx& c, const typename Ty<Shape_>::Mesh& mesh, const MeshSnap& s, const MeshInfo& mi)
  {
    constexpr int dim = Shape_::dimension; const ShapeTab t = ShapeSel<Shape_>::tab(); vh::Rng& r = c.rng; const int fd = dim - 1;
    const std::string op = "masked_boundary_factory"; c.set_op(op);
    Geometry::MaskedBoundaryFactory<typename Ty<Shape_>::Mesh> mbf(mesh);
    std::vector<char> masked(s.n[fd], 0);
    const int mode = int(r.below(5));   // 0 nothing masked, 1 random facets, 2 mesh part, 3 both, 4 whole boundary
    c.tag("mask:" + std::to_string(mode));
    if(mode == 1 || mode == 3)
    {
      const double p = r.pick<double>({0.1, 0.5});
      for(Idx f = 0; f < s.n[fd]; ++f) if(r.coin(p)) { mbf.add_mask_facet(Index(f)); masked[f] = 1; }
    }
    std::unique_ptr<typename Ty<Shape_>::Part> mp;
    if(mode == 2 || mode == 3)
    {
      std::vector<Idx> trg[4]; random_targets(r, t, s, fd, r.pick<double>({0.1, 0.4}), r.coin(0.5), true, trg);
      // prefer boundary facets: replace half of the entries by boundary facets
      std::vector<Idx> bf; for(Idx f = 0; f < s.n[fd]; ++f) if(mi.facet_cells[f] == 1) bf.push_back(f);
      for(Idx& x : trg[fd]) if(r.coin(0.5) && !bf.empty()) x = bf[r.below(bf.size())];
      mp = make_part<Shape_>(mesh, trg, false);
      mbf.add_mask_meshpart(*mp);
      for(Idx x : trg[fd]) masked[x] = 1;
    }
    if(mode == 4) for(Idx f = 0; f < s.n[fd]; ++f) if(mi.facet_cells[f] == 1) { mbf.add_mask_facet(Index(f)); masked[f] = 1; }
    mbf.compile();
    typename Ty<Shape_>::Part bp(mbf); c.event();
    PartSnap ps; ps.name = "<MaskedBoundaryFactory>"; snap_part<Shape_>(&bp, ps);
    Rep rr(c, "mask mode " + std::to_string(mode)); check_masked_boundary(rr, t, s, mi, masked, ps, op); c.event();
    Idx nm = 0, nb = 0; for(Idx f = 0; f < s.n[fd]; ++f) if(mi.facet_cells[f] == 1) { ++nb; if(masked[f]) ++nm; }
    if(nm > 0 && nm < nb) c.count("masked_proper_subset_of_boundary");
  }

  // parts with own topology + attributes through RootMeshNode::refine_unique; node clone / remove / rename
  template<typename Shape_>
  void mon_node_and_attributes(vh::Ctx& c, std::unique_ptr<typename Ty<Shape_>::Mesh> mesh_in, const MeshSnap& s0)
  {
    constexpr int dim = Shape_::dimension; const ShapeTab t = ShapeSel<Shape_>::tab(); vh::Rng& r = c.rng;
    typedef typename Ty<Shape_>::Part PartT; typedef typename PartT::AttributeSetType AttrT;
    std::unique_ptr<typename Ty<Shape_>::Node> node = Ty<Shape_>::Node::make_unique(std::move(mesh_in));
    const auto& mesh = *node->get_mesh();
    attach_random_parts<Shape_>(c, *node, s0);
    // parts with topology and 1-2 attributes each
    struct AP { std::string part; std::vector<std::string> attrs; };
    std::vector<AP> aps;
    const int nap = int(r.range(1, 2));
    for(int ip = 0; ip < nap; ++ip)
    {
      const int top = int(r.range(1, 2));
      std::vector<Idx> trg[4]; random_targets(r, t, s0, top, r.pick<double>({0.1, 0.4, 1.0}), true, true, trg);
      std::unique_ptr<PartT> p; bool nontriv = false;
      const bool hostile = r.coin(0.6);
      if(hostile) p = make_hostile_topo_part<Shape_>(r, s0, trg, nontriv); else p = make_part<Shape_>(mesh, trg, true);
      AP ap; ap.part = "vha" + std::to_string(ip) + "_d" + std::to_string(top) + (hostile ? "x" : "t");
      const int na = int(r.range(1, 2));
      for(int ia = 0; ia < na; ++ia)
      {
        const int ad = int(r.range(1, 3));
        std::unique_ptr<AttrT> at(new AttrT(Index(trg[0].size()), ad));
        const double mag = r.pick<double>({1.0, 1e-3, 1e6});
        for(Index i = 0; i < Index(trg[0].size()); ++i) for(int j = 0; j < ad; ++j) (*at)(i, j) = mag * r.real(-1.0, 1.0);
        const std::string an = "attr" + std::to_string(ia) + "_dim" + std::to_string(ad);
        p->add_attribute(std::move(at), an); ap.attrs.push_back(an);
      }
      node->add_mesh_part(ap.part, std::move(p)); aps.push_back(ap);
      c.tag(std::string("attribute_part:d") + std::to_string(top) + (hostile ? "+own_topology" : "+deducted_topology"));
    }
    // ---- clone_unique: same mesh, same parts / halos / patches (incl. attributes), independent
    {
      const std::string op = "node.clone_unique"; c.set_op(op);
      MeshSnap a; snap_node<Shape_>(*node, a, false);
      std::unique_ptr<typename Ty<Shape_>::Node> cl = node->clone_unique(); c.event();
      MeshSnap b; snap_node<Shape_>(*cl, b, false);
      Rep rr(c, "clone_unique"); std::string why;
      if(!same_topology(t, a, b, why) || !same_vertices(a, b)) rr.bad(op, "mesh-differs", vh::J().kv("what", why));
      if(a.parts.size() != b.parts.size()) rr.bad(op, "part-set-differs", vh::J().kv("original", (unsigned long)a.parts.size()).kv("clone", (unsigned long)b.parts.size()));
      else for(std::size_t i = 0; i < a.parts.size(); ++i)
      {
        if(a.parts[i].key() != b.parts[i].key()) { rr.bad(op, "part-set-differs", vh::J().kv("original", a.parts[i].key()).kv("clone", b.parts[i].key())); break; }
        if(!same_part(t, a.parts[i], b.parts[i], why)) { rr.bad(op, "part-differs", vh::J().kv("part", a.parts[i].key()).kv("what", why)); break; }
      }
      for(const AP& ap : aps) for(const std::string& an : ap.attrs)
      {
        AttrSnap x, y; snap_attr(node->find_mesh_part(ap.part), an, x); snap_attr(cl->find_mesh_part(ap.part), an, y);
        if(!y.present || x.dim != y.dim || x.nvals != y.nvals || x.v != y.v) rr.bad(op, "attribute-differs", vh::J().kv("part", ap.part).kv("attribute", an));
      }
      c.event();
      // remove / rename on the clone; the original keeps everything
      const std::deque<String> names = cl->get_mesh_part_names();
      if(!names.empty())
      {
        const std::string victim = names[r.below(names.size())];
        c.set_op("node.remove_mesh_part");
        const bool r1 = cl->remove_mesh_part(victim), r2 = cl->remove_mesh_part(victim); c.event();
        if(!r1 || r2) rr.bad("node.remove_mesh_part", "return-value", vh::J().kv("first", r1).kv("second", r2));
        if(cl->find_mesh_part(victim) != nullptr) rr.bad("node.remove_mesh_part", "part-still-found", vh::J().kv("part", victim));
        if(node->find_mesh_part(victim) == nullptr) rr.bad(op, "clone-not-independent", vh::J().kv("part", victim));
        MeshSnap b2; snap_node<Shape_>(*cl, b2, false);
        for(const PartSnap& p : b.parts) if(!(p.kind == 0 && p.name == victim))
        {
          const PartSnap* q = nullptr; for(const PartSnap& x : b2.parts) if(x.key() == p.key()) q = &x;
          if(!q || !same_part(t, p, *q, why)) { rr.bad("node.remove_mesh_part", "other-part-affected", vh::J().kv("part", p.key())); break; }
        }
        const std::deque<String> rest = cl->get_mesh_part_names();
        if(!rest.empty())
        {
          c.set_op("node.rename_mesh_parts");
          const std::string old = rest[r.below(rest.size())], neu = "renamed_" + old;
          std::map<String, String> ren; ren.emplace(old, neu); ren.emplace("no_such_part", "whatever");
          PartSnap before; snap_part<Shape_>(cl->find_mesh_part(old), before);
          cl->rename_mesh_parts(ren); c.event();
          PartSnap after; snap_part<Shape_>(cl->find_mesh_part(neu), after);
          if(cl->find_mesh_part(old) != nullptr || !after.present || !same_part(t, before, after, why)) rr.bad("node.rename_mesh_parts", "renamed-part-wrong", vh::J().kv("old", old).kv("new", neu));
          if(cl->get_mesh_part_names().size() != rest.size()) rr.bad("node.rename_mesh_parts", "part-count-changed", vh::J());
        }
      }
    }
    // ---- refinement with attributes
    const std::string op = "refine_unique.attributes"; c.set_op(op);
    const Idx cap = c.thorough() ? 20000 : 4000;
    int lvl = 0;
    while(node->get_mesh()->get_num_entities(dim) * Index(t.cc(dim, dim)) <= cap && lvl < 3 && c.nviol == 0)
    {
      ++lvl;
      std::vector<PartSnap> cps(aps.size()); std::vector<std::vector<AttrSnap>> cas(aps.size());
      for(std::size_t i = 0; i < aps.size(); ++i)
      {
        cps[i].name = aps[i].part; snap_part<Shape_>(node->find_mesh_part(aps[i].part), cps[i]);
        for(auto& an : aps[i].attrs) { AttrSnap x; snap_attr(node->find_mesh_part(aps[i].part), an, x); cas[i].push_back(x); }
      }
      std::unique_ptr<typename Ty<Shape_>::Node> fine = node->refine_unique(Geometry::AdaptMode::none); c.event();
      Rep rr(c, "level " + std::to_string(lvl - 1) + " -> " + std::to_string(lvl));
      for(std::size_t i = 0; i < aps.size(); ++i)
      {
        PartSnap fp; fp.name = aps[i].part; snap_part<Shape_>(fine->find_mesh_part(aps[i].part), fp);
        if(!fp.present) { rr.bad(op, "part-lost", vh::J().kv("part", aps[i].part)); continue; }
        if(fine->find_mesh_part(aps[i].part)->get_num_attributes() != int(aps[i].attrs.size()))
          rr.bad(op, "attribute-count-changed", vh::J().kv("part", aps[i].part).kv("got", fine->find_mesh_part(aps[i].part)->get_num_attributes()).kv("expected", (unsigned long)aps[i].attrs.size()));
        for(std::size_t j = 0; j < aps[i].attrs.size(); ++j)
        {
          AttrSnap fa; snap_attr(fine->find_mesh_part(aps[i].part), aps[i].attrs[j], fa);
          check_refined_attribute(rr, t, cps[i], cas[i][j], fp, fa, aps[i].attrs[j], op); c.event();
        }
      }
      node = std::move(fine);
    }
    c.tag("levels:" + std::to_string(lvl));
    if(lvl == 0) c.count("attributes_not_refined_mesh_too_large");
  }

  template<typename Shape_>
  void mon_part_clone(vh::Ctx& c, const typename Ty<Shape_>::Mesh& mesh, const MeshSnap& s)
  {
    const ShapeTab t = ShapeSel<Shape_>::tab(); vh::Rng& r = c.rng;
    typedef typename Ty<Shape_>::Part PartT; typedef typename PartT::AttributeSetType AttrT;
    const std::string op = "meshpart.clone"; c.set_op(op);
    const int top = int(r.range(0, 2));
    std::vector<Idx> trg[4]; random_targets(r, t, s, top, r.pick<double>({0.2, 0.7}), top > 0, true, trg);
    const bool topo = top > 0 && r.coin(0.6);
    std::unique_ptr<PartT> p = make_part<Shape_>(mesh, trg, topo);
    std::unique_ptr<AttrT> at(new AttrT(Index(trg[0].size()), 2));
    for(Index i = 0; i < Index(trg[0].size()); ++i) for(int j = 0; j < 2; ++j) (*at)(i, j) = r.real(-1.0, 1.0);
    p->add_attribute(std::move(at), "a");
    PartSnap a; snap_part<Shape_>(p.get(), a); AttrSnap aa; snap_attr(p.get(), "a", aa);
    Rep rr(c, topo ? "part with topology" : "part without topology"); std::string why;
    PartT c1 = p->clone(); c.event();
    PartSnap b; snap_part<Shape_>(&c1, b); AttrSnap ab; snap_attr(&c1, "a", ab);
    if(!same_part(t, a, b, why)) rr.bad(op, "clone-differs", vh::J().kv("what", why));
    if(!ab.present || ab.v != aa.v || ab.dim != aa.dim) rr.bad(op, "attribute-not-cloned", vh::J());
    // clone INTO an existing, different part (other topology flag, other sizes, other attribute)
    Index ne[4] = {1, 0, 0, 0}; PartT c2(ne, !topo); c2.template get_target_set<0>()[0] = 0;
    { std::unique_ptr<AttrT> z(new AttrT(1, 1)); (*z)(0, 0) = 1.0; c2.add_attribute(std::move(z), "stale"); }
    c2.clone(*p); c.event();
    PartSnap d; snap_part<Shape_>(&c2, d); AttrSnap ad; snap_attr(&c2, "a", ad);
    if(!same_part(t, a, d, why)) rr.bad("meshpart.clone_into", "clone-differs", vh::J().kv("what", why));
    if(!ad.present || ad.v != aa.v || c2.find_attribute("stale") != nullptr) rr.bad("meshpart.clone_into", "attributes-not-replaced", vh::J());
    // independence
    if(c1.get_num_entities(0) > 0) c1.template get_target_set<0>()[0] = Index(s.n[0] - 1 - trg[0][0]);
    PartSnap a2; snap_part<Shape_>(p.get(), a2);
    if(!same_part(t, a, a2, why)) rr.bad(op, "clone-not-independent", vh::J().kv("what", why));
  }

  // adapt() / adapt_by_name() with an analytic chart (Circle in 2D, Sphere in 3D; centre outside the mesh): afterwards
  // every vertex of the charted part lies on the chart (distance to the centre == radius), every other vertex is
  // bit-identical, the topology is untouched
  template<typename Shape_> struct ChartSel;
  template<> struct ChartSel<Shape::Hypercube<2>> { template<typename M_> static std::unique_ptr<Geometry::Atlas::ChartBase<M_>> make(const double* c, double r) { return std::unique_ptr<Geometry::Atlas::ChartBase<M_>>(new Geometry::Atlas::Circle<M_>(c[0], c[1], r)); } };
  template<> struct ChartSel<Shape::Simplex<2>> { template<typename M_> static std::unique_ptr<Geometry::Atlas::ChartBase<M_>> make(const double* c, double r) { return std::unique_ptr<Geometry::Atlas::ChartBase<M_>>(new Geometry::Atlas::Circle<M_>(c[0], c[1], r)); } };
  template<> struct ChartSel<Shape::Hypercube<3>> { template<typename M_> static std::unique_ptr<Geometry::Atlas::ChartBase<M_>> make(const double* c, double r) { return std::unique_ptr<Geometry::Atlas::ChartBase<M_>>(new Geometry::Atlas::Sphere<M_>(c[0], c[1], c[2], r)); } };
  template<> struct ChartSel<Shape::Simplex<3>> { template<typename M_> static std::unique_ptr<Geometry::Atlas::ChartBase<M_>> make(const double* c, double r) { return std::unique_ptr<Geometry::Atlas::ChartBase<M_>>(new Geometry::Atlas::Sphere<M_>(c[0], c[1], c[2], r)); } };

  template<typename Shape_>
  void mon_adapt(vh::Ctx& c, const typename Ty<Shape_>::Mesh& mesh, const MeshSnap& s)
  {
    constexpr int dim = Shape_::dimension; const ShapeTab t = ShapeSel<Shape_>::tab(); vh::Rng& r = c.rng;
    typedef typename Ty<Shape_>::Mesh MeshT;
    const bool by_name = r.coin();
    const std::string op = by_name ? "node.adapt_by_name" : "node.adapt"; c.set_op(op);
    double lo[3] = {1e300, 1e300, 1e300}, ctr[3] = {0, 0, 0};
    for(Idx v = 0; v < s.n[0]; ++v) for(int k = 0; k < dim; ++k) lo[k] = std::min(lo[k], s.vtx[v * Idx(dim) + Idx(k)]);
    for(int k = 0; k < dim; ++k) ctr[k] = lo[k] - r.real(1.0, 3.0);
    const double rad = r.real(0.5, 4.0);
    typename Ty<Shape_>::Atlas atlas;
    std::unique_ptr<Geometry::Atlas::ChartBase<MeshT>> ch = ChartSel<Shape_>::template make<MeshT>(ctr, rad);
    const Geometry::Atlas::ChartBase<MeshT>* chp = ch.get();
    atlas.add_mesh_chart("vh_chart", std::move(ch));
    std::unique_ptr<typename Ty<Shape_>::Node> node = Ty<Shape_>::Node::make_unique(std::unique_ptr<MeshT>(new MeshT(mesh.clone())), &atlas);
    const int top = int(r.range(0, dim - 1));
    std::vector<Idx> trg[4], trg2[4];
    random_targets(r, t, s, top, r.pick<double>({0.1, 0.4, 1.0}), top > 0, true, trg);
    random_targets(r, t, s, 0, 0.5, false, true, trg2);
    node->add_mesh_part("charted", make_part<Shape_>(mesh, trg, false), "vh_chart", chp);
    node->add_mesh_part("plain", make_part<Shape_>(mesh, trg2, false));
    Rep rr(c, op);
    if(by_name)
    {
      const bool r0 = node->adapt_by_name("plain"), r1 = node->adapt_by_name("no_such_part"), r2 = node->adapt_by_name("charted");
      if(r0 || r1 || !r2) rr.bad(op, "return-value", vh::J().kv("part_without_chart", r0).kv("unknown_part", r1).kv("charted_part", r2));
    }
    else node->adapt();
    c.event();
    MeshSnap a; snap_mesh<Shape_>(*node->get_mesh(), a, false); std::string why;
    if(!same_topology(t, s, a, why)) { rr.bad(op, "topology-changed", vh::J().kv("what", why)); return; }
    std::vector<char> on(s.n[0], 0); for(Idx v : trg[0]) on[v] = 1;
    LD sc = rad; for(int k = 0; k < dim; ++k) sc = std::max<LD>(sc, std::fabs((LD)ctr[k]));
    for(Idx v = 0; v < s.n[0]; ++v)
    {
      if(!on[v])
      {
        for(int k = 0; k < dim; ++k) if(!(a.vtx[v * Idx(dim) + Idx(k)] == s.vtx[v * Idx(dim) + Idx(k)]))
        { rr.bad(op, "vertex-outside-charted-part-moved", vh::J().kv("vertex", (unsigned long)v).kv("coord", k).kv("before", s.vtx[v * Idx(dim) + Idx(k)]).kv("after", a.vtx[v * Idx(dim) + Idx(k)])); return; }
        continue;
      }
      LD d2 = 0; for(int k = 0; k < dim; ++k) { const LD d = (LD)a.vtx[v * Idx(dim) + Idx(k)] - (LD)ctr[k]; d2 += d * d; }
      if(!(std::fabs(std::sqrt(d2) - (LD)rad) <= 1e-12L * (sc + 8)))
      { rr.bad(op, "charted-vertex-not-on-chart", vh::J().kv("vertex", (unsigned long)v).kv("distance_to_centre", std::sqrt(d2)).kv("radius", rad)); return; }
    }
    c.event();
  }

  template<typename Shape_>
  void run_partops(vh::Ctx& c)
  {
    constexpr int dim = Shape_::dimension;
    vm::MeshSpec<Shape_> ms; int route = 0;
    std::unique_ptr<typename Ty<Shape_>::Mesh> mesh = gen_mesh<Shape_>(c, ms, route, "partops");
    MeshSnap s0; MeshInfo mi;
    if(!snap_valid<Shape_>(c, *mesh, s0, mi)) return;
    c.tag(cells_bucket(s0.n[dim]));
    mon_deduct<Shape_>(c, *mesh, s0);
    mon_masked_boundary<Shape_>(c, *mesh, s0, mi);
    mon_part_clone<Shape_>(c, *mesh, s0);
    mon_adapt<Shape_>(c, *mesh, s0);
    mon_node_and_attributes<Shape_>(c, std::move(mesh), s0);
  }
} // namespace c10
