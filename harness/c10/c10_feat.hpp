// c10_feat.hpp -- FEAT side of the C10 harness: snapshots of FEAT objects, workload construction, case drivers.
// Instantiated once per shape (c10_quad.cpp, c10_tria.cpp, c10_hexa.cpp, c10_tetra.cpp).
#pragma once
#include <c10/c10_core.hpp>
#include <common/vh_mesh.hpp>
#include <kernel/geometry/conformal_mesh.hpp>
#include <kernel/geometry/mesh_part.hpp>
#include <kernel/geometry/mesh_node.hpp>
#include <kernel/geometry/mesh_atlas.hpp>
#include <kernel/geometry/boundary_factory.hpp>
#include <kernel/geometry/mesh_file_reader.hpp>
#include <fstream>
#include <sys/stat.h>

namespace c10
{
  using namespace FEAT;

  template<typename Shape_> struct ShapeSel;
  template<> struct ShapeSel<Shape::Hypercube<2>> { static ShapeTab tab() { return tab_quad(); } static const char* type() { return "conformal:hypercube:2:2"; } };
  template<> struct ShapeSel<Shape::Simplex<2>>   { static ShapeTab tab() { return tab_tria(); } static const char* type() { return "conformal:simplex:2:2"; } };
  template<> struct ShapeSel<Shape::Hypercube<3>> { static ShapeTab tab() { return tab_hexa(); } static const char* type() { return "conformal:hypercube:3:3"; } };
  template<> struct ShapeSel<Shape::Simplex<3>>   { static ShapeTab tab() { return tab_tetra(); } static const char* type() { return "conformal:simplex:3:3"; } };

  template<typename Shape_>
  struct Ty
  {
    static constexpr int dim = Shape_::dimension;
    typedef Geometry::ConformalMesh<Shape_, dim, double> Mesh;
    typedef Geometry::MeshPart<Mesh> Part;
    typedef Geometry::RootMeshNode<Mesh> Node;
    typedef Geometry::MeshAtlas<Mesh> Atlas;
  };

  // ------------------------------------------------------------------------------------------ snapshots
  template<int d_, int e_, typename Holder_>
  void snap_is(const Holder_& h, std::vector<Idx>& out, Idx* bound)
  {
    const auto& is = h.template get_index_set<d_, e_>();
    const int ni = is.get_num_indices(); const Index ne = is.get_num_entities();
    out.resize(std::size_t(ne) * std::size_t(ni));
    for(Index i = 0; i < ne; ++i) for(int j = 0; j < ni; ++j) out[std::size_t(i) * std::size_t(ni) + std::size_t(j)] = Idx(is(i, j));
    if(bound) *bound = Idx(is.get_index_bound());
  }
  template<int dim_, typename Holder_>
  void snap_topology(const Holder_& h, std::vector<Idx> (&idx)[4][4], Idx (*bound)[4])
  {
    snap_is<1, 0>(h, idx[1][0], bound ? &bound[1][0] : nullptr);
    if constexpr(dim_ >= 2) { snap_is<2, 0>(h, idx[2][0], bound ? &bound[2][0] : nullptr); snap_is<2, 1>(h, idx[2][1], bound ? &bound[2][1] : nullptr); }
    if constexpr(dim_ >= 3) { snap_is<3, 0>(h, idx[3][0], bound ? &bound[3][0] : nullptr); snap_is<3, 1>(h, idx[3][1], bound ? &bound[3][1] : nullptr); snap_is<3, 2>(h, idx[3][2], bound ? &bound[3][2] : nullptr); }
  }
  template<int d_, typename Part_> void snap_ts(const Part_& p, std::vector<Idx>& out)
  {
    const auto& ts = p.template get_target_set<d_>();
    out.resize(ts.get_num_entities());
    for(Index i = 0; i < ts.get_num_entities(); ++i) out[i] = Idx(ts[i]);
  }
  template<typename Shape_>
  void snap_part(const typename Ty<Shape_>::Part* p, PartSnap& s)
  {
    constexpr int dim = Shape_::dimension;
    s.present = (p != nullptr);
    if(!p) return;
    for(int d = 0; d <= dim; ++d) s.n[d] = Idx(p->get_num_entities(d));
    snap_ts<0>(*p, s.trg[0]); snap_ts<1>(*p, s.trg[1]); snap_ts<2>(*p, s.trg[2]);
    if constexpr(dim >= 3) snap_ts<3>(*p, s.trg[3]);
    s.topo = p->has_topology();
    if(s.topo) snap_topology<dim>(*p, s.idx, nullptr);
  }
  template<typename Shape_>
  void snap_mesh(const typename Ty<Shape_>::Mesh& m, MeshSnap& s, bool with_boundary)
  {
    constexpr int dim = Shape_::dimension;
    for(int d = 0; d <= dim; ++d) s.n[d] = Idx(m.get_num_entities(d));
    const auto& vs = m.get_vertex_set();
    s.vtx.resize(std::size_t(vs.get_num_vertices()) * std::size_t(dim));
    for(Index i = 0; i < vs.get_num_vertices(); ++i) for(int k = 0; k < dim; ++k) s.vtx[std::size_t(i) * std::size_t(dim) + std::size_t(k)] = vs[i][k];
    snap_topology<dim>(m, s.idx, s.bound);
    if(with_boundary)
    {
      Geometry::BoundaryFactory<typename Ty<Shape_>::Mesh> bf(m);
      typename Ty<Shape_>::Part bp(bf);
      s.bnd.name = "<BoundaryFactory>"; snap_part<Shape_>(&bp, s.bnd); s.have_bnd = true;
    }
  }
  // total (signed) volume via vm::cell_volume on a MeshSpec rebuilt from vertex set + vertices-at-cell
  template<typename Shape_>
  void snap_volume(MeshSnap& s)
  {
    constexpr int dim = Shape_::dimension; const int nv = vm::ShapeInfo<Shape_>::nv;
    vm::MeshSpec<Shape_> ms;
    ms.verts.resize(s.n[0]);
    for(Idx i = 0; i < s.n[0]; ++i) { ms.verts[i] = {{0.0, 0.0, 0.0}}; for(int k = 0; k < dim; ++k) ms.verts[i][std::size_t(k)] = s.vtx[i * Idx(dim) + Idx(k)]; }
    ms.cells.resize(s.n[dim]);
    for(Idx i = 0; i < s.n[dim]; ++i) { ms.cells[i] = {{0, 0, 0, 0, 0, 0, 0, 0}}; for(int k = 0; k < nv; ++k) ms.cells[i][std::size_t(k)] = Index(s.idx[dim][0][i * Idx(nv) + Idx(k)]); }
    s.vol = 0; s.volabs = 0;
    for(Idx i = 0; i < s.n[dim]; ++i) { const LD v = vm::cell_volume(ms, Index(i)); s.vol += v; s.volabs += std::fabs(v); }
    s.have_vol = true;
  }
  template<typename Shape_>
  void snap_node(const typename Ty<Shape_>::Node& node, MeshSnap& s, bool geometry)
  {
    snap_mesh<Shape_>(*node.get_mesh(), s, true);
    if(geometry) snap_volume<Shape_>(s);
    for(const auto& nm : node.get_mesh_part_names())
    {
      PartSnap p; p.name = nm; p.kind = 0; p.charted = (node.find_mesh_part_chart(nm) != nullptr);
      snap_part<Shape_>(node.find_mesh_part(nm), p); s.parts.push_back(std::move(p));
    }
    for(const auto& h : node.get_halo_map()) { PartSnap p; p.name = std::to_string(h.first); p.kind = 1; snap_part<Shape_>(h.second.get(), p); s.parts.push_back(std::move(p)); }
    for(const auto& h : node.get_patch_map()) { PartSnap p; p.name = std::to_string(h.first); p.kind = 2; snap_part<Shape_>(h.second.get(), p); s.parts.push_back(std::move(p)); }
  }

  // ------------------------------------------------------------------------------------------ full-topology factory
  // Factory that hands FEAT a mesh with ALL index sets computed harness-side (c10::build_topology), i.e. the way a mesh
  // file does; no deduct_topology_from_top involved.
  template<typename Shape_>
  class FullFactory : public Geometry::Factory<typename Ty<Shape_>::Mesh>
  {
  public:
    typedef typename Ty<Shape_>::Mesh MeshT;
    const vm::MeshSpec<Shape_>& spec; Topo topo;
    explicit FullFactory(const vm::MeshSpec<Shape_>& ms, vh::Rng* rng) : spec(ms)
    {
      const int nv = vm::ShapeInfo<Shape_>::nv;
      std::vector<Idx> cells; cells.reserve(ms.cells.size() * std::size_t(nv));
      for(auto& cl : ms.cells) for(int k = 0; k < nv; ++k) cells.push_back(Idx(cl[std::size_t(k)]));
      build_topology(ShapeSel<Shape_>::tab(), Idx(ms.verts.size()), cells, rng, topo);
    }
    virtual Index get_num_entities(int dim) override { return Index(topo.n[dim]); }
    virtual void fill_vertex_set(typename MeshT::VertexSetType& vs) override
    { for(Index i = 0; i < Index(spec.verts.size()); ++i) for(int k = 0; k < Shape_::dimension; ++k) vs[i][k] = spec.verts[i][std::size_t(k)]; }
    template<int d_, int e_> void put(typename MeshT::IndexSetHolderType& ish)
    {
      auto& is = ish.template get_index_set<d_, e_>(); const int ni = is.get_num_indices();
      for(Index i = 0; i < is.get_num_entities(); ++i) for(int j = 0; j < ni; ++j) is(i, j) = Index(topo.idx[d_][e_][std::size_t(i) * std::size_t(ni) + std::size_t(j)]);
    }
    virtual void fill_index_sets(typename MeshT::IndexSetHolderType& ish) override
    {
      put<1, 0>(ish); put<2, 0>(ish); put<2, 1>(ish);
      if constexpr(Shape_::dimension >= 3) { put<3, 0>(ish); put<3, 1>(ish); put<3, 2>(ish); }
    }
  };

  // ------------------------------------------------------------------------------------------ harness-made mesh parts
  // builds a MeshPart from explicit target lists; with_topology: the part gets its topology from the parent
  // (deduct_topology), which requires the closure of every entity to be in the part
  template<typename Shape_>
  std::unique_ptr<typename Ty<Shape_>::Part> make_part(const typename Ty<Shape_>::Mesh& mesh, const std::vector<Idx> (&trg)[4], bool with_topology)
  {
    constexpr int dim = Shape_::dimension;
    Index ne[4] = {0, 0, 0, 0};
    for(int d = 0; d <= dim; ++d) ne[d] = Index(trg[d].size());
    std::unique_ptr<typename Ty<Shape_>::Part> p(new typename Ty<Shape_>::Part(ne, with_topology));
    auto fill = [&](auto& ts, int d) { for(Index i = 0; i < ne[d]; ++i) ts[i] = Index(trg[d][i]); };
    fill(p->template get_target_set<0>(), 0); fill(p->template get_target_set<1>(), 1); fill(p->template get_target_set<2>(), 2);
    if constexpr(dim >= 3) fill(p->template get_target_set<3>(), 3);
    if(with_topology) p->deduct_topology(mesh.get_index_set_holder());
    return p;
  }

  // Mesh part WITH OWN topology (a sub-mesh of vertices / edges / 2D entities, no 3D cells) whose entities are numbered
  // independently of the parent: every part edge / part face lists its vertices in a random element of the FULL symmetry
  // group of its shape (2 / 6 / 8 orders, incl. the mirrored ones) relative to the parent entity, the part's index sets
  // are consistent among themselves (edges-at-face follow the local-face table applied to the part face's own vertex
  // order) and the target sets point to the parent entities spanned by the same vertices.  trg must be closed
  // (every sub-entity of a listed entity is listed) and free of repetitions.
  template<typename Shape_>
  std::unique_ptr<typename Ty<Shape_>::Part> make_hostile_topo_part(vh::Rng& rng, const MeshSnap& m, const std::vector<Idx> (&trg)[4], bool& nontrivial_code)
  {
    constexpr int dim = Shape_::dimension; const ShapeTab t = ShapeSel<Shape_>::tab();
    Index ne[4] = {0, 0, 0, 0};
    for(int d = 0; d <= 2; ++d) ne[d] = Index(trg[d].size());
    std::unique_ptr<typename Ty<Shape_>::Part> p(new typename Ty<Shape_>::Part(ne, true));
    auto fill = [&](auto& ts, int d) { for(Index i = 0; i < ne[d]; ++i) ts[i] = Index(trg[d][i]); };
    fill(p->template get_target_set<0>(), 0); fill(p->template get_target_set<1>(), 1); fill(p->template get_target_set<2>(), 2);
    std::vector<Idx> vloc(m.n[0], NONE); for(Idx i = 0; i < Idx(trg[0].size()); ++i) vloc[trg[0][i]] = i;
    KeyMap<Idx> eloc;     // key of PARENT vertex pair -> part edge
    nontrivial_code = false;
    {
      auto& is = p->template get_index_set<1, 0>();
      for(Idx i = 0; i < Idx(trg[1].size()); ++i)
      {
        const Idx* pv = &m.idx[1][0][trg[1][i] * 2];
        const bool sw = rng.coin(); if(sw) nontrivial_code = true;
        is(Index(i), 0) = Index(vloc[pv[sw ? 1 : 0]]); is(Index(i), 1) = Index(vloc[pv[sw ? 0 : 1]]);
        eloc.emplace(make_key(pv, 2), i);
      }
    }
    if(!trg[2].empty())
    {
      const int nv = t.nv(2), nfe = t.nf(2, 1);
      auto& fv = p->template get_index_set<2, 0>(); auto& fe = p->template get_index_set<2, 1>();
      for(Idx i = 0; i < Idx(trg[2].size()); ++i)
      {
        const Idx* pv = &m.idx[2][0][trg[2][i] * Idx(nv)];
        const int code = int(rng.below(t.simplex ? 6 : 8)); if(code != 0) nontrivial_code = true;
        const int* sym = t.simplex ? tria_sym[code] : quad_sym[code];
        Idx w[4]; for(int k = 0; k < nv; ++k) { w[k] = pv[sym[k]]; fv(Index(i), k) = Index(vloc[w[k]]); }
        for(int j = 0; j < nfe; ++j) { const int* lf = t.face(2, 1, j); Idx e2[2] = {w[lf[0]], w[lf[1]]}; fe(Index(i), j) = Index(eloc.at(make_key(e2, 2))); }
      }
    }
    (void)dim;
    return p;
  }

  // random sub-collection of the d-entities; optionally with all sub-entities (closure), computed harness-side
  inline void random_targets(vh::Rng& rng, const ShapeTab& t, const MeshSnap& m, int top, double frac, bool closure, bool shuffle, std::vector<Idx> (&trg)[4])
  {
    for(int d = 0; d < 4; ++d) trg[d].clear();
    for(Idx i = 0; i < m.n[top]; ++i) if(rng.coin(frac)) trg[top].push_back(i);
    if(trg[top].empty() && m.n[top] > 0) trg[top].push_back(Idx(rng.below(m.n[top])));
    if(closure) for(int e = 0; e < top; ++e)
    {
      std::vector<char> in(m.n[e], 0);
      for(Idx x : trg[top]) for(int j = 0; j < t.nf(top, e); ++j) in[m.idx[top][e][x * Idx(t.nf(top, e)) + Idx(j)]] = 1;
      for(Idx i = 0; i < m.n[e]; ++i) if(in[i]) trg[e].push_back(i);
    }
    if(shuffle) for(int d = 0; d <= top; ++d) rng.shuffle(trg[d]);
  }

  template<typename Shape_>
  void attach_random_parts(vh::Ctx& c, typename Ty<Shape_>::Node& node, const MeshSnap& m)
  {
    const ShapeTab t = ShapeSel<Shape_>::tab(); const int dim = t.dim;
    vh::Rng& rng = c.rng;
    const auto& mesh = *node.get_mesh();
    const int nparts = int(rng.range(1, 4));
    for(int ip = 0; ip < nparts; ++ip)
    {
      const int top = int(rng.range(0, dim));
      const bool closure = top > 0 && rng.coin(0.6);
      // parts with an own topology that contain 3D cells are documented as not implemented (XASSERT in
      // standard_target_refiner.hpp "TargetSet refinement not implemented for Hexahedra/Tetrahedra"): not generated
      const bool topo = closure && top < 3 && rng.coin(0.4);
      const double frac = rng.pick<double>({0.05, 0.3, 0.7, 1.0});
      std::vector<Idx> trg[4];
      random_targets(rng, t, m, top, frac, closure, rng.coin(0.5), trg);
      bool dup = false;
      if(!topo && rng.coin(0.15) && !trg[top].empty()) { trg[top].push_back(trg[top][rng.below(trg[top].size())]); dup = true; }   // the same parent entity twice (allowed, cf. closed boundary parts)
      const std::string name = "vh" + std::to_string(ip) + "_d" + std::to_string(top) + (closure ? "c" : "") + (topo ? "t" : "") + (dup ? "r" : "");
      node.add_mesh_part(name, make_part<Shape_>(mesh, trg, topo));
      c.tag(std::string("part:d") + std::to_string(top) + (closure ? "+closure" : "") + (topo ? "+topology" : "") + (dup ? "+repeat" : ""));
      if(ip == 0 && rng.coin(0.5)) { node.add_halo(int(rng.range(0, 5)), make_part<Shape_>(mesh, trg, false)); c.tag("halo"); }
      if(ip == 1 && rng.coin(0.5)) { node.add_patch(int(rng.range(0, 5)), make_part<Shape_>(mesh, trg, false)); c.tag("patch"); }
    }
    // sub-mesh parts with an own, independently numbered topology (see make_hostile_topo_part)
    const int nhost = int(rng.range(0, 2));
    for(int ip = 0; ip < nhost; ++ip)
    {
      const int top = int(rng.range(1, 2));
      std::vector<Idx> trg[4];
      random_targets(rng, t, m, top, rng.pick<double>({0.1, 0.4, 1.0}), true, true, trg);
      bool nontriv = false;
      node.add_mesh_part("vhx" + std::to_string(ip) + "_d" + std::to_string(top), make_hostile_topo_part<Shape_>(rng, m, trg, nontriv));
      c.tag(std::string("part:d") + std::to_string(top) + "+own_topology" + (nontriv ? "+resymmetrised" : ""));
    }
    if(rng.coin(0.7))
    {
      Geometry::BoundaryFactory<typename Ty<Shape_>::Mesh> bf(mesh);
      node.add_mesh_part("vh_bnd", bf.make_unique()); c.tag("part:boundary");
    }
  }

  // ------------------------------------------------------------------------------------------ refinement chain
  inline Idx cell_cap(vh::Ctx& c)
  {
    // most cases small, a few up to the tier's limit (5e4 quick / 1e6 thorough)
    const double u = c.rng.unit();
    if(const char* e = std::getenv("C10_CAP")) return Idx(std::strtoull(e, nullptr, 10));   // (debug aid)
    if(c.thorough()) return u < 0.60 ? 3000 : u < 0.93 ? 30000 : u < 0.99 ? 200000 : 1000000;
    return u < 0.60 ? 1500 : u < 0.92 ? 10000 : 50000;
  }
  inline const char* cells_bucket(Idx n) { return n <= 1 ? "cells:1" : n <= 8 ? "cells:2-8" : n <= 64 ? "cells:9-64" : n <= 1000 ? "cells:65-1000" : "cells:1001+"; }

  // validates the input objects; returns false (and flags the case) if the input is not a valid conforming mesh
  template<typename Shape_>
  bool validate_input(vh::Ctx& c, const MeshSnap& s, MeshInfo& info, RefineOpts& o)
  {
    const ShapeTab t = ShapeSel<Shape_>::tab();
    Rep in(c, "input", true);
    check_mesh(in, t, s, "input", info);
    if(!in.ok())
    {
      std::string why; for(auto& p : in.problems) { if(!why.empty()) why += ","; why += p; }
      c.count("input_not_valid_conforming_mesh"); c.tag("input_invalid");
      c.note("input mesh is not a valid conforming mesh: " + why);
      if(std::getenv("C10_CONTINUE")) return true;
      c.trivial = true;
      return false;
    }
    for(const PartSnap& p : s.parts)
    {
      std::string why;
      if(!p.present) continue;
      if(!part_ranges_ok(t, s, p, why)) { o.skip_parts.insert(p.key()); c.count("input_part_invalid"); c.note("part " + p.key() + " skipped: " + why); continue; }
      if(p.topo && !part_topo_consistent(t, s, p, why)) { o.topo_skip.insert(p.key()); c.count("input_part_topology_not_target_consistent"); c.note("part " + p.key() + ": " + why); }
    }
    return true;
  }

  template<typename Shape_>
  void refine_chain_node(vh::Ctx& c, std::unique_ptr<typename Ty<Shape_>::Node> node, Geometry::AdaptMode mode, Idx cap, const std::string& opname)
  {
    const ShapeTab t = ShapeSel<Shape_>::tab(); const int dim = t.dim;
    // AdaptMode::dual without charts re-averages the cell centres from the facet midpoints: geometrically a no-op
    const bool dual = (mode == Geometry::AdaptMode::dual);
    const bool none = (mode == Geometry::AdaptMode::none) || dual;
    MeshSnap cs; snap_node<Shape_>(*node, cs, none);
    MeshInfo ci; RefineOpts o; o.geometry = none; if(dual) o.coord_ulps = 64;
    if(!validate_input<Shape_>(c, cs, ci, o)) return;
    c.tag(cells_bucket(cs.n[dim]));
    c.set_op(opname);
    { Rep r(c, "level 0"); check_boundary(r, t, cs, ci, "boundary_factory"); c.event(); }
    const Idx nchild = Idx(t.cc(dim, dim));
    int lvl = 0;
    while(cs.n[dim] * nchild <= cap && lvl < 8)
    {
      ++lvl;
      std::unique_ptr<typename Ty<Shape_>::Node> fine = node->refine_unique(mode);
      c.event();
      MeshSnap fs; snap_node<Shape_>(*fine, fs, none);
      Rep r(c, "level " + std::to_string(lvl - 1) + " -> " + std::to_string(lvl));
      MeshInfo fi;
      check_mesh(r, t, fs, opname, fi); c.event();
      if(r.seen.empty()) { check_boundary(r, t, fs, fi, "boundary_factory"); c.event(); }
      if(!none)
      {
        // vertices that a chart may have moved on this level: targets of the refined charted parts
        o.moved.assign(fs.n[0], 0);
        for(const PartSnap& p : fs.parts) if(p.charted && p.present) for(Idx x : p.trg[0]) if(x < fs.n[0]) o.moved[x] = 1;
      }
      check_refine(r, t, cs, fs, o, opname); c.event(1 + fs.parts.size());
      if(c.verbose()) std::printf("  level %d: cells %lu parts %lu viol-kinds %lu\n", lvl, (unsigned long)fs.n[dim], (unsigned long)fs.parts.size(), (unsigned long)r.seen.size());
      if(c.nviol > 0) break;    // a broken level makes every deeper level meaningless
      node = std::move(fine); cs = std::move(fs);
    }
    c.tag("levels:" + std::to_string(std::min(lvl, 4)) + (lvl > 4 ? "+" : ""));
    c.count("refinements", std::uint64_t(lvl));
    if(lvl == 0) c.trivial = true;
  }

  // barycentres of the entities a part refers to (per dimension, in part order)
  inline void part_barycentres(const ShapeTab& t, const MeshSnap& m, const PartSnap& p, std::vector<double> (&out)[4])
  {
    const int dim = t.dim;
    for(int d = 0; d <= dim; ++d)
    {
      out[d].clear();
      for(Idx x : p.trg[d])
      {
        double b[3] = {0, 0, 0};
        if(x < m.n[d])
        {
          Idx tmp[1]; const Idx* v = m.ent(t, d, x, tmp); const int nv = d == 0 ? 1 : t.nv(d);
          for(int k = 0; k < nv; ++k) for(int a = 0; a < dim; ++a) b[a] += m.vtx[std::size_t(v[k]) * std::size_t(dim) + std::size_t(a)] / double(nv);
        }
        else b[0] = b[1] = b[2] = 1e300; // out-of-range target
        for(int a = 0; a < dim; ++a) out[d].push_back(b[a]);
      }
    }
  }

  // applies a mesh permutation strategy to the node; monitors: the permuted mesh is a consistent conforming mesh with the
  // same counts and volume, and every entity of every part / halo / patch is still the same geometric entity
  template<typename Shape_>
  bool permute_node(vh::Ctx& c, typename Ty<Shape_>::Node& node, Geometry::PermutationStrategy strategy, const std::string& op)
  {
    const ShapeTab t = ShapeSel<Shape_>::tab(); const int dim = t.dim;
    MeshSnap before; snap_node<Shape_>(node, before, true);
    { MeshInfo bi; Rep rb(c, "before permutation"); check_mesh(rb, t, before, op, bi); if(c.nviol > 0) return false; }
    std::vector<std::vector<double>> bary_before;
    for(const PartSnap& p : before.parts) { std::vector<double> b[4]; if(p.present) part_barycentres(t, before, p, b); for(int d = 0; d <= dim; ++d) bary_before.push_back(b[d]); }
    node.create_permutation(strategy);
    c.event();
    MeshSnap after; snap_node<Shape_>(node, after, true);
    Rep r(c, "after create_permutation");
    MeshInfo ai; check_mesh(r, t, after, op, ai); c.event();
    for(int d = 0; d <= dim; ++d) if(after.n[d] != before.n[d])
      r.bad(op, "entity-count-changed", vh::J().kv("dim", d).kv("before", (unsigned long)before.n[d]).kv("after", (unsigned long)after.n[d]));
    if(before.have_vol && after.have_vol && !(std::fabs(double(before.vol - after.vol)) <= 1e-9 * std::fabs(double(before.volabs)) + 1e-300))
      r.bad(op, "volume-changed", vh::J().kv("before", double(before.vol)).kv("after", double(after.vol)));
    if(after.parts.size() != before.parts.size()) { r.bad(op, "part-set-changed", vh::J()); return false; }
    std::size_t bi = 0;
    for(std::size_t ip = 0; ip < after.parts.size(); ++ip)
    {
      const PartSnap& pa = after.parts[ip]; const PartSnap& pb = before.parts[ip];
      std::vector<double> b[4]; if(pa.present) part_barycentres(t, after, pa, b);
      for(int d = 0; d <= dim; ++d, ++bi)
      {
        c.event();
        if(pa.key() != pb.key() || pa.trg[d].size() != pb.trg[d].size()) { r.bad(op, "part-size-changed", vh::J().kv("part", pa.key()).kv("dim", d)); continue; }
        const std::vector<double>& x = bary_before[bi];
        for(std::size_t i = 0; i < x.size() && i < b[d].size(); ++i)
          if(!(std::fabs(x[i] - b[d][i]) <= 1e-12 * (1.0 + std::fabs(x[i]))))
          {
            r.bad(op, "part-entity-moved", vh::J().kv("part", pa.key()).kv("dim", d).kv("entity", (unsigned long)(i / std::size_t(dim)))
              .kv("barycentre_before", x[i]).kv("barycentre_after", b[d][i]));
            break;
          }
      }
    }
    return c.nviol == 0;
  }

  // bare meshes through StandardRefinery (no node, no parts)
  template<typename Shape_>
  void refine_chain_bare(vh::Ctx& c, std::unique_ptr<typename Ty<Shape_>::Mesh> mesh, Idx cap)
  {
    const ShapeTab t = ShapeSel<Shape_>::tab(); const int dim = t.dim;
    MeshSnap cs; snap_mesh<Shape_>(*mesh, cs, true); snap_volume<Shape_>(cs);
    MeshInfo ci; RefineOpts o;
    if(!validate_input<Shape_>(c, cs, ci, o)) return;
    c.tag(cells_bucket(cs.n[dim]));
    c.set_op("standard_refinery");
    { Rep r(c, "level 0"); check_boundary(r, t, cs, ci, "boundary_factory"); c.event(); }
    const Idx nchild = Idx(t.cc(dim, dim));
    int lvl = 0;
    while(cs.n[dim] * nchild <= cap && lvl < 8)
    {
      ++lvl;
      Geometry::StandardRefinery<typename Ty<Shape_>::Mesh> refinery(*mesh);
      std::unique_ptr<typename Ty<Shape_>::Mesh> fine = refinery.make_unique();
      c.event();
      MeshSnap fs; snap_mesh<Shape_>(*fine, fs, true); snap_volume<Shape_>(fs);
      Rep r(c, "level " + std::to_string(lvl - 1) + " -> " + std::to_string(lvl));
      MeshInfo fi;
      check_mesh(r, t, fs, "standard_refinery", fi); c.event();
      if(r.seen.empty()) { check_boundary(r, t, fs, fi, "boundary_factory"); c.event(); }
      check_refine(r, t, cs, fs, o, "standard_refinery"); c.event();
      if(c.nviol > 0) break;
      mesh = std::move(fine); cs = std::move(fs);
    }
    c.tag("levels:" + std::to_string(std::min(lvl, 4)) + (lvl > 4 ? "+" : ""));
    c.count("refinements", std::uint64_t(lvl));
    if(lvl == 0) c.trivial = true;
  }

  // ------------------------------------------------------------------------------------------ generated meshes
  template<typename Shape_> vm::MeshSpec<Shape_> gen_base(vh::Ctx& c, double& h);
  template<> inline vm::MeshSpec<Shape::Hypercube<2>> gen_base(vh::Ctx& c, double& h)
  {
    vh::Rng& r = c.rng; const long big = c.thorough() ? 12 : 7;
    const std::uint64_t edge = c.k / 4;     // the first indices of each shape are a fixed edge corpus
    if(edge == 0) { h = 1; return vm::quad_grid(1, 1); }
    if(edge == 1) { h = 0.5; return vm::quad_grid(2, 1); }
    if(edge == 2) { h = 1; return vm::quad_star(3); }
    switch(r.below(4))
    {
    case 0: { Index k = Index(r.range(3, 9)); h = 1; c.tag("mesh:star"); return vm::quad_star(k); }
    case 1: { Index n = Index(r.range(1, 2 * big)); h = 1.0 / double(n); c.tag("mesh:strip"); return r.coin() ? vm::quad_grid(n, 1) : vm::quad_grid(1, n); }
    default: { Index nx = Index(r.range(1, big)), ny = Index(r.range(1, big)); h = 1.0 / double(std::max(nx, ny)); c.tag("mesh:grid"); return vm::quad_grid(nx, ny); }
    }
  }
  template<> inline vm::MeshSpec<Shape::Simplex<2>> gen_base(vh::Ctx& c, double& h)
  {
    vh::Rng& r = c.rng; const long big = c.thorough() ? 10 : 6;
    const std::uint64_t edge = c.k / 4;
    if(edge == 0) { h = 1; return vm::tria_grid(1, 1); }
    Index nx = Index(r.range(1, big)), ny = Index(r.range(1, big)); h = 1.0 / double(std::max(nx, ny));
    if(r.coin()) { c.tag("mesh:grid_random_diagonals"); return vm::tria_grid(nx, ny, &r); }
    c.tag("mesh:grid"); return vm::tria_grid(nx, ny);
  }
  template<> inline vm::MeshSpec<Shape::Hypercube<3>> gen_base(vh::Ctx& c, double& h)
  {
    vh::Rng& r = c.rng; const long big = c.thorough() ? 5 : 3;
    const std::uint64_t edge = c.k / 4;
    if(edge == 0) { h = 1; return vm::hexa_grid(1, 1, 1); }
    if(edge == 1) { h = 0.5; return vm::hexa_grid(2, 1, 1); }
    Index nx = Index(r.range(1, big)), ny = Index(r.range(1, big)), nz = Index(r.range(1, big)); h = 1.0 / double(std::max(nx, std::max(ny, nz)));
    c.tag("mesh:grid"); return vm::hexa_grid(nx, ny, nz);
  }
  template<> inline vm::MeshSpec<Shape::Simplex<3>> gen_base(vh::Ctx& c, double& h)
  {
    vh::Rng& r = c.rng; const long big = c.thorough() ? 4 : 2;
    const std::uint64_t edge = c.k / 4;
    if(edge == 0) { h = 1; return vm::tetra_grid(1, 1, 1); }
    Index nx = Index(r.range(1, big)), ny = Index(r.range(1, big)), nz = Index(r.range(1, big)); h = 1.0 / double(std::max(nx, std::max(ny, nz)));
    c.tag("mesh:kuhn"); return vm::tetra_grid(nx, ny, nz);
  }

  // reverses the local numbering of some cells (orientation-reversing symmetry of the shape): the mesh stays a valid
  // conforming mesh, the affected cells have a negative Jacobian determinant
  template<typename Shape_>
  void flip_cells(vm::MeshSpec<Shape_>& m, vh::Rng& r, double frac)
  {
    const bool simplex = vm::ShapeInfo<Shape_>::nv == vm::ShapeInfo<Shape_>::dim + 1;
    for(auto& cl : m.cells) if(r.coin(frac))
    {
      if(simplex) std::swap(cl[0], cl[1]);
      else for(int v = 0; v < vm::ShapeInfo<Shape_>::nv; v += 2) std::swap(cl[std::size_t(v)], cl[std::size_t(v + 1)]);
    }
    m.tag("negative_cells");
  }

  template<typename Shape_>
  void run_gen(vh::Ctx& c)
  {
    vh::Rng& r = c.rng;
    c.tag(std::string("shape:") + ShapeSel<Shape_>::tab().name());
    double h = 1;
    vm::MeshSpec<Shape_> ms = gen_base<Shape_>(c, h);
    const bool corpus = (c.k / 4) < 3;
    if(corpus) c.tag("mesh:edge_corpus");
    // hostile variants
    if(!corpus || c.k % 8 >= 4)
    {
      if(r.coin(0.5)) vm::distort_interior(ms, r, h, r.pick<double>({0.05, 0.15, 0.25}));
      if(r.coin(0.6)) vm::reorient_cells(ms, r);
      if(r.coin(0.6)) vm::permute_vertices(ms, r);
      if(r.coin(0.6)) vm::permute_cells(ms, r);
      if(r.coin(0.4)) vm::affine_map(ms, r);
      if(r.coin(0.12)) flip_cells(ms, r, r.coin() ? 1.0 : 0.3);
    }
    for(auto& tg : ms.tags) c.tag(tg);
    const Idx cap = cell_cap(c);
    const bool bare = r.coin(0.25);
    c.desc = vh::J().raw("mesh", ms.describe()).raw("variant", vh::jarr(ms.tags)).kv("cell_cap", (unsigned long)cap).kv("bare_refinery", bare).str();
    // construction route: (A) vertices-at-cell + deduct_topology_from_top, (B) complete topology supplied by the harness
    // in first-occurrence numbering, (C) as (B) with randomly numbered and randomly oriented edges / faces
    const int route = int(r.below(3));
    c.tag(route == 0 ? "topology:deducted" : route == 1 ? "topology:explicit" : "topology:explicit_random");
    c.desc = vh::J().raw("mesh", ms.describe()).raw("variant", vh::jarr(ms.tags)).kv("topology", route == 0 ? "deduct_topology_from_top" : route == 1 ? "explicit" : "explicit, random edge/face numbering and orientation")
      .kv("cell_cap", (unsigned long)cap).kv("bare_refinery", bare).str();
    std::unique_ptr<typename Ty<Shape_>::Mesh> mesh;
    if(route == 0) mesh = vm::build<Shape_>(ms);
    else { FullFactory<Shape_> ff(ms, route == 2 ? &r : nullptr); mesh = ff.make_unique(); }
    if(route == 0)
    {
      // the vertices-at-cell lists are valid and conforming by construction, so an inconsistent topology is FEAT's doing
      MeshSnap s; snap_mesh<Shape_>(*mesh, s, false); MeshInfo mi; Rep rr(c, "input (vm::build)");
      c.set_op("deduct_topology_from_top"); check_mesh(rr, ShapeSel<Shape_>::tab(), s, "deduct_topology_from_top", mi); c.event();
      if(c.nviol > 0 && !std::getenv("C10_CONTINUE")) return;   // (debug aid: C10_CONTINUE=1 shows the consequences after refinement)
    }
    if(bare) { c.tag("bare_refinery"); refine_chain_bare<Shape_>(c, std::move(mesh), cap); return; }
    std::unique_ptr<typename Ty<Shape_>::Node> node = Ty<Shape_>::Node::make_unique(std::move(mesh));
    MeshSnap s0; snap_mesh<Shape_>(*node->get_mesh(), s0, false);
    attach_random_parts<Shape_>(c, *node, s0);
    // mesh permutation of the node (renumbers the mesh AND the target sets of all attached parts, halos and patches):
    // every part entity must still be the same geometric entity afterwards, and the permuted node must refine like any
    // other mesh
    if(r.coin(0.4))
    {
      static const Geometry::PermutationStrategy strategies[] = {Geometry::PermutationStrategy::random, Geometry::PermutationStrategy::lexicographic,
        Geometry::PermutationStrategy::colored, Geometry::PermutationStrategy::cuthill_mckee, Geometry::PermutationStrategy::cuthill_mckee_reversed,
        Geometry::PermutationStrategy::geometric_cuthill_mckee, Geometry::PermutationStrategy::geometric_cuthill_mckee_reversed};
      static const char* names[] = {"random", "lexicographic", "colored", "cuthill_mckee", "cuthill_mckee_reversed", "geometric_cuthill_mckee", "geometric_cuthill_mckee_reversed"};
      const int si = int(r.below(7));
      c.tag(std::string("perm:") + names[si]);
      const std::string op = "create_permutation";
      c.set_op(op);
      if(!permute_node<Shape_>(c, *node, strategies[si], op)) return;
    }
    // chart-free meshes: the dual adaption mode (cell centres := mean of the facet midpoints) must leave a refined mesh
    // that satisfies the same oracles as AdaptMode::none
    const bool dual = r.coin(0.3);
    if(dual) c.tag("adapt:dual");
    refine_chain_node<Shape_>(c, std::move(node), dual ? Geometry::AdaptMode::dual : Geometry::AdaptMode::none, cap, dual ? "refine_unique.dual" : "refine_unique.none");
  }

  // ------------------------------------------------------------------------------------------ mesh files
  inline long file_size(const std::string& p) { struct stat st; return stat(p.c_str(), &st) == 0 ? long(st.st_size) : -1; }

  // a mesh file read into FEAT objects (the atlas must outlive the node)
  template<typename Shape_>
  struct Loaded
  {
    std::unique_ptr<typename Ty<Shape_>::Atlas> atlas;
    std::unique_ptr<typename Ty<Shape_>::Node> node;
    Geometry::PartitionSet partitions;
    bool external_charts = false, unlinked = false;
  };

  // reads a mesh file; if its mesh parts refer to charts defined elsewhere, the chart-only files of the directory are
  // tried as companions; if no companion provides the charts, the file is read without linking parts to charts
  template<typename Shape_>
  bool read_file(const std::string& path, const std::vector<std::string>& chart_files, Loaded<Shape_>& out, std::string& err)
  {
    for(std::size_t attempt = 0; attempt <= chart_files.size() + 1; ++attempt)
    {
      const bool last = (attempt == chart_files.size() + 1);
      std::ifstream ifs(path); if(!ifs) { err = "cannot open " + path; return false; }
      std::ifstream cfs;
      Geometry::MeshFileReader reader;
      if(attempt > 0 && !last) { cfs.open(chart_files[attempt - 1]); if(!cfs) continue; reader.add_stream(cfs); }
      reader.add_stream(ifs);
      reader.read_root_markup();
      if(reader.get_meshtype_string() != ShapeSel<Shape_>::type()) { err = "mesh type string '" + reader.get_meshtype_string() + "' does not match the dispatch"; return false; }
      out.atlas.reset(new typename Ty<Shape_>::Atlas());
      out.node = Ty<Shape_>::Node::make_unique(nullptr, out.atlas.get());
      out.partitions.clear();
      try
      {
        if(!last) reader.parse(*out.node, *out.atlas, &out.partitions);
        else
        {
          Geometry::MeshNodeLinker<typename Ty<Shape_>::Mesh> linker(*out.node, *out.atlas);
          reader.parse(linker, *out.node, *out.atlas, &out.partitions);   // linker deliberately not executed
          out.unlinked = true;
        }
      }
      catch(const Geometry::MeshNodeLinkerError& e) { err = e.what(); out.node.reset(); continue; }   // chart not found: next companion
      catch(const std::exception& e) { if(attempt == 0 || last) throw; err = e.what(); out.node.reset(); continue; }   // companion of another dimension
      if(out.node->get_mesh() == nullptr) { err = "file has no mesh"; return false; }
      out.external_charts = (attempt > 0 && !last);
      return true;
    }
    return false;
  }

  template<typename Shape_>
  void run_file(vh::Ctx& c, const std::string& path, const std::vector<std::string>& chart_files)
  {
    vh::Rng& r = c.rng;
    c.tag(std::string("shape:") + ShapeSel<Shape_>::tab().name()); c.tag("mesh:file");
    const std::string base = path.substr(path.rfind('/') + 1);
    c.tag("file:" + base);
    Loaded<Shape_> ld;
    std::string err;
    if(!read_file<Shape_>(path, chart_files, ld, err)) { c.set_op("mesh_file_reader"); c.inconclusive("cannot read " + base + ": " + err); c.trivial = true; return; }
    std::unique_ptr<typename Ty<Shape_>::Node>& node = ld.node;
    if(ld.external_charts) c.tag("external_charts");
    if(ld.unlinked) c.tag("charts_not_linked");
    bool has_chart = false; std::size_t nparts = 0, ntopo = 0;
    for(const auto& nm : node->get_mesh_part_names()) { ++nparts; if(node->find_mesh_part_chart(nm)) has_chart = true; if(node->find_mesh_part(nm) && node->find_mesh_part(nm)->has_topology()) ++ntopo; }
    if(nparts) c.tag("file_parts"); if(ntopo) c.tag("file_parts_with_topology");
    Geometry::AdaptMode mode = Geometry::AdaptMode::none;
    if(has_chart && r.coin(0.5)) mode = Geometry::AdaptMode::chart;
    c.tag(mode == Geometry::AdaptMode::none ? "adapt:none" : "adapt:chart");
    const Idx cap = cell_cap(c);
    MeshSnap s0; snap_mesh<Shape_>(*node->get_mesh(), s0, false);
    if(r.coin(0.7)) attach_random_parts<Shape_>(c, *node, s0);
    c.desc = vh::J().kv("file", base).kv("mesh_parts", (unsigned long)nparts).kv("with_topology", (unsigned long)ntopo).kv("charts", has_chart)
      .kv("adapt", mode == Geometry::AdaptMode::none ? "none" : "chart").kv("cell_cap", (unsigned long)cap).str();
    c.sig = std::string("file|") + base + (mode == Geometry::AdaptMode::none ? "|none" : "|chart");
    refine_chain_node<Shape_>(c, std::move(node), mode, std::max<Idx>(cap, s0.n[Shape_::dimension] * Idx(ShapeSel<Shape_>::tab().cc(Shape_::dimension, Shape_::dimension))),
      mode == Geometry::AdaptMode::none ? "refine_unique.none" : "refine_unique.chart");
  }
} // namespace c10
