// C10, shape TU: tria
#include <c10/c10_feat.hpp>
void c10_gen_tria(vh::Ctx& c) { c10::run_gen<FEAT::Shape::Simplex<2>>(c); }
void c10_file_tria(vh::Ctx& c, const std::string& path, const std::vector<std::string>& chart_files) { c10::run_file<FEAT::Shape::Simplex<2>>(c, path, chart_files); }
