// C10 -- refined meshes are conforming and every mesh part follows its parent entities.
//
// Families
//   gen   : harness-generated meshes (vh_mesh: grids, strips, stars, Kuhn tetrahedra) for quad/tria/hexa/tetra with
//           random renumbering of vertices/cells, random orientation-preserving local renumbering, orientation-reversed
//           cells, interior distortion, affine maps; random mesh parts (vertex/edge/face/cell subsets, with and without
//           closure / topology / repeated entities), a BoundaryFactory part, halo and patch parts attached to the root
//           node; refined by RootMeshNode::refine_unique(AdaptMode::none) or (25 %) as bare meshes by StandardRefinery.
//   files : every mesh file of /repo/data/meshes (directory enumerated at run time, shape taken from the type string of
//           the root markup) with its own mesh parts (+ random harness parts), AdaptMode::none or ::chart.
// After every refinement all index sets, the vertex set and the target sets (and topologies) of all parts are copied out
// and judged by the FEAT-independent oracles of c10_core.hpp.
#include <common/vh.hpp>
#include <dirent.h>
#include <sys/stat.h>
#include <fstream>
#include <kernel/runtime.hpp>

void c10_gen_quad(vh::Ctx&); void c10_gen_tria(vh::Ctx&); void c10_gen_hexa(vh::Ctx&); void c10_gen_tetra(vh::Ctx&);
void c10_file_quad(vh::Ctx&, const std::string&, const std::vector<std::string>&);
void c10_file_tria(vh::Ctx&, const std::string&, const std::vector<std::string>&);
void c10_file_hexa(vh::Ctx&, const std::string&, const std::vector<std::string>&);
void c10_file_tetra(vh::Ctx&, const std::string&, const std::vector<std::string>&);

namespace
{
  struct FileEntry { std::string path, type; long size; };
  struct Corpus { std::vector<FileEntry> meshes; std::vector<std::string> charts; };

  // the mesh type string of the root markup <FeatMeshFile version="1" mesh="conformal:hypercube:2:2">
  std::string root_mesh_type(const std::string& path)
  {
    std::ifstream f(path); std::string line, head;
    while(std::getline(f, line) && head.size() < 4096) { head += line; head += ' '; if(head.find("<FeatMeshFile") != std::string::npos && head.find('>', head.find("<FeatMeshFile")) != std::string::npos) break; }
    std::size_t a = head.find("<FeatMeshFile"); if(a == std::string::npos) return "?";
    std::size_t e = head.find('>', a); std::string tag = head.substr(a, e - a);
    std::size_t m = tag.find("mesh=\""); if(m == std::string::npos) return "";
    m += 6; return tag.substr(m, tag.find('"', m) - m);
  }
  const Corpus& corpus()
  {
    static Corpus cp; static bool done = false;
    if(done) return cp; done = true;
    const char* env = std::getenv("VERIF_REPO");
    const std::string dir = std::string(env ? env : "/repo") + "/data/meshes";
    std::vector<std::string> names;
    if(DIR* d = opendir(dir.c_str())) { while(dirent* e = readdir(d)) { std::string n = e->d_name; if(n.size() > 4 && n.substr(n.size() - 4) == ".xml") names.push_back(n); } closedir(d); }
    std::sort(names.begin(), names.end());
    for(auto& n : names)
    {
      const std::string p = dir + "/" + n; struct stat st; long sz = stat(p.c_str(), &st) == 0 ? long(st.st_size) : -1;
      const std::string ty = root_mesh_type(p);
      if(ty.empty()) cp.charts.push_back(p); else if(ty != "?") cp.meshes.push_back({p, ty, sz});
    }
    return cp;
  }
}

VH_FAMILY(gen)
{
  switch(c.k % 4)
  {
  case 0: c10_gen_quad(c); break;
  case 1: c10_gen_tria(c); break;
  case 2: c10_gen_hexa(c); break;
  default: c10_gen_tetra(c); break;
  }
}

VH_FAMILY(files)
{
  const Corpus& cp = corpus();
  if(cp.meshes.empty()) { c.inconclusive("no mesh files found under data/meshes"); return; }
  const FileEntry& f = cp.meshes[c.k % cp.meshes.size()];
  // quick tier: very large files are left to the thorough tier
  if(!c.thorough() && f.size > 200000) { c.trivial = true; c.count("large_file_skipped_in_quick"); c.set_op("skip"); return; }
  if(f.type == "conformal:hypercube:2:2") c10_file_quad(c, f.path, cp.charts);
  else if(f.type == "conformal:simplex:2:2") c10_file_tria(c, f.path, cp.charts);
  else if(f.type == "conformal:hypercube:3:3") c10_file_hexa(c, f.path, cp.charts);
  else if(f.type == "conformal:simplex:3:3") c10_file_tetra(c, f.path, cp.charts);
  else { c.trivial = true; c.count("unsupported_mesh_type:" + f.type); }
}

int main(int argc, char** argv) { FEAT::Runtime::ScopeGuard guard(argc, argv); return vh::main_impl(argc, argv); }
