// c10x_core.hpp -- FEAT-independent oracles for the C10 utility families (unit c10x): facet neighbours, element
// colouring / layering, documented permutation relation, deducted target sets, masked boundary, refined attributes.
//
// Everything works on snapshots (c10_core.hpp); the reference is always derived from the vertices-at-cell lists / the
// validated index sets of the INPUT mesh and the documented conventions, never from the FEAT call under test.
#pragma once
#include <c10/c10_core.hpp>

namespace c10
{
  // ------------------------------------------------------------------------------------------ facet neighbours
  // expected neighbour of cell i across local facet j: the other cell that has the same facet (as vertex set of the
  // documented local face j of the vertices-at-cell list), NONE at the boundary
  inline void expected_neighbors(const ShapeTab& t, const MeshSnap& m, std::vector<Idx>& nb)
  {
    const int dim = t.dim, fd = dim - 1, nfc = t.nf(dim, fd), nvf = t.nv(fd), nvc = t.nv(dim);
    struct Two { Idx a = NONE, b = NONE; std::uint32_t n = 0; };
    KeyMap<Two> mp; mp.reserve(std::size_t(m.n[dim]) * std::size_t(nfc));
    for(Idx i = 0; i < m.n[dim]; ++i) for(int j = 0; j < nfc; ++j)
    {
      Idx w[8]; const int* lf = t.face(dim, fd, j);
      for(int k = 0; k < nvf; ++k) w[k] = m.idx[dim][0][i * Idx(nvc) + Idx(lf[k])];
      Two& x = mp[make_key(w, nvf)];
      if(x.n == 0) x.a = i; else if(x.n == 1) x.b = i;
      ++x.n;
    }
    nb.assign(std::size_t(m.n[dim]) * std::size_t(nfc), NONE);
    for(Idx i = 0; i < m.n[dim]; ++i) for(int j = 0; j < nfc; ++j)
    {
      Idx w[8]; const int* lf = t.face(dim, fd, j);
      for(int k = 0; k < nvf; ++k) w[k] = m.idx[dim][0][i * Idx(nvc) + Idx(lf[k])];
      const Two& x = mp[make_key(w, nvf)];
      nb[i * Idx(nfc) + Idx(j)] = (x.n == 2) ? (x.a == i ? x.b : x.a) : NONE;
    }
  }
  inline void check_neighbors(Rep& r, const ShapeTab& t, const MeshSnap& m, const std::vector<Idx>& got, const std::string& op)
  {
    const int nfc = t.nf(t.dim, t.dim - 1);
    if(got.size() != std::size_t(m.n[t.dim]) * std::size_t(nfc))
    { r.bad(op, "neighbor-set-size", vh::J().kv("size", (unsigned long)got.size()).kv("cells", (unsigned long)m.n[t.dim])); return; }
    std::vector<Idx> want; expected_neighbors(t, m, want);
    for(std::size_t k = 0; k < got.size(); ++k) if(got[k] != want[k])
    {
      r.bad(op, want[k] == NONE ? "neighbor-at-boundary-facet" : got[k] == NONE ? "neighbor-missing" : "neighbor-wrong",
        vh::J().kv("cell", (unsigned long)(k / std::size_t(nfc))).kv("local_facet", int(k % std::size_t(nfc)))
        .kv("got", got[k] == NONE ? -1L : long(got[k])).kv("expected", want[k] == NONE ? -1L : long(want[k])));
      return;
    }
  }

  // ------------------------------------------------------------------------------------------ colouring / layering
  // documented layout of both vectors: offsets of the first element of every colour / layer, length N+1, first entry 0,
  // last entry = number of elements (so the blocks partition the elements)
  inline bool check_offsets(Rep& r, const std::vector<Idx>& off, Idx ncells, const std::string& op, const std::string& what)
  {
    if(off.empty()) { r.bad(op, what + "-missing", vh::J().kv("cells", (unsigned long)ncells)); return false; }
    if(off.front() != 0) { r.bad(op, what + "-first-offset-not-zero", vh::J().kv("first", (unsigned long)off.front())); return false; }
    for(std::size_t i = 0; i + 1 < off.size(); ++i) if(off[i] > off[i + 1])
    { r.bad(op, what + "-offsets-not-monotone", vh::J().kv("block", (unsigned long)i).kv("offset", (unsigned long)off[i]).kv("next", (unsigned long)off[i + 1])); return false; }
    if(off.back() != ncells)
    {
      r.bad(op, what + "-last-offset-not-num-elements", vh::J().kv("entries", (unsigned long)off.size()).kv("last", (unsigned long)off.back()).kv("cells", (unsigned long)ncells));
      return false;
    }
    return true;
  }
  // block (colour / layer) of every cell; cells beyond the last offset get NONE
  inline void block_of_cells(const std::vector<Idx>& off, Idx ncells, std::vector<Idx>& blk)
  {
    blk.assign(ncells, NONE);
    for(std::size_t b = 0; b + 1 < off.size(); ++b) for(Idx i = off[b]; i < off[b + 1] && i < ncells; ++i) blk[i] = Idx(b);
  }
  // PROPER colouring: two different cells that share a vertex have different colours.  Returns the harness verdict.
  inline bool check_coloring(Rep& r, const ShapeTab& t, const MeshSnap& m, const std::vector<Idx>& off, const std::string& op)
  {
    const int dim = t.dim, nvc = t.nv(dim); const Idx nc = m.n[dim];
    if(!check_offsets(r, off, nc, op, "coloring")) return false;
    std::vector<Idx> col; block_of_cells(off, nc, col);
    // (vertex, colour, cell) triples, sorted: equal (vertex, colour) of two cells = conflict
    std::vector<std::array<Idx, 3>> tr; tr.reserve(std::size_t(nc) * std::size_t(nvc));
    for(Idx i = 0; i < nc; ++i) for(int a = 0; a < nvc; ++a) tr.push_back({{m.idx[dim][0][i * Idx(nvc) + Idx(a)], col[i], i}});
    std::sort(tr.begin(), tr.end());
    for(std::size_t k = 0; k + 1 < tr.size(); ++k) if(tr[k][0] == tr[k + 1][0] && tr[k][1] == tr[k + 1][1] && tr[k][2] != tr[k + 1][2])
    {
      r.bad(op, "coloring-not-proper", vh::J().kv("cell_a", (unsigned long)tr[k][2]).kv("cell_b", (unsigned long)tr[k + 1][2]).kv("shared_vertex", (unsigned long)tr[k][0])
        .kv("color", (unsigned long)tr[k][1]).kv("colors", (unsigned long)(off.size() - 1)));
      return false;
    }
    return true;
  }
  // layering: two different cells that share a vertex lie in the same or in adjacent layers
  inline bool check_layering(Rep& r, const ShapeTab& t, const MeshSnap& m, const std::vector<Idx>& off, const std::string& op)
  {
    const int dim = t.dim, nvc = t.nv(dim); const Idx nc = m.n[dim];
    if(!check_offsets(r, off, nc, op, "layering")) return false;
    std::vector<Idx> lay; block_of_cells(off, nc, lay);
    std::vector<Idx> lo(m.n[0], NONE), hi(m.n[0], 0), clo(m.n[0], NONE), chi(m.n[0], NONE);
    for(Idx i = 0; i < nc; ++i) for(int a = 0; a < nvc; ++a)
    {
      const Idx v = m.idx[dim][0][i * Idx(nvc) + Idx(a)];
      if(lo[v] == NONE || lay[i] < lo[v]) { lo[v] = lay[i]; clo[v] = i; }
      if(chi[v] == NONE || lay[i] > hi[v]) { hi[v] = lay[i]; chi[v] = i; }
    }
    for(Idx v = 0; v < m.n[0]; ++v) if(lo[v] != NONE && hi[v] - lo[v] > 1)
    {
      r.bad(op, "layering-adjacent-cells-more-than-one-layer-apart", vh::J().kv("cell_a", (unsigned long)clo[v]).kv("layer_a", (unsigned long)lo[v])
        .kv("cell_b", (unsigned long)chi[v]).kv("layer_b", (unsigned long)hi[v]).kv("shared_vertex", (unsigned long)v).kv("layers", (unsigned long)(off.size() - 1)));
      return false;
    }
    return true;
  }

  // ------------------------------------------------------------------------------------------ permutations
  struct PermSnap
  {
    std::vector<Idx> p[4], q[4];     // forward / inverse positions per dimension (empty = no permutation stored)
    std::vector<Idx> coloring, layering;
    int validate_sizes = 0; bool is_permuted = false;
    int val_col = -1, val_lay = -1;  // results of validate_element_coloring / _layering on the permuted mesh
  };
  // per dimension: forward and inverse permutation are stored together, have the size of the entity count, are
  // bijections and inverse to each other
  inline bool check_perm_arrays(Rep& r, const ShapeTab& t, const Idx* n, const PermSnap& ps, const std::string& op)
  {
    bool ok = true;
    for(int d = 0; d <= t.dim; ++d)
    {
      const std::vector<Idx>& p = ps.p[d]; const std::vector<Idx>& q = ps.q[d];
      if(p.empty() != q.empty() && n[d] > 0)
      { r.bad(op, p.empty() ? "forward-permutation-missing" : "inverse-permutation-missing", vh::J().kv("dim", d).kv("entities", (unsigned long)n[d])); ok = false; continue; }
      if(p.empty()) continue;
      if(p.size() != std::size_t(n[d]) || q.size() != std::size_t(n[d]))
      { r.bad(op, "permutation-size", vh::J().kv("dim", d).kv("forward", (unsigned long)p.size()).kv("inverse", (unsigned long)q.size()).kv("entities", (unsigned long)n[d])); ok = false; continue; }
      std::vector<char> seen(n[d], 0); bool bij = true;
      for(Idx k = 0; k < n[d] && bij; ++k) { if(p[k] >= n[d] || seen[p[k]]) { r.bad(op, "permutation-not-bijective", vh::J().kv("dim", d).kv("position", (unsigned long)k).kv("value", (unsigned long)p[k])); bij = false; } else seen[p[k]] = 1; }
      if(!bij) { ok = false; continue; }
      for(Idx k = 0; k < n[d]; ++k) if(q[k] >= n[d] || p[q[k]] != k)
      { r.bad(op, "inverse-permutation-wrong", vh::J().kv("dim", d).kv("old_position", (unsigned long)k).kv("inverse", (unsigned long)q[k]).kv("forward_of_inverse", q[k] < n[d] ? long(p[q[k]]) : -1L)); ok = false; break; }
    }
    return ok;
  }
  // documented relation x_new[k] = x_old[P[k]]: vertex k of the permuted mesh is old vertex P0[k] (coordinates
  // bit-identical), entity k of dimension d is old entity Pd[k] with every vertex / sub-entity index v replaced by its
  // new position Q[v]; dimensions without stored permutation are not renumbered
  inline void check_permuted_mesh(Rep& r, const ShapeTab& t, const MeshSnap& b, const MeshSnap& a, const PermSnap& ps, const std::string& op)
  {
    const int dim = t.dim;
    for(int d = 0; d <= dim; ++d) if(a.n[d] != b.n[d]) { r.bad(op, "entity-count-changed", vh::J().kv("dim", d).kv("before", (unsigned long)b.n[d]).kv("after", (unsigned long)a.n[d])); return; }
    auto P = [&](int d, Idx k) { return ps.p[d].empty() ? k : ps.p[d][k]; };
    auto Q = [&](int d, Idx k) { return ps.q[d].empty() ? k : ps.q[d][k]; };
    for(Idx k = 0; k < a.n[0]; ++k) for(int c = 0; c < dim; ++c) if(!(a.vtx[k * Idx(dim) + Idx(c)] == b.vtx[P(0, k) * Idx(dim) + Idx(c)]))
    { r.bad(op, "vertex-not-at-documented-position", vh::J().kv("new_vertex", (unsigned long)k).kv("old_vertex", (unsigned long)P(0, k)).kv("coord", c).kv("got", a.vtx[k * Idx(dim) + Idx(c)]).kv("expected", b.vtx[P(0, k) * Idx(dim) + Idx(c)])); return; }
    for(int d = 1; d <= dim; ++d) for(int e = 0; e < d; ++e)
    {
      const int nf = t.nf(d, e);
      for(Idx k = 0; k < a.n[d]; ++k) for(int j = 0; j < nf; ++j)
      {
        const Idx got = a.idx[d][e][k * Idx(nf) + Idx(j)], want = Q(e, b.idx[d][e][P(d, k) * Idx(nf) + Idx(j)]);
        if(got != want)
        { r.bad(op, "index-set-not-permuted-as-documented", vh::J().kv("d", d).kv("e", e).kv("new_entity", (unsigned long)k).kv("old_entity", (unsigned long)P(d, k)).kv("local", j).kv("got", (unsigned long)got).kv("expected", (unsigned long)want)); return; }
      }
    }
  }

  // ------------------------------------------------------------------------------------------ deducted target sets
  // top to bottom: every EMPTY target set below `top` becomes the set of sub-entities of the entities of the next higher
  // dimension's target set
  inline void oracle_from_top(const ShapeTab& t, const MeshSnap& m, int top, std::vector<Idx> (&trg)[4], bool (&ded)[4])
  {
    for(int d = 0; d < 4; ++d) ded[d] = false;
    for(int d = top - 1; d >= 0; --d)
    {
      if(!trg[d].empty()) continue;
      ded[d] = true;
      std::vector<char> in(m.n[d], 0); const int nf = t.nf(d + 1, d);
      for(Idx x : trg[d + 1]) for(int j = 0; j < nf; ++j) in[m.idx[d + 1][d][x * Idx(nf) + Idx(j)]] = 1;
      for(Idx i = 0; i < m.n[d]; ++i) if(in[i]) trg[d].push_back(i);
    }
  }
  // bottom to top: every EMPTY target set above `bot` becomes the set of entities ALL of whose sub-entities of the next
  // lower dimension are in that dimension's target set
  inline void oracle_from_bottom(const ShapeTab& t, const MeshSnap& m, int bot, std::vector<Idx> (&trg)[4], bool (&ded)[4])
  {
    for(int d = 0; d < 4; ++d) ded[d] = false;
    for(int d = bot + 1; d <= t.dim; ++d)
    {
      if(!trg[d].empty()) continue;
      ded[d] = true;
      std::vector<char> in(m.n[d - 1], 0); const int nf = t.nf(d, d - 1);
      for(Idx x : trg[d - 1]) in[x] = 1;
      for(Idx i = 0; i < m.n[d]; ++i)
      {
        bool all = true;
        for(int j = 0; j < nf; ++j) if(!in[m.idx[d][d - 1][i * Idx(nf) + Idx(j)]]) all = false;
        if(all) trg[d].push_back(i);
      }
    }
  }
  inline void check_deducted(Rep& r, const ShapeTab& t, const MeshSnap& m, const PartSnap& got, const std::vector<Idx> (&want)[4], const bool (&ded)[4], const std::string& op)
  {
    for(int d = 0; d <= t.dim; ++d)
    {
      if(got.n[d] != Idx(got.trg[d].size())) r.bad(op, "num-entities-not-updated", vh::J().kv("dim", d).kv("num_entities", (unsigned long)got.n[d]).kv("target_set_size", (unsigned long)got.trg[d].size()));
      if(!ded[d])
      {
        if(got.trg[d] != want[d]) r.bad(op, "given-target-set-changed", vh::J().kv("dim", d).kv("size_before", (unsigned long)want[d].size()).kv("size_after", (unsigned long)got.trg[d].size()));
        continue;
      }
      std::vector<char> w(m.n[d], 0), g(m.n[d], 0);
      for(Idx x : want[d]) w[x] = 1;
      bool stop = false;
      for(Idx x : got.trg[d])
      {
        if(x >= m.n[d]) { r.bad(op, "deducted-target-out-of-range", vh::J().kv("dim", d).kv("target", (unsigned long)x)); stop = true; break; }
        if(g[x]) { r.bad(op, "deducted-target-listed-twice", vh::J().kv("dim", d).kv("target", (unsigned long)x)); stop = true; break; }
        g[x] = 1;
      }
      if(stop) continue;
      for(Idx i = 0; i < m.n[d]; ++i) if(g[i] != w[i])
      { r.bad(op, g[i] ? "deducted-extra-entity" : "deducted-missing-entity", vh::J().kv("dim", d).kv("entity", (unsigned long)i).kv("got_size", (unsigned long)got.trg[d].size()).kv("expected_size", (unsigned long)want[d].size())); break; }
    }
  }

  // ------------------------------------------------------------------------------------------ masked boundary
  // MaskedBoundaryFactory output == boundary facets (one adjacent cell) that are not masked + their closure, each once
  inline void check_masked_boundary(Rep& r, const ShapeTab& t, const MeshSnap& m, const MeshInfo& info, const std::vector<char>& masked, const PartSnap& got, const std::string& op)
  {
    const int fd = t.dim - 1;
    MeshSnap tmp; for(int d = 0; d < 4; ++d) tmp.n[d] = m.n[d];
    tmp.idx[fd][0] = m.idx[fd][0]; if(fd == 2) tmp.idx[2][1] = m.idx[2][1];
    tmp.bnd = got; tmp.have_bnd = true;
    MeshInfo mi; mi.facet_cells = info.facet_cells;
    for(Idx f = 0; f < m.n[fd]; ++f) if(masked[f] && mi.facet_cells[f] == 1) mi.facet_cells[f] = 2;   // excluded from the expected set
    check_boundary(r, t, tmp, mi, op);
  }

  // ------------------------------------------------------------------------------------------ refined attributes
  struct AttrSnap { bool present = false; int dim = 0; Idx nvals = 0; std::vector<double> v; };
  // attribute values of the refined part: [values of the coarse part vertices (bit-identical) | mean over the two part
  // vertices of every part edge | (quadrilaterals) mean over the four part vertices of every part face], in terms of the
  // part's OWN topology
  inline void check_refined_attribute(Rep& r, const ShapeTab& t, const PartSnap& cp, const AttrSnap& ca, const PartSnap& fp, const AttrSnap& fa, const std::string& name, const std::string& op)
  {
    if(!fa.present) { r.bad(op, "attribute-lost", vh::J().kv("part", cp.name).kv("attribute", name)); return; }
    if(fa.dim != ca.dim) { r.bad(op, "attribute-dimension-changed", vh::J().kv("attribute", name).kv("coarse", ca.dim).kv("fine", fa.dim)); return; }
    if(fa.nvals != fp.n[0]) { r.bad(op, "attribute-num-values", vh::J().kv("attribute", name).kv("values", (unsigned long)fa.nvals).kv("fine_part_vertices", (unsigned long)fp.n[0])); return; }
    Idx off = 0;
    for(int s = 0; s <= 2; ++s)
    {
      if(t.cc(s, 0) == 0) continue;
      const int nv = s == 0 ? 1 : t.nv(s);
      for(Idx i = 0; i < cp.n[s]; ++i) for(int j = 0; j < ca.dim; ++j)
      {
        LD sum = 0, mx = 0;
        for(int a = 0; a < nv; ++a)
        {
          const Idx pv = s == 0 ? i : cp.idx[s][0][i * Idx(nv) + Idx(a)];
          const LD x = (LD)ca.v[std::size_t(pv) * std::size_t(ca.dim) + std::size_t(j)]; sum += x; mx = std::max(mx, std::fabs(x));
        }
        const LD ref = sum / LD(nv); const double got = fa.v[std::size_t(off + i) * std::size_t(fa.dim) + std::size_t(j)];
        const LD tol = s == 0 ? 0.0L : 8 * 2.3e-16L * mx + 1e-300L;
        if(!(std::fabs((LD)got - ref) <= tol))
        {
          r.bad(op, s == 0 ? "attribute-coarse-value-changed" : "attribute-not-mean-of-parent-vertices", vh::J().kv("part", cp.name).kv("attribute", name).kv("fine_part_vertex", (unsigned long)(off + i))
            .kv("parent_dim", s).kv("parent_part_entity", (unsigned long)i).kv("component", j).kv("got", got).kv("expected", ref).kv("tol", tol));
          return;
        }
      }
      off += cp.n[s];
    }
  }
} // namespace c10
