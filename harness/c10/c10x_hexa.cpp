// C10 utility families, shape TU: hexa
#include <c10/c10x_feat.hpp>
void c10x_meshops_hexa(vh::Ctx& c) { c10::run_meshops<FEAT::Shape::Hypercube<3>>(c); }
void c10x_partops_hexa(vh::Ctx& c) { c10::run_partops<FEAT::Shape::Hypercube<3>>(c); }
