// C10, unit c10x -- public entry points of the anchored geometry files that the refinement families do not reach.
//
// Families (k mod 4 = quad / tria / hexa / tetra; meshes and hostile variants exactly as in family gen)
//   meshops : fill_neighbors / get_neighbors (constructed, recomputed, cloned, permuted and refined meshes), clone,
//             transform, reorient_boundary_facets, IndexCalculator::compute / compute_vertex_subshape, create_permutation
//             with every strategy and set_permutation with a custom permutation (forward / inverse arrays, documented
//             relation x_new[k] = x_old[P[k]], element colouring and layering, validate_element_*)
//   partops : MeshPart::deduct_target_sets_from_top / _from_bottom, MaskedBoundaryFactory, MeshPart::clone, attributes
//             through RootMeshNode::refine_unique, RootMeshNode::clone_unique / remove_mesh_part / rename_mesh_parts
// All oracles are computed from snapshots by c10_core.hpp / c10x_core.hpp.
#include <common/vh.hpp>
#include <kernel/runtime.hpp>

void c10x_meshops_quad(vh::Ctx&); void c10x_meshops_tria(vh::Ctx&); void c10x_meshops_hexa(vh::Ctx&); void c10x_meshops_tetra(vh::Ctx&);
void c10x_partops_quad(vh::Ctx&); void c10x_partops_tria(vh::Ctx&); void c10x_partops_hexa(vh::Ctx&); void c10x_partops_tetra(vh::Ctx&);

VH_FAMILY(meshops)
{
  switch(c.k % 4)
  {
  case 0: c10x_meshops_quad(c); break;
  case 1: c10x_meshops_tria(c); break;
  case 2: c10x_meshops_hexa(c); break;
  default: c10x_meshops_tetra(c); break;
  }
}

VH_FAMILY(partops)
{
  switch(c.k % 4)
  {
  case 0: c10x_partops_quad(c); break;
  case 1: c10x_partops_tria(c); break;
  case 2: c10x_partops_hexa(c); break;
  default: c10x_partops_tetra(c); break;
  }
}

int main(int argc, char** argv) { FEAT::Runtime::ScopeGuard guard(argc, argv); return vh::main_impl(argc, argv); }
