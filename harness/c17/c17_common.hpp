// C17 -- shared monitor state, hook callback, logical deadlock watchdog, configuration generator and run_monitored
// (used by every TU of the units c17t / c17a)
#pragma once
#include <common/vh_mesh.hpp>
#include <kernel/runtime.hpp>
#include <kernel/util/verif_hooks.hpp>
#include <kernel/assembly/domain_assembler.hpp>
#include <kernel/assembly/domain_assembler_helpers.hpp>
#include <kernel/assembly/common_operators.hpp>
#include <kernel/assembly/symbolic_assembler.hpp>
#include <kernel/analytic/common.hpp>
#include <kernel/space/lagrange1/element.hpp>
#include <kernel/space/lagrange2/element.hpp>
#include <kernel/trafo/standard/mapping.hpp>
#include <kernel/lafem/sparse_matrix_csr.hpp>
#include <kernel/lafem/dense_vector.hpp>
#include <atomic>
#include <thread>
#include <chrono>
#include <mutex>
#include <set>
#include <map>

namespace c17
{
  using namespace FEAT;
  template<typename S_> struct T
  {
    static constexpr int dim = vm::ShapeInfo<S_>::dim;
    static constexpr int nv = vm::ShapeInfo<S_>::nv;
    typedef Geometry::ConformalMesh<S_, vm::ShapeInfo<S_>::dim, double> Mesh;
    typedef Trafo::Standard::Mapping<Mesh> Trafo;
    typedef Assembly::DomainAssembler<Trafo> DomAsm;
  };

  // ------------------------------------------------------------------ monitor state (all relaxed atomics)
  constexpr std::memory_order RLX = std::memory_order_relaxed;
  struct Monitor
  {
    std::atomic<std::uint64_t> progress{0};       // any hook / task event
    std::atomic<int> blocked{0};                  // threads inside ThreadFence::wait
    std::atomic<int> workers_live{0};             // workers begun and not ended
    std::atomic<int> in_assemble{0};              // master inside assemble()
    std::atomic<std::uint64_t> seq{0};            // global event sequence (interleaving signature)
    std::atomic<std::uint64_t> perturb_seed{0};
    std::atomic<int> perturb_level{0};            // 0 none, 1 yields, 2 yields + micro sleeps
    std::atomic<bool> stop{false};
    std::atomic<std::uint64_t> fence_events{0};
    // targeted schedule perturbation (family 'integral'): up to two rules "sleep delay_us[i] microseconds at hook point
    // delay_point[i] of worker delay_worker[i]" (worker = first hook argument; ~0 = every worker); 0 us = rule off
    std::atomic<int> delay_point[2];
    std::atomic<std::uint64_t> delay_worker[2];
    std::atomic<int> delay_us[2];
    Monitor() { for(int i = 0; i < 2; ++i) { delay_point[i].store(0, std::memory_order_relaxed); delay_worker[i].store(0, std::memory_order_relaxed); delay_us[i].store(0, std::memory_order_relaxed); } }
  };
  inline Monitor& M() { static Monitor m; return m; }

  struct Ev { std::uint64_t seq; int point; };
  inline thread_local std::vector<Ev>* tl_log = nullptr;
  inline thread_local std::uint64_t tl_rng = 0;

  inline void perturb(std::uint64_t salt)
  {
    int lvl = M().perturb_level.load(RLX);
    if(lvl == 0) return;
    if(tl_rng == 0) tl_rng = vh::mix64(M().perturb_seed.load(RLX) ^ std::hash<std::thread::id>()(std::this_thread::get_id()));
    tl_rng = vh::mix64(tl_rng + salt);
    std::uint64_t r = tl_rng % 16;
    if(r < 5) std::this_thread::yield();
    else if(lvl >= 2 && r < 7) std::this_thread::sleep_for(std::chrono::microseconds(20 + (tl_rng >> 8) % 300));
  }

  // per-run event logs of all threads (registered under a mutex only at thread start; merged after join)
  inline std::mutex g_logs_mtx;
  inline std::vector<std::unique_ptr<std::vector<Ev>>> g_logs;
  inline std::vector<Ev>* my_log()
  {
    if(!tl_log)
    {
      std::lock_guard<std::mutex> l(g_logs_mtx);
      g_logs.emplace_back(new std::vector<Ev>());
      tl_log = g_logs.back().get();
    }
    return tl_log;
  }

  inline void hook_cb(int point, const void*, std::uint64_t a, std::uint64_t)
  {
    M().progress.fetch_add(1, RLX);
    if(point >= Verif::worker_begin)
      for(int i = 0; i < 2; ++i)
      {
        const int us = M().delay_us[i].load(RLX);
        if(us > 0 && M().delay_point[i].load(RLX) == point && (M().delay_worker[i].load(RLX) == a || M().delay_worker[i].load(RLX) == ~std::uint64_t(0)))
          std::this_thread::sleep_for(std::chrono::microseconds(us));
      }
    switch(point)
    {
    case Verif::fence_wait_enter: perturb(1); M().blocked.fetch_add(1, RLX); M().fence_events.fetch_add(1, RLX); break;
    case Verif::fence_wait_leave: M().blocked.fetch_sub(1, RLX); perturb(2); break;
    case Verif::fence_open: perturb(3); M().fence_events.fetch_add(1, RLX); break;
    case Verif::fence_close: perturb(4); break;
    case Verif::worker_begin: M().workers_live.fetch_add(1, RLX); break;
    case Verif::worker_end: M().workers_live.fetch_sub(1, RLX); break;
    case Verif::scatter_pre: perturb(5); break;
    case Verif::scatter_post: perturb(6); break;
    default: break;
    }
    if(point <= Verif::fence_close || point == Verif::worker_begin || point == Verif::worker_end)
      my_log()->push_back({M().seq.fetch_add(1, RLX), point});
  }

  // logical deadlock monitor: all live workers blocked in a fence wait, master inside assemble(), and the progress
  // counter frozen over `need` consecutive samples.  A plain time-out is never a verdict.
  inline void watchdog()
  {
    std::uint64_t last = ~0ull; int frozen = 0;
    while(!M().stop.load(RLX))
    {
      std::this_thread::sleep_for(std::chrono::milliseconds(250));
      if(M().in_assemble.load(RLX) == 0) { frozen = 0; last = ~0ull; continue; }
      const std::uint64_t p = M().progress.load(RLX);
      const int live = M().workers_live.load(RLX), blk = M().blocked.load(RLX);
      // every live worker is blocked in a fence wait (the master may be blocked in a fence wait too, or in join);
      // with no live worker left, a master blocked in a fence wait can never be released either
      const bool all_blocked = blk >= 1 && blk >= live;
      if(p == last && all_blocked) ++frozen; else frozen = 0;
      last = p;
      if(frozen >= 40) // 10 s without a single event while every worker sits in ThreadFence::wait
      {
        std::fprintf(stderr, "VH-VIOLATION-KIND: deadlock\nlogical deadlock: %d live workers, %d threads blocked in ThreadFence::wait, "
          "no hook/task event for %d samples\n", live, blk, frozen);
        std::fflush(stderr);
        std::_Exit(97);
      }
    }
  }

  // ------------------------------------------------------------------ configuration generator
  template<typename S_>
  struct Config
  {
    vm::MeshSpec<S_> spec;
    Assembly::ThreadingStrategy strat; const char* sname;
    std::size_t workers;
    std::vector<Index> subset; bool all;
    int perturb;
  };

  inline const char* strat_name(Assembly::ThreadingStrategy s)
  {
    switch(s)
    {
    case Assembly::ThreadingStrategy::automatic: return "automatic";
    case Assembly::ThreadingStrategy::single: return "single";
    case Assembly::ThreadingStrategy::layered: return "layered";
    case Assembly::ThreadingStrategy::layered_sorted: return "layered_sorted";
    default: return "colored";
    }
  }

  inline void gen_mesh(vh::Ctx& c, vm::MeshSpec<Shape::Hypercube<2>>& spec)
  {
    vh::Rng& r = c.rng;
    const int big = c.thorough() ? 12 : 8;
    switch(r.coin(0.5) ? int(3 + r.below(3)) : int(r.below(6)))
    {
    case 0: { Index n = Index(r.range(1, 4)); spec = vm::quad_grid(n, n); c.tag("mesh:square_small"); break; }
    case 1: { Index n = Index(r.range(1, 16)); spec = r.coin() ? vm::quad_grid(n, 1) : vm::quad_grid(1, n); c.tag("mesh:strip"); break; }
    case 2: { Index k = Index(r.range(3, 9)); spec = vm::quad_star(k); c.tag("mesh:star"); break; }
    case 3: { spec = vm::quad_grid(Index(r.range(4, big + 4)), Index(r.range(2, big))); c.tag("mesh:grid"); break; }
    case 4: { spec = vm::quad_grid(Index(r.range(4, big + 4)), Index(r.range(3, big))); vm::permute_cells(spec, r); vm::permute_vertices(spec, r); c.tag("mesh:grid_permuted"); break; }
    default: { spec = vm::quad_grid(Index(r.range(2, big)), Index(r.range(2, big))); vm::reorient_cells(spec, r); vm::distort_interior(spec, r, 1.0 / double(big)); c.tag("mesh:grid_reoriented"); break; }
    }
  }
  inline void gen_mesh(vh::Ctx& c, vm::MeshSpec<Shape::Simplex<2>>& spec)
  {
    vh::Rng& r = c.rng;
    const int big = c.thorough() ? 10 : 6;
    if(r.coin(0.3)) { Index n = Index(r.range(1, 12)); spec = r.coin() ? vm::tria_grid(n, 1, &r) : vm::tria_grid(1, n, &r); c.tag("mesh:strip"); }
    else { spec = vm::tria_grid(Index(r.range(1, big)), Index(r.range(1, big)), &r); c.tag("mesh:grid"); }
    if(r.coin(0.4)) { vm::permute_cells(spec, r); vm::permute_vertices(spec, r); c.tag("mesh:permuted"); }
  }
  inline void gen_mesh(vh::Ctx& c, vm::MeshSpec<Shape::Hypercube<3>>& spec)
  {
    vh::Rng& r = c.rng;
    const int big = c.thorough() ? 5 : 4;
    spec = vm::hexa_grid(Index(r.range(1, big)), Index(r.range(1, big)), Index(r.range(1, big))); c.tag("mesh:grid");
    if(r.coin(0.4)) { vm::permute_cells(spec, r); vm::permute_vertices(spec, r); c.tag("mesh:permuted"); }
  }
  inline void gen_mesh(vh::Ctx& c, vm::MeshSpec<Shape::Simplex<3>>& spec)
  {
    vh::Rng& r = c.rng;
    const int big = c.thorough() ? 3 : 2;
    spec = vm::tetra_grid(Index(r.range(1, big)), Index(r.range(1, big)), Index(r.range(1, big))); c.tag("mesh:grid");
    if(r.coin(0.4)) { vm::permute_cells(spec, r); vm::permute_vertices(spec, r); c.tag("mesh:permuted"); }
  }

  template<typename S_>
  Config<S_> gen_config(vh::Ctx& c)
  {
    Config<S_> g;
    vh::Rng& r = c.rng;
    c.tag(std::string("shape:") + vm::ShapeInfo<S_>::name());
    gen_mesh(c, g.spec);
    const Index nc = g.spec.num_cells();
    static const Assembly::ThreadingStrategy ss[5] = {Assembly::ThreadingStrategy::automatic, Assembly::ThreadingStrategy::single,
      Assembly::ThreadingStrategy::layered, Assembly::ThreadingStrategy::layered_sorted, Assembly::ThreadingStrategy::colored};
    { static const int w[20] = {0, 0, 0, 0, 1, 2, 2, 2, 2, 2, 3, 3, 3, 3, 3, 4, 4, 4, 4, 4}; g.strat = ss[w[r.below(20)]]; } g.sname = strat_name(g.strat);
    // two thirds of the cases are biased towards configurations in which several worker threads really run
    // (worker counts 2..8 on meshes with enough layers / colours); the rest covers the edge configurations
    switch(r.coin(0.62) ? 3 : int(r.below(6)))
    {
    case 0: g.workers = std::size_t(r.below(4)); break;                 // 0..3
    case 1: g.workers = std::size_t(nc) + std::size_t(r.below(4)); break; // around #cells
    case 2: g.workers = 64; break;
    case 3: g.workers = std::size_t(r.range(2, 8)); break;
    default: g.workers = std::size_t(r.range(0, long(nc) + 3)); break;
    }
    g.all = r.coin(0.7);
    if(!g.all)
    {
      for(Index i = 0; i < nc; ++i) if(r.coin(0.6)) g.subset.push_back(i);
      if(g.subset.empty()) g.subset.push_back(Index(r.below(nc)));
    }
    g.perturb = int(r.below(3));
    c.tag(std::string("strategy:") + g.sname);
    c.tag(g.workers == 0 ? "req_workers:0" : g.workers == 1 ? "req_workers:1" : g.workers <= 4 ? "req_workers:2-4" : g.workers >= 64 ? "req_workers:64" : "req_workers:5+");
    c.tag(nc == 1 ? "cells:1" : nc <= 4 ? "cells:2-4" : nc <= 16 ? "cells:5-16" : "cells:17+");
    c.tag(g.all ? "all_cells" : "cell_subset");
    c.desc = vh::J().raw("mesh", g.spec.describe()).kv("strategy", g.sname).kv("requested_workers", (unsigned long)g.workers)
      .kv("subset_size", (unsigned long)(g.all ? nc : Index(g.subset.size()))).kv("perturb", g.perturb).str();
    return g;
  }

  template<typename DA_, typename Cfg_>
  void setup_assembler(DA_& da, const Cfg_& g)
  {
    da.set_threading_strategy(g.strat);
    da.set_max_worker_threads(g.workers);
    if(g.all) da.compile_all_elements();
    else { for(Index i : g.subset) da.add_element(i); da.compile(); }
  }

  inline std::set<std::uint64_t> g_interleavings;

  template<typename Cfg_, typename Fn> void run_monitored(vh::Ctx& c, const Cfg_& g, Fn&& fn)
  {
    { std::lock_guard<std::mutex> l(g_logs_mtx); g_logs.clear(); tl_log = nullptr; } // worker threads of earlier runs are gone
    M().perturb_seed.store(c.rng.next(), RLX);
    M().perturb_level.store(g.perturb, RLX);
    M().in_assemble.store(1, RLX);
    fn();
    M().in_assemble.store(0, RLX);
    M().perturb_level.store(0, RLX);
    // interleaving signature: cross-thread order of fence / worker events
    std::vector<std::pair<std::uint64_t, std::uint64_t>> all;
    {
      std::lock_guard<std::mutex> l(g_logs_mtx);
      for(std::size_t t = 0; t < g_logs.size(); ++t) for(auto& e : *g_logs[t]) all.push_back({e.seq, (std::uint64_t(t) << 8) | std::uint64_t(e.point)});
    }
    std::sort(all.begin(), all.end());
    // thread ids are renamed by order of first appearance so that the signature is about order, not about log slots
    std::map<std::uint64_t, std::uint64_t> ren; std::uint64_t h = 1469598103934665603ull;
    for(auto& e : all) { std::uint64_t t = e.second >> 8; if(!ren.count(t)) { std::uint64_t n = ren.size(); ren[t] = n; } std::uint64_t w = (ren[t] << 8) | (e.second & 0xff); h = vh::hash_bytes(&w, sizeof(w), h); }
    if(all.size() > 2 && g_interleavings.insert(h).second) c.count("distinct_interleavings_observed");
    c.count("fence_and_worker_events", all.size());
  }
} // namespace c17
