// C17 -- threaded domain assembly: race-free, terminates, exactly once, equals the serial result.
//
// Families
//   shadow : an instrumented job on the REAL DomainAssembler. scatter() writes a plain (non-atomic)
//            shadow entry for every vertex of the cell -> under TSan any two scatters of
//            vertex-adjacent cells that are not ordered by synchronisation are reported, whether or
//            not they overlapped in time.  Relaxed atomics (which create no happens-before edge)
//            implement the occupancy monitor (real overlap witness), the exactly-once counters and
//            the combine mutual-exclusion monitor.  Seeded yields / micro-sleeps at the hook points
//            and inside the task perturb the schedule.
//   real   : FEAT's own jobs (Laplace matrix Q1/Q2, force vector, analytic integral with combine)
//            threaded vs. single-threaded result, under TSan/ASan.
// A watchdog thread implements the logical deadlock monitor (state predicate over the hook
// counters, not a deadline).
#include "c17_common.hpp"

using namespace FEAT;
using namespace c17;

namespace
{
  // ------------------------------------------------------------------ the instrumented job
  template<typename S_>
  struct ShadowState
  {
    typedef typename T<S_>::Mesh MeshQ;
    const MeshQ& mesh;
    std::vector<long> shadow;                         // plain, written in scatter() only
    std::vector<std::atomic<int>> owner;              // occupancy per vertex
    std::vector<std::atomic<long>> owner_cell;        // cell currently scattering into the vertex
    std::vector<std::atomic<int>> n_prep, n_asm, n_scat, n_fin; // per cell
    std::atomic<int> tasks{0}, combines{0}, in_combine{0};
    std::atomic<long> combined{0};
    long combined_plain = 0;                          // plain, written in combine() only (TSan watches)
    std::atomic<int> overlap_seen{0}; long ov_cell_a = -1, ov_cell_b = -1, ov_vertex = -1;
    std::atomic<int> combine_overlap{0};
    explicit ShadowState(const MeshQ& m) : mesh(m), shadow(m.get_num_vertices(), 0), owner(m.get_num_vertices()),
      owner_cell(m.get_num_vertices()), n_prep(m.get_num_elements()), n_asm(m.get_num_elements()),
      n_scat(m.get_num_elements()), n_fin(m.get_num_elements())
    {
      for(auto& x : owner) x.store(0, RLX);
      for(auto& x : owner_cell) x.store(-1, RLX);
      for(auto* v : {&n_prep, &n_asm, &n_scat, &n_fin}) for(auto& x : *v) x.store(0, RLX);
    }
  };

  template<typename S_, bool scatter_, bool combine_>
  class ShadowJob
  {
  public:
    ShadowState<S_>& st;
    explicit ShadowJob(ShadowState<S_>& s) : st(s) {}
    class Task
    {
    public:
      static constexpr bool need_scatter = scatter_;
      static constexpr bool need_combine = combine_;
      ShadowState<S_>& st; Index cell = 0; long local = 0, acc = 0;
      explicit Task(ShadowJob& job) : st(job.st) { st.tasks.fetch_add(1, RLX); }
      void prepare(Index c) { cell = c; st.n_prep[c].fetch_add(1, RLX); M().progress.fetch_add(1, RLX); perturb(11); }
      void assemble() { local = long(cell) + 1; st.n_asm[cell].fetch_add(1, RLX); perturb(12); }
      void scatter()
      {
        st.n_scat[cell].fetch_add(1, RLX);
        const auto& idx = st.mesh.template get_index_set<T<S_>::dim, 0>();
        constexpr int nv = T<S_>::nv;
        for(int j = 0; j < nv; ++j)
        {
          const Index v = idx(cell, j);
          if(st.owner[v].fetch_add(1, RLX) != 0)
          {
            if(st.overlap_seen.fetch_add(1, RLX) == 0) { st.ov_cell_a = long(cell); st.ov_cell_b = st.owner_cell[v].load(RLX); st.ov_vertex = long(v); }
          }
          st.owner_cell[v].store(long(cell), RLX);
        }
        perturb(13);
        for(int j = 0; j < nv; ++j) st.shadow[idx(cell, j)] += local;   // <- the monitored plain writes
        perturb(14);
        for(int j = 0; j < nv; ++j) st.owner[idx(cell, j)].fetch_sub(1, RLX);
      }
      void finish() { acc += local; st.n_fin[cell].fetch_add(1, RLX); }
      void combine()
      {
        if(st.in_combine.fetch_add(1, RLX) != 0) st.combine_overlap.fetch_add(1, RLX);
        perturb(15);
        st.combined_plain += acc;                                      // <- monitored plain write
        st.combined.fetch_add(acc, RLX);
        st.combines.fetch_add(1, RLX);
        st.in_combine.fetch_sub(1, RLX);
      }
    };
  };

}

// ---------------------------------------------------------------------- family: shadow
template<typename S_, bool scatter_, bool combine_>
static void shadow_case(vh::Ctx& c, const Config<S_>& g, const typename T<S_>::Mesh& mesh, typename T<S_>::Trafo& trafo, const char* jobname)
{
  typedef typename T<S_>::DomAsm DomAsm;
  constexpr int nv = T<S_>::nv;
  c.tag(std::string("job:") + jobname);
  c.set_op("domasm.assemble.shadow");
  DomAsm da(trafo);
  setup_assembler(da, g);
  const Index nc = mesh.get_num_elements();
  std::vector<char> sel(nc, g.all ? 1 : 0);
  for(Index i : g.subset) sel[i] = 1;
  const int reps = 3;
  c.count(std::string("resolved_workers:") + std::to_string(std::min<std::size_t>(da.get_num_worker_threads(), 9)));
  for(int rep = 0; rep < reps; ++rep)
  {
    ShadowState<S_> st(mesh);
    ShadowJob<S_, scatter_, combine_> job(st);
    run_monitored(c, g, [&]() { da.assemble(job); });
    c.event();
    // exactly once
    long expect_comb = 0;
    for(Index i = 0; i < nc; ++i)
    {
      const int want = sel[i] ? 1 : 0;
      if(sel[i]) expect_comb += long(i) + 1;
      const int p = st.n_prep[i].load(RLX), a = st.n_asm[i].load(RLX), s = st.n_scat[i].load(RLX), f = st.n_fin[i].load(RLX);
      if(p != want || a != want || f != want || s != (scatter_ ? want : 0))
      {
        c.viol("domasm.assemble.shadow", "not-exactly-once", vh::J().kv("cell", (unsigned long)i).kv("selected", want).kv("prepare", p)
          .kv("assemble", a).kv("scatter", s).kv("finish", f).kv("repetition", rep).str());
        break;
      }
    }
    // occupancy
    if(st.overlap_seen.load(RLX) != 0)
      c.viol("domasm.assemble.shadow", "concurrent-adjacent-scatter", vh::J().kv("vertex", st.ov_vertex).kv("cell_a", st.ov_cell_a)
        .kv("cell_b", st.ov_cell_b).kv("overlaps", st.overlap_seen.load(RLX)).kv("repetition", rep).str());
    // serial equality (integer data: bitwise)
    if(scatter_)
    {
      std::vector<long> ref(mesh.get_num_vertices(), 0);
      const auto& idx = mesh.template get_index_set<T<S_>::dim, 0>();
      for(Index i = 0; i < nc; ++i) if(sel[i]) for(int j = 0; j < nv; ++j) ref[idx(i, j)] += long(i) + 1;
      for(Index v = 0; v < mesh.get_num_vertices(); ++v) if(ref[v] != st.shadow[v])
      {
        c.viol("domasm.assemble.shadow", "result-differs-from-serial", vh::J().kv("vertex", (unsigned long)v).kv("got", st.shadow[v]).kv("expected", ref[v]).kv("repetition", rep).str());
        break;
      }
    }
    if(combine_)
    {
      if(st.combine_overlap.load(RLX) != 0) c.viol("domasm.assemble.shadow", "concurrent-combine", vh::J().kv("overlaps", st.combine_overlap.load(RLX)).str());
      if(st.combines.load(RLX) != st.tasks.load(RLX)) c.viol("domasm.assemble.shadow", "combine-count", vh::J().kv("tasks", st.tasks.load(RLX)).kv("combines", st.combines.load(RLX)).str());
      if(st.combined.load(RLX) != expect_comb || st.combined_plain != expect_comb)
        c.viol("domasm.assemble.shadow", "combined-result-differs", vh::J().kv("got", st.combined.load(RLX)).kv("got_plain", st.combined_plain).kv("expected", expect_comb).str());
    }
  }
}

template<typename S_> static void shadow_shape(vh::Ctx& c)
{
  Config<S_> g = gen_config<S_>(c);
  auto mesh = vm::build(g.spec);
  typename T<S_>::Trafo trafo(*mesh);
  switch(c.rng.below(4))
  {
  case 0: shadow_case<S_, true, false>(c, g, *mesh, trafo, "scatter"); break;
  case 1: shadow_case<S_, true, true>(c, g, *mesh, trafo, "scatter+combine"); break;
  case 2: shadow_case<S_, false, true>(c, g, *mesh, trafo, "combine_only"); break;
  default: shadow_case<S_, true, false>(c, g, *mesh, trafo, "scatter"); break;
  }
}

VH_FAMILY(shadow)
{
  switch(c.rng.below(10))
  {
  case 0: case 1: shadow_shape<Shape::Simplex<2>>(c); break;
  case 2: case 3: shadow_shape<Shape::Hypercube<3>>(c); break;
  case 4: shadow_shape<Shape::Simplex<3>>(c); break;
  default: shadow_shape<Shape::Hypercube<2>>(c); break;
  }
}

// ---------------------------------------------------------------------- family: real FEAT jobs
template<typename S_, typename Space_>
static void real_case(vh::Ctx& c, const Config<S_>& g, typename T<S_>::Trafo& trafo, const char* sname)
{
  typedef typename T<S_>::DomAsm DomAsm;
  typedef LAFEM::SparseMatrixCSR<double, Index> MatrixType;
  typedef LAFEM::DenseVector<double, Index> VectorType;
  c.tag(std::string("space:") + sname);
  Space_ space(trafo);
  MatrixType mat_ref, mat_thr;
  Assembly::SymbolicAssembler::assemble_matrix_std1(mat_ref, space);
  mat_thr = mat_ref.clone(LAFEM::CloneMode::Layout);
  VectorType vec_ref(space.get_num_dofs()), vec_thr(space.get_num_dofs());
  Assembly::Common::LaplaceOperator lapl;
  Analytic::Common::SineBubbleFunction<T<S_>::dim> func;
  const String cub("gauss-legendre:3");
  // reference: no worker threads
  double int_ref = 0.0, int_thr = 0.0;
  {
    Config<S_> s = g; s.workers = 0;
    DomAsm da(trafo); setup_assembler(da, s);
    mat_ref.format(); vec_ref.format();
    Assembly::assemble_bilinear_operator_matrix_1(da, mat_ref, lapl, space, cub);
    Assembly::assemble_force_function_vector(da, vec_ref, func, space, cub);
    auto r = Assembly::integrate_analytic_function<1, double>(da, func, cub);
    int_ref = r.value;
  }
  c.set_op("domasm.assemble.real");
  DomAsm da(trafo);
  setup_assembler(da, g);
  c.count(std::string("resolved_workers:") + std::to_string(std::min<std::size_t>(da.get_num_worker_threads(), 9)));
  for(int rep = 0; rep < 2; ++rep)
  {
    mat_thr.format(); vec_thr.format();
    run_monitored(c, g, [&]() {
      Assembly::assemble_bilinear_operator_matrix_1(da, mat_thr, lapl, space, cub);
      Assembly::assemble_force_function_vector(da, vec_thr, func, space, cub);
      auto r = Assembly::integrate_analytic_function<1, double>(da, func, cub);
      int_thr = r.value;
    });
    c.event(3);
    // equality up to summation order
    double mmax = 0; for(Index i = 0; i < mat_ref.used_elements(); ++i) mmax = std::max(mmax, std::fabs(mat_ref.val()[i]));
    for(Index i = 0; i < mat_ref.used_elements(); ++i)
      if(!(std::fabs(mat_ref.val()[i] - mat_thr.val()[i]) <= 64 * 2.3e-16 * mmax))
      { c.viol("domasm.assemble.real", "matrix-differs-from-serial", vh::J().kv("entry", (unsigned long)i).kv("got", mat_thr.val()[i]).kv("expected", mat_ref.val()[i]).kv("repetition", rep).str()); break; }
    double vmax = 0; for(Index i = 0; i < vec_ref.size(); ++i) vmax = std::max(vmax, std::fabs(vec_ref.elements()[i]));
    for(Index i = 0; i < vec_ref.size(); ++i)
      if(!(std::fabs(vec_ref.elements()[i] - vec_thr.elements()[i]) <= 64 * 2.3e-16 * vmax))
      { c.viol("domasm.assemble.real", "vector-differs-from-serial", vh::J().kv("entry", (unsigned long)i).kv("got", vec_thr.elements()[i]).kv("expected", vec_ref.elements()[i]).str()); break; }
    if(!(std::fabs(int_ref - int_thr) <= 1e-12 * std::max(1.0, std::fabs(int_ref))))
      c.viol("domasm.assemble.real", "integral-differs-from-serial", vh::J().kv("got", int_thr).kv("expected", int_ref).str());
  }
}

template<typename S_> static void real_shape(vh::Ctx& c, bool second_order)
{
  Config<S_> g = gen_config<S_>(c);
  auto mesh = vm::build(g.spec);
  typename T<S_>::Trafo trafo(*mesh);
  if(second_order) real_case<S_, Space::Lagrange2::Element<typename T<S_>::Trafo>>(c, g, trafo, "Lagrange2");
  else real_case<S_, Space::Lagrange1::Element<typename T<S_>::Trafo>>(c, g, trafo, "Lagrange1");
}

VH_FAMILY(real)
{
  switch(c.rng.below(10))
  {
  case 0: real_shape<Shape::Simplex<2>>(c, false); break;
  case 1: real_shape<Shape::Simplex<2>>(c, true); break;
  case 2: real_shape<Shape::Hypercube<3>>(c, false); break;
  case 3: real_shape<Shape::Simplex<3>>(c, false); break;
  case 4: case 5: case 6: real_shape<Shape::Hypercube<2>>(c, true); break;
  default: real_shape<Shape::Hypercube<2>>(c, false); break;
  }
}

int main(int argc, char** argv)
{
  FEAT::Runtime::ScopeGuard guard(argc, argv);
  Verif::callback().store(&hook_cb, std::memory_order_release);
  std::thread wd(watchdog);
  int rc = vh::main_impl(argc, argv);
  M().stop.store(true, RLX);
  wd.join();
  return rc;
}
