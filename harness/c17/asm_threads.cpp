// C17 -- threaded domain assembly: race-free, terminates, exactly once, equals the serial result.
//
// Families
//   shadow : an instrumented job on the REAL DomainAssembler. scatter() writes a plain (non-atomic)
//            shadow entry for every vertex of the cell -> under TSan any two scatters of
//            vertex-adjacent cells that are not ordered by synchronisation are reported, whether or
//            not they overlapped in time.  Relaxed atomics (which create no happens-before edge)
//            implement the occupancy monitor (real overlap witness), the exactly-once counters and
//            the combine mutual-exclusion monitor.  Seeded yields / micro-sleeps at the hook points
//            and inside the task perturb the schedule.
//   real   : FEAT's own jobs (Laplace matrix Q1/Q2, force vector, analytic integral with combine)
//            threaded vs. single-threaded result, under TSan/ASan.
// A watchdog thread implements the logical deadlock monitor (state predicate over the hook
// counters, not a deadline).
#include <common/vh_mesh.hpp>
#include <kernel/runtime.hpp>
#include <kernel/util/verif_hooks.hpp>
#include <kernel/assembly/domain_assembler.hpp>
#include <kernel/assembly/domain_assembler_helpers.hpp>
#include <kernel/assembly/common_operators.hpp>
#include <kernel/assembly/symbolic_assembler.hpp>
#include <kernel/analytic/common.hpp>
#include <kernel/space/lagrange1/element.hpp>
#include <kernel/space/lagrange2/element.hpp>
#include <kernel/trafo/standard/mapping.hpp>
#include <kernel/lafem/sparse_matrix_csr.hpp>
#include <kernel/lafem/dense_vector.hpp>
#include <atomic>
#include <thread>
#include <chrono>

using namespace FEAT;

namespace
{
  template<typename S_> struct T
  {
    static constexpr int dim = vm::ShapeInfo<S_>::dim;
    static constexpr int nv = vm::ShapeInfo<S_>::nv;
    typedef Geometry::ConformalMesh<S_, vm::ShapeInfo<S_>::dim, double> Mesh;
    typedef Trafo::Standard::Mapping<Mesh> Trafo;
    typedef Assembly::DomainAssembler<Trafo> DomAsm;
  };

  // ------------------------------------------------------------------ monitor state (all relaxed atomics)
  constexpr std::memory_order RLX = std::memory_order_relaxed;
  struct Monitor
  {
    std::atomic<std::uint64_t> progress{0};       // any hook / task event
    std::atomic<int> blocked{0};                  // threads inside ThreadFence::wait
    std::atomic<int> workers_live{0};             // workers begun and not ended
    std::atomic<int> in_assemble{0};              // master inside assemble()
    std::atomic<std::uint64_t> seq{0};            // global event sequence (interleaving signature)
    std::atomic<std::uint64_t> perturb_seed{0};
    std::atomic<int> perturb_level{0};            // 0 none, 1 yields, 2 yields + micro sleeps
    std::atomic<bool> stop{false};
    std::atomic<std::uint64_t> fence_events{0};
  };
  Monitor& M() { static Monitor m; return m; }

  struct Ev { std::uint64_t seq; int point; };
  thread_local std::vector<Ev>* tl_log = nullptr;
  thread_local std::uint64_t tl_rng = 0;

  inline void perturb(std::uint64_t salt)
  {
    int lvl = M().perturb_level.load(RLX);
    if(lvl == 0) return;
    if(tl_rng == 0) tl_rng = vh::mix64(M().perturb_seed.load(RLX) ^ std::hash<std::thread::id>()(std::this_thread::get_id()));
    tl_rng = vh::mix64(tl_rng + salt);
    std::uint64_t r = tl_rng % 16;
    if(r < 5) std::this_thread::yield();
    else if(lvl >= 2 && r < 7) std::this_thread::sleep_for(std::chrono::microseconds(20 + (tl_rng >> 8) % 300));
  }

  // per-run event logs of all threads (registered under a mutex only at thread start; merged after join)
  std::mutex g_logs_mtx;
  std::vector<std::unique_ptr<std::vector<Ev>>> g_logs;
  inline std::vector<Ev>* my_log()
  {
    if(!tl_log)
    {
      std::lock_guard<std::mutex> l(g_logs_mtx);
      g_logs.emplace_back(new std::vector<Ev>());
      tl_log = g_logs.back().get();
    }
    return tl_log;
  }

  void hook_cb(int point, const void*, std::uint64_t, std::uint64_t)
  {
    M().progress.fetch_add(1, RLX);
    switch(point)
    {
    case Verif::fence_wait_enter: perturb(1); M().blocked.fetch_add(1, RLX); M().fence_events.fetch_add(1, RLX); break;
    case Verif::fence_wait_leave: M().blocked.fetch_sub(1, RLX); perturb(2); break;
    case Verif::fence_open: perturb(3); M().fence_events.fetch_add(1, RLX); break;
    case Verif::fence_close: perturb(4); break;
    case Verif::worker_begin: M().workers_live.fetch_add(1, RLX); break;
    case Verif::worker_end: M().workers_live.fetch_sub(1, RLX); break;
    case Verif::scatter_pre: perturb(5); break;
    case Verif::scatter_post: perturb(6); break;
    default: break;
    }
    if(point <= Verif::fence_close || point == Verif::worker_begin || point == Verif::worker_end)
      my_log()->push_back({M().seq.fetch_add(1, RLX), point});
  }

  // logical deadlock monitor: all live workers blocked in a fence wait, master inside assemble(), and the progress
  // counter frozen over `need` consecutive samples.  A plain time-out is never a verdict.
  void watchdog()
  {
    std::uint64_t last = ~0ull; int frozen = 0;
    while(!M().stop.load(RLX))
    {
      std::this_thread::sleep_for(std::chrono::milliseconds(250));
      if(M().in_assemble.load(RLX) == 0) { frozen = 0; last = ~0ull; continue; }
      const std::uint64_t p = M().progress.load(RLX);
      const int live = M().workers_live.load(RLX), blk = M().blocked.load(RLX);
      // every live worker is blocked in a fence wait (the master may be blocked in a fence wait too, or in join);
      // with no live worker left, a master blocked in a fence wait can never be released either
      const bool all_blocked = blk >= 1 && blk >= live;
      if(p == last && all_blocked) ++frozen; else frozen = 0;
      last = p;
      if(frozen >= 40) // 10 s without a single event while every worker sits in ThreadFence::wait
      {
        std::fprintf(stderr, "VH-VIOLATION-KIND: deadlock\nlogical deadlock: %d live workers, %d threads blocked in ThreadFence::wait, "
          "no hook/task event for %d samples\n", live, blk, frozen);
        std::fflush(stderr);
        std::_Exit(97);
      }
    }
  }

  // ------------------------------------------------------------------ the instrumented job
  template<typename S_>
  struct ShadowState
  {
    typedef typename T<S_>::Mesh MeshQ;
    const MeshQ& mesh;
    std::vector<long> shadow;                         // plain, written in scatter() only
    std::vector<std::atomic<int>> owner;              // occupancy per vertex
    std::vector<std::atomic<long>> owner_cell;        // cell currently scattering into the vertex
    std::vector<std::atomic<int>> n_prep, n_asm, n_scat, n_fin; // per cell
    std::atomic<int> tasks{0}, combines{0}, in_combine{0};
    std::atomic<long> combined{0};
    long combined_plain = 0;                          // plain, written in combine() only (TSan watches)
    std::atomic<int> overlap_seen{0}; long ov_cell_a = -1, ov_cell_b = -1, ov_vertex = -1;
    std::atomic<int> combine_overlap{0};
    explicit ShadowState(const MeshQ& m) : mesh(m), shadow(m.get_num_vertices(), 0), owner(m.get_num_vertices()),
      owner_cell(m.get_num_vertices()), n_prep(m.get_num_elements()), n_asm(m.get_num_elements()),
      n_scat(m.get_num_elements()), n_fin(m.get_num_elements())
    {
      for(auto& x : owner) x.store(0, RLX);
      for(auto& x : owner_cell) x.store(-1, RLX);
      for(auto* v : {&n_prep, &n_asm, &n_scat, &n_fin}) for(auto& x : *v) x.store(0, RLX);
    }
  };

  template<typename S_, bool scatter_, bool combine_>
  class ShadowJob
  {
  public:
    ShadowState<S_>& st;
    explicit ShadowJob(ShadowState<S_>& s) : st(s) {}
    class Task
    {
    public:
      static constexpr bool need_scatter = scatter_;
      static constexpr bool need_combine = combine_;
      ShadowState<S_>& st; Index cell = 0; long local = 0, acc = 0;
      explicit Task(ShadowJob& job) : st(job.st) { st.tasks.fetch_add(1, RLX); }
      void prepare(Index c) { cell = c; st.n_prep[c].fetch_add(1, RLX); M().progress.fetch_add(1, RLX); perturb(11); }
      void assemble() { local = long(cell) + 1; st.n_asm[cell].fetch_add(1, RLX); perturb(12); }
      void scatter()
      {
        st.n_scat[cell].fetch_add(1, RLX);
        const auto& idx = st.mesh.template get_index_set<T<S_>::dim, 0>();
        constexpr int nv = T<S_>::nv;
        for(int j = 0; j < nv; ++j)
        {
          const Index v = idx(cell, j);
          if(st.owner[v].fetch_add(1, RLX) != 0)
          {
            if(st.overlap_seen.fetch_add(1, RLX) == 0) { st.ov_cell_a = long(cell); st.ov_cell_b = st.owner_cell[v].load(RLX); st.ov_vertex = long(v); }
          }
          st.owner_cell[v].store(long(cell), RLX);
        }
        perturb(13);
        for(int j = 0; j < nv; ++j) st.shadow[idx(cell, j)] += local;   // <- the monitored plain writes
        perturb(14);
        for(int j = 0; j < nv; ++j) st.owner[idx(cell, j)].fetch_sub(1, RLX);
      }
      void finish() { acc += local; st.n_fin[cell].fetch_add(1, RLX); }
      void combine()
      {
        if(st.in_combine.fetch_add(1, RLX) != 0) st.combine_overlap.fetch_add(1, RLX);
        perturb(15);
        st.combined_plain += acc;                                      // <- monitored plain write
        st.combined.fetch_add(acc, RLX);
        st.combines.fetch_add(1, RLX);
        st.in_combine.fetch_sub(1, RLX);
      }
    };
  };

  // ------------------------------------------------------------------ configuration generator
  template<typename S_>
  struct Config
  {
    vm::MeshSpec<S_> spec;
    Assembly::ThreadingStrategy strat; const char* sname;
    std::size_t workers;
    std::vector<Index> subset; bool all;
    int perturb;
  };

  const char* strat_name(Assembly::ThreadingStrategy s)
  {
    switch(s)
    {
    case Assembly::ThreadingStrategy::automatic: return "automatic";
    case Assembly::ThreadingStrategy::single: return "single";
    case Assembly::ThreadingStrategy::layered: return "layered";
    case Assembly::ThreadingStrategy::layered_sorted: return "layered_sorted";
    default: return "colored";
    }
  }

  inline void gen_mesh(vh::Ctx& c, vm::MeshSpec<Shape::Hypercube<2>>& spec)
  {
    vh::Rng& r = c.rng;
    const int big = c.thorough() ? 12 : 8;
    switch(r.coin(0.5) ? int(3 + r.below(3)) : int(r.below(6)))
    {
    case 0: { Index n = Index(r.range(1, 4)); spec = vm::quad_grid(n, n); c.tag("mesh:square_small"); break; }
    case 1: { Index n = Index(r.range(1, 16)); spec = r.coin() ? vm::quad_grid(n, 1) : vm::quad_grid(1, n); c.tag("mesh:strip"); break; }
    case 2: { Index k = Index(r.range(3, 9)); spec = vm::quad_star(k); c.tag("mesh:star"); break; }
    case 3: { spec = vm::quad_grid(Index(r.range(4, big + 4)), Index(r.range(2, big))); c.tag("mesh:grid"); break; }
    case 4: { spec = vm::quad_grid(Index(r.range(4, big + 4)), Index(r.range(3, big))); vm::permute_cells(spec, r); vm::permute_vertices(spec, r); c.tag("mesh:grid_permuted"); break; }
    default: { spec = vm::quad_grid(Index(r.range(2, big)), Index(r.range(2, big))); vm::reorient_cells(spec, r); vm::distort_interior(spec, r, 1.0 / double(big)); c.tag("mesh:grid_reoriented"); break; }
    }
  }
  inline void gen_mesh(vh::Ctx& c, vm::MeshSpec<Shape::Simplex<2>>& spec)
  {
    vh::Rng& r = c.rng;
    const int big = c.thorough() ? 10 : 6;
    if(r.coin(0.3)) { Index n = Index(r.range(1, 12)); spec = r.coin() ? vm::tria_grid(n, 1, &r) : vm::tria_grid(1, n, &r); c.tag("mesh:strip"); }
    else { spec = vm::tria_grid(Index(r.range(1, big)), Index(r.range(1, big)), &r); c.tag("mesh:grid"); }
    if(r.coin(0.4)) { vm::permute_cells(spec, r); vm::permute_vertices(spec, r); c.tag("mesh:permuted"); }
  }
  inline void gen_mesh(vh::Ctx& c, vm::MeshSpec<Shape::Hypercube<3>>& spec)
  {
    vh::Rng& r = c.rng;
    const int big = c.thorough() ? 5 : 4;
    spec = vm::hexa_grid(Index(r.range(1, big)), Index(r.range(1, big)), Index(r.range(1, big))); c.tag("mesh:grid");
    if(r.coin(0.4)) { vm::permute_cells(spec, r); vm::permute_vertices(spec, r); c.tag("mesh:permuted"); }
  }
  inline void gen_mesh(vh::Ctx& c, vm::MeshSpec<Shape::Simplex<3>>& spec)
  {
    vh::Rng& r = c.rng;
    const int big = c.thorough() ? 3 : 2;
    spec = vm::tetra_grid(Index(r.range(1, big)), Index(r.range(1, big)), Index(r.range(1, big))); c.tag("mesh:grid");
    if(r.coin(0.4)) { vm::permute_cells(spec, r); vm::permute_vertices(spec, r); c.tag("mesh:permuted"); }
  }

  template<typename S_>
  Config<S_> gen_config(vh::Ctx& c)
  {
    Config<S_> g;
    vh::Rng& r = c.rng;
    c.tag(std::string("shape:") + vm::ShapeInfo<S_>::name());
    gen_mesh(c, g.spec);
    const Index nc = g.spec.num_cells();
    static const Assembly::ThreadingStrategy ss[5] = {Assembly::ThreadingStrategy::automatic, Assembly::ThreadingStrategy::single,
      Assembly::ThreadingStrategy::layered, Assembly::ThreadingStrategy::layered_sorted, Assembly::ThreadingStrategy::colored};
    { static const int w[20] = {0, 0, 0, 0, 1, 2, 2, 2, 2, 2, 3, 3, 3, 3, 3, 4, 4, 4, 4, 4}; g.strat = ss[w[r.below(20)]]; } g.sname = strat_name(g.strat);
    // two thirds of the cases are biased towards configurations in which several worker threads really run
    // (worker counts 2..8 on meshes with enough layers / colours); the rest covers the edge configurations
    switch(r.coin(0.62) ? 3 : int(r.below(6)))
    {
    case 0: g.workers = std::size_t(r.below(4)); break;                 // 0..3
    case 1: g.workers = std::size_t(nc) + std::size_t(r.below(4)); break; // around #cells
    case 2: g.workers = 64; break;
    case 3: g.workers = std::size_t(r.range(2, 8)); break;
    default: g.workers = std::size_t(r.range(0, long(nc) + 3)); break;
    }
    g.all = r.coin(0.7);
    if(!g.all)
    {
      for(Index i = 0; i < nc; ++i) if(r.coin(0.6)) g.subset.push_back(i);
      if(g.subset.empty()) g.subset.push_back(Index(r.below(nc)));
    }
    g.perturb = int(r.below(3));
    c.tag(std::string("strategy:") + g.sname);
    c.tag(g.workers == 0 ? "req_workers:0" : g.workers == 1 ? "req_workers:1" : g.workers <= 4 ? "req_workers:2-4" : g.workers >= 64 ? "req_workers:64" : "req_workers:5+");
    c.tag(nc == 1 ? "cells:1" : nc <= 4 ? "cells:2-4" : nc <= 16 ? "cells:5-16" : "cells:17+");
    c.tag(g.all ? "all_cells" : "cell_subset");
    c.desc = vh::J().raw("mesh", g.spec.describe()).kv("strategy", g.sname).kv("requested_workers", (unsigned long)g.workers)
      .kv("subset_size", (unsigned long)(g.all ? nc : Index(g.subset.size()))).kv("perturb", g.perturb).str();
    return g;
  }

  template<typename DA_, typename Cfg_>
  void setup_assembler(DA_& da, const Cfg_& g)
  {
    da.set_threading_strategy(g.strat);
    da.set_max_worker_threads(g.workers);
    if(g.all) da.compile_all_elements();
    else { for(Index i : g.subset) da.add_element(i); da.compile(); }
  }

  std::set<std::uint64_t> g_interleavings;

  template<typename Cfg_, typename Fn> void run_monitored(vh::Ctx& c, const Cfg_& g, Fn&& fn)
  {
    { std::lock_guard<std::mutex> l(g_logs_mtx); g_logs.clear(); tl_log = nullptr; } // worker threads of earlier runs are gone
    M().perturb_seed.store(c.rng.next(), RLX);
    M().perturb_level.store(g.perturb, RLX);
    M().in_assemble.store(1, RLX);
    fn();
    M().in_assemble.store(0, RLX);
    M().perturb_level.store(0, RLX);
    // interleaving signature: cross-thread order of fence / worker events
    std::vector<std::pair<std::uint64_t, std::uint64_t>> all;
    {
      std::lock_guard<std::mutex> l(g_logs_mtx);
      for(std::size_t t = 0; t < g_logs.size(); ++t) for(auto& e : *g_logs[t]) all.push_back({e.seq, (std::uint64_t(t) << 8) | std::uint64_t(e.point)});
    }
    std::sort(all.begin(), all.end());
    // thread ids are renamed by order of first appearance so that the signature is about order, not about log slots
    std::map<std::uint64_t, std::uint64_t> ren; std::uint64_t h = 1469598103934665603ull;
    for(auto& e : all) { std::uint64_t t = e.second >> 8; if(!ren.count(t)) { std::uint64_t n = ren.size(); ren[t] = n; } std::uint64_t w = (ren[t] << 8) | (e.second & 0xff); h = vh::hash_bytes(&w, sizeof(w), h); }
    if(all.size() > 2 && g_interleavings.insert(h).second) c.count("distinct_interleavings_observed");
    c.count("fence_and_worker_events", all.size());
  }
}

// ---------------------------------------------------------------------- family: shadow
template<typename S_, bool scatter_, bool combine_>
static void shadow_case(vh::Ctx& c, const Config<S_>& g, const typename T<S_>::Mesh& mesh, typename T<S_>::Trafo& trafo, const char* jobname)
{
  typedef typename T<S_>::DomAsm DomAsm;
  constexpr int nv = T<S_>::nv;
  c.tag(std::string("job:") + jobname);
  c.set_op("domasm.assemble.shadow");
  DomAsm da(trafo);
  setup_assembler(da, g);
  const Index nc = mesh.get_num_elements();
  std::vector<char> sel(nc, g.all ? 1 : 0);
  for(Index i : g.subset) sel[i] = 1;
  const int reps = 3;
  c.count(std::string("resolved_workers:") + std::to_string(std::min<std::size_t>(da.get_num_worker_threads(), 9)));
  for(int rep = 0; rep < reps; ++rep)
  {
    ShadowState<S_> st(mesh);
    ShadowJob<S_, scatter_, combine_> job(st);
    run_monitored(c, g, [&]() { da.assemble(job); });
    c.event();
    // exactly once
    long expect_comb = 0;
    for(Index i = 0; i < nc; ++i)
    {
      const int want = sel[i] ? 1 : 0;
      if(sel[i]) expect_comb += long(i) + 1;
      const int p = st.n_prep[i].load(RLX), a = st.n_asm[i].load(RLX), s = st.n_scat[i].load(RLX), f = st.n_fin[i].load(RLX);
      if(p != want || a != want || f != want || s != (scatter_ ? want : 0))
      {
        c.viol("domasm.assemble.shadow", "not-exactly-once", vh::J().kv("cell", (unsigned long)i).kv("selected", want).kv("prepare", p)
          .kv("assemble", a).kv("scatter", s).kv("finish", f).kv("repetition", rep).str());
        break;
      }
    }
    // occupancy
    if(st.overlap_seen.load(RLX) != 0)
      c.viol("domasm.assemble.shadow", "concurrent-adjacent-scatter", vh::J().kv("vertex", st.ov_vertex).kv("cell_a", st.ov_cell_a)
        .kv("cell_b", st.ov_cell_b).kv("overlaps", st.overlap_seen.load(RLX)).kv("repetition", rep).str());
    // serial equality (integer data: bitwise)
    if(scatter_)
    {
      std::vector<long> ref(mesh.get_num_vertices(), 0);
      const auto& idx = mesh.template get_index_set<T<S_>::dim, 0>();
      for(Index i = 0; i < nc; ++i) if(sel[i]) for(int j = 0; j < nv; ++j) ref[idx(i, j)] += long(i) + 1;
      for(Index v = 0; v < mesh.get_num_vertices(); ++v) if(ref[v] != st.shadow[v])
      {
        c.viol("domasm.assemble.shadow", "result-differs-from-serial", vh::J().kv("vertex", (unsigned long)v).kv("got", st.shadow[v]).kv("expected", ref[v]).kv("repetition", rep).str());
        break;
      }
    }
    if(combine_)
    {
      if(st.combine_overlap.load(RLX) != 0) c.viol("domasm.assemble.shadow", "concurrent-combine", vh::J().kv("overlaps", st.combine_overlap.load(RLX)).str());
      if(st.combines.load(RLX) != st.tasks.load(RLX)) c.viol("domasm.assemble.shadow", "combine-count", vh::J().kv("tasks", st.tasks.load(RLX)).kv("combines", st.combines.load(RLX)).str());
      if(st.combined.load(RLX) != expect_comb || st.combined_plain != expect_comb)
        c.viol("domasm.assemble.shadow", "combined-result-differs", vh::J().kv("got", st.combined.load(RLX)).kv("got_plain", st.combined_plain).kv("expected", expect_comb).str());
    }
  }
}

template<typename S_> static void shadow_shape(vh::Ctx& c)
{
  Config<S_> g = gen_config<S_>(c);
  auto mesh = vm::build(g.spec);
  typename T<S_>::Trafo trafo(*mesh);
  switch(c.rng.below(4))
  {
  case 0: shadow_case<S_, true, false>(c, g, *mesh, trafo, "scatter"); break;
  case 1: shadow_case<S_, true, true>(c, g, *mesh, trafo, "scatter+combine"); break;
  case 2: shadow_case<S_, false, true>(c, g, *mesh, trafo, "combine_only"); break;
  default: shadow_case<S_, true, false>(c, g, *mesh, trafo, "scatter"); break;
  }
}

VH_FAMILY(shadow)
{
  switch(c.rng.below(10))
  {
  case 0: case 1: shadow_shape<Shape::Simplex<2>>(c); break;
  case 2: case 3: shadow_shape<Shape::Hypercube<3>>(c); break;
  case 4: shadow_shape<Shape::Simplex<3>>(c); break;
  default: shadow_shape<Shape::Hypercube<2>>(c); break;
  }
}

// ---------------------------------------------------------------------- family: real FEAT jobs
template<typename S_, typename Space_>
static void real_case(vh::Ctx& c, const Config<S_>& g, typename T<S_>::Trafo& trafo, const char* sname)
{
  typedef typename T<S_>::DomAsm DomAsm;
  typedef LAFEM::SparseMatrixCSR<double, Index> MatrixType;
  typedef LAFEM::DenseVector<double, Index> VectorType;
  c.tag(std::string("space:") + sname);
  Space_ space(trafo);
  MatrixType mat_ref, mat_thr;
  Assembly::SymbolicAssembler::assemble_matrix_std1(mat_ref, space);
  mat_thr = mat_ref.clone(LAFEM::CloneMode::Layout);
  VectorType vec_ref(space.get_num_dofs()), vec_thr(space.get_num_dofs());
  Assembly::Common::LaplaceOperator lapl;
  Analytic::Common::SineBubbleFunction<T<S_>::dim> func;
  const String cub("gauss-legendre:3");
  // reference: no worker threads
  double int_ref = 0.0, int_thr = 0.0;
  {
    Config<S_> s = g; s.workers = 0;
    DomAsm da(trafo); setup_assembler(da, s);
    mat_ref.format(); vec_ref.format();
    Assembly::assemble_bilinear_operator_matrix_1(da, mat_ref, lapl, space, cub);
    Assembly::assemble_force_function_vector(da, vec_ref, func, space, cub);
    auto r = Assembly::integrate_analytic_function<1, double>(da, func, cub);
    int_ref = r.value;
  }
  c.set_op("domasm.assemble.real");
  DomAsm da(trafo);
  setup_assembler(da, g);
  c.count(std::string("resolved_workers:") + std::to_string(std::min<std::size_t>(da.get_num_worker_threads(), 9)));
  for(int rep = 0; rep < 2; ++rep)
  {
    mat_thr.format(); vec_thr.format();
    run_monitored(c, g, [&]() {
      Assembly::assemble_bilinear_operator_matrix_1(da, mat_thr, lapl, space, cub);
      Assembly::assemble_force_function_vector(da, vec_thr, func, space, cub);
      auto r = Assembly::integrate_analytic_function<1, double>(da, func, cub);
      int_thr = r.value;
    });
    c.event(3);
    // equality up to summation order
    double mmax = 0; for(Index i = 0; i < mat_ref.used_elements(); ++i) mmax = std::max(mmax, std::fabs(mat_ref.val()[i]));
    for(Index i = 0; i < mat_ref.used_elements(); ++i)
      if(!(std::fabs(mat_ref.val()[i] - mat_thr.val()[i]) <= 64 * 2.3e-16 * mmax))
      { c.viol("domasm.assemble.real", "matrix-differs-from-serial", vh::J().kv("entry", (unsigned long)i).kv("got", mat_thr.val()[i]).kv("expected", mat_ref.val()[i]).kv("repetition", rep).str()); break; }
    double vmax = 0; for(Index i = 0; i < vec_ref.size(); ++i) vmax = std::max(vmax, std::fabs(vec_ref.elements()[i]));
    for(Index i = 0; i < vec_ref.size(); ++i)
      if(!(std::fabs(vec_ref.elements()[i] - vec_thr.elements()[i]) <= 64 * 2.3e-16 * vmax))
      { c.viol("domasm.assemble.real", "vector-differs-from-serial", vh::J().kv("entry", (unsigned long)i).kv("got", vec_thr.elements()[i]).kv("expected", vec_ref.elements()[i]).str()); break; }
    if(!(std::fabs(int_ref - int_thr) <= 1e-12 * std::max(1.0, std::fabs(int_ref))))
      c.viol("domasm.assemble.real", "integral-differs-from-serial", vh::J().kv("got", int_thr).kv("expected", int_ref).str());
  }
}

template<typename S_> static void real_shape(vh::Ctx& c, bool second_order)
{
  Config<S_> g = gen_config<S_>(c);
  auto mesh = vm::build(g.spec);
  typename T<S_>::Trafo trafo(*mesh);
  if(second_order) real_case<S_, Space::Lagrange2::Element<typename T<S_>::Trafo>>(c, g, trafo, "Lagrange2");
  else real_case<S_, Space::Lagrange1::Element<typename T<S_>::Trafo>>(c, g, trafo, "Lagrange1");
}

VH_FAMILY(real)
{
  switch(c.rng.below(10))
  {
  case 0: real_shape<Shape::Simplex<2>>(c, false); break;
  case 1: real_shape<Shape::Simplex<2>>(c, true); break;
  case 2: real_shape<Shape::Hypercube<3>>(c, false); break;
  case 3: real_shape<Shape::Simplex<3>>(c, false); break;
  case 4: case 5: case 6: real_shape<Shape::Hypercube<2>>(c, true); break;
  default: real_shape<Shape::Hypercube<2>>(c, false); break;
  }
}

int main(int argc, char** argv)
{
  FEAT::Runtime::ScopeGuard guard(argc, argv);
  Verif::callback().store(&hook_cb, std::memory_order_release);
  std::thread wd(watchdog);
  int rc = vh::main_impl(argc, argv);
  M().stop.store(true, RLX);
  wd.join();
  return rc;
}
