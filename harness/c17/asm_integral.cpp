// C17 -- family 'integral': FEAT's own scatter/combine jobs (function-integral jobs) on the real DomainAssembler.
//
// Every job type whose Task accumulates thread-locally and merges under the mutexed combine() is run with every
// threading strategy / worker count of the common configuration generator:
//   analytic  : AnalyticFunctionIntegralJob   (combine only)
//   discrete  : DiscreteFunctionIntegralJob   (combine only)
//   error     : ErrorFunctionIntegralJob      (combine only)
//   cellerror : CellErrorFunctionIntegralJob  (scatter into the per-cell vector + combine)
// The SAME job object is assembled 1..3 times, then a fresh job object on the same assembler.  Targeted schedule
// perturbation: one worker is delayed at its worker_begin hook (= before it constructs its Task) or inside the
// constructor of the harness-owned analytic function evaluator (= in the middle of the Task constructor), and/or at
// its combine_pre hook, so that Task construction of one worker overlaps the work / combine of the others.
//
// Oracle (independent of FEAT): the integrand is e = u - u_h with u affine (harness-owned function) and u_h a
// Lagrange-1 function with generator-owned coefficients, so that on every cell e is the (multi)linear interpolant of
// the generator-owned vertex values d_i = u(v_i) - c_i > 0.  The reference integrates e, e^2, |grad e|^2, grad e per
// cell in long double with its own iso-parametric mapping from the MeshSpec coordinates: closed formulae on simplices
// (FEAT's rule "auto-degree:4" is exact there), the 3-point tensor Gauss-Legendre rule on quadrilaterals/hexahedra
// (FEAT's rule "gauss-legendre:3": exact for value / H0 / L1, the same quadrature formula for the rational H1 terms on
// non-parallelogram cells).  After r assemblies of one job object every additive entry must equal r x truth; Lmax must
// lie between the generator-owned bounds; the per-cell vector must equal the per-cell truth on selected cells and be
// exactly zero elsewhere.  Bound: eps * (128 (1+A) sum_c kappa_c^2 |t_c| + N sum_c |t_c|), kappa_c = Frobenius
// condition of the cell Jacobian, A = cancellation amplification (max|u| + max|u_h|) / min d, N = #cells.
#include "c17_common.hpp"
#include <kernel/assembly/function_integral_jobs.hpp>
#include <kernel/analytic/function.hpp>
#include <kernel/lafem/dense_vector_blocked.hpp>

using namespace FEAT;
using namespace c17;

namespace
{
  typedef long double LD;

  // ------------------------------------------------------------------ harness-owned analytic function u = a0 + a.x
  template<int dim_>
  class LinFunction : public Analytic::Function
  {
  public:
    static constexpr int domain_dim = dim_;
    typedef Analytic::Image::Scalar ImageType;
    static constexpr bool can_value = true;
    static constexpr bool can_grad = true;
    static constexpr bool can_hess = false;
    double a0 = 0.0, a[3] = {0.0, 0.0, 0.0};
    // relaxed atomics only (no happens-before edges): the evaluator with construction index delay_idx sleeps delay_us
    mutable std::atomic<int> num_evals{0};
    std::atomic<int> delay_idx{-1}, delay_us{0};

    template<typename Traits_>
    class Evaluator : public Analytic::Function::Evaluator<Traits_>
    {
    public:
      typedef typename Traits_::DataType DataType;
      typedef typename Traits_::PointType PointType;
      typedef typename Traits_::ValueType ValueType;
      typedef typename Traits_::GradientType GradientType;
      DataType b0, b[3]; unsigned calls = 0;
      explicit Evaluator(const LinFunction& f) : b0(DataType(f.a0))
      {
        for(int i = 0; i < 3; ++i) b[i] = DataType(f.a[i]);
        const int k = f.num_evals.fetch_add(1, RLX);
        const int us = f.delay_us.load(RLX);
        M().progress.fetch_add(1, RLX);
        if(us > 0 && k == f.delay_idx.load(RLX)) std::this_thread::sleep_for(std::chrono::microseconds(us));
        perturb(21);
      }
      ValueType value(const PointType& p)
      {
        if((++calls & 15u) == 0u) perturb(22);
        DataType r = b0;
        for(int i = 0; i < dim_; ++i) r += b[i] * p[i];
        return r;
      }
      GradientType gradient(const PointType&)
      {
        GradientType g;
        for(int i = 0; i < dim_; ++i) g[i] = b[i];
        return g;
      }
    };
  };

  // ------------------------------------------------------------------ reference (long double, generator-owned data only)
  template<int D> LD inv_small(const LD (&J)[3][3], LD (&Ji)[3][3])
  {
    if(D == 2)
    {
      const LD det = J[0][0] * J[1][1] - J[0][1] * J[1][0];
      Ji[0][0] = J[1][1] / det; Ji[0][1] = -J[0][1] / det; Ji[1][0] = -J[1][0] / det; Ji[1][1] = J[0][0] / det;
      return det;
    }
    const LD c00 = J[1][1] * J[2][2] - J[1][2] * J[2][1], c01 = J[1][2] * J[2][0] - J[1][0] * J[2][2], c02 = J[1][0] * J[2][1] - J[1][1] * J[2][0];
    const LD det = J[0][0] * c00 + J[0][1] * c01 + J[0][2] * c02;
    Ji[0][0] = c00 / det; Ji[1][0] = c01 / det; Ji[2][0] = c02 / det;
    Ji[0][1] = (J[0][2] * J[2][1] - J[0][1] * J[2][2]) / det; Ji[1][1] = (J[0][0] * J[2][2] - J[0][2] * J[2][0]) / det; Ji[2][1] = (J[0][1] * J[2][0] - J[0][0] * J[2][1]) / det;
    Ji[0][2] = (J[0][1] * J[1][2] - J[0][2] * J[1][1]) / det; Ji[1][2] = (J[0][2] * J[1][0] - J[0][0] * J[1][2]) / det; Ji[2][2] = (J[0][0] * J[1][1] - J[0][1] * J[1][0]) / det;
    return det;
  }
  template<int D> LD kappa2(const LD (&J)[3][3], const LD (&Ji)[3][3])
  {
    LD a = 0, b = 0;
    for(int i = 0; i < D; ++i) for(int j = 0; j < D; ++j) { a += J[i][j] * J[i][j]; b += Ji[i][j] * Ji[i][j]; }
    return a * b;
  }

  struct CellRef { LD val = 0, h0 = 0, h1 = 0, g[3] = {0, 0, 0}, ag[3] = {0, 0, 0}, k2 = 0, dmin = 0, dmax = 0; };

  // simplices: closed formulae for the affine function with vertex values d[0..D]
  template<int D> CellRef ref_simplex(const LD (*X)[3], const LD* d)
  {
    CellRef r;
    LD B[3][3] = {{0, 0, 0}, {0, 0, 0}, {0, 0, 0}}, Bi[3][3] = {{0, 0, 0}, {0, 0, 0}, {0, 0, 0}};
    for(int a = 0; a < D; ++a) for(int i = 1; i <= D; ++i) B[a][i - 1] = X[i][a] - X[0][a];
    const LD det = inv_small<D>(B, Bi);
    const LD vol = det / (D == 2 ? 2 : 6);
    LD s = 0, q = 0; r.dmin = r.dmax = d[0];
    for(int i = 0; i <= D; ++i) { s += d[i]; q += d[i] * d[i]; r.dmin = std::min(r.dmin, d[i]); r.dmax = std::max(r.dmax, d[i]); }
    r.val = vol * s / (D + 1);
    r.h0 = vol * (q + s * s) / ((D + 1) * (D + 2));
    for(int a = 0; a < D; ++a)
    {
      LD ga = 0;
      for(int b = 0; b < D; ++b) ga += Bi[b][a] * (d[b + 1] - d[0]);
      r.g[a] = vol * ga; r.ag[a] = std::fabs(vol * ga); r.h1 += vol * ga * ga;
    }
    r.k2 = kappa2<D>(B, Bi);
    return r;
  }

  // hypercubes: multilinear function with vertex values d[0..2^D-1] (tensor numbering), 3-point tensor Gauss-Legendre
  template<int D> CellRef ref_hypercube(const LD (*X)[3], const LD* d)
  {
    CellRef r;
    constexpr int NV = 1 << D;
    const LD s = std::sqrt((LD)0.6L), pt[3] = {-s, 0, s}, wt[3] = {(LD)5 / 9, (LD)8 / 9, (LD)5 / 9};
    r.dmin = r.dmax = d[0];
    for(int i = 0; i < NV; ++i) { r.dmin = std::min(r.dmin, d[i]); r.dmax = std::max(r.dmax, d[i]); }
    const int np = D == 2 ? 9 : 27;
    for(int p = 0; p < np; ++p)
    {
      int ip[3] = {p % 3, (p / 3) % 3, p / 9};
      LD xi[3], w = 1;
      for(int k = 0; k < D; ++k) { xi[k] = pt[ip[k]]; w *= wt[ip[k]]; }
      LD J[3][3] = {{0, 0, 0}, {0, 0, 0}, {0, 0, 0}}, Ji[3][3] = {{0, 0, 0}, {0, 0, 0}, {0, 0, 0}}, e = 0, ge[3] = {0, 0, 0};
      for(int i = 0; i < NV; ++i)
      {
        LD f[3], df[3];
        for(int k = 0; k < D; ++k) { const LD sg = ((i >> k) & 1) ? 1 : -1; f[k] = (1 + sg * xi[k]) / 2; df[k] = sg / 2; }
        LD phi = 1; for(int k = 0; k < D; ++k) phi *= f[k];
        e += d[i] * phi;
        for(int b = 0; b < D; ++b)
        {
          LD dphi = df[b]; for(int k = 0; k < D; ++k) if(k != b) dphi *= f[k];
          ge[b] += d[i] * dphi;
          for(int a = 0; a < D; ++a) J[a][b] += X[i][a] * dphi;
        }
      }
      const LD det = inv_small<D>(J, Ji);
      const LD om = w * det;
      r.val += om * e; r.h0 += om * e * e;
      for(int a = 0; a < D; ++a)
      {
        LD ga = 0; for(int b = 0; b < D; ++b) ga += Ji[b][a] * ge[b];
        r.g[a] += om * ga; r.ag[a] += std::fabs(om * ga); r.h1 += om * ga * ga;
      }
      r.k2 = std::max(r.k2, kappa2<D>(J, Ji));
    }
    return r;
  }

  template<typename S_> struct RefSel;
  template<int D> struct RefSel<Shape::Simplex<D>> { static CellRef get(const LD (*X)[3], const LD* d) { return ref_simplex<D>(X, d); } static const char* cub() { return "auto-degree:4"; } };
  template<int D> struct RefSel<Shape::Hypercube<D>> { static CellRef get(const LD (*X)[3], const LD* d) { return ref_hypercube<D>(X, d); } static const char* cub() { return "gauss-legendre:3"; } };

  struct Truth
  {
    std::vector<CellRef> cell;            // per cell (unselected: zero)
    std::vector<char> sel;
    // value, h0, h1, g[0..2]: sum over the selected cells, S = sum of |terms|, W = sum of kappa^2 |terms|
    LD q[6] = {0, 0, 0, 0, 0, 0}, S[6] = {0, 0, 0, 0, 0, 0}, W[6] = {0, 0, 0, 0, 0, 0};
    LD lmax_lo = 0, lmax_hi = 0, amp = 1; std::size_t n = 0;
    LD tol(int k, LD mult) const { return mult * (LD)2.3e-16L * (128 * (1 + amp) * W[k] + (LD)(n * (std::size_t)mult + 4) * S[k]); }
  };

  template<typename S_>
  Truth make_truth(const vm::MeshSpec<S_>& spec, const std::vector<char>& sel, const std::vector<LD>& dvert, LD amp)
  {
    constexpr int nv = T<S_>::nv, dim = T<S_>::dim;
    Truth t; t.sel = sel; t.cell.resize(spec.num_cells()); t.amp = amp;
    bool first = true;
    for(Index c = 0; c < spec.num_cells(); ++c)
    {
      if(!sel[c]) continue;
      LD X[8][3], d[8];
      for(int j = 0; j < nv; ++j)
      {
        const Index v = spec.cells[c][std::size_t(j)];
        for(int a = 0; a < 3; ++a) X[j][a] = (LD)spec.verts[v][std::size_t(a)];
        d[j] = dvert[v];
      }
      CellRef r = RefSel<S_>::get(X, d);
      t.cell[c] = r; ++t.n;
      const LD term[6] = {r.val, r.h0, r.h1, r.g[0], r.g[1], r.g[2]}, aterm[6] = {std::fabs(r.val), r.h0, r.h1, r.ag[0], r.ag[1], r.ag[2]};
      for(int k = 0; k < 3 + dim; ++k) { t.q[k] += term[k]; t.S[k] += aterm[k]; t.W[k] += r.k2 * aterm[k]; }
      // |e| at any point of a cell lies between the smallest and the largest vertex value of that cell (all d > 0)
      if(first) { t.lmax_lo = r.dmin; t.lmax_hi = r.dmax; first = false; }
      else { t.lmax_lo = std::max(t.lmax_lo, r.dmin); t.lmax_hi = std::max(t.lmax_hi, r.dmax); }
    }
    return t;
  }

  // ------------------------------------------------------------------ judging one FunctionIntegralInfo
  template<int dim_, typename Info_>
  void judge_info(vh::Ctx& c, const Info_& info, const Truth& t, int mult, const char* jobname, int rep, bool fresh)
  {
    const char* kind = mult > 1 ? "reassembled-integral-differs-from-truth" : "integral-differs-from-truth";
    static const char* names[6] = {"value", "norm_h0_sqr", "norm_h1_sqr", "grad[0]", "grad[1]", "grad[2]"};
    LD got[7] = {(LD)info.value, (LD)info.norm_h0_sqr, (LD)info.norm_h1_sqr, 0, 0, 0, (LD)info.norm_l1};
    for(int a = 0; a < dim_; ++a) got[3 + a] = (LD)info.grad[a];
    auto bad = [&](const char* what, LD g, LD e, LD tol)
    {
      c.viol("domasm.assemble.integral", kind, vh::J().kv("job", jobname).kv("entry", what).kv("got", double(g)).kv("expected", double(e))
        .kv("ratio", e != 0 ? double(g / e) : 0.0).kv("bound", double(tol)).kv("assemblies_of_this_job_object", mult).kv("repetition", rep).kv("fresh_job", fresh ? 1 : 0).str());
    };
    for(int k = 0; k < 3 + dim_; ++k)
    {
      const LD e = t.q[k] * mult, tol = t.tol(k, (LD)mult);
      if(!(std::fabs(got[k] - e) <= tol)) { bad(names[k], got[k], e, tol); return; }
    }
    // e > 0 everywhere: the L1 norm equals the integral of the value
    { const LD e = t.q[0] * mult, tol = t.tol(0, (LD)mult); if(!(std::fabs(got[6] - e) <= tol)) { bad("norm_l1", got[6], e, tol); return; } }
    const LD lm = (LD)info.norm_lmax, sl = 1e-12L * t.lmax_hi;
    if(!(lm >= t.lmax_lo - sl && lm <= t.lmax_hi + sl))
      c.viol("domasm.assemble.integral", "lmax-outside-bounds", vh::J().kv("job", jobname).kv("got", double(lm)).kv("lower", double(t.lmax_lo)).kv("upper", double(t.lmax_hi)).kv("repetition", rep).str());
    // (max_der is not judged: FunctionCellIntegralInfo does not carry it over into the object handed out by result())
    if(info.norm_h2_sqr != 0.0)
      c.viol("domasm.assemble.integral", "untouched-entry-modified", vh::J().kv("job", jobname).kv("norm_h2_sqr", double(info.norm_h2_sqr)).str());
  }

  // ------------------------------------------------------------------ targeted schedule perturbation
  template<int dim_>
  void set_delays(vh::Rng& r, LinFunction<dim_>& func, std::size_t nworkers, bool has_func, std::string& how)
  {
    for(int i = 0; i < 2; ++i) M().delay_us[i].store(0, RLX);
    func.num_evals.store(0, RLX); func.delay_us.store(0, RLX); func.delay_idx.store(-1, RLX);
    if(nworkers < 2) { how = "none"; return; }
    auto pick = [&]() -> std::uint64_t { return r.coin(0.5) ? 1u : std::uint64_t(1 + r.below(nworkers)); };
    const int us = int(r.range(200, 2500));
    int mode = int(r.below(6));
    if(mode == 2 && !has_func) mode = 1;
    switch(mode)
    {
    case 0: how = "none"; break;
    case 1: case 5: // one worker constructs its task late
      M().delay_point[0].store(Verif::worker_begin, RLX); M().delay_worker[0].store(pick(), RLX); M().delay_us[0].store(us, RLX); how = "late_task"; break;
    case 2: // one worker is held in the middle of its task constructor
      func.delay_idx.store(int(r.below(nworkers)), RLX); func.delay_us.store(us, RLX); how = "slow_task_ctor"; break;
    case 3: // one worker combines late (inside the mutex)
      M().delay_point[0].store(Verif::combine_pre, RLX); M().delay_worker[0].store(pick(), RLX); M().delay_us[0].store(us, RLX); how = "late_combine"; break;
    default: // one worker constructs late, another one (or every one) is slow in combine
      M().delay_point[0].store(Verif::worker_begin, RLX); M().delay_worker[0].store(pick(), RLX); M().delay_us[0].store(us, RLX);
      M().delay_point[1].store(Verif::combine_pre, RLX); M().delay_worker[1].store(r.coin() ? ~std::uint64_t(0) : std::uint64_t(1 + r.below(nworkers)), RLX); M().delay_us[1].store(us / 2, RLX);
      how = "late_task+slow_combine"; break;
    }
  }
  template<int dim_> void clear_delays(LinFunction<dim_>& func)
  {
    for(int i = 0; i < 2; ++i) M().delay_us[i].store(0, RLX);
    func.delay_us.store(0, RLX);
  }

  enum JobKind { jk_analytic = 0, jk_discrete, jk_error, jk_cellerror };

  template<typename S_>
  void integral_case(vh::Ctx& c)
  {
    typedef typename T<S_>::DomAsm DomAsm;
    typedef typename T<S_>::Trafo TrafoType;
    typedef Space::Lagrange1::Element<TrafoType> SpaceType;
    typedef LAFEM::DenseVector<double, Index> VectorType;
    constexpr int dim = T<S_>::dim;
    typedef LinFunction<dim> FuncType;

    Config<S_> g = gen_config<S_>(c);
    vh::Rng& r = c.rng;
    static const int jw[8] = {jk_analytic, jk_discrete, jk_error, jk_error, jk_cellerror, jk_cellerror, jk_cellerror, jk_cellerror};
    const int jk = jw[r.below(8)];
    static const char* jnames[4] = {"analytic", "discrete", "error", "cellerror"};
    const char* jobname = jnames[jk];
    c.tag(std::string("job:") + jobname);
    const int nrep = 1 + int(r.below(3));
    const bool fetch_each = r.coin();
    c.tag(nrep == 1 ? "assemblies:1" : "assemblies:2+");
    c.set_op("domasm.assemble.integral");

    auto mesh = vm::build(g.spec);
    TrafoType trafo(*mesh);
    SpaceType space(trafo);
    const Index nvt = g.spec.num_verts(), nc = g.spec.num_cells();

    // generator-owned data: u = a0 + a.x > 0 on all vertices; c_i = Lagrange-1 coefficients; d_i = vertex values of the integrand
    FuncType func;
    for(int a = 0; a < dim; ++a) func.a[a] = r.real(-1.0, 1.0);
    double umin = 0.0; bool first = true;
    for(Index v = 0; v < nvt; ++v) { double u = 0; for(int a = 0; a < dim; ++a) u += func.a[a] * g.spec.verts[v][std::size_t(a)]; if(first || u < umin) umin = u; first = false; }
    func.a0 = 0.5 - umin;
    VectorType vec(space.get_num_dofs());
    if(vec.size() != nvt) { c.inconclusive("Lagrange-1 dof count differs from the vertex count"); return; }
    std::vector<LD> dvert(nvt);
    LD maxabs = 0, mind = 0;
    for(Index v = 0; v < nvt; ++v)
    {
      LD u = (LD)func.a0; for(int a = 0; a < dim; ++a) u += (LD)func.a[a] * (LD)g.spec.verts[v][std::size_t(a)];
      double cv = 0.0;
      switch(jk)
      {
      case jk_analytic: cv = 0.0; dvert[v] = u; break;
      case jk_discrete: cv = r.real(0.5, 1.5); dvert[v] = (LD)cv; u = 0; break;
      default: cv = double(u) - r.real(0.5, 1.5); dvert[v] = u - (LD)cv; break;
      }
      vec.elements()[v] = cv;
      maxabs = std::max(maxabs, std::fabs(u) + std::fabs((LD)cv));
      mind = v == 0 ? dvert[v] : std::min(mind, dvert[v]);
    }
    if(!(mind > 0.25L)) { c.inconclusive("generator produced a non-positive integrand"); return; }
    std::vector<char> sel(nc, g.all ? 1 : 0);
    for(Index i : g.subset) sel[i] = 1;
    const Truth truth = make_truth(g.spec, sel, dvert, maxabs / mind);

    const String cub(RefSel<S_>::cub());
    DomAsm da(trafo);
    setup_assembler(da, g);
    const std::size_t nw = da.get_num_worker_threads();
    c.count(std::string("resolved_workers:") + std::to_string(std::min<std::size_t>(nw, 9)));
    if(nw >= 2) c.count("integral_cases_with_2+_workers");

    auto judge_cells = [&](const LAFEM::DenseVectorBlocked<double, Index, 2>& cv, int rep)
    {
      if(cv.size() != nc) { c.viol("domasm.assemble.integral", "cell-vector-size", vh::J().kv("got", (unsigned long)cv.size()).kv("expected", (unsigned long)nc).str()); return; }
      for(Index i = 0; i < nc; ++i)
      {
        const auto x = cv(i);
        if(!sel[i])
        {
          if(x[0] != 0.0 || x[1] != 0.0) { c.viol("domasm.assemble.integral", "cell-vector-unselected-nonzero", vh::J().kv("cell", (unsigned long)i).kv("h0", x[0]).kv("h1", x[1]).kv("repetition", rep).str()); return; }
          continue;
        }
        const CellRef& cr = truth.cell[i];
        const LD f = (LD)2.3e-16L * (128 * (1 + truth.amp) * cr.k2 + 4);
        if(!(std::fabs((LD)x[0] - cr.h0) <= f * cr.h0) || !(std::fabs((LD)x[1] - cr.h1) <= f * cr.h1 + (LD)1e-300L))
        {
          c.viol("domasm.assemble.integral", "cell-vector-differs-from-truth", vh::J().kv("cell", (unsigned long)i).kv("got_h0", x[0]).kv("expected_h0", double(cr.h0))
            .kv("got_h1", x[1]).kv("expected_h1", double(cr.h1)).kv("rel_bound", double(f)).kv("repetition", rep).str());
          return;
        }
      }
    };

    // one pass = one job object: `na` assemblies of the same object
    auto pass = [&](int na, bool fresh)
    {
      std::string how;
      auto run = [&](auto& job, int rep)
      {
        set_delays(r, func, nw, jk != jk_discrete, how);
        c.count(std::string("perturbation:") + how);
        run_monitored(c, g, [&]() { da.assemble(job); });
        clear_delays(func);
        c.event();
      };
      switch(jk)
      {
      case jk_analytic:
      {
        Assembly::AnalyticFunctionIntegralJob<double, FuncType, TrafoType, 1> job(func, trafo, cub);
        for(int rep = 0; rep < na; ++rep) { run(job, rep); judge_info<dim>(c, job.result(), truth, rep + 1, jobname, rep, fresh); }
        break;
      }
      case jk_discrete:
      {
        Assembly::DiscreteFunctionIntegralJob<VectorType, SpaceType, 1> job(vec, space, cub);
        for(int rep = 0; rep < na; ++rep) { run(job, rep); judge_info<dim>(c, job.result(), truth, rep + 1, jobname, rep, fresh); }
        break;
      }
      case jk_error:
      {
        Assembly::ErrorFunctionIntegralJob<FuncType, VectorType, SpaceType, 1> job(func, vec, space, cub);
        for(int rep = 0; rep < na; ++rep) { run(job, rep); judge_info<dim>(c, job.result(), truth, rep + 1, jobname, rep, fresh); }
        break;
      }
      default:
      {
        Assembly::CellErrorFunctionIntegralJob<FuncType, VectorType, SpaceType, 1> job(func, vec, space, cub);
        for(int rep = 0; rep < na; ++rep)
        {
          run(job, rep);
          if(fetch_each || rep + 1 == na)
          {
            // result() hands out the per-cell vector (and re-creates it); the integral info keeps accumulating
            auto res = job.result();
            judge_info<dim>(c, res.integral_info, truth, rep + 1, jobname, rep, fresh);
            judge_cells(res.vec, rep);
          }
        }
        break;
      }
      }
    };
    pass(nrep, false);
    pass(1, true);   // a fresh job object on the same assembler
    if(c.verbose())
      std::fprintf(stderr, "integral: job=%s workers=%zu nrep=%d value=%.17Lg h0=%.17Lg h1=%.17Lg amp=%.3Lg\n", jobname, nw, nrep, truth.q[0], truth.q[1], truth.q[2], truth.amp);
  }
}

VH_FAMILY(integral)
{
  switch(c.rng.below(10))
  {
  case 0: case 1: integral_case<Shape::Simplex<2>>(c); break;
  case 2: integral_case<Shape::Hypercube<3>>(c); break;
  case 3: integral_case<Shape::Simplex<3>>(c); break;
  default: integral_case<Shape::Hypercube<2>>(c); break;
  }
}
