// C13 -- distributed vectors / operators / solves equal the single-process results.
// An MPI program modelled on applications/poisson_dirichlet.cpp. Every rank writes an event log
// (JSON lines) with, for each local DOF, its coordinate key and values before/after the
// synchronisations, printed scalars with 17 digits, and every MPI_Waitany decision of the PMPI
// interposer below (which delays and randomly picks among the completed receives, i.e. permutes
// the message arrival order).  The offline checker vlib/run_c13.py merges the logs of all ranks and
// compares with the n=1 run.
//
// usage: mpirun -n P dist --mesh <file> --level <levels...> [--parti-type ...] --space q1|q2
//                         --out <prefix> --sched-seed S --data-seed D
#include <kernel/runtime.hpp>
#include <kernel/util/simple_arg_parser.hpp>
#include <kernel/util/statistics.hpp>
#include <kernel/geometry/conformal_mesh.hpp>
#include <kernel/geometry/mesh_node.hpp>
#include <kernel/trafo/standard/mapping.hpp>
#include <kernel/space/lagrange1/element.hpp>
#include <kernel/space/discontinuous/element.hpp>
#include <kernel/space/lagrange2/element.hpp>
#include <kernel/analytic/common.hpp>
#include <kernel/analytic/lambda_function.hpp>
#include <kernel/assembly/common_functionals.hpp>
#include <kernel/assembly/interpolator.hpp>
#include <kernel/assembly/domain_assembler_helpers.hpp>
#include <kernel/solver/pcg.hpp>
#include <kernel/solver/richardson.hpp>
#include <kernel/solver/jacobi_precond.hpp>
#include <kernel/solver/multigrid.hpp>
#include <kernel/util/dist.hpp>
#include <control/domain/parti_domain_control.hpp>
#include <control/scalar_basic.hpp>
#include <control/stokes_blocked.hpp>
#include <kernel/assembly/common_operators.hpp>
#include <kernel/assembly/symbolic_assembler.hpp>
#include <cstdio>
#include <cstdint>
#include <unistd.h>

using namespace FEAT;

// ------------------------------------------------------------------------------------------------
// PMPI interposer: message-arrival-order perturbation at MPI_Waitany
// ------------------------------------------------------------------------------------------------
namespace
{
  FILE* g_log = nullptr;
  FEAT::String g_out("c13");
  bool g_splitter = false;
  std::uint64_t g_sched = 0;      // 0 = interposer passive (plain PMPI_Waitany)
  std::uint64_t g_sched_state = 0;
  const char* g_phase = "init";
  std::uint64_t mix64(std::uint64_t x)
  {
    x += 0x9E3779B97F4A7C15ull; x = (x ^ (x >> 30)) * 0xBF58476D1CE4E5B9ull; x = (x ^ (x >> 27)) * 0x94D049BB133111EBull; return x ^ (x >> 31);
  }
}

extern "C" int MPI_Waitany(int count, MPI_Request reqs[], int* index, MPI_Status* status)
{
  if(g_sched == 0)
    return PMPI_Waitany(count, reqs, index, status);
  // how many active requests?
  int active = 0;
  for(int i = 0; i < count; ++i) if(reqs[i] != MPI_REQUEST_NULL) ++active;
  if(active == 0) { *index = MPI_UNDEFINED; return MPI_SUCCESS; }
  g_sched_state = mix64(g_sched_state + 0x1234567ull);
  // seeded delay so that several receives can complete before we look
  if(g_sched_state % 4 != 0) usleep(useconds_t(50 + (g_sched_state >> 8) % 1500));
  std::vector<int> ready;
  for(int tries = 0; tries < 1000000 && ready.empty(); ++tries)
  {
    for(int i = 0; i < count; ++i)
    {
      if(reqs[i] == MPI_REQUEST_NULL) continue;
      int flag = 0;
      PMPI_Request_get_status(reqs[i], &flag, MPI_STATUS_IGNORE);
      if(flag) ready.push_back(i);
    }
    if(ready.empty()) usleep(20);
  }
  if(ready.empty()) return PMPI_Waitany(count, reqs, index, status);
  g_sched_state = mix64(g_sched_state);
  const int pick = ready[std::size_t(g_sched_state % ready.size())];
  if(g_log)
  {
    std::fprintf(g_log, "{\"t\":\"waitany\",\"phase\":\"%s\",\"active\":%d,\"ready\":[", g_phase, active);
    for(std::size_t i = 0; i < ready.size(); ++i) std::fprintf(g_log, "%s%d", i ? "," : "", ready[i]);
    std::fprintf(g_log, "],\"chosen\":%d}\n", pick);
  }
  *index = pick;
  return PMPI_Wait(&reqs[pick], status);
}

// ------------------------------------------------------------------------------------------------
namespace C13
{
  typedef double DataType;
  typedef Index IndexType;

  template<typename V> void dump_vec(const char* name, const V& loc, const V& kx, const V& ky)
  {
    std::fprintf(g_log, "{\"t\":\"vec\",\"name\":\"%s\",\"n\":%lu,\"data\":[", name, (unsigned long)loc.size());
    for(Index i = 0; i < loc.size(); ++i)
      std::fprintf(g_log, "%s[%.17g,%.17g,%.17g]", i ? "," : "", kx(i), ky(i), loc(i));
    std::fprintf(g_log, "]}\n");
  }
  std::string clean(const String& in) { std::string o(in); for(auto& ch : o) if(ch == '\n' || ch == '"' || ch == '\\' || (unsigned char)ch < 32) ch = ' '; return o; }
  void dump_scalar(const char* name, double v) { std::fprintf(g_log, "{\"t\":\"scalar\",\"name\":\"%s\",\"value\":%.17g}\n", name, v); }

  // deterministic pseudo-random value from a coordinate key and a salt (identical on every rank that holds the DOF)
  double key_value(double x, double y, std::uint64_t salt)
  {
    std::uint64_t a, b; static_assert(sizeof(double) == 8, "");
    double xr = std::round(x * 1e9) / 1e9, yr = std::round(y * 1e9) / 1e9;
    std::memcpy(&a, &xr, 8); std::memcpy(&b, &yr, 8);
    std::uint64_t h = mix64(a ^ mix64(b + salt));
    return double(std::int64_t(h % 2000001) - 1000000) / 1000000.0; // in [-1,1], 6 decimals
  }


  // coordinate keys of the DOFs of a space: (x, y) in 2D; (x, y + 16 z) in 3D (all shipped 3D test domains lie in |y| < 8)
  template<int dim_> struct Coords;
  template<> struct Coords<2>
  {
    template<typename V, typename Sp> static void project(V& kx, V& ky, const Sp& space)
    {
      auto fx = Analytic::create_lambda_function_scalar_2d([](double x, double) { return x; });
      auto fy = Analytic::create_lambda_function_scalar_2d([](double, double y) { return y; });
      Assembly::Interpolator::project(kx, fx, space); Assembly::Interpolator::project(ky, fy, space);
    }
    template<typename V, typename Sp> static void project_lin(V& v, const Sp& space)
    {
      auto fl = Analytic::create_lambda_function_scalar_2d([](double x, double y) { return 1.0 + 2.0 * x - y; });
      Assembly::Interpolator::project(v, fl, space);
    }
    static double lin(double kx, double ky) { return 1.0 + 2.0 * kx - ky; }
  };
  template<> struct Coords<3>
  {
    template<typename V, typename Sp> static void project(V& kx, V& ky, const Sp& space)
    {
      auto fx = Analytic::create_lambda_function_scalar_3d([](double x, double, double) { return x; });
      auto fy = Analytic::create_lambda_function_scalar_3d([](double, double y, double z) { return y + 16.0 * z; });
      Assembly::Interpolator::project(kx, fx, space); Assembly::Interpolator::project(ky, fy, space);
    }
    template<typename V, typename Sp> static void project_lin(V& v, const Sp& space)
    {
      auto fl = Analytic::create_lambda_function_scalar_3d([](double x, double y, double z) { return 1.0 + 2.0 * x - (y + 16.0 * z); });
      Assembly::Interpolator::project(v, fl, space);
    }
    static double lin(double kx, double ky) { return 1.0 + 2.0 * kx - ky; }
  };

  template<typename DomainLevel_>
  void run(SimpleArgParser& args, Control::Domain::DomainControl<DomainLevel_>& domain, std::uint64_t data_seed, const String& parti_info, const String& chosen_levels)
  {
    const Dist::Comm& comm = domain.comm();
    typedef Control::Domain::DomainControl<DomainLevel_> DomainControlType;
    typedef typename DomainControlType::LevelType DomainLevelType;
    typedef typename DomainControlType::ShapeType ShapeType;
    Analytic::Common::ExpBubbleFunction<ShapeType::dimension> sol_func;
    typedef Control::ScalarUnitFilterSystemLevel<DataType, IndexType> SystemLevelType;
    std::deque<std::shared_ptr<SystemLevelType>> system_levels;
    const Index num_levels = Index(domain.size_physical());
    for(Index i = 0; i < num_levels; ++i) system_levels.push_back(std::make_shared<SystemLevelType>());
    const String cubature("auto-degree:5");

    g_phase = "assemble_gate";
    for(Index i = 0; i < num_levels; ++i)
    {
      domain.at(i)->domain_asm.compile_all_elements();
      system_levels.at(i)->assemble_gate(domain.at(i));
    }
    g_phase = "assemble_transfer";
    for(Index i = 0; (i < domain.size_physical()) && ((i + 1) < domain.size_virtual()); ++i)
    {
      system_levels.at(i)->assemble_coarse_muxer(domain.at(i + 1));
      if((i + 1) < domain.size_physical())
        system_levels.at(i)->assemble_transfer(*system_levels.at(i + 1), domain.at(i), domain.at(i + 1), cubature);
      else
        system_levels.at(i)->assemble_transfer(domain.at(i), domain.at(i + 1), cubature);
    }
    g_phase = "assemble_matrix";
    for(Index i = 0; i < num_levels; ++i)
      system_levels.at(i)->assemble_laplace_matrix(domain.at(i)->domain_asm, domain.at(i)->space, cubature);
    for(Index i = 0; i < num_levels; ++i)
      system_levels.at(i)->assemble_homogeneous_unit_filter(*domain.at(i), domain.at(i)->space);

    typedef typename SystemLevelType::GlobalSystemVector GlobalSystemVector;
    typedef typename SystemLevelType::LocalSystemVector LocalVector;
    DomainLevelType& the_domain_level = *domain.front();
    SystemLevelType& the_system_level = *system_levels.front();

    // coordinate keys of the local DOFs
    LocalVector kx, ky;
    Coords<ShapeType::dimension>::project(kx, ky, the_domain_level.space);
    std::fprintf(g_log, "{\"t\":\"info\",\"rank\":%d,\"nprocs\":%d,\"ndofs_local\":%lu,\"levels_physical\":%lu,\"levels_virtual\":%lu,\"chosen_levels\":\"%s\",\"parti\":\"%s\"}\n",
      comm.rank(), comm.size(), (unsigned long)kx.size(), (unsigned long)domain.size_physical(), (unsigned long)domain.size_virtual(),
      clean(chosen_levels).c_str(), clean(parti_info).c_str());

    // ---- type-0 synchronisation: every rank contributes a rank-dependent value at each of its DOFs
    {
      GlobalSystemVector v = the_system_level.matrix_sys.create_vector_r();
      for(Index i = 0; i < kx.size(); ++i) v.local()(i, key_value(kx(i), ky(i), data_seed + 17u * std::uint64_t(comm.rank() + 1)));
      dump_vec("sync0_pre", v.local(), kx, ky);
      g_phase = "sync0";
      v.sync_0();
      dump_vec("sync0_post", v.local(), kx, ky);
    }
    // ---- type-1 synchronisation
    {
      GlobalSystemVector v = the_system_level.matrix_sys.create_vector_r();
      for(Index i = 0; i < kx.size(); ++i) v.local()(i, key_value(kx(i), ky(i), data_seed + 31u * std::uint64_t(comm.rank() + 1)));
      dump_vec("sync1_pre", v.local(), kx, ky);
      g_phase = "sync1";
      v.sync_1();
      dump_vec("sync1_post", v.local(), kx, ky);
    }
    // ---- global dot / norm and matrix-vector product of consistent (type-1) vectors
    {
      GlobalSystemVector u = the_system_level.matrix_sys.create_vector_r();
      GlobalSystemVector w = the_system_level.matrix_sys.create_vector_r();
      GlobalSystemVector y = the_system_level.matrix_sys.create_vector_r();
      for(Index i = 0; i < kx.size(); ++i)
      {
        u.local()(i, key_value(kx(i), ky(i), data_seed + 101u));
        w.local()(i, key_value(kx(i), ky(i), data_seed + 202u));
      }
      dump_vec("u", u.local(), kx, ky);
      dump_vec("w", w.local(), kx, ky);
      g_phase = "dot";
      dump_scalar("dot_u_w", u.dot(w));
      dump_scalar("norm2_u", u.norm2());
      dump_scalar("norm2sqr_w", w.norm2sqr());
      dump_scalar("max_abs_u", u.max_abs_element());
      g_phase = "matvec";
      the_system_level.matrix_sys.apply(y, u);
      dump_vec("A_u", y.local(), kx, ky);
      the_system_level.matrix_sys.apply(y, u, w, -0.5);
      dump_vec("w_minus_half_A_u", y.local(), kx, ky);
      // the documented aliased forms r := r + alpha*A*x and r := r + alpha*A^T*x (target == summand)
      {
        GlobalSystemVector z = w.clone();
        the_system_level.matrix_sys.apply(z, u, z, -0.5);
        dump_vec("w_minus_half_A_u_aliased", z.local(), kx, ky);
        z.copy(w);
        the_system_level.matrix_sys.apply_transposed(z, u, z, -0.5);
        dump_vec("w_minus_half_At_u_aliased", z.local(), kx, ky);
      }
      // transposed products, diagonal and lumped rows of the global (type-0) matrix
      g_phase = "matvec_transposed";
      the_system_level.matrix_sys.apply_transposed(y, u);
      dump_vec("At_u", y.local(), kx, ky);
      the_system_level.matrix_sys.apply_transposed(y, u, w, -0.5);
      dump_vec("w_minus_half_At_u", y.local(), kx, ky);
      g_phase = "diag";
      the_system_level.matrix_sys.extract_diag(y);
      dump_vec("diag_A", y.local(), kx, ky);
      the_system_level.matrix_sys.lump_rows(y);
      dump_vec("lump_A", y.local(), kx, ky);
      // remaining reductions and the asynchronous variants (must give the values of the blocking calls)
      g_phase = "async";
      dump_scalar("min_abs_u", u.min_abs_element());
      dump_scalar("max_u", u.max_element());
      dump_scalar("min_u", u.min_element());
      dump_scalar("dot_u_w_async", u.dot_async(w).wait());
      dump_scalar("norm2_u_async", u.norm2_async().wait());
      dump_scalar("norm2sqr_w_async", w.norm2sqr_async().wait());
      dump_scalar("max_abs_u_async", u.max_abs_element_async().wait());
      dump_scalar("min_abs_u_async", u.min_abs_element_async().wait());
      dump_scalar("max_u_async", u.max_element_async().wait());
      dump_scalar("min_u_async", u.min_element_async().wait());
      {
        GlobalSystemVector v = the_system_level.matrix_sys.create_vector_r();
        for(Index i = 0; i < kx.size(); ++i) v.local()(i, key_value(kx(i), ky(i), data_seed + 17u * std::uint64_t(comm.rank() + 1)));
        auto t0 = v.sync_0_async(); t0.wait();
        dump_vec("sync0_async_post", v.local(), kx, ky);
        for(Index i = 0; i < kx.size(); ++i) v.local()(i, key_value(kx(i), ky(i), data_seed + 31u * std::uint64_t(comm.rank() + 1)));
        auto t1 = v.sync_1_async(); t1.wait();
        dump_vec("sync1_async_post", v.local(), kx, ky);
      }
      // ---- base splitter: join of the consistent vector u onto the unpartitioned base mesh (root), split of a key-valued
      //      base vector into the patches, and the same through a file
      g_phase = "splitter";
      if(g_splitter)
      {
        the_system_level.assemble_base_splitter(domain.front());
        const auto& spl = the_system_level.base_splitter_sys;
        LocalVector bx, by;
        const bool root = (comm.size() <= 1) || (comm.rank() == 0);
        if(comm.size() > 1 && root) Coords<ShapeType::dimension>::project(bx, by, domain.front().level_b().space);
        else if(root) { bx = kx.clone(); by = ky.clone(); }
        LocalVector vb(root ? bx.size() : Index(0), 0.0);
        spl.join(vb, u);
        if(root) dump_vec("join_u", vb, bx, by);
        if(root) for(Index i = 0; i < bx.size(); ++i) vb(i, key_value(bx(i), by(i), data_seed + 5000u));
        GlobalSystemVector s2 = the_system_level.matrix_sys.create_vector_r();
        s2.format(-77.0);
        spl.split(s2, vb);
        dump_vec("split_b", s2.local(), kx, ky);
        const String fn = g_out + ".joined." + stringify(int(comm.size())) + ".bin";
        spl.join_write_out(w, fn);
        comm.barrier();
        GlobalSystemVector s3 = the_system_level.matrix_sys.create_vector_r();
        s3.format(-77.0);
        spl.split_read_from(s3, fn);
        dump_vec("io_w", s3.local(), kx, ky);
      }
    }
    // ---- discontinuous (P0) space on the same partitioned mesh: no DOF is shared, so the gate has NO neighbour mirrors
    //      although the communicator has several processes -- the reductions must still be global, the synchronisations
    //      the identity
    {
      g_phase = "dc_gate";
      typedef Space::Discontinuous::Element<typename DomainLevelType::TrafoType, Space::Discontinuous::Variant::StdPolyP<0>> SpaceP0;
      SpaceP0 sp0(the_domain_level.trafo);
      typename SystemLevelType::SystemGate gate0;
      Control::Asm::asm_gate(domain.front(), sp0, gate0, true);
      LocalVector cx, cy;
      Coords<ShapeType::dimension>::project(cx, cy, sp0);
      GlobalSystemVector u(&gate0, sp0.get_num_dofs()), w(&gate0, sp0.get_num_dofs());
      for(Index i = 0; i < cx.size(); ++i) { u.local()(i, key_value(cx(i), cy(i), data_seed + 6001u)); w.local()(i, key_value(cx(i), cy(i), data_seed + 6002u)); }
      dump_vec("dc_u", u.local(), cx, cy);
      dump_vec("dc_w", w.local(), cx, cy);
      dump_scalar("dc_dot_u_w", u.dot(w));
      dump_scalar("dc_norm2_u", u.norm2());
      dump_scalar("dc_norm2sqr_w", w.norm2sqr());
      dump_scalar("dc_max_abs_u", u.max_abs_element());
      dump_scalar("dc_min_abs_u", u.min_abs_element());
      dump_scalar("dc_dot_u_w_async", u.dot_async(w).wait());
      dump_scalar("dc_norm2_u_async", u.norm2_async().wait());
      GlobalSystemVector v = u.clone();
      v.sync_0(); dump_vec("dc_sync0_post", v.local(), cx, cy);
      v.sync_1(); dump_vec("dc_sync1_post", v.local(), cx, cy);
      { auto t = v.sync_0_async(); t.wait(); } dump_vec("dc_sync0_async_post", v.local(), cx, cy);
    }
    // ---- grid transfer across every level pair of the (possibly multi-layered) hierarchy: restriction of a
    //      key-valued fine vector and prolongation of a key-valued coarse vector, logged per level with that level's
    //      DOF keys; processes that do not hold the coarse level take part through rest_send / prol_recv
    for(Index i = 0; (i < domain.size_physical()) && ((i + 1) < domain.size_virtual()); ++i)
    {
      SystemLevelType& lvl_f = *system_levels.at(i);
      const int lev_f = domain.at(i)->get_level_index();
      LocalVector fx, fy;
      Coords<ShapeType::dimension>::project(fx, fy, domain.at(i)->space);
      {
        // the fine interpolant of the coarse-space function used below (expected result of its prolongation)
        LocalVector lin;
        Coords<ShapeType::dimension>::project_lin(lin, domain.at(i)->space);
        dump_vec((String("lin_interp_L") + stringify(lev_f)).c_str(), lin, fx, fy);
      }
      GlobalSystemVector d_f = lvl_f.matrix_sys.create_vector_r();
      GlobalSystemVector p_f = lvl_f.matrix_sys.create_vector_r();
      for(Index k = 0; k < fx.size(); ++k) d_f.local()(k, key_value(fx(k), fy(k), data_seed + 1000u + std::uint64_t(lev_f)));
      g_phase = "transfer";
      if((i + 1) < domain.size_physical())
      {
        SystemLevelType& lvl_c = *system_levels.at(i + 1);
        const int lev_c = domain.at(i + 1)->get_level_index();
        LocalVector cx, cy;
        Coords<ShapeType::dimension>::project(cx, cy, domain.at(i + 1)->space);
        GlobalSystemVector r_c = lvl_c.matrix_sys.create_vector_r();
        GlobalSystemVector v_c = lvl_c.matrix_sys.create_vector_r();
        lvl_f.transfer_sys.rest(d_f, r_c);
        dump_vec((String("rest_to_L") + stringify(lev_c)).c_str(), r_c.local(), cx, cy);
        // coarse vector: a function of the coarse space (1 + 2x - y) plus key-valued noise
        for(Index k = 0; k < cx.size(); ++k) v_c.local()(k, Coords<ShapeType::dimension>::lin(cx(k), cy(k)));
        lvl_f.transfer_sys.prol(p_f, v_c);
        dump_vec((String("prol_lin_to_L") + stringify(lev_f)).c_str(), p_f.local(), fx, fy);
        for(Index k = 0; k < cx.size(); ++k) v_c.local()(k, key_value(cx(k), cy(k), data_seed + 2000u + std::uint64_t(lev_c)));
        lvl_f.transfer_sys.prol(p_f, v_c);
        dump_vec((String("prol_rnd_to_L") + stringify(lev_f)).c_str(), p_f.local(), fx, fy);
      }
      else
      {
        lvl_f.transfer_sys.rest_send(d_f);
        lvl_f.transfer_sys.prol_recv(p_f);
        dump_vec((String("prol_lin_to_L") + stringify(lev_f)).c_str(), p_f.local(), fx, fy);
        lvl_f.transfer_sys.prol_recv(p_f);
        dump_vec((String("prol_rnd_to_L") + stringify(lev_f)).c_str(), p_f.local(), fx, fy);
      }
    }

    // ---- discretise and solve
    GlobalSystemVector vec_sol = the_system_level.matrix_sys.create_vector_r();
    GlobalSystemVector vec_rhs = the_system_level.matrix_sys.create_vector_r();
    vec_sol.format(); vec_rhs.format();
    {
      Assembly::Common::LaplaceFunctional<decltype(sol_func)> force_func(sol_func);
      Assembly::assemble_linear_functional_vector(the_domain_level.domain_asm, vec_rhs.local(), force_func, the_domain_level.space, cubature);
      dump_vec("rhs_pre", vec_rhs.local(), kx, ky);
      g_phase = "rhs_sync0";
      vec_rhs.sync_0();
      dump_vec("rhs_post", vec_rhs.local(), kx, ky);
    }
    the_system_level.filter_sys.filter_sol(vec_sol);
    the_system_level.filter_sys.filter_rhs(vec_rhs);
    dump_vec("rhs_filtered", vec_rhs.local(), kx, ky);

    // (a) PCG-Jacobi: partition independent iteration
    {
      g_phase = "pcg_jacobi";
      auto jac = Solver::new_jacobi_precond(the_system_level.matrix_sys, the_system_level.filter_sys, 1.0);
      auto solver = Solver::new_pcg(the_system_level.matrix_sys, the_system_level.filter_sys, jac);
      solver->set_plot_mode(Solver::PlotMode::none);
      solver->set_tol_rel(1E-9);
      solver->set_max_iter(2000);
      solver->init();
      GlobalSystemVector x = vec_sol.clone();
      Solver::Status st = Solver::solve(*solver, x, vec_rhs, the_system_level.matrix_sys, the_system_level.filter_sys);
      dump_scalar("pcgj_status_success", Solver::status_success(st) ? 1.0 : 0.0);
      dump_scalar("pcgj_num_iter", double(solver->get_num_iter()));
      dump_scalar("pcgj_def_init", solver->get_def_initial());
      dump_scalar("pcgj_def_final", solver->get_def_final());
      dump_vec("pcgj_sol", x.local(), kx, ky);
      // defect history: re-run with max_iter = k for a few k (cheap; sizes are small)
      for(Index k : {Index(1), Index(2), Index(3), Index(5), Index(8)})
      {
        solver->set_max_iter(k);
        GlobalSystemVector xk = vec_sol.clone();
        Solver::solve(*solver, xk, vec_rhs, the_system_level.matrix_sys, the_system_level.filter_sys);
        dump_scalar((String("pcgj_def_iter") + stringify(k)).c_str(), solver->get_def_final());
      }
      auto errors = Assembly::integrate_error_function<1>(the_domain_level.domain_asm, sol_func, x.local(), the_domain_level.space, cubature);
      errors.synchronize(comm);
      dump_scalar("pcgj_err_h0", std::sqrt(errors.norm_h0_sqr));
      dump_scalar("pcgj_err_h1", std::sqrt(errors.norm_h1_sqr));
      solver->done();
    }
    // (b) PCG-multigrid: hierarchy depends on the process count, final results only
    {
      g_phase = "pcg_mg";
      auto multigrid_hierarchy = std::make_shared<Solver::MultiGridHierarchy<typename SystemLevelType::GlobalSystemMatrix,
        typename SystemLevelType::GlobalSystemFilter, typename SystemLevelType::GlobalSystemTransfer>>(domain.size_virtual());
      for(Index i = 0; i < num_levels; ++i)
      {
        const SystemLevelType& lvl = *system_levels.at(i);
        auto jacobi = Solver::new_jacobi_precond(lvl.matrix_sys, lvl.filter_sys, 0.7);
        auto smoother = Solver::new_richardson(lvl.matrix_sys, lvl.filter_sys, 1.0, jacobi);
        smoother->set_min_iter(4); smoother->set_max_iter(4);
        if((i + 1) < domain.size_virtual())
          multigrid_hierarchy->push_level(lvl.matrix_sys, lvl.filter_sys, lvl.transfer_sys, smoother, smoother, smoother);
        else
        {
          // coarse level: solve (almost) exactly so that the result does not depend on where the coarse level sits
          auto cjac = Solver::new_jacobi_precond(lvl.matrix_sys, lvl.filter_sys, 1.0);
          auto cs = Solver::new_pcg(lvl.matrix_sys, lvl.filter_sys, cjac);
          cs->set_tol_rel(1E-12); cs->set_max_iter(5000);
          multigrid_hierarchy->push_level(lvl.matrix_sys, lvl.filter_sys, cs);
        }
      }
      auto mgv = Solver::new_multigrid(multigrid_hierarchy, Solver::MultiGridCycle::V);
      auto solver = Solver::new_pcg(the_system_level.matrix_sys, the_system_level.filter_sys, mgv);
      solver->set_plot_mode(Solver::PlotMode::none);
      solver->set_tol_rel(1E-10);
      solver->set_max_iter(200);
      multigrid_hierarchy->init();
      solver->init();
      GlobalSystemVector x = vec_sol.clone();
      Solver::Status st = Solver::solve(*solver, x, vec_rhs, the_system_level.matrix_sys, the_system_level.filter_sys);
      dump_scalar("pcgmg_status_success", Solver::status_success(st) ? 1.0 : 0.0);
      dump_scalar("pcgmg_num_iter", double(solver->get_num_iter()));
      dump_scalar("pcgmg_def_init", solver->get_def_initial());
      dump_vec("pcgmg_sol", x.local(), kx, ky);
      auto errors = Assembly::integrate_error_function<1>(the_domain_level.domain_asm, sol_func, x.local(), the_domain_level.space, cubature);
      errors.synchronize(comm);
      dump_scalar("pcgmg_err_h0", std::sqrt(errors.norm_h0_sqr));
      dump_scalar("pcgmg_err_h1", std::sqrt(errors.norm_h1_sqr));
      solver->done();
      multigrid_hierarchy->done();
    }
    (void)args;
  }

  template<typename SpaceTag_> struct SpaceSel;
  struct Q1 {}; struct Q2 {};

  template<typename Space_, typename ShapeType = Shape::Hypercube<2>>
  void main_space(SimpleArgParser& args, Dist::Comm& comm, std::uint64_t data_seed)
  {
    typedef Geometry::ConformalMesh<ShapeType> MeshType;
    typedef Trafo::Standard::Mapping<MeshType> TrafoType;
    typedef typename Space_::template Element<TrafoType> SpaceType;
    typedef Control::Domain::SimpleDomainLevel<MeshType, TrafoType, SpaceType> DomainLevelType;
    Control::Domain::PartiDomainControl<DomainLevelType> domain(comm, true);
    domain.parse_args(args);
    domain.set_desired_levels(args.query("level")->second);
    // base levels (needed by the base splitter) can be kept for at most 2 domain layers (documented limitation)
    // (= no layer boundary at all, or a single one that joins everything on one process)
    { int nl = 0, multi = 0; for(const auto& a : args.query("level")->second) { const auto p = a.find(':'); if(p != a.npos) { ++nl; if(a.substr(p + 1) != "1") ++multi; } } g_splitter = (nl <= 1) && (multi == 0); }
    if(g_splitter) domain.keep_base_levels();
    domain.create(args.query("mesh")->second);
    domain.add_trafo_mesh_part_charts();
    run(args, domain, data_seed, domain.get_chosen_parti_info(), domain.format_chosen_levels());
  }
  // ---------------------------------------------------------------------------------------------
  // blocked (velocity) and tuple (velocity, pressure) vectors: Taylor-Hood Stokes system level, no solve
  // ---------------------------------------------------------------------------------------------
  template<typename VB> void dump_blocked(const char* name, const VB& loc, const LAFEM::DenseVector<double, Index>& kx, const LAFEM::DenseVector<double, Index>& ky)
  {
    for(int c = 0; c < 2; ++c)
    {
      std::fprintf(g_log, "{\"t\":\"vec\",\"name\":\"%s.v%d\",\"n\":%lu,\"data\":[", name, c, (unsigned long)loc.size());
      for(Index i = 0; i < loc.size(); ++i) std::fprintf(g_log, "%s[%.17g,%.17g,%.17g]", i ? "," : "", kx(i), ky(i), loc(i)[c]);
      std::fprintf(g_log, "]}\n");
    }
  }

  void main_stokes(SimpleArgParser& args, Dist::Comm& comm, std::uint64_t data_seed)
  {
    typedef Shape::Hypercube<2> ShapeType;
    typedef Geometry::ConformalMesh<ShapeType> MeshType;
    typedef Trafo::Standard::Mapping<MeshType> TrafoType;
    typedef Space::Lagrange2::Element<TrafoType> SpaceVeloType;
    typedef Space::Lagrange1::Element<TrafoType> SpacePresType;
    typedef Control::Domain::StokesDomainLevel<MeshType, TrafoType, SpaceVeloType, SpacePresType> DomainLevelType;
    typedef Control::StokesBlockedSystemLevel<2, DataType, IndexType> SystemLevelType;
    typedef LAFEM::DenseVector<double, Index> ScalarVector;
    Control::Domain::PartiDomainControl<DomainLevelType> domain(comm, true);
    domain.parse_args(args);
    domain.set_desired_levels(args.query("level")->second);
    domain.create(args.query("mesh")->second);
    domain.add_trafo_mesh_part_charts();
    const String cubature("auto-degree:5");
    // one system level per physical level: gates, coarse muxers and (tuple) grid transfers across all level pairs
    std::deque<std::shared_ptr<SystemLevelType>> system_levels;
    const Index num_levels = Index(domain.size_physical());
    for(Index i = 0; i < num_levels; ++i) system_levels.push_back(std::make_shared<SystemLevelType>());
    g_phase = "assemble_gate";
    for(Index i = 0; i < num_levels; ++i)
    {
      domain.at(i)->domain_asm.compile_all_elements();
      system_levels.at(i)->assemble_gates(domain.at(i));
    }
    g_phase = "assemble_transfer";
    for(Index i = 0; (i < domain.size_physical()) && ((i + 1) < domain.size_virtual()); ++i)
    {
      system_levels.at(i)->assemble_coarse_muxers(domain.at(i + 1));
      if((i + 1) < domain.size_physical())
        system_levels.at(i)->assemble_transfers(*system_levels.at(i + 1), domain.at(i), domain.at(i + 1), cubature);
      else
        system_levels.at(i)->assemble_transfers(domain.at(i), domain.at(i + 1), cubature);
    }
    SystemLevelType& sys = *system_levels.front();
    DomainLevelType& dl = *domain.front();
    g_phase = "assemble_matrix";
    sys.assemble_velo_struct(dl.space_velo);
    sys.assemble_pres_struct(dl.space_pres);
    sys.matrix_a.local().format();
    sys.matrix_s.local().format();
    {
      Assembly::Common::LaplaceOperatorBlocked<2> lapl;
      Assembly::assemble_bilinear_operator_matrix_1(dl.domain_asm, sys.matrix_a.local(), lapl, dl.space_velo, cubature);
    }
    sys.assemble_grad_div_matrices(dl.domain_asm, dl.space_velo, dl.space_pres, cubature);
    sys.compile_system_matrix();
    ScalarVector vx, vy, px, py;
    {
      auto fx = Analytic::create_lambda_function_scalar_2d([](double x, double) { return x; });
      auto fy = Analytic::create_lambda_function_scalar_2d([](double, double y) { return y; });
      Assembly::Interpolator::project(vx, fx, dl.space_velo); Assembly::Interpolator::project(vy, fy, dl.space_velo);
      Assembly::Interpolator::project(px, fx, dl.space_pres); Assembly::Interpolator::project(py, fy, dl.space_pres);
    }
    std::fprintf(g_log, "{\"t\":\"info\",\"rank\":%d,\"nprocs\":%d,\"ndofs_local\":%lu,\"levels_physical\":%lu,\"levels_virtual\":%lu,\"chosen_levels\":\"%s\",\"parti\":\"%s\"}\n",
      comm.rank(), comm.size(), (unsigned long)(2 * vx.size() + px.size()), (unsigned long)domain.size_physical(), (unsigned long)domain.size_virtual(),
      clean(domain.format_chosen_levels()).c_str(), clean(domain.get_chosen_parti_info()).c_str());
    typedef typename SystemLevelType::GlobalSystemVector GlobalSystemVector;
    auto fill = [&](GlobalSystemVector& v, std::uint64_t salt, bool rank_dependent)
    {
      const std::uint64_t rs = rank_dependent ? 17u * std::uint64_t(comm.rank() + 1) : 0u;
      auto& vv = v.local().template at<0>(); auto& vp = v.local().template at<1>();
      for(Index i = 0; i < vx.size(); ++i)
      {
        Tiny::Vector<double, 2> t; t[0] = key_value(vx(i), vy(i), data_seed + salt + rs); t[1] = key_value(vx(i), vy(i), data_seed + salt + 7u + rs);
        vv(i, t);
      }
      for(Index i = 0; i < px.size(); ++i) vp(i, key_value(px(i), py(i), data_seed + salt + 13u + rs));
    };
    auto dump = [&](const char* name, const GlobalSystemVector& v)
    {
      dump_blocked(name, v.local().template at<0>(), vx, vy);
      dump_vec((String(name) + ".p").c_str(), v.local().template at<1>(), px, py);
    };
    {
      GlobalSystemVector v = sys.matrix_sys.create_vector_r();
      fill(v, 300u, true);
      dump("sync0_pre", v); g_phase = "sync0"; v.sync_0(); dump("sync0_post", v);
    }
    {
      GlobalSystemVector v = sys.matrix_sys.create_vector_r();
      fill(v, 400u, true);
      dump("sync1_pre", v); g_phase = "sync1"; v.sync_1(); dump("sync1_post", v);
    }
    {
      GlobalSystemVector u = sys.matrix_sys.create_vector_r(), w = sys.matrix_sys.create_vector_r(), y = sys.matrix_sys.create_vector_r();
      fill(u, 500u, false); fill(w, 600u, false);
      dump("u", u); dump("w", w);
      g_phase = "dot";
      dump_scalar("dot_u_w", u.dot(w));
      dump_scalar("norm2_u", u.norm2());
      dump_scalar("norm2sqr_w", w.norm2sqr());
      dump_scalar("max_abs_u", u.max_abs_element());
      g_phase = "matvec";
      sys.matrix_sys.apply(y, u);
      dump("A_u", y);
      sys.matrix_sys.apply(y, u, w, -0.5);
      dump("w_minus_half_A_u", y);
      { GlobalSystemVector z = w.clone(); sys.matrix_sys.apply(z, u, z, -0.5); dump("w_minus_half_A_u_aliased", z); }
    }
    // ---- three-component tuple vector (velocity, pressure, second scalar field on the pressure space) over a
    //      TupleMirror<V,P,P> gate built from the component gates: sync_0 / sync_1 / dot / norm
    {
      typedef typename SystemLevelType::LocalVeloVector LV; typedef typename SystemLevelType::LocalPresVector LP;
      typedef LAFEM::TupleVector<LV, LP, LP> L3;
      typedef LAFEM::TupleMirror<typename SystemLevelType::VeloMirror, typename SystemLevelType::PresMirror, typename SystemLevelType::PresMirror> M3;
      typedef Global::Vector<L3, M3> G3;
      g_phase = "tuple3_gate";
      Global::Gate<L3, M3> gate3;
      Control::Asm::build_gate_tuple(gate3, sys.gate_velo, sys.gate_pres, sys.gate_pres);
      auto fill3 = [&](G3& v, std::uint64_t salt, bool rank_dependent)
      {
        const std::uint64_t rs = rank_dependent ? 17u * std::uint64_t(comm.rank() + 1) : 0u;
        auto& vv = v.local().template at<0>(); auto& vp = v.local().template at<1>(); auto& vq = v.local().template at<2>();
        for(Index i = 0; i < vx.size(); ++i)
        {
          Tiny::Vector<double, 2> t; t[0] = key_value(vx(i), vy(i), data_seed + salt + rs); t[1] = key_value(vx(i), vy(i), data_seed + salt + 7u + rs);
          vv(i, t);
        }
        for(Index i = 0; i < px.size(); ++i) { vp(i, key_value(px(i), py(i), data_seed + salt + 13u + rs)); vq(i, key_value(px(i), py(i), data_seed + salt + 29u + rs)); }
      };
      auto dump3 = [&](const char* name, const G3& v)
      {
        dump_blocked((String(name) + ".t3").c_str(), v.local().template at<0>(), vx, vy);
        dump_vec((String(name) + ".t3p").c_str(), v.local().template at<1>(), px, py);
        dump_vec((String(name) + ".t3q").c_str(), v.local().template at<2>(), px, py);
      };
      {
        G3 v(&gate3, gate3.get_freqs().clone(LAFEM::CloneMode::Layout));
        fill3(v, 700u, true);
        dump3("sync0_pre", v); g_phase = "tuple3_sync0"; v.sync_0(); dump3("sync0_post", v);
      }
      {
        G3 v(&gate3, gate3.get_freqs().clone(LAFEM::CloneMode::Layout));
        fill3(v, 800u, true);
        dump3("sync1_pre", v); g_phase = "tuple3_sync1"; v.sync_1(); dump3("sync1_post", v);
      }
      {
        G3 u(&gate3, gate3.get_freqs().clone(LAFEM::CloneMode::Layout)), w(&gate3, gate3.get_freqs().clone(LAFEM::CloneMode::Layout));
        fill3(u, 900u, false); fill3(w, 950u, false);
        dump3("u", u); dump3("w", w);
        g_phase = "tuple3_dot";
        dump_scalar("t3_dot_u_w", u.dot(w));
        dump_scalar("t3_norm2_u", u.norm2());
      }
    }
    // ---- grid transfer of the tuple (velocity, pressure) vector across every level pair of the (possibly
    //      multi-layered) hierarchy: the muxers join / split TupleMirror buffers of all children of a parent
    for(Index i = 0; (i < domain.size_physical()) && ((i + 1) < domain.size_virtual()); ++i)
    {
      SystemLevelType& lvl_f = *system_levels.at(i);
      const int lev_f = domain.at(i)->get_level_index();
      ScalarVector fvx, fvy, fpx, fpy;
      {
        auto fx = Analytic::create_lambda_function_scalar_2d([](double x, double) { return x; });
        auto fy = Analytic::create_lambda_function_scalar_2d([](double, double y) { return y; });
        Assembly::Interpolator::project(fvx, fx, domain.at(i)->space_velo); Assembly::Interpolator::project(fvy, fy, domain.at(i)->space_velo);
        Assembly::Interpolator::project(fpx, fx, domain.at(i)->space_pres); Assembly::Interpolator::project(fpy, fy, domain.at(i)->space_pres);
      }
      auto fill_lvl = [&](GlobalSystemVector& v, const ScalarVector& ax, const ScalarVector& ay, const ScalarVector& bx, const ScalarVector& by, std::uint64_t salt)
      {
        auto& vv = v.local().template at<0>(); auto& vp = v.local().template at<1>();
        for(Index k = 0; k < ax.size(); ++k)
        {
          Tiny::Vector<double, 2> t; t[0] = key_value(ax(k), ay(k), data_seed + salt); t[1] = key_value(ax(k), ay(k), data_seed + salt + 7u);
          vv(k, t);
        }
        for(Index k = 0; k < bx.size(); ++k) vp(k, key_value(bx(k), by(k), data_seed + salt + 13u));
      };
      auto dump_lvl = [&](const String& name, const GlobalSystemVector& v, const ScalarVector& ax, const ScalarVector& ay, const ScalarVector& bx, const ScalarVector& by)
      {
        dump_blocked(name.c_str(), v.local().template at<0>(), ax, ay);
        dump_vec((name + ".p").c_str(), v.local().template at<1>(), bx, by);
      };
      GlobalSystemVector d_f(&lvl_f.gate_sys, lvl_f.gate_sys.get_freqs().clone(LAFEM::CloneMode::Layout));
      GlobalSystemVector p_f(&lvl_f.gate_sys, lvl_f.gate_sys.get_freqs().clone(LAFEM::CloneMode::Layout));
      fill_lvl(d_f, fvx, fvy, fpx, fpy, 3000u + std::uint64_t(lev_f));
      g_phase = "tuple_transfer";
      if((i + 1) < domain.size_physical())
      {
        SystemLevelType& lvl_c = *system_levels.at(i + 1);
        const int lev_c = domain.at(i + 1)->get_level_index();
        ScalarVector cvx, cvy, cpx, cpy;
        {
          auto fx = Analytic::create_lambda_function_scalar_2d([](double x, double) { return x; });
          auto fy = Analytic::create_lambda_function_scalar_2d([](double, double y) { return y; });
          Assembly::Interpolator::project(cvx, fx, domain.at(i + 1)->space_velo); Assembly::Interpolator::project(cvy, fy, domain.at(i + 1)->space_velo);
          Assembly::Interpolator::project(cpx, fx, domain.at(i + 1)->space_pres); Assembly::Interpolator::project(cpy, fy, domain.at(i + 1)->space_pres);
        }
        GlobalSystemVector r_c(&lvl_c.gate_sys, lvl_c.gate_sys.get_freqs().clone(LAFEM::CloneMode::Layout));
        GlobalSystemVector v_c(&lvl_c.gate_sys, lvl_c.gate_sys.get_freqs().clone(LAFEM::CloneMode::Layout));
        lvl_f.transfer_sys.rest(d_f, r_c);
        dump_lvl(String("rest_to_L") + stringify(lev_c), r_c, cvx, cvy, cpx, cpy);
        fill_lvl(v_c, cvx, cvy, cpx, cpy, 4000u + std::uint64_t(lev_c));
        lvl_f.transfer_sys.prol(p_f, v_c);
        dump_lvl(String("prol_rnd_to_L") + stringify(lev_f), p_f, fvx, fvy, fpx, fpy);
      }
      else
      {
        lvl_f.transfer_sys.rest_send(d_f);
        lvl_f.transfer_sys.prol_recv(p_f);
        dump_lvl(String("prol_rnd_to_L") + stringify(lev_f), p_f, fvx, fvy, fpx, fpy);
      }
    }
  }

  struct L1 { template<typename T> using Element = Space::Lagrange1::Element<T>; };
  struct L2 { template<typename T> using Element = Space::Lagrange2::Element<T>; };
}

int main(int argc, char* argv[])
{
  FEAT::Runtime::ScopeGuard guard(argc, argv);
  Dist::Comm comm(Dist::Comm::world());
  SimpleArgParser args(argc, argv);
  Control::Domain::add_supported_pdc_args(args);
  args.support("mesh"); args.support("level"); args.support("space"); args.support("out"); args.support("sched-seed"); args.support("data-seed");
  String out("c13"), space("q1");
  std::uint64_t sched = 0, data = 1;
  args.parse("out", out); args.parse("space", space); args.parse("sched-seed", sched); args.parse("data-seed", data);
  if(args.check("mesh") < 1 || args.check("level") < 1) { comm.print(std::cerr, "need --mesh and --level"); FEAT::Runtime::abort(); }
  g_out = out;
  g_log = std::fopen((out + "." + stringify(comm.rank()) + ".jsonl").c_str(), "w");
  if(!g_log) { std::perror("log"); FEAT::Runtime::abort(); }
  g_sched = sched; g_sched_state = mix64(sched * 1000003ull + std::uint64_t(comm.rank()));
  try
  {
    if(space == "tria1") C13::main_space<C13::L1, Shape::Simplex<2>>(args, comm, data);
    else if(space == "tria2") C13::main_space<C13::L2, Shape::Simplex<2>>(args, comm, data);
    else if(space == "hexa1") C13::main_space<C13::L1, Shape::Hypercube<3>>(args, comm, data);
    else if(space == "stokes") C13::main_stokes(args, comm, data);
    else if(space == "q2") C13::main_space<C13::L2>(args, comm, data);
    else C13::main_space<C13::L1>(args, comm, data);
  }
  catch(const std::exception& exc)
  {
    std::cerr << "ERROR: unhandled exception: " << exc.what() << std::endl;
    FEAT::Runtime::abort();
  }
  std::fprintf(g_log, "{\"t\":\"done\"}\n");
  std::fclose(g_log);
  return 0;
}
