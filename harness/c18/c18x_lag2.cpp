// C18 (extension) -- Lagrange-2 : truncx / intermesh / ctrlx (hexahedra only in the thorough tier)
#include "c18x_desc.hpp"
using namespace c18x;
namespace
{
  const c18::PairEntry pairs[] = {
    {"truncx", "L2:Q", &TruncX<DLagrange2, Q>::run, true}, {"truncx", "L2:T", &TruncX<DLagrange2, T>::run, true},
    {"truncx", "L2:H", &TruncX<DLagrange2, H>::run, false}, {"truncx", "L2:X", &TruncX<DLagrange2, X>::run, true},
    {"intermesh", "L2:Q", &InterMesh<DLagrange2, DLagrange2, Q>::run, true}, {"intermesh", "L2:T", &InterMesh<DLagrange2, DLagrange2, T>::run, true},
    {"intermesh", "L2:H", &InterMesh<DLagrange2, DLagrange2, H>::run, false}, {"intermesh", "L2:X", &InterMesh<DLagrange2, DLagrange2, X>::run, true},
    {"ctrlx", "L2:Q", &CtrlX<DLagrange2, Q>::run, true}, {"ctrlx", "L2:T", &CtrlX<DLagrange2, T>::run, true},
    {"ctrlx", "L2:H", &CtrlX<DLagrange2, H>::run, false}, {"ctrlx", "L2:X", &CtrlX<DLagrange2, X>::run, true}};
  c18::RegPairs reg(pairs, sizeof(pairs) / sizeof(pairs[0]));
}
