// C18 (extension) -- family cfmap: the coarse -> fine cell mapping that the 2-level transfer assembly relies on
// (Geometry::Intern::CoarseFineCellMapping, both specialisations).  Seed C18f: the structured specialisation cannot be
// reached through Assembly::GridTransfer in this tree (StructuredMesh has no mesh permutation), so its calc_fcell /
// ImageIterator are observed directly: for every coarse cell the children are in range, distinct, nested in the parent
// (midpoint inside the parent's bounding box; all generated meshes are refinements of axis-parallel unit-cube meshes, for
// which the children of a cell lie in its convex hull), every fine cell is the child of exactly one coarse cell, and the
// adjactor walk image_begin..image_end yields the same set as calc_fcell(c, 0..children-1).
#include <common/vh.hpp>
#include <kernel/geometry/structured_mesh.hpp>
#include <kernel/geometry/conformal_mesh.hpp>
#include <kernel/geometry/common_factories.hpp>
#include <kernel/geometry/intern/coarse_fine_cell_mapping.hpp>
#include <memory>

using namespace FEAT;

namespace
{
  template<typename Mesh_>
  void check_mapping(vh::Ctx& c, const Mesh_& mesh_c, const Mesh_& mesh_f, const std::string& what)
  {
    static constexpr int dim = Mesh_::ShapeType::dimension;
    c.set_op("cfmap." + what);
    Geometry::Intern::CoarseFineCellMapping<Mesh_> cfm(mesh_f, mesh_c);
    const auto& idx_c = mesh_c.template get_index_set<dim, 0>();
    const auto& idx_f = mesh_f.template get_index_set<dim, 0>();
    const auto& vtx_c = mesh_c.get_vertex_set();
    const auto& vtx_f = mesh_f.get_vertex_set();
    const int nv = idx_c.num_indices;
    const Index ncc = mesh_c.get_num_entities(dim), nfc = mesh_f.get_num_entities(dim);
    const Index nch = cfm.get_num_children();
    if(cfm.get_num_nodes_domain() != ncc || cfm.get_num_nodes_image() != nfc || nch * ncc != nfc)
    {
      c.viol("cfmap." + what, "dims", vh::J().kv("domain", (unsigned long)cfm.get_num_nodes_domain()).kv("image", (unsigned long)cfm.get_num_nodes_image())
        .kv("children", (unsigned long)nch).kv("coarse_cells", (unsigned long)ncc).kv("fine_cells", (unsigned long)nfc).str());
      return;
    }
    std::vector<int> hits(nfc, 0);
    for(Index cc = 0; cc < ncc; ++cc)
    {
      double lo[3] = {1e300, 1e300, 1e300}, hi[3] = {-1e300, -1e300, -1e300};
      for(int v = 0; v < nv; ++v)
        for(int d = 0; d < dim; ++d)
        {
          const double x = double(vtx_c[idx_c(cc, v)][d]);
          lo[d] = std::min(lo[d], x); hi[d] = std::max(hi[d], x);
        }
      std::vector<Index> kids;
      for(Index ch = 0; ch < nch; ++ch)
      {
        const Index fc = cfm.calc_fcell(cc, ch);
        c.event();
        if(fc >= nfc)
        { c.viol("cfmap." + what, "child-out-of-range", vh::J().kv("coarse", (unsigned long)cc).kv("child", (unsigned long)ch).kv("fine", (unsigned long)fc).str()); return; }
        ++hits[fc]; kids.push_back(fc);
        for(int d = 0; d < dim; ++d)
        {
          double m = 0.0;
          for(int v = 0; v < nv; ++v) m += double(vtx_f[idx_f(fc, v)][d]);
          m /= double(nv);
          if(m < lo[d] - 1e-12 || m > hi[d] + 1e-12)
          {
            c.viol("cfmap." + what, "child-not-nested", vh::J().kv("coarse", (unsigned long)cc).kv("child", (unsigned long)ch).kv("fine", (unsigned long)fc)
              .kv("coord", d).kv("midpoint", m).kv("lo", lo[d]).kv("hi", hi[d]).str());
            return;
          }
        }
      }
      // adjactor walk
      std::vector<Index> walk;
      auto it = cfm.image_begin(cc); const auto jt = cfm.image_end(cc);
      for(; it != jt; ++it) { if(walk.size() > std::size_t(nch) + 4) break; walk.push_back(*it); }
      std::sort(walk.begin(), walk.end()); std::sort(kids.begin(), kids.end());
      c.event();
      if(walk != kids)
      {
        std::vector<unsigned long> w(walk.begin(), walk.end()), k(kids.begin(), kids.end());
        c.viol("cfmap." + what, "walk-differs-from-calc_fcell", vh::J().kv("coarse", (unsigned long)cc).raw("walk_sorted", vh::jarr(w, 16)).raw("children_sorted", vh::jarr(k, 16)).str());
        return;
      }
    }
    for(Index fc = 0; fc < nfc; ++fc)
      if(hits[fc] != 1)
      { c.viol("cfmap." + what, "fine-cell-not-hit-once", vh::J().kv("fine", (unsigned long)fc).kv("hits", hits[fc]).str()); return; }
  }

  template<int dim_>
  void run_struct(vh::Ctx& c, Index nx, Index ny, Index nz, int levels)
  {
    typedef Geometry::StructuredMesh<dim_, dim_, double> MeshType;
    Geometry::StructUnitCubeFactory<MeshType> factory(nx, ny, nz);
    std::unique_ptr<MeshType> coarse(new MeshType(factory));
    for(int l = 0; l < levels; ++l)
    {
      Geometry::StandardRefinery<MeshType> refinery(*coarse);
      std::unique_ptr<MeshType> fine(new MeshType(refinery));
      check_mapping(c, *coarse, *fine, std::string("structured") + char('0' + dim_) + "d");
      if(c.nviol) return;
      coarse = std::move(fine);
    }
  }

  template<typename Shape_>
  void run_conf(vh::Ctx& c, int pre, int levels, const char* name)
  {
    typedef Geometry::ConformalMesh<Shape_, Shape_::dimension, double> MeshType;
    Geometry::RefinedUnitCubeFactory<MeshType> factory{Index(pre)};
    std::unique_ptr<MeshType> coarse(new MeshType(factory));
    for(int l = 0; l < levels; ++l)
    {
      Geometry::StandardRefinery<MeshType> refinery(*coarse);
      std::unique_ptr<MeshType> fine(new MeshType(refinery));
      check_mapping(c, *coarse, *fine, name);
      if(c.nviol) return;
      coarse = std::move(fine);
    }
  }
}

VH_FAMILY(cfmap)
{
  const int kind = int(c.k % 8);
  const bool big = c.thorough() && c.rng.coin(0.2);
  const long mx = big ? 9 : 4;
  const Index nx = Index(c.rng.range(1, mx)), ny = Index(c.rng.range(1, mx)), nz = Index(c.rng.range(1, big ? 5 : 3));
  const int levels = int(c.rng.range(1, 2));
  c.desc = vh::J().kv("kind", kind).kv("nx", (unsigned long)nx).kv("ny", (unsigned long)ny).kv("nz", (unsigned long)nz).kv("levels", levels).str();
  auto bucket = [](Index n) { return n == 1 ? std::string("1") : n == 2 ? std::string("2") : (n % 2 ? std::string("odd") : std::string("even")); };
  switch(kind)
  {
  case 0: c.tags = {"struct1d", "nx:" + bucket(nx)}; run_struct<1>(c, nx, 1, 1, levels); break;
  case 1: case 2: c.tags = {"struct2d", "nx:" + bucket(nx), "ny:" + bucket(ny)}; run_struct<2>(c, nx, ny, 1, levels); break;
  case 3: case 4: case 5: c.tags = {"struct3d", "nx:" + bucket(nx), "ny:" + bucket(ny), "nz:" + bucket(nz)}; run_struct<3>(c, nx, ny, nz, levels); break;
  case 6:
    if(c.rng.coin()) { c.tags = {"conf:quad"}; run_conf<Shape::Hypercube<2>>(c, int(c.rng.range(0, 2)), levels, "conformal_quad"); }
    else { c.tags = {"conf:tria"}; run_conf<Shape::Simplex<2>>(c, int(c.rng.range(0, 2)), levels, "conformal_tria"); }
    break;
  default:
    if(c.rng.coin()) { c.tags = {"conf:hexa"}; run_conf<Shape::Hypercube<3>>(c, int(c.rng.range(0, 1)), 1, "conformal_hexa"); }
    else { c.tags = {"conf:tetra"}; run_conf<Shape::Simplex<3>>(c, int(c.rng.range(0, 1)), 1, "conformal_tetra"); }
    break;
  }
  c.sig = "cfmap"; for(auto& t : c.tags) c.sig += "|" + t;
  c.sig += "|levels:" + std::to_string(levels);
}
