// C18 (extension) -- discontinuous P0 / P1 : truncx / intermesh ; ctrlx for P1
#include "c18x_desc.hpp"
using namespace c18x;
namespace
{
  const c18::PairEntry pairs[] = {
    {"truncx", "D0:Q", &TruncX<DDisc0, Q>::run, true}, {"truncx", "D0:T", &TruncX<DDisc0, T>::run, true},
    {"truncx", "D0:H", &TruncX<DDisc0, H>::run, true}, {"truncx", "D0:X", &TruncX<DDisc0, X>::run, true},
    {"truncx", "D1:Q", &TruncX<DDisc1, Q>::run, true}, {"truncx", "D1:T", &TruncX<DDisc1, T>::run, true},
    {"truncx", "D1:H", &TruncX<DDisc1, H>::run, true}, {"truncx", "D1:X", &TruncX<DDisc1, X>::run, true},
    {"intermesh", "D0:Q", &InterMesh<DDisc0, DDisc0, Q>::run, true}, {"intermesh", "D0:T", &InterMesh<DDisc0, DDisc0, T>::run, true},
    {"intermesh", "D1:Q", &InterMesh<DDisc1, DDisc1, Q>::run, true}, {"intermesh", "D1:T", &InterMesh<DDisc1, DDisc1, T>::run, true},
    {"intermesh", "D1:H", &InterMesh<DDisc1, DDisc1, H>::run, true}, {"intermesh", "D1:X", &InterMesh<DDisc1, DDisc1, X>::run, true},
    {"ctrlx", "D1:Q", &CtrlX<DDisc1, Q>::run, true}, {"ctrlx", "D1:T", &CtrlX<DDisc1, T>::run, true}};
  c18::RegPairs reg(pairs, sizeof(pairs) / sizeof(pairs[0]));
}
