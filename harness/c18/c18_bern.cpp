// C18 -- Bernstein-2 on quad, hexa
#include "c18.hpp"
#include <kernel/space/bernstein2/element.hpp>
using namespace c18;
namespace
{
  struct DBernstein2 : c18::DescBase
  {
    template<typename T_> using S = Space::Bernstein2::Element<T_>;
    static const char* name() { return "Bernstein2"; }
    static constexpr int pdeg = 2, qdeg = 2;
  };
  typedef Shape::Hypercube<2> Q; typedef Shape::Hypercube<3> H;
  const c18::PairEntry pairs[] = {{"disc", "B2:Q", &c18::Monitors<DBernstein2, Q>::run, true}, {"disc", "B2:H", &c18::Monitors<DBernstein2, H>::run, false}};
  c18::RegPairs reg(pairs, sizeof(pairs) / sizeof(pairs[0]));
}
