// C18 -- discontinuous P0 on quad, tria, hexa, tetra
#include "c18.hpp"
#include <kernel/space/discontinuous/element.hpp>
using namespace c18;
namespace
{
  struct DDisc : c18::DescBase
  {
    template<typename T_> using S = Space::Discontinuous::Element<T_, Space::Discontinuous::Variant::StdPolyP<0>>;
    static const char* name() { return "Discontinuous0"; }
    static constexpr int pdeg = 0;
  };
  typedef Shape::Hypercube<2> Q; typedef Shape::Simplex<2> T; typedef Shape::Hypercube<3> H; typedef Shape::Simplex<3> X;
  const c18::PairEntry pairs[] = {
    {"disc", "D0:Q", &c18::Monitors<DDisc, Q>::run, true}, {"disc", "D0:T", &c18::Monitors<DDisc, T>::run, true},
    {"disc", "D0:H", &c18::Monitors<DDisc, H>::run, true}, {"disc", "D0:X", &c18::Monitors<DDisc, X>::run, true}};
  c18::RegPairs reg(pairs, sizeof(pairs) / sizeof(pairs[0]));
}
