// C18 -- Lagrange-1 / Lagrange-2 on quad, tria, hexa, tetra ; main
#include "c18.hpp"
#include <kernel/space/lagrange1/element.hpp>
#include <kernel/space/lagrange2/element.hpp>
using namespace c18;
namespace
{
  struct DLagrange1 : c18::DescBase
  {
    template<typename T_> using S = Space::Lagrange1::Element<T_>;
    static const char* name() { return "Lagrange1"; }
    static constexpr int pdeg = 1, qdeg = 1;
  };
  struct DLagrange2 : c18::DescBase
  {
    template<typename T_> using S = Space::Lagrange2::Element<T_>;
    static const char* name() { return "Lagrange2"; }
    static constexpr int pdeg = 2, qdeg = 2;
  };
  typedef Shape::Hypercube<2> Q; typedef Shape::Simplex<2> T; typedef Shape::Hypercube<3> H; typedef Shape::Simplex<3> X;
  const c18::PairEntry pairs[] = {
    {&c18::Monitors<DLagrange1, Q>::run, true}, {&c18::Monitors<DLagrange1, T>::run, true}, {&c18::Monitors<DLagrange1, H>::run, true}, {&c18::Monitors<DLagrange1, X>::run, true},
    {&c18::Monitors<DLagrange2, Q>::run, true}, {&c18::Monitors<DLagrange2, T>::run, true}, {&c18::Monitors<DLagrange2, H>::run, false}, {&c18::Monitors<DLagrange2, X>::run, true}};
}
VH_FAMILY(lag12) { c18::run_pair(c, pairs, sizeof(pairs) / sizeof(pairs[0])); }
int main(int argc, char** argv) { FEAT::Runtime::ScopeGuard guard(argc, argv); return vh::main_impl(argc, argv); }
