// C18 (extension) -- inter-mesh transfer between DIFFERENT spaces (only the clauses that hold for any pair of spaces:
// rows sum to 1, polynomials contained in both spaces are reproduced, matrix-free == matrix, weighted == direct)
#include "c18x_desc.hpp"
using namespace c18x;
namespace
{
  const c18::PairEntry pairs[] = {
    {"intermesh", "M12:Q", &InterMesh<DLagrange1, DLagrange2, Q>::run, true}, {"intermesh", "M12:T", &InterMesh<DLagrange1, DLagrange2, T>::run, true},
    {"intermesh", "M21:Q", &InterMesh<DLagrange2, DLagrange1, Q>::run, true}, {"intermesh", "M21:T", &InterMesh<DLagrange2, DLagrange1, T>::run, true},
    {"intermesh", "MD1:Q", &InterMesh<DDisc1, DLagrange1, Q>::run, true}, {"intermesh", "M1D:T", &InterMesh<DLagrange1, DDisc1, T>::run, true}};
  c18::RegPairs reg(pairs, sizeof(pairs) / sizeof(pairs[0]));
}
