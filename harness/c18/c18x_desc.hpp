// descriptors of the spaces used by the c18x families
#pragma once
#include "c18x.hpp"
#include <kernel/space/lagrange1/element.hpp>
#include <kernel/space/lagrange2/element.hpp>
#include <kernel/space/discontinuous/element.hpp>
namespace c18x
{
  struct DLagrange1 : c18::DescBase
  {
    template<typename T_> using S = Space::Lagrange1::Element<T_>;
    static const char* name() { return "Lagrange1"; }
    static constexpr int pdeg = 1, qdeg = 1;
    static constexpr bool unit_coefficients = true;   // the constant 1 has all coefficients 1 (nodal basis, partition of unity)
  };
  struct DLagrange2 : c18::DescBase
  {
    template<typename T_> using S = Space::Lagrange2::Element<T_>;
    static const char* name() { return "Lagrange2"; }
    static constexpr int pdeg = 2, qdeg = 2;
    static constexpr bool unit_coefficients = true;
  };
  struct DDisc0 : c18::DescBase
  {
    template<typename T_> using S = Space::Discontinuous::Element<T_, Space::Discontinuous::Variant::StdPolyP<0>>;
    static const char* name() { return "Discontinuous0"; }
    static constexpr int pdeg = 0;
    static constexpr bool unit_coefficients = true;
  };
  struct DDisc1 : c18::DescBase
  {
    template<typename T_> using S = Space::Discontinuous::Element<T_, Space::Discontinuous::Variant::StdPolyP<1>>;
    static const char* name() { return "Discontinuous1"; }
    static constexpr int pdeg = 1;
    static constexpr bool unit_coefficients = false;  // basis {1, x - x0, ...}: the constant has coefficients (1,0,..)
  };
  typedef Shape::Hypercube<2> Q; typedef Shape::Simplex<2> T; typedef Shape::Hypercube<3> H; typedef Shape::Simplex<3> X;
}
