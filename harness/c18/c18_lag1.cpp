// C18 -- Lagrange-1 on quad, tria, hexa, tetra ; families ; main
#include "c18.hpp"
#include <kernel/space/lagrange1/element.hpp>
using namespace c18;
namespace
{
  struct DLagrange1 : c18::DescBase
  {
    template<typename T_> using S = Space::Lagrange1::Element<T_>;
    static const char* name() { return "Lagrange1"; }
    static constexpr int pdeg = 1, qdeg = 1;
  };
  typedef Shape::Hypercube<2> Q; typedef Shape::Simplex<2> T; typedef Shape::Hypercube<3> H; typedef Shape::Simplex<3> X;
  const c18::PairEntry pairs[] = {
    {"lag12", "L1:Q", &c18::Monitors<DLagrange1, Q>::run, true}, {"lag12", "L1:T", &c18::Monitors<DLagrange1, T>::run, true},
    {"lag12", "L1:H", &c18::Monitors<DLagrange1, H>::run, true}, {"lag12", "L1:X", &c18::Monitors<DLagrange1, X>::run, true}};
  c18::RegPairs reg(pairs, sizeof(pairs) / sizeof(pairs[0]));
}
VH_FAMILY(lag12) { c18::run_registered(c, "lag12"); }
VH_FAMILY(lag3) { c18::run_registered(c, "lag3"); }
VH_FAMILY(disc) { c18::run_registered(c, "disc"); }
int main(int argc, char** argv) { FEAT::Runtime::ScopeGuard guard(argc, argv); return vh::main_impl(argc, argv); }
