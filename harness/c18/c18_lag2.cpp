// C18 -- Lagrange-2 on quad, tria, hexa, tetra
#include "c18.hpp"
#include <kernel/space/lagrange2/element.hpp>
using namespace c18;
namespace
{
  struct DLagrange2 : c18::DescBase
  {
    template<typename T_> using S = Space::Lagrange2::Element<T_>;
    static const char* name() { return "Lagrange2"; }
    static constexpr int pdeg = 2, qdeg = 2;
  };
  typedef Shape::Hypercube<2> Q; typedef Shape::Simplex<2> T; typedef Shape::Hypercube<3> H; typedef Shape::Simplex<3> X;
  const c18::PairEntry pairs[] = {
    {"lag12", "L2:Q", &c18::Monitors<DLagrange2, Q>::run, true}, {"lag12", "L2:T", &c18::Monitors<DLagrange2, T>::run, true},
    {"lag12", "L2:H", &c18::Monitors<DLagrange2, H>::run, false}, {"lag12", "L2:X", &c18::Monitors<DLagrange2, X>::run, true}};
  c18::RegPairs reg(pairs, sizeof(pairs) / sizeof(pairs[0]));
}
