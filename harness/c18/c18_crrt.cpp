// C18 -- Crouzeix-Raviart / Rannacher-Turek: the spaces are NOT nested, so only the clauses that do not need nestedness
// are judged (R = P^T, matrix-free = matrix, direct = weighted = control-layer assembly, transfer objects, permuted meshes)
#include "c18.hpp"
#include <kernel/space/cro_rav_ran_tur/element.hpp>
using namespace c18;
namespace
{
  struct DCRRT : c18::DescBase
  {
    template<typename T_> using S = Space::CroRavRanTur::Element<T_>;
    static const char* name() { return "CroRavRanTur"; }
    static constexpr int pdeg = 1;
    static constexpr bool nested = false;
  };
  typedef Shape::Hypercube<2> Q; typedef Shape::Simplex<2> T; typedef Shape::Hypercube<3> H; typedef Shape::Simplex<3> X;
  const c18::PairEntry pairs[] = {
    {"disc", "RT:Q", &c18::Monitors<DCRRT, Q>::run, true}, {"disc", "RT:T", &c18::Monitors<DCRRT, T>::run, true},
    {"disc", "RT:H", &c18::Monitors<DCRRT, H>::run, true}, {"disc", "RT:X", &c18::Monitors<DCRRT, X>::run, true}};
  c18::RegPairs reg(pairs, sizeof(pairs) / sizeof(pairs[0]));
}
