// C18 -- Lagrange-3 (Q, T)
#include "c18.hpp"
#include <kernel/space/lagrange3/element.hpp>
using namespace c18;
namespace
{
  struct DLagrange3 : c18::DescBase
  {
    template<typename T_> using S = Space::Lagrange3::Element<T_>;
    static const char* name() { return "Lagrange3"; }
    static constexpr int pdeg = 3, qdeg = 3;
  };
  typedef Shape::Hypercube<2> Q; typedef Shape::Simplex<2> T; typedef Shape::Hypercube<3> H; typedef Shape::Simplex<3> X;
  const c18::PairEntry pairs[] = {{"lag3", "L3:Q", &c18::Monitors<DLagrange3, Q>::run, true}, {"lag3", "L3:T", &c18::Monitors<DLagrange3, T>::run, true}};
  c18::RegPairs reg(pairs, sizeof(pairs) / sizeof(pairs[0]));
}
