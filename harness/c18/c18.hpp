// c18.hpp -- generic monitors for C18 (grid transfer: prolongation exact on the coarse space, truncation a left
// inverse, restriction = transpose, matrix-free = assembled, permuted meshes give the same functions).
//
// Re-uses the reference-cell / monomial / cell-evaluation / mesh-generation helpers of the C15 harness.
// Harness-owned truth: the coarse MeshSpec (coordinates + vertices-at-cell), its multilinear map and the
// harness Newton inverse of that map (coarse cell location of a fine point does NOT use FEAT's 2-level numbering),
// sparse row copies of the assembled matrices decoded from the raw CSR arrays, long-double products.
#pragma once
#include <c15/c15.hpp>
#include <kernel/geometry/mesh_node.hpp>
#include <kernel/assembly/grid_transfer.hpp>
#include <kernel/assembly/symbolic_assembler.hpp>
#include <kernel/lafem/sparse_matrix_csr.hpp>
#include <kernel/lafem/transfer.hpp>
#include <kernel/lafem/vector_mirror.hpp>
#include <kernel/global/gate.hpp>
#include <kernel/global/muxer.hpp>
#include <kernel/global/vector.hpp>
#include <kernel/global/transfer.hpp>
#include <control/asm/transfer_asm.hpp>

namespace c18
{
  using namespace FEAT;
  using c15::LD; using c15::Ref; using c15::Counts; using c15::MeshInfo; using c15::MeshOpt; using c15::Monomial; using c15::CellEval;
  typedef LAFEM::SparseMatrixCSR<double, Index> MatrixType;
  typedef LAFEM::DenseVector<double, Index> VectorType;
  typedef LAFEM::VectorMirror<double, Index> MirrorType;

  // sparse row copy of a CSR matrix, decoded from the raw arrays
  struct Rows
  {
    Index nr = 0, nc = 0; std::vector<std::vector<std::pair<Index, double>>> r;
    bool ok = true; std::string why;
    void decode(const MatrixType& m)
    {
      nr = m.rows(); nc = m.columns(); r.assign(nr, {});
      const Index* rp = m.row_ptr(); const Index* ci = m.col_ind(); const double* v = m.val();
      if(nr == 0) return;
      if(!rp || (m.used_elements() > 0 && (!ci || !v))) { ok = false; why = "null arrays"; return; }
      if(rp[0] != 0 || rp[nr] != m.used_elements()) { ok = false; why = "row_ptr ends"; return; }
      for(Index i = 0; i < nr; ++i)
      {
        if(rp[i + 1] < rp[i]) { ok = false; why = "row_ptr not monotone"; return; }
        for(Index k = rp[i]; k < rp[i + 1]; ++k)
        {
          if(ci[k] >= nc) { ok = false; why = "column out of range"; return; }
          if(k > rp[i] && ci[k] <= ci[k - 1]) { ok = false; why = "columns not strictly increasing"; return; }
          r[i].push_back({ci[k], v[k]});
        }
      }
    }
    // y = A x in long double; S = sum |terms| per row
    void apply(const std::vector<double>& x, std::vector<LD>& y, std::vector<LD>* S = nullptr) const
    {
      y.assign(nr, 0); if(S) S->assign(nr, 0);
      for(Index i = 0; i < nr; ++i) for(auto& e : r[i]) { LD t = LD(e.second) * LD(x[e.first]); y[i] += t; if(S) (*S)[i] += std::fabs(t); }
    }
    double get(Index i, Index j) const { for(auto& e : r[i]) if(e.first == j) return e.second; return 0.0; }
    bool has(Index i, Index j) const { for(auto& e : r[i]) if(e.first == j) return true; return false; }
  };

  // re-read a mesh (FEAT numbering) into a MeshSpec
  template<typename Shape_, typename Mesh_>
  vm::MeshSpec<Shape_> readback(const Mesh_& mesh)
  {
    constexpr int dim = Ref<Shape_>::dim;
    vm::MeshSpec<Shape_> s; s.kind = "readback";
    const auto& vtx = mesh.get_vertex_set(); const auto& idx = mesh.template get_index_set<dim, 0>();
    s.verts.resize(mesh.get_num_vertices()); s.cells.resize(mesh.get_num_elements());
    for(Index v = 0; v < mesh.get_num_vertices(); ++v) { s.verts[v] = {{0, 0, 0}}; for(int d = 0; d < dim; ++d) s.verts[v][std::size_t(d)] = vtx[v][d]; }
    for(Index k = 0; k < mesh.get_num_elements(); ++k) { s.cells[k] = {}; for(int j = 0; j < Ref<Shape_>::nv; ++j) s.cells[k][std::size_t(j)] = idx(k, j); }
    return s;
  }

  // harness Newton inverse of the multilinear map of one cell; returns true if x lies in the (closed, slightly enlarged) cell
  template<typename Shape_>
  bool locate_in_cell(const vm::MeshSpec<Shape_>& m, Index cell, const LD* x, double* xi, double tol)
  {
    typedef Ref<Shape_> R; constexpr int dim = R::dim;
    LD p[3]; for(int k = 0; k < dim; ++k) p[k] = R::centre(k);
    for(int it = 0; it < 30; ++it)
    {
      // value and Jacobian by the shape functions (finite differences are exact for multilinear maps along axes)
      double pd[3]; for(int k = 0; k < dim; ++k) pd[k] = double(p[k]);
      LD f[3]; c15::map_point(m, cell, pd, f);
      LD J[3][3];
      for(int d = 0; d < dim; ++d)
      {
        double q[3]; for(int k = 0; k < dim; ++k) q[k] = pd[k]; q[d] += 1.0;
        LD g[3]; c15::map_point(m, cell, q, g);
        for(int k = 0; k < dim; ++k) J[k][d] = g[k] - f[k];
      }
      LD r[3]; for(int k = 0; k < dim; ++k) r[k] = x[k] - f[k];
      // solve J u = r (Cramer)
      LD u[3] = {0, 0, 0};
      if(dim == 2)
      {
        LD det = J[0][0] * J[1][1] - J[0][1] * J[1][0]; if(det == 0) return false;
        u[0] = (r[0] * J[1][1] - J[0][1] * r[1]) / det; u[1] = (J[0][0] * r[1] - r[0] * J[1][0]) / det;
      }
      else
      {
        auto det3 = [](LD a[3][3]) { return a[0][0] * (a[1][1] * a[2][2] - a[1][2] * a[2][1]) - a[0][1] * (a[1][0] * a[2][2] - a[1][2] * a[2][0]) + a[0][2] * (a[1][0] * a[2][1] - a[1][1] * a[2][0]); };
        LD det = det3(J); if(det == 0) return false;
        for(int d = 0; d < 3; ++d) { LD A[3][3]; for(int a = 0; a < 3; ++a) for(int b = 0; b < 3; ++b) A[a][b] = (b == d) ? r[a] : J[a][b]; u[d] = det3(A) / det; }
      }
      LD un = 0; for(int k = 0; k < dim; ++k) { p[k] += u[k]; un = std::max(un, std::fabs(u[k])); }
      if(!(un < 1e6)) return false;
      if(un < 1e-13) break;
      if(it == 29) return false;
    }
    for(int k = 0; k < dim; ++k) xi[k] = double(p[k]);
    if(R::simplex) { LD s = 0; for(int k = 0; k < dim; ++k) { if(p[k] < -tol) return false; s += p[k]; } return s <= 1 + tol; }
    for(int k = 0; k < dim; ++k) if(p[k] < -1 - tol || p[k] > 1 + tol) return false;
    return true;
  }

  // cell correspondence between two numberings of the same mesh by exact coordinates of the local vertex tuple
  template<typename Shape_>
  bool match_cells(const vm::MeshSpec<Shape_>& a, const vm::MeshSpec<Shape_>& b, std::vector<Index>& a2b)
  {
    typedef Ref<Shape_> R;
    auto key = [](const vm::MeshSpec<Shape_>& m, Index c) { std::vector<double> k; for(int j = 0; j < R::nv; ++j) for(int d = 0; d < R::dim; ++d) k.push_back(m.verts[m.cells[c][std::size_t(j)]][std::size_t(d)]); return k; };
    std::map<std::vector<double>, Index> mb;
    for(Index c = 0; c < b.num_cells(); ++c) mb[key(b, c)] = c;
    a2b.assign(a.num_cells(), 0);
    for(Index c = 0; c < a.num_cells(); ++c) { auto it = mb.find(key(a, c)); if(it == mb.end()) return false; a2b[c] = it->second; }
    return true;
  }

  // one level pair (coarse mesh, fine mesh, spaces, all transfer matrices)
  template<typename D_, typename Shape_>
  struct Pair
  {
    typedef Ref<Shape_> R; static constexpr int dim = R::dim;
    typedef Geometry::ConformalMesh<Shape_, dim, double> MeshType;
    typedef Trafo::Standard::Mapping<MeshType> TrafoType;
    typedef typename D_::template S<TrafoType> SpaceType;
    typedef CellEval<SpaceType, false, false> CE;

    std::unique_ptr<MeshType> mesh_c, mesh_f;
    std::unique_ptr<TrafoType> trafo_c, trafo_f;
    std::unique_ptr<SpaceType> space_c, space_f;
    vm::MeshSpec<Shape_> spec_c, spec_f;       // FEAT numbering (re-read)
    MatrixType P, T;                           // prolongation_direct / truncation_direct
    Rows rP, rT;

    void make_spaces()
    {
      spec_c = readback<Shape_>(*mesh_c); spec_f = readback<Shape_>(*mesh_f);
      trafo_c.reset(new TrafoType(*mesh_c)); trafo_f.reset(new TrafoType(*mesh_f));
      space_c.reset(new SpaceType(*trafo_c)); space_f.reset(new SpaceType(*trafo_f));
    }
    void assemble(const String& cub, bool with_trunc)
    {
      Assembly::SymbolicAssembler::assemble_matrix_2lvl(P, *space_f, *space_c);
      P.format();
      if(with_trunc) { T.transpose(P); T.format(); }
      Assembly::GridTransfer::assemble_prolongation_direct(P, *space_f, *space_c, cub);
      if(with_trunc) Assembly::GridTransfer::assemble_truncation_direct(T, *space_f, *space_c, cub);
      rP.decode(P); if(with_trunc) rT.decode(T);
    }
  };

  inline const char* perm_name(int i) { static const char* nm[8] = {"none", "random", "lexicographic", "colored", "cmk", "cmk_rev", "geo_cmk", "geo_cmk_rev"}; return nm[i]; }
  inline Geometry::PermutationStrategy perm_strategy(int i)
  {
    static const Geometry::PermutationStrategy st[8] = {Geometry::PermutationStrategy::none, Geometry::PermutationStrategy::random, Geometry::PermutationStrategy::lexicographic,
      Geometry::PermutationStrategy::colored, Geometry::PermutationStrategy::cuthill_mckee, Geometry::PermutationStrategy::cuthill_mckee_reversed,
      Geometry::PermutationStrategy::geometric_cuthill_mckee, Geometry::PermutationStrategy::geometric_cuthill_mckee_reversed};
    return st[i];
  }

  // a "domain level" for Control::Asm::asm_transfer_scalar: anything the space lambda can map to a space pointer
  template<typename Space_> struct Level { const Space_* space; };

  template<typename D_, typename Shape_>
  struct Monitors
  {
    typedef Pair<D_, Shape_> PairT; typedef Ref<Shape_> R; static constexpr int dim = R::dim;
    typedef typename PairT::MeshType MeshType; typedef typename PairT::SpaceType SpaceType; typedef typename PairT::CE CE;

    static std::vector<double> to_std(const VectorType& v) { return std::vector<double>(v.elements(), v.elements() + v.size()); }
    static VectorType to_feat(const std::vector<double>& v) { VectorType r(Index(v.size())); for(Index i = 0; i < r.size(); ++i) r.elements()[i] = v[i]; return r; }

    static bool same_bits(double a, double b) { return std::memcmp(&a, &b, sizeof(double)) == 0; }

    // entrywise bitwise equality of two matrices (pattern + values)
    static bool rows_equal(const Rows& a, const Rows& b, std::string& where)
    {
      if(a.nr != b.nr || a.nc != b.nc) { where = "dims"; return false; }
      for(Index i = 0; i < a.nr; ++i)
      {
        if(a.r[i].size() != b.r[i].size()) { where = "pattern row " + std::to_string(i); return false; }
        for(std::size_t k = 0; k < a.r[i].size(); ++k)
          if(a.r[i][k].first != b.r[i][k].first || !same_bits(a.r[i][k].second, b.r[i][k].second)) { where = "entry (" + std::to_string(i) + "," + std::to_string(a.r[i][k].first) + ")"; return false; }
      }
      return true;
    }
    // R == P^T entrywise bitwise
    static bool is_transpose(const Rows& rR, const Rows& rP, std::string& where)
    {
      if(rR.nr != rP.nc || rR.nc != rP.nr) { where = "dims"; return false; }
      Index nnzR = 0, nnzP = 0; for(auto& x : rR.r) nnzR += Index(x.size()); for(auto& x : rP.r) nnzP += Index(x.size());
      if(nnzR != nnzP) { where = "nnz " + std::to_string(nnzR) + " vs " + std::to_string(nnzP); return false; }
      std::vector<std::size_t> pos(rR.nr, 0);
      // P rows ascending i, columns ascending j  ->  R row j receives entries in ascending i
      for(Index i = 0; i < rP.nr; ++i) for(auto& e : rP.r[i])
      {
        const Index j = e.first; std::size_t& q = pos[j];
        if(q >= rR.r[j].size() || rR.r[j][q].first != i || !same_bits(rR.r[j][q].second, e.second))
        { where = "P(" + std::to_string(i) + "," + std::to_string(j) + ")"; return false; }
        ++q;
      }
      return true;
    }

    static std::string pt_json(const double* xi) { vh::J a('['); for(int k = 0; k < dim; ++k) a.add(xi[k]); return a.str(); }

    // pointwise comparison of a coarse FE function (coefficients vc) with a fine FE function (coefficients vf)
    static void compare_functions(vh::Ctx& c, PairT& p, const std::vector<double>& vc, const std::vector<double>& vf, const std::string& op, const char* kind, double tol, int npts)
    {
      CE cf(*p.space_f), cc(*p.space_c);
      const Index nf = p.spec_f.num_cells(), ncc = p.spec_c.num_cells();
      double scale = 0; for(double x : vc) scale = std::max(scale, std::fabs(x));
      for(int t = 0; t < npts; ++t)
      {
        const Index fcell = Index(c.rng.below(nf));
        double xf[3] = {0, 0, 0}; R::random_point(c.rng, xf, 0.9);
        LD x[3]; c15::map_point(p.spec_f, fcell, xf, x);
        // locate in the coarse mesh (harness search, tolerance-free interior points of the fine cell)
        Index ccell = ~Index(0); double xc[3] = {0, 0, 0};
        for(Index k = 0; k < ncc; ++k) if(locate_in_cell(p.spec_c, k, x, xc, 1e-9)) { ccell = k; break; }
        if(ccell == ~Index(0)) { c.inconclusive("harness could not locate a fine point in the coarse mesh"); return; }
        cf.prepare(fcell); cf.eval(xf); const LD uf = cf.fe_value(vf);
        cc.prepare(ccell); cc.eval(xc); const LD uc = cc.fe_value(vc);
        c.event();
        if(!(std::fabs(double(uf - uc)) <= tol * std::max(1.0, scale)))
        {
          c.viol(op, kind, vh::J().kv("fine_cell", (unsigned long)fcell).raw("fine_ref_point", pt_json(xf)).kv("coarse_cell", (unsigned long)ccell).raw("coarse_ref_point", pt_json(xc))
            .kv("fine_value", uf).kv("coarse_value", uc).kv("tol", tol * std::max(1.0, scale)).str());
          return;
        }
      }
    }

    // cubature of sufficient degree (the property quantifies over those only): the integrands are (basis x basis x jac_det).
    // k = local degree of the element; simplex (affine): total degree 2k; hypercube: per-variable degree 2k (+1 for a bilinear,
    // +2 for a trilinear non-affine cell) -> n Gauss points with 2n-1 >= that.  One extra point at random.
    static String pick_cubature(vh::Ctx& c, const MeshInfo& info)
    {
      const int k = SpaceType::local_degree;
      String cub;
      if(R::simplex)
      {
        const int d = std::max(1, 2 * k + int(c.rng.below(2)));
        cub = "auto-degree:" + stringify(d);
      }
      else
      {
        const int need = 2 * k + (info.affine_cells ? 0 : dim - 1);
        const int n = (need + 2) / 2 + int(c.rng.below(2));       // 2n-1 >= need
        if(c.rng.coin()) cub = "gauss-legendre:" + stringify(n);
        else cub = "auto-degree:" + stringify(2 * n - 1 - int(c.rng.below(2)));
      }
      c.tag(std::string("cub:") + (cub.compare(0, 4, "auto") == 0 ? "auto-degree" : "gauss-legendre"));
      return cub;
    }

    static void run(vh::Ctx& c)
    {
      c.tag(std::string("space:") + D_::name());
      c.tag(std::string("shape:") + vm::ShapeInfo<Shape_>::name());
      c.tag(D_::nested ? "nested" : "non_nested");
      MeshOpt opt; opt.max_cells = (c.thorough() ? 640 : 48) / (dim == 3 ? 2 : 1);
      if(CE::maxn > 30) opt.max_cells = c.thorough() ? 27 : 8;
      else if(CE::maxn > 9) opt.max_cells = std::min<Index>(opt.max_cells, c.thorough() ? 150 : 24);
      MeshInfo info;
      auto spec0 = c15::gen_mesh<Shape_>(c, opt, info);
      // sometimes the "coarse" level is itself a refined mesh (transfer between levels 1 and 2)
      const bool deep = spec0.num_cells() * Index(1 << dim) <= opt.max_cells && c.rng.coin(0.5);
      c.tag(deep ? "levels:1-2" : "levels:0-1");
      const int perm_c = c.rng.coin(0.4) ? int(c.rng.range(1, 7)) : 0, perm_f = c.rng.coin(0.4) ? int(c.rng.range(1, 7)) : 0;
      const bool via_node = c.rng.coin(0.3);
      c.tag(std::string("perm_c:") + perm_name(perm_c)); c.tag(std::string("perm_f:") + perm_name(perm_f));
      c.tag(via_node ? "refine:mesh_node" : "refine:refinery");
      const String cub = pick_cubature(c, info);
      const std::string op = std::string("transfer.") + D_::name();
      c.set_op(op);
      c.desc = vh::J().raw("mesh", spec0.describe()).kv("space", D_::name()).kv("cubature", std::string(cub)).raw("tags", c.tags_json()).str();

      if(deep)
      {
        auto m0 = vm::build(spec0);
        Geometry::StandardRefinery<MeshType> refinery(*m0);
        MeshType m1(refinery);
        auto tags = spec0.tags; auto kind = spec0.kind;
        spec0 = readback<Shape_>(m1); spec0.tags = tags; spec0.kind = kind + "+refined";
      }
      // ---- unpermuted pair (reference numbering) and the pair under test (possibly permuted levels)
      auto build_pair = [&](PairT& p, int pc, int pf)
      {
        p.mesh_c = vm::build(spec0);
        if(via_node)
        {
          // RootMeshNode::refine_unique on a copy of the coarse mesh
          Geometry::RootMeshNode<MeshType> node(vm::build(spec0));
          auto fine = node.refine_unique(Geometry::AdaptMode::none);
          p.mesh_f.reset(new MeshType(fine->get_mesh()->clone()));
          if(fine->get_mesh()->get_num_elements() != p.mesh_f->get_num_elements()) throw std::runtime_error("mesh clone changed the mesh");
        }
        else
        {
          Geometry::StandardRefinery<MeshType> refinery(*p.mesh_c);
          p.mesh_f.reset(new MeshType(refinery));
        }
        if(pc) p.mesh_c->create_permutation(perm_strategy(pc));
        if(pf) p.mesh_f->create_permutation(perm_strategy(pf));
        p.make_spaces();
        p.assemble(cub, D_::nested);
      };
      PairT p; build_pair(p, perm_c, perm_f);
      const Index nf = p.space_f->get_num_dofs(), ncd = p.space_c->get_num_dofs();
      c.event();
      if(!p.rP.ok) { c.viol(op + ".prolongation", "invalid-csr", vh::J().kv("why", p.rP.why).str()); return; }
      if(p.rP.nr != nf || p.rP.nc != ncd) { c.viol(op + ".prolongation", "dims", "{}"); return; }

      // ---- (a) weight-vector route exactly as tests / control layer do it == direct route, bitwise
      {
        MatrixType P2 = p.P.clone(LAFEM::CloneMode::Layout); P2.format();
        VectorType w = P2.create_vector_l(); w.format();
        Assembly::GridTransfer::assemble_prolongation(P2, w, *p.space_f, *p.space_c, cub);
        // weights = number of fine cells sharing the DOF: positive integers
        for(Index i = 0; i < w.size(); ++i) if(!(w.elements()[i] >= 1.0) || w.elements()[i] != std::floor(w.elements()[i]))
        { c.viol(op + ".prolongation", "weight-not-a-positive-count", vh::J().kv("dof", (unsigned long)i).kv("weight", w.elements()[i]).str()); return; }
        w.component_invert(w); P2.scale_rows(P2, w);
        Rows r2; r2.decode(P2); std::string where; c.event();
        if(!rows_equal(r2, p.rP, where)) { c.viol(op + ".prolongation", "direct-differs-from-weighted", vh::J().kv("where", where).str()); return; }
      }

      // ---- (b) the control layer's assembly: Control::Asm::asm_transfer_scalar on a LAFEM::Transfer
      LAFEM::Transfer<MatrixType> transfer;
      {
        typedef Level<SpaceType> Lvl;
        Control::Domain::VirtualLevel<Lvl> vf(std::make_shared<Lvl>(Lvl{p.space_f.get()}), std::shared_ptr<Control::Domain::DomainLayer>());
        Control::Domain::VirtualLevel<Lvl> vc(std::make_shared<Lvl>(Lvl{p.space_c.get()}), std::shared_ptr<Control::Domain::DomainLayer>());
        Global::Gate<VectorType, MirrorType> gate_f, gate_c; Global::Muxer<VectorType, MirrorType> muxer;
        Control::Asm::asm_transfer_scalar(vf, vc, cub, D_::nested, false, [](const Lvl& l) { return l.space; }, transfer, muxer, gate_f, gate_c);
        Rows cp, cr, ct; cp.decode(transfer.get_mat_prol()); cr.decode(transfer.get_mat_rest());
        std::string where; c.event(3);
        if(!cp.ok || !cr.ok) { c.viol(op + ".control", "invalid-csr", vh::J().kv("why", cp.why + cr.why).str()); return; }
        if(!rows_equal(cp, p.rP, where)) { c.viol(op + ".control.prol", "differs-from-direct", vh::J().kv("where", where).str()); return; }
        if(!is_transpose(cr, cp, where)) { c.viol(op + ".control.rest", "not-transpose-of-prolongation", vh::J().kv("where", where).str()); return; }
        if(D_::nested)
        {
          ct.decode(transfer.get_mat_trunc());
          if(!ct.ok) { c.viol(op + ".control.trunc", "invalid-csr", vh::J().kv("why", ct.why).str()); return; }
          if(!rows_equal(ct, p.rT, where)) { c.viol(op + ".control.trunc", "differs-from-direct", vh::J().kv("where", where).str()); return; }
        }
        // also MatrixType::transpose() on the direct matrix
        MatrixType Rt = p.P.transpose(); Rows rr; rr.decode(Rt);
        if(!rr.ok || !is_transpose(rr, p.rP, where)) { c.viol(op + ".transpose", "not-transpose-of-prolongation", vh::J().kv("where", where).str()); return; }
      }

      // ---- random coarse vector
      // (dense, or locally supported: coarse cells on which the vector vanishes completely must still contribute their
      //  weights / zero values to the matrix-free prolongation)
      std::vector<double> v(ncd, 0.0);
      {
        const int style = int(c.rng.below(20));
        if(style < 10) { for(auto& x : v) x = c.rng.real(-1.0, 1.0); c.tag("cvec:dense"); }
        else if(style < 13) { if(ncd > 0) v[c.rng.below(ncd)] = c.rng.real(0.5, 1.0); c.tag("cvec:nodal_basis"); }
        else if(style < 15) { c.tag("cvec:zero"); }
        else { for(auto& x : v) if(c.rng.coin(0.2)) x = c.rng.real(-1.0, 1.0); c.tag("cvec:sparse"); }
      }
      std::vector<LD> Pv, SPv; p.rP.apply(v, Pv, &SPv);
      std::vector<double> Pvd(nf); for(Index i = 0; i < nf; ++i) Pvd[i] = double(Pv[i]);

      // ---- (c) matrix-free prolongation == P v ; LAFEM::Transfer / Global::Transfer apply == dense products
      {
        VectorType vc = to_feat(v), f1(nf, 0.0), w1(nf, 0.0), f2(nf, 0.0);
        Assembly::GridTransfer::prolongate_vector(f1, w1, vc, *p.space_f, *p.space_c, cub);
        w1.component_invert(w1); f1.component_product(f1, w1);
        Assembly::GridTransfer::prolongate_vector_direct(f2, vc, *p.space_f, *p.space_c, cub);
        VectorType f3(nf, 0.0); transfer.prol(f3, vc);
        c.event(3);
        for(Index i = 0; i < nf; ++i)
        {
          const double tol = 1e-11 * double(SPv[i]) + 1e-13;
          if(!(std::fabs(f1.elements()[i] - Pvd[i]) <= tol) || !(std::fabs(f2.elements()[i] - Pvd[i]) <= tol))
          { c.viol(op + ".prolongate_vector", "differs-from-matrix", vh::J().kv("dof", (unsigned long)i).kv("weighted", f1.elements()[i]).kv("direct", f2.elements()[i]).kv("P_times_v", Pvd[i]).kv("tol", tol).str()); return; }
          if(!(std::fabs(f3.elements()[i] - Pvd[i]) <= 1e-13 * double(SPv[i]) + 1e-300))
          { c.viol(op + ".lafem_transfer.prol", "wrong-value", vh::J().kv("dof", (unsigned long)i).kv("got", f3.elements()[i]).kv("expected", Pvd[i]).str()); return; }
        }
        // restriction of a random fine vector = P^T d
        std::vector<double> d(nf); for(auto& x : d) x = c.rng.real(-1.0, 1.0);
        std::vector<LD> Rd(ncd, 0), SRd(ncd, 0);
        for(Index i = 0; i < nf; ++i) for(auto& e : p.rP.r[i]) { LD t = LD(e.second) * LD(d[i]); Rd[e.first] += t; SRd[e.first] += std::fabs(t); }
        VectorType df = to_feat(d), rc(ncd, 0.0); transfer.rest(df, rc);
        // Global::Transfer on one rank (no muxer, gates without neighbours)
        Global::Gate<VectorType, MirrorType> gate_f, gate_c;
        Global::Transfer<LAFEM::Transfer<MatrixType>, MirrorType> gt(nullptr, transfer.clone(LAFEM::CloneMode::Deep));
        Global::Vector<VectorType, MirrorType> gvf(&gate_f, nf), gvc(&gate_c, ncd), gvf2(&gate_f, nf), gvc2(&gate_c, ncd);
        gvc.local().copy(vc); gvf2.local().copy(df); gvf.local().format(); gvc2.local().format();
        gt.prol(gvf, gvc); gt.rest(gvf2, gvc2);
        c.event(3);
        for(Index j = 0; j < ncd; ++j)
        {
          const double tol = 1e-13 * double(SRd[j]) + 1e-300;
          if(!(std::fabs(rc.elements()[j] - double(Rd[j])) <= tol)) { c.viol(op + ".lafem_transfer.rest", "wrong-value", vh::J().kv("dof", (unsigned long)j).kv("got", rc.elements()[j]).kv("expected", Rd[j]).str()); return; }
          if(!same_bits(gvc2.local().elements()[j], rc.elements()[j])) { c.viol(op + ".global_transfer.rest", "differs-from-local", vh::J().kv("dof", (unsigned long)j).str()); return; }
        }
        for(Index i = 0; i < nf; ++i) if(!same_bits(gvf.local().elements()[i], f3.elements()[i])) { c.viol(op + ".global_transfer.prol", "differs-from-local", vh::J().kv("dof", (unsigned long)i).str()); return; }
        if(D_::nested)
        {
          std::vector<LD> Td; p.rT.apply(d, Td);
          VectorType tc(ncd, 0.0); transfer.trunc(df, tc);
          Global::Vector<VectorType, MirrorType> gvc3(&gate_c, ncd); gvc3.local().format(); gt.trunc(gvf2, gvc3);
          c.event(2);
          for(Index j = 0; j < ncd; ++j)
          {
            if(!(std::fabs(tc.elements()[j] - double(Td[j])) <= 1e-12 * (1.0 + std::fabs(double(Td[j]))))) { c.viol(op + ".lafem_transfer.trunc", "wrong-value", vh::J().kv("dof", (unsigned long)j).kv("got", tc.elements()[j]).kv("expected", Td[j]).str()); return; }
            if(!same_bits(gvc3.local().elements()[j], tc.elements()[j])) { c.viol(op + ".global_transfer.trunc", "differs-from-local", vh::J().kv("dof", (unsigned long)j).str()); return; }
          }
        }
      }

      if(D_::nested)
      {
        // ---- (d) exactness on the coarse space: monomials through Interpolator on both levels
        double lo[3] = {1e300, 1e300, 1e300}, hi[3] = {-1e300, -1e300, -1e300};
        for(auto& vt : p.spec_c.verts) for(int k = 0; k < dim; ++k) { lo[k] = std::min(lo[k], vt[std::size_t(k)]); hi[k] = std::max(hi[k], vt[std::size_t(k)]); }
        double ext = 0; for(int k = 0; k < dim; ++k) ext = std::max(ext, hi[k] - lo[k]);
        auto monos = c15::Monitors<D_, Shape_>::monomials(info);
        if(monos.size() > 6) { c.rng.shuffle(monos); monos.resize(6); }
        for(auto& ex : monos)
        {
          Monomial<dim> f; for(int k = 0; k < dim; ++k) { f.e[k] = ex[std::size_t(k)]; f.x0[k] = 0.5 * (lo[k] + hi[k]) + 0.1 * ext; } f.sc = 1.0 / ext;
          VectorType uc, uf; Assembly::Interpolator::project(uc, f, *p.space_c); Assembly::Interpolator::project(uf, f, *p.space_f);
          std::vector<LD> Pu, S; p.rP.apply(to_std(uc), Pu, &S);
          double scale = 0; for(Index i = 0; i < nf; ++i) scale = std::max(scale, std::fabs(uf.elements()[i]));
          c.event();
          for(Index i = 0; i < nf; ++i) if(!(std::fabs(double(Pu[i]) - uf.elements()[i]) <= 1e-10 * std::max(scale, 1e-3)))
          {
            vh::J e('['); for(int k = 0; k < dim; ++k) e.add(f.e[k]);
            c.viol(op + ".prolongation", "not-exact-on-coarse-polynomial", vh::J().raw("exponents", e.str()).kv("fine_dof", (unsigned long)i).kv("P_interp_c", Pu[i]).kv("interp_f", uf.elements()[i]).kv("scale", scale).str());
            return;
          }
        }
        // ---- (e) P v is the same function as v (any coarse vector), pointwise
        compare_functions(c, p, v, Pvd, op + ".prolongation", "prolongated-function-differs", 1e-10, 24);
        if(c.nviol) return;
        // ---- (f) T P = I
        c.event();
        for(Index j = 0; j < ncd; ++j)
        {
          std::map<Index, LD> row;
          for(auto& e : p.rT.r[j]) for(auto& g : p.rP.r[e.first]) row[g.first] += LD(e.second) * LD(g.second);
          for(auto& kv : row) if(!(std::fabs(double(kv.second - (kv.first == j ? 1.0L : 0.0L))) <= 1e-10))
          { c.viol(op + ".truncation", "TP-not-identity", vh::J().kv("row", (unsigned long)j).kv("col", (unsigned long)kv.first).kv("got", kv.second).str()); return; }
          if(!row.count(j)) { c.viol(op + ".truncation", "TP-not-identity", vh::J().kv("row", (unsigned long)j).kv("col", (unsigned long)j).kv("got", 0.0).str()); return; }
        }
      }

      // ---- (g) permuted levels give the same functions as the unpermuted hierarchy
      if(perm_c || perm_f)
      {
        PairT q; build_pair(q, 0, 0);
        std::vector<Index> c2c, f2f;
        if(!match_cells(p.spec_c, q.spec_c, c2c) || !match_cells(p.spec_f, q.spec_f, f2f)) { c.inconclusive("cells of the permuted mesh could not be matched by vertex coordinates"); return; }
        // transfer the coarse vector to the unpermuted numbering through cell-local DOF correspondence
        std::vector<double> vq(q.space_c->get_num_dofs(), 0.0); std::vector<char> set(vq.size(), 0);
        {
          CE a(*p.space_c), b(*q.space_c);
          for(Index k = 0; k < p.spec_c.num_cells(); ++k)
          {
            a.prepare(k); b.prepare(c2c[k]);
            for(int i = 0; i < a.n; ++i)
            {
              if(set[b.dof[i]] && vq[b.dof[i]] != v[a.dof[i]]) { c.inconclusive("cell-local DOF correspondence between permuted and unpermuted mesh is not consistent"); return; }
              vq[b.dof[i]] = v[a.dof[i]]; set[b.dof[i]] = 1;
            }
          }
        }
        std::vector<LD> Qv; q.rP.apply(vq, Qv);
        std::vector<double> Qvd(Qv.size()); for(std::size_t i = 0; i < Qv.size(); ++i) Qvd[i] = double(Qv[i]);
        CE a(*p.space_f), b(*q.space_f), ac(*p.space_c), bc(*q.space_c);
        const Index nfc = p.spec_f.num_cells();
        for(int t = 0; t < 32; ++t)
        {
          const Index k = Index(c.rng.below(nfc));
          double xi[3] = {0, 0, 0}; R::random_point(c.rng, xi, 1.0);
          a.prepare(k); a.eval(xi); b.prepare(f2f[k]); b.eval(xi);
          const LD ua = a.fe_value(Pvd), ub = b.fe_value(Qvd);
          // the coarse functions must agree as well (sanity of the harness transfer of v)
          const Index kc = Index(c.rng.below(p.spec_c.num_cells()));
          ac.prepare(kc); ac.eval(xi); bc.prepare(c2c[kc]); bc.eval(xi);
          if(std::fabs(double(ac.fe_value(v) - bc.fe_value(vq))) > 1e-12) { c.inconclusive("harness transfer of the coarse vector to the unpermuted mesh changed the function"); return; }
          c.event();
          if(!(std::fabs(double(ua - ub)) <= 1e-11))
          {
            c.viol(op + ".prolongation", "permuted-mesh-gives-different-function", vh::J().kv("fine_cell_permuted", (unsigned long)k).kv("fine_cell_unpermuted", (unsigned long)f2f[k])
              .raw("ref_point", pt_json(xi)).kv("permuted", ua).kv("unpermuted", ub).str());
            return;
          }
        }
      }
    }
  };

  // (space, shape) pairs register themselves under a family name from several TUs (template instantiation is heavy);
  // the family picks pair (k mod #pairs) from the list sorted by key, so the choice does not depend on link order
  struct PairEntry { const char* family; const char* key; void (*fn)(vh::Ctx&); bool quick; };
  inline std::vector<PairEntry>& registry() { static std::vector<PairEntry> r; return r; }
  struct RegPairs { RegPairs(const PairEntry* p, std::size_t n) { for(std::size_t i = 0; i < n; ++i) registry().push_back(p[i]); } };
  inline void run_registered(vh::Ctx& c, const char* family)
  {
    std::vector<PairEntry> sel;
    for(auto& e : registry()) if(std::strcmp(e.family, family) == 0 && (c.thorough() || e.quick)) sel.push_back(e);
    std::sort(sel.begin(), sel.end(), [](const PairEntry& x, const PairEntry& y) { return std::strcmp(x.key, y.key) < 0; });
    if(sel.empty()) { c.inconclusive("no pairs registered"); return; }
    sel[std::size_t(c.k % sel.size())].fn(c);
  }

  struct DescBase : c15::DescBase { static constexpr bool nested = true; };
} // namespace c18
