// C18 -- Lagrange-3 (H, X)
#include "c18.hpp"
#include <kernel/space/lagrange3/element.hpp>
using namespace c18;
namespace
{
  struct DLagrange3 : c18::DescBase
  {
    template<typename T_> using S = Space::Lagrange3::Element<T_>;
    static const char* name() { return "Lagrange3"; }
    static constexpr int pdeg = 3, qdeg = 3;
  };
  typedef Shape::Hypercube<2> Q; typedef Shape::Simplex<2> T; typedef Shape::Hypercube<3> H; typedef Shape::Simplex<3> X;
  const c18::PairEntry pairs[] = {{"lag3", "L3:H", &c18::Monitors<DLagrange3, H>::run, false}, {"lag3", "L3:X", &c18::Monitors<DLagrange3, X>::run, false}};
  c18::RegPairs reg(pairs, sizeof(pairs) / sizeof(pairs[0]));
}
