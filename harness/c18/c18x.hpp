// c18x.hpp -- additional C18 families:
//   truncx    : weighted assemble_truncation (+ weight normalisation) == assemble_truncation_direct == dense long-double
//               L2-projection oracle, T P = I, LAFEM::Transfer / Global::Transfer members reachable on one process
//   intermesh : assemble_intermesh_transfer(_direct), transfer_intermesh_vector(_direct) between two meshes of one domain
//   ctrlx     : Control::Asm::asm_transfer_scalar (trunc, shrink) and asm_transfer_blocked against the kernel matrices
//
// Harness-owned truth: mesh geometry re-read into MeshSpec (vertex coordinates + vertices-at-cell), the harness Newton
// inverse of the multilinear cell map (c18::locate_in_cell), harness Gauss-Legendre / collapsed (Duffy) Gauss cubature
// computed here in long double, long-double Gaussian elimination, sparse row copies of the raw CSR arrays.
#pragma once
#include "c18.hpp"
#include <kernel/adjacency/graph.hpp>
#include <kernel/lafem/sparse_matrix_bwrappedcsr.hpp>
#include <kernel/lafem/dense_vector_blocked.hpp>
#ifdef _OPENMP
#include <omp.h>
#endif

namespace c18x
{
  using namespace FEAT;
  using c18::LD; using c18::Ref; using c18::Rows; using c18::MatrixType; using c18::VectorType; using c18::MirrorType;
  using c15::MeshInfo; using c15::MeshOpt; using c15::Monomial;

  // ------------------------------------------------------------------ harness cubature (independent of kernel/cubature)
  // n-point Gauss-Legendre on [-1,1] by Newton on the Legendre recurrence, long double
  inline void gauss_legendre(int n, std::vector<LD>& x, std::vector<LD>& w)
  {
    x.assign(std::size_t(n), 0); w.assign(std::size_t(n), 0);
    const LD pi = 3.14159265358979323846264338327950288L;
    for(int i = 0; i < n; ++i)
    {
      LD t = std::cos(pi * (LD(i) + 0.75L) / (LD(n) + 0.5L)), dp = 1;
      for(int it = 0; it < 100; ++it)
      {
        LD p0 = 1, p1 = t;
        for(int k = 2; k <= n; ++k) { LD p2 = ((2 * k - 1) * t * p1 - (k - 1) * p0) / k; p0 = p1; p1 = p2; }
        if(n == 1) { p0 = 1; p1 = t; }
        dp = n * (t * p1 - p0) / (t * t - 1);
        const LD dt = p1 / dp; t -= dt;
        if(std::fabs(dt) < 1e-19L) break;
      }
      // re-evaluate the derivative at the converged node
      { LD p0 = 1, p1 = t; for(int k = 2; k <= n; ++k) { LD p2 = ((2 * k - 1) * t * p1 - (k - 1) * p0) / k; p0 = p1; p1 = p2; } dp = n * (t * p1 - p0) / (t * t - 1); }
      x[std::size_t(i)] = t; w[std::size_t(i)] = 2 / ((1 - t * t) * dp * dp);
    }
  }

  // reference-cell rule in FEAT's reference coordinates: tensor Gauss on [-1,1]^d; collapsed tensor Gauss on the simplex
  // (exact for total degree p if 2n-1 >= p + d - 1)
  template<typename Shape_>
  struct OracleRule
  {
    typedef Ref<Shape_> R;
    std::vector<std::array<double, 3>> pts; std::vector<LD> w;
    explicit OracleRule(int n)
    {
      std::vector<LD> gx, gw; gauss_legendre(n, gx, gw);
      const int dim = R::dim; int idx[3] = {0, 0, 0};
      int total = 1; for(int k = 0; k < dim; ++k) total *= n;
      for(int q = 0; q < total; ++q)
      {
        int t = q; for(int k = 0; k < dim; ++k) { idx[k] = t % n; t /= n; }
        LD wt = 1; std::array<double, 3> p = {{0, 0, 0}};
        if(!R::simplex) { for(int k = 0; k < dim; ++k) { p[std::size_t(k)] = double(gx[std::size_t(idx[k])]); wt *= gw[std::size_t(idx[k])]; } }
        else
        {
          LD u[3], rem = 1;
          for(int k = 0; k < dim; ++k) { u[k] = (gx[std::size_t(idx[k])] + 1) / 2; wt *= gw[std::size_t(idx[k])] / 2; }
          // x_k = u_k * prod_{l<k} (1 - u_l) ; jacobian = prod_k (1-u_k)^(dim-1-k)
          for(int k = 0; k < dim; ++k) { p[std::size_t(k)] = double(u[k] * rem); for(int e = 0; e < dim - 1 - k; ++e) wt *= (1 - u[k]); rem *= (1 - u[k]); }
        }
        pts.push_back(p); w.push_back(wt);
      }
    }
  };

  // dense long-double solve M X = N (M n x n, N n x m), partial pivoting; returns false if singular
  inline bool ld_solve(int n, int m, std::vector<LD>& M, std::vector<LD>& N)
  {
    for(int k = 0; k < n; ++k)
    {
      int p = k; for(int i = k + 1; i < n; ++i) if(std::fabs(M[std::size_t(i * n + k)]) > std::fabs(M[std::size_t(p * n + k)])) p = i;
      if(M[std::size_t(p * n + k)] == 0) return false;
      if(p != k) { for(int j = 0; j < n; ++j) std::swap(M[std::size_t(p * n + j)], M[std::size_t(k * n + j)]); for(int j = 0; j < m; ++j) std::swap(N[std::size_t(p * m + j)], N[std::size_t(k * m + j)]); }
      for(int i = k + 1; i < n; ++i)
      {
        const LD f = M[std::size_t(i * n + k)] / M[std::size_t(k * n + k)];
        if(f == 0) continue;
        for(int j = k; j < n; ++j) M[std::size_t(i * n + j)] -= f * M[std::size_t(k * n + j)];
        for(int j = 0; j < m; ++j) N[std::size_t(i * m + j)] -= f * N[std::size_t(k * m + j)];
      }
    }
    for(int k = n - 1; k >= 0; --k)
      for(int j = 0; j < m; ++j)
      {
        LD s = N[std::size_t(k * m + j)];
        for(int l = k + 1; l < n; ++l) s -= M[std::size_t(k * n + l)] * N[std::size_t(l * m + j)];
        N[std::size_t(k * m + j)] = s / M[std::size_t(k * n + k)];
      }
    return true;
  }

  // ------------------------------------------------------------------ geometry helpers on MeshSpec
  template<typename Shape_>
  void cell_bbox(const vm::MeshSpec<Shape_>& m, Index cell, double* lo, double* hi)
  {
    for(int k = 0; k < Ref<Shape_>::dim; ++k) { lo[k] = 1e300; hi[k] = -1e300; }
    for(int j = 0; j < Ref<Shape_>::nv; ++j) for(int k = 0; k < Ref<Shape_>::dim; ++k)
    { const double x = m.verts[m.cells[cell][std::size_t(j)]][std::size_t(k)]; lo[k] = std::min(lo[k], x); hi[k] = std::max(hi[k], x); }
  }

  // cell of mesh `big` that contains the image of the reference centre of `cell` of mesh `small` (harness search); ~0 if none/ambiguous
  template<typename Shape_>
  Index locate_centre(const vm::MeshSpec<Shape_>& small, Index cell, const vm::MeshSpec<Shape_>& big, const std::vector<std::array<double, 6>>& bb)
  {
    typedef Ref<Shape_> R; double xc[3] = {0, 0, 0}; for(int k = 0; k < R::dim; ++k) xc[k] = R::centre(k);
    LD x[3] = {0, 0, 0}; c15::map_point(small, cell, xc, x);
    Index found = ~Index(0);
    for(Index K = 0; K < big.num_cells(); ++K)
    {
      bool in = true; for(int k = 0; k < R::dim; ++k) if(double(x[k]) < bb[K][std::size_t(k)] - 1e-9 || double(x[k]) > bb[K][std::size_t(3 + k)] + 1e-9) in = false;
      if(!in) continue;
      double xi[3];
      if(c18::locate_in_cell(big, K, x, xi, -1e-6)) { if(found != ~Index(0)) return ~Index(0); found = K; }   // strictly inside (margin 1e-6)
    }
    return found;
  }
  template<typename Shape_>
  std::vector<std::array<double, 6>> all_bboxes(const vm::MeshSpec<Shape_>& m)
  {
    std::vector<std::array<double, 6>> bb(m.num_cells());
    for(Index K = 0; K < m.num_cells(); ++K) { double lo[3] = {0, 0, 0}, hi[3] = {0, 0, 0}; cell_bbox(m, K, lo, hi); for(int k = 0; k < 3; ++k) { bb[K][std::size_t(k)] = lo[k]; bb[K][std::size_t(3 + k)] = hi[k]; } }
    return bb;
  }

  inline Adjacency::Graph make_graph(const std::vector<std::vector<Index>>& adj, Index num_image)
  {
    Index nnz = 0; for(auto& a : adj) nnz += Index(a.size());
    Adjacency::Graph g(Index(adj.size()), num_image, nnz);
    Index* dp = g.get_domain_ptr(); Index* ii = g.get_image_idx(); Index q = 0;
    for(std::size_t i = 0; i < adj.size(); ++i) { dp[i] = q; for(Index j : adj[i]) ii[q++] = j; }
    dp[adj.size()] = q;
    return g;
  }

  // coefficient vector styles: dense / one nodal basis vector / zero / sparse / supported on the DOFs of one cell
  template<typename CE_>
  std::vector<double> gen_vector(vh::Ctx& c, Index n, const char* prefix, CE_& ce, Index ncells)
  {
    std::vector<double> v(n, 0.0); const int style = int(c.rng.below(20)); const char* nm;
    if(style < 8) { for(auto& x : v) x = c.rng.real(-1.0, 1.0); nm = "dense"; }
    else if(style < 11) { if(n > 0) v[c.rng.below(n)] = c.rng.real(0.5, 1.0); nm = "nodal_basis"; }
    else if(style < 13) { nm = "zero"; }
    else if(style < 16) { for(auto& x : v) if(c.rng.coin(0.2)) x = c.rng.real(-1.0, 1.0); nm = "sparse"; }
    else { ce.prepare(Index(c.rng.below(ncells))); for(int i = 0; i < ce.n; ++i) v[ce.dof[i]] = c.rng.real(-1.0, 1.0); ce.finish(); nm = "one_cell"; }
    if(prefix) c.tag(std::string(prefix) + ":" + nm);
    return v;
  }

  // two-level hierarchy exactly as in c18::Monitors::run (refine first, permute each level afterwards)
  template<typename PairT_, typename Shape_>
  void build_hierarchy(PairT_& p, const vm::MeshSpec<Shape_>& spec0, bool via_node, int pc, int pf)
  {
    typedef typename PairT_::MeshType MeshType;
    p.mesh_c = vm::build(spec0);
    if(via_node)
    {
      Geometry::RootMeshNode<MeshType> node(vm::build(spec0));
      auto fine = node.refine_unique(Geometry::AdaptMode::none);
      p.mesh_f.reset(new MeshType(fine->get_mesh()->clone()));
    }
    else
    {
      Geometry::StandardRefinery<MeshType> refinery(*p.mesh_c);
      p.mesh_f.reset(new MeshType(refinery));
    }
    if(pc) p.mesh_c->create_permutation(c18::perm_strategy(pc));
    if(pf) p.mesh_f->create_permutation(c18::perm_strategy(pf));
    p.make_spaces();
  }

  // A == B entrywise within tol (union of the patterns; a missing entry counts as 0)
  inline bool rows_close(const Rows& a, const Rows& b, double tol, std::string& where)
  {
    if(a.nr != b.nr || a.nc != b.nc) { where = "dims"; return false; }
    for(Index i = 0; i < a.nr; ++i)
    {
      for(auto& e : a.r[i]) { const double o = b.get(i, e.first); if(!(std::fabs(e.second - o) <= tol)) { where = "(" + std::to_string(i) + "," + std::to_string(e.first) + "): " + std::to_string(e.second) + " vs " + std::to_string(o); return false; } }
      for(auto& e : b.r[i]) if(!a.has(i, e.first) && !(std::fabs(e.second) <= tol)) { where = "(" + std::to_string(i) + "," + std::to_string(e.first) + "): missing vs " + std::to_string(e.second); return false; }
    }
    return true;
  }

  // ================================================================================================ truncx
  template<typename D_, typename Shape_>
  struct TruncX
  {
    typedef c18::Pair<D_, Shape_> PairT; typedef c18::Monitors<D_, Shape_> Mon; typedef Ref<Shape_> R; static constexpr int dim = R::dim;
    typedef typename PairT::MeshType MeshType; typedef typename PairT::SpaceType SpaceType; typedef typename PairT::CE CE;

    // dense oracle of the documented operator: per coarse cell K the L2(K)-projection of the fine function onto the local
    // coarse space (M_K^{-1} N_K with exact integrals), averaged over the coarse cells sharing the coarse DOF
    static bool oracle(vh::Ctx& c, PairT& p, std::vector<std::map<Index, LD>>& T, std::vector<int>& count, std::string& why)
    {
      const Index ncc = p.spec_c.num_cells(), nfc = p.spec_f.num_cells(), ncd = p.space_c->get_num_dofs();
      T.assign(ncd, {}); count.assign(ncd, 0);
      auto bb = all_bboxes(p.spec_c);
      std::vector<std::vector<Index>> children(ncc);
      for(Index f = 0; f < nfc; ++f)
      {
        const Index K = locate_centre(p.spec_f, f, p.spec_c, bb);
        if(K == ~Index(0)) { why = "harness could not locate the parent of a fine cell"; return false; }
        children[K].push_back(f);
      }
      const OracleRule<Shape_> rule(SpaceType::local_degree + 2);
      CE cc(*p.space_c), cf(*p.space_f);
      for(Index K = 0; K < ncc; ++K)
      {
        if(children[K].size() != std::size_t((R::simplex && dim == 3) ? 12 : (1 << dim))) { why = "a coarse cell does not have the expected number of children"; return false; }   // FEAT splits a tetrahedron into 12
        cc.prepare(K); const int n = cc.n;
        std::vector<LD> M(std::size_t(n * n), 0);
        std::vector<std::vector<LD>> N(children[K].size());
        std::vector<std::vector<Index>> fdofs(children[K].size()); std::vector<int> nfl(children[K].size());
        for(std::size_t ch = 0; ch < children[K].size(); ++ch)
        {
          const Index f = children[K][ch]; cf.prepare(f); const int m = cf.n; nfl[ch] = m;
          N[ch].assign(std::size_t(n * m), 0); fdofs[ch].assign(cf.dof, cf.dof + m);
          for(std::size_t q = 0; q < rule.pts.size(); ++q)
          {
            cf.eval(rule.pts[q].data());
            LD x[3] = {0, 0, 0}; c15::map_point(p.spec_f, f, rule.pts[q].data(), x);
            double xc[3] = {0, 0, 0};
            if(!c18::locate_in_cell(p.spec_c, K, x, xc, 1e-9)) { why = "harness Newton: cubature point of a child not in its parent"; return false; }
            cc.eval(xc);
            const LD wq = rule.w[q] * LD(cf.td.jac_det);
            for(int i = 0; i < n; ++i)
            {
              const LD a = wq * LD(cc.val(i));
              for(int j = 0; j < n; ++j) M[std::size_t(i * n + j)] += a * LD(cc.val(j));
              for(int j = 0; j < m; ++j) N[ch][std::size_t(i * m + j)] += a * LD(cf.val(j));
            }
          }
        }
        std::vector<Index> cd(cc.dof, cc.dof + n);
        for(std::size_t ch = 0; ch < children[K].size(); ++ch)
        {
          std::vector<LD> Mc = M; const int m = nfl[ch];
          if(!ld_solve(n, m, Mc, N[ch])) { why = "harness local mass matrix singular"; return false; }
          for(int i = 0; i < n; ++i) for(int j = 0; j < m; ++j) T[cd[std::size_t(i)]][fdofs[ch][std::size_t(j)]] += N[ch][std::size_t(i * m + j)];
        }
        for(int i = 0; i < n; ++i) ++count[cd[std::size_t(i)]];
      }
      for(Index i = 0; i < ncd; ++i) { if(count[i] <= 0) { why = "coarse DOF without cell"; return false; } for(auto& e : T[i]) e.second /= LD(count[i]); }
      (void)c;
      return true;
    }

    static void run(vh::Ctx& c)
    {
      c.tag(std::string("space:") + D_::name()); c.tag(std::string("shape:") + vm::ShapeInfo<Shape_>::name());
      MeshOpt opt; opt.max_cells = (c.thorough() ? 320 : 32) / (dim == 3 ? 2 : 1);
      if(CE::maxn > 9) opt.max_cells = std::min<Index>(opt.max_cells, c.thorough() ? 100 : 12);
      MeshInfo info; auto spec0 = c15::gen_mesh<Shape_>(c, opt, info);
      const bool deep = spec0.num_cells() * Index(1 << dim) <= opt.max_cells && c.rng.coin(0.3);
      c.tag(deep ? "levels:1-2" : "levels:0-1");
      const int perm_c = c.rng.coin(0.4) ? int(c.rng.range(1, 7)) : 0, perm_f = c.rng.coin(0.4) ? int(c.rng.range(1, 7)) : 0;
      const bool via_node = c.rng.coin(0.3);
      c.tag(std::string("perm_c:") + c18::perm_name(perm_c)); c.tag(std::string("perm_f:") + c18::perm_name(perm_f));
      c.tag(via_node ? "refine:mesh_node" : "refine:refinery");
      const String cub = Mon::pick_cubature(c, info);
      const std::string op = std::string("truncx.") + D_::name();
      c.set_op(op);
      c.desc = vh::J().raw("mesh", spec0.describe()).kv("space", D_::name()).kv("cubature", std::string(cub)).raw("tags", c.tags_json()).str();
      if(deep)
      {
        auto m0 = vm::build(spec0); Geometry::StandardRefinery<MeshType> refinery(*m0); MeshType m1(refinery);
        auto tags = spec0.tags; auto kind = spec0.kind; spec0 = c18::readback<Shape_>(m1); spec0.tags = tags; spec0.kind = kind + "+refined";
      }
      PairT p; build_hierarchy(p, spec0, via_node, perm_c, perm_f); p.assemble(cub, true);
      const Index nf = p.space_f->get_num_dofs(), ncd = p.space_c->get_num_dofs();
      c.event();
      if(!p.rT.ok || !p.rP.ok) { c.viol(op + ".truncation", "invalid-csr", vh::J().kv("why", p.rT.why + p.rP.why).str()); return; }
      if(p.rT.nr != ncd || p.rT.nc != nf) { c.viol(op + ".truncation", "dims", "{}"); return; }

      // ---- dense oracle
      std::vector<std::map<Index, LD>> To; std::vector<int> count; std::string why;
      if(!oracle(c, p, To, count, why)) { c.inconclusive(why); return; }

      // ---- (t1) weighted route: assemble_truncation + weights (== number of coarse cells at the DOF) + component_invert + scale_rows
      for(int route = 0; route < 2; ++route)
      {
        MatrixType T2 = p.T.clone(LAFEM::CloneMode::Layout); T2.format();
        VectorType w = T2.create_vector_l(); w.format();
        if(route == 0) Assembly::GridTransfer::assemble_truncation(T2, w, *p.space_f, *p.space_c, cub);
        else { Cubature::DynamicFactory fac(cub); Assembly::GridTransfer::assemble_truncation(T2, w, *p.space_f, *p.space_c, fac); }
        c.event();
        for(Index i = 0; i < ncd; ++i) if(w.elements()[i] != double(count[i]))
        { c.viol(op + ".assemble_truncation", "weight-is-not-the-cell-count", vh::J().kv("dof", (unsigned long)i).kv("weight", w.elements()[i]).kv("cells_at_dof", count[i]).str()); return; }
        w.component_invert(w); T2.scale_rows(T2, w);
        Rows r2; r2.decode(T2); std::string where; c.event();
        if(!r2.ok) { c.viol(op + ".assemble_truncation", "invalid-csr", vh::J().kv("why", r2.why).str()); return; }
        if(!Mon::rows_equal(r2, p.rT, where)) { c.viol(op + ".assemble_truncation", "direct-differs-from-weighted", vh::J().kv("where", where).kv("route", route == 0 ? "name" : "factory").str()); return; }
      }

      // ---- (t2) assembled truncation == oracle (entrywise, union of the patterns)
      {
        double tmax = 1.0; for(auto& row : To) for(auto& e : row) tmax = std::max(tmax, std::fabs(double(e.second)));
        const double tol = 1e-9 * tmax; c.event();
        for(Index i = 0; i < ncd; ++i)
        {
          for(auto& e : To[i])
          {
            const double got = p.rT.get(i, e.first);
            if(!(std::fabs(got - double(e.second)) <= tol))
            { c.viol(op + ".truncation", "differs-from-L2-projection-oracle", vh::J().kv("row", (unsigned long)i).kv("col", (unsigned long)e.first).kv("got", got).kv("expected", e.second).kv("in_pattern", p.rT.has(i, e.first)).kv("tol", tol).str()); return; }
          }
          for(auto& e : p.rT.r[i]) if(!To[i].count(e.first) && !(std::fabs(e.second) <= tol))
          { c.viol(op + ".truncation", "differs-from-L2-projection-oracle", vh::J().kv("row", (unsigned long)i).kv("col", (unsigned long)e.first).kv("got", e.second).kv("expected", 0.0).kv("tol", tol).str()); return; }
        }
      }

      // ---- (t3) T P = I
      c.event();
      for(Index j = 0; j < ncd; ++j)
      {
        std::map<Index, LD> row; LD S = 0;
        for(auto& e : p.rT.r[j]) for(auto& g : p.rP.r[e.first]) { const LD t = LD(e.second) * LD(g.second); row[g.first] += t; S += std::fabs(t); }
        row[j] += 0;
        for(auto& kv : row) if(!(std::fabs(double(kv.second - (kv.first == j ? 1.0L : 0.0L))) <= 1e-10 * std::max(1.0, double(S))))
        { c.viol(op + ".truncation", "TP-not-identity", vh::J().kv("row", (unsigned long)j).kv("col", (unsigned long)kv.first).kv("got", kv.second).str()); return; }
      }

      // ---- (t4) LAFEM::Transfer members on hand-built matrices; vector styles on both levels
      MatrixType Rm = p.P.transpose();
      LAFEM::Transfer<MatrixType> transfer(p.P.clone(LAFEM::CloneMode::Deep), Rm.clone(LAFEM::CloneMode::Deep), p.T.clone(LAFEM::CloneMode::Deep));
      CE cec(*p.space_c), cef(*p.space_f);
      const std::vector<double> d = gen_vector(c, nf, "fvec", cef, p.spec_f.num_cells());
      const std::vector<double> v = gen_vector(c, ncd, "cvec", cec, p.spec_c.num_cells());
      std::vector<LD> Td, STd; p.rT.apply(d, Td, &STd);
      VectorType df = Mon::to_feat(d), vc = Mon::to_feat(v), tc(ncd, 0.0);
      {
        const bool ok = transfer.trunc(df, tc); c.event();
        if(!ok) { c.viol(op + ".lafem_transfer.trunc", "returned-false", "{}"); return; }
        for(Index j = 0; j < ncd; ++j) if(!(std::fabs(tc.elements()[j] - double(Td[j])) <= 1e-13 * double(STd[j]) + 1e-300))
        { c.viol(op + ".lafem_transfer.trunc", "wrong-value", vh::J().kv("dof", (unsigned long)j).kv("got", tc.elements()[j]).kv("expected", Td[j]).str()); return; }
        for(Index i = 0; i < nf; ++i) if(df.elements()[i] != d[i]) { c.viol(op + ".lafem_transfer.trunc", "input-modified", vh::J().kv("dof", (unsigned long)i).str()); return; }
        // T d against the oracle matrix as well
        for(Index j = 0; j < ncd; ++j)
        {
          LD s = 0, S = 0; for(auto& e : To[j]) { const LD t = e.second * LD(d[e.first]); s += t; S += std::fabs(t); }
          if(!(std::fabs(tc.elements()[j] - double(s)) <= 1e-9 * std::max(1.0, double(S))))
          { c.viol(op + ".lafem_transfer.trunc", "differs-from-L2-projection-oracle", vh::J().kv("dof", (unsigned long)j).kv("got", tc.elements()[j]).kv("expected", s).str()); return; }
        }
        // left inverse on vectors: trunc(prol(v)) == v
        VectorType pv(nf, 0.0), tv(ncd, 0.0); transfer.prol(pv, vc); transfer.trunc(pv, tv); c.event();
        double vmax = 0; for(double x : v) vmax = std::max(vmax, std::fabs(x));
        for(Index j = 0; j < ncd; ++j)
        {
          LD S = 0; for(auto& e : p.rT.r[j]) S += std::fabs(LD(e.second) * LD(pv.elements()[e.first]));
          if(!(std::fabs(tv.elements()[j] - v[j]) <= 1e-10 * std::max(1.0, std::max(vmax, double(S)))))
          { c.viol(op + ".lafem_transfer.trunc", "trunc-of-prol-is-not-identity", vh::J().kv("dof", (unsigned long)j).kv("got", tv.elements()[j]).kv("expected", v[j]).str()); return; }
        }
        if(transfer.is_ghost()) { c.viol(op + ".lafem_transfer.is_ghost", "true-on-local-transfer", "{}"); return; }
      }

      // ---- (t4b) converted transfers (mixed precision): convert() to <float, unsigned int>, back to the original types
      //      and to the same types; prol / rest / trunc of the copy act like the original's (bitwise for the same-type
      //      and round-trip copies of exactly representable..., within float rounding for the narrowed one)
      {
        typedef LAFEM::SparseMatrixCSR<float, unsigned int> MatF;
        typedef LAFEM::DenseVector<float, unsigned int> VecF;
        LAFEM::Transfer<MatF> tf; tf.convert(transfer);
        LAFEM::Transfer<MatrixType> tsame; tsame.convert(transfer);
        LAFEM::Transfer<MatrixType> tback; tback.convert(tf);
        c.event(3);
        // same-type copy: bitwise equal results for all three members
        {
          VectorType a1(ncd, 0.0), a2(ncd, 0.0), b1(nf, 0.0), b2(nf, 0.0), r1(ncd, 0.0), r2(ncd, 0.0);
          transfer.trunc(df, a1); tsame.trunc(df, a2);
          transfer.prol(b1, vc); tsame.prol(b2, vc);
          transfer.rest(df, r1); tsame.rest(df, r2);
          for(Index j = 0; j < ncd; ++j) if(!Mon::same_bits(a1.elements()[j], a2.elements()[j])) { c.viol(op + ".lafem_transfer.convert.trunc", "differs-from-original", vh::J().kv("dof", (unsigned long)j).kv("got", a2.elements()[j]).kv("expected", a1.elements()[j]).kv("types", "same").str()); return; }
          for(Index i = 0; i < nf; ++i) if(!Mon::same_bits(b1.elements()[i], b2.elements()[i])) { c.viol(op + ".lafem_transfer.convert.prol", "differs-from-original", vh::J().kv("dof", (unsigned long)i).kv("types", "same").str()); return; }
          for(Index j = 0; j < ncd; ++j) if(!Mon::same_bits(r1.elements()[j], r2.elements()[j])) { c.viol(op + ".lafem_transfer.convert.rest", "differs-from-original", vh::J().kv("dof", (unsigned long)j).kv("types", "same").str()); return; }
        }
        // narrowed copy (and the copy converted back from it): within the float rounding bound u_f * sum|terms| * (len+2)
        {
          VecF dff(nf), vcf(ncd); for(Index i = 0; i < nf; ++i) dff(i, float(d[i])); for(Index j = 0; j < ncd; ++j) vcf(j, float(v[j]));
          VecF af(ncd, 0.0f), bf(nf, 0.0f), rf(ncd, 0.0f);
          tf.trunc(dff, af); tf.prol(bf, vcf); tf.rest(dff, rf);
          VectorType ab(ncd, 0.0), bb(nf, 0.0), rb(ncd, 0.0);
          tback.trunc(df, ab); tback.prol(bb, vc); tback.rest(df, rb);
          const LD uf = 5.97e-8L;
          std::vector<LD> Pv, SPv, Rd, SRd; p.rP.apply(v, Pv, &SPv);
          Rd.assign(ncd, 0); SRd.assign(ncd, 0);
          for(Index i = 0; i < nf; ++i) for(auto& e : p.rP.r[i]) { const LD t = LD(e.second) * LD(d[i]); Rd[e.first] += t; SRd[e.first] += std::fabs(t); }
          auto chk = [&](const char* m, Index k, double got, LD ref, LD S, std::size_t len) {
            if(!(std::fabs(LD(got) - ref) <= 8 * uf * LD(len + 4) * S + 1e-30L))
            { c.viol(op + ".lafem_transfer.convert." + m, "differs-from-original", vh::J().kv("dof", (unsigned long)k).kv("got", got).kv("expected", ref).kv("types", "float,u32").str()); return false; }
            return true; };
          for(Index j = 0; j < ncd; ++j) { if(!chk("trunc", j, double(af(j)), Td[j], STd[j], p.rT.r[j].size())) return; if(!chk("trunc", j, ab(j), Td[j], STd[j], p.rT.r[j].size())) return; }
          for(Index i = 0; i < nf; ++i) { if(!chk("prol", i, double(bf(i)), Pv[i], SPv[i], p.rP.r[i].size())) return; if(!chk("prol", i, bb(i), Pv[i], SPv[i], p.rP.r[i].size())) return; }
          for(Index j = 0; j < ncd; ++j) { if(!chk("rest", j, double(rf(j)), Rd[j], SRd[j], std::size_t(nf))) return; if(!chk("rest", j, rb(j), Rd[j], SRd[j], std::size_t(nf))) return; }
        }
      }

      // ---- (t5) Global::Transfer on one rank with a (non-null) default muxer and with a null muxer
      {
        typedef Global::Transfer<LAFEM::Transfer<MatrixType>, MirrorType> GT;
        Global::Gate<VectorType, MirrorType> gate_f, gate_c; Global::Muxer<VectorType, MirrorType> muxer;
        for(int with_muxer = 0; with_muxer < 2; ++with_muxer)
        {
          GT gt(with_muxer ? &muxer : nullptr, transfer.clone(LAFEM::CloneMode::Deep));
          const std::string gop = op + (with_muxer ? ".global_transfer[default_muxer]" : ".global_transfer[null_muxer]");
          c.event(5);
          if(gt.is_ghost()) { c.viol(gop + ".is_ghost", "true-on-single-process", "{}"); return; }
          if(gt.get_vec_temp().size() != ncd) { c.viol(gop + ".get_vec_temp", "wrong-size", vh::J().kv("got", (unsigned long)gt.get_vec_temp().size()).kv("expected", (unsigned long)ncd).str()); return; }   // = create_vector_l of the restriction
          if(gt.bytes() != gt.local().bytes() + gt.get_vec_temp().bytes()) { c.viol(gop + ".bytes", "wrong-value", "{}"); return; }
          Global::Vector<VectorType, MirrorType> gf(&gate_f, nf), gc(&gate_c, ncd), gf2(&gate_f, nf), gc2(&gate_c, ncd), gc3(&gate_c, ncd);
          gf.local().copy(df); gc.local().format(); gc2.local().format(); gc3.local().copy(vc); gf2.local().format();
          const bool o1 = gt.trunc(gf, gc), o2 = gt.rest(gf, gc2), o3 = gt.prol(gf2, gc3);
          if(!o1 || !o2 || !o3) { c.viol(gop, "returned-false", "{}"); return; }
          VectorType rc(ncd, 0.0), pf(nf, 0.0); transfer.rest(df, rc); transfer.prol(pf, vc);
          for(Index j = 0; j < ncd; ++j)
          {
            if(!Mon::same_bits(gc.local().elements()[j], tc.elements()[j])) { c.viol(gop + ".trunc", "differs-from-local", vh::J().kv("dof", (unsigned long)j).str()); return; }
            if(!Mon::same_bits(gc2.local().elements()[j], rc.elements()[j])) { c.viol(gop + ".rest", "differs-from-local", vh::J().kv("dof", (unsigned long)j).str()); return; }
          }
          for(Index i = 0; i < nf; ++i) if(!Mon::same_bits(gf2.local().elements()[i], pf.elements()[i])) { c.viol(gop + ".prol", "differs-from-local", vh::J().kv("dof", (unsigned long)i).str()); return; }
          // compile() re-creates the temporary vector; clone keeps the muxer
          gt.compile(); GT g2 = gt.clone(LAFEM::CloneMode::Deep);
          if(gt.get_vec_temp().size() != ncd || g2.get_vec_temp().size() != ncd || g2._coarse_muxer != gt._coarse_muxer) { c.viol(gop + ".compile_clone", "wrong-state", "{}"); return; }
          Global::Vector<VectorType, MirrorType> gc4(&gate_c, ncd); gc4.local().format(); g2.trunc(gf, gc4);
          for(Index j = 0; j < ncd; ++j) if(!Mon::same_bits(gc4.local().elements()[j], tc.elements()[j])) { c.viol(gop + ".clone.trunc", "differs-from-local", vh::J().kv("dof", (unsigned long)j).str()); return; }
        }
      }

      // ---- (t6) the members that are documented not to be callable on a local transfer / non-ghost process abort
      if(c.k % 6 == 1)
      {
        c.tag("forbidden_members");
        struct Probe { const char* name; std::function<void()> fn; const char* msg; };
        typedef Global::Transfer<LAFEM::Transfer<MatrixType>, MirrorType> GT;
        Global::Gate<VectorType, MirrorType> gate_f; Global::Muxer<VectorType, MirrorType> muxer;
        GT gt(&muxer, transfer.clone(LAFEM::CloneMode::Deep));
        Global::Vector<VectorType, MirrorType> gf(&gate_f, nf); gf.local().copy(df);
        VectorType scratch(nf, 0.0);
        const Probe probes[] = {
          {"lafem_transfer.trunc_send", [&] { transfer.trunc_send(df); }, "must not be called"},
          {"lafem_transfer.rest_send", [&] { transfer.rest_send(df); }, "must not be called"},
          {"lafem_transfer.prol_recv", [&] { transfer.prol_recv(scratch); }, "must not be called"},
          {"lafem_transfer.prol_cancel", [&] { transfer.prol_cancel(); }, "must not be called"},
          {"global_transfer.prol_cancel", [&] { gt.prol_cancel(); }, "must not be called"},
          {"global_transfer.trunc_send", [&] { gt.trunc_send(gf); }, "is_ghost"},
          {"global_transfer.rest_send", [&] { gt.rest_send(gf); }, "is_ghost"},
          {"global_transfer.prol_recv", [&] { gt.prol_recv(gf); }, "is_ghost"}};
        for(const auto& pr : probes)
        {
          vh::ForkResult r = vh::run_forked(pr.fn); c.event();
          if(r.clean() || !r.err_has(pr.msg))
          { c.viol(op + "." + pr.name, "forbidden-member-did-not-abort", vh::J().kv("exited_cleanly", r.clean()).kv("stderr", r.err.substr(0, 300)).str()); return; }
        }
      }
    }
  };

  // ================================================================================================ intermesh
  // mesh pair kinds
  enum { IM_IDENTICAL = 0, IM_REFINED = 1, IM_COARSENED = 2, IM_GRIDS = 3 };

  template<typename DT_, typename DS_, typename Shape_>
  struct InterMesh
  {
    typedef Ref<Shape_> R; static constexpr int dim = R::dim;
    typedef Geometry::ConformalMesh<Shape_, dim, double> MeshType;
    typedef Trafo::Standard::Mapping<MeshType> TrafoType;
    typedef typename DT_::template S<TrafoType> TSpace; typedef typename DS_::template S<TrafoType> SSpace;
    typedef c15::CellEval<TSpace, false, false> TCE; typedef c15::CellEval<SSpace, false, false> SCE;
    static constexpr bool same_space = std::is_same<DT_, DS_>::value;

    static std::vector<double> to_std(const VectorType& v) { return std::vector<double>(v.elements(), v.elements() + v.size()); }
    static VectorType to_feat(const std::vector<double>& v) { VectorType r(Index(v.size())); for(Index i = 0; i < r.size(); ++i) r.elements()[i] = v[i]; return r; }
    static bool same_bits(double a, double b) { return std::memcmp(&a, &b, sizeof(double)) == 0; }

    // a mesh of the unit box
    static vm::MeshSpec<Shape_> unit_mesh(vh::Ctx& c, Index max_cells, bool allow_distort, bool& distorted, Index fix_a = 0, Index fix_b = 0, Index fix_d = 0)
    {
      Index a = 1, b = 1, d = 1;
      for(int tries = 0; tries < 200; ++tries)
      {
        const long hi = dim == 2 ? 9 : 4;
        a = Index(c.rng.range(1, hi)); b = Index(c.rng.range(1, hi)); d = dim == 3 ? Index(c.rng.range(1, hi)) : 1;
        if(c15::Base<Shape_>::per(a, b, d) <= max_cells) break;
        a = b = d = 1;
      }
      if(fix_a) { a = fix_a; b = fix_b; d = fix_d; }
      auto m = c15::Base<Shape_>::grid(a, b, d, c.rng);
      distorted = allow_distort && m.num_verts() > Index(R::nv) && c.rng.coin(0.5);
      if(distorted) vm::distort_interior(m, c.rng, 1.0 / double(std::max(a, std::max(b, d))), 0.15);
      if(c.rng.coin(0.5)) { vm::permute_vertices(m, c.rng); vm::permute_cells(m, c.rng); }
      if(c.rng.coin(0.5)) vm::reorient_cells(m, c.rng);
      return m;
    }
    // does any interior vertex deviate from the cell-wise affine structure? (hypercubes: parallelogram identity)
    static bool affine_cells(const vm::MeshSpec<Shape_>& m)
    {
      if(R::simplex) return true;
      for(const auto& cv : m.cells)
        for(int k1 = 0; k1 < dim; ++k1) for(int k2 = k1 + 1; k2 < dim; ++k2) for(int base = 0; base < R::nv; ++base)
        {
          if(((base >> k1) & 1) || ((base >> k2) & 1)) continue;
          for(int x = 0; x < dim; ++x)
          {
            const double s = m.verts[cv[std::size_t(base)]][std::size_t(x)] - m.verts[cv[std::size_t(base | (1 << k1))]][std::size_t(x)]
              - m.verts[cv[std::size_t(base | (1 << k2))]][std::size_t(x)] + m.verts[cv[std::size_t(base | (1 << k1) | (1 << k2))]][std::size_t(x)];
            if(std::fabs(s) > 1e-13) return false;
          }
        }
      return true;
    }

    static void run(vh::Ctx& c)
    {
#ifdef _OPENMP
      omp_set_num_threads(1);   // the assembly scatters inside an omp critical section in scheduling order: one thread = reproducible sums
#endif
      c.tag(std::string("target:") + DT_::name()); c.tag(std::string("source:") + DS_::name());
      c.tag(std::string("shape:") + vm::ShapeInfo<Shape_>::name());
      const std::string op = std::string("intermesh.") + DT_::name() + (same_space ? std::string() : std::string("<-") + DS_::name());
      const int kmax = std::max(int(TSpace::local_degree), int(SSpace::local_degree));
      Index max_cells = (c.thorough() ? 128 : 24) / (dim == 3 ? 2 : 1);
      if(kmax >= 2) max_cells = std::min<Index>(max_cells, c.thorough() ? 48 : 10);
      static const int kinds[10] = {IM_IDENTICAL, IM_REFINED, IM_REFINED, IM_REFINED, IM_COARSENED, IM_COARSENED, IM_GRIDS, IM_GRIDS, IM_GRIDS, IM_IDENTICAL};
      const int kind = kinds[c.k % 10];
      static const char* kind_name[4] = {"identical", "target_is_refinement_of_source", "source_is_refinement_of_target", "unrelated_grids"};
      c.tag(std::string("pair:") + kind_name[kind]);

      // ---- the two meshes (mesh_s = source, mesh_t = target)
      std::unique_ptr<MeshType> mesh_s, mesh_t;
      bool dist_s = false, dist_t = false;
      if(kind == IM_GRIDS)
      {
        // the source must consist of affine cells: the library's Newton iteration is then exact for EVERY candidate cell
        auto ss = unit_mesh(c, max_cells, R::simplex, dist_s);
        auto st = unit_mesh(c, max_cells, true, dist_t);
        mesh_s = vm::build(ss); mesh_t = vm::build(st);
      }
      else
      {
        auto s0 = unit_mesh(c, kind == IM_IDENTICAL ? max_cells : std::max<Index>(1, max_cells / Index(1 << (dim - 1))), true, dist_s);
        dist_t = dist_s;
        auto base = vm::build(s0);
        if(kind == IM_IDENTICAL) { mesh_s = vm::build(s0); mesh_t = vm::build(s0); }
        else
        {
          Geometry::StandardRefinery<MeshType> refinery(*base);
          std::unique_ptr<MeshType> fine(new MeshType(refinery));
          if(kind == IM_REFINED) { mesh_s = std::move(base); mesh_t = std::move(fine); }
          else { mesh_t = std::move(base); mesh_s = std::move(fine); }
        }
      }
      const int perm_s = c.rng.coin(0.3) ? int(c.rng.range(1, 7)) : 0, perm_t = c.rng.coin(0.3) ? int(c.rng.range(1, 7)) : 0;
      if(perm_s) mesh_s->create_permutation(c18::perm_strategy(perm_s));
      if(perm_t) mesh_t->create_permutation(c18::perm_strategy(perm_t));
      c.tag(std::string("perm_s:") + c18::perm_name(perm_s)); c.tag(std::string("perm_t:") + c18::perm_name(perm_t));
      const auto spec_s = c18::readback<Shape_>(*mesh_s), spec_t = c18::readback<Shape_>(*mesh_t);
      const bool aff_s = affine_cells(spec_s), aff_t = affine_cells(spec_t);
      c.tag(aff_s ? "source_cells:affine" : "source_cells:non_affine"); c.tag(aff_t ? "target_cells:affine" : "target_cells:non_affine");
      const Index nsc = spec_s.num_cells(), ntc = spec_t.num_cells();
      c.tag(ntc == 1 ? "ntarget:1" : ntc <= 8 ? "ntarget:2-8" : ntc <= 64 ? "ntarget:9-64" : "ntarget:65+");
      // open rule (all points inside): Gauss-Legendre on hypercubes, the library's auto-degree rules on simplices.  The clauses
      // below hold for EVERY rule for which the local target mass matrix is regular (see props rule text), so the degree is free
      // above the minimum 2k.
      String cub;
      {
        const int kt = int(TSpace::local_degree);
        if(R::simplex) cub = "auto-degree:" + stringify(std::max(1, 2 * kt + int(c.rng.below(2))));
        else cub = "gauss-legendre:" + stringify(kt + 1 + int(c.rng.below(3)));
      }
      c.set_op(op);
      c.desc = vh::J().kv("source_cells", (unsigned long)nsc).kv("target_cells", (unsigned long)ntc).kv("cubature", std::string(cub)).raw("tags", c.tags_json()).str();

      TrafoType trafo_s(*mesh_s), trafo_t(*mesh_t); SSpace space_s(trafo_s); TSpace space_t(trafo_t);
      const Index ns = space_s.get_num_dofs(), nt = space_t.get_num_dofs();

      // ---- harness target-to-source adjacency (actual numbering of both meshes)
      std::vector<std::vector<Index>> adj(ntc);
      const auto bb_s = all_bboxes(spec_s), bb_t = all_bboxes(spec_t);
      if(kind == IM_IDENTICAL || kind == IM_REFINED)
      {
        for(Index t = 0; t < ntc; ++t) { const Index K = locate_centre(spec_t, t, spec_s, bb_s); if(K == ~Index(0)) { c.inconclusive("harness could not locate a target cell in the source mesh"); return; } adj[t].push_back(K); }
      }
      else if(kind == IM_COARSENED)
      {
        for(Index s = 0; s < nsc; ++s) { const Index K = locate_centre(spec_s, s, spec_t, bb_t); if(K == ~Index(0)) { c.inconclusive("harness could not locate a source cell in the target mesh"); return; } adj[K].push_back(s); }
      }
      else
      {
        // all source cells whose bounding box meets the target cell's bounding box (superset of the intersecting cells)
        for(Index t = 0; t < ntc; ++t) for(Index s = 0; s < nsc; ++s)
        {
          bool meet = true; for(int k = 0; k < dim; ++k) if(bb_s[s][std::size_t(3 + k)] < bb_t[t][std::size_t(k)] - 1e-9 || bb_s[s][std::size_t(k)] > bb_t[t][std::size_t(3 + k)] + 1e-9) meet = false;
          if(meet) adj[t].push_back(s);
        }
      }
      const Adjacency::Graph t2s = make_graph(adj, nsc);

      // ---- matrix layout from the harness' own DOF adjacency; cells per target DOF
      std::vector<std::set<Index>> pat(nt); std::vector<int> count(nt, 0);
      {
        TCE ct(space_t); SCE cs(space_s);
        std::vector<std::vector<Index>> sd(nsc);
        for(Index s = 0; s < nsc; ++s) { cs.prepare(s); sd[s].assign(cs.dof, cs.dof + cs.n); } cs.finish();
        for(Index t = 0; t < ntc; ++t)
        {
          ct.prepare(t);
          for(int i = 0; i < ct.n; ++i) { ++count[ct.dof[i]]; for(Index s : adj[t]) pat[ct.dof[i]].insert(sd[s].begin(), sd[s].end()); }
        }
        ct.finish();
      }
      MatrixType M;
      {
        Index nnz = 0; for(auto& r : pat) nnz += Index(r.size());
        LAFEM::DenseVector<Index, Index> rp(nt + 1), ci(nnz); LAFEM::DenseVector<double, Index> va(nnz, 0.0);
        Index q = 0; for(Index i = 0; i < nt; ++i) { rp.elements()[i] = q; for(Index j : pat[i]) ci.elements()[q++] = j; } rp.elements()[nt] = q;
        M = MatrixType(nt, ns, ci, va, rp);
      }
      // the library's symbolic assembly (source-to-target adjactor in the UNPERMUTED numbering) gives the same layout
      if(!perm_s && !perm_t)
      {
        std::vector<std::vector<Index>> s2t(nsc); for(Index t = 0; t < ntc; ++t) for(Index s : adj[t]) s2t[s].push_back(t);
        const Adjacency::Graph g = make_graph(s2t, ntc);
        MatrixType M2; Assembly::SymbolicAssembler::assemble_matrix_intermesh(M2, space_t, space_s, g);
        Rows a, b; a.decode(M); b.decode(M2); c.event();
        bool same = b.ok && a.nr == b.nr && a.nc == b.nc;
        for(Index i = 0; same && i < a.nr; ++i) { same = a.r[i].size() == b.r[i].size(); for(std::size_t k = 0; same && k < a.r[i].size(); ++k) same = a.r[i][k].first == b.r[i][k].first; }
        if(!same) { c.viol(op + ".assemble_matrix_intermesh", "layout-differs-from-dof-adjacency", vh::J().kv("why", b.why).str()); return; }
      }

      // ---- direct assembly
      int failed = 0;
      try { failed = Assembly::GridTransfer::assemble_intermesh_transfer_direct(M, space_t, space_s, t2s, cub); }
      catch(const Trafo::InverseMappingError& e)
      {
        if(!aff_s && (kind == IM_GRIDS || kind == IM_COARSENED)) { c.inconclusive("Newton failure on a non-affine candidate cell"); return; }
        c.viol(op + ".assemble_intermesh_transfer_direct", "inverse-mapping-error", vh::J().kv("what", e.what()).str()); return;
      }
      c.event();
      if(failed != 0) { c.viol(op + ".assemble_intermesh_transfer_direct", "failed-points", vh::J().kv("returned", failed).str()); return; }
      Rows rM; rM.decode(M);
      if(!rM.ok) { c.viol(op + ".assemble_intermesh_transfer_direct", "invalid-csr", vh::J().kv("why", rM.why).str()); return; }
      for(Index i = 0; i < nt; ++i) for(auto& e : rM.r[i]) if(!std::isfinite(e.second)) { c.viol(op + ".assemble_intermesh_transfer_direct", "non-finite-entry", vh::J().kv("row", (unsigned long)i).kv("col", (unsigned long)e.first).str()); return; }

      // ---- (i2) weighted route == direct, bitwise; weights = number of target cells at the DOF
      {
        MatrixType M2 = M.clone(LAFEM::CloneMode::Layout); M2.format();
        VectorType w = M2.create_vector_l(); w.format();
        const int f2 = Assembly::GridTransfer::assemble_intermesh_transfer(M2, w, space_t, space_s, t2s, cub);
        c.event(2);
        if(f2 != 0) { c.viol(op + ".assemble_intermesh_transfer", "failed-points", vh::J().kv("returned", f2).str()); return; }
        for(Index i = 0; i < nt; ++i) if(w.elements()[i] != double(count[i]))
        { c.viol(op + ".assemble_intermesh_transfer", "weight-is-not-the-cell-count", vh::J().kv("dof", (unsigned long)i).kv("weight", w.elements()[i]).kv("cells_at_dof", count[i]).str()); return; }
        w.component_invert(w); M2.scale_rows(M2, w);
        Rows r2; r2.decode(M2); std::string where;
        if(!c18::Monitors<DT_, Shape_>::rows_equal(r2, rM, where)) { c.viol(op + ".assemble_intermesh_transfer", "direct-differs-from-weighted", vh::J().kv("where", where).str()); return; }
      }

      // ---- (i4) rows sum to 1: the source basis is a partition of unity and every point is weighted with 1/#cells found, so the
      // row sums are the target coefficients of the constant 1 -- all equal to 1 for a nodal (Lagrange / P0) target basis only
      if(DT_::unit_coefficients && DS_::unit_coefficients) c.event();
      for(Index i = 0; DT_::unit_coefficients && DS_::unit_coefficients && i < nt; ++i)
      {
        LD s = 0, S = 0; for(auto& e : rM.r[i]) { s += e.second; S += std::fabs(LD(e.second)); }
        if(!(std::fabs(double(s - 1)) <= 1e-10 * std::max(1.0, double(S))))
        { c.viol(op + ".assemble_intermesh_transfer_direct", "row-sum-not-1", vh::J().kv("row", (unsigned long)i).kv("sum", s).kv("abs_sum", S).str()); return; }
      }

      // ---- (i3) matrix-free transfer == matrix * vector
      SCE ces(space_s);
      const std::vector<double> v = gen_vector(c, ns, "svec", ces, nsc);
      std::vector<LD> Mv, SMv; rM.apply(v, Mv, &SMv);
      std::vector<double> Mvd(nt); for(Index i = 0; i < nt; ++i) Mvd[i] = double(Mv[i]);
      {
        VectorType vs = to_feat(v), f1(nt, 0.0), w1(nt, 0.0);
        const int f3 = Assembly::GridTransfer::transfer_intermesh_vector(f1, w1, vs, space_t, space_s, t2s, cub);
        c.event(2);
        if(f3 != 0) { c.viol(op + ".transfer_intermesh_vector", "failed-points", vh::J().kv("returned", f3).str()); return; }
        for(Index i = 0; i < nt; ++i) if(w1.elements()[i] != double(count[i]))
        { c.viol(op + ".transfer_intermesh_vector", "weight-is-not-the-cell-count", vh::J().kv("dof", (unsigned long)i).kv("weight", w1.elements()[i]).kv("cells_at_dof", count[i]).str()); return; }
        w1.component_invert(w1); f1.component_product(f1, w1);
        for(Index i = 0; i < nt; ++i) if(!(std::fabs(f1.elements()[i] - Mvd[i]) <= 1e-11 * double(SMv[i]) + 1e-13))
        { c.viol(op + ".transfer_intermesh_vector", "differs-from-matrix", vh::J().kv("dof", (unsigned long)i).kv("got", f1.elements()[i]).kv("M_times_v", Mvd[i]).str()); return; }
        for(Index j = 0; j < ns; ++j) if(vs.elements()[j] != v[j]) { c.viol(op + ".transfer_intermesh_vector", "input-modified", vh::J().kv("dof", (unsigned long)j).str()); return; }
        VectorType f2(nt, 0.0);
        const int f4 = Assembly::GridTransfer::transfer_intermesh_vector_direct(f2, vs, space_t, space_s, t2s, cub);
        c.event();
        if(f4 != 0) { c.viol(op + ".transfer_intermesh_vector_direct", "failed-points", vh::J().kv("returned", f4).str()); return; }
        for(Index i = 0; i < nt; ++i) if(!(std::fabs(f2.elements()[i] - Mvd[i]) <= 1e-11 * double(SMv[i]) + 1e-13))
        { c.viol(op + ".transfer_intermesh_vector_direct", "differs-from-matrix", vh::J().kv("dof", (unsigned long)i).kv("got", f2.elements()[i]).kv("M_times_v", Mvd[i]).str()); return; }
      }

      // ---- (i5) polynomials contained in both spaces are reproduced (any pair of meshes of the same domain)
      {
        MeshInfo info; info.axis_parallel = !dist_s && !dist_t; info.affine_cells = aff_s && aff_t;
        auto mt = c15::Monitors<DT_, Shape_>::monomials(info), ms = c15::Monitors<DS_, Shape_>::monomials(info);
        std::vector<std::array<int, 3>> monos; for(auto& e : mt) if(std::find(ms.begin(), ms.end(), e) != ms.end()) monos.push_back(e);
        if(monos.size() > 6) { c.rng.shuffle(monos); monos.resize(6); }
        for(auto& ex : monos)
        {
          Monomial<dim> f; for(int k = 0; k < dim; ++k) { f.e[k] = ex[std::size_t(k)]; f.x0[k] = 0.6; } f.sc = 1.0;
          VectorType us, ut; Assembly::Interpolator::project(us, f, space_s); Assembly::Interpolator::project(ut, f, space_t);
          std::vector<LD> Mu, S; rM.apply(to_std(us), Mu, &S);
          c.event();
          for(Index i = 0; i < nt; ++i) if(!(std::fabs(double(Mu[i]) - ut.elements()[i]) <= 1e-10 * std::max(1.0, double(S[i]))))
          {
            vh::J e('['); for(int k = 0; k < dim; ++k) e.add(f.e[k]);
            c.viol(op + ".assemble_intermesh_transfer_direct", "common-polynomial-not-reproduced", vh::J().raw("exponents", e.str()).kv("target_dof", (unsigned long)i).kv("M_interp_s", Mu[i]).kv("interp_t", ut.elements()[i]).str());
            return;
          }
        }
      }

      // ---- (i6) target space contains the source space cell by cell (identical meshes / target refines source): M v is the SAME function
      if(same_space && DT_::nested && (kind == IM_IDENTICAL || kind == IM_REFINED))
      {
        TCE ct(space_t); SCE cs(space_s);
        for(int t = 0; t < 24; ++t)
        {
          const Index tc = Index(c.rng.below(ntc)); const Index sc = adj[tc][0];
          double xt[3] = {0, 0, 0}; R::random_point(c.rng, xt, 0.9);
          LD x[3]; c15::map_point(spec_t, tc, xt, x);
          double xs[3] = {0, 0, 0};
          if(!c18::locate_in_cell(spec_s, sc, x, xs, 1e-9)) { c.inconclusive("harness could not locate a target point in its source cell"); return; }
          ct.prepare(tc); ct.eval(xt); const LD ut = ct.fe_value(Mvd);
          cs.prepare(sc); cs.eval(xs); const LD us = cs.fe_value(v);
          c.event();
          if(!(std::fabs(double(ut - us)) <= 1e-10))
          { c.viol(op + ".assemble_intermesh_transfer_direct", "transferred-function-differs", vh::J().kv("target_cell", (unsigned long)tc).kv("source_cell", (unsigned long)sc).kv("target_value", ut).kv("source_value", us).str()); return; }
        }
        // same meshes in the same numbering: the identity matrix
        if(kind == IM_IDENTICAL && !perm_s && !perm_t)
        {
          c.event();
          for(Index i = 0; i < nt; ++i) for(auto& e : rM.r[i]) if(!(std::fabs(e.second - (e.first == i ? 1.0 : 0.0)) <= 1e-11))
          { c.viol(op + ".assemble_intermesh_transfer_direct", "identical-meshes-not-identity", vh::J().kv("row", (unsigned long)i).kv("col", (unsigned long)e.first).kv("got", e.second).str()); return; }
        }
      }
      // ---- (i7) target = FEAT refinement of source: the matrix equals the prolongation matrix (documented by the library's own test)
      if(same_space && kind == IM_REFINED)
      {
        MatrixType P; Assembly::SymbolicAssembler::assemble_matrix_2lvl(P, space_t, space_s); P.format();
        const String pcub = R::simplex ? String("auto-degree:" + stringify(std::max(1, 2 * int(TSpace::local_degree)))) : String("gauss-legendre:" + stringify(int(TSpace::local_degree) + 2));
        Assembly::GridTransfer::assemble_prolongation_direct(P, space_t, space_s, pcub);
        Rows rP; rP.decode(P); std::string where; c.event();
        if(DT_::nested && !rows_close(rM, rP, 1e-10, where)) { c.viol(op + ".assemble_intermesh_transfer_direct", "differs-from-prolongation", vh::J().kv("where", where).str()); return; }
      }
      // ---- (i8) source = FEAT refinement of target, nested spaces: the transfer is a left inverse of the prolongation
      if(same_space && DT_::nested && kind == IM_COARSENED)
      {
        MatrixType P; Assembly::SymbolicAssembler::assemble_matrix_2lvl(P, space_s, space_t); P.format();
        const String pcub = R::simplex ? String("auto-degree:" + stringify(std::max(1, 2 * int(TSpace::local_degree)))) : String("gauss-legendre:" + stringify(int(TSpace::local_degree) + 2));
        Assembly::GridTransfer::assemble_prolongation_direct(P, space_s, space_t, pcub);
        Rows rP; rP.decode(P); c.event();
        for(Index j = 0; j < nt; ++j)
        {
          std::map<Index, LD> row; LD S = 0;
          for(auto& e : rM.r[j]) for(auto& g : rP.r[e.first]) { const LD t = LD(e.second) * LD(g.second); row[g.first] += t; S += std::fabs(t); }
          row[j] += 0;
          for(auto& kv : row) if(!(std::fabs(double(kv.second - (kv.first == j ? 1.0L : 0.0L))) <= 1e-10 * std::max(1.0, double(S))))
          { c.viol(op + ".assemble_intermesh_transfer_direct", "not-a-left-inverse-of-prolongation", vh::J().kv("row", (unsigned long)j).kv("col", (unsigned long)kv.first).kv("got", kv.second).str()); return; }
        }
      }
    }
  };

  // ================================================================================================ ctrlx
  template<typename D_, typename Shape_>
  struct CtrlX
  {
    typedef c18::Pair<D_, Shape_> PairT; typedef c18::Monitors<D_, Shape_> Mon; typedef Ref<Shape_> R; static constexpr int dim = R::dim;
    typedef typename PairT::MeshType MeshType; typedef typename PairT::SpaceType SpaceType; typedef typename PairT::CE CE;
    typedef c18::Level<SpaceType> Lvl;
    typedef LAFEM::SparseMatrixBWrappedCSR<double, Index, dim> BMatrix;
    typedef LAFEM::DenseVectorBlocked<double, Index, dim> BVector;

    // expected result of SparseMatrixCSR::shrink(1e-3 * max|a|): the entries with |a| >= eps, in order
    static Rows shrunk(const Rows& a, double& eps)
    {
      double mx = 0; for(auto& r : a.r) for(auto& e : r) mx = std::max(mx, std::fabs(e.second));
      eps = 1e-3 * mx; Rows o; o.nr = a.nr; o.nc = a.nc; o.r.assign(a.nr, {});
      for(Index i = 0; i < a.nr; ++i) for(auto& e : a.r[i]) if(std::fabs(e.second) >= eps) o.r[i].push_back(e);
      return o;
    }

    static bool check_triple(vh::Ctx& c, const std::string& op, const MatrixType& prol, const MatrixType& rest, const MatrixType& trunc, const PairT& p, bool with_trunc, bool shrink)
    {
      Rows cp, cr, ct; cp.decode(prol); cr.decode(rest); std::string where; c.event(3);
      if(!cp.ok || !cr.ok) { c.viol(op + ".prol", "invalid-csr", vh::J().kv("why", cp.why + cr.why).str()); return false; }
      double eps = 0; const Rows eP = shrink ? shrunk(p.rP, eps) : p.rP;
      if(!Mon::rows_equal(cp, eP, where)) { c.viol(op + ".prol", shrink ? "differs-from-shrunk-direct" : "differs-from-direct", vh::J().kv("where", where).kv("drop_below", eps).str()); return false; }
      if(!Mon::is_transpose(cr, cp, where)) { c.viol(op + ".rest", "not-transpose-of-prolongation", vh::J().kv("where", where).str()); return false; }
      if(with_trunc)
      {
        ct.decode(trunc);
        if(!ct.ok) { c.viol(op + ".trunc", "invalid-csr", vh::J().kv("why", ct.why).str()); return false; }
        const Rows eT = shrink ? shrunk(p.rT, eps) : p.rT;
        if(!Mon::rows_equal(ct, eT, where)) { c.viol(op + ".trunc", shrink ? "differs-from-shrunk-direct" : "differs-from-direct", vh::J().kv("where", where).kv("drop_below", eps).str()); return false; }
      }
      else if(trunc.rows() != 0 || trunc.used_elements() != 0) { c.viol(op + ".trunc", "assembled-although-not-requested", "{}"); return false; }
      return true;
    }

    static void run(vh::Ctx& c)
    {
      c.tag(std::string("space:") + D_::name()); c.tag(std::string("shape:") + vm::ShapeInfo<Shape_>::name());
      MeshOpt opt; opt.max_cells = (c.thorough() ? 200 : 24) / (dim == 3 ? 2 : 1);
      if(CE::maxn > 9) opt.max_cells = std::min<Index>(opt.max_cells, c.thorough() ? 64 : 10);
      MeshInfo info; auto spec0 = c15::gen_mesh<Shape_>(c, opt, info);
      const int perm_c = c.rng.coin(0.4) ? int(c.rng.range(1, 7)) : 0, perm_f = c.rng.coin(0.4) ? int(c.rng.range(1, 7)) : 0;
      const bool via_node = c.rng.coin(0.3);
      c.tag(std::string("perm_c:") + c18::perm_name(perm_c)); c.tag(std::string("perm_f:") + c18::perm_name(perm_f));
      const bool with_trunc = D_::nested ? c.rng.coin(0.7) : false, shrink = c.rng.coin(0.6);
      c.tag(with_trunc ? "trunc:on" : "trunc:off"); c.tag(shrink ? "shrink:on" : "shrink:off");
      const String cub = Mon::pick_cubature(c, info);
      const std::string op = std::string("ctrlx.") + D_::name();
      c.set_op(op);
      c.desc = vh::J().raw("mesh", spec0.describe()).kv("space", D_::name()).kv("cubature", std::string(cub)).raw("tags", c.tags_json()).str();
      PairT p; build_hierarchy(p, spec0, via_node, perm_c, perm_f); p.assemble(cub, D_::nested);
      const Index nf = p.space_f->get_num_dofs(), ncd = p.space_c->get_num_dofs();
      if(!p.rP.ok || (D_::nested && !p.rT.ok)) { c.viol(op, "invalid-csr", "{}"); return; }

      Control::Domain::VirtualLevel<Lvl> vf(std::make_shared<Lvl>(Lvl{p.space_f.get()}), std::shared_ptr<Control::Domain::DomainLayer>());
      Control::Domain::VirtualLevel<Lvl> vc(std::make_shared<Lvl>(Lvl{p.space_c.get()}), std::shared_ptr<Control::Domain::DomainLayer>());
      auto lambda = [](const Lvl& l) { return l.space; };

      // ---- scalar
      LAFEM::Transfer<MatrixType> ts;
      {
        Global::Gate<VectorType, MirrorType> gate_f, gate_c; Global::Muxer<VectorType, MirrorType> muxer;
        Control::Asm::asm_transfer_scalar(vf, vc, cub, with_trunc, shrink, lambda, ts, muxer, gate_f, gate_c);
        if(!check_triple(c, op + ".asm_transfer_scalar", ts.get_mat_prol(), ts.get_mat_rest(), ts.get_mat_trunc(), p, with_trunc, shrink)) return;
        // a second call on the filled transfer object (structure present) gives the same matrices when nothing was dropped
        if(!shrink)
        {
          Control::Asm::asm_transfer_scalar(vf, vc, cub, with_trunc, false, lambda, ts, muxer, gate_f, gate_c);
          if(!check_triple(c, op + ".asm_transfer_scalar[reassembly]", ts.get_mat_prol(), ts.get_mat_rest(), ts.get_mat_trunc(), p, with_trunc, false)) return;
        }
      }
      // ---- blocked
      LAFEM::Transfer<BMatrix> tb;
      {
        Global::Gate<BVector, MirrorType> gate_f, gate_c; Global::Muxer<BVector, MirrorType> muxer;
        Control::Asm::asm_transfer_blocked(vf, vc, cub, with_trunc, shrink, lambda, tb, muxer, gate_f, gate_c);
        if(!check_triple(c, op + ".asm_transfer_blocked", tb.get_mat_prol().unwrap(), tb.get_mat_rest().unwrap(), tb.get_mat_trunc().unwrap(), p, with_trunc, shrink)) return;
      }

      // ---- the shrunk prolongation still reproduces the coarse function up to the dropped entries; blocked apply = scalar apply per component
      CE cec(*p.space_c), cef(*p.space_f);
      Rows sp; sp.decode(ts.get_mat_prol());
      std::vector<std::vector<double>> vcomp, dcomp; vcomp.resize(std::size_t(dim)); dcomp.resize(std::size_t(dim));
      for(int k = 0; k < dim; ++k) { vcomp[std::size_t(k)] = gen_vector(c, ncd, k == 0 ? "cvec" : nullptr, cec, p.spec_c.num_cells()); dcomp[std::size_t(k)] = gen_vector(c, nf, k == 0 ? "fvec" : nullptr, cef, p.spec_f.num_cells()); }
      if(D_::nested)
      {
        // bound: | (P_shrunk v)_i - (P v)_i | <= sum over dropped entries |a_ij| |v_j|
        const std::vector<double>& v = vcomp[0];
        std::vector<LD> Pv, Sv; p.rP.apply(v, Pv, &Sv); std::vector<LD> Qv; sp.apply(v, Qv);
        c.event();
        for(Index i = 0; i < nf; ++i)
        {
          LD dropped = 0; for(auto& e : p.rP.r[i]) if(!sp.has(i, e.first)) dropped += std::fabs(LD(e.second) * LD(v[e.first]));
          if(!(std::fabs(double(Qv[i] - Pv[i])) <= double(dropped) * (1 + 1e-9) + 1e-17 * double(Sv[i]) + 1e-300))   // 1e-17 S: long-double summation rounding
          { c.viol(op + ".asm_transfer_scalar.prol", "shrunk-matrix-off-by-more-than-dropped-entries", vh::J().kv("dof", (unsigned long)i).kv("shrunk", Qv[i]).kv("full", Pv[i]).kv("dropped_mass", dropped).str()); return; }
        }
        std::vector<double> Qd(nf); for(Index i = 0; i < nf; ++i) Qd[i] = double(Qv[i]);
        // with the drop threshold 1e-3 max|P| only rounding noise is dropped for these spaces: the function is reproduced
        double dm = 0; for(Index i = 0; i < nf; ++i) for(auto& e : p.rP.r[i]) if(!sp.has(i, e.first)) dm = std::max(dm, std::fabs(e.second));
        if(dm <= 1e-12) { Mon::compare_functions(c, p, v, Qd, op + ".asm_transfer_scalar.prol", "prolongated-function-differs", 1e-10, 12); if(c.nviol) return; }
        else c.tag("dropped_significant_entries");
      }
      {
        BVector bc(ncd), bf(nf), bf_in(nf), bc_r(ncd), bc_t(ncd);
        for(Index j = 0; j < ncd; ++j) for(int k = 0; k < dim; ++k) bc.elements()[j][k] = vcomp[std::size_t(k)][j];
        for(Index i = 0; i < nf; ++i) for(int k = 0; k < dim; ++k) bf_in.elements()[i][k] = dcomp[std::size_t(k)][i];
        bf.format(); bc_r.format(); bc_t.format();
        tb.prol(bf, bc); tb.rest(bf_in, bc_r); if(with_trunc) tb.trunc(bf_in, bc_t);
        c.event(with_trunc ? 3 : 2);
        for(int k = 0; k < dim; ++k)
        {
          VectorType sc = Mon::to_feat(vcomp[std::size_t(k)]), sd = Mon::to_feat(dcomp[std::size_t(k)]), sf(nf, 0.0), sr(ncd, 0.0), st(ncd, 0.0);
          ts.prol(sf, sc); ts.rest(sd, sr); if(with_trunc) ts.trunc(sd, st);
          // scalar apply against the long-double product with the decoded control-layer matrix
          std::vector<LD> Qv, SQ; sp.apply(vcomp[std::size_t(k)], Qv, &SQ);
          for(Index i = 0; i < nf; ++i)
          {
            if(!(std::fabs(sf.elements()[i] - double(Qv[i])) <= 1e-13 * double(SQ[i]) + 1e-300)) { c.viol(op + ".asm_transfer_scalar.prol", "apply-wrong-value", vh::J().kv("dof", (unsigned long)i).kv("got", sf.elements()[i]).kv("expected", Qv[i]).str()); return; }
            if(!(std::fabs(bf.elements()[i][k] - sf.elements()[i]) <= 1e-13 * double(SQ[i]) + 1e-300)) { c.viol(op + ".asm_transfer_blocked.prol", "component-differs-from-scalar", vh::J().kv("dof", (unsigned long)i).kv("component", k).kv("blocked", bf.elements()[i][k]).kv("scalar", sf.elements()[i]).str()); return; }
          }
          for(Index j = 0; j < ncd; ++j)
          {
            const double tolr = 1e-12 * (1.0 + std::fabs(sr.elements()[j]));
            if(!(std::fabs(bc_r.elements()[j][k] - sr.elements()[j]) <= tolr)) { c.viol(op + ".asm_transfer_blocked.rest", "component-differs-from-scalar", vh::J().kv("dof", (unsigned long)j).kv("component", k).kv("blocked", bc_r.elements()[j][k]).kv("scalar", sr.elements()[j]).str()); return; }
            if(with_trunc && !(std::fabs(bc_t.elements()[j][k] - st.elements()[j]) <= 1e-12 * (1.0 + std::fabs(st.elements()[j])))) { c.viol(op + ".asm_transfer_blocked.trunc", "component-differs-from-scalar", vh::J().kv("dof", (unsigned long)j).kv("component", k).kv("blocked", bc_t.elements()[j][k]).kv("scalar", st.elements()[j]).str()); return; }
          }
        }
      }
    }
  };
} // namespace c18x
