// C18 (extension) -- Lagrange-1 : truncx / intermesh / ctrlx ; family entry points
#include "c18x_desc.hpp"
using namespace c18x;
namespace
{
  const c18::PairEntry pairs[] = {
    {"truncx", "L1:Q", &TruncX<DLagrange1, Q>::run, true}, {"truncx", "L1:T", &TruncX<DLagrange1, T>::run, true},
    {"truncx", "L1:H", &TruncX<DLagrange1, H>::run, true}, {"truncx", "L1:X", &TruncX<DLagrange1, X>::run, true},
    {"intermesh", "L1:Q", &InterMesh<DLagrange1, DLagrange1, Q>::run, true}, {"intermesh", "L1:T", &InterMesh<DLagrange1, DLagrange1, T>::run, true},
    {"intermesh", "L1:H", &InterMesh<DLagrange1, DLagrange1, H>::run, true}, {"intermesh", "L1:X", &InterMesh<DLagrange1, DLagrange1, X>::run, true},
    {"ctrlx", "L1:Q", &CtrlX<DLagrange1, Q>::run, true}, {"ctrlx", "L1:T", &CtrlX<DLagrange1, T>::run, true},
    {"ctrlx", "L1:H", &CtrlX<DLagrange1, H>::run, true}, {"ctrlx", "L1:X", &CtrlX<DLagrange1, X>::run, true}};
  c18::RegPairs reg(pairs, sizeof(pairs) / sizeof(pairs[0]));
}
VH_FAMILY(truncx) { c18::run_registered(c, "truncx"); }
VH_FAMILY(intermesh) { c18::run_registered(c, "intermesh"); }
VH_FAMILY(ctrlx) { c18::run_registered(c, "ctrlx"); }
int main(int argc, char** argv) { FEAT::Runtime::ScopeGuard guard(argc, argv); return vh::main_impl(argc, argv); }
