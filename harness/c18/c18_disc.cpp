// C18 -- discontinuous P0 / P1 (nested), Bernstein-2 (nested), Crouzeix-Raviart / Rannacher-Turek (NOT nested: only the
// clauses that do not need nestedness are judged: R = P^T, matrix-free = matrix, transfer objects, permuted meshes)
#include "c18.hpp"
#include <kernel/space/discontinuous/element.hpp>
#include <kernel/space/cro_rav_ran_tur/element.hpp>
#include <kernel/space/bernstein2/element.hpp>
using namespace c18;
namespace
{
  struct DDisc0 : c18::DescBase
  {
    template<typename T_> using S = Space::Discontinuous::Element<T_, Space::Discontinuous::Variant::StdPolyP<0>>;
    static const char* name() { return "Discontinuous0"; }
    static constexpr int pdeg = 0;
  };
  struct DDisc1 : c18::DescBase
  {
    template<typename T_> using S = Space::Discontinuous::Element<T_, Space::Discontinuous::Variant::StdPolyP<1>>;
    static const char* name() { return "Discontinuous1"; }
    static constexpr int pdeg = 1;
  };
  struct DBernstein2 : c18::DescBase
  {
    template<typename T_> using S = Space::Bernstein2::Element<T_>;
    static const char* name() { return "Bernstein2"; }
    static constexpr int pdeg = 2, qdeg = 2;
  };
  struct DCRRT : c18::DescBase
  {
    template<typename T_> using S = Space::CroRavRanTur::Element<T_>;
    static const char* name() { return "CroRavRanTur"; }
    static constexpr int pdeg = 1;
    static constexpr bool nested = false;
  };
  typedef Shape::Hypercube<2> Q; typedef Shape::Simplex<2> T; typedef Shape::Hypercube<3> H; typedef Shape::Simplex<3> X;
  const c18::PairEntry pairs[] = {
    {&c18::Monitors<DDisc0, Q>::run, true}, {&c18::Monitors<DDisc0, T>::run, true}, {&c18::Monitors<DDisc0, H>::run, true}, {&c18::Monitors<DDisc0, X>::run, true},
    {&c18::Monitors<DDisc1, Q>::run, true}, {&c18::Monitors<DDisc1, T>::run, true}, {&c18::Monitors<DDisc1, H>::run, true}, {&c18::Monitors<DDisc1, X>::run, true},
    {&c18::Monitors<DBernstein2, Q>::run, true}, {&c18::Monitors<DBernstein2, H>::run, false},
    {&c18::Monitors<DCRRT, Q>::run, true}, {&c18::Monitors<DCRRT, T>::run, true}, {&c18::Monitors<DCRRT, H>::run, true}, {&c18::Monitors<DCRRT, X>::run, true}};
}
VH_FAMILY(disc) { c18::run_pair(c, pairs, sizeof(pairs) / sizeof(pairs[0])); }
