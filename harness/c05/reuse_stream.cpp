// C05 -- OBJECT STATES of the transports: ONE FEAT::BinaryStream resp. ONE std::stringstream object carries a sequence of
// 2-6 round trips of containers of mixed kinds.  Between the round trips the stream is cleared, appended to, overwritten
// from the start, refilled through read_stream / DistFileIO::read_common, copied out through write_stream, or read a
// second time; the position it was left at varies (start / middle / end).  Every later round trip must be as exact as
// the first: bitwise snapshot comparator for the binary modes, printed-precision comparator for the text modes
// (stringstream only).  Differential monitor 'stream-content': the bytes a used BinaryStream holds for a write_out call
// equal the bytes the same call puts into a fresh std::stringstream (libstdc++ transport, not under test).
// The read target is a fresh object, the (FileMode, stream) constructor or ONE persistent object per container type that
// still holds what an earlier round (other size, other content) left in it.
#include <c05/c05.hpp>
#include <kernel/util/dist_file_io.hpp>
#include <kernel/lafem/sparse_matrix_banded.hpp>
#include <kernel/lafem/sparse_matrix_cscr.hpp>
#include <kernel/lafem/dense_matrix.hpp>
#include <memory>
#include <set>
#include <map>
#include <functional>
using namespace c05;

namespace
{
  struct Item
  {
    std::string kind, shape; std::vector<ModeDesc> bin, text; Snap orig; Logical truth;
    std::function<void(std::ostream&, const ModeDesc&)> write;
    std::function<void(const String&, const ModeDesc&)> write_file;
    std::function<Snap(std::istream&, const ModeDesc&, int, Logical*)> read;   // target 0 fresh, 1 persistent object, 2 constructor
    std::function<Snap()> source_now;
    std::function<bool(Rep&, const std::string&, const Logical&, int)> judge_text;
  };
  typedef std::map<std::string, std::shared_ptr<void>> Pool;

  template<typename C>
  std::shared_ptr<Item> mk_item(const std::string& kind, const std::string& shape, C&& a_, std::vector<ModeDesc> bin, std::vector<ModeDesc> text, const Logical& truth, Pool& pool)
  {
    typedef typename C::DataType DT;
    auto a = std::make_shared<C>(std::move(a_));
    std::shared_ptr<void>& slot = pool[kind];
    if(!slot) slot = std::make_shared<C>();
    std::shared_ptr<C> tgt = std::static_pointer_cast<C>(slot);
    auto it = std::make_shared<Item>();
    it->kind = kind; it->shape = shape; it->bin = bin; it->text = text; it->truth = truth; it->orig = snap(*a);
    it->write = [a](std::ostream& s, const ModeDesc& m) { do_write(*a, m.mode, s, m.sym); };
    it->write_file = [a](const String& f, const ModeDesc& m) { do_write_file(*a, m.mode, f, m.sym); };
    it->read = [tgt](std::istream& s, const ModeDesc& m, int target, Logical* lg) {
      if(target == 2) { C b(m.mode, s); if(lg) *lg = logical(b); return snap(b); }
      if(target == 0) { C b; b.read_from(m.mode, s); if(lg) *lg = logical(b); return snap(b); }
      tgt->read_from(m.mode, s); if(lg) *lg = logical(*tgt); return snap(*tgt);
    };
    it->source_now = [a] { return snap(*a); };
    it->judge_text = [truth](Rep& rep, const std::string& op, const Logical& got, int digits) { return cmp_text<DT>(rep, op, truth, got, digits); };
    return it;
  }

  const ModeDesc M_BIN = {FileMode::fm_binary, "binary", false, false};
  template<typename DT, typename IT>
  std::shared_ptr<Item> gen_item(vh::Ctx& c, int kind, Pool& pool)
  {
    const std::string ty = std::is_same<DT, double>::value ? "<double,u64>" : "<float,u32>";
    const Index maxd = c.thorough() ? 120 : 24;
    vl::GenOpt o; o.max_dim = maxd; o.allow_dim0 = false; o.allow_entry_free = false;
    auto spec = [&](Index md) { vl::GenOpt q = o; q.max_dim = md; vl::MatSpec m = vl::gen_matrix(c.rng, q); if(m.t.empty()) { m.t.push_back({0, 0, 1.5}); } return m; };
    auto shape_of = [](const vl::MatSpec& m) { return std::to_string(m.rows) + "x" + std::to_string(m.cols) + " nnz " + std::to_string(m.t.size()); };
    Logical none; none.ok = false;
    switch(kind)
    {
    case 0: { const Index n = 1 + vl::gen_dim(c.rng, maxd * 2, false); auto v = vl::gen_vec(c.rng, n, int(c.rng.below(4)));
        Logical t; t.rows = n; for(Index i = 0; i < n; ++i) t.add(i, double(DT(v[i])));
        return mk_item("dv" + ty, "size " + std::to_string(n), mk_dv<DT, IT>(v), {{FileMode::fm_dv, "dv", false, false}, M_BIN}, {{FileMode::fm_exp, "exp", true, false}, {FileMode::fm_mtx, "mtx", true, false}}, t, pool); }
    case 1: { const Index n = 1 + vl::gen_dim(c.rng, maxd, false); auto v = vl::gen_vec(c.rng, n * 2, int(c.rng.below(4)));
        Logical t; t.rows = v.size(); for(Index i = 0; i < Index(v.size()); ++i) t.add(i, double(DT(v[i])));
        return mk_item("dvb2" + ty, "blocks " + std::to_string(n), mk_dvb<DT, IT, 2>(v), {{FileMode::fm_dvb, "dvb", false, false}, M_BIN}, {{FileMode::fm_exp, "exp", true, false}, {FileMode::fm_mtx, "mtx", true, false}}, t, pool); }
    case 2: { const Index n = 1 + vl::gen_dim(c.rng, maxd * 2, false); SVSpec s = gen_sv(c.rng, n, 1); if(s.idx.empty()) { s.idx.push_back(Index(c.rng.below(n))); s.val.push_back(2.5); }
        Logical t; t.rows = n; for(std::size_t i = 0; i < s.idx.size(); ++i) t.add(s.idx[i], double(DT(s.val[i])));
        return mk_item("sv" + ty, "size " + std::to_string(n) + " used " + std::to_string(s.idx.size()), mk_sv<DT, IT>(s, vh::Rng(c.rng.next())), {{FileMode::fm_sv, "sv", false, false}, M_BIN}, {{FileMode::fm_mtx, "mtx", true, false}}, t, pool); }
    case 3: { vl::MatSpec m = spec(maxd);
        return mk_item("csr" + ty, shape_of(m), vl::make_csr<DT, IT>(m), {{FileMode::fm_csr, "csr", false, false}, M_BIN}, {{FileMode::fm_mtx, "mtx", true, false}}, logical_of_spec<DT>(m), pool); }
    case 4: { vl::MatSpec m = spec(maxd);
        return mk_item("cscr" + ty, shape_of(m), vl::make_cscr<DT, IT>(m), {{FileMode::fm_cscr, "cscr", false, false}, M_BIN}, {}, none, pool); }
    case 5: { vl::MatSpec m = spec(maxd / 2);
        return mk_item("dm" + ty, std::to_string(m.rows) + "x" + std::to_string(m.cols), vl::make_dense<DT, IT>(m), {{FileMode::fm_dm, "dm", false, false}, M_BIN}, {}, none, pool); }
    case 6: { vl::MatSpec m = spec(maxd);
        return mk_item("banded" + ty, std::to_string(m.rows) + "x" + std::to_string(m.cols), vl::make_banded<DT, IT>(c.rng, m), {{FileMode::fm_bm, "bm", false, false}, M_BIN}, {}, none, pool); }
    default: { vl::MatSpec bm = spec(maxd / 3 + 2), sm;
        return mk_item("bcsr2x3" + ty, "blocks " + shape_of(bm), vl::make_bcsr<DT, IT, 2, 3>(c.rng, bm, sm), {{FileMode::fm_bcsr, "bcsr", false, false}, M_BIN}, {}, none, pool); }
    }
  }
  const int n_kinds = 8;

  std::string bytes_of(const Item& it, const ModeDesc& m)
  { std::stringstream ref(std::ios::in | std::ios::out | std::ios::binary); it.write(ref, m); return ref.str(); }

  struct Round { std::shared_ptr<Item> it; ModeDesc md; int action; int target; int pre; bool seek; };
  const char* tgt_name(int t) { return t == 0 ? "target:fresh" : t == 1 ? "target:persistent" : "target:ctor"; }
  const char* pre_name(int p) { return p == 0 ? "pos:as_left" : p == 1 ? "pos:start" : "pos:middle"; }

  // judges one read-back
  void judge(Rep& rep, const std::string& op, const Round& r, const Snap& got, const Logical& lg, const std::string& text)
  {
    if(r.md.text) r.it->judge_text(rep, op, lg, printed_digits(text));
    else same_bits(rep, op, r.it->orig, got);
    NoRep quiet;
    if(!same_bits(quiet, op, r.it->orig, r.it->source_now())) rep.viol(op, "input-modified", "{}");
  }
  bool content_check(Rep& rep, const std::string& op, const char* data, std::streamsize have, std::size_t off, const std::string& ref, bool exact_end)
  {
    const bool fits = have >= 0 && std::size_t(have) >= off + ref.size() && (!exact_end || std::size_t(have) == off + ref.size());
    std::size_t at = 0; bool same = fits;
    if(fits) for(; at < ref.size(); ++at) if(data[off + at] != ref[at]) { same = false; break; }
    if(!same) rep.viol(op, "stream-content", vh::J().kv("stream_bytes", (unsigned long)have).kv("offset_of_object", (unsigned long)off).kv("expected_object_bytes", (unsigned long)ref.size())
      .kv("first_difference_at", (unsigned long)at).kv("must_end_with_object", int(exact_end)).str());
    return same;
  }
  struct ContentWrong {};   // the stream does not hold what was written: reading it back is pointless (and crashes)
}

// ------------------------------------------------------------------------------------------------ BinaryStream
// actions: 0 fresh stream (first round), 1 clear, 2 append, 3 overwrite from start, 4 read_stream, 5 read_common,
//          6 clear + write_stream to another (used) stringstream, 7 read the previous object again
static const char* bs_action[] = {"action:first_use", "action:clear", "action:append", "action:overwrite_from_start", "action:read_stream", "action:read_common", "action:clear_write_stream", "action:read_again"};

static void run_binarystream(vh::Ctx& c, const std::vector<Round>& rounds, const std::vector<std::string>& base)
{
  const std::string op = "reuse.binarystream";
  FEAT::BinaryStream bs;
  std::stringstream side(std::ios::in | std::ios::out | std::ios::binary);   // the (also re-used) target of write_stream
  std::size_t last_off = 0;
  tmpdir();
  for(std::size_t q = 0; q < rounds.size(); ++q)
  {
    const Round& r = rounds[q];
    c.tags = vg::with(base, {bs_action[r.action], q == 0 ? "round:first" : "round:later", std::string("mode:") + r.md.name, tgt_name(r.target), pre_name(r.pre), "kind:" + r.it->kind.substr(0, r.it->kind.find('<'))});
    if(r.action == 4 || r.action == 5) c.tags.push_back(r.seek ? "seek:g0" : "seek:none");
    c.set_op(op); c.event();
    Rep rep{c, false, int(q)};
    try
    {
      // the position the previous use left behind / somewhere else
      if(q > 0 && bs.size() > 0)
      {
        if(r.pre == 1) bs.seekg(0);
        else if(r.pre == 2) bs.seekg(std::streamoff(bs.size() / 2));
      }
      const std::string ref = r.action == 7 ? std::string() : bytes_of(*r.it, r.md);
      Snap got; Logical lg; std::size_t off = 0;
      switch(r.action)
      {
      case 0: case 1:
        if(r.action == 1) bs.clear();
        in_phase("write_out", [&] { r.it->write(bs, r.md); });
        if(!content_check(rep, op, bs.data(), bs.size(), 0, ref, true)) throw ContentWrong();
        bs.seekg(0);
        got = r.it->read(bs, r.md, r.target, &lg);
        break;
      case 2:
        bs.seekp(0, std::ios_base::end);
        off = std::size_t(bs.size());
        in_phase("write_out", [&] { r.it->write(bs, r.md); });
        if(!content_check(rep, op, bs.data(), bs.size(), off, ref, true)) throw ContentWrong();
        bs.seekg(std::streamoff(off));
        got = r.it->read(bs, r.md, r.target, &lg);
        break;
      case 3:
        bs.seekp(0);
        in_phase("write_out", [&] { r.it->write(bs, r.md); });
        if(!content_check(rep, op, bs.data(), bs.size(), 0, ref, false)) throw ContentWrong();
        bs.seekg(0);
        got = r.it->read(bs, r.md, r.target, &lg);
        break;
      case 4:
        {
          std::stringstream src(std::ios::in | std::ios::out | std::ios::binary);
          in_phase("write_out", [&] { r.it->write(src, r.md); });
          bs.read_stream(src);
          if(!content_check(rep, op, bs.data(), bs.size(), 0, ref, true)) throw ContentWrong();
          if(r.seek) bs.seekg(0);
          got = r.it->read(bs, r.md, r.target, &lg);
        }
        break;
      case 5:
        {
          const std::string path = tmpdir() + "/k" + std::to_string((unsigned long long)c.k) + "_reuse_" + std::to_string(q) + ".dat";
          in_phase("write_out", [&] { r.it->write_file(String(path), r.md); });
          FEAT::DistFileIO::read_common(bs, String(path));
          ::unlink(path.c_str());
          if(!content_check(rep, op, bs.data(), bs.size(), 0, ref, true)) throw ContentWrong();
          if(r.seek) bs.seekg(0);
          got = r.it->read(bs, r.md, r.target, &lg);
        }
        break;
      case 6:
        {
          bs.clear();
          in_phase("write_out", [&] { r.it->write(bs, r.md); });
          if(!content_check(rep, op, bs.data(), bs.size(), 0, ref, true)) throw ContentWrong();
          side.clear(); side.seekp(0, std::ios_base::end);
          const std::streamoff soff = std::streamoff(side.tellp());
          bs.write_stream(side);
          side.seekg(soff);
          Logical lg2;
          const Snap got2 = r.it->read(side, r.md, 0, &lg2);
          if(!same_bits(rep, op, r.it->orig, got2)) rep.viol(op, "write_stream-copy-differs", vh::J().kv("offset_in_target_stream", (unsigned long)soff).str());
          bs.seekg(0);
          got = r.it->read(bs, r.md, r.target, &lg);
        }
        break;
      default:
        bs.seekg(std::streamoff(last_off));
        got = r.it->read(bs, r.md, r.target, &lg);
        off = last_off;
        break;
      }
      last_off = off;
      judge(rep, op, r, got, lg, std::string());
      if(!bs.good()) rep.viol(op, "stream-state", vh::J().kv("eof", int(bs.eof())).kv("fail", int(bs.fail())).kv("bad", int(bs.bad())).str());
    }
    catch(ContentWrong&) { break; }
    catch(std::exception& e) { c.viol(op, "exception", vh::J().kv("what", e.what()).kv("round", (unsigned long)q).str()); break; }
  }
}

// ------------------------------------------------------------------------------------------------ std::stringstream
// actions: 0 first use, 1 reset (clear flags + str("")), 2 append, 3 overwrite from start (binary only), 7 read again
static const char* ss_action[] = {"action:first_use", "action:reset", "action:append", "action:overwrite_from_start", "", "", "", "action:read_again"};

static void run_stringstream(vh::Ctx& c, const std::vector<Round>& rounds, const std::vector<std::string>& base)
{
  const std::string op = "reuse.stringstream";
  std::stringstream ss(std::ios::in | std::ios::out | std::ios::binary);
  std::streamoff last_off = 0; std::string last_text;
  for(std::size_t q = 0; q < rounds.size(); ++q)
  {
    const Round& r = rounds[q];
    c.tags = vg::with(base, {ss_action[r.action], q == 0 ? "round:first" : "round:later", std::string("mode:") + r.md.name, tgt_name(r.target), "kind:" + r.it->kind.substr(0, r.it->kind.find('<'))});
    c.set_op(op); c.event();
    Rep rep{c, false, int(q)};
    try
    {
      ss.clear();   // the flags a reader that ran into the end left behind (ordinary protocol of a re-used std stream)
      Snap got; Logical lg; std::streamoff off = 0; std::string text = last_text;
      const std::string ref = r.action == 7 ? std::string() : bytes_of(*r.it, r.md);
      switch(r.action)
      {
      case 0: case 1:
        if(r.action == 1) { ss.str(std::string()); ss.clear(); }
        in_phase("write_out", [&] { r.it->write(ss, r.md); });
        ss.seekg(0);
        break;
      case 2:
        ss.seekp(0, std::ios_base::end);
        off = std::streamoff(ss.tellp());
        in_phase("write_out", [&] { r.it->write(ss, r.md); });
        ss.seekg(off);
        break;
      case 3:
        ss.seekp(0);
        in_phase("write_out", [&] { r.it->write(ss, r.md); });
        ss.seekg(0);
        break;
      default:
        off = last_off;
        ss.seekg(off);
        break;
      }
      if(r.action != 7)
      {
        text = ref;
        const std::string all = ss.str();
        content_check(rep, op, all.data(), std::streamsize(all.size()), std::size_t(off), ref, r.action != 3);
      }
      got = r.it->read(ss, r.md, r.target, &lg);
      last_off = off; last_text = text;
      judge(rep, op, r, got, lg, text);
    }
    catch(std::exception& e) { c.viol(op, "exception", vh::J().kv("what", e.what()).kv("round", (unsigned long)q).str()); break; }
  }
}

VH_FAMILY(stream_reuse)
{
  const bool use_bs = (c.k % 3) != 2;
  Pool pool;
  std::vector<Round> rounds;
  const int nrounds = int(c.rng.range(2, c.thorough() ? 6 : 5));
  // edge corpus: the first case indices walk through every action as the SECOND round of every kind
  static const int bs_acts[] = {1, 2, 3, 4, 5, 6, 7, 4, 5};
  static const int ss_acts[] = {1, 2, 3, 7};
  std::vector<int> kinds_used;
  vh::J arr('[');
  for(int q = 0; q < nrounds; ++q)
  {
    Round r;
    int kind = int(c.rng.below(n_kinds));
    if(q > 0 && c.rng.coin(0.45)) kind = c.rng.pick(kinds_used);   // same type again: the persistent target holds the earlier object
    if(c.k < 96 && q < 2) kind = int((c.k / 3) % n_kinds);
    kinds_used.push_back(kind);
    const bool first_dbl = q > 0 && rounds[0].it->kind.find("double") != std::string::npos;
    const bool dbl = q == 0 ? c.rng.coin() : (c.rng.coin(0.7) ? first_dbl : !first_dbl);
    r.it = dbl ? gen_item<double, u64>(c, kind, pool) : gen_item<float, u32>(c, kind, pool);
    if(q == 0) r.action = 0;
    else if(use_bs) r.action = (c.k < 96 && q == 1) ? bs_acts[(c.k / 24 * 3 + c.k % 3) % 9] : bs_acts[c.rng.below(9)];
    else r.action = (c.k < 96 && q == 1) ? ss_acts[(c.k / 24) % 4] : ss_acts[c.rng.below(4)];
    if(r.action == 7)
    { // read the object of the previous round again (same item, same mode), possibly into another kind of target
      r.it = rounds.back().it; r.md = rounds.back().md; kinds_used.back() = kinds_used[kinds_used.size() - 2];
    }
    else
    {
      const bool text_ok = !use_bs && !r.it->text.empty() && r.action != 3;
      r.md = text_ok && c.rng.coin(0.4) ? c.rng.pick(r.it->text) : c.rng.pick(r.it->bin);
    }
    r.target = int(c.rng.below(3)); if(c.rng.coin(0.3)) r.target = 1;
    r.pre = int(c.rng.below(3));
    r.seek = c.rng.coin(0.35);
    rounds.push_back(r);
    arr.add_raw(vh::J().kv("kind", r.it->kind).kv("shape", r.it->shape).kv("mode", r.md.name).kv("action", use_bs ? bs_action[r.action] : ss_action[r.action]).kv("target", tgt_name(r.target)).str());
  }
  c.desc = vh::J().kv("transport", use_bs ? "one FEAT::BinaryStream" : "one std::stringstream").raw("rounds", arr.str()).str();
  std::vector<std::string> base = {use_bs ? "via:binarystream" : "via:stringstream", std::string("rounds:") + (nrounds <= 2 ? "2" : nrounds <= 4 ? "3-4" : "5-6")};
  if(use_bs) run_binarystream(c, rounds, base); else run_stringstream(c, rounds, base);
  std::set<std::string> acts; for(std::size_t q = 1; q < rounds.size(); ++q) acts.insert(use_bs ? bs_action[rounds[q].action] : ss_action[rounds[q].action]);
  for(auto& a : acts) base.push_back(a);
  c.tags = base; c.sig = vg::sig_of("stream_reuse", base);
}
