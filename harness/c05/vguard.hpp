// vguard.hpp -- guarded execution of monitored FEAT calls (candidate for harness/common; identical copies live in
// harness/c05 and harness/c19).
//
// A *group* is a sequence of sub-operations of one case (e.g. the 8 render types of one relation, the file modes of one
// container) that share an op name and differ in a few tags.  In-process mode simply loops.  Forked mode (used for the
// structural edge classes where the pinned tree aborts / crashes) runs the whole group in ONE child; the child announces
// every sub-operation on stderr, so that a death is attributed to exactly one sub-operation (op + its tags), after which
// the remaining sub-operations are run in a fresh child.  Violations found by the oracle inside the child are sent to the
// parent as text lines.  Cost control: a probe class (op + cap key) that already died twice in this process is not run
// again (each death costs a sanitizer / abort report of ~0.2 s); a single case replayed in isolation always runs it.
#pragma once
#include <common/vh.hpp>
#include <csignal>

namespace vg
{
  struct Rep
  {
    vh::Ctx& c; bool child; int sub;
    void viol(const std::string& op, const std::string& kind, const std::string& detail = "{}")
    {
      if(child) { std::fprintf(stderr, "\nVH-VIOL\t%s\t%s\t%s\n", op.c_str(), kind.c_str(), detail.c_str()); std::fflush(stderr); }
      else c.viol(op, kind, detail);
    }
  };
  inline std::string classify_death(const vh::ForkResult& r, const std::string& t)
  {
    auto word_after = [&](const char* key) { auto p = t.find(key); std::string w; if(p == std::string::npos) return w; p += std::strlen(key);
      while(p < t.size() && (std::isalnum((unsigned char)t[p]) || t[p] == '-' || t[p] == '_')) w += t[p++]; return w; };
    if(r.exited && r.code == 3) return "exception";
    if(t.find("ERROR: AddressSanitizer") != std::string::npos) { std::string w = word_after("ERROR: AddressSanitizer: "); return "asan:" + (w.empty() ? std::string("report") : w); }
    if(t.find("runtime error:") != std::string::npos) return "ubsan";
    if(t.find("FATAL ERROR") != std::string::npos || t.find("ABORT") != std::string::npos) return "abort";
    if(t.find("terminate called") != std::string::npos) return "uncaught";
    if(r.sig == SIGXCPU || r.sig == SIGKILL) return "cpu-limit";
    if(r.sig) return "signal:" + std::to_string(r.sig);
    return "exit:" + std::to_string(r.code);
  }
  // first lines of a FEAT abort / sanitizer report (the part that identifies the site)
  inline std::string head_of_report(const std::string& s)
  {
    std::size_t p = s.find("FATAL ERROR"); if(p == std::string::npos) p = s.find("ERROR: AddressSanitizer"); if(p == std::string::npos) p = s.find("runtime error:");
    if(p == std::string::npos) p = s.find("VH-CHILD-EXCEPTION"); if(p == std::string::npos) return s.size() > 600 ? s.substr(s.size() - 600) : s;
    std::size_t b = s.rfind('\n', p); b = b == std::string::npos ? 0 : b + 1;
    return s.substr(b, 1100);
  }
  inline std::map<std::string, int>& deaths() { static std::map<std::string, int> d; return d; }

  // tagfn(i) -> the complete tag list of sub-operation i ; keyfn(i) -> death-cap class of sub-operation i ;
  // fn(rep, i) runs the FEAT call(s) and the oracle of sub-operation i.
  // opfn(i) -> op name of sub-operation i
  template<typename OpFn, typename TagFn, typename KeyFn, typename F>
  void group_ops(vh::Ctx& c, OpFn opfn, bool forked, int nsub, TagFn tagfn, KeyFn keyfn, F fn, unsigned cpu_seconds = 20)
  {
    if(!forked)
    {
      for(int i = 0; i < nsub; ++i)
      {
        const std::string op = opfn(i);
        c.tags = tagfn(i); c.set_op(op); c.event();
        Rep rep{c, false, i};
        try { fn(rep, i); }
        catch(std::exception& e) { c.viol(op, "exception", vh::J().kv("what", e.what()).str()); }
      }
      return;
    }
    int start = 0;
    while(start < nsub)
    {
      std::vector<char> skip(std::size_t(nsub), 0);
      bool any = false;
      for(int i = start; i < nsub; ++i) { skip[std::size_t(i)] = deaths()[opfn(i) + "|" + keyfn(i)] >= 2; if(skip[std::size_t(i)]) c.count("forked_probes_skipped_class_already_died_twice"); else any = true; }
      if(!any) return;
      c.tags = tagfn(start); c.set_op(opfn(start));
      c.count("forks");
      // after two probes of this worker ran into the full CPU limit the tree is violating anyway: cut further ones short
      static int cpu_limit_deaths = 0;
      const unsigned cpu_lim = cpu_limit_deaths >= 2 ? std::min(cpu_seconds, 4u) : cpu_seconds;
      vh::ForkResult r = vh::run_forked([&] {
        for(int i = start; i < nsub; ++i)
        {
          if(skip[std::size_t(i)]) continue;
          std::fprintf(stderr, "\nVH-SUB\t%d\n", i); std::fflush(stderr);
          Rep rep{c, true, i};
          try { fn(rep, i); }
          catch(std::exception& e) { rep.viol(opfn(i), "exception", vh::J().kv("what", e.what()).str()); }
        }
      }, cpu_lim);
      if(!r.clean() && (r.sig == SIGXCPU || r.sig == SIGKILL)) ++cpu_limit_deaths;
      // replay the child's protocol lines in order
      int cur = -1; std::size_t pos = 0, cur_pos = 0;
      while(pos < r.err.size())
      {
        std::size_t e = r.err.find('\n', pos); if(e == std::string::npos) e = r.err.size();
        if(r.err.compare(pos, 7, "VH-SUB\t") == 0)
        { cur = std::atoi(r.err.c_str() + pos + 7); cur_pos = e; if(cur >= 0 && cur < nsub) { c.tags = tagfn(cur); c.set_op(opfn(cur)); c.event(); c.count("forked_probes"); } }
        else if(r.err.compare(pos, 8, "VH-VIOL\t") == 0)
        {
          std::string line = r.err.substr(pos + 8, e - pos - 8);
          std::size_t t1 = line.find('\t'), t2 = t1 == std::string::npos ? t1 : line.find('\t', t1 + 1);
          if(t2 != std::string::npos) c.viol(line.substr(0, t1), line.substr(t1 + 1, t2 - t1 - 1), line.substr(t2 + 1));
        }
        pos = e + 1;
      }
      if(r.clean()) return;
      if(cur < 0 || cur >= nsub) { c.viol(opfn(start), "harness-fork-failed", vh::J().kv("stderr", head_of_report(r.err)).str()); return; }
      const std::string rest = r.err.substr(cur_pos);
      const std::string op = opfn(cur);
      ++deaths()[op + "|" + keyfn(cur)];
      c.viol(op, classify_death(r, rest), vh::J().kv("report", head_of_report(rest)).kv("signal", r.sig).kv("exit_code", r.code).str());
      start = cur + 1;
    }
  }
  template<typename TagFn, typename KeyFn, typename F>
  void group(vh::Ctx& c, const std::string& op, bool forked, int nsub, TagFn tagfn, KeyFn keyfn, F fn, unsigned cpu_seconds = 20)
  { group_ops(c, [&](int) { return op; }, forked, nsub, tagfn, keyfn, fn, cpu_seconds); }
  // single operation
  template<typename F>
  void one(vh::Ctx& c, const std::string& op, bool forked, const std::vector<std::string>& tags, const std::string& key, F fn, unsigned cpu_seconds = 20)
  { group(c, op, forked, 1, [&](int) { return tags; }, [&](int) { return key; }, [&](Rep& rep, int) { fn(rep); }, cpu_seconds); }

  inline std::vector<std::string> with(std::vector<std::string> base, std::initializer_list<std::string> extra)
  { for(auto& e : extra) if(std::find(base.begin(), base.end(), e) == base.end()) base.push_back(e); return base; }
  inline std::string sig_of(const std::string& family, const std::vector<std::string>& base)
  { auto t = base; std::sort(t.begin(), t.end()); std::string s = family; for(auto& x : t) s += "|" + x; return s; }
} // namespace vg
