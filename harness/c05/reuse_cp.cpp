// C05 -- OBJECT STATES of Control::CheckpointControl: ONE control object (and ONE BinaryStream / ONE file name) goes
// through 2-4 save / load cycles.  Between the cycles objects are removed, added under new identifiers or replaced under
// the SAME identifier by an object of other content / kind; the checkpoint is saved to the re-used stream (cleared,
// or a new one), to a file (same name again or a new name) or to both; it is loaded by the saving control itself or by
// one re-used second control (clear_input between the loads), possibly twice; the restore targets of later cycles still
// hold what the previous cycle restored.  Every cycle is judged like the first: every registered object restores
// bit-identically to the CURRENT generation of ITS identifier (leaf-wise snapshot comparator); a match with an older
// generation / another object is reported as restored-stale-generation / restored-a-sibling.
#include <c05/cpobj.hpp>
#include <set>
#include <map>
using namespace c05;

namespace
{
  struct Slot { std::string id; std::unique_ptr<Obj> obj; bool has_target = false; std::vector<std::vector<Snap>> older; };
  std::unique_ptr<Obj> gen_obj(vh::Ctx& c)
  {
    for(;;)
    {
      int kind = int(c.rng.below(9)); if(kind == 3) kind = 0;           // SparseVectorBlocked: forked edge class of the plain families
      std::unique_ptr<Obj> o = c.rng.coin() ? make_plain_obj<double, u64>(c, kind) : make_plain_obj<float, u32>(c, kind);
      if(!o->edge) return o;                                            // structural edge classes are judged by 'checkpoint'
    }
  }
  std::vector<std::string> split_lines(const std::string& lst)
  {
    std::vector<std::string> got; std::size_t q = 0;
    if(lst.empty()) return got;
    while(q <= lst.size()) { std::size_t e = lst.find('\n', q); if(e == std::string::npos) e = lst.size(); got.push_back(lst.substr(q, e - q)); q = e + 1; }
    return got;
  }
}

VH_FAMILY(checkpoint_reuse)
{
  const std::string op = "reuse.checkpoint";
  const int ncycles = int(c.rng.range(2, 4));
  auto comm = FEAT::Dist::Comm::world();
  CheckpointControl cp(comm), cp2(comm);
  bool cp_loaded = false, cp2_loaded = false;
  FEAT::BinaryStream bs; bool bs_used = false;
  tmpdir();
  const std::string path_a = tmpdir() + "/k" + std::to_string((unsigned long long)c.k) + "_cpreuse_a.cp", path_b = tmpdir() + "/k" + std::to_string((unsigned long long)c.k) + "_cpreuse_b.cp";
  std::vector<Slot> slots;
  std::vector<std::string> all_ids;
  std::set<std::string> seen_tags;
  vh::J arr('[');
  std::vector<std::string> base = {std::string("cycles:") + std::to_string(ncycles)};
  for(int cyc = 0; cyc < ncycles; ++cyc)
  {
    // ---- mutation of the registered set
    std::vector<std::string> muts;
    if(cyc == 0)
    {
      const int n = int(c.rng.range(1, 5));
      for(int i = 0; i < n; ++i) { Slot s; s.id = gen_id(c.rng, all_ids); all_ids.push_back(s.id); s.obj = gen_obj(c); s.obj->add(cp, String(s.id)); slots.push_back(std::move(s)); }
    }
    else
    {
      const int nm = int(c.rng.range(c.k % 5 == 0 ? 0 : 1, 3));
      for(int m = 0; m < nm; ++m)
      {
        const int what = int(c.rng.below(3));
        if(what == 0 && slots.size() > 1)
        { const std::size_t i = c.rng.below(slots.size()); cp.remove_object(String(slots[i].id)); slots.erase(slots.begin() + long(i)); muts.push_back("mut:remove"); }
        else if(what == 1 || slots.size() <= 1)
        { Slot s; s.id = gen_id(c.rng, all_ids); all_ids.push_back(s.id); s.obj = gen_obj(c); s.obj->add(cp, String(s.id)); slots.push_back(std::move(s)); muts.push_back("mut:add"); }
        else
        { // another object under the SAME identifier
          Slot& s = slots[c.rng.below(slots.size())];
          cp.remove_object(String(s.id));
          s.older.push_back(s.obj->orig);
          std::unique_ptr<Obj> old = std::move(s.obj);
          s.obj = gen_obj(c); s.obj->add(cp, String(s.id)); s.has_target = false;
          muts.push_back(old->kind == s.obj->kind ? "mut:replace_same_kind" : "mut:replace_other_kind");
        }
      }
      if(muts.empty()) muts.push_back("mut:none");
    }
    const int nobj = int(slots.size());
    // ---- plan of this cycle
    const int save_to = int(c.rng.below(4));          // 0 stream, 1 file, 2 stream then file (load from file), 3 file then stream (load from stream)
    const bool new_stream = c.rng.coin(0.25);           // otherwise the ONE stream object, cleared when it was used before
    const bool same_file = c.rng.coin(0.6);
    const bool self_load = c.rng.coin(0.4);
    const bool twice = c.rng.coin(0.4);
    std::vector<std::string> tags = base;
    tags.push_back(cyc == 0 ? "cycle:first" : "cycle:later");
    tags.push_back(save_to == 0 ? "save:stream" : save_to == 1 ? "save:file" : save_to == 2 ? "save:stream+file" : "save:file+stream");
    const bool from_stream = save_to == 0 || save_to == 3;
    if(save_to != 1) tags.push_back(new_stream || !bs_used ? "stream:fresh" : "stream:cleared");
    if(save_to != 0) tags.push_back(same_file ? "file:same_name" : "file:other_name");
    tags.push_back(self_load ? "loader:same_control" : "loader:second_control");
    if((self_load && cp_loaded) || (!self_load && cp2_loaded)) tags.push_back("loader:loaded_before");
    if(twice) tags.push_back("load:twice");
    for(auto& m : muts) if(std::find(tags.begin(), tags.end(), m) == tags.end()) tags.push_back(m);
    for(auto& t : tags) if(t.compare(0, 6, "cycles") != 0 && t != "cycle:first") seen_tags.insert(t);
    c.tags = tags; c.set_op(op); c.event();
    { vh::J oa('['); for(auto& s : slots) oa.add_raw(vh::J().kv("id", s.id).kv("kind", s.obj->kind).kv("shape", s.obj->summary).str());
      std::string tl; for(auto& t : tags) tl += t + " "; arr.add_raw(vh::J().kv("cycle", cyc).kv("plan", tl).raw("objects", oa.str()).str()); c.desc = vh::J().raw("cycles", arr.str()).str(); }
    try
    {
      // every identifier is listed, nothing else
      {
        std::vector<std::string> got = split_lines(cp.get_identifier_list()), want;
        for(auto& s : slots) want.push_back(s.id);
        std::sort(want.begin(), want.end()); std::sort(got.begin(), got.end());
        if(got != want) c.viol(op, "identifier-list", vh::J().kv("got", (unsigned long)got.size()).kv("expected", (unsigned long)want.size()).str());
      }
      // ---- save
      FEAT::BinaryStream other;
      FEAT::BinaryStream& st = new_stream ? other : bs;
      const std::string path = same_file ? path_a : path_b;
      auto save_stream = [&] { if(!new_stream) { if(bs_used) bs.clear(); bs_used = true; } cp.save(st); };
      auto save_file = [&] { cp.save(String(path)); };
      if(save_to == 0) save_stream(); else if(save_to == 1) save_file(); else if(save_to == 2) { save_stream(); save_file(); } else { save_file(); save_stream(); }
      // ---- load (once or twice) + restore
      CheckpointControl& loader = self_load ? cp : cp2;
      bool& loaded = self_load ? cp_loaded : cp2_loaded;
      for(int pass = 0; pass < (twice ? 2 : 1); ++pass)
      {
        if(loaded)
        {
          loader.clear_input();
          if(self_load)
          { // clear_input must not touch the registered objects
            std::vector<std::string> got = split_lines(cp.get_identifier_list());
            if(int(got.size()) != nobj) c.viol(op, "clear_input-changed-registered-objects", vh::J().kv("got", (unsigned long)got.size()).kv("expected", nobj).str());
          }
        }
        if(from_stream) { st.seekg(0); loader.load(st); } else loader.load(String(path));
        loaded = true;
        std::vector<int> order(static_cast<std::size_t>(nobj)); for(int i = 0; i < nobj; ++i) order[std::size_t(i)] = i;
        c.rng.shuffle(order);
        for(int i : order)
        {
          Slot& s = slots[std::size_t(i)];
          if(!s.has_target || c.rng.coin(0.3)) { s.obj->reset_target(c.rng.coin()); s.has_target = true; }   // otherwise: the target still holds the previous restore
          s.obj->restore(loader, String(s.id), false);
        }
        NoRep quiet;
        for(int i = 0; i < nobj; ++i)
        {
          Slot& s = slots[std::size_t(i)]; Obj& o = *s.obj;
          if(!same_leaves(quiet, op, o.orig, o.source_now())) c.viol(op, "input-modified", vh::J().kv("object", i).kv("kind", o.kind).kv("cycle", cyc).str());
          const std::vector<Snap> got = o.restored();
          if(!same_leaves(quiet, op, o.orig, got))
          {
            int sibling = -1; bool stale = false;
            for(int j = 0; j < nobj; ++j) if(j != i && same_leaves(quiet, op, slots[std::size_t(j)].obj->orig, got)) sibling = j;
            for(auto& old : s.older) if(same_leaves(quiet, op, old, got)) stale = true;
            Rep rep{c, false, cyc};
            rep.viol(op, stale ? "restored-stale-generation" : sibling >= 0 ? "restored-a-sibling" : "restored-object-differs",
              vh::J().kv("cycle", cyc).kv("load_pass", pass).kv("object", i).kv("kind", o.kind).kv("id", s.id).kv("shape", o.summary).kv("equals_object", sibling).str());
            same_leaves(rep, op, o.orig, got);
          }
        }
      }
    }
    catch(std::exception& e) { c.viol(op, "exception", vh::J().kv("what", e.what()).kv("cycle", cyc).str()); break; }
  }
  ::unlink(path_a.c_str()); ::unlink(path_b.c_str());
  for(auto& t : seen_tags) base.push_back(t);
  c.tags = base; c.sig = vg::sig_of("checkpoint_reuse", base);
}
