// C05 -- shared helpers: bit snapshots of containers, logical images for the text modes, printed-precision comparator,
// transports (stringstream / BinaryStream / real file), generic round-trip driver, typed serialize driver.
#pragma once
#include <common/vh_lafem.hpp>
#include <c05/vguard.hpp>
#include <kernel/lafem/sparse_vector.hpp>
#include <kernel/lafem/sparse_vector_blocked.hpp>
#include <kernel/util/binary_stream.hpp>
#include <fstream>
#include <sstream>
#include <dirent.h>
#include <sys/stat.h>

namespace c05
{
  using FEAT::Index; using FEAT::String; using FEAT::LAFEM::FileMode; using vg::Rep;
  using namespace FEAT::LAFEM;
  typedef long double LD;
  typedef std::uint32_t u32; typedef std::uint64_t u64;

  // ------------------------------------------------------------------ scratch directory /verif/.cache/tmp/c05-<pid>/
  inline void rm_dir_flat(const std::string& d)
  {
    if(DIR* dir = opendir(d.c_str()))
    {
      while(dirent* e = readdir(dir)) { std::string n = e->d_name; if(n != "." && n != "..") ::unlink((d + "/" + n).c_str()); }
      closedir(dir);
    }
    ::rmdir(d.c_str());
  }
  inline std::string& tmpdir_store() { static std::string d; return d; }
  inline pid_t& tmpdir_owner() { static pid_t p = 0; return p; }
  inline void tmpdir_cleanup() { if(!tmpdir_store().empty() && getpid() == tmpdir_owner()) rm_dir_flat(tmpdir_store()); }
  inline const std::string& tmpdir()
  {
    std::string& d = tmpdir_store();
    if(!d.empty()) return d;
    const char* cache = std::getenv("VERIF_CACHE");
    std::string base = std::string(cache ? cache : "/verif/.cache") + "/tmp";
    ::mkdir((std::string(cache ? cache : "/verif/.cache")).c_str(), 0755); ::mkdir(base.c_str(), 0755);
    // sweep directories left behind by workers that crashed
    if(DIR* dir = opendir(base.c_str()))
    {
      std::vector<std::string> stale;
      while(dirent* e = readdir(dir))
      {
        std::string n = e->d_name;
        if(n.compare(0, 4, "c05-") != 0) continue;
        long pid = std::atol(n.c_str() + 4);
        struct stat st; if(pid > 0 && ::stat(("/proc/" + std::to_string(pid)).c_str(), &st) != 0) stale.push_back(base + "/" + n);
      }
      closedir(dir);
      for(auto& s : stale) rm_dir_flat(s);
    }
    d = base + "/c05-" + std::to_string(long(getpid()));
    ::mkdir(d.c_str(), 0755);
    tmpdir_owner() = getpid();
    std::atexit(tmpdir_cleanup);
    return d;
  }
  inline std::string slurp(const std::string& path)
  { std::ifstream f(path.c_str(), std::ios::in | std::ios::binary); std::stringstream ss; ss << f.rdbuf(); return ss.str(); }

  // ------------------------------------------------------------------ bit snapshot of a container
  // elements are stored as double (float -> double is injective, so bit equality is preserved), indices as u64
  struct Snap
  {
    std::vector<u64> scalar_index, el_size, idx_size;
    std::vector<double> scalar_dt;
    std::vector<std::vector<double>> el;
    std::vector<std::vector<u64>> idx;
    std::vector<char> el_null, idx_null;
  };
  template<typename C>
  Snap snap(const C& a)
  {
    Snap s;
    for(auto v : a.get_scalar_index()) s.scalar_index.push_back(u64(v));
    for(auto v : a.get_scalar_dt()) s.scalar_dt.push_back(double(v));
    const auto& el = a.get_elements(); const auto& es = a.get_elements_size();
    for(std::size_t i = 0; i < es.size(); ++i) s.el_size.push_back(u64(es[i]));
    for(std::size_t i = 0; i < el.size(); ++i)
    {
      std::vector<double> v; const std::size_t n = i < es.size() ? std::size_t(es[i]) : 0;
      s.el_null.push_back(el[i] == nullptr);
      if(el[i]) { v.resize(n); for(std::size_t k = 0; k < n; ++k) v[k] = double(el[i][k]); }
      s.el.push_back(v);
    }
    const auto& in = a.get_indices(); const auto& is = a.get_indices_size();
    for(std::size_t i = 0; i < is.size(); ++i) s.idx_size.push_back(u64(is[i]));
    for(std::size_t i = 0; i < in.size(); ++i)
    {
      std::vector<u64> v; const std::size_t n = i < is.size() ? std::size_t(is[i]) : 0;
      s.idx_null.push_back(in[i] == nullptr);
      if(in[i]) { v.resize(n); for(std::size_t k = 0; k < n; ++k) v[k] = u64(in[i][k]); }
      s.idx.push_back(v);
    }
    return s;
  }
  inline bool bits_eq(const std::vector<double>& a, const std::vector<double>& b, std::size_t* where)
  {
    if(a.size() != b.size()) { *where = std::min(a.size(), b.size()); return false; }
    for(std::size_t i = 0; i < a.size(); ++i) if(std::memcmp(&a[i], &b[i], sizeof(double)) != 0) { *where = i; return false; }
    return true;
  }
  // bitwise comparator: scalar tables + array counts/sizes ("layout") and array contents ("bits")
  struct NoRep { template<typename... A> void viol(A&&...) {} };
  template<typename R>
  inline bool same_bits(R& rep, const std::string& op, const Snap& want, const Snap& got)
  {
    auto lay = [&](const char* what, const std::vector<u64>& w, const std::vector<u64>& g) {
      if(w == g) return true;
      rep.viol(op, "layout", vh::J().kv("table", what).raw("got", vh::jarr(g, 16)).raw("expected", vh::jarr(w, 16)).str()); return false; };
    if(!lay("scalar_index", want.scalar_index, got.scalar_index)) return false;
    if(!lay("elements_size", want.el_size, got.el_size)) return false;
    if(!lay("indices_size", want.idx_size, got.idx_size)) return false;
    std::size_t w = 0;
    if(!bits_eq(want.scalar_dt, got.scalar_dt, &w)) { rep.viol(op, "layout", vh::J().kv("table", "scalar_dt").kv("at", (unsigned long)w).str()); return false; }
    if(want.el.size() != got.el.size() || want.idx.size() != got.idx.size())
    { rep.viol(op, "layout", vh::J().kv("table", "array-count").kv("got_elements", (unsigned long)got.el.size()).kv("expected_elements", (unsigned long)want.el.size())
        .kv("got_indices", (unsigned long)got.idx.size()).kv("expected_indices", (unsigned long)want.idx.size()).str()); return false; }
    for(std::size_t i = 0; i < want.el.size(); ++i) if(!bits_eq(want.el[i], got.el[i], &w))
    { rep.viol(op, "bits", vh::J().kv("array", "elements").kv("which", (unsigned long)i).kv("at", (unsigned long)w)
        .kv("got", w < got.el[i].size() ? got.el[i][w] : 0.0).kv("expected", w < want.el[i].size() ? want.el[i][w] : 0.0).kv("got_len", (unsigned long)got.el[i].size()).kv("expected_len", (unsigned long)want.el[i].size()).str()); return false; }
    for(std::size_t i = 0; i < want.idx.size(); ++i) if(want.idx[i] != got.idx[i])
    { std::size_t k = 0; while(k < want.idx[i].size() && k < got.idx[i].size() && want.idx[i][k] == got.idx[i][k]) ++k;
      rep.viol(op, "bits", vh::J().kv("array", "indices").kv("which", (unsigned long)i).kv("at", (unsigned long)k).kv("got_len", (unsigned long)got.idx[i].size()).kv("expected_len", (unsigned long)want.idx[i].size()).str()); return false; }
    return true;
  }

  // ------------------------------------------------------------------ logical images (text modes)
  struct Logical
  {
    u64 rows = 0, cols = 1; bool ok = true; std::string why;
    std::vector<u64> pos;       // stored positions (row * cols + col), ascending
    std::vector<double> val;
    void add(u64 p, double v) { pos.push_back(p); val.push_back(v); }
  };
  // fallback for kinds without a text mode (never judged)
  template<typename C> Logical logical(const C&) { Logical l; l.ok = false; l.why = "kind has no text mode"; return l; }
  template<typename DT, typename IT> Logical logical(const DenseVector<DT, IT>& a)
  { Logical l; l.rows = a.size(); const DT* e = a.elements(); for(Index i = 0; i < a.size(); ++i) l.add(i, double(e[i])); return l; }
  template<typename DT, typename IT, int BS> Logical logical(const DenseVectorBlocked<DT, IT, BS>& a)
  { Logical l; const Index n = a.template size<Perspective::pod>(); l.rows = n; const DT* e = a.template elements<Perspective::pod>(); for(Index i = 0; i < n; ++i) l.add(i, double(e[i])); return l; }
  template<typename DT, typename IT> Logical logical(const SparseVector<DT, IT>& a)
  {
    Logical l; l.rows = a.size(); const Index n = a.used_elements();
    const DT* e = a.elements(); const IT* ix = a.indices();
    for(Index i = 0; i < n; ++i)
    {
      if(Index(ix[i]) >= a.size()) { l.ok = false; l.why = "index out of range"; return l; }
      if(i > 0 && ix[i] <= ix[i - 1]) { l.ok = false; l.why = "indices not strictly increasing"; return l; }
      l.add(ix[i], double(e[i]));
    }
    return l;
  }
  // CSR decoded from the raw arrays; row_ptr is validated completely BEFORE anything is read through it
  template<typename DT, typename IT> Logical logical(const SparseMatrixCSR<DT, IT>& a)
  {
    Logical l; l.rows = a.rows(); l.cols = a.columns(); const Index R = a.rows(), C = a.columns(), nz = a.used_elements();
    if(nz == 0) return l;
    const IT* rp = a.row_ptr(); const IT* ci = a.col_ind(); const DT* v = a.val();
    if(!rp || !ci || !v) { l.ok = false; l.why = "null array with used_elements>0"; return l; }
    const auto& isz = a.get_indices_size(); const auto& esz = a.get_elements_size();
    if(isz.size() < 2 || esz.size() < 1 || isz[0] < nz || isz[1] < R + 1 || esz[0] < nz) { l.ok = false; l.why = "array sizes smaller than used_elements / rows+1"; return l; }
    if(rp[0] != 0) { l.ok = false; l.why = "row_ptr[0]!=0"; return l; }
    for(Index i = 0; i < R; ++i) if(rp[i + 1] < rp[i] || Index(rp[i + 1]) > nz) { l.ok = false; l.why = "row_ptr not monotone / beyond used_elements at row " + std::to_string(i) + " (value " + std::to_string((unsigned long)rp[i + 1]) + ")"; return l; }
    if(Index(rp[R]) != nz) { l.ok = false; l.why = "row_ptr[rows]!=used_elements"; return l; }
    for(Index i = 0; i < R; ++i) for(IT k = rp[i]; k < rp[i + 1]; ++k)
    {
      if(Index(ci[k]) >= C) { l.ok = false; l.why = "column index out of range in row " + std::to_string(i); return l; }
      if(k > rp[i] && ci[k] <= ci[k - 1]) { l.ok = false; l.why = "column indices not strictly increasing in row " + std::to_string(i); return l; }
      l.add(u64(i) * C + ci[k], double(v[k]));
    }
    return l;
  }
  template<typename DT, typename IT> Logical logical(const DenseMatrix<DT, IT>& a)
  { Logical l; l.rows = a.rows(); l.cols = a.columns(); const DT* e = a.elements(); const u64 n = u64(a.rows()) * a.columns(); for(u64 i = 0; i < n; ++i) l.add(i, double(e[i])); return l; }
  // the truth of a matrix spec in data type DT
  template<typename DT> Logical logical_of_spec(const vl::MatSpec& m)
  { Logical l; l.rows = m.rows; l.cols = m.cols; for(auto& t : m.t) l.add(u64(t.r) * m.cols + t.c, double(DT(t.v))); return l; }

  // number of digits printed after the decimal point, read off the written text (-1: no floating point token found)
  inline int printed_digits(const std::string& text)
  {
    for(std::size_t p = text.find('e'); p != std::string::npos; p = text.find('e', p + 1))
    {
      if(p + 2 >= text.size() || (text[p + 1] != '+' && text[p + 1] != '-') || !std::isdigit((unsigned char)text[p + 2])) continue;
      std::size_t q = p; int d = 0;
      while(q > 0 && std::isdigit((unsigned char)text[q - 1])) { --q; ++d; }
      if(q > 1 && text[q - 1] == '.' && std::isdigit((unsigned char)text[q - 2])) return d;
    }
    return -1;
  }
  // printed-precision comparator: identical dims and pattern; |got - want| <= half a unit of the last printed digit of
  // want's decimal mantissa (+ one rounding of the container's data type on reading back)
  template<typename DT>
  bool cmp_text(Rep& rep, const std::string& op, const Logical& want, const Logical& got, int digits)
  {
    if(!got.ok) { rep.viol(op, "structure", vh::J().kv("why", got.why).str()); return false; }
    if(want.rows != got.rows || want.cols != got.cols)
    { rep.viol(op, "dims", vh::J().kv("rows", (unsigned long)got.rows).kv("cols", (unsigned long)got.cols).kv("expected_rows", (unsigned long)want.rows).kv("expected_cols", (unsigned long)want.cols).str()); return false; }
    if(want.pos != got.pos)
    {
      std::size_t k = 0; while(k < want.pos.size() && k < got.pos.size() && want.pos[k] == got.pos[k]) ++k;
      const u64 cdiv = std::max<u64>(want.cols, 1);
      vh::J d; d.kv("stored", (unsigned long)got.pos.size()).kv("expected_stored", (unsigned long)want.pos.size()).kv("first_difference_at_entry", (unsigned long)k);
      if(k < want.pos.size()) d.kv("expected_row", (unsigned long)(want.pos[k] / cdiv)).kv("expected_col", (unsigned long)(want.pos[k] % cdiv));
      if(k < got.pos.size()) d.kv("got_row", (unsigned long)(got.pos[k] / cdiv)).kv("got_col", (unsigned long)(got.pos[k] % cdiv));
      rep.viol(op, "pattern", d.str()); return false;
    }
    if(digits < 0) digits = 6;
    for(std::size_t k = 0; k < want.val.size(); ++k)
    {
      const LD w = want.val[k], g = got.val[k];
      LD tol = 0;
      if(w != 0) { const int e = int(std::floor(std::log10(std::fabs(w)))); tol = 0.5L * std::pow(10.0L, LD(e - digits)) * (1.0L + 1e-9L) + (LD)std::numeric_limits<DT>::epsilon() * std::fabs(w); }
      if(!(g == g) || std::fabs(g - w) > tol)
      { rep.viol(op, "value", vh::J().kv("entry", (unsigned long)k).kv("position", (unsigned long)want.pos[k]).kv("got", g).kv("expected", w).kv("tolerance", tol).kv("printed_digits", digits).str()); return false; }
    }
    return true;
  }

  // ------------------------------------------------------------------ write / read through the three transports
  template<typename C> void do_write(const C& a, FileMode m, std::ostream& s, bool) { a.write_out(m, s); }
  template<typename DT, typename IT> void do_write(const SparseMatrixCSR<DT, IT>& a, FileMode m, std::ostream& s, bool sym) { a.write_out(m, s, sym); }
  template<typename C> void do_write_file(const C& a, FileMode m, const String& f, bool) { a.write_out(m, f); }
  template<typename DT, typename IT> void do_write_file(const SparseMatrixCSR<DT, IT>& a, FileMode m, const String& f, bool sym) { a.write_out(m, f, sym); }

  enum Transport { T_SS = 0, T_BS = 1, T_FILE = 2 };
  inline const char* transport_name(int t) { return t == T_SS ? "via:stringstream" : t == T_BS ? "via:binarystream" : "via:file"; }
  struct ModeDesc { FileMode mode; const char* name; bool text; bool sym; };
  struct Sub { int mode; int transport; int target; };   // target: 0 fresh object + read_from, 1 non-empty object + read_from, 2 constructor
  inline const char* target_name(int t) { return t == 0 ? "target:fresh" : t == 1 ? "target:overwrite" : "target:ctor"; }

  // performs one write -> read; returns the read-back container, the written text in `text` (text modes)
  struct PhaseError : std::runtime_error { PhaseError(const char* ph, const std::exception& e) : std::runtime_error(std::string(ph) + " threw: " + e.what()) {} };
  template<typename F> void in_phase(const char* ph, F&& f) { try { f(); } catch(PhaseError&) { throw; } catch(std::exception& e) { throw PhaseError(ph, e); } }
  template<typename C, typename RC, typename JunkFn>
  RC write_read_impl(const C& a, const ModeDesc& md, const Sub& s, const std::string& path, JunkFn& junk, std::string& text);
  template<typename C, typename RC, typename JunkFn>
  RC write_read(const C& a, const ModeDesc& md, const Sub& s, const std::string& path, JunkFn& junk, std::string& text)
  {
    try { return write_read_impl<C, RC>(a, md, s, path, junk, text); }
    catch(PhaseError&) { throw; }
    catch(std::exception& e) { throw PhaseError("read", e); }
  }
  template<typename C, typename RC, typename JunkFn>
  RC write_read_impl(const C& a, const ModeDesc& md, const Sub& s, const std::string& path, JunkFn& junk, std::string& text)
  {
    const FileMode m = md.mode;
    switch(s.transport)
    {
    case T_SS:
      {
        std::stringstream ss(std::ios::in | std::ios::out | std::ios::binary);
        in_phase("write_out", [&] { do_write(a, m, ss, md.sym); });
        if(md.text) text = ss.str();
        if(s.target == 2) return RC(m, ss);
        RC b = s.target == 1 ? junk() : RC(); b.read_from(m, ss); return b;
      }
    case T_BS:
      {
        FEAT::BinaryStream bs;
        in_phase("write_out", [&] { do_write(a, m, bs, md.sym); });
        bs.seekg(0);
        if(s.target == 2) return RC(m, bs);
        RC b = s.target == 1 ? junk() : RC(); b.read_from(m, bs); return b;
      }
    default:
      {
        in_phase("write_out", [&] { do_write_file(a, m, String(path), md.sym); });
        if(md.text) text = slurp(path);
        if(s.target == 2) { RC b(m, String(path)); ::unlink(path.c_str()); return b; }
        RC b = s.target == 1 ? junk() : RC(); b.read_from(m, String(path)); ::unlink(path.c_str()); return b;
      }
    }
  }

  inline std::string edge_key(const std::vector<std::string>& base)
  {
    std::string k;
    for(const char* t : {"entry_free", "size0", "dim0", "nnz0", "block_entry_free", "empty_row", "block_empty_row", "symmetric"})
      if(std::find(base.begin(), base.end(), std::string(t)) != base.end()) { k += "|"; k += t; }
    return k;
  }

  // generic driver: every mode x every transport it can go through; text modes are judged by `truth` (logical image of
  // the original in data type DT), binary modes bitwise against snap(a) and cross-checked with FEAT's operator==
  template<typename C, typename JunkFn>
  void io_roundtrips(vh::Ctx& c, const std::string& kind, const std::vector<std::string>& base, bool forked, const C& a,
                     const std::vector<ModeDesc>& modes, JunkFn junk, const Logical& truth)
  {
    typedef typename C::DataType DT;
    tmpdir();
    const Snap before = snap(a);
    std::vector<Sub> subs;
    int bin_mode = -1;
    for(int m = 0; m < int(modes.size()); ++m)
      for(int t = 0; t < 3; ++t)
      {
        if(!modes[std::size_t(m)].text) bin_mode = m;
        if(modes[std::size_t(m)].text && t == T_BS) continue; // BinaryStream implements no character input (no underflow): text readers cannot use it
        subs.push_back({m, t, int(c.rng.below(3))});
      }
    // last sub-operation: FEAT's own comparison of the original with a binary round trip must say "equal"
    if(bin_mode >= 0) subs.push_back({-1 - bin_mode, T_SS, 0});
    const std::string ek = edge_key(base);
    auto opfn = [&](int i) { const int m = subs[std::size_t(i)].mode; return m < 0 ? kind + ".operator==" : kind + "." + modes[std::size_t(m)].name; };
    auto tagfn = [&](int i) { const Sub& s = subs[std::size_t(i)]; return s.mode < 0 ? base : vg::with(base, {transport_name(s.transport), target_name(s.target)}); };
    auto keyfn = [&](int i) { const Sub& s = subs[std::size_t(i)]; return std::string(transport_name(s.transport)) + ek; };
    auto pathfn = [&](int i) { return tmpdir() + "/k" + std::to_string((unsigned long long)c.k) + "_" + kind + "_" + std::to_string(i) + ".dat"; };
    vg::group_ops(c, opfn, forked, int(subs.size()), tagfn, keyfn, [&](Rep& rep, int i) {
      Sub s = subs[std::size_t(i)];
      const std::string op = opfn(i);
      std::string text;
      if(s.mode < 0)
      {
        s.mode = -1 - s.mode;
        C b = write_read<C, C>(a, modes[std::size_t(s.mode)], s, pathfn(i), junk, text);
        NoRep quiet;
        if(!same_bits(quiet, op, before, snap(b))) return; // judged by the round-trip sub-operations
        if(!(a == b)) rep.viol(op, "false-on-bit-identical", "{}");
        if(!(b == a)) rep.viol(op, "false-on-bit-identical", vh::J().kv("order", "restored == original").str());
        return;
      }
      const ModeDesc& md = modes[std::size_t(s.mode)];
      C b = write_read<C, C>(a, md, s, pathfn(i), junk, text);
      { NoRep quiet; if(!same_bits(quiet, op, before, snap(a))) rep.viol(op, "input-modified", "{}"); }
      if(md.text) cmp_text<DT>(rep, op, truth, logical(b), printed_digits(text));
      else same_bits(rep, op, before, snap(b));
    });
    if(forked) for(int i = 0; i < int(subs.size()); ++i) if(subs[std::size_t(i)].transport == T_FILE) ::unlink(pathfn(i).c_str());
  }

  // ------------------------------------------------------------------ typed serialize<DT2,IT2>() / deserialize
  // K<DT,IT> a  ->  buffer = a.serialize<DT2,IT2>()  ->  K<DT2,IT2>(buffer)  and  K<DT,IT>::deserialize<DT2,IT2>(buffer).
  // Values are float-exact and indices < 2^32, so both must reproduce every scalar and array element bit-identically.
  template<typename KA, typename KB, typename DT2, typename IT2>
  void typed_one(Rep& rep, const std::string& kind, const KA& a)
  {
    const std::string op = kind + ".serialize";
    const Snap before = snap(a);
    std::vector<char> buf = a.template serialize<DT2, IT2>();
    if(buf.size() < 11 * sizeof(u64)) { rep.viol(op, "buffer-too-small", vh::J().kv("bytes", (unsigned long)buf.size()).str()); return; }
    { u64 sz; std::memcpy(&sz, buf.data(), sizeof(sz)); if(sz != buf.size()) rep.viol(op, "size-field", vh::J().kv("field", (unsigned long)sz).kv("buffer", (unsigned long)buf.size()).str()); }
    { NoRep quiet; if(!same_bits(quiet, op, before, snap(a))) rep.viol(op, "input-modified", "{}"); }
    {
      std::vector<char> copy = buf;
      KB b(copy);
      same_bits(rep, kind + ".deserialize_ctor", before, snap(b));
    }
    {
      KA c2;
      c2.template deserialize<DT2, IT2>(buf);
      same_bits(rep, kind + ".deserialize", before, snap(c2));
    }
  }
  // ------------------------------------------------------------------ type dispatch and vector builders
  template<typename T> struct Tag { typedef T type; };
  template<typename F> void with_types(int t, F&& f)
  {
    switch(t & 3)
    {
    case 0: f(Tag<double>{}, Tag<u64>{}); break;
    case 1: f(Tag<double>{}, Tag<u32>{}); break;
    case 2: f(Tag<float>{}, Tag<u64>{}); break;
    default: f(Tag<float>{}, Tag<u32>{}); break;
    }
  }
  inline Index gen_len(vh::Rng& r, bool allow0 = true)
  {
    Index n = vl::gen_dim(r, vh::thorough() ? 400 : 40, false);
    if(r.coin(0.03)) n = Index(r.range(41, vh::thorough() ? 3000 : 300));
    if(allow0 && r.coin(0.06)) n = 0;
    return n;
  }
  inline const char* len_bucket(Index n) { return n == 0 ? "size0" : n == 1 ? "size1" : n <= 8 ? "len:2-8" : n <= 40 ? "len:9-40" : "len:>40"; }

  // ---- builders (raw arrays filled by the harness)
  template<typename DT, typename IT> DenseVector<DT, IT> mk_dv(const std::vector<double>& v) { return vl::make_dv<DT, IT>(v); }
  template<typename DT, typename IT, int BS> DenseVectorBlocked<DT, IT, BS> mk_dvb(const std::vector<double>& v)
  {
    DenseVectorBlocked<DT, IT, BS> x(Index(v.size()) / Index(BS));
    DT* e = x.template elements<Perspective::pod>();
    for(std::size_t i = 0; i < v.size(); ++i) e[i] = DT(v[i]);
    return x;
  }
  struct SVSpec { Index n = 0; std::vector<Index> idx; std::vector<double> val; int build = 0; };
  inline SVSpec gen_sv(vh::Rng& r, Index n, int bs)
  {
    SVSpec s; s.n = n;
    if(n > 0)
    {
      const double dens = r.pick<double>({0.0, 0.1, 0.5, 1.0});
      for(Index i = 0; i < n; ++i) if(r.coin(dens)) s.idx.push_back(i);
      if(r.coin(0.2) && s.idx.empty()) s.idx.push_back(Index(r.below(n)));
    }
    const int st = int(r.below(4));
    for(std::size_t i = 0; i < s.idx.size() * std::size_t(bs); ++i) s.val.push_back(vl::gen_value(r, st));
    s.build = int(r.below(2));
    return s;
  }
  template<typename DT, typename IT> SparseVector<DT, IT> mk_sv(const SVSpec& s, vh::Rng r)
  {
    if(s.idx.empty()) return s.n == 0 && s.build == 0 ? SparseVector<DT, IT>() : SparseVector<DT, IT>(s.n);
    if(s.build == 0)
    {
      DenseVector<DT, IT> v(Index(s.idx.size())); DenseVector<IT, IT> ix(Index(s.idx.size()));
      for(Index i = 0; i < Index(s.idx.size()); ++i) { v(i, DT(s.val[i])); ix(i, IT(s.idx[i])); }
      return SparseVector<DT, IT>(s.n, v, ix);
    }
    // insertion in random order (leaves allocation slack behind)
    std::vector<Index> ord(s.idx.size()); for(Index i = 0; i < Index(ord.size()); ++i) ord[i] = i; r.shuffle(ord);
    SparseVector<DT, IT> x(s.n);
    for(Index k : ord) x(s.idx[k], DT(s.val[k]));
    (void)x.used_elements(); // sorts
    return x;
  }
  template<typename DT, typename IT, int BS> SparseVectorBlocked<DT, IT, BS> mk_svb(const SVSpec& s)
  {
    if(s.idx.empty()) return s.n == 0 && s.build == 0 ? SparseVectorBlocked<DT, IT, BS>() : SparseVectorBlocked<DT, IT, BS>(s.n);
    DenseVectorBlocked<DT, IT, BS> v(Index(s.idx.size())); DenseVector<IT, IT> ix(Index(s.idx.size()));
    DT* e = v.template elements<Perspective::pod>();
    for(std::size_t i = 0; i < s.val.size(); ++i) e[i] = DT(s.val[i]);
    for(Index i = 0; i < Index(s.idx.size()); ++i) ix(i, IT(s.idx[i]));
    return SparseVectorBlocked<DT, IT, BS>(s.n, v, ix);
  }
  inline const char* tt_name(int t) { static const char* n[4] = {"double/u64", "double/u32", "float/u64", "float/u32"}; return n[t & 3]; }
} // namespace c05
